(* C07 / L1: DataIndexes (DataIndexes.h) - the unique hashes, the multi hashes and the two-phase
   AddRaw / RemoveRaw / UpdateRaw(old,new) / UpdateRaw(raw, column) protocol with reject/accept.

   Rows are addresses (Z); `ct : Z -> row` is the memory (content of each row).
   A unique hash is the list of its entries (tag, row): the tag identifies the hash-set position
   (mPositionAdd / mPositionRemove are tags).  LOOKUP BY CONTENT returns the FIRST entry in list order
   whose row has the wanted key; a new entry is inserted at an ARBITRARY place of the list (parameter
   `ord`), so quantifying over `ord` quantifies over every order in which the real open-addressing table
   may meet content-equal entries.  The multi hash is the list of its keys (tag, key row, value array).
   Every fallible step (an Add into a hash, the item assigner) consults the failure schedule `fl`:
   the step whose number equals `fl` throws (HashSet::Insert / HashMultiMap::Add have strong exception
   safety, so the throwing step itself changes nothing).
   `fixu` / `fixm` select the behaviour of UniqueHash::PrepareRemove / MultiHash::PrepareRemove:
   true = skip the entry that this very update has just added (commit 4f7b624 for the unique hash). *)
From Coq Require Import List ZArith Lia Bool Arith PeanoNat Permutation.
From C07 Require Import TableSpec MultiHash.
Import ListNotations.

Definition keyc (ct : Z -> row) (cols : list nat) (raw : Z) : list Z := proj cols (ct raw).

(* etag = hash-set position; eraw = the row stored there; ekey = the key under which the entry was placed
   (it determines the bucket and therefore which lookups can see the entry) *)
Record uent := mkE { etag : nat; eraw : Z; ekey : list Z }.
Record uhash := mkU { ucols : list nat; uents : list uent; upadd : option nat; uprem : option nat }.
Record mgroup := mkG { gtag : nat; gkey : Z; gskey : list Z; gvals : list Z }.
Record mhash := mkM { mcols : list nat; mgroups : list mgroup; mpadd : option nat; mprem : option nat }.
Record istate := mkI { uhs : list uhash; mhs : list mhash; ntag : nat }.

Definition empty_istate : istate := mkI [] [] 0.

Definition place {A} (ord : nat -> nat) (tag : nat) (x : A) (l : list A) : list A :=
  insert_at (ord tag mod S (length l)) x l.

Definition opt_nat_eqb (a : option nat) (b : nat) : bool := match a with Some x => Nat.eqb x b | None => false end.

(* ------------------------------------------------------------------ UniqueHash *)

(* HashSet::Find(key k): the first entry, among those a probe for k can see (R (ekey e) k: same bucket or
   probe path and equal short hash - always true for ekey e = k), whose row has key k *)
Definition u_find (R : list Z -> list Z -> bool) (ct : Z -> row) (u : uhash) (k : list Z) : option uent :=
  find (fun e => R (ekey e) k && zlist_eqb (keyc ct (ucols u) (eraw e)) k) (uents u).

Definition u_remove_tag (t : nat) (es : list uent) : list uent :=
  filter (fun e => negb (Nat.eqb (etag e) t)) es.

(* Add(raw, oldRaw): HashSet::Insert(raw); returns *position *)
Definition u_add (ord : nat -> nat) (R : list Z -> list Z -> bool) (ct : Z -> row) (u : uhash) (raw : Z) (old : option Z) (tag : nat) : uhash * Z :=
  let k := keyc ct (ucols u) raw in
  match u_find R ct u k with
  | Some e =>
      let same := match old with Some o => Z.eqb (eraw e) o | None => false end in
      (if same then mkU (ucols u) (uents u) (Some (etag e)) (uprem u) else u, eraw e)
  | None => (mkU (ucols u) (place ord tag (mkE tag raw k) (uents u)) (Some tag) (uprem u), raw)
  end.

(* Add(HashMixedKey): look the NEW key up (row content with column c replaced by v), add the same row *)
Definition u_add_mixed (ord : nat -> nat) (R : list Z -> list Z -> bool) (ct : Z -> row) (u : uhash) (raw : Z) (c : nat) (v : Z) (tag : nat) : uhash * Z :=
  let k := proj (ucols u) (set_col c v (ct raw)) in
  match u_find R ct u k with
  | Some e => (u, eraw e)
  | None => (mkU (ucols u) (place ord tag (mkE tag raw k) (uents u)) (Some tag) (uprem u), raw)
  end.

Definition u_reject_add (u : uhash) : uhash :=
  match upadd u with
  | Some t => mkU (ucols u) (u_remove_tag t (uents u)) None (uprem u)
  | None => u
  end.

(* RejectAdd(raw): remove only if the remembered position holds raw *)
Definition u_reject_add_raw (u : uhash) (raw : Z) : uhash :=
  match upadd u with
  | Some t =>
      if existsb (fun e => Nat.eqb (etag e) t && Z.eqb (eraw e) raw) (uents u)
      then mkU (ucols u) (u_remove_tag t (uents u)) None (uprem u)
      else mkU (ucols u) (uents u) None (uprem u)
  | None => u
  end.

Definition u_accept_add (u : uhash) : uhash := mkU (ucols u) (uents u) None (uprem u).

(* AcceptAdd(raw): ResetKey(position, raw) *)
Definition u_accept_add_raw (u : uhash) (raw : Z) : uhash :=
  match upadd u with
  | Some t => mkU (ucols u) (map (fun e => if Nat.eqb (etag e) t then mkE (etag e) raw (ekey e) else e) (uents u)) None (uprem u)
  | None => u
  end.

Definition u_prepare_remove (fixu : bool) (R : list Z -> list Z -> bool) (ct : Z -> row) (u : uhash) (raw : Z) : uhash :=
  match u_find R ct u (keyc ct (ucols u) raw) with
  | None => u                                      (* MOMO_ASSERT(!!mPositionRemove) *)
  | Some e0 =>
      let t := etag e0 in
      let t' :=
        if fixu && opt_nat_eqb (upadd u) t
        then match find (fun e => Z.eqb (eraw e) raw && negb (Nat.eqb (etag e) t)) (uents u) with
             | Some e2 => etag e2
             | None => t
             end
        else t in
      mkU (ucols u) (uents u) (upadd u) (Some t')
  end.

Definition u_reject_remove (u : uhash) : uhash := mkU (ucols u) (uents u) (upadd u) None.

Definition u_accept_remove (u : uhash) : uhash :=
  match uprem u with
  | Some t => mkU (ucols u) (u_remove_tag t (uents u)) (upadd u) None
  | None => u
  end.

(* ------------------------------------------------------------------ MultiHash *)

Definition m_find (R : list Z -> list Z -> bool) (ct : Z -> row) (m : mhash) (k : list Z) : option mgroup :=
  find (fun g => R (gskey g) k && zlist_eqb (keyc ct (mcols m) (gkey g)) k) (mgroups m).

Definition m_update_group (t : nat) (f : mgroup -> mgroup) (gs : list mgroup) : list mgroup :=
  map (fun g => if Nat.eqb (gtag g) t then f g else g) gs.
Definition m_remove_group (t : nat) (gs : list mgroup) : list mgroup :=
  filter (fun g => negb (Nat.eqb (gtag g) t)) gs.
Definition m_get_group (t : nat) (gs : list mgroup) : option mgroup :=
  find (fun g => Nat.eqb (gtag g) t) gs.

(* Add(raw): InsertKey(raw); if the key row is another row, pvAdd *)
Definition m_add (ord : nat -> nat) (R : list Z -> list Z -> bool) (ct : Z -> row) (m : mhash) (raw : Z) (tag : nat) : mhash :=
  let k := keyc ct (mcols m) raw in
  match m_find R ct m k with
  | Some g =>
      let gs := if Z.eqb (gkey g) raw then mgroups m
                else m_update_group (gtag g) (fun g => mkG (gtag g) (gkey g) (gskey g) (pv_add raw (gvals g))) (mgroups m) in
      mkM (mcols m) gs (Some (gtag g)) (mprem m)
  | None => mkM (mcols m) (place ord tag (mkG tag raw k []) (mgroups m)) (Some tag) (mprem m)
  end.

Definition m_add_mixed (ord : nat -> nat) (R : list Z -> list Z -> bool) (ct : Z -> row) (m : mhash) (raw : Z) (c : nat) (v : Z) (tag : nat) : mhash :=
  let k := proj (mcols m) (set_col c v (ct raw)) in
  match m_find R ct m k with
  | Some g =>
      mkM (mcols m) (m_update_group (gtag g) (fun g => mkG (gtag g) (gkey g) (gskey g) (pv_add raw (gvals g))) (mgroups m))
          (Some (gtag g)) (mprem m)
  | None => mkM (mcols m) (place ord tag (mkG tag raw k []) (mgroups m)) (Some tag) (mprem m)
  end.

Definition m_reject_add (m : mhash) : mhash :=
  match mpadd m with
  | None => m
  | Some t =>
      match m_get_group t (mgroups m) with
      | None => mkM (mcols m) (mgroups m) None (mprem m)
      | Some g =>
          let gs := match gvals g with
                    | [] => m_remove_group t (mgroups m)
                    | _ => m_update_group t (fun g => mkG (gtag g) (gkey g) (gskey g) (removelast (gvals g))) (mgroups m)
                    end in
          mkM (mcols m) gs None (mprem m)
      end
  end.

Definition m_accept_add (m : mhash) : mhash := mkM (mcols m) (mgroups m) None (mprem m).

Definition m_prepare_remove (fixm : bool) (R : list Z -> list Z -> bool) (ct : Z -> row) (m : mhash) (raw : Z) : mhash :=
  match m_find R ct m (keyc ct (mcols m) raw) with
  | None => m
  | Some g =>
      let t := gtag g in
      let t' :=
        if fixm && opt_nat_eqb (mpadd m) t
        then match find (fun g2 => negb (Nat.eqb (gtag g2) t) && zlist_eqb (keyc ct (mcols m) (gkey g2)) (keyc ct (mcols m) raw)) (mgroups m) with
             | Some g2 => gtag g2
             | None => t
             end
        else t in
      mkM (mcols m) (mgroups m) (mpadd m) (Some t')
  end.

Definition m_reject_remove (m : mhash) : mhash := mkM (mcols m) (mgroups m) (mpadd m) None.

(* AcceptRemove(raw).  A failed MOMO_ASSERT / missing row leaves the group as it is (the oracle and the
   theorems show this never happens from consistent states). *)
Definition m_accept_remove (m : mhash) (raw : Z) : mhash :=
  match mprem m with
  | None => m
  | Some t =>
      match m_get_group t (mgroups m) with
      | None => mkM (mcols m) (mgroups m) (mpadd m) None
      | Some g =>
          let gs :=
            match gvals g with
            | [] => m_remove_group t (mgroups m)
            | _ => if Z.eqb (gkey g) raw
                   then m_update_group t (fun g => mkG (gtag g) (last (gvals g) 0%Z) (gskey g) (removelast (gvals g))) (mgroups m)
                   else match accept_remove raw (gvals g) with
                        | Some vs => m_update_group t (fun g => mkG (gtag g) (gkey g) (gskey g) vs) (mgroups m)
                        | None => mgroups m
                        end
            end in
          mkM (mcols m) gs (mpadd m) None
      end
  end.

Definition m_filter (keep : Z -> bool) (m : mhash) : mhash :=
  mkM (mcols m)
      (flat_map (fun g => match filter_group keep (gkey g) (gvals g) with
                          | Some (k, vs) => [mkG (gtag g) k (gskey g) vs]
                          | None => []
                          end) (mgroups m))
      (mpadd m) (mprem m).
Definition u_filter (keep : Z -> bool) (u : uhash) : uhash :=
  mkU (ucols u) (filter (fun e => keep (eraw e)) (uents u)) (upadd u) (uprem u).

(* ------------------------------------------------------------------ DataIndexes: the two-phase protocol *)

Inductive outcome :=
| Accepted
| Refused (raw : Z) (idx : nat)     (* Result{ raw, uniqueHashIndex } *)
| Thrown.                           (* an exception left the function *)

Definition hits (fl : option nat) (step : nat) : bool := opt_nat_eqb fl step.
Definition has_col (cols : list nat) (c : nat) : bool := existsb (Nat.eqb c) cols.

(* try-phase over the unique hashes.  f performs the Add (+ PrepareRemove) on one hash and returns the
   row found; `bad r` says that r is a conflict.  Returns the hashes, the verdict (None = go on), and
   the number of steps consumed. *)
Fixpoint u_phase (f : uhash -> nat -> uhash * Z) (bad : Z -> bool) (applies : uhash -> bool)
         (fl : option nat) (hs : list uhash) (j step tag : nat) : list uhash * option outcome * nat :=
  match hs with
  | [] => ([], None, step)
  | u :: hs' =>
      if negb (applies u) then
        let '(hs2, v, s2) := u_phase f bad applies fl hs' (S j) step tag in (u :: hs2, v, s2)
      else if hits fl step then (u :: hs', Some Thrown, S step)
      else
        let '(u', r) := f u (tag + j) in
        if bad r then (u' :: hs', Some (Refused r j), S step)
        else let '(hs2, v, s2) := u_phase f bad applies fl hs' (S j) (S step) tag in (u' :: hs2, v, s2)
  end.

Fixpoint m_phase (f : mhash -> nat -> mhash) (applies : mhash -> bool)
         (fl : option nat) (ms : list mhash) (j step tag : nat) : list mhash * option outcome * nat :=
  match ms with
  | [] => ([], None, step)
  | m :: ms' =>
      if negb (applies m) then
        let '(ms2, v, s2) := m_phase f applies fl ms' (S j) step tag in (m :: ms2, v, s2)
      else if hits fl step then (m :: ms', Some Thrown, S step)
      else
        let '(ms2, v, s2) := m_phase f applies fl ms' (S j) (S step) tag in (f m (tag + j) :: ms2, v, s2)
  end.

Definition tags_used (s : istate) : nat := length (uhs s) + length (mhs s).

Definition finish (s : istate) (us : list uhash) (ms : list mhash) (o : outcome) : istate * outcome :=
  (mkI us ms (ntag s + tags_used s), o).

(* AddRaw *)
Definition add_raw (ord : nat -> nat) (R : list Z -> list Z -> bool) (ct : Z -> row) (fl : option nat) (s : istate) (raw : Z) : istate * outcome :=
  let rej us ms := (map u_reject_add us, map m_reject_add ms) in
  let '(us1, v1, st1) := u_phase (fun u t => u_add ord R ct u raw None t) (fun r => negb (Z.eqb r raw)) (fun _ => true)
                                  fl (uhs s) 0 0 (ntag s) in
  match v1 with
  | Some o => let '(us2, ms2) := rej us1 (mhs s) in finish s us2 ms2 o
  | None =>
      let '(ms1, v2, _) := m_phase (fun m t => m_add ord R ct m raw t) (fun _ => true) fl (mhs s) 0 st1 (ntag s + length (uhs s)) in
      match v2 with
      | Some o => let '(us2, ms2) := rej us1 ms1 in finish s us2 ms2 o
      | None => finish s (map u_accept_add us1) (map m_accept_add ms1) Accepted
      end
  end.

(* RemoveRaw: the prepare phase only performs lookups; no step can fail in practice, the catch block is
   modelled for completeness by `fl` *)
Definition remove_raw (fixu fixm : bool) (R : list Z -> list Z -> bool) (ct : Z -> row) (fl : option nat) (s : istate) (raw : Z) : istate * outcome :=
  match fl with
  | Some _ => finish s (map u_reject_remove (uhs s)) (map m_reject_remove (mhs s)) Thrown
  | None =>
      let us1 := map (fun u => u_prepare_remove fixu R ct u raw) (uhs s) in
      let ms1 := map (fun m => m_prepare_remove fixm R ct m raw) (mhs s) in
      finish s (map u_accept_remove us1) (map (fun m => m_accept_remove m raw) ms1) Accepted
  end.

(* UpdateRaw(oldRaw, newRaw) *)
Definition update_raw (fixu fixm : bool) (ord : nat -> nat) (R : list Z -> list Z -> bool) (ct : Z -> row) (fl : option nat) (s : istate) (old new : Z)
  : istate * outcome :=
  let rej us ms := (map (fun u => u_reject_remove (u_reject_add_raw u new)) us, map (fun m => m_reject_remove (m_reject_add m)) ms) in
  let '(us1, v1, st1) :=
    u_phase (fun u t => let '(u', r) := u_add ord R ct u new (Some old) t in
                        (if Z.eqb r new then u_prepare_remove fixu R ct u' old else u', r))
            (fun r => negb (Z.eqb r new) && negb (Z.eqb r old)) (fun _ => true) fl (uhs s) 0 0 (ntag s) in
  match v1 with
  | Some o => let '(us2, ms2) := rej us1 (mhs s) in finish s us2 ms2 o
  | None =>
      let '(ms1, v2, _) := m_phase (fun m t => m_prepare_remove fixm R ct (m_add ord R ct m new t) old) (fun _ => true)
                                   fl (mhs s) 0 st1 (ntag s + length (uhs s)) in
      match v2 with
      | Some o => let '(us2, ms2) := rej us1 ms1 in finish s us2 ms2 o
      | None => finish s (map (fun u => u_accept_remove (u_accept_add_raw u new)) us1)
                         (map (fun m => m_accept_remove (m_accept_add m) old) ms1) Accepted
      end
  end.

(* UpdateRaw(raw, offset of column c, item v, assigner).  Returns also the memory after the call. *)
Definition update_col (fixu fixm : bool) (ord : nat -> nat) (R : list Z -> list Z -> bool) (ct : Z -> row) (fl : option nat) (s : istate) (raw : Z) (c : nat) (v : Z)
  : istate * outcome * (Z -> row) :=
  let ct' := fun r => if Z.eqb r raw then set_col c v (ct raw) else ct r in
  if Z.eqb v (getc (ct raw) c) then (s, Accepted, ct')
  else
  let rej us ms := (map (fun u => u_reject_remove (u_reject_add u)) us, map (fun m => m_reject_remove (m_reject_add m)) ms) in
  let '(us1, v1, st1) :=
    u_phase (fun u t => let '(u', r) := u_add_mixed ord R ct u raw c v t in
                        (if Z.eqb r raw then u_prepare_remove fixu R ct u' raw else u', r))
            (fun r => negb (Z.eqb r raw)) (fun u => has_col (ucols u) c) fl (uhs s) 0 0 (ntag s) in
  match v1 with
  | Some o => let '(us2, ms2) := rej us1 (mhs s) in (finish s us2 ms2 o, ct)
  | None =>
      let '(ms1, v2, st2) := m_phase (fun m t => m_prepare_remove fixm R ct (m_add_mixed ord R ct m raw c v t) raw)
                                     (fun m => has_col (mcols m) c) fl (mhs s) 0 st1 (ntag s + length (uhs s)) in
      match v2 with
      | Some o => let '(us2, ms2) := rej us1 ms1 in (finish s us2 ms2 o, ct)
      | None =>
          if hits fl st2 then let '(us2, ms2) := rej us1 ms1 in (finish s us2 ms2 Thrown, ct)    (* the item assigner throws *)
          else (finish s (map (fun u => u_accept_remove (u_accept_add u)) us1)
                         (map (fun m => m_accept_remove (m_accept_add m) raw) ms1) Accepted, ct')
      end
  end.

(* FilterRaws *)
Definition filter_raws (keep : Z -> bool) (s : istate) : istate :=
  mkI (map (u_filter keep) (uhs s)) (map (m_filter keep) (mhs s)) (ntag s).

(* pvAddHashIndex over the existing rows (in table order) *)
Fixpoint fill_unique (ord : nat -> nat) (R : list Z -> list Z -> bool) (ct : Z -> row) (u : uhash) (raws : list Z) (tag : nat) : uhash + Z :=
  match raws with
  | [] => inl u
  | r :: raws' =>
      let '(u', found) := u_add ord R ct u r None tag in
      if Z.eqb found r then fill_unique ord R ct (u_accept_add u') raws' (S tag) else inr r
  end.
Fixpoint fill_multi (ord : nat -> nat) (R : list Z -> list Z -> bool) (ct : Z -> row) (m : mhash) (raws : list Z) (tag : nat) : mhash :=
  match raws with
  | [] => m
  | r :: raws' => fill_multi ord R ct (m_accept_add (m_add ord R ct m r tag)) raws' (S tag)
  end.

Definition add_unique_index (ord : nat -> nat) (R : list Z -> list Z -> bool) (ct : Z -> row) (s : istate) (cols : list nat) (raws : list Z) : istate * option Z :=
  if existsb (fun u => natlist_eqb (ucols u) cols) (uhs s) then (s, None)
  else match fill_unique ord R ct (mkU cols [] None None) raws (ntag s) with
       | inl u => (mkI (uhs s ++ [u]) (mhs s) (ntag s + length raws), None)
       | inr r => (mkI (uhs s) (mhs s) (ntag s + length raws), Some r)
       end.
Definition add_multi_index (ord : nat -> nat) (R : list Z -> list Z -> bool) (ct : Z -> row) (s : istate) (cols : list nat) (raws : list Z) : istate :=
  if existsb (fun m => natlist_eqb (mcols m) cols) (mhs s) then s
  else mkI (uhs s) (mhs s ++ [fill_multi ord R ct (mkM cols [] None None) raws (ntag s)]) (ntag s + length raws).

(* FindRaws *)
Definition find_unique (R : list Z -> list Z -> bool) (ct : Z -> row) (u : uhash) (k : list Z) : list Z :=
  match u_find R ct u k with Some e => [eraw e] | None => [] end.
(* MultiHash::Find: empty bounds for an absent key (commit 95ed81f), else key row followed by the values *)
Definition find_multi (R : list Z -> list Z -> bool) (ct : Z -> row) (m : mhash) (k : list Z) : list Z :=
  match m_find R ct m k with Some g => gkey g :: gvals g | None => [] end.
