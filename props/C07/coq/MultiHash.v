(* C07 / L1: the value array of one key of DataIndexes::MultiHash (DataIndexes.h, class MultiHash).
   A key of the multi hash owns its key row plus the array `vals` of the further rows with equal key
   columns (a HashMultiMap value array).  Rows are row addresses (Z); the array is kept in segments of
   SegmentedArraySettings<sqrt, 6> sizes (64, 128 x3, 256 x6, ...): every segment that is followed by at
   least one more value is sorted by address, the rest is an unsorted tail.
     pv_add         = MultiHash::pvAdd           (sort the segment just completed, then append)
     accept_remove  = MultiHash::AcceptRemove    (the `else` branch: the row is one of the values)
     filter_vals    = MultiHash::FilterRaws      (inner loops for one key)
   The segment sizes are the functions GENERATED from SegmentedArray.h (Gen_Segments.v). *)
From Coq Require Import List ZArith Lia Bool Arith PeanoNat Permutation.
From MomoCommon Require Import GenPrelude.
From C07 Require Import TableSpec.
From C07 Require Gen_Segments Gen_MultiHashOps.
Import ListNotations.

Definition seg_size (k : nat) : nat := Z.to_nat (Gen_Segments.GetItemCount (Z.of_nat k)).
Definition seg_item_indexes (n : nat) : nat * nat :=
  let p := Gen_Segments.GetSegItemIndexes (Z.of_nat n) in (Z.to_nat (fst p), Z.to_nat (snd p)).
Definition first_seg : nat := 64.     (* 1 << logInitialSegmentSize *)

(* std::lower_bound on a range partitioned by (< x): index of the first element that is not < x *)
Fixpoint lb (x : Z) (l : list Z) : nat :=
  match l with
  | [] => 0
  | y :: l' => if Z.ltb y x then S (lb x l') else 0
  end.

(* std::find *)
Fixpoint index_of (x : Z) (l : list Z) : nat :=
  match l with
  | [] => 0
  | y :: l' => if Z.eqb y x then 0 else S (index_of x l')
  end.

(* HashMultiMap::Remove(keyIter, i): the last value is moved into slot i *)
Definition swap_remove (i : nat) (l : list Z) : list Z := remove_unordered i l.

(* RadixSorter::Sort on addresses (guarded by std::is_sorted): the sorted permutation *)
Fixpoint ins (x : Z) (l : list Z) : list Z :=
  match l with
  | [] => [x]
  | y :: l' => if Z.leb x y then x :: l else y :: ins x l'
  end.
Definition isort (l : list Z) : list Z := fold_right ins [] l.

(* pvAdd: rawCount = |vals|; when rawCount is a positive multiple of 64 and GetSegItemIndexes says it is
   the first slot of a segment, the previous segment [rawCount - segSize, rawCount) is sorted first *)
(* pvAdd.  The DECISION (is a sort due, and of which index range) is the function GENERATED from the real
   DataIndexes::MultiHash::pvAdd (Gen_MultiHashOps.pvAdd: the two arguments of the pvSortRaws call are recorded in
   the pseudo fields sortFrom / sortTo, both 0 when no call is made); the hand part is only what a sort of a
   range and the final append do to the array.  pv_add_hand is the former hand transcription of the decision;
   SegProofs.pv_add_is_hand proves the two equal for every array shorter than max_vals. *)
Definition sort_range (n : nat) : nat * nat :=
  let p := Gen_MultiHashOps.pvAdd 0 0 (Z.of_nat n) in
  (Z.to_nat (fst p), Z.to_nat (snd p) - Z.to_nat (fst p)).          (* (from, count) *)
Definition sort_slice (f d : nat) (vals : list Z) : list Z :=
  firstn f vals ++ isort (firstn d (skipn f vals)) ++ skipn d (skipn f vals).
Definition pv_add (raw : Z) (vals : list Z) : list Z :=
  let r := sort_range (length vals) in sort_slice (fst r) (snd r) vals ++ [raw].

Definition pv_add_hand (raw : Z) (vals : list Z) : list Z :=
  let n := length vals in
  let vals1 :=
    if Nat.ltb 0 n && Nat.eqb (n mod 64) 0 then
      let si := seg_item_indexes n in
      if Nat.eqb (snd si) 0 then
        let sz := seg_size (fst si - 1) in
        firstn (n - sz) vals ++ isort (skipn (n - sz) vals)
      else vals
    else vals in
  vals1 ++ [raw].

(* AcceptRemove, row is one of the values.  `done` = values before rawIndex1, `rest` = values from
   rawIndex1 on, sz = rawIndex2 - rawIndex1, lst = raws[rawCount - 1]. *)
Fixpoint ar_loop (fuel seg : nat) (raw lst : Z) (done rest : list Z) (sz : nat) : option (list Z) :=
  match fuel with
  | O => None
  | S f =>
      if Nat.ltb sz (length rest) then
        let sg := firstn sz rest in
        let after := skipn sz rest in
        let ri := lb raw (removelast sg) in
        if Z.eqb (nth ri sg 0%Z) raw then
          let sg1 := remove_nth ri sg in                 (* std::copy down *)
          let rj := lb lst sg1 in                        (* lower_bound for the last value *)
          Some (done ++ removelast (insert_at rj lst sg1 ++ after))   (* copy_backward, store, Remove(last) *)
        else ar_loop f (S seg) raw lst (done ++ sg) after (seg_size (S seg))
      else
        let ri := index_of raw rest in
        if Nat.ltb ri (length rest) then Some (done ++ swap_remove ri rest) else None   (* MOMO_ASSERT(raws[rawIndex] == raw) *)
  end.

Definition accept_remove (raw : Z) (vals : list Z) : option (list Z) :=
  ar_loop (S (length vals)) 0 raw (last vals 0%Z) [] vals first_seg.

(* FilterRaws for one key: drop the values failing the filter (swap-remove scan), then re-sort every
   segment that is followed by another value *)
Fixpoint filter_scan (fuel : nat) (keep : Z -> bool) (i : nat) (vals : list Z) : list Z :=
  match fuel with
  | O => vals
  | S f =>
      if Nat.ltb i (length vals)
      then if keep (nth i vals 0%Z) then filter_scan f keep (S i) vals else filter_scan f keep i (swap_remove i vals)
      else vals
  end.
Fixpoint resort (fuel seg : nat) (rest : list Z) (sz : nat) : list Z :=
  match fuel with
  | O => rest
  | S f =>
      if Nat.ltb sz (length rest)
      then isort (firstn sz rest) ++ resort f (S seg) (skipn sz rest) (seg_size (S seg))
      else rest
  end.
Definition filter_vals (keep : Z -> bool) (vals : list Z) : list Z :=
  let v := filter_scan (S (length vals)) keep 0 vals in
  resort (S (length v)) 0 v first_seg.

(* one key of the multi hash after FilterRaws: None = key removed *)
Definition filter_group (keep : Z -> bool) (key : Z) (vals : list Z) : option (Z * list Z) :=
  let v := filter_vals keep vals in
  if keep key then Some (key, v)
  else match v with
       | [] => None
       | _ => Some (last v 0%Z, removelast v)
       end.
