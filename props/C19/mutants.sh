#!/bin/bash
# usage: run_mutants.sh  -> applies each mutant to a private copy of /repo/include and runs ./check C19
set -u
OUT=/verif/build/C19/mut; mkdir -p $OUT
apply() { # name, python-expr file edits
  d=$(mktemp -d); cp -r /repo/include $d/
  python3 - "$d" "$1" <<'PY'
import sys,re,os
d,name=sys.argv[1],sys.argv[2]
row=d+'/include/momo/DataRow.h'; tab=d+'/include/momo/DataTable.h'
def sub(path,old,new,count=1):
    t=open(path).read()
    assert old in t, (name,'pattern not found')
    open(path,'w').write(t.replace(old,new,count))
if name=='M1_relaxed_cas':
    sub(row,'compare_exchange_weak(headRaw, raw)','compare_exchange_weak(headRaw, raw, std::memory_order_relaxed)')
elif name=='M2_dealloc_before_read':
    sub(tab,'''			void* nextRaw = internal::MemCopyer::FromBuffer<void*>(headRaw);
			mRawMemPool.Deallocate(headRaw);''','''			mRawMemPool.Deallocate(headRaw);
			void* nextRaw = internal::MemCopyer::FromBuffer<void*>(headRaw);''')
elif name=='M3_load_store_instead_of_exchange':
    sub(tab,'void* headRaw = mCrew.GetFreeRaws().exchange(nullptr);','void* headRaw = mCrew.GetFreeRaws().load();\n\t\tmCrew.GetFreeRaws().store(nullptr);')
elif name=='M4_store_instead_of_cas_loop':
    sub(row,'''				if (mFreeRaws->compare_exchange_weak(headRaw, raw))
					break;''','''				mFreeRaws->store(raw);
				break;''')
elif name=='M5_alloc_without_drain':
    sub(tab,'''		if (mCrew.GetFreeRaws() != nullptr)
			pvDeallocateFreeRaws();
		return mRawMemPool''','''		return mRawMemPool''')
elif name=='M6_destroy_without_drain':
    sub(tab,'''			return;
		pvDeallocateFreeRaws();
		for (Raw* raw : mRaws)''','''			return;
		for (Raw* raw : mRaws)''')
elif name=='M7_link_not_written':
    sub(row,'				MemCopyer::ToBuffer(headRaw, raw);\n','')
elif name=='M8_link_after_cas':
    sub(row,'''				MemCopyer::ToBuffer(headRaw, raw);
				if (mFreeRaws->compare_exchange_weak(headRaw, raw))
					break;''','''				if (mFreeRaws->compare_exchange_weak(headRaw, raw))
				{
					MemCopyer::ToBuffer(headRaw, raw);
					break;
				}''')
elif name=='M9_strong_cas_acq_rel':
    sub(row,'compare_exchange_weak(headRaw, raw)','compare_exchange_strong(headRaw, raw, std::memory_order_acq_rel)')
elif name=='M10_pool_block_smaller_than_link':
    sub(tab,'size_t size = std::minmax(columnList.GetTotalSize(), sizeof(void*)).second;','size_t size = columnList.GetTotalSize();')
elif name=='M11_move_ctor_keeps_raw':
    sub(row,'''			row.mRaw = nullptr;
			row.mFreeRaws = nullptr;''','''			row.mFreeRaws = nullptr;''')
elif name=='M12_row_gets_private_head':
    sub(tab,'return RowProxy(&GetColumnList(), raw, &mCrew.GetFreeRaws());','static FreeRaws other(nullptr);\n\t\treturn RowProxy(&GetColumnList(), raw, &other);')
elif name=='M13_makerow_null_head':
    sub(tab,'return RowProxy(&GetColumnList(), raw, &mCrew.GetFreeRaws());','return RowProxy(&GetColumnList(), raw, nullptr);')
elif name=='C1_createraw_catch_leaks':
    sub(tab,'''		catch (...)
		{
			mRawMemPool.Deallocate(raw);
			throw;
		}
		return raw;''','''		catch (...)
		{
			throw;
		}
		return raw;''')
elif name=='C2_newrow_catch_keeps_buffer':
    sub(tab,'''		catch (...)
		{
			pvDestroyRaw(raw);
			throw;
		}''','''		catch (...)
		{
			GetColumnList().DestroyRaw(&GetMemManager(), raw);
			throw;
		}''')
elif name=='G1_link_points_to_itself':
    sub(row,'MemCopyer::ToBuffer(headRaw, raw);','MemCopyer::ToBuffer(raw, raw);')
elif name=='G2_drain_frees_only_first':
    sub(tab,'''			mRawMemPool.Deallocate(headRaw);
			headRaw = nextRaw;''','''			mRawMemPool.Deallocate(headRaw);
			headRaw = (nextRaw == headRaw) ? nextRaw : nullptr;''')
elif name=='G3_check_inverted':
    sub(tab,'''		if (mCrew.GetFreeRaws() != nullptr)
			pvDeallocateFreeRaws();
		return mRawMemPool''','''		if (mCrew.GetFreeRaws() == nullptr)
			pvDeallocateFreeRaws();
		return mRawMemPool''')
elif name=='T1_table_swap_keeps_crew':
    sub(tab,'''		mCrew.Swap(table.mCrew);
		mRaws.Swap(table.mRaws);''','''		mRaws.Swap(table.mRaws);''')
elif name=='N1_extractraw_keeps_raw':
    sub(row,'''			Raw* raw = mRaw;
			mRaw = nullptr;
			return raw;''','''			Raw* raw = mRaw;
			return raw;''')
elif name=='N3_movector_keeps_list_pointer':
    sub(row,'''			row.mRaw = nullptr;
			row.mFreeRaws = nullptr;''','''			row.mRaw = nullptr;''')
elif name=='N4_move_assign_is_plain_swap':
    sub(row,'''			DataRow(std::move(row)).Swap(*this);
			return *this;''','''			Swap(row);
			return *this;''')
elif name.startswith('S') and name[1] in 'ABCD' and name[2]=='_':
    import subprocess
    src='/verif/props/C19/seeded_%s.diff' % name[1].lower()
    subprocess.run(['patch','-p1','-d',d,'-i',src],check=True)
else:
    raise SystemExit('unknown mutant')
PY
  (cd $d && diff -ru /repo/include include > $OUT/$1.diff)
  # a mutant run must leave nothing behind that describes or disturbs runs against /repo itself: the evidence file is restored,
  # the replays it wrote are moved next to its log
  cp /verif/evidence/C19.json $OUT/.evidence.bak 2>/dev/null
  ls /verif/replays/C19-*.json 2>/dev/null | sort > $OUT/.replays.before
  (cd /verif && VERIF_REPO=$d timeout 900 ./check C19 ${2:-} > $OUT/$1.log 2>&1; echo "exit=$?" >> $OUT/$1.log)
  cp $OUT/.evidence.bak /verif/evidence/C19.json 2>/dev/null
  mkdir -p $OUT/$1.replays
  for f in $(ls /verif/replays/C19-*.json 2>/dev/null | sort | comm -13 $OUT/.replays.before -); do mv $f $OUT/$1.replays/; done
  rm -rf $d
}
for m in "$@"; do apply $m; echo "== $m"; grep -E "BROKEN|VIOLATION|exit=|done:" $OUT/$m.log; done
