// instantiation TU for cxx2coq (C07): the decision logic of DataIndexes::MultiHash / UniqueHash
#include "momo/DataTable.h"
namespace c07inst {
struct S { int k[3]; int pad; };
typedef momo::DataColumnListStatic<S, momo::DataColumnInfo<S>, momo::MemManagerDefault> CL;
}
template class momo::internal::DataIndexes<c07inst::CL, momo::DataTraits>;
