(* C05 -- hand-written executable L1 model of momo's array element shifting
   (include/momo/ArrayUtility.h, class ArrayShifter, as it is after the fix commits 62f9657, bcbf078, c5d1be1).
   Indexes and counts are `nat`: size_t wrap-around is NOT modelled (the range checks of the real code are written so
   that they cannot wrap since bcbf078 / c5d1be1; the `rej` oracle family of prop.py checks the real code with SIZE_MAX
   boundary values).

   An element slot is a cell:  Live v (constructed, holds v) | Moved (constructed, moved-from: valid but
   unspecified) | Raw (unconstructed storage).  Two Section parameters describe the element type:
     self_move  v : what `x = std::move(x)` leaves in x           (None = Moved: self-move-hostile types)
     after_move v : what a move construction/assignment leaves in the source
                    (Some v for trivially copyable / copy-only types, None for heap-owning types)
   Every theorem is proved for ALL self_move / after_move.  (They return `option V`, i.e. Live or Moved:
   a move never un-constructs its source.)

   Every primitive checks what the C++ requires and returns `Err` otherwise: MOMO_CHECK(index < count) of
   operator[], MOMO_CHECK(count < capacity) of AddBackNogrow, reading a raw slot, constructing into a non-raw
   slot, assigning into / destroying a raw slot.  A moved-from object may legally be moved or copied again: the
   result is then Moved too (the shifter does move moved-from elements, e.g. after Insert(i, std::move(a[j]))).
   So "= Ok (arr_of ...)" in a theorem includes "no undefined behaviour, no failed check" and -- because every
   resulting slot is Live with the specified value for ALL self_move / after_move -- "no self move-assignment
   and no use of a moved-from or already shifted alias that could reach the result". *)
From Coq Require Import List Arith Lia Bool.
Import ListNotations.

Inductive err := EIndex | ECap | EReadMoved | EReadRaw | ECtor | EAssignRaw | EDestroyRaw | EFuel | EDangling | EGrow.
Inductive res (A : Type) := Ok (a : A) | Err (e : err).
Arguments Ok {A} a. Arguments Err {A} e.
Definition bind {A B : Type} (r : res A) (f : A -> res B) : res B :=
  match r with Ok a => f a | Err e => Err e end.
Notation "x <- r ;; k" := (bind r (fun x => k)) (at level 61, r at next level, right associativity).

(* for (i = lo; i < hi; ++i) body   -- the loop test is evaluated each time, fuel only bounds the recursion *)
Fixpoint for_up {St : Type} (fuel : nat) (i hi : nat) (body : nat -> St -> res St) (s : St) : res St :=
  match fuel with
  | O => Err EFuel
  | S f => if i <? hi then (s' <- body i s ;; for_up f (S i) hi body s') else Ok s
  end.
(* for (i = hi; i > lo; --i) body *)
Fixpoint for_down {St : Type} (fuel : nat) (i lo : nat) (body : nat -> St -> res St) (s : St) : res St :=
  match fuel with
  | O => Err EFuel
  | S f => if lo <? i then (s' <- body i s ;; for_down f (i - 1) lo body s') else Ok s
  end.

(* list update (no-op beyond the end) *)
Fixpoint lset {A : Type} (l : list A) (i : nat) (x : A) : list A :=
  match l, i with
  | [], _ => []
  | _ :: t, O => x :: t
  | h :: t, S j => h :: lset t j x
  end.

Section Shift.
Variable V : Type.
Inductive cell := Live (v : V) | Moved | Raw.
Variable self_move : V -> option V.
Variable after_move : V -> option V.
Definition mcell (o : option V) : cell := match o with Some v => Live v | None => Moved end.

Definition get (a : list cell) (i : nat) : cell := nth i a Raw.
Fixpoint set (a : list cell) (i : nat) (c : cell) : list cell :=
  match a, i with
  | [], _ => []
  | _ :: t, O => c :: t
  | h :: t, S j => h :: set t j c
  end.

(* the array as ArrayShifter sees it: storage cells (length = GetCapacity()) and GetCount() *)
Record arr := mkArr { cells : list cell; cnt : nat }.
Definition cap (s : arr) : nat := length (cells s).
Definition upd (s : arr) (i : nat) (c : cell) : arr := mkArr (set (cells s) i c) (cnt s).

(* the state of a constructed object: Some v = holds v, None = moved-from.  Reading a slot as an object: *)
Definition obj_at (c : list cell) (i : nat) : res (option V) :=
  match get c i with Live v => Ok (Some v) | Moved => Ok None | Raw => Err EReadRaw end.
(* what a move leaves in its source / what a self move-assignment leaves *)
Definition src_after (o : option V) : cell := match o with Some v => mcell (after_move v) | None => Moved end.
Definition self_after (o : option V) : cell := match o with Some v => mcell (self_move v) | None => Moved end.
(* the same on the level of objects: src_after o = mcell (after_o o) *)
Definition after_o (o : option V) : option V := match o with Some v => after_move v | None => None end.
(* array[i]: operator[] has MOMO_CHECK(index < GetCount()) *)
Definition item_at (s : arr) (i : nat) : res (option V) :=
  if i <? cnt s then obj_at (cells s) i else Err EIndex.
(* array[dst] = o  (array[dst] must be a constructed object) *)
Definition assign_val (s : arr) (o : option V) (dst : nat) : res arr :=
  if dst <? cnt s then
    match get (cells s) dst with Raw => Err EAssignRaw | _ => Ok (upd s dst (mcell o)) end
  else Err EIndex.
(* AddBackNogrow of an object: MOMO_CHECK(GetCount() < GetCapacity()); placement-new at items + count *)
Definition add_back_ctor (s : arr) (o : option V) : res arr :=
  if cnt s <? cap s then
    match get (cells s) (cnt s) with
    | Raw => Ok (mkArr (set (cells s) (cnt s) (mcell o)) (S (cnt s)))
    | _ => Err ECtor
    end
  else Err ECap.
(* array.AddBackNogrow(std::move(array[i])) *)
Definition add_back_move_item (s : arr) (i : nat) : res arr :=
  o <- item_at s i ;; s' <- add_back_ctor s o ;; Ok (upd s' i (src_after o)).
(* ItemTraits::Assign(memManager, std::move(array[src]), array[dst])  i.e.  array[dst] = std::move(array[src]) *)
Definition move_assign_items (s : arr) (src dst : nat) : res arr :=
  o <- item_at s src ;;
  if src =? dst then (if dst <? cnt s then Ok (upd s src (self_after o)) else Err EIndex)
  else (s' <- assign_val s o dst ;; Ok (upd s' src (src_after o))).

(* pvRemoveBack: ItemTraits::Destroy(items + initCount - count, count); SetCount(initCount - count) *)
Fixpoint destroy (c : list cell) (i k : nat) : res (list cell) :=
  match k with
  | O => Ok c
  | S k' => match get c i with Raw => Err EDestroyRaw | _ => destroy (set c i Raw) (S i) k' end
  end.
Definition remove_back (s : arr) (count : nat) : res arr :=
  if count <=? cnt s then (c' <- destroy (cells s) (cnt s - count) count ;; Ok (mkArr c' (cnt s - count)))
  else Err EIndex.

(* ---- the value argument: a temporary / external object, or a reference to element i of this array,
        read at the moment the code reads it ---- *)
Inductive arg := ArgVal (v : V) | ArgRef (i : nat).
Definition read_arg (s : arr) (x : arg) : res (option V) :=
  match x with ArgVal v => Ok (Some v) | ArgRef i => obj_at (cells s) i end.

(* where the inserted values come from: [src_assign k dst] is `Assign(<k-th source>, array[dst])`,
   [src_push k] is `AddBackNogrow(<k-th source>)` *)
Record source := mkSource { src_assign : nat -> nat -> arr -> res arr; src_push : nat -> arr -> res arr }.

(* `const Item& item` (InsertNogrow(array, index, count, item)) *)
Definition source_copies (x : arg) : source :=
  mkSource (fun _ dst s => v <- read_arg s x ;; assign_val s v dst)
           (fun _ s => v <- read_arg s x ;; add_back_ctor s v).
(* a forward iterator range whose k-th element is [nth k xs] (copied) *)
Definition source_range (xs : list arg) : source :=
  mkSource (fun k dst s => match nth_error xs k with
                           | Some x => v <- read_arg s x ;; assign_val s v dst | None => Err EIndex end)
           (fun k s => match nth_error xs k with
                       | Some x => v <- read_arg s x ;; add_back_ctor s v | None => Err EIndex end).
(* std::make_move_iterator(std::addressof(item)): the one rvalue of InsertNogrow(array, index, Item&&) *)
Definition source_rvalue (x : arg) : source :=
  mkSource (fun _ dst s => match x with
                           | ArgVal v => assign_val s (Some v) dst
                           | ArgRef i =>
                             o <- obj_at (cells s) i ;;
                             if i =? dst then (if dst <? cnt s then Ok (upd s i (self_after o)) else Err EIndex)
                             else (s' <- assign_val s o dst ;; Ok (upd s' i (src_after o)))
                           end)
           (fun _ s => match x with
                       | ArgVal v => add_back_ctor s (Some v)
                       | ArgRef i => o <- obj_at (cells s) i ;; s' <- add_back_ctor s o ;; Ok (upd s' i (src_after o))
                       end).

(* ---- ArrayShifter::InsertNogrow (ArrayUtility.h:196-224 and 226-260; both overloads have this shape,
   they differ only in where the values come from).  [fixed = false] is the code before 62f9657. ---- *)
Definition insert_nogrow_gen (fixed : bool) (src : source) (s : arr) (index count : nat) : res arr :=
  let initCount := cnt s in
  let fuel := S (cap s) in
  if negb (index <=? initCount) then Err EIndex else                 (* MOMO_CHECK(index <= initCount) *)
  if negb (initCount + count <=? cap s) then Err ECap else           (* MOMO_ASSERT(count <= capacity - initCount)  [c5d1be1; nat: no wrap-around] *)
  if fixed && (count =? 0) then Ok s else                            (* if (count == 0) return;  [62f9657] *)
  if index + count <? initCount then
    (* for (i = initCount - count; i < initCount; ++i) array.AddBackNogrow(std::move(array[i])); *)
    s1 <- for_up fuel (initCount - count) initCount (fun i s => add_back_move_item s i) s ;;
    (* for (i = initCount - count; i > index; --i) Assign(std::move(array[i - 1]), array[i + count - 1]); *)
    s2 <- for_down fuel (initCount - count) index (fun i s => move_assign_items s (i - 1) (i + count - 1)) s1 ;;
    (* for (i = index; i < index + count; ++i) Assign(item | *iter, array[i]); *)
    for_up fuel index (index + count) (fun i s => src_assign src (i - index) i s) s2
  else
    (* for (i = initCount; i < index + count; ++i) array.AddBackNogrow(item | *iter); *)
    s1 <- for_up fuel initCount (index + count) (fun i s => src_push src (i - index) s) s ;;
    (* for (i = index; i < initCount; ++i)
         { Item& arrayItem = array[i]; array.AddBackNogrow(std::move(arrayItem)); Assign(item | *iter, arrayItem); } *)
    for_up fuel index initCount
      (fun i s => s' <- add_back_move_item s i ;; src_assign src (i - index) i s') s1.

Definition insert_nogrow_copies fixed s index count (x : arg) := insert_nogrow_gen fixed (source_copies x) s index count.
Definition insert_nogrow_range fixed s index (xs : list arg) := insert_nogrow_gen fixed (source_range xs) s index (length xs).
Definition insert_nogrow_rvalue fixed s index (x : arg) := insert_nogrow_gen fixed (source_rvalue x) s index 1.

(* ---- ArrayShifter::Remove(array, index, count)  (ArrayUtility.h:277-287) ---- *)
Definition remove_range (fixed : bool) (s : arr) (index count : nat) : res arr :=
  let initCount := cnt s in
  if negb (index + count <=? initCount) then Err EIndex else         (* MOMO_CHECK(index <= initCount && count <= initCount - index)  [bcbf078] *)
  if fixed && (count =? 0) then Ok s else                            (* if (count == 0) return;  [62f9657] *)
  (* for (i = index + count; i < initCount; ++i) Assign(std::move(array[i]), array[i - count]); *)
  s1 <- for_up (S (cap s)) (index + count) initCount (fun i s => move_assign_items s i (i - count)) s ;;
  remove_back s1 count.                                              (* array.RemoveBack(count) *)

(* ---- ArrayShifter::Remove(array, itemFilter)  (ArrayUtility.h:289-307); returns (array, remCount) ---- *)
Definition holds (p : V -> bool) (o : option V) : bool := match o with Some v => p v | None => false end.
Fixpoint skip_kept (fuel : nat) (p : V -> bool) (s : arr) (newCount : nat) : res nat :=
  (* while (newCount < initCount && !itemFilter(array[newCount])) ++newCount; *)
  match fuel with
  | O => Err EFuel
  | S f => if newCount <? cnt s then (v <- item_at s newCount ;; if holds p v then Ok newCount else skip_kept f p s (S newCount))
           else Ok newCount
  end.
Definition remove_filter (p : V -> bool) (s : arr) : res (arr * nat) :=
  let initCount := cnt s in
  newCount <- skip_kept (S initCount) p s 0 ;;
  r <- for_up (S initCount) (newCount + 1) initCount
         (fun i (st : arr * nat) =>
            let (s, newCount) := st in
            v <- item_at s i ;;
            if holds p v then Ok (s, newCount)                         (* continue *)
            else (s' <- move_assign_items s i newCount ;; Ok (s', S newCount)))
         (s, newCount) ;;
  let (s1, newCount) := r in
  let remCount := initCount - newCount in
  s2 <- remove_back s1 remCount ;;
  Ok (s2, remCount).

Definition lives (l : list V) : list cell := map Live l.
Definition raws (n : nat) : list cell := repeat Raw n.
(* an array holding exactly the sequence l with r unused slots *)
Definition arr_of (l : list V) (r : nat) : arr := mkArr (lives l ++ raws r) (length l).
(* ... and the general form: an array of constructed objects, some of which may be moved-from (None) *)
Definition objs (l : list (option V)) : list cell := map mcell l.
Definition arr_ofo (l : list (option V)) (r : nat) : arr := mkArr (objs l ++ raws r) (length l).
End Shift.

Arguments Live {V} v. Arguments Moved {V}. Arguments Raw {V}.
Arguments ArgVal {V} v. Arguments ArgRef {V} i.
Arguments mkArr {V}. Arguments cells {V}. Arguments cnt {V}. Arguments cap {V}.
Arguments get {V}. Arguments set {V}. Arguments lives {V}. Arguments raws {V}. Arguments arr_of {V}.
Arguments mcell {V}. Arguments objs {V}. Arguments arr_ofo {V}.
