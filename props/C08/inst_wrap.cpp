// instantiation TU for cxx2coq (C08): the decision logic of stdish::unordered_multimap::operator== and erase
#include "momo/stdish/unordered_multimap.h"
namespace momo { namespace stdish {
template class unordered_multimap<int, int>;
inline void c08_use(unordered_multimap<int, int>& umm) { (void)(umm == umm); }
}}
