(* Property C06 -- theorems only.  Each is closed by `exact <lemma>` and followed by Print Assumptions.
   Spec.v = executable L0 specifications of the std containers (the oracle of the three-way correspondence);
   Wrap*.v = models of the logic the momo::stdish wrappers add on top of the nested momo containers.
   Both are run (extracted) against the real momo::stdish AND libstdc++ containers on every check. *)
From Coq Require Import ZArith List Permutation.
From C06 Require Import Spec SpecProofs WrapOrdered WrapEq WrapErase History IterLoop GenRefine GenEq GenMisc GenNode GenCmp.
From C06 Require Gen_USetErase Gen_UMapErase Gen_UMMapErase Gen_SetHint Gen_MSetHint Gen_MapFind Gen_MMapFind Gen_MapAt Gen_SetEqr Gen_UMapCreate Gen_SetCreate Gen_SetNodeHint Gen_MSetNodeHint Gen_USetNodeHint Gen_UMapNodeHint Gen_Vector Gen_MapIoa Gen_SetCmp Gen_SetCmpD Gen_MapCmp Gen_MapCmpD Gen_VecCmp Gen_VecCmpD Gen_SetNodeIns Gen_USetNodeIns Gen_MapNodeIns Gen_UMapNodeIns Gen_SetMerge Gen_MapAssign Gen_UMapAssign Gen_SetAssign Gen_USetAssign.
From MomoCommon Require Import GenPrelude.
Import ListNotations.

(* ===== (1) the L0 specs satisfy the std contract ===== *)

(* erase(first,last) on a sequence container / ordered container: returns the position of `last` in the new
   sequence, everything before `first` and from `last` on is untouched and keeps its order, exactly the elements
   of [first,last) are gone. *)
Theorem C06_erase_range_removes_exactly : forall l i j, i <= j -> j <= length l ->
  let '(r, l') := ord_erase_range i j l in
  r = i /\ length l' = length l - (j - i) /\
  (forall p, p < i -> nth_error l' p = nth_error l p) /\
  (forall p, i <= p -> nth_error l' p = nth_error l (p + (j - i))) /\
  l = firstn i l' ++ firstn (j - i) (skipn i l) ++ skipn i l'.
Proof. exact erase_range_removes_exactly. Qed.
Print Assumptions C06_erase_range_removes_exactly.

(* lower_bound = first element not less than k, upper_bound = first element greater than k *)
Theorem C06_lower_bound_characterisation : forall k l, sorted true l ->
  lower_bound k l <= length l /\
  (forall i, i < lower_bound k l -> (key (nth i l dflt) < k)%Z) /\
  (forall i, lower_bound k l <= i -> i < length l -> (k <= key (nth i l dflt))%Z).
Proof. exact lower_bound_char. Qed.
Print Assumptions C06_lower_bound_characterisation.

Theorem C06_upper_bound_characterisation : forall k l, sorted true l ->
  upper_bound k l <= length l /\
  (forall i, i < upper_bound k l -> (key (nth i l dflt) <= k)%Z) /\
  (forall i, upper_bound k l <= i -> i < length l -> (k < key (nth i l dflt))%Z).
Proof. exact upper_bound_char. Qed.
Print Assumptions C06_upper_bound_characterisation.

(* equal_range(k) = [lower_bound, upper_bound) is exactly the elements equivalent to k (in order), nothing
   equivalent to k remains outside it, and count(k) is its length *)
Theorem C06_equal_range_is_filter : forall k l, sorted true l ->
  let lb := lower_bound k l in let ub := upper_bound k l in
  lb <= ub /\ ub <= length l /\
  firstn (ub - lb) (skipn lb l) = u_filter_key k l /\
  u_filter_key k (erase_range lb ub l) = [] /\
  ord_count k l = u_count k l.
Proof. exact equal_range_is_filter. Qed.
Print Assumptions C06_equal_range_is_filter.

(* insert/emplace without hint: result sorted; multi = after all equivalent elements (stable); unique = found or inserted *)
Theorem C06_insert_spec : forall multi x l, sorted multi l ->
  let '(i, ins, l') := ord_insert multi x l in
  sorted multi l' /\ i <= length l /\
  (if ins then l' = insert_at i x l else l' = l /\ i < length l /\ key (nth i l dflt) = key x) /\
  (multi = true -> ins = true /\ i = upper_bound (key x) l).
Proof. exact ord_insert_spec. Qed.
Print Assumptions C06_insert_spec.

(* the positions where x may be inserted into a multi container are exactly [lower_bound, upper_bound] ... *)
Theorem C06_multi_insert_positions : forall x l j, sorted true l -> j <= length l ->
  (sorted true (insert_at j x l) <-> lower_bound (key x) l <= j <= upper_bound (key x) l).
Proof. exact multi_insert_positions. Qed.
Print Assumptions C06_multi_insert_positions.

(* ... and hinted insertion picks, among ALL order-preserving positions, one closest to the hint
   ("inserted as close as possible to the position just prior to hint") *)
Theorem C06_multi_insert_hint_spec : forall h x l, sorted true l -> h <= length l ->
  let '(i, ins, l') := ord_insert_hint true h x l in
  ins = true /\ l' = insert_at i x l /\ i <= length l /\ sorted true l' /\
  (forall j, j <= length l -> sorted true (insert_at j x l) ->
     (if i <=? h then h - i else i - h) <= (if j <=? h then h - j else j - h)).
Proof. exact multi_insert_hint_spec. Qed.
Print Assumptions C06_multi_insert_hint_spec.

(* operator== of the unordered containers depends only on the multiset of elements *)
Theorem C06_eq_iff_permutation : forall l r, perm_eqb l r = true <-> Permutation l r.
Proof. exact eq_iff_permutation. Qed.
Print Assumptions C06_eq_iff_permutation.

(* operator< is the lexicographic order: l is a proper prefix of r, or they first differ at x < y *)
Theorem C06_lex_lt_characterisation : forall l r, lex_ltb l r = true <->
  exists p, (l = p /\ exists y u, r = p ++ y :: u) \/
            (exists x t y u, l = p ++ x :: t /\ r = p ++ y :: u /\ elem_ltb x y = true).
Proof. exact lex_lt_characterisation. Qed.
Print Assumptions C06_lex_lt_characterisation.

(* ... a strict total order: exactly one of <, ==, > holds (so <=, >, >= as derived by the wrappers agree with std) *)
Theorem C06_lex_trichotomy : forall l r,
  (lex_ltb l r = true /\ l <> r /\ lex_ltb r l = false) \/
  (lex_ltb l r = false /\ l = r /\ lex_ltb r l = false) \/
  (lex_ltb l r = false /\ l <> r /\ lex_ltb r l = true).
Proof. exact lex_trichotomy. Qed.
Print Assumptions C06_lex_trichotomy.

(* ===== (2) the wrapper logic refines the specs ===== *)

(* set::pvCheckHint + insert(hint,..)/emplace_hint (set.h:609-627, 483-528): for EVERY sorted content, every hint
   position and every value, set/multiset hinted insertion returns the same position, flag and sequence as the std
   contract: the hint is used only when inserting there keeps the order (and, for multi, is the closest legal
   position); otherwise it falls back to unhinted insertion / lower_bound. *)
Theorem C06_check_hint_refines_set : forall multi l h x, sorted multi l -> h <= length l ->
  set_insert_hint multi l h x = ord_insert_hint multi h x l.
Proof. exact set_hint_refines. Qed.
Print Assumptions C06_check_hint_refines_set.

(* map_base::pvFind(hint,key) + pvInsert (map.h:681-786): same for map/multimap *)
Theorem C06_check_hint_refines_map : forall multi l h x, sorted multi l -> h <= length l ->
  map_insert_hint multi l h x = ord_insert_hint multi h x l.
Proof. exact map_hint_refines. Qed.
Print Assumptions C06_check_hint_refines_map.

(* map_base::pvFind(nullptr,key): upper_bound then look one back = find-or-insert / stable insert *)
Theorem C06_map_insert_refines : forall multi x l, sorted multi l -> map_insert multi x l = ord_insert multi x l.
Proof. exact map_insert_refines. Qed.
Print Assumptions C06_map_insert_refines.

Theorem C06_insert_hint_keeps_sorted : forall multi h x l, sorted multi l -> h <= length l ->
  sorted multi (snd (ord_insert_hint multi h x l)).
Proof. exact ord_insert_hint_sorted. Qed.
Print Assumptions C06_insert_hint_keeps_sorted.

(* unordered_set/unordered_map::erase(first,last) (unordered_set.h:565-577, unordered_map.h:628-643): for every
   traversal order, every pair of iterators of either kind such that [first,last) is a valid range (last is
   reached from first by ++, visiting positions ps): the call either throws invalid_argument -- only for ranges of
   2..n-1 elements -- or removes exactly the visited elements, which are then 0, 1 or all n elements; a traversable
   `first` gets back the iterator `last`. *)
Theorem C06_unordered_erase_range_cases : forall l first last ps,
  let n := length l in
  it_wf n first -> it_wf n last ->
  walk (us_next n) (S n) first last = Some ps ->
  match us_erase_range l first last with
  | Throw => 2 <= length ps < n
  | Done rest ret =>
      exists i m, ps = seq i m /\ rest = erase_range i (i + m) l /\ (m = 0 \/ m = 1 \/ m = n) /\
                  (is_trav first = true -> ret = deref l last) /\
                  (is_trav first = false -> ret = None \/ m = 0)
  end.
Proof. exact us_erase_range_cases. Qed.
Print Assumptions C06_unordered_erase_range_cases.

(* unordered_multimap::erase(first,last) (unordered_multimap.h:569-592): throws only for ranges of 2..n-1 elements; otherwise
   removes exactly the visited elements, which are then 0, 1, a whole key (first is the key's first value, last its end) or
   all n elements.  A lookup-derived `first` walks the rest of its key and then reaches end(), so erase(equal_range(k)) is the
   whole-key range.  (The RETURNED iterator is part of the model and compared with the real container in the
   correspondence, but - unlike for unordered_set/map - it is not part of this theorem.) *)
Theorem C06_unordered_multimap_erase_range_cases : forall l first last ps,
  let n := length l in
  it_wf n first -> it_wf n last ->
  walk (mm_next l) (S n) first last = Some ps ->
  match mm_erase_range l first last with
  | Throw => 2 <= length ps < length l
  | Done rest ret => exists i m, ps = seq i m /\ rest = erase_range i (i + m) l /\
                     (m = 0 \/ m = 1 \/ (i = kstart l i /\ i + m = kend l i) \/ m = length l)
  end.
Proof. exact mm_erase_range_cases. Qed.
Print Assumptions C06_unordered_multimap_erase_range_cases.

(* unordered_multimap operator== (unordered_multimap.h:624-645) on ANY two nested states (keys stored once, possibly
   without values): true iff the two containers hold the same multiset of (key,value) pairs; value-less keys are
   invisible. *)
Theorem C06_unordered_multimap_eq_iff_pairs_permutation : forall l r,
  NoDup (map fst l) -> NoDup (map fst r) ->
  (mm_eq l r = true <-> Permutation (mm_pairs l) (mm_pairs r)).
Proof. exact mm_eq_iff_pairs_permutation. Qed.
Print Assumptions C06_unordered_multimap_eq_iff_pairs_permutation.

(* ===== (2b) all call sequences ===== *)

(* For EVERY sequence of insert / hinted insert / erase(key) / erase(iterator) / erase(first,last) / clear calls on
   a stdish set, multiset, map or multimap (ismap, multi), starting from the empty container: every returned position
   and flag and the final sequence are those of the std specification, and the content stays sorted. *)
Theorem C06_ordered_history_refines : forall ismap multi ops,
  run (wrap_step ismap multi) [] ops = run (spec_step multi) [] ops /\
  sorted multi (snd (run (spec_step multi) [] ops)).
Proof. exact ordered_history_refines. Qed.
Print Assumptions C06_ordered_history_refines.

(* For the unordered_multimap states reached by ANY two histories of insert / erase(key) / erase_if / erase(iterator) /
   clear (value-less keys included), operator== is true exactly when the two hold the same multiset of pairs. *)
Theorem C06_unordered_multimap_eq_all_histories : forall ops1 ops2,
  mm_eq (mm_run ops1) (mm_run ops2) = true <-> Permutation (mm_pairs (mm_run ops1)) (mm_pairs (mm_run ops2)).
Proof. exact mm_eq_all_histories. Qed.
Print Assumptions C06_unordered_multimap_eq_all_histories.

(* the nested multimap operations, seen through mm_pairs, are the L0 multimap operations *)
Theorem C06_unordered_multimap_step_abstraction : forall s o,
  match o with
  | MIns k v => Permutation (mm_pairs (mm_step s o)) (snd (u_insert true (k, v) (mm_pairs s)))
  | MEraseKey k => mm_pairs (mm_step s o) = snd (u_erase_key k (mm_pairs s))
  | MEraseIf m r => mm_pairs (mm_step s o) = filter (fun e => negb (fst e mod m =? r)%Z) (mm_pairs s)
  | MErasePair k v => NoDup (map fst s) -> In (k, v) (mm_pairs s) -> Permutation (mm_pairs s) ((k, v) :: mm_pairs (mm_step s o))
  | MClear => mm_pairs (mm_step s o) = []
  end.
Proof. exact mm_step_abstraction. Qed.
Print Assumptions C06_unordered_multimap_step_abstraction.

(* ===== (2c) the boundary of the claim: lookup-derived iterators are not traversable ===== *)

(* erase(where) with a find()/insert()-derived iterator removes that element and returns end() ... *)
Theorem C06_lookup_erase_returns_end : forall l i, i < length l ->
  us_erase_at l (At i false) = Some (erase_range i (S i) l, End).
Proof. exact lookup_erase_returns_end. Qed.
Print Assumptions C06_lookup_erase_returns_end.

(* ... so `for (it = c.find(k); it != c.end(); ) it = c.erase(it);` removes exactly ONE element (std: everything from k to
   the end of the iteration order): this loop is outside the claim, and the generators never continue from such an iterator *)
Theorem C06_erase_loop_from_lookup_erases_one : forall l i fuel, i < length l ->
  erase_loop us_erase_at (S fuel) l (At i false) = (erase_range i (S i) l, 1).
Proof. exact erase_loop_lookup_erases_one. Qed.
Print Assumptions C06_erase_loop_from_lookup_erases_one.

(* ... whereas the same loop started from a traversable iterator (begin(), ++) removes the rest of the container, as in std *)
Theorem C06_erase_loop_from_traversable_erases_rest : forall l i, i < length l ->
  erase_loop us_erase_at (S (length l)) l (At i true) = (firstn i l, length l - i).
Proof. exact erase_loop_trav_erases_rest. Qed.
Print Assumptions C06_erase_loop_from_traversable_erases_rest.

(* ===== (2d) the decision logic REGENERATED from the headers on every run (cxx2coq, Gen_*.v) ===== *)

(* unordered_set::erase(first,last) as translated from unordered_set.h, run on encoded iterators, IS the hand model ... *)
Theorem C06_gen_unordered_set_erase_refines : forall l first last,
  gen_us_erase_range l first last = us_erase_range l first last.
Proof. exact gen_uset_erase_refines. Qed.
Print Assumptions C06_gen_unordered_set_erase_refines.

(* ... unordered_map::erase(first,last) is literally the same code ... *)
Theorem C06_gen_unordered_map_erase_same_code : Gen_UMapErase.erase_range = Gen_USetErase.erase_range.
Proof. exact umap_erase_same_code. Qed.
Print Assumptions C06_gen_unordered_map_erase_same_code.

(* ... so the range-erase theorem holds for the translated source: throws only for 2..n-1 elements, else removes exactly [first,last) *)
Theorem C06_gen_unordered_erase_range_cases : forall (l : list elem) first last ps,
  let n := length l in
  it_wf n first -> it_wf n last ->
  walk (us_next n) (S n) first last = Some ps ->
  match gen_us_erase_range l first last with
  | Throw => 2 <= length ps < n
  | Done rest ret =>
      exists i m, ps = seq i m /\ rest = erase_range i (i + m) l /\ (m = 0 \/ m = 1 \/ m = n) /\
                  (is_trav first = true -> ret = deref l last) /\
                  (is_trav first = false -> ret = None \/ m = 0)
  end.
Proof. exact gen_unordered_erase_range_cases. Qed.
Print Assumptions C06_gen_unordered_erase_range_cases.

(* unordered_multimap::erase(where) + erase(first,last) as translated from unordered_multimap.h == the hand model *)
Theorem C06_gen_unordered_multimap_erase_refines : forall l first last, it_wf (length l) first ->
  gen_mm_erase_range l first last = mm_erase_range l first last.
Proof. exact gen_mm_erase_refines. Qed.
Print Assumptions C06_gen_unordered_multimap_erase_refines.

Theorem C06_gen_unordered_multimap_erase_range_cases : forall l first last ps,
  it_wf (length l) first -> it_wf (length l) last ->
  walk (mm_next l) (S (length l)) first last = Some ps ->
  match gen_mm_erase_range l first last with
  | Throw => 2 <= length ps < length l
  | Done rest ret => exists i m, ps = seq i m /\ rest = erase_range i (i + m) l /\
                     (m = 0 \/ m = 1 \/ (i = kstart l i /\ i + m = kend l i) \/ m = length l)
  end.
Proof. exact gen_unordered_multimap_erase_range_cases. Qed.
Print Assumptions C06_gen_unordered_multimap_erase_range_cases.

(* set::pvCheckHint / map_base::pvFind as translated (multiKey symbolic: one proof for set+multiset, map+multimap, whose two
   instantiations generate identical code): hinted insertion driven by the TRANSLATED validation equals the std specification *)
Theorem C06_gen_set_hint_refines_spec : forall multi l h x, sorted multi l -> h <= length l ->
  gen_set_insert_hint multi l h x = ord_insert_hint multi h x l.
Proof. exact gen_set_hint_refines_spec. Qed.
Print Assumptions C06_gen_set_hint_refines_spec.

Theorem C06_gen_map_hint_refines_spec : forall multi l h x, sorted multi l -> h <= length l ->
  gen_map_insert_hint multi l h x = ord_insert_hint multi h x l.
Proof. exact gen_map_hint_refines_spec. Qed.
Print Assumptions C06_gen_map_hint_refines_spec.

Theorem C06_gen_map_insert_refines_spec : forall multi x l, sorted multi l -> gen_map_insert multi x l = ord_insert multi x l.
Proof. exact gen_map_insert_refines_spec. Qed.
Print Assumptions C06_gen_map_insert_refines_spec.

Theorem C06_gen_multiset_hint_same_code : Gen_MSetHint.pvCheckHint = Gen_SetHint.pvCheckHint.
Proof. exact mset_hint_same_code. Qed.
Print Assumptions C06_gen_multiset_hint_same_code.

Theorem C06_gen_multimap_find_same_code :
  Gen_MMapFind.pvFind_hint = Gen_MapFind.pvFind_hint /\ Gen_MMapFind.pvFind_null = Gen_MapFind.pvFind_null.
Proof. exact mmap_find_same_code. Qed.
Print Assumptions C06_gen_multimap_find_same_code.

(* ===== (2e) operator== of the unordered wrappers, REGENERATED from the headers (range-for as a first-return fold) ===== *)

(* unordered_set operator== as translated: for ANY key-equivalence `cls` (possibly coarser than element equality) and containers
   with one element per class: true iff the two hold the same elements.  Reverting b19ae26 makes this false ({1005} vs {1006}). *)
Theorem C06_gen_unordered_set_eq_iff_permutation : forall (cls : Z -> Z) (l r : list Z) (endv : Z),
  NoDup (map cls l) -> NoDup (map cls r) -> ~ In endv r ->
  (gen_uset_eq cls l r endv = true <-> Permutation l r).
Proof. exact gen_uset_eq_iff. Qed.
Print Assumptions C06_gen_unordered_set_eq_iff_permutation.

(* unordered_map operator== as translated (keys compared by class for the lookup, then key and mapped value by ==) *)
Theorem C06_gen_unordered_map_eq_iff_permutation : forall (cls kf vf : Z -> Z),
  (forall a b, kf a = kf b -> vf a = vf b -> a = b) ->
  forall (l r : list Z) (endv : Z),
  NoDup (map (fun y => cls (kf y)) l) -> NoDup (map (fun y => cls (kf y)) r) -> ~ In endv r ->
  (gen_umap_eq cls kf vf l r endv = true <-> Permutation l r).
Proof. exact gen_umap_eq_iff. Qed.
Print Assumptions C06_gen_unordered_map_eq_iff_permutation.

(* unordered_multimap operator== as translated == the class-aware hand model, and hence the permutation theorem: reverting
   7146119 (key-count test), 4339d66 (key == test) or replacing is_permutation changes Gen_UMMapEq.v and breaks these *)
Theorem C06_gen_unordered_multimap_eq_refines : forall cls l r, gen_ummap_eq cls l r = mm_eqc cls l r.
Proof. exact gen_ummap_eq_refines. Qed.
Print Assumptions C06_gen_unordered_multimap_eq_refines.

Theorem C06_gen_unordered_multimap_eq_iff_pairs_permutation : forall cls l r,
  NoDup (map (fun kv => cls (fst kv)) l) -> NoDup (map (fun kv => cls (fst kv)) r) ->
  (gen_ummap_eq cls l r = true <-> Permutation (mm_pairs l) (mm_pairs r)).
Proof. exact gen_ummap_eq_iff. Qed.
Print Assumptions C06_gen_unordered_multimap_eq_iff_pairs_permutation.

Theorem C06_unordered_set_eq_prefix_refuted : exists cls l r, NoDup (map cls l) /\ NoDup (map cls r) /\
  uset_eq_prefix cls l r = true /\ ~ Permutation l r.
Proof. exact uset_eq_prefix_refuted. Qed.
Print Assumptions C06_unordered_set_eq_prefix_refuted.

Theorem C06_unordered_multimap_eq_key_prefix_refuted : exists cls l r,
  NoDup (map (fun kv => cls (fst kv)) l) /\ NoDup (map (fun kv => cls (fst kv)) r) /\
  forallb (mm_eqc_key_prefix cls r) l = true /\ mm_count l = mm_count r /\ ~ Permutation (mm_pairs l) (mm_pairs r).
Proof. exact mm_eqc_prefix_4339d66_refuted. Qed.
Print Assumptions C06_unordered_multimap_eq_key_prefix_refuted.

(* ===== (2f) further regenerated decisions ===== *)

(* map::at as translated throws out_of_range exactly when the key is absent, otherwise returns the mapped value of find(key) *)
Theorem C06_gen_map_at_throws_iff_absent : forall l k, sorted true l ->
  (Gen_MapAt.at_const Z.eqb (o_end l) (a_find l) (a_mapped l) k = Exn <-> ord_count k l = 0).
Proof. exact map_at_throws_iff_absent. Qed.
Print Assumptions C06_gen_map_at_throws_iff_absent.

Theorem C06_gen_map_at_refines : forall l k,
  Gen_MapAt.at_const Z.eqb (o_end l) (a_find l) (a_mapped l) k =
  if ord_find k l =? length l then Exn else Ok (snd (nth (ord_find k l) l dflt)).
Proof. exact gen_map_at_refines. Qed.
Print Assumptions C06_gen_map_at_refines.

(* set/multiset::equal_range as translated (multiKey symbolic) = [lower_bound, upper_bound) of the specification *)
Theorem C06_gen_set_equal_range_refines : forall l multi k, sorted multi l ->
  Gen_SetEqr.equal_range multi Z.eqb (o_end l) o_next (o_deref l) o_less (o_lb l) (o_ub l) k =
  (Z.of_nat (lower_bound k l), Z.of_nat (upper_bound k l)).
Proof. exact gen_set_equal_range_refines. Qed.
Print Assumptions C06_gen_set_equal_range_refines.

(* allocator-extended move construction: the nested container is taken over iff the allocators compare equal (std rule);
   unordered_map::pvCreateMap and set::pvCreateSet are the same code *)
Theorem C06_gen_create_steals_iff_equal_allocators : forall alloc_eqb alloc_of steal right alloc fresh,
  (forall x, steal x <> fresh) ->
  (Gen_UMapCreate.pvCreateMap alloc_eqb alloc_of steal right alloc fresh = steal right <-> alloc_eqb (alloc_of right) alloc = true).
Proof. exact create_steals_iff_equal_allocators. Qed.
Print Assumptions C06_gen_create_steals_iff_equal_allocators.

Theorem C06_gen_set_create_same_code : Gen_SetCreate.pvCreateSet = Gen_UMapCreate.pvCreateMap.
Proof. exact gen_set_create_same_code. Qed.
Print Assumptions C06_gen_set_create_same_code.

(* ===== (2g) insert(hint, node_type&&) as regenerated (fix 9f37105) ===== *)

(* set/multiset::insert(hint, node&&) as translated: position, new content and the state of the CALLER'S node are those the
   standard mandates - in particular a refused element stays in the node ("nh is unchanged if the insertion fails") *)
Theorem C06_gen_set_insert_hint_node_spec : forall multi l node h, sorted multi l -> h <= length l ->
  gen_set_insert_hint_node multi l node h = spec_insert_hint_node multi l h node.
Proof. exact gen_set_insert_hint_node_spec. Qed.
Print Assumptions C06_gen_set_insert_hint_node_spec.

Theorem C06_gen_unordered_insert_hint_node_spec : forall l node,
  gen_uset_insert_hint_node l node = spec_uinsert_hint_node l node.
Proof. exact gen_uset_insert_hint_node_spec. Qed.
Print Assumptions C06_gen_unordered_insert_hint_node_spec.

Theorem C06_gen_node_hint_same_code :
  Gen_MSetNodeHint.insert_hint_node = Gen_SetNodeHint.insert_hint_node /\
  Gen_UMapNodeHint.insert_hint_node = Gen_USetNodeHint.insert_hint_node.
Proof. exact node_hint_same_code. Qed.
Print Assumptions C06_gen_node_hint_same_code.

(* the pre-fix path (forwarding to the wrapper's insert(node&&) and keeping only .position) loses a refused element *)
Theorem C06_node_hint_prefix_refuted : exists l node, interp_unode l node (-11) <> spec_uinsert_hint_node l node.
Proof. exact node_hint_prefix_refuted. Qed.
Print Assumptions C06_node_hint_prefix_refuted.

(* ===== (2h) stdish::vector index arithmetic and map::insert_or_assign as regenerated ===== *)

(* vector::at(i): out_of_range exactly when i >= size() *)
Theorem C06_gen_vector_at_spec : forall size_ arr_ elem_ st i,
  Gen_Vector.at_const size_ elem_ arr_ st i = if (i <? size_)%Z then Ok (elem_ arr_ i) else Exn.
Proof. exact gen_vector_at_spec. Qed.
Print Assumptions C06_gen_vector_at_spec.

(* vector::erase(first,last) calls Array::Remove(first - begin, last - first) and returns the iterator at the same index;
   erase(where) is erase(where, where + 1); insert(where, v) calls Array::Insert(where - begin, v) (the Array operations: C05/C15) *)
Theorem C06_gen_vector_erase_range_spec : forall begin_ ev_remove st first last,
  Gen_Vector.erase_range begin_ v_dist v_next ev_remove st first last = (first, ev_remove st (first - begin_)%Z (last - first)%Z).
Proof. exact gen_vector_erase_range_spec. Qed.
Print Assumptions C06_gen_vector_erase_range_spec.

Theorem C06_gen_vector_erase_one_spec : forall begin_ ev_remove st w,
  Gen_Vector.erase_one begin_ v_dist v_next ev_remove st w = (w, ev_remove st (w - begin_)%Z 1%Z).
Proof. exact gen_vector_erase_one_spec. Qed.
Print Assumptions C06_gen_vector_erase_one_spec.

Theorem C06_gen_vector_insert_spec : forall begin_ ev_insert st w v,
  Gen_Vector.insert_value begin_ v_dist v_next ev_insert st w v = (w, ev_insert st (w - begin_)%Z v).
Proof. exact gen_vector_insert_spec. Qed.
Print Assumptions C06_gen_vector_insert_spec.

(* map::insert_or_assign: the mapped value is assigned exactly when the emplace was refused, at the returned position *)
Theorem C06_gen_map_insert_or_assign_spec : forall (emplace_ : Z -> Z -> Z -> Z * bool) (ev_assign : Z -> Z -> Z -> Z) st h k v,
  Gen_MapIoa.insert_or_assign emplace_ ev_assign st h k v =
  (emplace_ h k v, if snd (emplace_ h k v) then st else ev_assign st (fst (emplace_ h k v)) v).
Proof. exact gen_map_insert_or_assign_spec. Qed.
Print Assumptions C06_gen_map_insert_or_assign_spec.

(* ===== (2i) relational operators, insert(node&&), extract(key), merge as regenerated ===== *)

(* the six relational operators of set/multiset (and, same code, map/multimap; vector except ==) as translated - bare std::equal /
   std::lexicographical_compare calls plus the derived one-liners - are the specification's cmp6 (element-wise ==, lexicographic <) *)
Theorem C06_gen_cmp6 : forall l r,
  [g_eq l r 0 1; Gen_SetCmpD.op_ne (g_eq l r) 0 1; g_lt l r 0 1; Gen_SetCmpD.op_le (g_lt l r) 0 1;
   Gen_SetCmpD.op_gt (g_lt l r) 0 1; Gen_SetCmpD.op_ge (g_le l r) 0 1]%Z = cmp6 l r.
Proof. exact gen_cmp6. Qed.
Print Assumptions C06_gen_cmp6.

Theorem C06_gen_map_cmp_same_code : Gen_MapCmp.op_eq = Gen_SetCmp.op_eq /\ Gen_MapCmp.op_lt = Gen_SetCmp.op_lt /\
  Gen_MapCmpD.op_ne = Gen_SetCmpD.op_ne /\ Gen_MapCmpD.op_gt = Gen_SetCmpD.op_gt /\ Gen_MapCmpD.op_le = Gen_SetCmpD.op_le /\ Gen_MapCmpD.op_ge = Gen_SetCmpD.op_ge.
Proof. exact map_cmp_same_code. Qed.
Print Assumptions C06_gen_map_cmp_same_code.

Theorem C06_gen_vector_cmp_same_code : Gen_VecCmp.op_lt = Gen_SetCmp.op_lt /\
  Gen_VecCmpD.op_ne = Gen_SetCmpD.op_ne /\ Gen_VecCmpD.op_gt = Gen_SetCmpD.op_gt /\ Gen_VecCmpD.op_le = Gen_SetCmpD.op_le /\ Gen_VecCmpD.op_ge = Gen_SetCmpD.op_ge.
Proof. exact vec_cmp_same_code. Qed.
Print Assumptions C06_gen_vector_cmp_same_code.

(* insert(node_type&&) as translated: {end, false, empty} for an empty node, else {position, inserted, inserted ? empty : the node} *)
Theorem C06_gen_set_insert_node_spec : forall multi l node,
  gen_set_insert_node multi l node =
  match node with
  | None => (Z.of_nat (length l), false, 0%Z)
  | Some x => let '(i, ins, _) := ord_insert multi x l in (Z.of_nat i, ins, if ins then 0%Z else 1%Z)
  end.
Proof. exact gen_set_insert_node_spec. Qed.
Print Assumptions C06_gen_set_insert_node_spec.

Theorem C06_gen_unordered_set_node_insert_same_code :
  Gen_USetNodeIns.insert_node = Gen_SetNodeIns.insert_node /\ Gen_USetNodeIns.extract_key = Gen_SetNodeIns.extract_key.
Proof. exact uset_node_ins_same_code. Qed.
Print Assumptions C06_gen_unordered_set_node_insert_same_code.

(* insert(node&&), extract(key), extract(iterator) of map/multimap and unordered_map are the set's code *)
Theorem C06_gen_node_functions_same_code :
  Gen_MapNodeIns.insert_node = Gen_SetNodeIns.insert_node /\ Gen_UMapNodeIns.insert_node = Gen_SetNodeIns.insert_node /\
  Gen_MapNodeIns.extract_key = Gen_SetNodeIns.extract_key /\ Gen_UMapNodeIns.extract_key = Gen_SetNodeIns.extract_key /\
  Gen_MapNodeIns.extract_iter = Gen_SetNodeIns.extract_iter /\ Gen_UMapNodeIns.extract_iter = Gen_SetNodeIns.extract_iter /\
  Gen_USetNodeIns.extract_iter = Gen_SetNodeIns.extract_iter.
Proof. exact node_functions_same_code. Qed.
Print Assumptions C06_gen_node_functions_same_code.

(* ===== (2j) shape-pinning facts about generated forwarders (DEFINITIONAL: each restates the generated code; their content is
   that the regenerated function still HAS this shape, i.e. a source edit breaks them; the forwarded-to operations are proved
   elsewhere: TreeSet merge C02, Array::IsEqual C05) ===== *)
Theorem C06_gen_set_merge_is_a_bare_forward : forall nested_of ev_merge_from st s,
  Gen_SetMerge.merge nested_of ev_merge_from st s = ev_merge_from st (nested_of s).
Proof. exact gen_set_merge_forwards. Qed.
Print Assumptions C06_gen_set_merge_is_a_bare_forward.

Theorem C06_gen_extract_key_shape : forall (it_neqb : Z -> Z -> bool) it_end find_ extract_at k,
  Gen_SetNodeIns.extract_key it_end it_neqb find_ extract_at k = if it_neqb (find_ k) it_end then extract_at (find_ k) else 0%Z.
Proof. exact gen_set_extract_key_spec. Qed.
Print Assumptions C06_gen_extract_key_shape.

Theorem C06_gen_extract_iterator_shape : forall (make_node : Z -> Z -> Z) this_ w,
  Gen_SetNodeIns.extract_iter make_node this_ w = make_node this_ w.
Proof. exact gen_extract_iter_spec. Qed.
Print Assumptions C06_gen_extract_iterator_shape.

Theorem C06_gen_vector_eq_forwards_to_array_is_equal : forall array_is_equal a b,
  Gen_VecCmp.op_eq array_is_equal a b = array_is_equal a b.
Proof. exact vec_eq_forwards. Qed.
Print Assumptions C06_gen_vector_eq_forwards_to_array_is_equal.

(* ===== (2k) operator=(initializer_list) as regenerated: the functor state and the allocator survive `c = {...}` ===== *)

(* map/multimap (map_base::ptAssign) and, same code, unordered_map: for every nested-container constructor that stores the traits and
   allocator it is given, the new nested container has the OLD container's traits (comparator / hash / key_eq state) and allocator *)
Theorem C06_gen_map_assign_keeps_functor_state : forall (make_nested : Z -> Z -> Z) (traits_of alloc_of : Z -> Z) alloc_this old values,
  (forall t a, traits_of (make_nested t a) = t) -> (forall t a, alloc_of (make_nested t a) = a) ->
  traits_of (Gen_MapAssign.ptAssign make_nested traits_of alloc_this old values) = traits_of old /\
  alloc_of (Gen_MapAssign.ptAssign make_nested traits_of alloc_this old values) = alloc_this.
Proof. exact gen_map_assign_keeps_functor_state. Qed.
Print Assumptions C06_gen_map_assign_keeps_functor_state.

(* set/multiset and, same code, unordered_set *)
Theorem C06_gen_set_assign_keeps_functor_state : forall (make_nested_il : Z -> Z -> Z -> Z) (traits_of alloc_of : Z -> Z) alloc_this old values,
  (forall v t a, traits_of (make_nested_il v t a) = t) -> (forall v t a, alloc_of (make_nested_il v t a) = a) ->
  traits_of (Gen_SetAssign.assign_il make_nested_il traits_of alloc_this old values) = traits_of old /\
  alloc_of (Gen_SetAssign.assign_il make_nested_il traits_of alloc_this old values) = alloc_this.
Proof. exact gen_set_assign_keeps_functor_state. Qed.
Print Assumptions C06_gen_set_assign_keeps_functor_state.

Theorem C06_gen_assign_il_same_code :
  Gen_UMapAssign.assign_il = Gen_MapAssign.ptAssign /\ Gen_USetAssign.assign_il = Gen_SetAssign.assign_il.
Proof. exact assign_il_same_code. Qed.
Print Assumptions C06_gen_assign_il_same_code.

(* ===== (3) non-vacuity: the pre-fix shapes of the three repaired functions violate the same statements ===== *)
Theorem C06_unordered_erase_range_prefix_refuted : exists l first last ps,
  it_wf (length l) first /\ it_wf (length l) last /\
  walk (us_next (length l)) (S (length l)) first last = Some ps /\ ps = [0] /\
  us_erase_range_prefix l first last = Done [] None /\
  us_erase_range l first last = Done [(2%Z, 0%Z)] None.
Proof. exact us_erase_range_prefix_refuted. Qed.
Print Assumptions C06_unordered_erase_range_prefix_refuted.

Theorem C06_unordered_multimap_erase_range_prefix_refuted :
  (exists l first last ps, it_wf (length l) first /\ it_wf (length l) last /\
     walk (mm_next l) (S (length l)) first last = Some ps /\ ps = [1; 2] /\
     mm_erase_range_prefix l first last = Done [] None /\
     mm_erase_range l first last = Throw) /\
  (exists l first last ps, it_wf (length l) first /\ it_wf (length l) last /\
     walk (mm_next l) (S (length l)) first last = Some ps /\ ps = [0; 1] /\
     mm_erase_range_prefix l first last = Done [] None /\
     mm_erase_range l first last = Done [(2%Z, 20%Z)] None).
Proof. exact mm_erase_range_prefix_refuted. Qed.
Print Assumptions C06_unordered_multimap_erase_range_prefix_refuted.

Theorem C06_unordered_multimap_eq_prefix_refuted : exists l r, NoDup (map fst l) /\ NoDup (map fst r) /\
  Permutation (mm_pairs l) (mm_pairs r) /\ mm_eq_prefix l r = false.
Proof. exact mm_eq_prefix_refuted. Qed.
Print Assumptions C06_unordered_multimap_eq_prefix_refuted.
