// instantiation TU for the C19 static conformance check (clang AST dump): the free-row list protocol
#include "momo/DataTable.h"
// every member of the row class, for the cxx2coq translation (Gen_DataRow.v)
template class momo::internal::DataRow<momo::DataColumnList<>>;
namespace c19inst {
typedef momo::DataColumnList<> ColumnList;
typedef momo::DataTable<ColumnList> Table;
inline void use()
{
	momo::DataColumn<int> colInt("int");
	Table table(ColumnList{ colInt });
	Table::Row row = table.NewRow();     // pvCreateRaw -> pvAllocateRaw
	table.Add(std::move(row));
	Table::Row row3 = table.NewRow(colInt = 5);   // pvNewRow (catch path: pvDestroyRaw)
	Table::Row row2 = table.Extract(0);   // pvMakeRow; ~DataRow at scope exit
	Table::Row row4 = table.NewRow(row3);  // pvImportRaw
	table.TryInsert(0, std::move(row4));
	table.TryUpdate(size_t(0), std::move(row3));
	table.Remove([] (Table::ConstRowReference) { return true; });   // pvRemove(filter)
	{ Table copy(table); }                // pvFill
	table.Assign(table.GetBegin(), table.GetEnd());   // pvAssign -> pvFilterRaws
	table.Remove(table.GetBegin(), table.GetEnd());   // pvRemove(range) -> pvFilterRaws
	table.Remove(size_t(0), true);        // Remove(rowNumber): pvDestroyRaw(pvExtractRaw(..))
	table.Clear();                        // pvDestroyRaws -> pvDeallocateFreeRaws
	Table table2(std::move(table));       // DataTable(DataTable&&)
	table.Swap(table2);                   // DataTable::Swap
	table2 = std::move(table);            // operator=(DataTable&&)
}
}
