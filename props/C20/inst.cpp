// instantiation TU for cxx2coq (C20): the block-size correction used by pvGetMemPoolParams
// (pool_allocator.h:169-173 -> MemPoolParams ctor, MemPool.h:78-83 -> MemPoolConst::CorrectBlockSize), and the
// members of the allocator's MemPool that decide whether freed blocks are parked (pvUseCache) and whether the
// destructor can return whole buffers (CanDeallocateAll).
#include "momo/stdish/pool_allocator.h"
namespace momo { namespace internal {
template size_t UIntMath<size_t>::Ceil(size_t, size_t) noexcept;
}
typedef MemPool<MemPoolParams<>, MemManagerDefault, MemPoolSettings> VPool;
template bool VPool::pvUseCache() const noexcept;
template bool VPool::CanDeallocateAll() const noexcept;
}
