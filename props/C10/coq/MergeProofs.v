(* C10 -- proofs about the merge / extract model, for EVERY failure schedule. *)
From Coq Require Import ZArith Bool List Lia Permutation Arith.
From C10 Require Import Machine Merge.
Import ListNotations.
Local Open Scope Z_scope.

(* ---------------------------------------------------------------- list facts *)

Lemma nth_split_skipn (b : list item) (i : nat) : (i < length b)%nat ->
  b = firstn i b ++ nth i b 0 :: skipn (S i) b.
Proof.
  revert i; induction b as [|a b IH]; intros i H; simpl in *; [lia|].
  destruct i; simpl; [reflexivity|]. f_equal. apply IH. lia.
Qed.

Lemma bucket_remove_perm b i : (i < length b)%nat -> Permutation (nth i b 0 :: bucket_remove b i) b.
Proof.
  intros H. pose proof (nth_split_skipn b i H) as Hb. unfold bucket_remove.
  remember (firstn i b) as pre in *. remember (skipn (S i) b) as post in *. remember (nth i b 0) as x in *.
  clear Heqpre Heqpost Heqx. subst b.
  destruct (rev post) as [|l rp] eqn:E; apply (f_equal (@rev item)) in E; rewrite rev_involutive in E; subst post; simpl.
  - apply Permutation_cons_append.
  - etransitivity; [|apply Permutation_middle]. constructor.
    apply Permutation_app_head. apply Permutation_cons_append.
Qed.

Lemma bucket_remove_length b i : (i < length b)%nat -> S (length (bucket_remove b i)) = length b.
Proof. intros H. pose proof (Permutation_length (bucket_remove_perm b i H)) as P. simpl in P. exact P. Qed.
