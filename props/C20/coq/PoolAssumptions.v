(* C20 -- what the allocator model ASSUMES about the buffer layer of MemPool, in one place.

   The model follows the pool through the GENERATED top level (Gen_MemPoolOps.Allocate / Deallocate / pvFlushDeallocate,
   Gen_MemPoolNewBlock.pvNewBlock) for allocCount, mCachedCount and the failure behaviour; what it does NOT compute is how
   many base-allocator buffers one pool call takes or gives back: that number is the input annotation [grow] / [shrink] of
   OpAlloc / OpDealloc, observed on the real run, and [pheld] is the running balance.  The exact assumptions behind this, and
   the C09 theorem that discharges each (props/C09/coq/Properties_C09.v; no cross-directory Require):

   A_returns_all   destroying a pool that has no allocated block (last owner gone, or the old object of the re-targeting
                   assignment of pool_allocator.h:119) hands back EVERY buffer it holds, cached blocks included.
                   = [release] and the re-targeting branches of [step] set pheld to 0 and report pheld (+1 control block) frees;
                   tie: base-allocator deallocations counted on every X / = / A event, corr:retarget.
                   C09_deallocate_all_returns_everything, C09_inv_DeallocateAll, C09_end_to_end_full; for `*pool = MemPool(..)`:
                   C09_inv_MoveAssign (legal when the destination has no allocated block; the old state's destructor runs DeallocateAll),
                   C09_inv_Swap, C09_data_swap_exchanges_manager_and_count.
   A_no_phantom    a pool call never gives back a buffer the pool does not hold, and never one that contains a live block.
                   = hypothesis [shrink <= pheld] below, under which the model's clipping `min shrink pheld` is the identity
                   (dealloc_frees_is_annotation).  C09_every_buffer_returned_at_most_once_full, C09_never_returned_while_live_all_histories,
                   C09_buffer_returned_only_when_count_full, C09_buffer_returned_all_blocks_free.
   A_park_is_free  parking a block in the cache, and taking one from it, does not touch the base allocator.
                   = the model predicts 0 allocations / deallocations on those paths (checked on every event).
                   C09_inv_cache_push, C09_inv_cache_pop, C09_cache_lifo.
   A_cache_bound   mCachedCount <= cachedFreeBlockCount.  PROVED HERE for the model over the generated pvUseCache (C20_cache_bounded);
                   C09_cache_bounded_all_histories for the pool itself.
   A_count         GetAllocateCount() = number of live blocks of the pool.  Invariant i_cnt here (C20_count_is_live_pooled_blocks);
                   C09_count_and_distinct_all_histories, C09_model_no_block_twice_count_exact.
   A_fail_atomic   a throwing buffer allocation inside Allocate leaves the pool untouched.  PROVED HERE about the generated
                   pvNewBlock (C20_pvNewBlock_strong_guarantee); C09_newblock_failure_atomic, C09_newblock_refused_writes_nothing.
   A_sane          between calls the head of the free-buffer list has a free block and the cache head is null iff the cache is
                   empty (the `sane` observation after every event).  C09_inv_pvNewBlock, C09_inv_pvDeleteBlock, C09_inv_flush
                   (the PoolConc invariant over all histories: C09_inv_all_histories_full).
   A_distinct      blocks handed out are distinct, aligned, inside their buffer (not used by the routing theorems; the oracle
                   relies on it).  C09_no_double_hand_out_all_histories, C09_live_blocks_disjoint_aligned_inside_all_histories. *)
From Coq Require Import ZArith List Bool Arith Lia.
From MomoCommon Require Import GenPrelude.
From C20 Require Import PoolAlloc PoolAllocProofs.
Local Open Scope nat_scope.

Section PoolAssumptions.
  Variable cfg : pcfg.

  (* A_no_phantom as a hypothesis on one deallocate: then the number of base deallocations the model reports is exactly the
     annotation on the paths that can release a buffer, and 0 on the parking path *)
  Theorem dealloc_frees_is_annotation st h b n shrink st' ob :
    step cfg st (OpDealloc h b n shrink) = Ok (st', ob) ->
    shrink <= pheld (pools st (hpool (handles st h))) ->
    match dealloc_decision cfg (hvt (handles st h)) (pools st (hpool (handles st h))) n with
    | DPool => o_frees ob = (if use_cache cfg (pools st (hpool (handles st h))) &&
                                negb (Z.leb (cached_free_block_count cfg) (Z.of_nat (cached st (hpool (handles st h)))))
                             then 0 else shrink) /\
               pheld (pools st' (hpool (handles st h))) + o_frees ob = pheld (pools st (hpool (handles st h)))
    | DRaw _ => o_frees ob = 1 /\ pools st' = pools st
    end.
  Proof.
    intros E Hs. unfold PoolAlloc.step in E. cbv zeta in E. unfold dealloc_decision.
    destruct ((n =? 1)%Z && params_eqb (get_params cfg (hvt (handles st h))) (pparams (pools st (hpool (handles st h))))).
    - destruct (pcount (pools st (hpool (handles st h)))); [discriminate|].
      inversion E; subst. unfold set_cached, set_block, set_pool. cbn [pools o_frees].
      unfold updn. rewrite Nat.eqb_refl. cbn [pheld].
      destruct (use_cache cfg (pools st (hpool (handles st h))) &&
                negb (Z.leb (cached_free_block_count cfg) (Z.of_nat (cached st (hpool (handles st h)))))).
      + split; [reflexivity | lia].
      + rewrite Nat.min_l by exact Hs. split; [reflexivity | lia].
    - inversion E; subst. unfold set_block. cbn [pools o_frees]. split; reflexivity.
  Qed.

  (* A_returns_all: the last owner's release reports every held buffer plus the control block and leaves nothing *)
  Theorem last_release_returns_all st p st' fr :
    release st p = Ok (st', fr) -> prefs (pools st p) = 1 ->
    fr = S (pheld (pools st p)) /\ pheld (pools st' p) = 0 /\ palive (pools st' p) = false.
  Proof.
    unfold release. intros E H1. rewrite H1 in E.
    destruct (Nat.eqb (pcount (pools st p)) 0); [|discriminate].
    inversion E; subst. unfold set_pool. cbn [pools]. unfold updn. rewrite Nat.eqb_refl. cbn. auto.
  Qed.
End PoolAssumptions.
