// C08 harness: the real momo::HashMultiMap driven by op scripts; one output line per case.
//   mm <bucket L|O8|O2> <M> <vt i|s> <hashmode 0..4> op op op ...
// op tokens (comma separated, no blanks):
//   a,k,t,v  Add(Key{k,t}, v)          A,k,v  Add(Find(k), v)        i,k,t  InsertKey(Key{k,t})
//   r,k,i    Remove(Find(k), i)        R,k,i  Remove(MakeIterator(Find(k), i))
//   p,a,b,m,r Remove(pred: (a*k+b*v) mod m == r)
//   v,k      RemoveValues(Find(k))     k,k    RemoveKey(Key{k})      K,k    RemoveKey(Find(k))
//   t,k,t    ResetKey(Find(k), Key{k,t})                             c      Clear
//   s swap(cur,oth)   y oth = cur (copy)   Y cur = oth (copy)   m cur = move(oth); oth = fresh
// Output: per op  "<ret>;<dump of cur>[;<dump of oth>]" joined by '|'.  The dump is canonical (keys sorted by id).
// An independent twin std::map<int, {tag, std::vector<int64>}> is maintained and compared after every op:
// any disagreement appends ORACLE-FAIL(...) to the record.
#include "private_access.h"
#include "kit.h"
#include <cxxabi.h>
#include <momo/HashMultiMap.h>
#include <momo/details/HashBucketLimP4.h>
#include <momo/details/HashBucketOpen8.h>
#include <momo/details/HashBucketOpen2N2.h>

#ifndef HM_LIST
#define HM_LIST X(1) X(2) X(3) X(4) X(7) X(15)
#endif

typedef long long i64;
static int g_hashmode = 0;
static size_t g_injected = 0, g_inj_add = 0, g_inj_shrink = 0, g_inj_rollback = 0, g_inj_copy = 0, g_inj_swallowed = 0;   // number of injected failures that actually fired (reported on stderr)

struct KeyT {
	int id; int tag;
	KeyT() : id(0), tag(0) {}
	KeyT(int i, int t) : id(i), tag(t) {}
	KeyT(const KeyT&) = default;
	KeyT(KeyT&&) = default;
	KeyT& operator=(const KeyT& o) { kit::W().step_copy(); id = o.id; tag = o.tag; return *this; }
	// move assignment is a fallible step (kit fail_copy): this is what makes mHashMap.Remove throw in RemoveKey
	KeyT& operator=(KeyT&& o) { kit::W().step_copy(); id = o.id; tag = o.tag; return *this; }
};
struct Hasher {
	size_t operator()(const KeyT& k) const noexcept {
		unsigned long long x = (unsigned long long)(unsigned)k.id;
		switch (g_hashmode) {
		case 0: return (size_t)x;
		case 1: return 7;
		case 2: return (size_t)(x & 3);
		case 3: return (size_t)(x * 0x9E3779B97F4A7C15ull);
		default: return (size_t)(x << 56);
		}
	}
};
struct Eq { bool operator()(const KeyT& a, const KeyT& b) const noexcept { return a.id == b.id; } };
// key adapters: KeyT = slow-hash key with identity (custom functor => useHashCodePartGetter buckets);
// int = fast-nothrow-hashable key with HashCoder (the only way to reach BucketOpen8 and the plain LimP4/Open2N2 variants)
inline int kid(const KeyT& k) { return k.id; }
inline int ktag(const KeyT& k) { return k.tag; }
inline int kid(int k) { return k; }
inline int ktag(int) { return 0; }
template<typename K> struct KeyMaker;
template<> struct KeyMaker<KeyT> { static KeyT make(int id, int tag) { return KeyT(id, tag); } };
template<> struct KeyMaker<int> { static int make(int id, int) { return id; } };
#define MK(a, b) KeyMaker<KEY>::make((a), (b))

template<size_t M, bool CV, typename PoolParams> struct Settings : public momo::HashMultiMapSettings {
	static const size_t valueArrayMaxFastCount = M;
	static const bool checkKeyVersion = CV;       // iterator version checking on / off (different crews / iterators)
	static const bool checkValueVersion = CV;
	typedef PoolParams ValueArrayMemPoolParams;   // pool of the pooled value arrays: blocks per buffer, cached free blocks
};

template<typename V> struct Conv;
template<> struct Conv<i64> {
	static i64 enc(i64 v) { return v; }
	static i64 dec(const i64& v) { return v; }
};
template<> struct Conv<std::string> {
	static std::string enc(i64 v) { return "v" + std::to_string(v) + ((v & 1) ? std::string(24, 'x') : std::string()); }
	static i64 dec(const std::string& s) {
		if (s.size() < 2 || s[0] != 'v') return -777;
		size_t p = 1; bool neg = false; if (s[p] == '-') { neg = true; ++p; }
		i64 r = 0; bool any = false;
		for (; p < s.size() && s[p] >= '0' && s[p] <= '9'; ++p) { r = r * 10 + (s[p] - '0'); any = true; }
		if (!any) return -777;
		for (size_t q = p; q < s.size(); ++q) if (s[q] != 'x') return -777;
		if (((r & 1) != 0) != (s.size() - p == 24) && ((r & 1) || s.size() != p)) return -777;
		return neg ? -r : r;
	}
};

struct Twin {
	std::map<int, std::pair<int, std::vector<i64>>> m;
	size_t count() const { size_t n = 0; for (auto& kv : m) n += kv.second.second.size(); return n; }
};

static std::vector<std::string> split(const std::string& s, char c) {
	std::vector<std::string> r; std::string cur;
	for (char ch : s) { if (ch == c) { r.push_back(cur); cur.clear(); } else cur += ch; }
	r.push_back(cur); return r;
}

template<typename MM, typename V>
struct Runner {
	typedef Conv<V> C;
	typedef typename MM::Key KEY;
	MM cur, oth;
	Twin tcur, toth;
	std::ostringstream out;
	std::string fail;
	size_t injected = 0;

	void oracle_fail(const std::string& what) { if (fail.empty()) fail = what; }

	// dump one container in canonical form and check it against its twin
	std::string dump(MM& mm, const Twin& tw) {
		std::ostringstream o;
		o << "n=" << mm.GetCount() << " kc=" << mm.GetKeyCount() << " v=" << mm.mValueCrew.mData->valueVersion << " ";
		struct Rec { int tag; std::string repr; std::vector<i64> vals; };
		std::map<int, Rec> recs;
		size_t sum = 0, nkeys = 0;
		std::vector<int> keyOrder;
		// representation through the nested hash map (private access)
		for (auto ref : mm.mHashMap) {
			Rec rc; rc.tag = ktag(ref.key);
			auto& arr = ref.value;
			std::ostringstream r;
			if (arr.mPtr == nullptr) r << "N";
			else {
				unsigned stb = arr.pvGetState();
				size_t pool = arr.pvGetMemPoolIndex();
				if (pool > 0) r << "F" << stb << "." << pool << "." << arr.pvGetFastCount();
				else {
					auto& a = arr.pvGetArray();
					r << "H" << a.GetCapacity() << "." << a.GetCount();
					if (stb != 0) oracle_fail("heap state byte != 0");
					if (a.GetCount() > a.GetCapacity() || a.GetCount() == 0) oracle_fail("heap count/capacity");
				}
			}
			rc.repr = r.str();
			auto b = ref.value.GetBounds();
			for (size_t i = 0; i < b.GetCount(); ++i) rc.vals.push_back(C::dec(b[i]));
			if (recs.count(kid(ref.key))) oracle_fail("duplicate key in nested map");
			recs[kid(ref.key)] = rc;
		}
		// public view: key bounds
		{
			auto kb = mm.GetKeyBounds();
			if (kb.GetCount() != mm.GetKeyCount()) oracle_fail("GetKeyBounds().GetCount() != GetKeyCount()");
			for (auto kref : kb) {
				++nkeys; keyOrder.push_back(kid(kref.key));
				auto it = recs.find(kid(kref.key));
				if (it == recs.end()) { oracle_fail("key bounds key not in nested map"); continue; }
				if (kref.GetCount() != it->second.vals.size()) oracle_fail("key ref count");
				size_t i = 0;
				for (auto vit = kref.GetBegin(); vit != kref.GetEnd(); ++vit, ++i)
					if (i >= it->second.vals.size() || C::dec(*vit) != it->second.vals[i]) oracle_fail("key ref values");
				sum += kref.GetCount();
				auto f = mm.Find(MK(kid(kref.key), -1));
				if (!f || ktag(f->key) != ktag(kref.key) || f->GetCount() != kref.GetCount()) oracle_fail("Find(key) disagrees with key bounds");
				if (!mm.ContainsKey(MK(kid(kref.key), -1))) oracle_fail("ContainsKey false for present key");
			}
		}
		if (nkeys != mm.GetKeyCount() || nkeys != recs.size()) oracle_fail("key count");
		if (sum != mm.GetCount()) oracle_fail("GetCount != sum of per-key counts");
		if (mm.IsEmpty() != (mm.GetCount() == 0)) oracle_fail("IsEmpty");
		for (auto& kv : recs) {
			o << "{" << kv.first << ":" << kv.second.tag << ":" << kv.second.repr << ":";
			for (size_t i = 0; i < kv.second.vals.size(); ++i) o << (i ? "," : "") << kv.second.vals[i];
			o << "}";
		}
		// pair traversal: grouped per key in traversal order; the keys must come in key-bounds order, each key's
		// values contiguous and in array order, no pair for a value-less key
		std::map<int, std::vector<i64>> trav; std::vector<int> travKeys; size_t tn = 0;
		for (auto it = mm.GetBegin(); it != mm.GetEnd(); ++it) {
			int id = kid(it->key); i64 v = C::dec(it->value);
			if (travKeys.empty() || travKeys.back() != id) {
				if (trav.count(id)) oracle_fail("traversal: key visited in two separate runs");
				travKeys.push_back(id);
			}
			trav[id].push_back(v); ++tn;
			if (tn > mm.GetCount() + 5) { oracle_fail("traversal does not terminate"); break; }
		}
		if (tn != mm.GetCount()) oracle_fail("traversal length != GetCount");
		{
			std::vector<int> expectKeys;
			for (int id : keyOrder) if (!recs[id].vals.empty()) expectKeys.push_back(id);
			if (expectKeys != travKeys) oracle_fail("traversal key order / value-less key visited");
		}
		o << " T=";
		for (auto& kv : trav) {
			if (!recs.count(kv.first) || recs[kv.first].vals != kv.second) oracle_fail("traversal values of a key != its value array");
			for (i64 v : kv.second) o << "(" << kv.first << "," << v << ")";
		}
		// const traversal too
		{ const MM& cm = mm; size_t cn = 0; for (auto it = cm.GetBegin(); it != cm.GetEnd(); ++it) ++cn; if (cn != tn) oracle_fail("const traversal length"); }
		// twin comparison
		if (tw.m.size() != recs.size()) oracle_fail("twin: key count");
		if (tw.count() != mm.GetCount()) oracle_fail("twin: value count");
		for (auto& kv : tw.m) {
			auto it = recs.find(kv.first);
			if (it == recs.end()) { oracle_fail("twin: key missing"); continue; }
			if (it->second.tag != kv.second.first) oracle_fail("twin: key tag");
			if (it->second.vals != kv.second.second) oracle_fail("twin: value sequence of a key");
		}
		// absent key probes
		for (int id = 0; id < 3; ++id) {
			int probe = 1000000 + id;      // generators never use ids >= 10^6
			if (!!mm.Find(MK(probe, 0)) || mm.ContainsKey(MK(probe, 0))) oracle_fail("absent key found");
		}
		return o.str();
	}

	static bool pred(i64 a, i64 b, i64 m, i64 r, i64 k, i64 v) { return ((a * k + b * v) % m) == r; }

};

// The generic op interpreter (kept outside the struct to keep template bloat low)
template<typename MM, typename V>
static std::string run_case_inner(const std::vector<std::string>& ops);

template<typename MM, typename V>
static std::string run_case(const std::vector<std::string>& ops) {
	size_t blocks0 = kit::W().live_blocks(); size_t errs0 = kit::W().errors.size();
	std::string line = run_case_inner<MM, V>(ops);
	if (kit::W().live_blocks() != blocks0) line += " ORACLE-FAIL(leak: " + std::to_string(kit::W().live_blocks() - blocks0) + " blocks live after destruction)";
	if (kit::W().errors.size() != errs0) line += " ORACLE-FAIL(memory protocol: " + kit::W().errors.back() + ")";
	return line;
}

template<typename MM, typename V>
static std::string run_case_inner(const std::vector<std::string>& ops) {
	typedef Conv<V> C;
	typedef typename MM::Key KEY;
	Runner<MM, V> R;
	MM& cur = R.cur; MM& oth = R.oth; Twin& tc = R.tcur; Twin& to = R.toth;
	std::ostringstream line;
	bool firstRec = true;
	struct AtExit { Runner<MM, V>& r; ~AtExit() { g_injected += r.injected; } } atExit{R};
	for (const std::string& tok : ops) {
		std::vector<std::string> w = split(tok, ',');
		std::vector<i64> a; for (size_t i = 1; i < w.size(); ++i) a.push_back(std::stoll(w[i]));
		char c = w[0][0];
		bool inject = w[0].size() > 1 && w[0][1] == '!';
		std::ostringstream ret;
		const size_t* kvBefore = cur.mValueCrew.IsNull() ? nullptr : cur.mHashMap.mHashSet.mCrew.GetVersion();
		if (c == 'c' && cur.GetKeyCount() == 0) kvBefore = nullptr;     // Clear of a key-less container: bump depends on an allocated-but-empty table (not compared)
		size_t kvBeforeVal = kvBefore ? *kvBefore : 0;
		bool both = false;
		// fault enumeration for one call: fail the j-th allocation for j = 0,1,2,... until the call completes with the
		// injection still armed; after every injected failure the container must be EXACTLY as before (same dump,
		// which also re-checks the twin) -- strong guarantee
		auto with_alloc_failures = [&](const std::function<void()>& call) {
			if (!inject) { call(); return; }
			std::string before = R.dump(cur, tc);
			for (long j = 0; j < 64; ++j) {
				kit::W().arm(j, -1, -1);
				// completed: either no allocation j exists, or momo swallowed the failure by design (HashSet falls back to adding
				// without growing the table when the growth allocation fails) -- the call then has its normal effect
				try { call(); if (kit::W().fail_alloc < 0) ++g_inj_swallowed; kit::W().disarm(); return; }
				catch (const std::bad_alloc&) {
					kit::W().disarm(); ++R.injected; ++g_inj_add;
					if (R.dump(cur, tc) != before) { R.oracle_fail("state changed by a call that threw bad_alloc (failure point " + std::to_string(j) + ")"); return; }
				}
			}
			R.oracle_fail("more than 64 failure points"); kit::W().disarm();
		};
		switch (c) {
		case 'a': {
			int k = (int)a[0], t = (int)a[1]; i64 v = a[2];
			typename MM::Iterator it;
			with_alloc_failures([&]() {
				if (v % 5 == 3) {          // AddCrt(Key&&, creator) / AddCrt(const Key&, creator)
					V val = C::enc(v);
					auto crt = [&val](V* p) { ::new(static_cast<void*>(p)) V(val); };
					if (k % 2) it = cur.AddCrt(MK(k, t), crt); else { KEY key = MK(k, t); it = cur.AddCrt(key, crt); }
				}
				else if (v % 5 == 4) { KEY key = MK(k, t); V val = C::enc(v); it = cur.AddVar(key, val); }   // AddVar(const Key&, const Value&)
				else if (v % 3 == 0) { V val = C::enc(v); it = cur.Add(MK(k, t), val); }
				else if (v % 3 == 1) { KEY key = MK(k, t); it = cur.Add(key, C::enc(v)); }
				else it = cur.Add(MK(k, t), C::enc(v));
			});
			if (!R.fail.empty()) break;
			ret << "it(" << kid(it->key) << "," << C::dec(it->value) << ")";
			auto f = tc.m.find(k);
			if (f == tc.m.end()) tc.m[k] = std::make_pair(t, std::vector<i64>{v}); else f->second.second.push_back(v);
			break; }
		case 'A': {
			int k = (int)a[0]; i64 v = a[1];
			auto ki = cur.Find(MK(k, -1));
			if (!ki) { ret << "skip"; break; }
			typename MM::Iterator it;
			with_alloc_failures([&]() {
				auto kf = cur.Find(MK(k, -1));
				if (v % 5 == 3) { V val = C::enc(v); it = cur.AddCrt(kf, [&val](V* p) { ::new(static_cast<void*>(p)) V(val); }); }
				else if (v % 5 == 4) it = cur.AddVar(kf, C::enc(v));
				else if (v % 2 == 0) { V val = C::enc(v); it = cur.Add(kf, val); } else it = cur.Add(kf, C::enc(v));
			});
			if (!R.fail.empty()) break;
			ret << "it(" << kid(it->key) << "," << C::dec(it->value) << ")";
			tc.m[k].second.push_back(v);
			break; }
		case 'i': {
			int k = (int)a[0], t = (int)a[1];
			typename MM::KeyIterator ki;
			if (t % 2 == 0) { KEY key = MK(k, t); ki = cur.InsertKey(key); } else ki = cur.InsertKey(MK(k, t));
			ret << "key(" << kid(ki->key) << "," << ktag(ki->key) << "," << ki->GetCount() << ")";
			if (!tc.m.count(k)) tc.m[k] = std::make_pair(t, std::vector<i64>());
			break; }
		case 'r': case 'R': {
			int k = (int)a[0]; size_t i = (size_t)a[1];
			auto ki = cur.Find(MK(k, -1));
			if (!ki || i >= ki->GetCount()) { ret << "skip"; break; }
			// flat position of the pair in the traversal (any key order)
			size_t pos = 0; { const V* target = &ki->GetBegin()[i]; bool found = false;
				for (auto itx = cur.GetBegin(); itx != cur.GetEnd(); ++itx, ++pos) if (&itx->value == target) { found = true; break; }
				if (!found) R.oracle_fail("Remove: pair not in the traversal"); }
			std::vector<int> orderBefore; for (auto kref : cur.GetKeyBounds()) orderBefore.push_back(kid(kref.key));
			if (inject) kit::W().arm(0, -1, -1);          // a Shrink inside RemoveBack fails: must be swallowed
			typename MM::Iterator it;
			typename MM::KeyIterator km;      // movable key iterator: found by walking the key bounds
			if (c == 'R') { for (km = cur.GetKeyBounds().GetBegin(); !!km && kid(km->key) != k; ++km) {} if (!km) { R.oracle_fail("key not in key bounds"); break; } }
			try { it = (c == 'r') ? cur.Remove(ki, i) : ((a[1] + k) % 2 ? cur.Remove(km, i) : cur.Remove(cur.MakeIterator(km, i))); }
			catch (...) { R.oracle_fail("Remove threw"); kit::W().disarm(); break; }
			if (inject) { if (kit::W().fail_alloc < 0) { ++R.injected; ++g_inj_shrink; } kit::W().disarm(); }
			auto& vec = tc.m[k].second;
			vec[i] = vec.back(); vec.pop_back();
			{	// the returned iterator is the one at the same flat position of the new traversal (end if none)
				std::vector<int> orderAfter; for (auto kref : cur.GetKeyBounds()) orderAfter.push_back(kid(kref.key));
				if (orderAfter != orderBefore) R.oracle_fail("Remove changed the key order");
				auto itx = cur.GetBegin(); for (size_t q = 0; q < pos && itx != cur.GetEnd(); ++q) ++itx;
				// a key iterator obtained from a traversal is movable: the result continues the traversal (theorem
				// C08_remove_returns_rest_of_traversal).  One obtained from Find is a momo "position" (operator++ gives
				// end), so there the result is end() when the hole was the key's last value.
				if (c == 'R') { if (!(itx == it)) R.oracle_fail("Remove: returned iterator is not at the flat position of the removed pair"); }
				else if (i < vec.size()) { if (!(itx == it)) R.oracle_fail("Remove(Find): returned iterator not at the same index"); }
				else if (!(it == cur.GetEnd())) R.oracle_fail("Remove(Find): position-derived iterator should end");
			}
			if (i < vec.size()) {
				if (!it || kid(it->key) != k) R.oracle_fail("Remove: returned iterator not at the same index");
				ret << "it(" << kid(it->key) << "," << C::dec(it->value) << ")";
			} else ret << "nx";
			break; }
		case 'p': {
			i64 pa = a[0], pb = a[1], pm = a[2], pr = a[3];
			size_t calls = 0;
			auto flt = [&](const KEY& key, const V& val) { ++calls; return Runner<MM, V>::pred(pa, pb, pm, pr, kid(key), C::dec(val)); };
			size_t before = cur.GetCount();
			size_t n = cur.Remove(flt);
			ret << "rm" << n;
			if (calls != before) R.oracle_fail("Remove(pred): predicate not called exactly once per pair");
			size_t tn = 0;
			for (auto& kv : tc.m) {
				auto& vec = kv.second.second;
				size_t i = 0;
				while (i < vec.size()) {
					if (Runner<MM, V>::pred(pa, pb, pm, pr, kv.first, vec[i])) { vec[i] = vec.back(); vec.pop_back(); ++tn; }
					else ++i;
				}
			}
			if (tn != n) R.oracle_fail("Remove(pred): returned count");
			break; }
		case 'v': {
			int k = (int)a[0];
			auto ki = cur.Find(MK(k, -1));
			if (!ki) { ret << "skip"; break; }
			cur.RemoveValues(ki);
			tc.m[k].second.clear();
			ret << "ok";
			break; }
		case 'k': {
			int k = (int)a[0];
			size_t n = cur.RemoveKey(MK(k, -1));
			ret << "rk" << n;
			auto f = tc.m.find(k);
			size_t tn = 0; if (f != tc.m.end()) { tn = f->second.second.size(); tc.m.erase(f); }
			if (tn != n) R.oracle_fail("RemoveKey(key): returned count");
			break; }
		case 'K': {
			int k = (int)a[0];
			auto ki = cur.Find(MK(k, -1));
			if (!ki) { ret << "skip"; break; }
			size_t n = ki->GetCount();
			if (inject) {
				std::string before = R.dump(cur, tc);
				kit::W().arm(-1, 0, -1);                // the key move-assignment inside mHashMap.Remove throws
				try { cur.RemoveKey(ki); kit::W().disarm(); }
				catch (const kit::InjectedCopy&) {
					kit::W().disarm(); ++R.injected; ++g_inj_rollback;
					if (R.dump(cur, tc) != before) { R.oracle_fail("RemoveKey roll-back: state changed by the throwing call"); break; }
					cur.RemoveKey(cur.Find(MK(k, -1)));
				}
			} else cur.RemoveKey(ki);
			ret << "rk" << n;
			tc.m.erase(k);
			break; }
		case 'n': {
			int k = (int)a[0], t = (int)a[1];
			auto ki = cur.Find(MK(k, -1));
			if (!!ki) { ret << "skip"; break; }
			auto kc = [k, t](KEY* newKey) { ::new(static_cast<void*>(newKey)) KEY(MK(k, t)); };
			auto kn = cur.AddKeyCrt(ki, kc);
			ret << "key(" << kid(kn->key) << "," << ktag(kn->key) << "," << kn->GetCount() << ")";
			tc.m[k] = std::make_pair(t, std::vector<i64>());
			break; }
		case 'G': {
			std::vector<std::pair<KEY, V>> ps;
			for (size_t q = 0; q + 2 < a.size(); q += 3) ps.push_back(std::make_pair(MK((int)a[q], (int)a[q + 1]), C::enc(a[q + 2])));
			if (ps.size() == 2 && a[2] % 2 == 0) cur.Add({ ps[0], ps[1] });      // initializer_list form
			else cur.Add(ps.begin(), ps.end());
			for (size_t q = 0; q + 2 < a.size(); q += 3) {
				int k = (int)a[q]; auto f = tc.m.find(k);
				if (f == tc.m.end()) tc.m[k] = std::make_pair((int)a[q + 1], std::vector<i64>{a[q + 2]}); else f->second.second.push_back(a[q + 2]);
			}
			ret << "ok";
			break; }
		case 't': {
			int k = (int)a[0], t = (int)a[1];
			auto ki = cur.Find(MK(k, -1));
			if (!ki) { ret << "skip"; break; }
			cur.ResetKey(ki, MK(k, t));
			tc.m[k].first = t;
			ret << "ok";
			break; }
		case 'c': cur.Clear(); tc.m.clear(); ret << "ok"; break;
		case 's':
			if (a.empty() || a[0] % 2 == 0) cur.Swap(oth); else swap(oth, cur);
			std::swap(tc, to); ret << "ok"; both = true; break;
		case 'y': {
			int var = a.empty() ? 0 : (int)(a[0] % 3);
			auto doCopy = [&]() {
				if (var == 0) oth = cur;                                                     // copy assignment
				else if (var == 1) { MM tmp(cur); oth = std::move(tmp); }                    // copy constructor
				else { MM tmp(cur, typename MM::MemManager(cur.GetMemManager())); oth.Swap(tmp); }   // copy with a memory manager
			};
			if (inject) {   // a failing allocation anywhere in the copy: neither container may change
				std::string b1 = R.dump(cur, tc), b2 = R.dump(oth, to); bool done = false;
				for (long j = 0; j < 400 && !done; ++j) {
					kit::W().arm(j, -1, -1);
					try { doCopy(); kit::W().disarm(); done = true; }
					catch (const std::bad_alloc&) {
						kit::W().disarm(); ++R.injected; ++g_inj_copy;
						if (R.dump(cur, tc) != b1 || R.dump(oth, to) != b2) { R.oracle_fail("a copy that threw changed a container (failure point " + std::to_string(j) + ")"); break; }
					}
				}
				if (!done && R.fail.empty()) R.oracle_fail("copy: more than 400 failure points");
			} else doCopy();
			to = tc; ret << "ok"; both = true; break; }
		case 'Y':
			if (a.empty() || a[0] % 2 == 0) cur = oth; else { MM tmp(oth); cur.Swap(tmp); }
			tc = to; ret << "ok"; both = true; break;
		case 'm': {
			int var = a.empty() ? 0 : (int)(a[0] % 4);
			if (var == 1) { MM tmp(std::move(oth)); cur.Swap(tmp); } else cur = std::move(oth);
			// the moved-from container: a client may clear it, query it, assign to it or just let it die
			if (!oth.mValueCrew.IsNull()) R.oracle_fail("moved-from container still has a crew");
			if (var == 2) oth.Clear();
			size_t dn = oth.GetCount(), dk = oth.GetKeyCount(), dt = 0;
			for (auto itx = oth.GetBegin(); itx != oth.GetEnd(); ++itx) ++dt;
			if (!oth.IsEmpty() || !oth.mValueCrew.IsNull()) R.oracle_fail("moved-from container not empty / revived by Clear");
			ret << "ok:dead(" << dn << "," << dk << "," << dt << ")";
			if (var == 3) { MM fresh; oth = fresh; }                    // copy assignment into the moved-from container
			else oth = MM();                                            // move assignment into it
			tc = to; to.m.clear(); both = true; break; }
		case 'L': {   // construct from an initializer list (0..3 pairs) and move-assign: cur = MM{...}
			std::vector<std::pair<KEY, V>> ps;
			for (size_t q = 0; q + 2 < a.size(); q += 3) ps.push_back(std::make_pair(MK((int)a[q], (int)a[q + 1]), C::enc(a[q + 2])));
			auto build = [&](std::initializer_list<std::pair<KEY, V>> il) { MM tmp(il); cur = std::move(tmp); };
			switch (ps.size()) {
			case 0: build({}); break;
			case 1: build({ps[0]}); break;
			case 2: build({ps[0], ps[1]}); break;
			default: build({ps[0], ps[1], ps[2]}); break;
			}
			tc.m.clear();
			for (size_t q = 0; q + 2 < a.size() && q < 9; q += 3) {
				int k = (int)a[q]; auto f = tc.m.find(k);
				if (f == tc.m.end()) tc.m[k] = std::make_pair((int)a[q + 1], std::vector<i64>{a[q + 2]}); else f->second.second.push_back(a[q + 2]);
			}
			ret << "ok"; break; }
		case 'M': {   // MakeIterator / MakeMutableIterator / CheckIterator at (key, index), index in 0..count
			int k = (int)a[0]; size_t i = (size_t)a[1];
			typename MM::KeyIterator km;
			for (km = cur.GetKeyBounds().GetBegin(); !!km && kid(km->key) != k; ++km) {}
			if (!km || i > km->GetCount()) { ret << "skip"; break; }
			size_t pos = 0;
			for (auto kx = cur.GetKeyBounds().GetBegin(); !!kx && kid(kx->key) != k; ++kx) pos += kx->GetCount();
			pos += i;
			auto itx = cur.GetBegin(); for (size_t q = 0; q < pos && itx != cur.GetEnd(); ++q) ++itx;
			typename MM::Iterator mi = cur.MakeIterator(km, i);
			if (!(mi == itx)) R.oracle_fail("MakeIterator(keyIter, index) is not the iterator at that flat position");
			const MM& ccur = cur;
			typename MM::ConstKeyIterator ckm = km;
			typename MM::ConstIterator cmi = ccur.MakeIterator(ckm, i);
			typename MM::Iterator back = cur.MakeMutableIterator(cmi);
			if (!(back == mi)) R.oracle_fail("MakeMutableIterator(const iterator) differs");
			cur.CheckIterator(cmi); cur.CheckKeyIterator(ckm);
			if (cur.MakeMutableKeyIterator(ckm) != km) R.oracle_fail("MakeMutableKeyIterator differs");
			auto kf = cur.Find(MK(k, -1));
			if (i < kf->GetCount()) { auto fi = cur.MakeIterator(kf, i); if (!fi || C::dec(fi->value) != C::dec(km->GetBegin()[i])) R.oracle_fail("MakeIterator(Find(k), i) dereferences another value"); }
			if (cur.GetValueCount() != cur.GetCount()) R.oracle_fail("GetValueCount");
			ret << "mi"; break; }
		default: ret << "?"; break;
		}
		// nested map's key-version counter (only kept by the checkKeyVersion configurations): did this call change it?
		if (MM::Settings::checkKeyVersion && kvBefore != nullptr && !inject && std::string("aAinrRpvkKtcGM").find(c) != std::string::npos && ret.str() != "skip") {
			const size_t* kvp = cur.mHashMap.mHashSet.mCrew.GetVersion();
			ret << ((kvp != nullptr && *kvp != kvBeforeVal) ? "~kv+" : "~kv=");
		}
		if (!firstRec) line << "|";
		firstRec = false;
		line << ret.str() << ";" << R.dump(cur, tc);
		if (both) line << ";" << R.dump(oth, to);
		if (!R.fail.empty()) { line << " ORACLE-FAIL(" << R.fail << " @" << tok << ")"; break; }
	}
	return line.str();
}

static std::string demangle(const char* n) {
	int st = 0; char* d = abi::__cxa_demangle(n, nullptr, nullptr, &st);
	std::string r = (st == 0 && d) ? d : n; std::free(d); return r;
}

// One configuration = (bucket class, key kind, memory manager, version checking, pool parameters); the value type is
// int64 (trivially relocatable) or std::string by parity of M, so that every configuration sees both across the M values.
//   L.c  HashBucketLimP4<>    KeyT + custom functor  kit::MMR  CV off  MemPoolParams<>
//   O8.c HashBucketOpen8      KeyT + custom functor  kit::MMR  CV off  MemPoolParams<>      (=> BucketOpen2N2<.,3,true>!)
//   O2.c HashBucketOpen2N2<>  KeyT + custom functor  kit::MM   CV on   MemPoolParams<>      (no Reallocate)
//   L.f  HashBucketLimP4<>    int + HashCoder        kit::MMR  CV on   MemPoolParams<3, 1>  (tiny pool buffers)
//   O8.f HashBucketOpen8      int + HashCoder        kit::MMR  CV off  MemPoolParams<>      (=> BucketOpen8)
//   O2.f HashBucketOpen2N2<>  int + HashCoder        kit::MM   CV off  MemPoolParams<5, 0>
template<typename Key, typename HT, typename MemMgr, size_t M, bool CV, typename PP, typename V>
using MMapT = momo::HashMultiMap<Key, V, HT, MemMgr, momo::HashMultiMapKeyValueTraits<Key, V, MemMgr>, Settings<M, CV, PP>>;

template<typename MM, typename V>
static std::string describe() {
	typedef typename MM::HashMap::HashSet::Bucket Bucket;
	std::string b = demangle(typeid(Bucket).name());
	std::string head = b.substr(0, b.find('<'));
	std::string tail = b.substr(b.rfind(',') == std::string::npos ? 0 : b.rfind(','));
	std::ostringstream o;
	o << "bucket=" << head << " lastarg=" << tail
	  << " fasthash=" << MM::HashTraits::isFastNothrowHashable
	  << " M=" << MM::ValueArray::maxFastCount
	  << " trivreloc=" << MM::ValueArray::ItemTraits::isTriviallyRelocatable
	  << " cv=" << MM::Settings::checkValueVersion << MM::Settings::checkKeyVersion
	  << " realloc=" << momo::internal::MemManagerProxy<typename MM::MemManager>::canReallocate
	  << " poolblocks=" << MM::Settings::ValueArrayMemPoolParams::blockCount
	  << " cached=" << MM::Settings::ValueArrayMemPoolParams::cachedFreeBlockCount;
	return o.str();
}

template<typename MM, typename V>
static std::string dispatch(bool describeOnly, const std::vector<std::string>& ops) {
	return describeOnly ? describe<MM, V>() : run_case<MM, V>(ops);
}

template<size_t M, typename V>
static std::string by_cfg(const std::string& b, bool d, const std::vector<std::string>& ops) {
	typedef momo::MemPoolParams<> PP0;
#if !defined(EN_SUBSET) || defined(EN_LC)
	if (b == "L.c") return dispatch<MMapT<KeyT, momo::HashTraitsStd<KeyT, Hasher, Eq, momo::HashBucketLimP4<>>, kit::MMR, M, false, PP0, V>, V>(d, ops);
#endif
#if !defined(EN_SUBSET) || defined(EN_O8C)
	if (b == "O8.c") return dispatch<MMapT<KeyT, momo::HashTraitsStd<KeyT, Hasher, Eq, momo::HashBucketOpen8>, kit::MMR, M, false, PP0, V>, V>(d, ops);
#endif
#if !defined(EN_SUBSET) || defined(EN_O2C)
	if (b == "O2.c") return dispatch<MMapT<KeyT, momo::HashTraitsStd<KeyT, Hasher, Eq, momo::HashBucketOpen2N2<>>, kit::MM, M, true, PP0, V>, V>(d, ops);
#endif
#if !defined(EN_SUBSET) || defined(EN_LF)
	if (b == "L.f") return dispatch<MMapT<int, momo::HashTraits<int, momo::HashBucketLimP4<>>, kit::MMR, M, true, momo::MemPoolParams<3, 1>, V>, V>(d, ops);
#endif
#if !defined(EN_SUBSET) || defined(EN_O8F)
	if (b == "O8.f") return dispatch<MMapT<int, momo::HashTraits<int, momo::HashBucketOpen8>, kit::MMR, M, false, PP0, V>, V>(d, ops);
#endif
#if !defined(EN_SUBSET) || defined(EN_O2F)
	if (b == "O2.f") return dispatch<MMapT<int, momo::HashTraits<int, momo::HashBucketOpen2N2<>>, kit::MM, M, false, momo::MemPoolParams<5, 0>, V>, V>(d, ops);
#endif
	return "?bucket";
}

// value type by parity: configurations *.c with even M and *.f with odd M hold int64, the others std::string
static bool wants_string(const std::string& b, size_t M) { return (b.size() > 2 && b[b.size() - 1] == 'c') == (M % 2 == 1); }

template<size_t M>
static std::string by_vt(const std::string& b, const std::string& vt, bool d, const std::vector<std::string>& ops) {
	if ((vt == "s") != wants_string(b, M)) return "?vt";
	if (vt == "i") return by_cfg<M, i64>(b, d, ops);
	if (vt == "s") return by_cfg<M, std::string>(b, d, ops);
	return "?vt";
}

int main() {
	std::ios::sync_with_stdio(false);
	std::string line;
	while (std::getline(std::cin, line)) {
		std::istringstream is(line);
		std::string kind, b, vt; size_t M; int hm;
		is >> kind >> b >> M >> vt >> hm;
		std::vector<std::string> ops; std::string t;
		while (is >> t) ops.push_back(t);
		g_hashmode = hm;
		bool d = (kind == "cfg");
		std::string res = "?M";
		switch (M) {
#define X(m) case m: res = by_vt<m>(b, vt, d, ops); break;
		HM_LIST
#undef X
		default: break;
		}
		std::cout << res << "\n";
	}
	std::cerr << "injected=" << g_injected << " add_throw=" << g_inj_add << " shrink_swallowed=" << g_inj_shrink << " removekey_rollback=" << g_inj_rollback << " copy_throw=" << g_inj_copy << " growth_failure_swallowed=" << g_inj_swallowed << "\n";
	return 0;
}
