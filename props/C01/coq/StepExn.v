(* C01 -- which model operations can answer RExn at all, and why.  step_refines / world_step_refines allow "x = RExn /\ s' = s" for
   every operation; this lemma closes that escape for the operations that never throw and names the model sub-function whose None is
   the throw for the others:  Find / Remove / SetVal / Clear / Traverse / Count / Remove(filter) and every insertion of a PRESENT key
   never answer RExn;  Insert / AddAt throw exactly when hadd = None (see never_table_full for when that is), InsertNoMem when
   hadd_nomem = None, Reserve when hreserve = None, Copy when hcopy = None (no table size within 64 doublings / beyond maxLog / table
   full inside add_all), InsertFail of an absent key always (the creator throws).  A throwing step leaves the state unchanged. *)
From Coq Require Import ZArith List Lia Bool.
From C01 Require Import HashModel.
Local Open Scope Z_scope.

Section StepExn.
  Variable B : Type.
  Variable b0 : B.
  Variable decode : Z -> B -> Z.
  Variable upd_bound : B -> Z -> B.
  Variable h : Z -> Z.
  Variable cap : Z.
  Variables unlimited wf0 : bool.
  Variable wfThr : Z.
  Variable start : Z -> Z -> Z.
  Variable next : Z -> Z -> Z -> Z.
  Variable logStart : Z.
  Variable calcCapacity : Z -> Z.
  Variable shift : Z -> Z.
  Variable maxLog : Z.

  Notation step' := (step B b0 decode upd_bound h cap unlimited wf0 wfThr start next logStart calcCapacity shift maxLog).
  Notation hfind' := (hfind B b0 decode h wf0 start next).
  Notation hadd' := (hadd B b0 upd_bound h cap unlimited wf0 wfThr start next logStart calcCapacity shift maxLog).
  Notation haddnm' := (hadd_nomem B b0 upd_bound h cap unlimited wf0 wfThr start next logStart calcCapacity shift maxLog).
  Notation hreserve' := (hreserve B b0 upd_bound h cap unlimited wf0 wfThr start next logStart calcCapacity shift maxLog).
  Notation hcopy' := (hcopy B b0 upd_bound h cap unlimited wf0 wfThr start next logStart calcCapacity maxLog).

  Definition exn_cause (s : hset B) (o : op) : Prop :=
    match o with
    | OInsert k v bud => hfind' s k = None /\ hadd' s (k, v) bud = None
    | OAddAt k v => hfind' s k = None /\ hadd' s (k, v) None = None
    | OInsertNoMem k v => hfind' s k = None /\ haddnm' s (k, v) = None
    | OInsertFail k v => hfind' s k = None
    | OReserve n bud => hreserve' s n bud = None
    | OCopy => hcopy' s = None
    | _ => False
    end.

  Theorem step_exn_only s o s' : step' s o = (s', RExn) -> s' = s /\ exn_cause s o.
  Proof.
    destruct o; cbn [step exn_cause]; intros H.
    - destruct (hfind' s k); [discriminate|]. destruct (hadd' s (k, v) fail); inversion H; auto.
    - discriminate.
    - destruct (hfind' s k) as [[[[? ?] ?] ?]|]; discriminate.
    - destruct (hfind' s k) as [[[[? ?] ?] ?]|]; discriminate.
    - destruct (hreserve' s n fail); inversion H; auto.
    - discriminate.
    - discriminate.
    - discriminate.
    - destruct (hremove_if_m _ _ _ _ _); discriminate.
    - destruct (hcopy' s); inversion H; auto.
    - destruct (hfind' s k); [discriminate|]. destruct (hadd' s (k, v) None); inversion H; auto.
    - destruct (hfind' s k); [discriminate|]. destruct (haddnm' s (k, v)); inversion H; auto.
    - destruct (hfind' s k); inversion H; auto.
  Qed.
End StepExn.
