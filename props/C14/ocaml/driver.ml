(* C14 model driver: same case format as harness.cpp, prints the tie part of the harness line, computed by the
   extracted Coq model (PropagationModel + Model).  See harness.cpp for the case grammar. *)
open Zutil
open PropagationModel
open Model
open Bodies
open Crew

let z = z_of_int
let iz = int_of_z
exception Abort
(* element category of the native binary: 'n' nothrow-move (default), 't' trivially relocatable (kit does not count its
   copies / moves), 'c' copy-only (every element move IS a copy), 's' self-move-hostile *)
let cat = ref 'n'
let adj_mv mv = if !cat = 't' || !cat = 'c' then 0 else mv
let adj_cp mv cp = if !cat = 't' then 0 else if !cat = 'c' then (if mv = 1 || cp = 1 then 1 else 0) else cp
exception Wrong

let get r = match r with Ok (a, w) -> (a, w) | NullCrew -> raise Abort | SwapPre -> raise Abort | WrongMgr -> raise Wrong

let traits_of s =
  if s.[0] = 'N' then None else
  let k = int_of_string s in
  if k = 8 then Some { pocca = false; pocma = true; pocs = false; nma = true; is_empty = true }
  else Some { pocca = (k land 4) <> 0; pocma = (k land 2) <> 0; pocs = (k land 1) <> 0; nma = (k < 16); is_empty = false }

(* contents of a state spec, mirroring harness.cpp build() *)
let spec_items st base multi_crew =
  let k = st.[0] in
  let n = if String.length st > 1 then int_of_string (String.sub st 1 (String.length st - 1)) else 0 in
  let plain = Stdlib.List.init n (fun i -> base + 3 * i) in
  let dups = if multi_crew && k <> 'c' && k <> 'g' && k <> 'h' then Stdlib.List.filter_map (fun i -> if i mod 4 = 0 then Some (base + 3 * i) else None) (Stdlib.List.init n (fun i -> i)) else [] in
  let all = Stdlib.List.sort compare (plain @ dups) in
  match k with
  | 'f' -> let l = plain @ dups in                 (* DataTable: the two rows added last are extracted (detached) again *)
    let keep = max 0 (Stdlib.List.length l - 2) in (Stdlib.List.filteri (fun i _ -> i < keep) l, n)
  | 'w' -> (Stdlib.List.init n (fun _ -> base), n)
  | 'e' | 'c' -> ([], n)
  | 'v' -> (Stdlib.List.filter_map (fun i -> if i mod 2 = 1 then Some (base + 3 * i) else None) (Stdlib.List.init n (fun i -> i)), n)
  | _ -> (all, n)

let show l =
  let l = Stdlib.List.sort compare l in
  if Stdlib.List.length l > 16 then Printf.sprintf "#%d:%d" (Stdlib.List.length l) (Stdlib.List.fold_left (+) 0 l)
  else "[" ^ String.concat "," (Stdlib.List.map string_of_int l) ^ "]"
let ids = function None -> "null" | Some m -> string_of_int (iz m)

type kindinfo = Inl of bool                             (* inline crew, stateful traits: hash (true) / tree (false) *)
              | Crew of ckind * bool * wkind option   (* nested kind, multi, wrapper kind *)
              | Arr of int * bool                     (* internal capacity, is stdish vector *)
let kind_of = function
  | "HashSetInl" -> Inl true | "TreeSetInl" -> Inl false
  | "Array" -> Arr (0, false) | "ArrayIC" -> Arr (4, false) | "Seg" -> Arr (0, false)
  | "HashSet" | "HashMap" | "HashSetFast" | "HashSetOpen2" -> Crew (KHash, false, None)
  | "HashMulti" -> Crew (KMulti, true, None)
  | "TreeSet" | "TreeMap" -> Crew (KTree, false, None)
  | "DataTable" -> Crew (KTable, false, None)
  | "vec" -> Arr (0, true) | "vecic" -> Arr (4, true)
  | "set" | "setdir" -> Crew (KTree, false, Some WSet) | "mset" -> Crew (KTree, true, Some WSet)
  | "map" | "mapdir" -> Crew (KTree, false, Some WMap) | "mmap" -> Crew (KTree, true, Some WMap)
  | "uset" | "useto" | "usetseed" -> Crew (KHash, false, Some WUSet) | "umap" -> Crew (KHash, false, Some WUMap)
  | "ummap" -> Crew (KMulti, true, Some WUMulti)
  | _ -> failwith "kind"

let has_event p (w : world) = Stdlib.List.exists p w.trace
let is_move = function EMove _ -> true | _ -> false
let is_copy = function ECopy _ | EKeyCopy _ -> true | _ -> false
let reset (w : world) = { next = w.next; trace = [] }
let zl = Stdlib.List.map z
let il = Stdlib.List.map iz


(* ---- structured bodies (Bodies.v): built from the structure token the harness validated against the real object *)
let split_on c s = if s = "" then [] else String.split_on_char c s
let rec take n l = if n <= 0 then ([], l) else match l with [] -> ([], []) | x :: r -> let (a, b) = take (n - 1) r in (x :: a, b)
let fresh_block id (w : world) = let (b, w') = alloc (z id) w in (b, w')
let parse_struct (tok : string) (id : int) (items : int list) (w : world) : sbody option * world =
  if tok = "*" || tok = "" then (None, w) else
  let body = String.sub tok 1 (String.length tok - 1) in
  match tok.[0] with
  | 'H' ->
    let counts = Stdlib.List.map int_of_string (split_on '.' body) in
    let (gens, _, w) = Stdlib.List.fold_left (fun (acc, rest, w) n ->
        let (its, rest') = take n rest in let (b, w') = fresh_block id w in
        (acc @ [{ gblock = b; gitems = zl its }], rest', w')) ([], items, w) counts in
    (Some (SHash gens), w)
  | 'T' ->
    let p = body.[0] = '1' in
    let nodes = split_on ',' (String.sub body 2 (String.length body - 2)) in
    let (pb, w) = if p then let (b, w') = fresh_block id w in (Some (b, z 0), w') else (None, w) in
    let (ns, _, w) = Stdlib.List.fold_left (fun (acc, rest, w) tk ->
        match split_on '.' tk with
        | [d; c] -> let (its, rest') = take (int_of_string c) rest in let (b, w') = fresh_block id w in
          (acc @ [{ nblock = b; nitems = zl its; ndepth = nat_of_int (int_of_string d) }], rest', w')
        | _ -> failwith "tree token") ([], items, w) nodes in
    (Some (STree (pb, ns)), w)
  | 'M' ->
    (match split_on ':' body with
     | [g; kv] ->
       (match split_on '.' kv with
        | [_; vl] ->
          let (bk, w) = Stdlib.List.fold_left (fun (acc, w) _ -> let (b, w') = fresh_block id w in (acc @ [b], w')) ([], w) (Stdlib.List.init (int_of_string g) (fun i -> i)) in
          let sorted = Stdlib.List.sort compare items in
          let rec group = function [] -> [] | x :: r -> let (same, rest) = Stdlib.List.partition (fun y -> y = x) r in (x, 1 + Stdlib.List.length same) :: group rest in
          let (keys, w) = Stdlib.List.fold_left (fun (acc, w) (kv, n) -> let (b, w') = fresh_block id w in
                                        (acc @ [{ mk = z kv; marr = Some b; mvals = zl (Stdlib.List.init n (fun i -> kv + 7)) }], w')) ([], w) (group sorted) in
          let vls = Stdlib.List.init (int_of_string vl) (fun i -> { mk = z (-1 - i); marr = None; mvals = [] }) in
          (Some (SMulti (bk, keys @ vls)), w)
        | _ -> failwith "multi token")
     | _ -> failwith "multi token")
  | 'D' ->
    let body = (match split_on ':' body with b :: _ -> b | [] -> body) in
    (match split_on '.' body with
     | [_; fr] ->
       let (ra, w) = if items = [] then (None, w) else let (b, w') = fresh_block id w in (Some b, w') in
       let (rows, w) = Stdlib.List.fold_left (fun (acc, w) v -> let (b, w') = fresh_block id w in (acc @ [{ rblock = b; rval = z v }], w')) ([], w) items in
       let (free, w) = Stdlib.List.fold_left (fun (acc, w) _ -> let (b, w') = fresh_block id w in (acc @ [b], w')) ([], w) (Stdlib.List.init (int_of_string fr) (fun i -> i)) in
       (Some (STable (ra, rows, free)), w)
     | _ -> failwith "table token")
  | _ -> (None, w)

let show_struct = function
  | SHash gens -> "H" ^ String.concat "." (Stdlib.List.map (fun g -> string_of_int (Stdlib.List.length g.gitems)) gens)
  | STree (p, ns) -> "T" ^ (if p = None then "0" else "1") ^ ":" ^
                     String.concat "," (Stdlib.List.map (fun n -> string_of_int (int_of_nat n.ndepth) ^ "." ^ string_of_int (Stdlib.List.length n.nitems)) ns)
  | SMulti (bk, ks) -> Printf.sprintf "M%d:%d.%d" (Stdlib.List.length bk) (Stdlib.List.length ks)
                         (Stdlib.List.length (Stdlib.List.filter (fun k -> k.mvals = []) ks))
  | STable (_, rows, free) -> Printf.sprintf "D%d.%d" (Stdlib.List.length rows) (Stdlib.List.length free)
let show_sc = function SOwned (_, b) -> show_struct b | SMovedFrom -> "null"
(* DataTable indexes: the part after ':' of a table token, e.g. u6,m6 *)
let parse_idx (tok : string) : tindex list =
  if tok = "" || tok.[0] <> 'D' then [] else
  match split_on ':' tok with
  | [_; is] -> Stdlib.List.map (fun t -> { iunique = (t.[0] = 'u'); iblocks = []; ientries = nat_of_int (int_of_string (String.sub t 1 (String.length t - 1))) }) (split_on ',' is)
  | _ -> []
let show_idx is = String.concat "," (Stdlib.List.map (fun (u, n) -> (if u then "u" else "m") ^ string_of_int (int_of_nat n)) is)
let parse_shape (tok : string) =
  if String.length tok < 3 || tok.[0] <> 'T' then [] else
  Stdlib.List.map (fun tk -> match split_on '.' tk with [d; c] -> (nat_of_int (int_of_string d), nat_of_int (int_of_string c)) | _ -> failwith "shape")
    (split_on ',' (String.sub tok 3 (String.length tok - 3)))

let run_crew k multi wko tr op ss ts sid tid aid post sst tst est =
  let w0 = { next = z 0; trace = [] } in
  let mk id st base w =
    let (c, w) = get (cc_new k (z id) w) in
    let (items, n) = spec_items st base multi in
    match c with
    | Owned (cr, _, _) ->
      let (body, w) = alloc_n (shape k (nat_of_int n)) (z id) w in (Owned (cr, body, zl items), w)
    | MovedFrom -> (c, w) in
  let (s, w) = mk sid ss 1000 w0 in
  let (t, w) = mk tid ts 200000 w in
  let w = reset w in
  let self = String.length op >= 4 && String.sub op 0 4 = "self" in
  let wrap = wko <> None in
  let wk = match wko with Some x -> x | None -> WSet in
  let trv = match tr with Some x -> x | None -> native_traits in
  (* main operation: returns (t', s', w') *)
  let (t1, s1, w1) =
    match op with
    | "none" | "copyfail" | "selfcopya" -> (t, s, w)
    | "selfmovea" -> if wrap then (t, s, w) else let (s', w') = get (cc_self_move_assign k s w) in (t, s', w')
    | "selfswap" -> if wrap then let ((a, _), w') = get (w_swap trv s s w) in (t, a, w') else (t, s, w)
    | "copyc" -> let (n, w') = get (cc_copy_ctor k s w) in (n, s, w')
    | "copyca" -> let (n, w') = get (cc_copy_ctor_mm k s (z aid) w) in (n, s, w')
    | "movec" -> let (n, s') = cc_move_ctor s in (n, s', w)
    | "moveca" -> let ((n, s'), w') = get (w_create wk trv s (z aid) w) in (n, s', w')
    | "copya" -> if wrap then let (t', w') = get (w_copy_assign wk trv t s w) in (t', s, w')
                 else let (t', w') = get (cc_copy_assign k t s w) in (t', s, w')
    | "movea" -> if wrap then let ((t', s'), w') = get (w_move_assign wk trv t s w) in (t', s', w')
                 else let ((t', s'), w') = get (cc_move_assign k t s w) in (t', s', w')
    | "swap" -> if wrap then let ((t', s'), w') = get (w_swap trv t s w) in (t', s', w')
                else let (t', s') = cc_swap t s in (t', s', w)
    | "merge" -> if items_of s = [] then (t, s, w)               (* MergeTo: `if (count == 0) return;` *)
                 else if items_of t = [] && sid = tid then let (s', t') = cc_swap s t in (t', s', w)   (* empty target, equal managers: Swap(dst) (c7fda03) *)
                 else let ((t', s'), w') = get (cc_merge_from k t s w) in (t', s', w')    (* joined (fast path) or element-wise: items move, never copied *)
    | _ -> failwith "op" in
  let none = (op = "none" || op = "copyfail") in
  let iscopy = String.length op >= 4 && String.sub op 0 4 = "copy" && op <> "copyfail" in
  (* structured view: the graph of S and T before the operation comes from the (validated) structure tokens *)
  let wS = { next = z 1000000; trace = [] } in
  let crew_of c = match c with Owned (cr, _, _) -> cr | MovedFrom -> { cblocks = []; cmgr = z 0 } in
  let (bS, wS) = parse_struct sst sid (il (items_of s)) wS in
  let (bT, wS) = parse_struct tst tid (il (items_of t)) wS in
  let stS = match bS with Some b -> Some (SOwned (crew_of s, b)) | None -> None in
  let stT = match bT with Some b -> Some (SOwned (crew_of t, b)) | None -> None in
  let shw = function Some x -> show_sc x | None -> "*" in
  let moved = (match s1 with MovedFrom -> true | _ -> false) in
  let ismovea = (op = "movea" || op = "moveca") in
  let ew = ismovea && not moved in
  let merge_swap = (op = "merge" && items_of s <> [] && items_of t = [] && sid = tid) in
  let merge_noop = (op = "merge" && items_of s = []) in
  let mergex = (op = "merge" && not merge_swap && not merge_noop) in
  let idxS = parse_idx sst and idxT = parse_idx tst in
  let with_idx str is = if k = KTable && str <> "null" && str <> "*" then str ^ ":" ^ show_idx is else str in
  let shape_idx is = Stdlib.List.map (fun i -> (i.iunique, i.ientries)) is in
  let ts_str =
    if self || none then "-" else if mergex then "?" else
    if ew then
      (* element-wise move: a fresh structure built by inserting the source's items in traversal order *)
      (match bS with
       | Some b -> let (b', _) = s_elementwise_body (z 0) (z 0) (parse_shape est) b wS in show_struct b'
       | None -> "*")
    else if iscopy then
      (match stS with
       | Some (SOwned (_, b)) when k = KTable ->
         let (t', _) = s_copy_table (z 0) (z 0) { t_body = b; t_idx = idxS } wS in show_struct t'.t_body ^ ":" ^ show_idx (idx_shape t')
       | Some x -> (match s_copy k x (z 0) wS with Ok (c, _) -> show_sc c | _ -> "abort")
       | None -> "*")
    else if merge_noop then with_idx (shw stT) (shape_idx idxT)
    else with_idx (shw stS) (shape_idx idxS) in       (* movec / steal / swap / merge-swap: the target holds the source's former graph, indexes included *)
  let ss_str =
    if moved then "null"
    else if ew || mergex then
      (* the emptied source keeps its crew and a storage skeleton *)
      (match bS with
       | Some (SHash gens) -> if gens = [] then "H" else "H0"
       | Some (STree (p, _)) -> if p = None then "T0:" else if mergex && sid = tid then "T1:" else "T1:0.0"
       | Some (SMulti _) -> "M0:0.0"
       | Some b -> show_struct b
       | None -> "*")
    else if op = "swap" || merge_swap then with_idx (shw stT) (shape_idx idxT)
    else with_idx (shw stS) (shape_idx idxS) in
  let line1 = Printf.sprintf "ok T=%s S=%s tc=%s sc=%s mv=%d cp=%d ts=%s ss=%s"
      (if self || none then "-" else ids (mgr_of t1)) (ids (mgr_of s1))
      (if self || none then "[]" else show (il (items_of t1))) (show (il (items_of s1)))
      (adj_mv (if has_event is_move w1 && not iscopy then 1 else 0))
      (adj_cp (if has_event is_move w1 && not iscopy then 1 else 0) (if has_event is_copy w1 then 1 else 0)) ts_str ss_str in
  (* post operation on the source with a fresh F *)
  let s1 = if op = "merge" && post = "none" then MovedFrom else s1 in         (* the harness lets the source's crew die after a merge *)
  let useF = Stdlib.List.mem post ["swapf"; "fswap"; "massign"; "cassign"] in
  let (f, w2) = get (cc_new k (z aid) w1) in
  let (f, w2) = if useF then Stdlib.List.fold_left (fun (c, w) i -> get (cc_insert k multi c (z (300000 + 3 * i)) w)) (f, w2) [0; 1; 2; 3; 4] else (f, w2) in
  let (s2, f2, _) =
    match post with
    | "none" -> (s1, f, w2)
    | "clear" ->
      (* the GENERATED Clear (cxx2coq) on the abstracted fields decides ok / stuck; the hand model must agree *)
      let crew_null = (match s1 with MovedFrom -> true | _ -> false) in
      let storage = (match s1 with Owned (_, _ :: _, _) -> z 1 | _ -> z 0) in
      let cnt = z (Stdlib.List.length (items_of s1)) in
      let gen_ok = (match k with
          | KTree -> (match Gen_TreeSet.coq_Clear crew_null cnt storage storage with GenPrelude.Ok _ -> true | _ -> false)
          | KHash -> (match Gen_HashSet.coq_Clear crew_null (z 0) cnt cnt storage true with GenPrelude.Ok _ -> true | _ -> false)
          | KMulti -> (match Gen_HashMultiMap.coq_Clear crew_null cnt with GenPrelude.Ok _ -> true | _ -> false)
          | KTable -> (match Gen_DataTable.coq_Clear crew_null with GenPrelude.Ok _ -> true | _ -> false)) in
      let hand = cc_clear k s1 w2 in
      if gen_ok <> (match hand with Ok _ -> true | _ -> false) then failwith "generated-Clear-disagrees-with-the-hand-model";
      if not gen_ok then raise Abort;
      let (s', w') = get hand in (s', f, w')
    | "swapf" -> if wrap then let ((s', f'), w') = get (w_swap trv s1 f w2) in (s', f', w')
                 else let (s', f') = cc_swap s1 f in (s', f', w2)
    | "fswap" -> if wrap then let ((f', s'), w') = get (w_swap trv f s1 w2) in (s', f', w')
                 else let (f', s') = cc_swap f s1 in (s', f', w2)
    | "massign" -> if wrap then let ((s', f'), w') = get (w_move_assign wk trv s1 f w2) in (s', f', w')
                   else let ((s', f'), w') = get (cc_move_assign k s1 f w2) in (s', f', w')
    | "cassign" -> if wrap then let (s', w') = get (w_copy_assign wk trv s1 f w2) in (s', f, w')
                   else let (s', w') = get (cc_copy_assign k s1 f w2) in (s', f, w')
    | "reuse" -> let (s', w') = get (cc_insert k multi s1 (z 400001) w2) in
                 let (s'', w'') = get (cc_insert k multi s' (z 400004) w') in (s'', f, w'')
    | "fmove" -> if wrap then let ((f', s'), w') = get (w_move_assign wk trv f s1 w2) in (s', f', w')
                 else let ((f', s'), w') = get (cc_move_assign k f s1 w2) in (s', f', w')
    | "ccopy" -> let (x, w') = get (cc_copy_ctor k s1 w2) in (s1, x, w')
    | "find" -> let (b, w') = if k = KTable then (Stdlib.List.mem 1003 (il (items_of s1)), w2)   (* harness: linear scan over GetCount() rows, no crew *)
                              else get (cc_find s1 (z 1003) w2) in
                if b then let (f', w'') = get (cc_insert k multi f (z 1) w') in (s1, f', w'') else (s1, f, w')
    | "ilist" -> if wrap then let (s', w') = get (w_assign_ilist wk multi s1 [z 400001; z 400004] w2) in (s', f, w') else (s1, f, w2)
    | _ -> failwith "post" in
  let useF = useF || Stdlib.List.mem post ["fmove"; "ccopy"; "find"] in
  (* structure of the source after Clear(): from the fields the generated Clear returns *)
  let s2s =
    if post <> "clear" then "-" else
    match s2 with
    | MovedFrom -> "null"
    | Owned _ ->
      let storage = (match s1 with Owned (_, _ :: _, _) -> z 1 | _ -> z 0) in
      let cnt = z (Stdlib.List.length (items_of s1)) in
      (match k with
       | KTree -> (match Gen_TreeSet.coq_Clear false cnt storage storage with
           | GenPrelude.Ok (((_, _), r'), p') -> if iz r' = 0 && iz p' = 0 then "T0:" else "T1:0.0" | _ -> "stuck")
       | KHash -> (match Gen_HashSet.coq_Clear false (z 0) cnt cnt storage true with
           | GenPrelude.Ok (((_, _), _), b') -> if iz b' = 0 then "H" else "H0" | _ -> "stuck")
       | KMulti -> "M0:0.0"
       | KTable -> let is = (if op = "swap" then idxT else idxS) in      (* the index DEFINITIONS stay, without entries *)
         "D0.0:" ^ show_idx (Stdlib.List.map (fun i -> (i.iunique, nat_of_int 0)) is)) in
  Printf.printf "%s S2=%s s2c=%s F=%s fc=%s s2s=%s E=0\n" line1 (ids (mgr_of s2)) (show (il (items_of s2)))
    (if useF then ids (mgr_of f2) else "-") (if useF then show (il (items_of f2)) else "[]") s2s


(* ---- inline-crew sets with stateful traits (Crew.v): the ids are traits states *)
let run_inl ishash op ss ts sid tid aid post sst tst =
  let mk id st base = let (items, _) = spec_items st base false in
    { is_crew = z id; is_built = z id; is_shape = []; is_items = zl items } in
  let s = mk sid ss 1000 and t = mk tid ts 200000 in
  let self = String.length op >= 4 && String.sub op 0 4 = "self" in
  let none = (op = "none" || op = "copyfail") in
  let iscopy = String.length op >= 4 && String.sub op 0 4 = "copy" && op <> "copyfail" in
  let empty_tok = if ishash then "H" else "T0:" in
  let copy_tok tok items = if items = [] then empty_tok else if ishash then "H" ^ string_of_int (Stdlib.List.length items) else tok in
  let rb x = x in
  let (t1, s1, ts_str, ss_str) =
    match op with
    | "none" | "copyfail" | "selfcopya" | "selfmovea" | "selfswap" -> (t, s, "-", sst)
    | "copyc" | "copyca" -> (iset_copy_ctor rb s, s, copy_tok sst s.is_items, sst)
    | "copya" -> (iset_copy_assign rb t s, s, copy_tok sst s.is_items, sst)
    | "movec" -> let (n, s') = iset_move_ctor s in (n, s', sst, empty_tok)
    | "movea" -> let (t', s') = iset_move_assign t s in (t', s', sst, empty_tok)
    | "swap" -> let (t', s') = iset_swap t s in (t', s', sst, tst)
    | _ -> failwith "op" in
  let tid_s x = string_of_int (iz (ic_traits x.is_crew)) in
  let line1 = Printf.sprintf "ok T=%s S=%s tc=%s sc=%s mv=0 cp=%d ts=%s ss=%s"
      (if self || none then "-" else tid_s t1) (tid_s s1)
      (if self || none then "[]" else show (il t1.is_items)) (show (il s1.is_items))
      (if iscopy && s.is_items <> [] then 1 else 0) ts_str ss_str in
  let useF = Stdlib.List.mem post ["swapf"; "fswap"; "massign"; "cassign"; "fmove"; "ccopy"; "find"] in
  let f0 = iset_new (z aid) in
  let f = if Stdlib.List.mem post ["swapf"; "fswap"; "massign"; "cassign"] then Stdlib.List.fold_left (fun c i -> iset_insert c (z (300000 + 3 * i))) f0 [0; 1; 2; 3; 4] else f0 in
  let (s2, f2) =
    match post with
    | "none" -> (s1, f)
    | "clear" -> ({ s1 with is_items = [] }, f)
    | "swapf" -> iset_swap s1 f
    | "fswap" -> let (f', s') = iset_swap f s1 in (s', f')
    | "massign" -> iset_move_assign s1 f
    | "cassign" -> (iset_copy_assign rb s1 f, f)
    | "reuse" -> (iset_insert (iset_insert s1 (z 400001)) (z 400004), f)
    | "fmove" -> let (f', s') = iset_move_assign f s1 in (s', f')
    | "ccopy" -> (s1, iset_copy_ctor rb s1)
    | "find" -> if iset_find s1 (z 1003) then (s1, iset_insert f (z 1)) else (s1, f)
    | _ -> failwith "post" in
  Printf.printf "%s S2=%s s2c=%s F=%s fc=%s s2s=%s E=0\n" line1 (tid_s s2) (show (il s2.is_items))
    (if useF then tid_s f2 else "-") (if useF then show (il f2.is_items) else "[]") (if post = "clear" then empty_tok else "-")

let run_arr ic isvec tr op ss ts sid tid aid post =
  let selfnone = (op = "none" || op = "copyfail" || (String.length op >= 4 && String.sub op 0 4 = "self")) in
  let w0 = { next = z 0; trace = [] } in
  let icn = nat_of_int ic in
  let mk id st base w =
    let (items, n) = spec_items st base false in
    if n > ic then let ((b, w), _) = (alloc (z id) w, ()) in ({ amgr = z id; ablock = Some b; aitems = zl items }, w)
    else ({ amgr = z id; ablock = None; aitems = zl items }, w) in
  let (s, w) = mk sid ss 1000 w0 in
  let (t, w) = mk tid ts 200000 w in
  let w = reset w in
  let trv = match tr with Some x -> x | None -> native_traits in
  let assign = if isvec then proxy_assign trv false else native_proxy_assign false in
  let self = String.length op >= 4 && String.sub op 0 4 = "self" in
  let (t1, s1, w1) =
    match op with
    | "none" | "copyfail" | "selfcopya" | "selfmovea" | "selfswap" -> (t, s, w)
    | "copyc" -> let (n, w') = arr_copy_ctor icn s w in (n, s, w')
    | "copyca" -> let (n, w') = arr_copy_ctor_mm icn s (z aid) w in (n, s, w')
    | "movec" -> let ((n, s'), w') = arr_move_ctor s w in (n, s', w')
    | "moveca" -> let ((n, s'), w') = v_create trv icn s (z aid) w in (n, s', w')
    | "copya" -> if isvec then let (t', w') = get (v_copy_assign trv icn t s w) in (t', s, w')
                 else let (t', w') = get (arr_copy_assign assign icn t s w) in (t', s, w')
    | "movea" -> if isvec then let ((t', s'), w') = get (v_move_assign trv icn t s w) in (t', s', w')
                 else let ((t', s'), w') = get (arr_move_assign assign t s w) in (t', s', w')
    | "swap" -> if isvec then let ((t', s'), w') = get (v_swap trv t s w) in (t', s', w')
                else let ((t', s'), w') = get (arr_swap assign t s w) in (t', s', w')
    | _ -> failwith "op" in
  let none = (op = "none" || op = "copyfail") in
  let iscopy = String.length op >= 4 && String.sub op 0 4 = "copy" && op <> "copyfail" in
  let line1 = Printf.sprintf "ok T=%s S=%s tc=%s sc=%s mv=%d cp=%d ts=%s ss=A"
      (if self || none then "-" else string_of_int (iz t1.amgr)) (string_of_int (iz s1.amgr))
      (if self || none then "[]" else show (il t1.aitems)) (show (il s1.aitems))
      (adj_mv (if has_event is_move w1 && not iscopy then 1 else 0))
      (adj_cp (if has_event is_move w1 && not iscopy then 1 else 0) (if has_event is_copy w1 then 1 else 0)) (if selfnone then "-" else "A") in
  let useF = Stdlib.List.mem post ["swapf"; "fswap"; "massign"; "cassign"] in
  let f = arr_new (z aid) in
  let (f, w2) = if useF then Stdlib.List.fold_left (fun (c, w) i -> arr_insert icn c (z (300000 + 3 * i)) w) (f, w1) [0; 1; 2; 3; 4] else (f, w1) in
  let (s2, f2, _) =
    match post with
    | "none" -> (s1, f, w2)
    | "clear" -> let (s', w') = arr_clear s1 w2 in (s', f, w')
    | "swapf" -> if isvec then let ((s', f'), w') = get (v_swap trv s1 f w2) in (s', f', w')
                 else let ((s', f'), w') = get (arr_swap assign s1 f w2) in (s', f', w')
    | "fswap" -> if isvec then let ((f', s'), w') = get (v_swap trv f s1 w2) in (s', f', w')
                 else let ((f', s'), w') = get (arr_swap assign f s1 w2) in (s', f', w')
    | "massign" -> if isvec then let ((s', f'), w') = get (v_move_assign trv icn s1 f w2) in (s', f', w')
                   else let ((s', f'), w') = get (arr_move_assign assign s1 f w2) in (s', f', w')
    | "cassign" -> if isvec then let (s', w') = get (v_copy_assign trv icn s1 f w2) in (s', f, w')
                   else let (s', w') = get (arr_copy_assign assign icn s1 f w2) in (s', f, w')
    | "reuse" -> let (s', w') = arr_insert icn s1 (z 400001) w2 in
                 let (s'', w'') = arr_insert icn s' (z 400004) w' in (s'', f, w'')
    | "fmove" -> if isvec then let ((f', s'), w') = get (v_move_assign trv icn f s1 w2) in (s', f', w')
                 else let ((f', s'), w') = get (arr_move_assign assign f s1 w2) in (s', f', w')
    | "ccopy" -> let (x, w') = arr_copy_ctor icn s1 w2 in (s1, x, w')
    | "find" -> if Stdlib.List.mem 1003 (il s1.aitems) then let (f', w') = arr_insert icn f (z 1) w2 in (s1, f', w') else (s1, f, w2)
    | "ilist" -> (s1, f, w2)
    | _ -> failwith "post" in
  let useF = useF || Stdlib.List.mem post ["fmove"; "ccopy"; "find"] in
  Printf.printf "%s S2=%d s2c=%s F=%s fc=%s s2s=%s E=0\n" line1 (iz s2.amgr) (show (il s2.aitems))
    (if useF then string_of_int (iz f2.amgr) else "-") (if useF then show (il f2.aitems) else "[]") (if post = "clear" then "A" else "-")

(* direct run of the GENERATED Swap / MoveCtor on the raw fields recorded from the real objects (stage corr:generated-vs-code).
   input: <op> <T|H> t1..t4 s1..s4 (fields in the generated parameter order; the first object is *this / the new object);
   output: the eight fields afterwards.  movea = temporary(move(x)).Swap( *this): target and source afterwards. *)
let gen_mode = Array.length Sys.argv > 1 && Sys.argv.(1) = "gen"
let run_gen line =
  match words line with
  | [op; k; a1; a2; a3; a4; b1; b2; b3; b4] ->
    let zi s = z (int_of_string s) in
    let (a1, a2, a3, a4, b1, b2, b3, b4) = (zi a1, zi a2, zi a3, zi a4, zi b1, zi b2, zi b3, zi b4) in
    let swap x1 x2 x3 x4 y1 y2 y3 y4 = if k = "T" then Gen_TreeSet2.coq_Swap x1 x2 x3 x4 y1 y2 y3 y4 else Gen_HashSet2.coq_Swap x1 x2 x3 x4 y1 y2 y3 y4 in
    let mctor x1 x2 x3 x4 y1 y2 y3 y4 = if k = "T" then Gen_TreeSet3.coq_MoveCtor x1 x2 x3 x4 y1 y2 y3 y4 else Gen_HashSet3.coq_MoveCtor x1 x2 x3 x4 y1 y2 y3 y4 in
    let (((((((r1, r2), r3), r4), r5), r6), r7), r8) =
      (match op with
       | "swap" -> swap a1 a2 a3 a4 b1 b2 b3 b4
       | "movec" -> mctor a1 a2 a3 a4 b1 b2 b3 b4
       | "movea" ->
         let (((((((m1, m2), m3), m4), s1), s2), s3), s4) = mctor (z 0) (z 0) (z 0) (z 0) b1 b2 b3 b4 in
         let (((((((_, _), _), _), t1), t2), t3), t4) = swap m1 m2 m3 m4 a1 a2 a3 a4 in
         (((((((t1, t2), t3), t4), s1), s2), s3), s4)
       | _ -> failwith "gen op") in
    Printf.printf "%d %d %d %d %d %d %d %d\n" (iz r1) (iz r2) (iz r3) (iz r4) (iz r5) (iz r6) (iz r7) (iz r8)
  | _ -> print_endline "?"

let () = iter_lines (fun line ->
  if gen_mode then run_gen line else
  match words line with
  | trs :: kind :: op :: ss :: ts :: sid :: tid :: aid :: post :: rest ->
    let (sst, tst, est) = (match rest with [a; b] -> (a, b, "*") | [a; b; c] -> (a, b, c) | _ -> ("*", "*", "*")) in
    (try
      cat := (if String.length trs = 2 && trs.[0] = 'N' then trs.[1] else 'n');
      let tr = traits_of trs in
      let (sid, tid, aid) = (int_of_string sid, int_of_string tid, int_of_string aid) in
      (match kind_of kind with
       | Inl ishash -> run_inl ishash op ss ts sid tid aid post sst tst
       | Crew (k, multi, wko) -> run_crew k multi wko tr op ss ts sid tid aid post sst tst est
       | Arr (ic, isvec) -> run_arr ic isvec tr op ss ts sid tid aid post)
    with Abort -> print_endline "abort" | Wrong -> print_endline "ok E=1" | Failure m -> print_endline ("model-error:" ^ m))
  | _ -> print_endline "?")
