(* C07 / DataSelection::Group -> HashSorter::pvGroup (HashSorter.h:212-229): inside a run of rows with equal hash code, for
   every position i whose predecessor differs, all later rows equal to the predecessor are swapped, one after the other, to
   position i, i+1, ...  `gather` is that inner loop on lists (done = the copies already moved, pending = the rows between
   position i and the scan position, rest = the rows still to scan; a swap puts the hit at the front position and the row
   that was there at the scan position).  Theorem: the result is a permutation in which equal keys are adjacent.
   HashSorter::pvSort calls pvGroup on every run of equal hash codes longer than 2 (a run of 1 or 2 rows is trivially grouped);
   rows with different hash codes have different keys, so grouping every run groups the whole selection. *)
From Coq Require Import List ZArith Lia Bool Arith PeanoNat Permutation.
From C07 Require Import TableSpec.
Import ListNotations.

Definition K := list Z.

Fixpoint gather (x : K) (done pending rest : list K) : list K * list K :=
  match rest with
  | [] => (done, pending)
  | y :: rest' =>
      if zlist_eqb x y then
        match pending with
        | p :: ps => gather x (done ++ [y]) (ps ++ [p]) rest'      (* iterSwapper(begin + i, begin + j); ++i *)
        | [] => gather x (done ++ [y]) [] rest'
        end
      else gather x done (pending ++ [y]) rest'
  end.

Fixpoint pvgroup (fuel : nat) (l : list K) : list K :=
  match fuel with
  | O => l
  | S f =>
      match l with
      | x :: y :: t =>
          if zlist_eqb x y then x :: pvgroup f (y :: t)                    (* equalFunc(a[i-1], a[i]): continue *)
          else let '(done, pending) := gather x [] [y] t in x :: done ++ pvgroup f pending
      | _ => l
      end
  end.

(* equal keys adjacent: after the leading run of copies of the head, the head does not occur again; recursively *)
Fixpoint grp (fuel : nat) (l : list K) : Prop :=
  match fuel with
  | O => True
  | S f =>
      match l with
      | [] => True
      | x :: t => exists run rest, t = run ++ rest /\ Forall (fun y => y = x) run /\ ~ In x rest /\ grp f rest
      end
  end.

Lemma gather_spec x : forall rest done pending,
  ~ In x pending ->
  let '(d, p) := gather x done pending rest in
  exists k, d = done ++ repeat x k /\ Permutation (repeat x k ++ p) (pending ++ rest) /\ ~ In x p /\ length p <= length pending + length rest.
Proof.
  induction rest as [|y rest IH]; intros done pending Hp; simpl.
  - exists 0. simpl. rewrite !app_nil_r. repeat split; auto; lia.
  - destruct (zlist_eqb x y) eqn:E.
    + apply zlist_eqb_eq in E. subst y. destruct pending as [|p ps].
      * specialize (IH (done ++ [x]) [] (fun H => H)). destruct (gather x (done ++ [x]) [] rest) as [d p0].
        destruct IH as (k & Hd & Hperm & Hn & Hl). exists (S k). rewrite Hd, <- app_assoc. simpl.
        repeat split; auto; try (simpl in *; lia); try (constructor; exact Hperm).
      * assert (Hp' : ~ In x (ps ++ [p])).
        { intros H. apply Hp. apply in_app_iff in H as [H|[H|[]]]; [right; exact H|left; exact H]. }
        specialize (IH (done ++ [x]) (ps ++ [p]) Hp'). destruct (gather x (done ++ [x]) (ps ++ [p]) rest) as [d p0].
        destruct IH as (k & Hd & Hperm & Hn & Hl). exists (S k). rewrite Hd, <- app_assoc. simpl.
        repeat split; auto; try (rewrite app_length in Hl; simpl in *; lia).
        etransitivity; [apply perm_skip; exact Hperm|].
        etransitivity; [|apply (Permutation_middle (p :: ps) rest x)]. apply perm_skip.
        apply Permutation_app_tail. symmetry. apply Permutation_cons_append.
    + assert (Hxy : x <> y) by (intros ->; rewrite zlist_eqb_refl in E; discriminate).
      assert (Hp' : ~ In x (pending ++ [y])).
      { intros H. apply in_app_iff in H as [H|[H|[]]]; [exact (Hp H)|congruence]. }
      specialize (IH done (pending ++ [y]) Hp'). destruct (gather x done (pending ++ [y]) rest) as [d p0].
      destruct IH as (k & Hd & Hperm & Hn & Hl). exists k.
      repeat split; auto; try (rewrite app_length in Hl; simpl in *; lia).
      rewrite <- app_assoc in Hperm. exact Hperm.
Qed.

Lemma grp_nil f : grp f [].
Proof. destruct f; exact I. Qed.

Lemma pvgroup_head f x t : exists t', pvgroup f (x :: t) = x :: t'.
Proof.
  destruct f; simpl; [eauto|]. destruct t as [|y t]; [eauto|].
  destruct (zlist_eqb x y); [eauto|]. destruct (gather x [] [y] t). eauto.
Qed.

Lemma repeat_all {A} (x : A) k : Forall (fun y => y = x) (repeat x k).
Proof. induction k; simpl; constructor; auto. Qed.

(* HashSorter::pvGroup: a permutation in which equal keys are adjacent, for every run *)
Theorem pvgroup_spec : forall fuel l, length l <= fuel ->
  Permutation (pvgroup fuel l) l /\ forall fuel2, grp fuel2 (pvgroup fuel l).
Proof.
  induction fuel as [|f IH]; intros l Hl.
  - destruct l; [|simpl in Hl; lia]. split; [reflexivity|intros; apply grp_nil].
  - destruct l as [|x [|y t]]; cbn [pvgroup].
    + split; [reflexivity|intros; apply grp_nil].
    + split; [reflexivity|]. intros [|f2]; [exact I|]. simpl. exists [], []. repeat split; auto. apply grp_nil.
    + destruct (zlist_eqb x y) eqn:E.
      * apply zlist_eqb_eq in E. subst y. destruct (IH (x :: t) ltac:(simpl in *; lia)) as [P G]. split; [apply perm_skip; exact P|].
        intros [|f2]; [exact I|]. destruct (pvgroup_head f x t) as (t' & Et). rewrite Et in *. specialize (G (S f2)). cbn [grp] in G |- *.
        destruct G as (run & rest & Er & Hf & Hn & Hg). exists (x :: run), rest. repeat split; auto. rewrite Er. reflexivity.
      * pose proof (gather_spec x t [] [y]) as Hs.
        assert (Hny : ~ In x [y]) by (intros [H|[]]; subst; rewrite zlist_eqb_refl in E; discriminate).
        specialize (Hs Hny). destruct (gather x [] [y] t) as [done pending].
        destruct Hs as (k & Hd & Hperm & Hn & Hlen). simpl in Hd. subst done.
        destruct (IH pending ltac:(simpl in *; lia)) as [P G]. split.
        -- apply perm_skip. etransitivity; [apply Permutation_app_head; exact P|exact Hperm].
        -- intros [|f2]; [exact I|]. cbn [grp]. exists (repeat x k), (pvgroup f pending). repeat split; auto.
           ++ apply repeat_all.
           ++ intros Hin. apply Hn. apply (Permutation_in _ P). exact Hin.
Qed.

(* non-vacuity and the shape attacked by seed wave 2 / b: skipping pvGroup when the first and the last row of the run are
   equal leaves A, B, A ungrouped, while pvGroup groups it *)
Definition pvsort_run_shortcut (l : list K) : list K :=
  match l with
  | x :: _ :: _ :: _ => if zlist_eqb x (last l []) then l else pvgroup (length l) l
  | _ => l
  end.

Example pvgroup_groups_ABA : pvgroup 3 [[1; 2]; [2; 1]; [1; 2]]%Z = [[1; 2]; [1; 2]; [2; 1]]%Z.
Proof. vm_compute. reflexivity. Qed.

Theorem group_shortcut_refuted : exists l, ~ grp (S (length l)) (pvsort_run_shortcut l).
Proof.
  exists [[1; 2]; [2; 1]; [1; 2]]%Z. cbn. intros (run & rest & E & Hf & Hn & _).
  destruct run as [|r run]; simpl in E.
  - subst rest. apply Hn. right. left. reflexivity.
  - inversion E; subst. inversion Hf; subst. discriminate.
Qed.

(* ================================================================ the whole of Selection::Group (round 7)
   DataSelection::pvGroup = HashSorter::Sort(raws, hashFunc, equalFunc):  RadixSorter sorts the rows by hash code and calls
   groupFunc(begin, count) on every maximal run of equal codes (pvSelectionSort: the prevIndex loop; pvRadixSort: singleCode,
   the buckets at shift 0, recursively pvSort); HashSorter::pvSort's groupFunc is `if (count > 2) pvGroup(begin, count)`.
   That RadixSorter's output is a permutation with non-decreasing codes is property C17 (C17_radix_sort_perm_sorted, same
   repository head); here the theorem is stated for EVERY hash-sorted arrangement s of the selection l, so it holds for
   whichever one the radix sort produced.  runs = the (begin, count) pairs passed to groupFunc. *)
From Coq Require Import Sorted.

Section HashGroup.
Variable h : K -> Z.

Fixpoint runs (l : list K) : list (list K) :=
  match l with
  | [] => []
  | x :: t =>
      match runs t with
      | (y :: r) :: rs => if Z.eqb (h x) (h y) then (x :: y :: r) :: rs else [x] :: (y :: r) :: rs
      | _ => [[x]]
      end
  end.

Definition group_func (r : list K) : list K := if Nat.ltb 2 (length r) then pvgroup (length r) r else r.
Definition hash_group (s : list K) : list K := concat (map group_func (runs s)).

Definition hle (x y : K) : Prop := (h x <= h y)%Z.

Fixpoint runs_ok (rs : list (list K)) : Prop :=
  match rs with
  | [] => True
  | r :: rs' => r <> [] /\ (forall x y, In x r -> In y r -> h x = h y) /\
                (forall x y, In x r -> In y (concat rs') -> (h x < h y)%Z) /\ runs_ok rs'
  end.

Lemma runs_spec s : StronglySorted hle s -> runs_ok (runs s) /\ concat (runs s) = s.
Proof.
  induction s as [|x t IH]; intros Hs; [split; [exact I|reflexivity]|].
  apply StronglySorted_inv in Hs as [Hst Hx]. specialize (IH Hst). destruct IH as [Hok Hc].
  cbn [runs]. destruct (runs t) as [|[|y r] rs] eqn:Er.
  - simpl in Hc. subst t. split; [|reflexivity]. cbn. repeat split; auto; try discriminate.
    + intros a b [<-|[]] [<-|[]]. reflexivity.
    + intros a b _ [].
  - exfalso. destruct Hok as [Hne _]. apply Hne. reflexivity.
  - destruct Hok as (Hne & Hu & Hlt & Hok').
    rewrite Forall_forall in Hx.
    destruct (Z.eqb_spec (h x) (h y)) as [E|E].
    + split; [|cbn [concat] in *; rewrite <- Hc; reflexivity]. cbn [runs_ok]. split; [discriminate|]. split; [|split; [|exact Hok']].
      * intros a b [<-|Ha] [<-|Hb]; auto.
        -- rewrite E. apply Hu; [left; reflexivity|exact Hb].
        -- rewrite E. symmetry. apply Hu; [left; reflexivity|exact Ha].
      * intros a b [<-|Ha] Hb; [rewrite E; apply Hlt; [left; reflexivity|exact Hb]|apply Hlt; assumption].
    + split; [|cbn [concat] in *; rewrite <- Hc; reflexivity]. cbn [runs_ok]. split; [discriminate|]. split; [|split].
      * intros a b [<-|[]] [<-|[]]. reflexivity.
      * intros a b [<-|[]] Hb. cbn [concat] in Hb.
        assert (Hy : (h x <= h y)%Z) by (apply Hx; rewrite <- Hc; cbn [concat]; left; reflexivity).
        apply in_app_iff in Hb as [Hb|Hb].
        -- rewrite (Hu b y Hb (or_introl eq_refl)). lia.
        -- specialize (Hlt y b (or_introl eq_refl) Hb). lia.
      * cbn [runs_ok]. repeat split; assumption.
Qed.

Lemma grp_app b : (forall f, grp f b) -> forall f a, grp f a -> (forall x, In x a -> ~ In x b) -> grp f (a ++ b).
Proof.
  intros Hb. induction f as [|f IH]; intros a Ha Hd; [exact I|].
  destruct a as [|x t]; [exact (Hb (S f))|].
  cbn [grp app] in *. destruct Ha as (run & rest & Et & Hf & Hn & Hg).
  exists run, (rest ++ b). split; [rewrite Et, app_assoc; reflexivity|]. split; [exact Hf|]. split.
  - intros Hin. apply in_app_iff in Hin as [Hin|Hin]; [exact (Hn Hin)|exact (Hd x (or_introl eq_refl) Hin)].
  - apply IH; [exact Hg|]. intros z Hz. apply Hd. right. rewrite Et. apply in_or_app. right. exact Hz.
Qed.

Lemma grp_short r : length r <= 2 -> forall f, grp f r.
Proof.
  intros Hl f. destruct r as [|a [|b [|c r]]]; [apply grp_nil| | |simpl in Hl; lia].
  - destruct f; [exact I|]. cbn. exists [], []. repeat split; auto. apply grp_nil.
  - destruct f; [exact I|]. cbn [grp]. destruct (zlist_eqb a b) eqn:E.
    + apply zlist_eqb_eq in E. subst b. exists [a], []. repeat split; auto. apply grp_nil.
    + exists [], [b]. repeat split; auto.
      * intros [H|[]]. subst b. rewrite zlist_eqb_refl in E. discriminate.
      * destruct f; [exact I|]. cbn. exists [], []. repeat split; auto. apply grp_nil.
Qed.

Lemma group_func_spec r : Permutation (group_func r) r /\ forall f, grp f (group_func r).
Proof.
  unfold group_func. destruct (Nat.ltb_spec 2 (length r)) as [H|H].
  - apply pvgroup_spec. lia.
  - split; [reflexivity|apply grp_short; exact H].
Qed.

Lemma hash_group_runs rs : runs_ok rs ->
  Permutation (concat (map group_func rs)) (concat rs) /\ forall f, grp f (concat (map group_func rs)).
Proof.
  induction rs as [|r rs IH]; intros Hok; [split; [reflexivity|intros; apply grp_nil]|].
  destruct Hok as (Hne & Hu & Hlt & Hok'). destruct (IH Hok') as [P G]. destruct (group_func_spec r) as [Pr Gr].
  cbn [map concat]. split; [apply Permutation_app; assumption|].
  intros f. apply grp_app; [exact G|apply Gr|].
  intros x Hx Hin. apply (Permutation_in _ Pr) in Hx. apply (Permutation_in _ P) in Hin.
  specialize (Hlt x x Hx Hin). lia.
Qed.

(* Selection::Group: whatever hash-sorted arrangement s of the selection l the radix sort produced, grouping every run of
   equal codes longer than 2 yields a permutation of l in which equal keys are adjacent *)
Theorem hash_group_spec l s : Permutation l s -> StronglySorted hle s ->
  Permutation (hash_group s) l /\ forall f, grp f (hash_group s).
Proof.
  intros Hp Hs. destruct (runs_spec s Hs) as [Hok Hc]. destruct (hash_group_runs (runs s) Hok) as [P G].
  split; [|exact G]. unfold hash_group. rewrite Hc in P. etransitivity; [exact P|symmetry; exact Hp].
Qed.

(* the guard `count > 2` is tight: with `count > 3` a run A, B, A of three rows with one hash code stays ungrouped *)
Definition group_func3 (r : list K) : list K := if Nat.ltb 3 (length r) then pvgroup (length r) r else r.
End HashGroup.

Theorem group_guard_refuted : exists h s, StronglySorted (hle h) s /\
  ~ grp (S (length s)) (concat (map group_func3 (runs h s))).
Proof.
  exists (fun k => fold_right Z.add 0%Z k), [[1; 2]; [2; 1]; [1; 2]]%Z. split.
  - repeat constructor; unfold hle; simpl; lia.
  - cbn. intros (run & rest & E & Hf & Hn & _).
    destruct run as [|r run]; simpl in E.
    + subst rest. apply Hn. right. left. reflexivity.
    + inversion E; subst. inversion Hf; subst. discriminate.
Qed.

(* ---------------------------------------------------------------- executable instance (extracted, run against real selections)
   DataTraits::AccumulateHashCode is `hashCode += HashCoder<Item>()(item)`: for int columns the hash code of a key is the sum
   of its (sign-extended) items modulo 2^64.  hsort = a stable sort by that code, standing for RadixSorter; group_runs = the
   counts RadixSorter passes to groupFunc.  The harness computes the same counts from the REAL output of Selection::Group with
   momo's own AccumulateHashCode, and checks that the real output's codes are non-decreasing (the hypothesis above). *)
Definition key_hash (k : K) : Z := ((fold_right Z.add 0 k) mod 2 ^ 64)%Z.
Fixpoint hins (x : K) (l : list K) : list K :=
  match l with [] => [x] | y :: t => if Z.leb (key_hash x) (key_hash y) then x :: l else y :: hins x t end.
Definition hsort (l : list K) : list K := fold_right hins [] l.
Definition group_runs (l : list K) : list nat := map (@length K) (runs key_hash (hsort l)).
Definition group_model (l : list K) : list K := hash_group key_hash (hsort l).

Lemma hins_perm x l : Permutation (hins x l) (x :: l).
Proof.
  induction l as [|y t IH]; simpl; [reflexivity|]. destruct (Z.leb (key_hash x) (key_hash y)); [reflexivity|].
  etransitivity; [apply perm_skip; exact IH|apply perm_swap].
Qed.

Lemma hins_sorted x l : StronglySorted (hle key_hash) l -> StronglySorted (hle key_hash) (hins x l).
Proof.
  induction l as [|y t IH]; intros Hs; simpl; [repeat constructor|].
  apply StronglySorted_inv in Hs as [Hst Hy].
  destruct (Z.leb_spec (key_hash x) (key_hash y)) as [Hle|Hgt].
  - constructor; [constructor; assumption|]. constructor; [exact Hle|].
    rewrite Forall_forall in *. intros z Hz. specialize (Hy z Hz). unfold hle in *. lia.
  - constructor; [apply IH; exact Hst|]. rewrite Forall_forall in *. intros z Hz.
    apply (Permutation_in _ (hins_perm x t)) in Hz. destruct Hz as [<-|Hz]; [unfold hle; lia|apply Hy; exact Hz].
Qed.

Lemma hsort_spec l : Permutation l (hsort l) /\ StronglySorted (hle key_hash) (hsort l).
Proof.
  induction l as [|x l [P S]]; simpl; [split; [reflexivity|constructor]|]. split.
  - etransitivity; [apply perm_skip; exact P|symmetry; apply hins_perm].
  - apply hins_sorted. exact S.
Qed.

Theorem group_model_spec l : Permutation (group_model l) l /\ forall f, grp f (group_model l).
Proof. destruct (hsort_spec l) as [P S]. exact (hash_group_spec key_hash l (hsort l) P S). Qed.
