(* C01 -- HashSet::Reserve as a whole, REGENERATED (Gen_HashSetGrow.Reserve: early return, pvGetNewLogBucketCount, the size loop, the new
   mCapacity / mBuckets; Buckets::Create and pvRelocateItems are opaque / skipped there) makes the decisions of the hand model's hreserve:
   it returns without a change iff capacity <= mCapacity, otherwise starts at newLog (= the regenerated pvGetNewLogBucketCount), ends with
   mCapacity = CalcCapacity(2^nl) for the nl the hand reserve_log chooses, and throws only where hreserve answers None. *)
From Coq Require Import ZArith List Lia Bool.
From MomoCommon Require Import GenPrelude.
From C01 Require Import HashModel GrowLoops.
From C01 Require Gen_HashSetGrow.
Import ListNotations.
Local Open Scope Z_scope.

Section Decision.
  Variable B : Type.
  Variable mc logStart : Z.
  Variable shift calcCapacity : Z -> Z.

  Definition blog (gs : list (table B)) : Z := match gs with t :: _ => tlog B t | [] => 0 end.     (* mBuckets->GetLogCount() *)
  Definition mbk (gs : list (table B)) : Z := match gs with [] => 0 | _ => 1 end.                 (* mBuckets: nullptr / a table *)
  Definition gens_ok (gs : list (table B)) : Prop :=
    match gs with [] => True | t :: _ => 0 <= tlog B t <= 63 /\ 0 < shift (2 ^ tlog B t) end.

  Notation newLog' := (newLog B logStart shift).
  Notation GN gs := (Gen_HashSetGrow.pvGetNewLogBucketCount mc logStart (fun bc _ => shift bc) (blog gs)).
  Notation GR gs := (Gen_HashSetGrow.Reserve mc logStart (fun bc _ => shift bc) (fun bc _ => calcCapacity bc) (blog gs)).

  Lemma gen_newlog gs cnt capc ht : gens_ok gs -> 0 <= newLog' gs <= 63 -> GN gs cnt capc (mbk gs) ht = Ok (newLog' gs).
  Proof.
    intros G H. unfold Gen_HashSetGrow.pvGetNewLogBucketCount. destruct gs as [|t r]; [reflexivity|].
    cbn [mbk blog newLog] in *. cbn [Z.eqb]. cbv zeta. destruct G as [Hl Hs]. unfold bcount in *.
    assert (E : wrapU 64 (Z.shiftl 1 (tlog B t)) = 2 ^ tlog B t).
    { rewrite Z.shiftl_1_l. apply wrapU_small. split; [apply Z.pow_nonneg; lia|]. apply Z.pow_lt_mono_r; lia. }
    rewrite E. destruct (Z.gtb_spec (shift (2 ^ tlog B t)) 0); [|lia]. rewrite orb_true_r.
    rewrite wrapU_small; [reflexivity|]. change (2 ^ 64) with 18446744073709551616. lia.
  Qed.

  Lemma reserve_log_some : forall fuel nl n nl', reserve_log calcCapacity fuel nl n = Some nl' -> nl <= nl' /\ n <= calcCapacity (2 ^ nl').
  Proof.
    induction fuel; intros nl n nl' H; simpl in H; destruct (Z.leb_spec n (calcCapacity (2 ^ nl))); try discriminate.
    - inversion H; subst. split; [lia|auto].
    - inversion H; subst. split; [lia|auto].
    - destruct (IHfuel _ _ _ H). split; [lia|auto].
  Qed.

  Theorem gen_reserve_decision gs cnt capc n ht nb ht' : gens_ok gs -> 0 <= newLog' gs <= 63 ->
    match GR gs cnt capc (mbk gs) n ht nb ht' with
    | Ok (_, c', b') => if n <=? capc then c' = capc /\ b' = mbk gs
                        else exists nl, reserve_log calcCapacity 64 (newLog' gs) n = Some nl /\ nl <= 63 /\ c' = calcCapacity (2 ^ nl) /\ b' = nb
    | Exn => capc < n /\ forall nl, reserve_log calcCapacity 64 (newLog' gs) n = Some nl -> 63 < nl
    | _ => False
    end.
  Proof.
    intros G H. unfold Gen_HashSetGrow.Reserve. destruct (Z.leb_spec n capc) as [L|L]; [split; reflexivity|].
    rewrite (gen_newlog gs cnt capc ht' G H).
    pose proof (reserve_loop_spec mc calcCapacity Gen_HashSetGrow.fuel_of_Reserve n ht 0 (newLog' gs) H) as S.
    assert (Hf : (64 - Z.to_nat (newLog' gs) <= Gen_HashSetGrow.fuel_of_Reserve)%nat) by (unfold Gen_HashSetGrow.fuel_of_Reserve; lia).
    specialize (S Hf).
    destruct (Gen_HashSetGrow.Reserve_loop0 _ _ _ _ _ _ _) as [[[u|] [c' nl']]| | |]; try contradiction.
    - destruct S as [A [C [D F]]]. exists nl'. split; [apply reserve_log_first; auto; lia|]. split; [lia|]. split; auto.
    - split; [exact L|]. intros nl E. destruct (reserve_log_some _ _ _ _ E) as [A C].
      destruct (Z.le_gt_cases nl 63) as [Q|Q]; [|lia]. specialize (S nl ltac:(lia)). lia.
  Qed.
End Decision.

(* the same against the hand model's hreserve *)
Section AgainstModel.
  Variable B : Type.
  Variable b0 : B.
  Variable upd_bound : B -> Z -> B.
  Variable h : Z -> Z.
  Variable cap : Z.
  Variables unlimited wf0 : bool.
  Variable wfThr : Z.
  Variable start : Z -> Z -> Z.
  Variable next : Z -> Z -> Z -> Z.
  Variable logStart : Z.
  Variable calcCapacity : Z -> Z.
  Variable shift : Z -> Z.
  Variable maxLog : Z.
  Hypothesis maxLog_le : maxLog <= 63.

  Notation hreserve' := (hreserve B b0 upd_bound h cap unlimited wf0 wfThr start next logStart calcCapacity shift maxLog).
  Notation GR s := (Gen_HashSetGrow.Reserve cap logStart (fun bc _ => shift bc) (fun bc _ => calcCapacity bc) (blog B (gens B s))
                      (count B s) (capacity B s) (mbk B (gens B s))).

  Theorem gen_reserve_refines (s : hset B) n bud ht nb ht' : gens_ok B shift (gens B s) -> 0 <= newLog B logStart shift (gens B s) <= 63 ->
    match hreserve' s n bud with
    | Some s' => exists u b', GR s n ht nb ht' = Ok (u, capacity B s', b') /\ b' = (if n <=? capacity B s then mbk B (gens B s) else nb)
    | None => GR s n ht nb ht' = Exn \/
              exists u nl, GR s n ht nb ht' = Ok (u, calcCapacity (2 ^ nl), nb) /\ maxLog < nl <= 63   (* Buckets::Create throws length_error *)
    end.
  Proof.
    intros G H. pose proof (gen_reserve_decision B cap logStart shift calcCapacity (gens B s) (count B s) (capacity B s) n ht nb ht' G H) as D.
    unfold hreserve. destruct (Z.leb_spec n (capacity B s)) as [L|L].
    - destruct (GR s n ht nb ht') as [[[u c'] b']| | |]; try contradiction; [|lia]. destruct D as [-> ->]. eauto.
    - destruct (reserve_log calcCapacity 64 (newLog B logStart shift (gens B s)) n) as [nl|] eqn:E.
      + destruct (Z.ltb_spec maxLog nl) as [M|M].
        * destruct (GR s n ht nb ht') as [[[u c'] b']| | |]; try contradiction; [|left; reflexivity].
          destruct D as [nl2 [E2 [Q [-> ->]]]]. inversion E2; subst nl2. right. exists u, nl. split; [reflexivity|lia].
        * destruct (GR s n ht nb ht') as [[[u c'] b']| | |]; try contradiction.
          -- destruct D as [nl2 [E2 [Q [-> ->]]]]. inversion E2; subst nl2. cbn [capacity]. eauto.
          -- destruct D as [_ D]. specialize (D nl eq_refl). lia.
      + destruct (GR s n ht nb ht') as [[[u c'] b']| | |]; try contradiction; [|left; reflexivity].
        destruct D as [nl2 [E2 _]]. discriminate.
  Qed.
End AgainstModel.
