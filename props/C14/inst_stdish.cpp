// instantiation TU for the stdish decision rules (C14): one wrapper of every kind with a stateful allocator
#include <memory>
#include "momo/stdish/unordered_map.h"
#include "momo/stdish/unordered_set.h"
#include "momo/stdish/unordered_multimap.h"
#include "momo/stdish/map.h"
#include "momo/stdish/set.h"
#include "momo/stdish/vector.h"
template<typename T> struct C14A
{
	typedef T value_type; int id;
	explicit C14A(int i = 0) noexcept : id(i) {}
	template<typename U> C14A(const C14A<U>& a) noexcept : id(a.id) {}
	T* allocate(size_t n) { return static_cast<T*>(::operator new(n * sizeof(T))); }
	void deallocate(T* p, size_t) noexcept { ::operator delete(p); }
	friend bool operator==(const C14A& a, const C14A& b) noexcept { return a.id == b.id; }
	friend bool operator!=(const C14A& a, const C14A& b) noexcept { return a.id != b.id; }
};
typedef momo::stdish::unordered_map<int, int, std::hash<int>, std::equal_to<int>, C14A<std::pair<const int, int>>> C14UM;
typedef momo::stdish::unordered_set<int, std::hash<int>, std::equal_to<int>, C14A<int>> C14US;
typedef momo::stdish::unordered_multimap<int, int, std::hash<int>, std::equal_to<int>, C14A<std::pair<const int, int>>> C14UMM;
typedef momo::stdish::map<int, int, std::less<int>, C14A<std::pair<const int, int>>> C14M;
typedef momo::stdish::set<int, std::less<int>, C14A<int>> C14S;
typedef momo::stdish::vector<int, C14A<int>> C14V;
template<typename W> void c14_use(W& a, W& b) { a = b; a = std::move(b); a.swap(b); W c(std::move(a), a.get_allocator()); }
void c14_all(C14UM& a, C14US& b, C14UMM& c, C14M& d, C14S& e, C14V& f) { c14_use(a, a); c14_use(b, b); c14_use(c, c); c14_use(d, d); c14_use(e, e); c14_use(f, f); }

// ---- MemManagerStd<Alloc>::operator=(MemManagerStd&&): which pvAssign overload is chosen, for all 16 combinations of
// (POCCA, POCMA, POCS, nothrow-move-assignable byte allocator)
#include "momo/MemManager.h"
template<typename T, bool CA, bool MA, bool SW, bool NMA> struct C14B
{
	typedef T value_type;
	typedef std::integral_constant<bool, CA> propagate_on_container_copy_assignment;
	typedef std::integral_constant<bool, MA> propagate_on_container_move_assignment;
	typedef std::integral_constant<bool, SW> propagate_on_container_swap;
	template<typename U> struct rebind { typedef C14B<U, CA, MA, SW, NMA> other; };
	int id;
	explicit C14B(int i = 0) noexcept : id(i) {}
	C14B(const C14B&) noexcept = default;
	C14B(C14B&&) noexcept = default;
	template<typename U> C14B(const C14B<U, CA, MA, SW, NMA>& a) noexcept : id(a.id) {}
	C14B& operator=(const C14B& a) noexcept(NMA) { id = a.id; return *this; }
	C14B& operator=(C14B&& a) noexcept(NMA) { id = a.id; return *this; }
	T* allocate(size_t n) { return static_cast<T*>(::operator new(n * sizeof(T))); }
	void deallocate(T* p, size_t) noexcept { ::operator delete(p); }
	friend bool operator==(const C14B& a, const C14B& b) noexcept { return a.id == b.id; }
	friend bool operator!=(const C14B& a, const C14B& b) noexcept { return a.id != b.id; }
};
template<bool CA, bool MA, bool SW, bool NMA> void c14_mms()
{
	typedef momo::MemManagerStd<C14B<int, CA, MA, SW, NMA>> M;
	if constexpr (std::is_nothrow_move_assignable<M>::value) { M a(C14B<int, CA, MA, SW, NMA>(1)), b(C14B<int, CA, MA, SW, NMA>(2)); a = std::move(b); }
}
void c14_mms_all()
{
#define C14_ROW(ca, ma, sw) c14_mms<ca, ma, sw, false>(); c14_mms<ca, ma, sw, true>();
	C14_ROW(false, false, false) C14_ROW(false, false, true) C14_ROW(false, true, false) C14_ROW(false, true, true)
	C14_ROW(true, false, false) C14_ROW(true, false, true) C14_ROW(true, true, false) C14_ROW(true, true, true)
}
