(* C02 (growth round) -- executable node-level model run against REAL `Node` objects (byte-for-byte: count byte, memPoolIndex,
   capacity, the whole index table, every raw item slot, the child array).  Count / asserts / capacity / memPoolIndex come from
   the cxx2coq-generated functions (Gen_Node, Gen_NodeOpsI, Gen_NodeOpsC); the table, the slots and the children come from the
   hand model (IndexTable.v; continuous layout: plain insert_at / remove_at) whose refinement is proved there. *)
From Coq Require Import ZArith Bool List Lia.
From MomoCommon Require Import GenPrelude.
From C02 Require Import Gen_Node Gen_NodeOpsI Gen_NodeOpsC BTreeModel IndexTable NodeOps.
Import ListNotations.

Record nstate := { ns_mpi : Z; ns_cnt : Z; ns_node : inode; ns_children : list Z }.

Section NodeScript.
Variables (maxCap stepRaw blockCount : nat) (cont : bool).
Let lp := Z.of_nat (leafPoolCount maxCap stepRaw).
Let mc := Z.of_nat maxCap.
Let st := Z.of_nat (capStep maxCap stepRaw).

Definition ns_capacity (s : nstate) : Z := Gen_NodeOpsI.GetCapacity lp mc st (ns_mpi s) (ns_cnt s) (fun _ => 0%Z).
Definition ns_is_leaf (s : nstate) : bool := Gen_NodeOpsI.IsLeaf lp (ns_mpi s) (ns_cnt s) (fun _ => 0%Z).

Definition fill (c0 : nat) : list Z := map (fun i => (1000 + Z.of_nat i)%Z) (seq 0 c0) ++ repeat 0%Z (maxCap - c0).

(* Node::Create(params, isLeaf, count): leaf -> pvGetLeafMemPoolIndex (no internal node allocated yet), internal -> leafMemPoolCount;
   the constructor stores count and writes the identity table; the harness then constructs items 1000.. in GetItemPtr(0..count) *)
Definition ns_create (leaf : bool) (c0 : nat) : nstate :=
  {| ns_mpi := if leaf then Gen_Node.pvGetLeafMemPoolIndex lp mc st (Z.of_nat blockCount) 0%Z (Z.of_nat c0) else lp;
     ns_cnt := Z.of_nat c0;
     ns_node := {| slots := fill c0; idx := seq 0 maxCap; icount := c0 |};
     ns_children := if leaf then [] else map Z.of_nat (seq 1 (S c0)) |}.

Definition gen_accept (s : nstate) (index : Z) : outcome Z :=
  if cont then match Gen_NodeOpsC.AcceptBackItem lp mc st (ns_mpi s) (ns_cnt s) index 0%Z with
               | Ok (_, c) => Ok c | Stuck => Stuck | Fuel => Fuel | Exn => Exn end
  else match Gen_NodeOpsI.AcceptBackItem lp mc st (ns_mpi s) (ns_cnt s) (tbl (idx (ns_node s))) index 0%Z with
       | Ok (_, c, _) => Ok c | Stuck => Stuck | Fuel => Fuel | Exn => Exn end.
Definition gen_remove (s : nstate) (index : Z) : outcome Z :=
  if cont then match Gen_NodeOpsC.Remove (ns_mpi s) (ns_cnt s) index 0%Z with
               | Ok (_, c) => Ok c | Stuck => Stuck | Fuel => Fuel | Exn => Exn end
  else match Gen_NodeOpsI.Remove (ns_mpi s) (ns_cnt s) (tbl (idx (ns_node s))) index 0%Z with
       | Ok (_, c, _) => Ok c | Stuck => Stuck | Fuel => Fuel | Exn => Exn end.

(* continuous layout: the items themselves are shifted; kept in the same record with the identity table *)
Definition cont_accept (n : inode) (index : nat) (x : Z) : inode :=
  {| slots := firstn maxCap (insert_at index x (firstn (icount n) (slots n)) ++ skipn (S (icount n)) (slots n));
     idx := idx n; icount := S (icount n) |}.
Definition cont_remove (n : inode) (index : nat) : inode :=
  {| slots := remove_at index (firstn (icount n) (slots n)) ++ nth (icount n - 1) (slots n) 0%Z :: skipn (icount n) (slots n);
     idx := idx n; icount := icount n - 1 |}.

Definition ns_accept (s : nstate) (index : nat) (x newchild : Z) : option nstate :=
  match gen_accept s (Z.of_nat index) with
  | Ok c => Some {| ns_mpi := ns_mpi s; ns_cnt := c;
                    ns_node := if cont then cont_accept (ns_node s) index x else accept_back (write_back (ns_node s) x) index;
                    ns_children := if ns_is_leaf s then [] else insert_at (S index) newchild (ns_children s) |}
  | _ => None
  end.
Definition ns_remove (s : nstate) (index : nat) : option nstate :=
  match gen_remove s (Z.of_nat index) with
  | Ok c => Some {| ns_mpi := ns_mpi s; ns_cnt := c;
                    ns_node := if cont then cont_remove (ns_node s) index else remove_idx (ns_node s) index;
                    ns_children := if ns_is_leaf s then [] else remove_at index (ns_children s) |}
  | _ => None
  end.

(* what the harness prints: table, (slot number -> live?) and raw slot contents *)
Definition ns_table (s : nstate) : list nat := idx (ns_node s).
Definition ns_live (s : nstate) (slot : nat) : bool :=
  if cont then slot <? icount (ns_node s) else existsb (Nat.eqb slot) (firstn (icount (ns_node s)) (idx (ns_node s))).
Definition ns_slot (s : nstate) (slot : nat) : Z := nth slot (slots (ns_node s)) 0%Z.
Definition ns_hand_count (s : nstate) : nat := icount (ns_node s).
End NodeScript.

(* the hand model's count is the generated count (what ties the two halves of ns_accept / ns_remove together) *)
Theorem ns_accept_count maxCap stepRaw cont s index x nc s' :
  (0 <= ns_cnt s)%Z -> (ns_capacity maxCap stepRaw s <= 255)%Z -> ns_cnt s = Z.of_nat (icount (ns_node s)) ->
  ns_accept maxCap stepRaw cont s index x nc = Some s' -> ns_cnt s' = Z.of_nat (icount (ns_node s')).
Proof.
  intros H0 Hc E. unfold ns_accept, gen_accept. destruct cont.
  - unfold Gen_NodeOpsC.AcceptBackItem, Gen_NodeOpsC.GetCount.
    destruct (_ <? _)%Z eqn:E1; [|discriminate]. destruct (_ <=? _)%Z; [|discriminate]. intros [= <-]. cbn [ns_cnt ns_node cont_accept icount].
    apply Z.ltb_lt in E1. unfold ns_capacity in Hc. change (Gen_NodeOpsC.GetCapacity ?a ?b ?c ?m ?k) with (Gen_NodeOpsI.GetCapacity a b c m k (fun _ => 0%Z)) in E1.
    rewrite wrapU_small by (change (2 ^ 8)%Z with 256%Z; lia). lia.
  - unfold Gen_NodeOpsI.AcceptBackItem, Gen_NodeOpsI.GetCount.
    destruct (_ <? _)%Z eqn:E1; [|discriminate]. destruct (_ <=? _)%Z; [|discriminate]. intros [= <-]. cbn [ns_cnt ns_node accept_back write_back icount].
    apply Z.ltb_lt in E1. unfold ns_capacity in Hc.
    change (Gen_NodeOpsI.GetCapacity ?a ?b ?c ?m ?k ?t) with (Gen_NodeOpsI.GetCapacity a b c m k (fun _ => 0%Z)) in E1.
    rewrite wrapU_small by (change (2 ^ 8)%Z with 256%Z; lia). lia.
Qed.
