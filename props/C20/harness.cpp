// C20 implementation side: std node containers over momo's unsynchronized_pool_allocator (real code) next to a
// std::allocator twin, on a counting base allocator; plus direct allocator-level scripts.
//   case line:  <kind> <pa|mon> <op> ...        kind = list flist map set mmap umap uset
//               direct <op> ...                  allocator-level script on Mon<Blob<..>> handles
//   output:     ok <stats> [| <events> | <observations>]      or      FAIL op#<i> <why> [| ...]
// Compile with -DPART=0 (list flist map set), -DPART=1 (mmap umap uset direct) or no PART (everything).
#include "c20_common.h"
#include <csignal>
#include <unistd.h>
#include <sys/wait.h>

typedef int64_t K;
// other pool parameter sets (oracle only; the Coq model is instantiated for the default MemPoolParams<32,16>)
template<class T> using PA4 = momo::stdish::unsynchronized_pool_allocator<T, Base, momo::MemPoolParams<4, 0>>;     // 4 blocks per buffer, no cache
template<class T> using PA1 = momo::stdish::unsynchronized_pool_allocator<T, Base, momo::MemPoolParams<1, 2>>;     // 1 block per buffer, cache of 2
template<class T> using PA127 = momo::stdish::unsynchronized_pool_allocator<T, Base, momo::MemPoolParams<127, 1>>; // largest block count, cache of 1

// ---- the intended classes are really instantiated --------------------------------------------------------------
static_assert(Pool::blockCount == 32 && Pool::cachedFreeBlockCount == 16, "default pool parameters");
static_assert(std::is_same<PA<K>::MemPool, Pool>::value, "PA<T> shares exactly this MemPool type for every T");
static_assert(std::is_same<PA<char>::MemPool, PA<std::pair<const K, K>>::MemPool>::value, "one pool type for all rebinds");
static_assert(!std::is_base_of<momo::MemManagerDefault, momo::MemManagerStd<Base>>::value, "generic MemManagerStd, not the std::allocator shortcut");
static_assert(!PA<K>::propagate_on_container_copy_assignment::value && PA<K>::propagate_on_container_move_assignment::value
	&& PA<K>::propagate_on_container_swap::value, "propagation traits");
static_assert(!std::allocator_traits<PA<K>>::is_always_equal::value && !std::allocator_traits<Mon<K>>::is_always_equal::value, "stateful allocator");
static_assert(std::is_same<std::allocator_traits<Mon<K>>::rebind_alloc<char>, Mon<char>>::value, "Mon rebinds to Mon");
static_assert(std::is_same<std::allocator_traits<Mon<K>>::propagate_on_container_swap, std::true_type>::value, "Mon inherits the traits");
static_assert(PA4<K>::MemPool::blockCount == 4 && PA4<K>::MemPool::cachedFreeBlockCount == 0 && PA1<K>::MemPool::blockCount == 1
	&& PA127<K>::MemPool::blockCount == 127, "extra pool parameter sets");
// node types of different sizes (libstdc++): the pool is created for value_type and re-targeted to these
static_assert(sizeof(std::_List_node<K>) == 24 && sizeof(std::_Fwd_list_node<K>) == 16 && sizeof(std::_Rb_tree_node<K>) == 40
	&& sizeof(std::_Rb_tree_node<std::pair<const K, K>>) == 48 && sizeof(std::__detail::_Hash_node<K, false>) == 16
	&& sizeof(std::__detail::_Hash_node<std::pair<const K, K>, false>) == 24 && sizeof(K) == 8, "node sizes");
static_assert(std::__is_fast_hash<std::hash<K>>::value, "no cached hash code in the node");
enum Kind { LIST, FLIST, MAP, SET, MMAP, UMAP, USET };

template<int KIND, template<class> class A> struct Sel;
template<template<class> class A> struct Sel<LIST, A> { typedef std::list<K, A<K>> type; };
template<template<class> class A> struct Sel<FLIST, A> { typedef std::forward_list<K, A<K>> type; };
template<template<class> class A> struct Sel<MAP, A> { typedef std::map<K, K, std::less<K>, A<std::pair<const K, K>>> type; };
template<template<class> class A> struct Sel<SET, A> { typedef std::set<K, std::less<K>, A<K>> type; };
template<template<class> class A> struct Sel<MMAP, A> { typedef std::multimap<K, K, std::less<K>, A<std::pair<const K, K>>> type; };
template<template<class> class A> struct Sel<UMAP, A> { typedef std::unordered_map<K, K, std::hash<K>, std::equal_to<K>, A<std::pair<const K, K>>> type; };
template<template<class> class A> struct Sel<USET, A> { typedef std::unordered_set<K, std::hash<K>, std::equal_to<K>, A<K>> type; };
template<class T> using StdA = std::allocator<T>;

template<int KIND> struct Ops
{
	static const bool seq = (KIND == LIST || KIND == FLIST), pairs = (KIND == MAP || KIND == MMAP || KIND == UMAP),
		hashed = (KIND == UMAP || KIND == USET);
	template<class C> static size_t size(const C& c) { return size_t(std::distance(c.begin(), c.end())); }
	template<class C> static std::vector<K> contents(const C& c)
	{
		std::vector<K> v;
		for (auto& x : c) { if constexpr (pairs) { v.push_back(x.first); v.push_back(x.second); } else v.push_back(x); }
		if (hashed || KIND == MMAP)
		{	// canonical order (multimap: equal keys keep insertion order in both, but merge order is unspecified)
			if constexpr (pairs) { std::vector<std::pair<K, K>> w; for (size_t i = 0; i < v.size(); i += 2) w.push_back({ v[i], v[i + 1] });
				std::sort(w.begin(), w.end()); v.clear(); for (auto& p : w) { v.push_back(p.first); v.push_back(p.second); } }
			else std::sort(v.begin(), v.end());
		}
		return v;
	}
	template<class C> static void ins(C& c, K k, K aux)
	{
		if constexpr (KIND == LIST) { if (aux % 3 == 0) c.push_front(k); else if (aux % 3 == 1) c.push_back(k);
			else { auto it = c.begin(); std::advance(it, size_t(aux / 3) % (c.size() + 1)); c.insert(it, k); } }
		else if constexpr (KIND == FLIST) { if (aux % 2 == 0) c.push_front(k); else { auto it = c.before_begin(); size_t n = size(c);
			std::advance(it, size_t(aux / 2) % (n + 1)); c.emplace_after(it, k); } }
		else if constexpr (pairs) { if (aux % 2 == 0) c.emplace(k, aux); else c.insert(std::make_pair(k, aux)); }
		else { if (aux % 2 == 0) c.insert(k); else c.emplace(k); }
	}
	template<class C> static void era(C& c, K k, K aux)
	{
		if constexpr (KIND == LIST) { if (aux % 2 == 0) c.remove(k); else if (!c.empty()) { auto it = c.begin(); std::advance(it, size_t(aux / 2) % c.size()); c.erase(it); } }
		else if constexpr (KIND == FLIST) { if (aux % 2 == 0) c.remove(k); else if (!c.empty()) { auto it = c.before_begin(); std::advance(it, size_t(aux / 2) % size(c)); c.erase_after(it); } }
		else { if (aux % 2 == 0) c.erase(k); else { auto it = c.find(k); if (it != c.end()) c.erase(it); } }
	}
	template<class C> static K fnd(const C& c, K k)
	{
		if constexpr (seq) return K(std::count(c.begin(), c.end(), k));
		else return K(c.count(k));
	}
	template<class C> static void splice(C& a, C& b)
	{
		if constexpr (KIND == LIST) a.splice(a.begin(), b);
		else if constexpr (KIND == FLIST) a.splice_after(a.before_begin(), b);
		else a.merge(b);
	}
	template<class C> static void rehash(C& c, size_t n)
	{
		if constexpr (hashed) { if (n % 2) c.rehash(n); else c.reserve(n); }
		else if constexpr (KIND == LIST) { if (n % 2) c.sort(); else c.reverse(); }
		else if constexpr (KIND == FLIST) { if (n % 2) c.sort(); else c.reverse(); }
	}
	template<class C, class Alloc> static C* make(const Alloc& a)
	{
		if constexpr (seq) return new C(a);
		else if constexpr (hashed) return new C(0, typename C::hasher(), typename C::key_equal(), a);
		else return new C(typename C::key_compare(), a);
	}
};

template<class C> static const void* pool_of(const C& c) { return c.get_allocator().mMemPool.get(); }
template<class C> static size_t pool_count(const C& c) { return c.get_allocator().mMemPool->GetAllocateCount(); }

template<int KIND, template<class> class A> static std::string run_container(std::istringstream& is, bool pooled)
{
	typedef typename Sel<KIND, A>::type C;
	typedef typename Sel<KIND, StdA>::type T;
	typedef Ops<KIND> O;
	const int NS = 3;
	std::unique_ptr<C> s[NS]; std::unique_ptr<T> t[NS];
	std::string op; int idx = 0; std::string fail;
	size_t max_nodes = 0, n_ops = 0, n_failed = 0, x32 = 0;
	int pid[NS] = { -1, -1, -1 }; int next_pid = 0;          // symbolic pool identity the property demands
	std::map<std::string, size_t> opc;                        // operations really executed (measured)
	std::map<const void*, size_t> prev_count;
	auto failf = [&](const std::string& m) { if (fail.empty()) fail = "FAIL op#" + std::to_string(idx) + " " + op + ": " + m; };
	while (fail.empty() && (is >> op))
	{
		++idx; ++n_ops;
		int a = 0, b = 0; long k = 0, aux = 0;
		try
		{
			if (op == "n") { is >> a; s[a].reset(); t[a].reset(); s[a].reset(O::template make<C>(typename C::allocator_type(Base(BASE_ID)))); t[a].reset(O::template make<T>(typename T::allocator_type())); pid[a] = next_pid++; ++opc[op]; }
			else if (op == "ns") { is >> a >> b; if (s[b] && a != b) {        // a second container built from the SAME allocator object: shares the pool
				std::unique_ptr<C> p(O::template make<C>(s[b]->get_allocator())); s[a] = std::move(p); t[a].reset(O::template make<T>(typename T::allocator_type())); pid[a] = pid[b]; ++opc[op]; } }
			else if (op == "cca" || op == "mca") { int c = 0; is >> a >> b >> c; if (s[b] && s[c] && a != b && a != c) {   // allocator-extended copy / move construction
				std::unique_ptr<C> p; std::unique_ptr<T> q;
				if (op == "cca") { p.reset(new C(*s[b], s[c]->get_allocator())); q.reset(new T(*t[b])); }
				else { p.reset(new C(std::move(*s[b]), s[c]->get_allocator())); q.reset(new T(std::move(*t[b]))); s[b]->clear(); t[b]->clear(); }
				s[a] = std::move(p); t[a] = std::move(q); pid[a] = pid[c]; ++opc[op]; } }
			else if (op == "fcc") { int kth = 0; is >> a >> b >> kth; if (s[b] && a != b) {      // copy construction with the kth base allocation failing
				std::unique_ptr<C> p; bool failed = false;
				kit::W().arm(kth, -1, -1);
				try { p.reset(new C(*s[b])); } catch (const std::bad_alloc&) { failed = true; }
				kit::W().disarm();
				if (failed) ++n_failed; else { s[a] = std::move(p); t[a].reset(new T(*t[b])); pid[a] = next_pid++; }
				++opc[op]; } }
			else if (op == "frh") { int kth = 0; is >> a >> k >> kth; if (s[a]) {           // rehash / sort with the kth base allocation failing
				bool failed = false; kit::W().arm(kth, -1, -1);
				try { O::rehash(*s[a], size_t(k)); } catch (const std::bad_alloc&) { failed = true; }
				kit::W().disarm();
				if (failed) ++n_failed; else O::rehash(*t[a], size_t(k));
				++opc[op]; } }
			else if (op == "x") { is >> a; if (s[a]) ++opc[op]; s[a].reset(); t[a].reset(); }
			else if (op == "i") { is >> a >> k >> aux; if (s[a]) { O::ins(*s[a], k, aux); O::ins(*t[a], k, aux); ++opc[op]; } }
			else if (op == "fi") { int kth = 0; is >> a >> k >> aux >> kth; if (s[a]) {
				// insertion during which the kth base allocation throws: the container must be unchanged (twin: no insertion)
				bool failed = false;
				kit::W().arm(kth, -1, -1);
				try { O::ins(*s[a], k, aux); } catch (const std::bad_alloc&) { failed = true; }
				kit::W().disarm();
				if (!failed) O::ins(*t[a], k, aux); else ++n_failed; ++opc[op]; } }
			else if (op == "e") { is >> a >> k >> aux; if (s[a]) { O::era(*s[a], k, aux); O::era(*t[a], k, aux); ++opc[op]; } }
			else if (op == "f") { is >> a >> k; if (s[a] && O::fnd(*s[a], k) != O::fnd(*t[a], k)) failf("find differs from twin"); }
			else if (op == "c") { is >> a; if (s[a]) { s[a]->clear(); t[a]->clear(); ++opc[op]; } }
			else if (op == "rh") { is >> a >> k; if (s[a]) { O::rehash(*s[a], size_t(k)); O::rehash(*t[a], size_t(k)); ++opc[op]; } }
			else if (op == "cc") { is >> a >> b; if (s[b] && a != b) {
				std::unique_ptr<C> p(new C(*s[b])); std::unique_ptr<T> q(new T(*t[b]));
				if (pooled && pool_of(*p) == pool_of(*s[b])) failf("copy-constructed container shares the pool of the original");
				s[a] = std::move(p); t[a] = std::move(q); pid[a] = next_pid++; ++opc[op]; } }
			else if (op == "ca") { is >> a >> b; if (s[a] && s[b]) {
				const void* pa0 = pooled ? pool_of(*s[a]) : nullptr; ++opc[op];
				*s[a] = *s[b]; *t[a] = *t[b];
				if (pooled && pool_of(*s[a]) != pa0) failf("copy assignment changed the pool (propagate_on_container_copy_assignment is false)"); } }
			else if (op == "mc") { is >> a >> b; if (s[b] && a != b) {
				const void* pb0 = pooled ? pool_of(*s[b]) : nullptr; ++opc[op];
				std::unique_ptr<C> p(new C(std::move(*s[b]))); std::unique_ptr<T> q(new T(std::move(*t[b])));
				if (pooled && pool_of(*p) != pb0) failf("move-constructed container does not carry the pool");
				if (pooled && pool_of(*s[b]) != pb0) failf("moved-from container lost its pool (allocator move construction must leave the source unchanged)");
				if (pooled && fail.empty() && size_t(s[b]->get_allocator().mMemPool.use_count()) < 3) failf("use_count after container move construction: source and target must both own the pool");
				s[b]->clear(); t[b]->clear();
				s[a] = std::move(p); t[a] = std::move(q); pid[a] = pid[b]; } }
			else if (op == "ma") { is >> a >> b; if (s[a] && s[b] && a != b) {
				const void* pb0 = pooled ? pool_of(*s[b]) : nullptr; ++opc[op]; pid[a] = pid[b];
				*s[a] = std::move(*s[b]); *t[a] = std::move(*t[b]);
				if (pooled && pool_of(*s[a]) != pb0) failf("move-assigned container does not carry the pool");
				s[b]->clear(); t[b]->clear(); } }
			else if (op == "sw") { is >> a >> b; if (s[a] && s[b]) {
				const void* pa0 = pooled ? pool_of(*s[a]) : nullptr; const void* pb0 = pooled ? pool_of(*s[b]) : nullptr; ++opc[op]; std::swap(pid[a], pid[b]);
				if (a % 2) s[a]->swap(*s[b]); else { using std::swap; swap(*s[a], *s[b]); }
				t[a]->swap(*t[b]);
				if (pooled && (pool_of(*s[a]) != pb0 || pool_of(*s[b]) != pa0)) failf("swapped containers do not carry their pools"); } }
			// libstdc++ 12: unordered merge() / insert(node_type&&) never destroy the allocator copy held by the node handle
			// (hashtable.h: __nh._M_ptr = nullptr without _M_alloc.release()), so an allocator object - and with it a
			// reference to the pool - is leaked by the LIBRARY; "sp" therefore skips hashed containers, "spx" does not.
			else if (op == "sp" || op == "spx") { is >> a >> b; if (!(O::hashed && op == "sp") && s[a] && s[b] && a != b && s[a]->get_allocator() == s[b]->get_allocator()) {
				O::splice(*s[a], *s[b]); O::splice(*t[a], *t[b]); ++opc[op]; } }
			else { failf("unknown op"); break; }
		}
		catch (const std::exception& e) { failf(std::string("exception ") + e.what()); }
		if (fail.empty() && !G().fatal.empty()) failf(G().fatal);
		if (!fail.empty()) break;
		// ---- the oracle, after every operation ----
		std::map<const void*, size_t> nodes, counts; size_t alive = 0, total = 0;
		for (int i = 0; i < NS; ++i)
		{
			if (!s[i]) continue;
			++alive;
			if (O::contents(*s[i]) != O::contents(*t[i])) failf("contents of slot " + std::to_string(i) + " differ from the std::allocator twin");
			if (pooled) { const void* pp = pool_of(*s[i]); nodes[pp] += O::size(*s[i]); counts[pp] = pool_count(*s[i]); }
			total += O::size(*s[i]);
		}
		if (pooled)
			for (int i = 0; i < NS; ++i) for (int j = i + 1; j < NS; ++j)
				if (s[i] && s[j] && (pid[i] == pid[j]) != (pool_of(*s[i]) == pool_of(*s[j])))
					failf(std::string("slots ") + std::to_string(i) + "," + std::to_string(j) + (pid[i] == pid[j] ? " must share one pool (built from / moved from the same allocator) but do not"
						: " must have independent pools but share one"));
		max_nodes = std::max(max_nodes, total);
		for (auto& kv : nodes)
		{
			size_t cnt = counts[kv.first];
			if (cnt != kv.second) failf("pool GetAllocateCount " + std::to_string(cnt) + " != live nodes " + std::to_string(kv.second));
			size_t& pc = prev_count[kv.first]; if (cnt / 32 > pc / 32) ++x32; pc = cnt;
		}
		if (!kit::W().errors.empty()) failf("base allocator protocol: " + kit::W().errors[0]);
		if (alive == 0 && kit::W().live_blocks() != 0) failf("no container alive but " + std::to_string(kit::W().live_blocks()) + " base blocks outstanding");
	}
	for (int i = 0; i < NS; ++i) { s[i].reset(); t[i].reset(); }
	op = "end"; ++idx;
	if (!kit::W().errors.empty()) failf("base allocator protocol: " + kit::W().errors[0]);
	if (kit::W().live_blocks() != 0)
	{
		failf("all containers destroyed but " + std::to_string(kit::W().live_blocks()) + " base blocks outstanding");
		while (!kit::W().blocks.empty()) { auto it = kit::W().blocks.begin(); kit::raw_deallocate(it->second.mgr, it->first, it->second.size); }  // do not poison later cases
	}
	if (!fail.empty()) return fail;
	std::string oc; for (auto& kv : opc) oc += (oc.empty() ? "" : ",") + kv.first + ":" + std::to_string(kv.second);
	return "ok ops=" + std::to_string(n_ops) + " maxnodes=" + std::to_string(max_nodes) + " basealloc=" + std::to_string(kit::W().n_alloc)
		+ " failed=" + std::to_string(n_failed) + " x32=" + std::to_string(x32) + " opc=" + oc;
}

// ---- elements with non-trivial, possibly throwing copy construction: allocator construct()/destroy() and the
// "node allocated, element constructor throws, node given back" path.  list<kit::ElemCpy>.
// ops: pb k | pf k | fpb k kc (kc-th element copy throws) | pop | e k | c | cp (copy-construct a second list and swap) | fcp kc
template<template<class> class A> static std::string run_elem(std::istringstream& is)
{
	typedef kit::ElemCpy E; typedef std::list<E, A<E>> L; typedef std::list<E> T;
	std::string fail, op; int idx = 0; size_t n_ops = 0, n_failed = 0, max_nodes = 0;
	{
		L l{ A<E>(Base(BASE_ID)) }; T t;
		auto same = [&]() { if (l.size() != t.size()) return false; auto i = l.begin(); for (auto& x : t) { if (!(x == *i)) return false; ++i; } return true; };
		while (fail.empty() && (is >> op))
		{
			++idx; ++n_ops; long k = 0; int kc = 0;
			if (op == "pb") { is >> k; l.push_back(E(k)); t.push_back(E(k)); }
			else if (op == "pf") { is >> k; l.emplace_front(k); t.emplace_front(k); }
			else if (op == "fpb") { is >> k >> kc; E e(k); bool failed = false; kit::W().arm(-1, kc, -1);
				try { l.push_back(e); } catch (const kit::InjectedCopy&) { failed = true; } kit::W().disarm();
				if (failed) ++n_failed; else t.push_back(e); }
			else if (op == "pop") { if (!l.empty()) { l.pop_front(); t.pop_front(); } }
			else if (op == "e") { is >> k; if (!l.empty()) { auto i = l.begin(); std::advance(i, size_t(k) % l.size()); l.erase(i); auto j = t.begin(); std::advance(j, size_t(k) % t.size()); t.erase(j); } }
			else if (op == "c") { l.clear(); t.clear(); }
			else if (op == "cp") { L l2(l); T t2(t); l.swap(l2); t.swap(t2); }
			else if (op == "fcp") { is >> kc; bool failed = false; kit::W().arm(-1, kc, -1);
				try { L l2(l); l.swap(l2); } catch (const kit::InjectedCopy&) { failed = true; } kit::W().disarm(); if (failed) ++n_failed; }
			else { fail = "FAIL unknown op " + op; break; }
			if (!same()) fail = "FAIL op#" + std::to_string(idx) + " " + op + ": contents differ from the std::allocator twin";
			if (pool_count(l) != l.size()) fail = "FAIL op#" + std::to_string(idx) + " " + op + ": pool GetAllocateCount " + std::to_string(pool_count(l)) + " != live nodes " + std::to_string(l.size());
			if (kit::W().live_objs() != l.size() + t.size()) fail = "FAIL op#" + std::to_string(idx) + " " + op + ": " + std::to_string(kit::W().live_objs()) + " live elements for " + std::to_string(l.size() + t.size()) + " nodes (construct/destroy mismatch)";
			if (!kit::W().errors.empty()) fail = "FAIL op#" + std::to_string(idx) + " " + op + ": " + kit::W().errors[0];
			max_nodes = std::max(max_nodes, l.size());
		}
	}
	if (fail.empty() && (kit::W().live_blocks() != 0 || kit::W().live_objs() != 0 || !kit::W().errors.empty()))
		fail = "FAIL end: " + kit::summary() + " (live blocks, live elements, errors) after destruction";
	if (!fail.empty()) return fail;
	return "ok ops=" + std::to_string(n_ops) + " maxnodes=" + std::to_string(max_nodes) + " basealloc=" + std::to_string(kit::W().n_alloc) + " failed=" + std::to_string(n_failed);
}

// ---- two containers with DIFFERENT node sizes sharing one pool through the converting allocator constructor --------
// ops: li k aux | le k aux | lc | si k | se k | sc | lfi k kth | sfi k kth   (prop.py keeps H: one of the two is empty while the other inserts)
template<template<class> class A> static std::string run_duo(std::istringstream& is)
{
	typedef std::list<K, A<K>> L; typedef std::set<K, std::less<K>, A<K>> S;
	typedef Ops<LIST> OL; typedef Ops<SET> OS;
	std::string fail, op; int idx = 0; size_t n_ops = 0, max_nodes = 0, n_failed = 0;
	{
		L l{ A<K>(Base(BASE_ID)) }; std::list<K> lt;
		S s{ std::less<K>(), A<K>(l.get_allocator()) }; std::set<K> st;
		auto pool = l.get_allocator().mMemPool.get();
		if (s.get_allocator().mMemPool.get() != pool) fail = "FAIL converting constructor does not share the pool";
		while (fail.empty() && (is >> op))
		{
			++idx; ++n_ops; long k = 0, aux = 0; int kth = 0;
			if (op == "li") { is >> k >> aux; OL::ins(l, k, aux); OL::ins(lt, k, aux); }
			else if (op == "le") { is >> k >> aux; OL::era(l, k, aux); OL::era(lt, k, aux); }
			else if (op == "lc") { l.clear(); lt.clear(); }
			else if (op == "si") { is >> k; s.insert(k); st.insert(k); }
			else if (op == "se") { is >> k; s.erase(k); st.erase(k); }
			else if (op == "sc") { s.clear(); st.clear(); }
			else if (op == "lfi" || op == "sfi")
			{
				is >> k >> kth; bool failed = false; kit::W().arm(kth, -1, -1);
				try { if (op == "lfi") l.push_back(k); else s.insert(k); } catch (const std::bad_alloc&) { failed = true; }
				kit::W().disarm();
				if (failed) ++n_failed; else if (op == "lfi") lt.push_back(k); else st.insert(k);
			}
			else { fail = "FAIL unknown op " + op; break; }
			if (!G().fatal.empty()) fail = "FAIL op#" + std::to_string(idx) + " " + op + ": " + G().fatal;
			if (OL::contents(l) != OL::contents(lt) || OS::contents(s) != OS::contents(st)) fail = "FAIL op#" + std::to_string(idx) + " " + op + ": contents differ from the std::allocator twins";
			size_t nodes = l.size() + s.size(); max_nodes = std::max(max_nodes, nodes);
			if (pool->GetAllocateCount() != nodes) fail = "FAIL op#" + std::to_string(idx) + " " + op + ": pool GetAllocateCount " + std::to_string(pool->GetAllocateCount()) + " != live nodes " + std::to_string(nodes);
			if (!kit::W().errors.empty()) fail = "FAIL op#" + std::to_string(idx) + " " + op + ": base allocator protocol: " + kit::W().errors[0];
		}
	}
	if (fail.empty() && !kit::W().errors.empty()) fail = "FAIL end: base allocator protocol: " + kit::W().errors[0];
	if (fail.empty() && kit::W().live_blocks() != 0) fail = "FAIL end: containers destroyed but " + std::to_string(kit::W().live_blocks()) + " base blocks outstanding";
	if (!fail.empty()) return fail;
	return "ok ops=" + std::to_string(n_ops) + " maxnodes=" + std::to_string(max_nodes) + " basealloc=" + std::to_string(kit::W().n_alloc) + " failed=" + std::to_string(n_failed);
}

// ---- the re-targeting statement of allocate() (pool_allocator.h:119) on a real MemPool with a NON-EMPTY cache -------
// case: retarget s1 a1 k s2 a2 ; output (same format as the model driver): cached_before count bs al cached_after consistent
template<class PP> static std::string run_retarget_cfg(std::istringstream& is)
{
	size_t s1, a1, k, s2, a2; is >> s1 >> a1 >> k >> s2 >> a2;
	typedef momo::MemManagerStd<Base> MM; typedef PoolOf<PP> Pool;
	std::string out;
	{
		Pool pool(PP(s1, a1), MM(Base(BASE_ID)));
		std::vector<void*> bl;
		for (size_t i = 0; i < k; ++i) bl.push_back(pool.template Allocate<void>());
		for (void* b : bl) pool.Deallocate(b);
		out = std::to_string(pool.mCachedCount) + " ";
		pool = Pool(PP(s2, a2), MM(Base(BASE_ID)));     // exactly line 119
		bool consistent = (pool.mCachedCount == 0) == (pool.mCacheHead == nullptr) && pool.mFreeBufferHead == nullptr;
		out += std::to_string(pool.GetAllocateCount()) + " " + std::to_string(pool.GetBlockSize()) + " " + std::to_string(pool.GetBlockAlignment())
			+ " " + std::to_string(pool.mCachedCount) + " " + (consistent ? "1" : "0");
		if (consistent) { void* b = pool.template Allocate<void>(); pool.Deallocate(b); }
		else { pool.mCachedCount = 0; pool.mCacheHead = nullptr; }            // keep the destructor from crashing
	}
	if (kit::W().live_blocks() != 0 || !kit::W().errors.empty()) out += " LEAK";
	return out;
}
// ---- MemPool::pvCheckParams through the constructor the allocator uses (pool_allocator.h:77, 119) ---------------------
// case: checkparams bc cf size align ; output: ok <blockSize> <blockAlignment> | length_error   (a failing MOMO_CHECK aborts -> CRASH line)
template<class PP> static std::string run_checkparams_cfg(size_t size, size_t align)
{
	try
	{
		PoolOf<PP> pool(PP(size, align), momo::MemManagerStd<Base>(Base(BASE_ID)));
		return "ok " + std::to_string(pool.GetBlockSize()) + " " + std::to_string(pool.GetBlockAlignment());
	}
	catch (const std::length_error&) { return "length_error"; }
}
static std::string run_checkparams(std::istringstream& is)
{
	int bc = 0, cf = 0; unsigned long long size = 0, align = 0; is >> bc >> cf >> size >> align;
	if (bc == 32 && cf == 16) return run_checkparams_cfg<momo::MemPoolParams<>>(size, align);
	if (bc == 4 && cf == 0) return run_checkparams_cfg<momo::MemPoolParams<4, 0>>(size, align);
	if (bc == 1 && cf == 2) return run_checkparams_cfg<momo::MemPoolParams<1, 2>>(size, align);
	if (bc == 127 && cf == 1) return run_checkparams_cfg<momo::MemPoolParams<127, 1>>(size, align);
	return "FAIL unknown configuration";
}
// case: retarget bc cf s1 a1 k s2 a2
static std::string run_retarget(std::istringstream& is)
{
	int bc = 0, cf = 0; is >> bc >> cf;
	if (bc == 32 && cf == 16) return run_retarget_cfg<momo::MemPoolParams<>>(is);
	if (bc == 4 && cf == 0) return run_retarget_cfg<momo::MemPoolParams<4, 0>>(is);
	if (bc == 1 && cf == 2) return run_retarget_cfg<momo::MemPoolParams<1, 2>>(is);
	if (bc == 127 && cf == 1) return run_retarget_cfg<momo::MemPoolParams<127, 1>>(is);
	return "FAIL unknown configuration";
}

// ---- direct allocator-level scripts ------------------------------------------------------------------
template<size_t S, size_t AL> struct alignas(AL) Blob { unsigned char d[S]; };
struct HBase
{
	virtual ~HBase() {}
	virtual int type() const = 0;
	virtual HBase* copy() const = 0;
	virtual HBase* move_from() = 0;
	virtual HBase* rebind(int ty) const = 0;
	virtual HBase* socc() const = 0;
	virtual void assign(const HBase& o) = 0;
	virtual void* alloc(size_t n) = 0;
	virtual void dealloc(void* p, size_t n) = 0;
};
template<int TY> struct TypeOf;
template<> struct TypeOf<0> { typedef Blob<24, 8> type; };
template<> struct TypeOf<1> { typedef Blob<40, 8> type; };
template<> struct TypeOf<2> { typedef Blob<8, 8> type; };
template<> struct TypeOf<3> { typedef Blob<16, 8> type; };    // same pool parameters as <2>: (16, 8)
template<> struct TypeOf<4> { typedef Blob<4, 4> type; };
template<> struct TypeOf<5> { typedef Blob<32, 16> type; };
template<> struct TypeOf<6> { typedef Blob<3, 1> type; };
template<> struct TypeOf<7> { typedef Blob<48, 16> type; };
static const int NTYPES = 8;
struct MoveTag {};
template<int TY, class PP> struct HImpl;
template<class PP, class Src> static HBase* make_rebound(const Src& src, int ty);
template<int TY, class PP> struct HImpl : HBase
{
	typedef typename TypeOf<TY>::type T;
	typedef MonT<T, PP> MonX;
	MonX a;
	HImpl() : a(Base(BASE_ID)) {}
	template<class X> explicit HImpl(const X& x) : a(x) {}
	HImpl(SoccTag, const MonX& x) : a(x.select_on_container_copy_construction()) {}
	HImpl(MoveTag, MonX&& x) : a(std::move(x)) {}
	int type() const override { return TY; }
	HBase* copy() const override { return new HImpl<TY, PP>(a); }
	HBase* move_from() override { return new HImpl<TY, PP>(MoveTag(), std::move(a)); }
	HBase* rebind(int ty) const override { return make_rebound<PP>(a, ty); }
	HBase* socc() const override { return new HImpl<TY, PP>(SoccTag(), a); }
	void assign(const HBase& o) override { a = static_cast<const HImpl<TY, PP>&>(o).a; }
	void* alloc(size_t n) override { return a.allocate(n); }
	void dealloc(void* p, size_t n) override { a.deallocate(static_cast<T*>(p), n); }
};
template<class PP, class Src> static HBase* make_rebound(const Src& src, int ty)
{
	switch (ty)
	{
	case 0: return new HImpl<0, PP>(src); case 1: return new HImpl<1, PP>(src); case 2: return new HImpl<2, PP>(src); case 3: return new HImpl<3, PP>(src);
	case 4: return new HImpl<4, PP>(src); case 5: return new HImpl<5, PP>(src); case 6: return new HImpl<6, PP>(src); default: return new HImpl<7, PP>(src);
	}
}
template<class PP> static HBase* make_new(int ty)
{
	switch (ty)
	{
	case 0: return new HImpl<0, PP>(); case 1: return new HImpl<1, PP>(); case 2: return new HImpl<2, PP>(); case 3: return new HImpl<3, PP>();
	case 4: return new HImpl<4, PP>(); case 5: return new HImpl<5, PP>(); case 6: return new HImpl<6, PP>(); default: return new HImpl<7, PP>();
	}
}

// script: N ty | C h | R h ty | S h | = hd hs | X h | A h n | D h k     (h = index in the script's own handle table,
// k = index in its block table).  The script is trusted to be executable (prop.py generates protocol-respecting ones;
// the H-violating refutation scripts are hand-made so that the real allocator's misbehaviour does not crash).
template<class PP> static std::string run_direct(std::istringstream& is)
{
	std::vector<std::unique_ptr<HBase>> hs; std::vector<std::pair<void*, size_t>> bl;
	std::string op; size_t n_ops = 0, n_failed = 0;
	while (G().fatal.empty() && (is >> op))
	{
		++n_ops; size_t a = 0, b = 0; int ty = 0;
		if (op == "N") { is >> ty; hs.emplace_back(make_new<PP>(ty)); }
		else if (op == "C") { is >> a; hs.emplace_back(hs[a]->copy()); }
		else if (op == "M") { is >> a; hs.emplace_back(hs[a]->move_from()); }
		else if (op == "F")
		{	// allocate(n) during which the k-th base allocation throws; if nothing had to be allocated the block is given back
			size_t kth; is >> a >> b >> kth; void* q = nullptr;
			kit::W().arm(long(kth), -1, -1);
			try { q = hs[a]->alloc(b); } catch (const std::bad_alloc&) { ++n_failed; }
			kit::W().disarm();
			if (q != nullptr) hs[a]->dealloc(q, b);
		}
		else if (op == "R") { is >> a >> ty; hs.emplace_back(hs[a]->rebind(ty)); }
		else if (op == "S") { is >> a; hs.emplace_back(hs[a]->socc()); }
		else if (op == "=") { is >> a >> b; hs[a]->assign(*hs[b]); }
		else if (op == "X") { is >> a; hs[a].reset(); }
		else if (op == "A") { is >> a >> b; bl.push_back({ hs[a]->alloc(b), b }); }
		else if (op == "D") { is >> a >> b; hs[a]->dealloc(bl[b].first, bl[b].second); bl[b].first = nullptr; }
		else return "FAIL unknown op " + op;
	}
	for (auto& h : hs) h.reset();
	Tracer& g = G();
	if (!g.fatal.empty())
	{
		while (!kit::W().blocks.empty()) { auto it = kit::W().blocks.begin(); kit::raw_deallocate(it->second.mgr, it->first, it->second.size); }
		return "FAIL op#" + std::to_string(n_ops) + " " + op + ": " + g.fatal;
	}
	std::string r = "ok ops=" + std::to_string(n_ops) + " hviol=" + std::to_string(g.h_violations) + " misrouted=" + std::to_string(g.misrouted)
		+ " live=" + std::to_string(kit::W().live_blocks()) + " errors=" + std::to_string(kit::W().errors.size()) + " failed=" + std::to_string(n_failed);
	// clean up after deliberately H-violating scripts: leaked raw blocks go back to the base allocator
	while (!kit::W().blocks.empty()) { auto it = kit::W().blocks.begin(); kit::raw_deallocate(it->second.mgr, it->first, it->second.size); }
	return r;
}

#ifndef PART
#define PART -1
#endif
template<int KIND> static std::string dispatch(std::istringstream& is, const std::string& alloc)
{
	if (alloc == "pa") return run_container<KIND, PA>(is, true);
	if (alloc == "mon") return run_container<KIND, Mon>(is, false);   // pool identity / count checks are done in the pa run (fewer events here)
	return "FAIL unknown allocator " + alloc;
}
template<int KIND> static std::string dispatch2(std::istringstream& is, const std::string& alloc)
{
	if (alloc == "pa4") return run_container<KIND, PA4>(is, true);
	if (alloc == "pa1") return run_container<KIND, PA1>(is, true);
	if (alloc == "pa127") return run_container<KIND, PA127>(is, true);
	return "FAIL unknown allocator " + alloc;
}
template<int KIND> static std::string dispatch3(std::istringstream& is, const std::string& alloc)
{
	if (alloc == "mon4") return run_container<KIND, Mon4>(is, false);
	if (alloc == "mon1") return run_container<KIND, Mon1>(is, false);
	if (alloc == "mon127") return run_container<KIND, Mon127>(is, false);
	return "FAIL unknown allocator " + alloc;
}

static std::string g_alloc;
static std::string finish_line(std::string res)
{
	Tracer& g = G(); g.on = false;
	if (g_alloc.compare(0, 3, "mon") == 0)
		res += " hviol=" + std::to_string(g.h_violations) + " pool=" + std::to_string(g.n_pool) + " raw=" + std::to_string(g.n_raw)
			+ " reparam=" + std::to_string(g.n_reparam) + " events=" + std::to_string(g.n_events)
			+ " cross32=" + std::to_string(g.n_cross32) + " flush=" + std::to_string(g.n_flush) + " fromcache=" + std::to_string(g.n_fromcache)
			+ " reparamcached=" + std::to_string(g.n_reparam_cached) + " failevents=" + std::to_string(g.n_fail_events) + " moves=" + std::to_string(g.n_moves)
			+ " maxcount=" + std::to_string(g.max_count) + " | " + g.events + " | " + g.obs;
	return res;
}
static void on_crash(int sig)
{	// not async-signal-safe, but the process is lost anyway: report the allocator call in flight and the events so far
	static bool once = false; if (once) _exit(4); once = true;
	std::string l = finish_line("CRASH signal=" + std::to_string(sig) + " pending=[" + G().pending + "]") + "\n";
	ssize_t r = write(1, l.c_str(), l.size()); (void)r;
	_exit(3);
}

static std::string run_case(const std::string& line)
{
	std::istringstream is(line); std::string kind, alloc; is >> kind;
	kit::World& w = kit::W();
	w.errors.clear(); w.log.clear(); w.n_alloc = w.n_dealloc = 0; w.logging = true;
	Tracer& g = G(); g.reset();
	std::string res;
	if (kind == "retarget") { g_alloc = "none"; return run_retarget(is); }
	if (kind == "checkparams") { g_alloc = "none"; return run_checkparams(is); }
	if (kind.compare(0, 6, "direct") == 0) { g.on = true; alloc = "mon" + kind.substr(6); }
	else { is >> alloc; g.on = (alloc.compare(0, 3, "mon") == 0); }
	g_alloc = alloc;
	g.cfg = (alloc == "mon4") ? "4 0" : (alloc == "mon1") ? "1 2" : (alloc == "mon127") ? "127 1" : "32 16";
	if (false) {}
#if PART == 3 || PART == -1
	else if (kind == "direct4") res = run_direct<momo::MemPoolParams<4, 0>>(is);
	else if (kind == "direct1") res = run_direct<momo::MemPoolParams<1, 2>>(is);
	else if (kind == "direct127") res = run_direct<momo::MemPoolParams<127, 1>>(is);
	else if (alloc == "mon4" || alloc == "mon1" || alloc == "mon127")
		res = (kind == "list") ? dispatch3<LIST>(is, alloc) : (kind == "set") ? dispatch3<SET>(is, alloc) : (kind == "umap") ? dispatch3<UMAP>(is, alloc)
			: (kind == "duo") ? ((alloc == "mon4") ? run_duo<Mon4>(is) : (alloc == "mon1") ? run_duo<Mon1>(is) : run_duo<Mon127>(is)) : "FAIL unknown kind " + kind;
#endif
#if PART == 2 || PART == -1
	else if (kind == "elem") res = (alloc == "pa") ? run_elem<PA>(is) : (alloc == "pa4") ? run_elem<PA4>(is) : run_elem<PA1>(is);
	else if (alloc == "pa4" || alloc == "pa1" || alloc == "pa127")
		res = (kind == "list") ? dispatch2<LIST>(is, alloc) : (kind == "set") ? dispatch2<SET>(is, alloc) : (kind == "umap") ? dispatch2<UMAP>(is, alloc)
			: (kind == "duo") ? ((alloc == "pa4") ? run_duo<PA4>(is) : (alloc == "pa1") ? run_duo<PA1>(is) : run_duo<PA127>(is)) : "FAIL unknown kind " + kind;
#endif
#if PART == 0 || PART == -1
	else if (kind == "list") res = dispatch<LIST>(is, alloc);
	else if (kind == "flist") res = dispatch<FLIST>(is, alloc);
	else if (kind == "map") res = dispatch<MAP>(is, alloc);
	else if (kind == "set") res = dispatch<SET>(is, alloc);
#endif
#if PART == 1 || PART == -1
	else if (kind == "mmap") res = dispatch<MMAP>(is, alloc);
	else if (kind == "umap") res = dispatch<UMAP>(is, alloc);
	else if (kind == "uset") res = dispatch<USET>(is, alloc);
	else if (kind == "direct") res = run_direct<momo::MemPoolParams<>>(is);
	else if (kind == "duo") res = (alloc == "mon") ? run_duo<Mon>(is) : run_duo<PA>(is);
#endif
	else res = "FAIL unknown kind " + kind;
	return finish_line(res);
}

// every case runs in a forked child: a crash of the real code costs one case, and the child reports what it has
int main()
{
	std::string line;
	while (std::getline(std::cin, line))
	{
		fflush(stdout);
		pid_t pid = fork();
		if (pid == 0)
		{
			signal(SIGALRM, on_crash); alarm(5);       // a corrupted pool may loop forever: 5 s per case, then reported as CRASH signal=14
			signal(SIGSEGV, on_crash); signal(SIGABRT, on_crash); signal(SIGBUS, on_crash); signal(SIGFPE, on_crash); signal(SIGILL, on_crash);
			std::string r = run_case(line) + "\n";
			ssize_t k = write(1, r.c_str(), r.size()); (void)k;
			_exit(0);
		}
		int status = 0; waitpid(pid, &status, 0);
		bool ok = WIFEXITED(status) && (WEXITSTATUS(status) == 0 || WEXITSTATUS(status) == 3);
		if (!ok) { printf("CRASH status=%d\n", status); fflush(stdout); }
	}
	return 0;
}
