// C01 harness TU 6: OpenN1<2,4,6,7> (the real classes behind Open8 = OpenN1<7,false>) for the failed-insert family
#include "c01_harness.h"
using namespace momo;
typedef HashBucketOpenN1<2> N2; typedef HashBucketOpenN1<4, false> N4; typedef HashBucketOpenN1<6> N6; typedef HashBucketOpenN1<7, false> N7;
static const Reg regs[] = {
	C01_SET("S.N2.b.q", N2, 8, 4, 0, false, false),
	C01_MAP("M.N4.a.q", N4, 4, 4, 0, false, false),
	C01_SET("S.N6.x.q", N6, 8, 4, 2, false, false),
	C01_SET("S.N7.b.q", N7, 8, 4, 0, false, false),
};
// n1 <N> <reverse> op...: a<hashCode> AddCrt, r<idx> Remove, c Clear, u<probe> UpdateMaxProbe on a REAL bucket object; prints mData[0..N]
template<class HB> static void n1_run(const std::vector<std::string>& w)
{
	typedef Elem<8, 4, 0> K;
	typedef typename momo::HashSet<K, VTraits<K, HB, false, false>, VMem>::Bucket Bk;
	static const size_t N = Bk::maxCount;
	alignas(Bk) static unsigned char buf[sizeof(Bk)];
	Bk* b = new (buf) Bk();		// static storage, never destroyed
	VMem mm; typename Bk::Params params(mm);
	for (size_t i = 2; i < w.size(); ++i)
	{
		char op = w[i][0]; size_t arg = w[i].size() > 1 ? size_t(std::stoull(w[i].substr(1))) : 0;
		if (op == 'a') { if (!b->IsFull()) b->AddCrt(params, [] (K* p) { new (p) K(1, 1); }, arg, 0, 0); }
		else if (op == 'r')
		{
			auto bounds = b->GetBounds(params);
			if (arg < bounds.GetCount()) b->Remove(params, std::next(bounds.GetBegin(), ptrdiff_t(arg)), [] (K&, K&) {});
		}
		else if (op == 'c') b->Clear(params);
		else if (op == 'u') b->UpdateMaxProbe(arg);
	}
	std::string out;
	for (size_t i = 0; i <= N; ++i) out += (i ? " " : "") + std::to_string(unsigned(b->mData[i]));
	puts(out.c_str());
}
// n1 3M 0 op...: the same for a REAL BucketOpen2N2<M, hash-code-part getter>: prints mState[0..1], shortHashes[0..M-1], hashProbes of occupied slots
template<size_t M> static void o2_run(const std::vector<std::string>& w)
{
	typedef Elem<8, 4, 0> K;
	typedef typename momo::HashSet<K, VTraits<K, momo::HashBucketOpen2N2<M>, false, true>, VMem>::Bucket Bk;
	alignas(Bk) static unsigned char buf[sizeof(Bk)];
	Bk* b = new (buf) Bk();
	VMem mm; typename Bk::Params params(mm);
	for (size_t i = 2; i < w.size(); ++i)
	{
		char op = w[i][0]; size_t arg = w[i].size() > 1 ? size_t(std::stoull(w[i].substr(1))) : 0;
		if (op == 'a') { if (!b->IsFull()) b->AddCrt(params, [] (K* p) { new (p) K(1, 1); }, arg, 4, (arg >> 8) & 7); }
		else if (op == 'r')
		{
			auto bounds = b->GetBounds(params);
			if (arg < bounds.GetCount()) b->Remove(params, std::next(bounds.GetBegin(), ptrdiff_t(arg)), [] (K&, K&) {});
		}
		else if (op == 'c') b->Clear(params);
		else if (op == 'u') b->UpdateMaxProbe(arg);
	}
	std::string out = std::to_string(unsigned(b->mState[0])) + " " + std::to_string(unsigned(b->mState[1]));
	size_t count = b->mState[1] & 3;
	for (size_t i = 0; i < M; ++i) out += " " + std::to_string(unsigned(b->mHashData.shortHashes[i]));
	for (size_t i = 0; i < M; ++i) out += " " + (i >= M - count ? std::to_string(unsigned(b->mHashData.hashProbes[i])) : std::string("-"));
	puts(out.c_str());
}
static void leaf(const std::vector<std::string>& w)
{
	if (w.size() < 2) { puts("?leaf"); return; }
	size_t n = std::stoull(w[0]);
	if (n == 31) { o2_run<1>(w); return; } if (n == 32) { o2_run<2>(w); return; } if (n == 33) { o2_run<3>(w); return; }
	if (n == 2) n1_run<N2>(w); else if (n == 4) n1_run<N4>(w); else if (n == 6) n1_run<N6>(w); else if (n == 7) n1_run<N7>(w); else puts("?leaf");
}
int main() { return c01_main(regs, sizeof(regs) / sizeof(regs[0]), &leaf); }
