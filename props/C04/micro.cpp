// C04 micro-correspondence, implementation side: the REAL momo mechanisms run on kit elements inside an arena
// whose blocks are numbered like the blocks of the Coq resource machine.  Same case format / output format as
// ocaml/driver.ml:   <mech> <cat N|C|T> <n> <k> [extra]   ->   <Ok|Exn|Stuck..> | <event trace> | <final blocks>
#include "private_access.h"
#include "kit.h"
#include "momo/ObjectManager.h"
#include "momo/MapUtility.h"
#include "momo/Array.h"
#include "momo/TreeSet.h"
#include "momo/HashSet.h"
#include "momo/details/HashBucketLimP4.h"

using kit::W;

// ElemThm is a type with a throwing move constructor.  On GCC/Clang momo's default
// MOMO_IS_NOTHROW_RELOCATABLE_APPENDIX declares every type with a move constructor nothrow relocatable, so to reach
// the "not nothrow relocatable" code paths with a really-moving type we use the public customisation point.
namespace momo {
template<typename TMemManager>
class ObjectRelocator<kit::ElemThm, TMemManager>
{
public:
	typedef kit::ElemThm Object;
	typedef TMemManager MemManager;
	static const bool isTriviallyRelocatable = false;
	static const bool isNothrowRelocatable = false;
	static void Relocate(MemManager* /*memManager*/, Object& srcObject, Object* dstObject)
	{
		::new(static_cast<void*>(dstObject)) Object(std::move(srcObject));
		srcObject.~Object();
	}
};
}

// ---- arena: never reuses addresses inside one case, so address -> (block, index) is unambiguous -----------------
struct Region { char* base; size_t bytes; uint64_t id; bool live; };
static std::vector<Region> g_regs;
static char* g_arena = nullptr; static size_t g_top = 0; static const size_t ARENA = 1 << 20;

static void* arena_alloc(size_t bytes, bool fallible)
{
	if (fallible) W().step_alloc();
	g_top = (g_top + 63) & ~size_t(63);
	if (g_top + bytes + 64 > ARENA) { fprintf(stderr, "arena exhausted\n"); abort(); }
	char* p = g_arena + g_top; g_top += bytes + 64;
	uint64_t id = g_regs.size();
	g_regs.push_back(Region{ p, bytes, id, true });
	W().eev('A', 0, id, bytes);
	return p;
}
static void arena_free(void* p, size_t bytes) noexcept
{
	for (auto& r : g_regs)
		if (r.base == p)
		{
			if (!r.live) W().error("double free of block");
			if (r.bytes != bytes) W().error("deallocate size mismatch");
			r.live = false; W().eev('D', 0, r.id, bytes); return;
		}
	W().error("deallocate of unknown block");
}
class AMM
{
public:
	explicit AMM() noexcept {}
	AMM(AMM&&) noexcept {}
	AMM(const AMM&) noexcept {}
	~AMM() noexcept {}
	AMM& operator=(const AMM&) = delete;
	void* Allocate(size_t size) { return arena_alloc(size, true); }
	void Deallocate(void* ptr, size_t size) noexcept { arena_free(ptr, size); }
	bool IsEqual(const AMM&) const noexcept { return true; }
};

template<typename E> static std::string locname(const void* a)
{
	const char* p = static_cast<const char*>(a);
	for (auto it = g_regs.rbegin(); it != g_regs.rend(); ++it)
		if (p >= it->base && p < it->base + it->bytes)
			return std::to_string(it->id) + "." + std::to_string(size_t(p - it->base) / sizeof(E));
	return "s.0";
}

template<typename E> static E* block(size_t n)      // a raw block of n cells (harness set-up: never fails)
{
	return static_cast<E*>(arena_alloc((n ? n : 0) * sizeof(E), false));
}
template<typename E> static E* lives(size_t base, size_t n)
{
	E* p = block<E>(n);
	for (size_t j = 0; j < n; ++j) ::new(static_cast<void*>(p + j)) E(int64_t(base + j));
	return p;
}

static void begin_case(long k)
{
	W().errors.clear(); W().elog_reset(); W().elog_uses = false; W().elogging = true; W().disarm();
	if (k >= 0) W().arm_step(k);
}

template<typename E> static void print_case(const char* outcome, const std::string& prefix = std::string())
{
	W().disarm(); W().elogging = false;
	std::map<uint64_t, const void*> addr_of;
	for (auto& kv : W().slot_of) addr_of[kv.second] = kv.first;
	std::string out = W().errors.empty() ? std::string(outcome) : ("Stuck(" + W().errors[0] + ")");
	std::string evs;
	for (auto& e : W().elog)
	{
		std::string s;
		switch (e.kind)
		{
		case 'A': s = "A" + std::to_string(e.b) + ":" + std::to_string(e.c / sizeof(E)); break;
		case 'D': s = "D" + std::to_string(e.b); break;
		case 'C': s = "C" + locname<E>(addr_of[e.b]) + ">" + locname<E>(addr_of[e.a]); break;
		case 'M': s = "M" + locname<E>(addr_of[e.b]) + ">" + locname<E>(addr_of[e.a]); break;
		case 'X': s = "X" + locname<E>(addr_of[e.a]); break;
		case 'F': s = "F"; break;
		default: continue;
		}
		if (!evs.empty()) evs += " ";
		evs += s;
	}
	std::string blocks;
	for (auto& r : g_regs)
	{
		if (!blocks.empty()) blocks += " ";
		if (!r.live) { blocks += "b" + std::to_string(r.id) + "-"; continue; }
		blocks += "b" + std::to_string(r.id) + "[";
		size_t n = r.bytes / sizeof(E);
		for (size_t i = 0; i < n; ++i)
		{
			const E* e = reinterpret_cast<const E*>(r.base) + i;
			auto it = W().objs.find(e);
			if (i) blocks += " ";
			if (it == W().objs.end()) blocks += "R";
			else if (it->second.moved) blocks += "M";
			else blocks += "L" + std::to_string(**reinterpret_cast<int64_t* const*>(e));   // all kit elements: one int64_t* member
		}
		blocks += "]";
	}
	printf("%s%s | %s | %s\n", prefix.c_str(), out.c_str(), evs.c_str(), blocks.c_str());
}

static void cleanup_case()
{
	// clean slate: destroy whatever is still registered, forget the regions
	std::vector<const void*> left;
	for (auto& kv : W().objs) left.push_back(kv.first);
	for (const void* a : left) { delete *reinterpret_cast<int64_t* const*>(a); W().objs.erase(a); }
	W().errors.clear(); W().elog_reset();
	g_regs.clear(); g_top = 0;
}

template<typename E> static void run(const std::string& mech, size_t n, long k, std::istringstream& extra)
{
	typedef momo::internal::ObjectManager<E, AMM> OM;
	AMM mm;
	const char* outcome = "Ok";
	if (mech == "relcreate")
	{
		E* src = lives<E>(100, n); E* dst = block<E>(n + 1); E* arg = lives<E>(7, 1);
		begin_case(k);
		try { OM::RelocateCreate(mm, src, dst, n, typename OM::template Creator<const E&>(mm, *arg), dst + n); }
		catch (...) { outcome = "Exn"; }
	}
	else if (mech == "relrange")
	{
		E* src = lives<E>(100, n); E* dst = block<E>(n);
		begin_case(k);
		try { OM::Relocate(mm, src, dst, n); }
		catch (...) { outcome = "Exn"; }
	}
	else if (mech == "copyexec" || mech == "moveexec")
	{
		E* src = lives<E>(5, 1); E* dst = block<E>(2); E* arg = lives<E>(7, 1);
		begin_case(k);
		auto exec = [&mm, arg, dst] () { typename OM::template Creator<const E&>(mm, *arg)(dst + 1); };
		try
		{
			if (mech == "copyexec") OM::CopyExec(mm, *src, dst, exec);
			else OM::MoveExec(mm, std::move(*src), dst, exec);
		}
		catch (...) { outcome = "Exn"; }
	}
	else if (mech == "arrgrow")
	{
		size_t newcap = 0; extra >> newcap;
		typedef momo::Array<E, AMM, momo::ArrayItemTraits<E, AMM>, momo::ArraySettings<0, false>> Arr;
		{
			Arr a = Arr::CreateCap(n, AMM());
			for (size_t j = 0; j < n; ++j) a.AddBackNogrowVar(int64_t(100 + j));
			begin_case(k);
			try { a.Reserve(newcap); }
			catch (...) { outcome = "Exn"; }
			print_case<E>(outcome);
		}
		cleanup_case(); return;
	}
	else if (mech == "arraddback")
	{
		typedef momo::Array<E, AMM, momo::ArrayItemTraits<E, AMM>, momo::ArraySettings<0, false>> Arr;
		{
			E* arg = lives<E>(7, 1);
			Arr a = Arr::CreateCap(n, AMM());
			for (size_t j = 0; j < n; ++j) a.AddBackNogrowVar(int64_t(100 + j));
			begin_case(k);
			try { a.AddBackVar(static_cast<const E&>(*arg)); }
			catch (...) { outcome = "Exn"; }
			print_case<E>(outcome);
		}
		cleanup_case(); return;
	}
	else if (mech == "setcnt")
	{
		size_t cap = 0, newc = 0; extra >> cap >> newc;
		typedef momo::Array<E, AMM, momo::ArrayItemTraits<E, AMM>, momo::ArraySettings<0, false>> Arr;
		{
			E* arg = lives<E>(7, 1);
			Arr a = Arr::CreateCap(cap, AMM());
			for (size_t j = 0; j < n; ++j) a.AddBackNogrowVar(int64_t(100 + j));
			begin_case(k);
			try { a.SetCount(newc, static_cast<const E&>(*arg)); }
			catch (...) { outcome = "Exn"; }
			print_case<E>(outcome);
		}
		cleanup_case(); return;
	}
	else if (mech == "copyctor")
	{
		typedef momo::Array<E, AMM, momo::ArrayItemTraits<E, AMM>, momo::ArraySettings<0, false>> Arr;
		{
			Arr a = Arr::CreateCap(n, AMM());
			for (size_t j = 0; j < n; ++j) a.AddBackNogrowVar(int64_t(100 + j));
			begin_case(k);
			alignas(Arr) unsigned char buf[sizeof(Arr)]; Arr* b = nullptr;
			try { b = ::new(static_cast<void*>(buf)) Arr(a); }
			catch (...) { outcome = "Exn"; }
			print_case<E>(outcome);
			if (b) b->~Arr();
		}
		cleanup_case(); return;
	}
	else if (mech == "intshrink")
	{
		typedef momo::Array<E, AMM, momo::ArrayItemTraits<E, AMM>, momo::ArraySettings<4, false>> Arr;
		{
			Arr a{ AMM() };
			g_regs.push_back(Region{ reinterpret_cast<char*>(&a.mData.mInternalItems), 4 * sizeof(E), g_regs.size(), true });   // block 0 = internal buffer
			a.Reserve(8);
			for (size_t j = 0; j < n; ++j) a.AddBackNogrowVar(int64_t(100 + j));
			begin_case(k);
			try { a.Shrink(); }
			catch (...) { outcome = "Exn"; }
			std::string prefix = (std::string(outcome) == "Exn") ? "cap=" + std::to_string(a.GetCapacity()) + " " : std::string();
			print_case<E>(outcome, prefix);
		}
		cleanup_case(); return;
	}
	else { puts("?"); return; }
	print_case<E>(outcome);
	cleanup_case();
}


template<typename K, typename V> static void run_kv(const std::string& mech, long k, const std::string& opt)
{
	typedef momo::internal::MapKeyValueTraits<K, V, AMM> KVT;
	AMM mm; const char* outcome = "Ok";
	K* sk = lives<K>(5, 1); V* sv = lives<V>(6, 1);
	bool rep = (mech == "kvreplace" || mech == "kvreprel");
	K* dk = rep ? lives<K>(8, 1) : block<K>(1); V* dv = rep ? lives<V>(9, 1) : block<V>(1);
	K* ek = (mech == "kvreprel") ? block<K>(1) : nullptr; V* ev = (mech == "kvreprel") ? block<V>(1) : nullptr;
	begin_case(k);
	try
	{
		if (mech == "kvreloc") KVT::Relocate(&mm, *sk, *sv, dk, dv);
		else if (mech == "kvreplace") KVT::Replace(mm, *sk, *sv, *dk, *dv);
		else if (mech == "kvreprel") KVT::ReplaceRelocate(mm, *sk, *sv, *dk, *dv, ek, ev);
		else
		{
			typename KVT::template ValueCreator<const V&> vc(mm, static_cast<const V&>(*sv));
			if (opt == "m") KVT::Create(mm, std::move(*sk), std::move(vc), dk, dv);
			else KVT::Create(mm, static_cast<const K&>(*sk), std::move(vc), dk, dv);
		}
	}
	catch (...) { outcome = "Exn"; }
	print_case<K>(outcome);
	cleanup_case();
}
template<typename K> static void run_kv1(const std::string& mech, long k, const std::string& cv)
{
	if (mech == "kvcreate") { run_kv<K, kit::ElemCpo>(mech, k, cv); return; }     // value created by copy; cv = "m" | "c" selects Key&& / const Key&
	if (cv == "N") run_kv<K, kit::ElemNtm>(mech, k, cv);
	else if (cv == "C") run_kv<K, kit::ElemCpo>(mech, k, cv);
	else if (cv == "T") run_kv<K, kit::ElemThm>(mech, k, cv);
	else puts("?");
}

// ---- tree Relocator: a real TreeSet insert into a full root leaf (TreeNode<4, 2>, one memory-manager block per node) -------
struct PlainLess { template<typename A, typename B> bool operator()(const A& a, const B& b) const { return **reinterpret_cast<int64_t* const*>(&a) < **reinterpret_cast<int64_t* const*>(&b); } };

template<typename E> static void run_tree(size_t n, long k, size_t pos)
{
	typedef momo::TreeNode<4, 2, momo::MemPoolParams<1, 0>> TN;
	typedef momo::TreeTraitsStd<E, PlainLess, false, TN> TT;
	typedef momo::TreeSet<E, TT, AMM> Set;
	typedef typename Set::Node Node;
	const char* outcome = "Ok";
	{
		E* arg = lives<E>(10 * pos + 5, 1);      // region 0
		Set set{ TT(), AMM() };
		for (size_t j = 0; j < n; ++j) set.Insert(E(int64_t(10 * (j + 1))));
		size_t nreg0 = g_regs.size();
		const char* root = reinterpret_cast<const char*>(set.mRootNode);
		size_t leaf = ~size_t(0);
		for (auto& r : g_regs) if (r.live && root >= r.base && root < r.base + r.bytes) leaf = r.id;
		const size_t itemOff = Node::Params::itemOffset, intOff = Node::internalOffset, intSize = Node::Params::internalNodeSize;
		begin_case(k);
		try { set.Insert(static_cast<const E&>(*arg)); }
		catch (...) { outcome = "Exn"; }
		W().disarm(); W().elogging = false;
		auto rname = [&] (const Region& r) -> std::string
			{ if (r.id == 0) return "a"; if (r.id == leaf) return "o"; if (r.id >= nreg0) return "n" + std::to_string(r.id - nreg0); return "?" + std::to_string(r.id); };
		auto off = [&] (const Region& r) -> size_t { return r.id == 0 ? 0 : (r.bytes >= intSize ? intOff + itemOff : itemOff); };
		auto lname = [&] (const void* a) -> std::string
		{
			const char* p = static_cast<const char*>(a);
			for (auto it = g_regs.rbegin(); it != g_regs.rend(); ++it)
				if (p >= it->base && p < it->base + it->bytes) return rname(*it) + "." + std::to_string(size_t(p - it->base - off(*it)) / sizeof(E));
			return "s.0";
		};
		std::map<uint64_t, const void*> addr_of;
		for (auto& kv : W().slot_of) addr_of[kv.second] = kv.first;
		std::string out = W().errors.empty() ? std::string(outcome) : ("Stuck(" + W().errors[0] + ")"), evs, blocks;
		for (auto& e : W().elog)
		{
			std::string s;
			switch (e.kind)
			{
			case 'A': s = "A" + rname(g_regs[e.b]); break;
			case 'D': s = "D" + rname(g_regs[e.b]); break;
			case 'C': s = "C" + lname(addr_of[e.b]) + ">" + lname(addr_of[e.a]); break;
			case 'M': s = "M" + lname(addr_of[e.b]) + ">" + lname(addr_of[e.a]); break;
			case 'X': s = "X" + lname(addr_of[e.a]); break;
			case 'F': s = "F"; break;
			default: continue;
			}
			if (!evs.empty()) evs += " ";
			evs += s;
		}
		for (auto& r : g_regs)
		{
			if (!(r.id == 0 || r.id == leaf || r.id >= nreg0)) continue;
			if (!blocks.empty()) blocks += " ";
			if (!r.live) { blocks += rname(r) + "-"; continue; }
			blocks += rname(r) + "["; bool first = true;
			for (auto& kv : W().objs)
			{
				const char* p = static_cast<const char*>(kv.first);
				if (p < r.base || p >= r.base + r.bytes) continue;
				if (!first) blocks += " ";
				first = false;
				blocks += std::to_string(size_t(p - r.base - off(r)) / sizeof(E)) + ":" + (kv.second.moved ? std::string("M") : "L" + std::to_string(**reinterpret_cast<int64_t* const*>(kv.first)));
			}
			blocks += "]";
		}
		printf("%s | %s | %s\n", out.c_str(), evs.c_str(), blocks.c_str());
	}
	cleanup_case();
}

// ---- TreeNode::Remove on a real continuous node with a remover that may throw (TreeNode.h:332-347) -------------------------
template<typename E> static void run_noderemove(size_t n, long k, size_t index)
{
	typedef momo::TreeNode<4, 2, momo::MemPoolParams<1, 0>> TN;
	typedef momo::TreeTraitsStd<E, PlainLess, false, TN> TT;
	typedef momo::TreeSet<E, TT, AMM> Set;
	typedef typename Set::Node Node;
	const char* outcome = "Ok";
	{
		E* ext = block<E>(1);                     // region 0: where the remover copies the removed item to
		Set set{ TT(), AMM() };
		for (size_t j = 0; j < n; ++j) set.Insert(E(int64_t(10 * (j + 1))));
		Node* node = set.mRootNode;
		size_t leaf = ~size_t(0);
		for (auto& r : g_regs) if (r.live && reinterpret_cast<const char*>(node) >= r.base && reinterpret_cast<const char*>(node) < r.base + r.bytes) leaf = r.id;
		const size_t itemOff = Node::Params::itemOffset;
		auto remover = [ext] (E& item) { ::new(static_cast<void*>(ext)) E(static_cast<const E&>(item)); item.~E(); };
		begin_case(k);
		try { node->Remove(*set.mNodeParams, index, remover); --set.mCount; }
		catch (...) { outcome = "Exn"; }
		W().disarm(); W().elogging = false;
		auto lname = [&] (const void* a) -> std::string
		{
			const char* p = static_cast<const char*>(a);
			if (p >= g_regs[0].base && p < g_regs[0].base + g_regs[0].bytes) return "a.0";
			const Region& r = g_regs[leaf];
			if (p >= r.base && p < r.base + r.bytes) return "o." + std::to_string(size_t(p - r.base - itemOff) / sizeof(E));
			return "s.0";
		};
		std::map<uint64_t, const void*> addr_of;
		for (auto& kv : W().slot_of) addr_of[kv.second] = kv.first;
		std::string out = W().errors.empty() ? std::string(outcome) : ("Stuck(" + W().errors[0] + ")"), evs, blocks;
		for (auto& e : W().elog)
		{
			std::string s;
			switch (e.kind)
			{
			case 'C': s = "C" + lname(addr_of[e.b]) + ">" + lname(addr_of[e.a]); break;
			case 'M': s = "M" + lname(addr_of[e.b]) + ">" + lname(addr_of[e.a]); break;
			case 'X': s = "X" + lname(addr_of[e.a]); break;
			case 'F': s = "F"; break;
			default: continue;
			}
			if (!evs.empty()) evs += " ";
			evs += s;
		}
		for (size_t rid : { size_t(0), leaf })
		{
			const Region& r = g_regs[rid];
			if (!blocks.empty()) blocks += " ";
			blocks += (rid == 0 ? "a[" : "o["); bool first = true;
			for (auto& kv : W().objs)
			{
				const char* p = static_cast<const char*>(kv.first);
				if (p < r.base || p >= r.base + r.bytes) continue;
				if (!first) blocks += " ";
				first = false;
				blocks += std::to_string(size_t(p - r.base - (rid == 0 ? 0 : itemOff)) / sizeof(E)) + ":" + (kv.second.moved ? std::string("M") : "L" + std::to_string(**reinterpret_cast<int64_t* const*>(kv.first)));
			}
			blocks += "]";
		}
		printf("%s | %s | %s\n", out.c_str(), evs.c_str(), blocks.c_str());
		if (ext && W().objs.count(ext)) ext->~E();
	}
	cleanup_case();
}

// ---- BucketLimP4::AddCrt into a block that still has a free slot (details/HashBucketLimP4.h:345-353) ---------------------
template<typename E> static void run_bucketadd(size_t n, long k)
{
	typedef momo::HashSetItemTraits<E, AMM> IT;
	typedef momo::internal::HashSetBucketItemTraits<IT> BIT;
	typedef momo::internal::BucketLimP4<BIT, 4, momo::MemPoolParams<1, 0>, false> Bucket;
	const char* outcome = "Ok";
	{
		E* arg = lives<E>(7, 1);                 // region 0
		AMM mm;
		typename Bucket::Params params(mm);
		Bucket bucket;
		for (size_t j = 0; j <= n; ++j)          // n + 1 items: the block has capacity n + 1 ...
		{
			auto crt = [j] (E* p) { ::new(static_cast<void*>(p)) E(int64_t(100 + j)); };
			bucket.AddCrt(params, crt, size_t(j) << 56, 3, 0);
		}
		{	// ... then remove the last one: n items, one free slot
			auto bounds = bucket.GetBounds(params);
			E* last = bounds.GetBegin() + n;
			bucket.Remove(params, last, [] (E& src, E& /*dst*/) { src.~E(); });
		}
		const char* items = reinterpret_cast<const char*>(bucket.GetBounds(params).GetBegin());
		size_t blk = ~size_t(0);
		for (auto& r : g_regs) if (r.live && items >= r.base && items < r.base + r.bytes) blk = r.id;
		begin_case(k);
		try
		{
			auto crt = [arg] (E* p) { ::new(static_cast<void*>(p)) E(static_cast<const E&>(*arg)); };
			bucket.AddCrt(params, crt, size_t(9) << 56, 3, 0);
		}
		catch (...) { outcome = "Exn"; }
		W().disarm(); W().elogging = false;
		size_t cnt = bucket.GetBounds(params).GetCount();
		auto lname = [&] (const void* a) -> std::string
		{
			const char* p = static_cast<const char*>(a);
			if (p >= g_regs[0].base && p < g_regs[0].base + g_regs[0].bytes) return "a.0";
			const Region& r = g_regs[blk];
			if (p >= r.base && p < r.base + r.bytes) return "o." + std::to_string(size_t(p - items) / sizeof(E));
			return "?";
		};
		std::map<uint64_t, const void*> addr_of;
		for (auto& kv : W().slot_of) addr_of[kv.second] = kv.first;
		std::string out = W().errors.empty() ? std::string(outcome) : ("Stuck(" + W().errors[0] + ")"), evs, blocks;
		for (auto& e : W().elog)
		{
			std::string s;
			switch (e.kind)
			{
			case 'A': s = "A?"; break;
			case 'D': s = "D?"; break;
			case 'C': s = "C" + lname(addr_of[e.b]) + ">" + lname(addr_of[e.a]); break;
			case 'M': s = "M" + lname(addr_of[e.b]) + ">" + lname(addr_of[e.a]); break;
			case 'X': s = "X" + lname(addr_of[e.a]); break;
			case 'F': s = "F"; break;
			default: continue;
			}
			if (!evs.empty()) evs += " ";
			evs += s;
		}
		for (size_t rid : { size_t(0), blk })
		{
			const Region& r = g_regs[rid];
			if (!blocks.empty()) blocks += " ";
			blocks += (rid == 0 ? "a[" : "o["); bool first = true;
			for (auto& kv : W().objs)
			{
				const char* p = static_cast<const char*>(kv.first);
				if (p < r.base || p >= r.base + r.bytes) continue;
				if (!first) blocks += " ";
				first = false;
				blocks += std::to_string(size_t(p - (rid == 0 ? r.base : items)) / sizeof(E)) + ":L" + std::to_string(**reinterpret_cast<int64_t* const*>(kv.first));
			}
			blocks += "]";
		}
		printf("cnt=%zu %s | %s | %s\n", cnt, out.c_str(), evs.c_str(), blocks.c_str());
		// tidy up: the bucket does not own its items
		{
			std::vector<const void*> in;
			for (auto& kv : W().objs) { const char* p = static_cast<const char*>(kv.first); if (p >= g_regs[blk].base && p < g_regs[blk].base + g_regs[blk].bytes) in.push_back(kv.first); }
			for (const void* a : in) const_cast<E*>(static_cast<const E*>(a))->~E();
		}
		bucket.Clear(params);
	}
	cleanup_case();
}

// ---- HashSet::pvAddGrow, first insertion into a set without buckets (table + BucketParams + item block) -----------------
struct PlainHash { template<typename T> size_t operator()(const T& t) const { return size_t(**reinterpret_cast<int64_t* const*>(&t)); } };
struct PlainEq { template<typename A, typename B> bool operator()(const A& a, const B& b) const { return **reinterpret_cast<int64_t* const*>(&a) == **reinterpret_cast<int64_t* const*>(&b); } };
template<typename E> static void run_hashfirst(long k)
{
	typedef momo::HashTraitsStd<E, PlainHash, PlainEq, momo::HashBucketLimP4<4, momo::MemPoolParams<1, 0>>> HT;
	typedef momo::HashSet<E, HT, AMM> Set;
	const char* outcome = "Ok";
	{
		E* arg = lives<E>(7, 1);            // region 0
		Set set{ HT(), AMM() };
		begin_case(k);
		try { set.Insert(static_cast<const E&>(*arg)); }
		catch (...) { outcome = "Exn"; }
		W().disarm(); W().elogging = false;
		std::map<uint64_t, const void*> addr_of;
		for (auto& kv : W().slot_of) addr_of[kv.second] = kv.first;
		std::string out = W().errors.empty() ? std::string(outcome) : ("Stuck(" + W().errors[0] + ")"), evs, blocks;
		for (auto& e : W().elog)
		{
			std::string s;
			switch (e.kind)
			{
			case 'A': s = "A" + std::to_string(e.b); break;
			case 'D': s = "D" + std::to_string(e.b); break;
			case 'C': s = "C" + locname<E>(addr_of[e.b]) + ">" + locname<E>(addr_of[e.a]); break;
			case 'M': s = "M" + locname<E>(addr_of[e.b]) + ">" + locname<E>(addr_of[e.a]); break;
			case 'X': s = "X" + locname<E>(addr_of[e.a]); break;
			case 'F': s = "F"; break;
			default: continue;
			}
			if (!evs.empty()) evs += " ";
			evs += s;
		}
		for (auto& r : g_regs) { if (!blocks.empty()) blocks += " "; blocks += "b" + std::to_string(r.id) + (r.live ? "+" : "-"); }
		printf("%s | %s | %s\n", out.c_str(), evs.c_str(), blocks.c_str());
	}
	cleanup_case();
}

// ---- BucketOpenN1::AddCrt / BucketOpen2N2::AddCrt (items inline in the bucket; metadata after the creator) ---------------
#include "momo/details/HashBucketOpenN1.h"
#include "momo/details/HashBucketOpen2N2.h"
template<typename E, typename Bucket> static void run_openadd_b(size_t n, long k)
{
	const char* outcome = "Ok";
	{
		E* arg = lives<E>(7, 1);
		AMM mm;
		typename Bucket::Params params(mm);
		alignas(Bucket) static unsigned char buf[sizeof(Bucket)];
		Bucket* bucket = ::new(static_cast<void*>(buf)) Bucket();      // never destroyed (its destructor asserts count == 0)
		for (size_t j = 0; j < n; ++j)
		{
			auto crt = [j] (E* p) { ::new(static_cast<void*>(p)) E(int64_t(100 + j)); };
			bucket->AddCrt(params, crt, size_t(j) << 56, 3, 0);
		}
		begin_case(k);
		try
		{
			auto crt = [arg] (E* p) { ::new(static_cast<void*>(p)) E(static_cast<const E&>(*arg)); };
			bucket->AddCrt(params, crt, size_t(9) << 56, 3, 0);
		}
		catch (...) { outcome = "Exn"; }
		W().disarm(); W().elogging = false;
		size_t cnt = bucket->GetBounds(params).GetCount();
		std::string out = W().errors.empty() ? std::string(outcome) : ("Stuck(" + W().errors[0] + ")"), evs, vals;
		for (auto& e : W().elog)
		{
			if (e.kind != 'C' && e.kind != 'M' && e.kind != 'X' && e.kind != 'F') continue;
			if (!evs.empty()) evs += " ";
			evs += std::string(1, e.kind);
		}
		std::vector<int64_t> vs;
		for (auto& kv : W().objs) if (kv.first != arg) vs.push_back(**reinterpret_cast<int64_t* const*>(kv.first));
		std::sort(vs.begin(), vs.end());
		for (int64_t v : vs) { if (!vals.empty()) vals += " "; vals += std::to_string(v); }
		printf("cnt=%zu %s | %s | %s\n", cnt, out.c_str(), evs.c_str(), vals.c_str());
	}
	cleanup_case();
}
template<typename E> static void run_openadd(const std::string& kind, size_t n, long k)
{
	typedef momo::HashSetItemTraits<E, AMM> IT;
	typedef momo::internal::HashSetBucketItemTraits<IT> BIT;
	if (kind == "n1") run_openadd_b<E, momo::internal::BucketOpenN1<BIT, 4, false>>(n, k);
	else if (kind == "n1r") run_openadd_b<E, momo::internal::BucketOpenN1<BIT, 4, true>>(n, k);
	else if (kind == "o2") run_openadd_b<E, momo::internal::BucketOpen2N2<BIT, 3, true>>(n, k);
	else puts("?");
}

// ---- translator validation for the cxx2coq-generated AddCrt / Remove (Gen_OpenN1_exn.v, Gen_Open2N2_exn.v): the REAL bucket with
//      its bytes set directly, a functor that throws or not; output = completed flag + every byte afterwards -------------------
typedef momo::HashSetItemTraits<uint64_t, momo::MemManagerDefault> GenIT;
template<bool REV> static void run_gen_n1(const std::string& op, const std::vector<unsigned>& by, uint64_t hash, bool fails, size_t index)
{
	typedef momo::internal::BucketOpenN1<GenIT, 3, REV> B;
	alignas(B) static unsigned char buf[sizeof(B)];
	B* b = ::new(static_cast<void*>(buf)) B();
	for (size_t i = 0; i < 4; ++i) b->mData[i] = uint8_t(by[i]);
	momo::MemManagerDefault mm; typename B::Params params(mm);
	int completed = 1;
	try
	{
		if (op == "add") b->AddCrt(params, [fails] (uint64_t* p) { if (fails) throw 1; *p = 0; }, size_t(hash), 0, 0);
		else b->Remove(params, b->pvMakeIterator(b->ptGetItemPtr(index)), [fails] (uint64_t&, uint64_t&) { if (fails) throw 1; });
	}
	catch (int) { completed = 0; }
	printf("%d %u %u %u %u\n", completed, unsigned(b->mData[0]), unsigned(b->mData[1]), unsigned(b->mData[2]), unsigned(b->mData[3]));
}
static void run_gen_o2(const std::string& op, const std::vector<unsigned>& by, uint64_t hash, bool fails, size_t index, size_t logbc, size_t probe)
{
	typedef momo::internal::BucketOpen2N2<GenIT, 3, true> B;
	alignas(B) static unsigned char buf[sizeof(B)];
	B* b = ::new(static_cast<void*>(buf)) B();
	b->mState[0] = uint8_t(by[0]); b->mState[1] = uint8_t(by[1]);
	for (size_t i = 0; i < 3; ++i) { b->mHashData.shortHashes[i] = uint8_t(by[2 + i]); b->mHashData.hashProbes[i] = uint8_t(by[5 + i]); }
	momo::MemManagerDefault mm; typename B::Params params(mm);
	int completed = 1;
	try
	{
		if (op == "add") b->AddCrt(params, [fails] (uint64_t* p) { if (fails) throw 1; *p = 0; }, size_t(hash), logbc, probe);
		else b->Remove(params, typename B::Iterator(&b->mItems + index + 1), [fails] (uint64_t&, uint64_t&) { if (fails) throw 1; });
	}
	catch (int) { completed = 0; }
	printf("%d %u %u %u %u %u %u %u %u\n", completed, unsigned(b->mState[0]), unsigned(b->mState[1]), unsigned(b->mHashData.shortHashes[0]), unsigned(b->mHashData.shortHashes[1]),
		unsigned(b->mHashData.shortHashes[2]), unsigned(b->mHashData.hashProbes[0]), unsigned(b->mHashData.hashProbes[1]), unsigned(b->mHashData.hashProbes[2]));
}

// ---- the same for the generated BucketLimP4<.., 4, .., true>::AddCrt (Gen_LimP4_exn.v): bytes AND pointer state set directly (the
//      pointer is a real block of the pool `mpi`), failure = the memory manager under the pools throws (f = 1) or the creator throws
//      (f = 2).  Output: completed flag, every short-hash / probe byte, the state bits, "pointer changed", and the number of blocks
//      the four pools have handed out (one per non-empty bucket: a block allocated by the BucketMemory guard was given back). -----------
static bool g_p4_fail_alloc = false; static long g_fail_live = 0;
template<size_t bits> class FailMM      // NOTE: momo ignores this member (MemManagerProxy matches decltype(..) == size_t, a `static const size_t`
                                        // has type const size_t), so hashCount is 4 for every manager unless MOMO_MEM_MANAGER_PTR_USEFUL_BIT_COUNT is set
{
public:
	static const size_t ptrUsefulBitCount = bits;
	explicit FailMM() noexcept {}
	FailMM(FailMM&&) noexcept {}
	FailMM(const FailMM&) noexcept {}
	~FailMM() noexcept {}
	FailMM& operator=(const FailMM&) = delete;
	void* Allocate(size_t size) { if (g_p4_fail_alloc) throw std::bad_alloc(); ++g_fail_live; return std::malloc(size); }
	void Deallocate(void* ptr, size_t /*size*/) noexcept { --g_fail_live; std::free(ptr); }
	bool IsEqual(const FailMM&) const noexcept { return true; }
};
template<typename FailMM> static void run_gen_p4(const std::vector<unsigned>& by, uint64_t hash, unsigned fmode, size_t mpi, size_t logbc, size_t probe, bool nonnull)
{
	typedef momo::HashSetItemTraits<uint64_t, FailMM> IT;
	typedef momo::internal::BucketLimP4<IT, 4, momo::MemPoolParams<>, true> B;
	alignas(B) static unsigned char buf[sizeof(B)];
	B* b = ::new(static_cast<void*>(buf)) B();
	FailMM mm; typename B::Params params(mm);
	g_p4_fail_alloc = false;
	uint64_t* items = nullptr;
	if (nonnull)
		switch (mpi)
		{
		case 1: items = params.template GetMemPool<1>().template Allocate<uint64_t>(); break;
		case 2: items = params.template GetMemPool<2>().template Allocate<uint64_t>(); break;
		case 3: items = params.template GetMemPool<3>().template Allocate<uint64_t>(); break;
		default: items = params.template GetMemPool<4>().template Allocate<uint64_t>(); break;
		}
	for (size_t i = 0; i < B::hashCount; ++i) b->mShortHashes[i] = uint8_t(by[i]);
	b->mPtrState.Set(items, uint8_t(mpi - 1));
	int completed = 1;
	g_p4_fail_alloc = (fmode == 1);
	try { b->AddCrt(params, [fmode] (uint64_t* p) { if (fmode == 2) throw 1; *p = 0; }, size_t(hash), logbc, probe); }
	catch (int) { completed = 0; }
	catch (const std::bad_alloc&) { completed = 0; }
	g_p4_fail_alloc = false;
	size_t blocks = params.template GetMemPool<1>().GetAllocateCount() + params.template GetMemPool<2>().GetAllocateCount()
		+ params.template GetMemPool<3>().GetAllocateCount() + params.template GetMemPool<4>().GetAllocateCount();
	printf("hc=%zu min=%zu %d", size_t(B::hashCount), size_t(B::minMemPoolIndex), completed);
	for (size_t i = 0; i < B::hashCount; ++i) printf(" %u", unsigned(b->mShortHashes[i]));
	printf(" st=%u chg=%d blocks=%zu\n", unsigned(b->mPtrState.GetState()), int(b->mPtrState.GetPointer() != items), blocks);
	b->Clear(params);
}

// ---- generated Array<.., ArraySettings<4>>::Data::Reset / pvReset (Gen_ArrReset_exn.v): a real array made external (capacity cap0, cnt0
//      items), then the REAL Data::Reset(capacity, count, creator) with a creator that writes w items of value v into the buffer it is given
//      (for capacity <= 4 that is the internal buffer, which shares a union with mCapacity) and then throws (f = 1); f = 2: the memory
//      manager throws.  Output: completed, where mItems points (same / internal / new), mCount, the capacity the array reports, live blocks.
static void run_gen_rst(unsigned f, size_t cap0, size_t cnt0, size_t capacity, size_t count, unsigned w, uint64_t v)
{
	typedef FailMM<64> MM;
	typedef momo::Array<uint64_t, MM, momo::ArrayItemTraits<uint64_t, MM>, momo::ArraySettings<4>> Arr;
	g_p4_fail_alloc = false; g_fail_live = 0;
	{
		Arr a;
		a.mData.Reset(cap0, 0, [] (uint64_t*) {}); a.SetCount(cnt0, uint64_t(5));   // exactly cap0, external (cap0 > 4)
		const uint64_t* before = a.mData.mItems; size_t realCap0 = a.GetCapacity();
		bool wasInternal = a.mData.pvIsInternal();
		int completed = 1;
		g_p4_fail_alloc = (f == 2);
		try { a.mData.Reset(capacity, count, [f, w, v] (uint64_t* p) { for (unsigned i = 0; i < w; ++i) p[i] = v; if (f == 1) throw 1; }); }
		catch (int) { completed = 0; }
		catch (const std::bad_alloc&) { completed = 0; }
		g_p4_fail_alloc = false;
		const char* where = a.mData.pvIsInternal() ? "internal" : (a.mData.mItems == before ? "same" : "new");
		printf("cap0=%zu wasint=%d %d %s cnt=%zu cap=%zu blocks=%ld\n", realCap0, int(wasInternal), completed, where, a.GetCount(), a.GetCapacity(), g_fail_live);
	}
}

// ---- generated HashSet / TreeSet ::pvExtraCheck (Gen_XCheckH.v / Gen_XCheckT.v): the REAL private member on a real container of 40 keys whose
//      hash / less functor throws (f = 1) or has become inconsistent with the one used at insertion (mode = 1: the honest answer is false) ------
static int g_xc_mode = 0; static bool g_xc_throw = false;
struct XcHashTraits : public momo::HashTraits<int>
{
	size_t GetHashCode(const int& k) const { if (g_xc_throw) throw 1; return g_xc_mode ? size_t(k) * 0x9E3779B97F4A7C15ull + 12345 : size_t(k); }
};
struct XcTreeTraits : public momo::TreeTraits<int>
{
	bool IsLess(const int& a, const int& b) const { if (g_xc_throw) throw 1; return g_xc_mode ? b < a : a < b; }
};
static void run_gen_xc(const std::string& kind, unsigned f, unsigned mode)
{
	g_xc_mode = 0; g_xc_throw = false;
	bool r;
	if (kind == "h")
	{
		momo::HashSet<int, XcHashTraits> set;
		for (int i = 0; i < 40; ++i) set.Insert(i);
		auto pos = set.Find(5);
		g_xc_mode = int(mode); g_xc_throw = (f == 1);
		r = set.pvExtraCheck(pos);
		g_xc_mode = 0; g_xc_throw = false;
	}
	else
	{
		momo::TreeSet<int, XcTreeTraits> set;
		for (int i = 0; i < 40; ++i) set.Insert(i);
		auto iter = set.Find(5);
		g_xc_mode = int(mode); g_xc_throw = (f == 1);
		r = set.pvExtraCheck(iter);
		g_xc_mode = 0; g_xc_throw = false;
	}
	printf("check=%d\n", int(r));
}

int main()
{
	g_arena = static_cast<char*>(std::malloc(ARENA));
	std::string line;
	while (std::getline(std::cin, line))
	{
		std::istringstream is(line); std::string mech, cat; size_t n = 0; long k = -1;
		is >> mech >> cat >> n >> k;
		if (mech == "genxc")
		{	// genxc - 0 0 <h|t> <f 0|1> <mode 0|1>
			std::string kind; unsigned f = 0, mode = 0; is >> kind >> f >> mode;
			run_gen_xc(kind, f, mode); fflush(stdout); continue;
		}
		if (mech == "genrst")
		{	// genrst - 0 0 rst <f 0|1|2> <cap0> <cnt0> <capacity> <count> <w> <v>
			std::string op; unsigned f = 0, w = 0; size_t cap0 = 0, cnt0 = 0, capacity = 0, count = 0; uint64_t v = 0;
			is >> op >> f >> cap0 >> cnt0 >> capacity >> count >> w >> v;
			run_gen_rst(f, cap0, cnt0, capacity, count, w, v); fflush(stdout); continue;
		}
		if (mech == "genp4")
		{	// genp4 - 0 <hashCount 4|6> add <fmode 0|1|2> <hash> <mpi> <logbc> <probe> <nonnull 0|1> <bytes...>
			std::string op; unsigned f = 0, nn = 0; uint64_t hash = 0; size_t mpi = 0, logbc = 0, probe = 0; is >> op >> f >> hash >> mpi >> logbc >> probe >> nn;
			std::vector<unsigned> by; unsigned x; while (is >> x) by.push_back(x);
			by.resize(8, 255);
			if (k == 4) run_gen_p4<FailMM<64>>(by, hash, f, mpi, logbc, probe, nn != 0); else run_gen_p4<FailMM<48>>(by, hash, f, mpi, logbc, probe, nn != 0);
			fflush(stdout); continue;
		}
		if (mech == "genn1" || mech == "geno2")
		{	// gen?? <op add|rem> <fails 0|1> <hash> <index> <logbc> <probe> <bytes...>     (cat / n / k fields are unused: "-" 0 0)
			std::string op; unsigned f = 0; uint64_t hash = 0; size_t index = 0, logbc = 0, probe = 0; is >> op >> f >> hash >> index >> logbc >> probe;
			std::vector<unsigned> by; unsigned x; while (is >> x) by.push_back(x);
			if (mech == "genn1") { by.resize(5, 0); if (by[4]) run_gen_n1<true>(op, by, hash, f != 0, index); else run_gen_n1<false>(op, by, hash, f != 0, index); }
			else { by.resize(8, 0); run_gen_o2(op, by, hash, f != 0, index, logbc, probe); }
			fflush(stdout); continue;
		}
		if (mech == "openadd")
		{
			std::string kind; is >> kind;
			if (cat == "N") run_openadd<kit::ElemNtm>(kind, n, k); else if (cat == "C") run_openadd<kit::ElemCpo>(kind, n, k); else if (cat == "T") run_openadd<kit::ElemThm>(kind, n, k); else puts("?");
			fflush(stdout); continue;
		}
		if (mech == "hashfirst")
		{
			if (cat == "N") run_hashfirst<kit::ElemNtm>(k); else if (cat == "C") run_hashfirst<kit::ElemCpo>(k); else if (cat == "T") run_hashfirst<kit::ElemThm>(k); else puts("?");
			fflush(stdout); continue;
		}
		if (mech == "bucketadd")
		{
			if (cat == "N") run_bucketadd<kit::ElemNtm>(n, k); else if (cat == "C") run_bucketadd<kit::ElemCpo>(n, k); else if (cat == "T") run_bucketadd<kit::ElemThm>(n, k); else puts("?");
			fflush(stdout); continue;
		}
		if (mech == "noderemove")
		{
			size_t index = 0; is >> index;
			if (cat == "N") run_noderemove<kit::ElemNtm>(n, k, index); else puts("?");
			fflush(stdout); continue;
		}
		if (mech == "treeins")
		{
			size_t pos = 0; is >> pos;
			if (cat == "N") run_tree<kit::ElemNtm>(n, k, pos); else if (cat == "C") run_tree<kit::ElemCpo>(n, k, pos); else if (cat == "T") run_tree<kit::ElemThm>(n, k, pos); else puts("?");
			fflush(stdout); continue;
		}
		if (mech == "kvreloc" || mech == "kvcreate" || mech == "kvreplace" || mech == "kvreprel")
		{
			std::string cv; is >> cv;
			if (cat == "N") run_kv1<kit::ElemNtm>(mech, k, cv); else if (cat == "C") run_kv1<kit::ElemCpo>(mech, k, cv); else if (cat == "T") run_kv1<kit::ElemThm>(mech, k, cv); else puts("?");
			fflush(stdout); continue;
		}
		if (cat == "N") run<kit::ElemNtm>(mech, n, k, is);
		else if (cat == "C") run<kit::ElemCpo>(mech, n, k, is);
		else if (cat == "T") run<kit::ElemThm>(mech, n, k, is);
		else puts("?");
		fflush(stdout);
	}
	return 0;
}
