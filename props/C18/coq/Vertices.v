(* C18 -- facts about the GENERATED GetVertices (Gen_Vertices.v): both vertices are inside the vertex array
   and they are different (no self loops), for every logVertexCount 4..15, every code, every code parameter. *)
From Coq Require Import ZArith Bool List Lia.
From MomoCommon Require Import GenPrelude.
From C18 Require Import Gen_Vertices.
Local Open Scope Z_scope.

Lemma lxor_lt_pow2 a b n : 0 < n -> 0 <= a < 2 ^ n -> 0 <= b < 2 ^ n -> 0 <= Z.lxor a b < 2 ^ n.
Proof.
  intros Hn Ha Hb.
  assert (H0 : 0 <= Z.lxor a b) by (apply Z.lxor_nonneg; lia).
  split; [exact H0|].
  destruct (Z.eq_dec (Z.lxor a b) 0) as [->|Hne]; [apply Z.pow_pos_nonneg; lia|].
  apply Z.log2_lt_pow2; [lia|].
  pose proof (Z.log2_lxor a b ltac:(lia) ltac:(lia)) as Hl.
  assert (Z.log2 a < n).
  { destruct (Z.eq_dec a 0) as [->|]; [simpl; lia|]. apply Z.log2_lt_pow2; lia. }
  assert (Z.log2 b < n).
  { destruct (Z.eq_dec b 0) as [->|]; [simpl; lia|]. apply Z.log2_lt_pow2; lia. }
  lia.
Qed.

Lemma lxor_1_neq v : Z.lxor v 1 <> v.
Proof.
  intros H. assert (E : Z.lxor v (Z.lxor v 1) = Z.lxor v v) by (rewrite H; reflexivity).
  rewrite <- Z.lxor_assoc, Z.lxor_nilpotent, Z.lxor_0_l in E. discriminate.
Qed.

Lemma GetVertices_range L code cp : 4 <= L <= 15 -> 0 <= cp <= maxCodeParam ->
  0 <= fst (GetVertices L code cp) < 2 ^ L /\ 0 <= snd (GetVertices L code cp) < 2 ^ L /\
  fst (GetVertices L code cp) <> snd (GetVertices L code cp).
Proof.
  intros HL Hcp. unfold maxCodeParam in Hcp. unfold GetVertices. cbv zeta.
  match goal with |- context [Z.land ?s (wrapU 64 (wrapU 64 (Z.shiftl 1 L) - 1))] => generalize s end.
  intros s.
  assert (P : 16 <= 2 ^ L) by (change 16 with (2 ^ 4); apply Z.pow_le_mono_r; lia).
  assert (P2 : 2 ^ L <= 2 ^ 15) by (apply Z.pow_le_mono_r; lia).
  assert (EM : wrapU 64 (wrapU 64 (Z.shiftl 1 L) - 1) = Z.ones L).
  { rewrite Z.shiftl_1_l. rewrite (wrapU_small 64 (2 ^ L)) by lia. rewrite wrapU_small by lia.
    rewrite Z.ones_equiv. lia. }
  rewrite EM. rewrite !Z.land_ones by lia.
  change 15 with (Z.ones 4). rewrite Z.land_ones by lia.
  rewrite Z.shiftr_div_pow2 by lia.
  pose proof (Z.mod_pos_bound s (2 ^ L) ltac:(lia)) as B1.
  pose proof (Z.mod_pos_bound (Z.shiftr s L) (2 ^ L) ltac:(lia)) as B2.
  pose proof (Z.mod_pos_bound cp (2 ^ 4) ltac:(lia)) as B3.
  assert (B4 : 0 <= cp / 2 ^ 4 < 16).
  { split; [apply Z.div_pos; lia|]. apply Z.div_lt_upper_bound; lia. }
  set (v1 := Z.lxor (s mod 2 ^ L) (cp / 2 ^ 4)).
  set (v2 := Z.lxor (Z.shiftr s L mod 2 ^ L) (cp mod 2 ^ 4)).
  assert (L0 : 0 < L) by lia.
  assert (B3' : 0 <= cp mod 2 ^ 4 < 2 ^ L).
  { split; [apply B3|]. eapply Z.lt_le_trans; [apply B3|exact P]. }
  assert (B4' : 0 <= cp / 2 ^ 4 < 2 ^ L).
  { split; [apply B4|]. eapply Z.lt_le_trans; [apply B4|exact P]. }
  assert (H1 : 0 <= v1 < 2 ^ L) by (apply lxor_lt_pow2; assumption).
  assert (H2 : 0 <= v2 < 2 ^ L) by (apply lxor_lt_pow2; assumption).
  assert (B5 : 0 <= 1 < 2 ^ L) by (clear - P; lia).
  clearbody v1 v2. clear B1 B2 B3 B4 B3' B4' EM.
  simpl fst; simpl snd.
  destruct (Z.eqb_spec v1 v2) as [E|E].
  - rewrite (wrapU_small 64 1) by lia. split; [exact H1|]. split.
    + apply lxor_lt_pow2; assumption.
    + rewrite E. intros H. symmetry in H. exact (lxor_1_neq v2 H).
  - rewrite (wrapU_small 64 0) by lia. rewrite Z.lxor_0_r. auto.
Qed.

(* ---------- only 16 of the code parameters are different ----------
   For codeParam = 16 p + q (p, q < 16) the two vertices are those of parameter (p xor q), both relabelled by `xor p`.
   (v |-> v xor p is a bijection of the vertex set, so the whole graph for (p, q) is isomorphic to the one for (0, p xor q):
   a cycle for one is a cycle for the other.)  Recorded as an observation about momo's parameterisation, see NOTES.md. *)
Lemma GetVertices_param_xor L code p q : 4 <= L <= 15 -> 0 <= p < 16 -> 0 <= q < 16 ->
  GetVertices L code (16 * p + q) =
  (Z.lxor (fst (GetVertices L code (Z.lxor p q))) p, Z.lxor (snd (GetVertices L code (Z.lxor p q))) p).
Proof.
  intros HL Hp Hq. unfold GetVertices. cbv zeta.
  match goal with |- context [Z.land ?s (wrapU 64 (wrapU 64 (Z.shiftl 1 L) - 1))] => generalize s end.
  intros s.
  set (m := wrapU 64 (wrapU 64 (Z.shiftl 1 L) - 1)).
  assert (Hd : 0 <= Z.lxor p q < 16).
  { change 16 with (2 ^ 4). apply lxor_lt_pow2; simpl; lia. }
  assert (E1 : Z.shiftr (16 * p + q) 4 = p).
  { rewrite Z.shiftr_div_pow2 by lia. change (2 ^ 4) with 16. symmetry. apply (Z.div_unique _ 16 p q); lia. }
  assert (E2 : Z.land (16 * p + q) 15 = q).
  { change 15 with (Z.ones 4). rewrite Z.land_ones by lia. change (2 ^ 4) with 16. symmetry. apply (Z.mod_unique _ 16 p q); lia. }
  assert (E3 : Z.shiftr (Z.lxor p q) 4 = 0).
  { rewrite Z.shiftr_div_pow2 by lia. apply Z.div_small. simpl; lia. }
  assert (E4 : Z.land (Z.lxor p q) 15 = Z.lxor p q).
  { change 15 with (Z.ones 4). rewrite Z.land_ones by lia. apply Z.mod_small. simpl; lia. }
  rewrite E1, E2, E3, E4. rewrite Z.lxor_0_r.
  set (s1 := Z.land s m). set (s2 := Z.land (Z.shiftr s L) m).
  cbn [fst snd].
  assert (X : Z.lxor s2 q = Z.lxor (Z.lxor s2 (Z.lxor p q)) p).
  { apply Z.bits_inj'. intros n Hn. rewrite !Z.lxor_spec.
    destruct (Z.testbit s2 n), (Z.testbit p n), (Z.testbit q n); reflexivity. }
  set (w := Z.lxor s2 (Z.lxor p q)) in *.
  assert (C : Z.eqb (Z.lxor s1 p) (Z.lxor s2 q) = Z.eqb s1 w).
  { rewrite X. destruct (Z.eqb_spec s1 w) as [->|N]; [apply Z.eqb_refl|].
    apply Z.eqb_neq. intros H. apply N.
    assert (H' : Z.lxor (Z.lxor s1 p) p = Z.lxor (Z.lxor w p) p) by (rewrite H; reflexivity).
    rewrite !Z.lxor_assoc, Z.lxor_nilpotent, !Z.lxor_0_r in H'. exact H'. }
  rewrite C. f_equal. rewrite X.
  apply Z.bits_inj'. intros n Hn. rewrite !Z.lxor_spec.
  destruct (Z.testbit w n), (Z.testbit p n), (Z.testbit (wrapU 64 (if Z.eqb s1 w then 1 else 0)) n); reflexivity.
Qed.
