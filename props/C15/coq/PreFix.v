(* C15 -- the pre-fix shape of TreeSetConstIterator::operator++ (before /repo commit ed8da09), kept as a refuted
   statement.  An iterator inside a node is (leaf?, count, index); the end iterator of a tree whose root is a leaf is
   (true, count, count).  Before the fix only internal nodes checked `index < count`. *)
From Coq Require Import Arith Bool Lia.
(* robustness: a regenerated term that makes a tactic run away fails the proof (prove BROKEN) instead of hanging the build *)
Set Default Timeout 300.

Definition inc_prefix (leaf : bool) (count idx : nat) : option nat :=
  if leaf then Some (S idx) else if idx <? count then Some (S idx) else None.
Definition inc_fixed (leaf : bool) (count idx : nat) : option nat :=
  if idx <? count then Some (S idx) else None.
(* TreeSet::pvRemove / ResetKey on a current-version iterator of a leaf root: MOMO_CHECK(iter != GetEnd()) *)
Definition remove_checks_pass (count idx : nat) : bool := negb (idx =? count).

(* "whatever ++ accepts and Remove then accepts lies inside the node" is FALSE for the pre-fix code ... *)
Lemma prefix_tree_increment_refuted :
  ~ (forall leaf count idx i', idx <= count -> inc_prefix leaf count idx = Some i' ->
       remove_checks_pass count i' = true -> i' < count).
Proof.
  intros H. specialize (H true 2 2 3 (le_n 2) eq_refl eq_refl). lia.
Qed.
(* ... and true for the fixed code *)
Lemma fixed_tree_increment_safe :
  forall leaf count idx i', idx <= count -> inc_fixed leaf count idx = Some i' ->
    remove_checks_pass count i' = true -> i' < count.
Proof.
  intros leaf count idx i' Hle Hi Hr. unfold inc_fixed in Hi.
  destruct (Nat.ltb_spec idx count); [|discriminate]. inversion Hi; subst.
  unfold remove_checks_pass in Hr. apply negb_true_iff in Hr. apply Nat.eqb_neq in Hr. lia.
Qed.
