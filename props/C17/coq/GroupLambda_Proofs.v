(* C17: the GENERATED condition of HashSorter::pvSort's group callback (Gen_GroupLambda.v): pvGroup is called exactly for runs of
   more than two items, which is the hand model's hs_group; for shorter runs nothing needs grouping (two items are trivially
   contiguous), so the callback contract (Sort_Proofs.hs_group_contract) holds with the generated condition. *)
From Coq Require Import ZArith Bool List Lia.
From MomoCommon Require Import GenPrelude.
From C17 Require Import SorterSearch SorterSort Sort_Proofs Gen_GroupLambda.
Local Open Scope Z_scope.

Theorem gen_group_lambda_spec count : group_lambda_calls_pvGroup count = (2 <? count).
Proof. unfold group_lambda_calls_pvGroup. apply Z.gtb_ltb. Qed.

Theorem gen_group_lambda_refines_model sw eqf l q c :
  hs_group sw eqf l q c = if group_lambda_calls_pvGroup c then SorterSort.pvGroup sw eqf l q c else Ok l.
Proof. unfold hs_group. rewrite gen_group_lambda_spec. reflexivity. Qed.

(* every run the callback does NOT group has at most two items, hence nothing to do *)
Theorem gen_group_lambda_skips_only_trivial_runs eqf l q c : group_lambda_calls_pvGroup c = false -> contigL eqf l q (q + c).
Proof.
  rewrite gen_group_lambda_spec. intros H. apply Z.ltb_ge in H. intros a m c' Ha Ham Hmc Hc'. lia.
Qed.
