// instantiation TU for the cxx2coq-translated guard functions of C15 (exception-mode settings; implicit instantiation by use)
#include "momo/Array.h"
#include "momo/SegmentedArray.h"
#include "momo/HashSet.h"
#include "momo/TreeSet.h"
#include "momo/HashMultiMap.h"
#include "momo/DataTable.h"
using namespace momo;
struct AS : ArraySettings<0, true, false> { static const CheckMode checkMode = CheckMode::exception; };
struct SAS : SegmentedArraySettings<> { static const CheckMode checkMode = CheckMode::exception; };
struct HSS : HashSetSettings { static const CheckMode checkMode = CheckMode::exception; static const bool checkVersion = true; };
struct TSS : TreeSetSettings { static const CheckMode checkMode = CheckMode::exception; static const bool checkVersion = true; };
struct MMS : HashMultiMapSettings { static const CheckMode checkMode = CheckMode::exception; static const bool checkKeyVersion = true; static const bool checkValueVersion = true; };
struct DTS : DataSettings<true> { static const CheckMode checkMode = CheckMode::exception; static const bool checkVersion = true; };
static_assert(AS::checkMode == CheckMode::exception && int(CheckMode::exception) == 2 && int(CheckMode::assertion) == 1, "const_values checkMode = 2 in gen_*.json");
typedef MemManagerDefault MMD;
typedef Array<int, MMD, ArrayItemTraits<int, MMD>, AS> AR;
typedef SegmentedArray<int, MMD, SegmentedArrayItemTraits<int, MMD>, SAS> SA;
typedef TreeSet<int, TreeTraits<int>, MMD, TreeSetItemTraits<int, MMD>, TSS> TS;
typedef HashMultiMap<int, int, HashTraits<int>, MMD, HashMultiMapKeyValueTraits<int, int, MMD>, MMS> MM;
typedef DataColumnList<DataColumnTraits<>, MMD, DataItemTraits<MMD>, DTS> DCL;
typedef DataTable<DCL> DT;
static const DataColumn<int> c1("c1");
template class momo::internal::VersionKeeper<HSS, true>;
void use(AR& a, SA& s, TS& t, MM& m, DT& d)
{
	auto it = a.GetBegin(); it += 1; (void)it.operator->();
	a.Remove(0, 1); a.Insert(0, 1, 5); a.Insert(0, 5); a.RemoveBack(1); (void)a[0];
	s.Remove(0, 1); (void)s[0]; s.RemoveBack(1); s.Insert(0, 1, 5);
	auto ti = t.GetBegin(); ++ti; --ti; (void)ti.operator->();
	m.Remove(m.Find(1), 0); (void)m.MakeIterator(m.Find(1), 0);
	auto sel = d.Select(); { auto ri = sel.GetBegin(); ri += 1; (void)*ri; } sel.Remove(0, 1); (void)sel[0]; (void)d[0]; d.Remove(size_t(0)); d.InsertRow(0, c1 = 1); d.Update(size_t(0), d.NewRow());
	auto mh = d.AddMultiHashIndex(c1); auto hb = d.FindByMultiHash(mh, c1 == 1); { auto hi = hb.GetBegin(); hi += 1; (void)*hi; (void)hb[0]; }   // DataRawMultiHashIterator += / ->, DataRowIterator ->
}
