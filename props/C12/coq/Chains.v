(* C12, grow round 3: after ANY chain of successive pvRelocateItems runs (each consuming GetHashCodePart of the previous
   table and calling AddCrt in the next), every key of the ORIGINAL table is returned by the modelled HashSet::Find. *)
From Coq Require Import ZArith Bool List Lia.
From MomoCommon Require Import GenPrelude.
From C12 Require Import Bits Known TableO2 TableO2_Proofs TableO2_Find TableP4 TableP4_Proofs TableP4_Find TableOne TableOne_Proofs.
Import ListNotations.
Local Open Scope Z_scope.

Fixpoint increasing (L : Z) (Ls : list Z) : Prop :=
  match Ls with [] => True | n :: r => L < n <= 63 /\ increasing n r end.

Section ChainO2.
Variable hash : Z -> Z.
Hypothesis hash_range : forall k, 0 <= hash k < 2 ^ 64.

Lemma migrate_present L newL told : 0 <= L -> L < newL <= 63 -> Tinv hash L told ->
  match migrate hash told L newL with
  | Ok (_, tnew) => Tinv hash newL tnew /\ (forall k, Present L told k -> Present newL tnew k)
  | Exn => True
  | _ => False
  end.
Proof.
  intros HL HnL Hold. unfold migrate. assert (Hpos : 0 < 2 ^ L) by (apply pow2_pos; lia).
  pose proof (migrate_from_spec hash hash_range L newL HL HnL (Z.to_nat (2 ^ L)) told empty_table 0 ltac:(lia) ltac:(lia) Hold
              (empty_inv hash newL) ltac:(intros; lia)) as Hm.
  destruct (migrate_from hash (Z.to_nat (2 ^ L)) told empty_table L newL 0) as [[told' tnew']| | |]; try exact Hm.
  destruct Hm as ((Ho & Hn & Hp & _) & Hz). split; [exact Hn|]. intros k Hk.
  destruct (Hp k Hk) as [(b & s & Hb & Hocc & _)|G]; [exfalso|exact G].
  unfold occ in Hocc. rewrite Hz in Hocc by lia. lia.
Qed.

Theorem grow_chain_find : forall Ls L t, 0 <= L <= 63 -> increasing L Ls -> Tinv hash L t ->
  match grow_chain hash t L Ls with
  | Ok (t', L') => Tinv hash L' t' /\ (forall k, Present L t k -> exists r, find t' L' k (hash k) = Ok r /\ hit hash L' t' k r)
  | Exn => True
  | _ => False
  end.
Proof.
  induction Ls as [|n r IH]; intros L t HL Hinc Ht; cbn [grow_chain].
  - split; [exact Ht|]. intros k Hk. apply find_present; [lia|exact Ht|exact Hk].
  - destruct Hinc as [Hn Hr].
    pose proof (migrate_present L n t ltac:(lia) Hn Ht) as Hm.
    destruct (migrate hash t L n) as [[told' tnew]| | |]; try exact Hm.
    destruct Hm as [Htn Hpn]. specialize (IH n tnew ltac:(lia) Hr Htn).
    destruct (grow_chain hash tnew n r) as [[t' L']| | |]; try exact IH.
    destruct IH as [Ht' Hf]. split; [exact Ht'|]. intros k Hk. apply Hf, Hpn, Hk.
Qed.
End ChainO2.

Section ChainP4.
Variables (H mm : Z).
Variable hash : Z -> Z.
Hypothesis HH : 4 <= H <= 8.
Hypothesis Hmm : 1 <= mm <= 4.
Hypothesis hash_range : forall k, 0 <= hash k < 2 ^ 64.

Lemma pmigrate_present L newL told : 0 <= L -> L < newL <= 63 -> PTinv H hash L told ->
  match pmigrate H mm hash told L newL with
  | Ok (_, tnew, _) => PTinv H hash newL tnew /\ (forall k, PPresent L told k -> PPresent newL tnew k)
  | Exn => True
  | _ => False
  end.
Proof.
  intros HL HnL Hold. unfold pmigrate. assert (Hpos : 0 < 2 ^ L) by (apply pow2_pos; lia).
  pose proof (pmigrate_from_spec H mm hash HH Hmm hash_range L newL HL HnL (Z.to_nat (2 ^ L)) told (pempty_table H mm) 0 0
              ltac:(lia) ltac:(lia) Hold (pempty_inv H mm hash HH Hmm newL) ltac:(intros; lia)) as Hm.
  destruct (pmigrate_from H mm hash (Z.to_nat (2 ^ L)) told (pempty_table H mm) L newL 0 0) as [[[told' tnew'] c']| | |]; try exact Hm.
  destruct Hm as ((Ho & Hn & Hp & _) & Hz). split; [exact Hn|]. intros k Hk.
  destruct (Hp k Hk) as [(b & i & Hb & Hi & _)|G]; [exfalso|exact G].
  rewrite Hz in Hi by lia. lia.
Qed.

Theorem pgrow_chain_find : forall Ls L t, 0 <= L <= 63 -> increasing L Ls -> PTinv H hash L t ->
  match pgrow_chain H mm hash t L Ls with
  | Ok (t', L') => PTinv H hash L' t' /\ (forall k, PPresent L t k -> exists r, pfind t' L' k (hash k) = Ok r /\ phit hash L' t' k r)
  | Exn => True
  | _ => False
  end.
Proof.
  induction Ls as [|n r IH]; intros L t HL Hinc Ht; cbn [pgrow_chain].
  - split; [exact Ht|]. intros k Hk. apply (pfind_present H); [lia|exact Ht|exact Hk].
  - destruct Hinc as [Hn Hr].
    pose proof (pmigrate_present L n t ltac:(lia) Hn Ht) as Hm.
    destruct (pmigrate H mm hash t L n) as [[[told' tnew] c]| | |]; try exact Hm.
    destruct Hm as [Htn Hpn]. specialize (IH n tnew ltac:(lia) Hr Htn).
    destruct (pgrow_chain H mm hash tnew n r) as [[t' L']| | |]; try exact IH.
    destruct IH as [Ht' Hf]. split; [exact Ht'|]. intros k Hk. apply Hf, Hpn, Hk.
Qed.
End ChainP4.

Section ChainOne.
Variable hash : Z -> Z.
Hypothesis hash_range : forall k, 0 <= hash k < 2 ^ 64.

Lemma omigrate_present L newL told : 0 <= L -> L < newL <= 63 -> OTinv hash L told ->
  match omigrate hash told L newL with
  | Ok (_, tnew) => OTinv hash newL tnew /\ (forall k, OPresent L told k -> OPresent newL tnew k)
  | Exn => True
  | _ => False
  end.
Proof.
  intros HL HnL Hold. unfold omigrate. assert (Hpos : 0 < 2 ^ L) by (apply pow2_pos; lia).
  pose proof (omigrate_from_spec hash hash_range L newL HL HnL (Z.to_nat (2 ^ L)) told oempty_table 0 ltac:(lia) ltac:(lia) Hold
              (oempty_inv hash newL) ltac:(intros; lia)) as Hm.
  destruct (omigrate_from hash (Z.to_nat (2 ^ L)) told oempty_table newL 0) as [[told' tnew']| | |]; try exact Hm.
  destruct Hm as ((Ho & Hn & Hp & _) & Hz). split; [exact Hn|]. intros k Hk.
  destruct (Hp k Hk) as [(b & Hb & Hf & _)|G]; [exfalso|exact G].
  rewrite Hz in Hf by lia. discriminate.
Qed.

Theorem ogrow_chain_find : forall Ls L t, 0 <= L <= 63 -> increasing L Ls -> OTinv hash L t ->
  match ogrow_chain hash t L Ls with
  | Ok (t', L') => OTinv hash L' t' /\ (forall k, OPresent L t k -> exists r, ofind t' L' k (hash k) = Ok r /\ ohit hash t' k r)
  | Exn => True
  | _ => False
  end.
Proof.
  induction Ls as [|n r IH]; intros L t HL Hinc Ht; cbn [ogrow_chain].
  - split; [exact Ht|]. intros k Hk. apply ofind_present; [lia|exact Ht|exact Hk].
  - destruct Hinc as [Hn Hr].
    pose proof (omigrate_present L n t ltac:(lia) Hn Ht) as Hm.
    destruct (omigrate hash t L n) as [[told' tnew]| | |]; try exact Hm.
    destruct Hm as [Htn Hpn]. specialize (IH n tnew ltac:(lia) Hr Htn).
    destruct (ogrow_chain hash tnew n r) as [[t' L']| | |]; try exact IH.
    destruct IH as [Ht' Hf]. split; [exact Ht'|]. intros k Hk. apply Hf, Hpn, Hk.
Qed.
End ChainOne.
