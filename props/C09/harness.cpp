// C09 implementation side: the REAL momo::MemPool driven through a placement-policy memory manager.
//   * translator validation commands (same case format as ocaml/driver.ml): ceil cbs chk ar gb gi pos nb1 nbuf
//   * list-surgery micro-correspondence on fabricated buffer lists: fabmg fabmv fabdel (real MergeFrom /
//     pvMoveBufferToHead / pvDeleteBuffer, lists dumped via private access)
//   * property oracle: hist  (random allocate/deallocate/DeallocateIf/DeallocateAll/MergeFrom histories)
// One output line per case.  No change to /repo.
#include "private_access.h"
#include <sys/mman.h>
#include <fcntl.h>
#include <csignal>
#include <unistd.h>
#include <sys/wait.h>
#include "momo/MemPool.h"

using namespace momo;
typedef unsigned long long ull;
typedef internal::Byte Byte;

// ------------------------------------------------------------------ placement arena
struct Arena
{
	static constexpr uintptr_t kBase = 0x200000000000ull;   // fixed address: cases can name absolute addresses
	static constexpr size_t kSize = size_t(1) << 34;        // 16 GiB virtual, MAP_NORESERVE
	uintptr_t cursor = kBase;
	uintptr_t hiTouched = kBase;
	std::map<uintptr_t, size_t> live;                       // manager blocks currently owned by pools
	std::map<uintptr_t, int> owner;                         // which manager (identity) allocated the block
	std::set<size_t> failAt; size_t nAttempt = 0, nRefused = 0; // the k-th Allocate request of the case throws std::bad_alloc
	std::vector<uintptr_t> order;                           // every Allocate in order (buffer ids = index+1)
	std::vector<ull> residues; size_t resPos = 0; ull period = 1;
	bool exact = false; uintptr_t exactAddr = 0;            // next Allocate returns exactly this address
	size_t nAlloc = 0, nDealloc = 0, lastAllocSize = 0, lastDeallocSize = 0; uintptr_t lastDealloc = 0, lastAlloc = 0;
	std::string error;
	void init()
	{
		void* p = mmap(reinterpret_cast<void*>(kBase), kSize, PROT_READ | PROT_WRITE,
			MAP_PRIVATE | MAP_ANONYMOUS | MAP_NORESERVE | MAP_FIXED_NOREPLACE, -1, 0);
		if (p != reinterpret_cast<void*>(kBase)) { fprintf(stderr, "cannot map the arena at the fixed address\n"); _exit(4); }
	}
	void reset()
	{
		if (hiTouched > kBase + (size_t(1) << 28))          // give the pages back now and then
		{ madvise(reinterpret_cast<void*>(kBase), hiTouched - kBase, MADV_DONTNEED); hiTouched = kBase; }
		cursor = kBase; live.clear(); order.clear(); residues.clear(); resPos = 0; period = 16; gran = 16; exact = false;
		nAlloc = nDealloc = 0; error.clear(); owner.clear(); failAt.clear(); nAttempt = nRefused = 0;
	}
	void fail(const std::string& s) { if (error.empty()) error = s; }
	void* allocate(size_t size, int id = 0)
	{
		++nAttempt;
		if (failAt.count(nAttempt)) { ++nRefused; throw std::bad_alloc(); }
		uintptr_t a;
		if (exact) { a = exactAddr; exact = false; }
		else
		{
			ull r = residues.empty() ? 0 : residues[resPos++ % residues.size()];
			a = (cursor + period - 1) / period * period + uintptr_t(r % period);   // period and r are multiples of gran
		}
		if (size > kSize || a < kBase || a + size > kBase + kSize) { if (size <= kSize) fail("arena exhausted"); throw std::bad_alloc(); }   // a request larger than the arena is simply refused
		for (auto& kv : live)
			if (a < kv.first + kv.second && kv.first < a + size) { fail("harness: placement overlaps a live block"); break; }
		cursor = std::max(cursor, a + size + 64);
		hiTouched = std::max(hiTouched, cursor);
		live[a] = size; owner[a] = id; order.push_back(a); ++nAlloc; lastAllocSize = size; lastAlloc = a;
		memset(reinterpret_cast<void*>(a), 0xA5, size);
		return reinterpret_cast<void*>(a);
	}
	void deallocate(void* ptr, size_t size, int id = 0)
	{
		uintptr_t a = reinterpret_cast<uintptr_t>(ptr);
		auto it = live.find(a);
		if (it != live.end() && owner[a] != id) fail("Deallocate through a memory manager other than the one that allocated the block");
		if (it == live.end()) { fail("Deallocate of an address that is not a live manager block"); return; }
		if (it->second != size) { fail("Deallocate with size " + std::to_string(size) + " != allocated " + std::to_string(it->second)); }
		memset(ptr, 0xDD, it->second);
		live.erase(it); ++nDealloc; lastDeallocSize = size; lastDealloc = a;
	}
	size_t idOf(uintptr_t a) const   // id of the manager block containing a (1-based, order of allocation); 0 if none
	{
		for (size_t i = order.size(); i-- > 0; )
		{
			auto it = live.find(order[i]);
			if (it != live.end() && order[i] <= a && a < order[i] + it->second) return i + 1;
		}
		return 0;
	}
	bool owns(uintptr_t a, size_t len) const
	{
		auto it = live.upper_bound(a);
		if (it == live.begin()) return false;
		--it;
		return it->first <= a && a + len <= it->first + it->second;
	}
	ull gran = 16;
};
static Arena gA;

class PlaceMM
{
public:
	explicit PlaceMM(int id_ = 0, int tag_ = 0) noexcept : tag(tag_), id(id_) {}
	PlaceMM(PlaceMM&& o) noexcept : tag(o.tag), id(o.id) {}
	PlaceMM(const PlaceMM& o) noexcept : tag(o.tag), id(o.id) {}
	~PlaceMM() noexcept {}
	PlaceMM& operator=(const PlaceMM&) = delete;
	void* Allocate(size_t size) { return gA.allocate(size, id); }
	void Deallocate(void* ptr, size_t size) noexcept { gA.deallocate(ptr, size, id); }
	bool IsEqual(const PlaceMM& o) const noexcept { return id == o.id; }
	int tag;    // object identity NOT seen by IsEqual (two equal managers need not be the same object: fix fc18ee9)
	int id;     // identity: two managers with different ids are NOT interchangeable (Swap must move them with the pool data)
};

template<size_t BC, size_t CF> using Pool = MemPool<MemPoolParams<BC, CF>, PlaceMM, MemPoolSettings>;

static std::string gCurrent;
static void onCrash(int sig)
{
	char buf[600];
	int n = snprintf(buf, sizeof buf, "CRASH signal %d in case: %.400s\n", sig, gCurrent.c_str());
	if (write(1, buf, size_t(n)) < 0) {}
	_exit(3);
}

struct Sm64 { ull s; ull next() { s += 0x9E3779B97F4A7C15ull; ull z = s; z = (z ^ (z >> 30)) * 0xBF58476D1CE4E5B9ull;
	z = (z ^ (z >> 27)) * 0x94D049BB133111EBull; return z ^ (z >> 31); } ull below(ull n) { return n ? next() % n : 0; } };

// ------------------------------------------------------------------ buffer list dump (private access)
template<class P> static std::string dumpList(P& pool, size_t limit = 100000)
{
	// canonical: buffer ids (order of manager allocation) from the leftmost to the rightmost buffer, '*' marks the head
	Byte* head = pool.mFreeBufferHead;
	if (head == nullptr) return "-";
	Byte* left = head; size_t steps = 0;
	while (true)
	{
		if (!gA.owns(reinterpret_cast<uintptr_t>(left), 1)) return "BROKEN(link to memory not owned)";
		Byte* p = pool.pvGetPrevBuffer(left);
		if (p == nullptr) break;
		if (!gA.owns(reinterpret_cast<uintptr_t>(p), 1)) return "BROKEN(prev link to memory not owned)";
		if (pool.pvGetNextBuffer(p) != left) return "BROKEN(next(prev(x))!=x)";
		left = p; if (++steps > limit) return "BROKEN(cycle)";
	}
	std::string out; Byte* b = left; steps = 0;
	while (b != nullptr)
	{
		if (!gA.owns(reinterpret_cast<uintptr_t>(b), 1)) return "BROKEN(next link to memory not owned)";
		if (!out.empty()) out += ' ';
		if (b == head) out += '*';
		out += std::to_string(gA.idOf(reinterpret_cast<uintptr_t>(b)));
		Byte* n = pool.pvGetNextBuffer(b);
		if (n != nullptr && gA.owns(reinterpret_cast<uintptr_t>(n), 1) && pool.pvGetPrevBuffer(n) != b) return "BROKEN(prev(next(x))!=x)";
		b = n; if (++steps > limit) return "BROKEN(cycle)";
	}
	return out;
}
static size_t countIds(const std::string& d) { if (d == "-") return 0; return size_t(std::count(d.begin(), d.end(), ' ')) + 1; }

// ------------------------------------------------------------------ translator validation
template<size_t BC, size_t CF> static std::string tvCase(const std::string& cmd, std::istringstream& is)
{
	typedef Pool<BC, CF> P;
	char out[400];
	ull B = 0, A = 0; is >> B >> A;
	gA.reset();
	if (cmd == "ar" || cmd == "gb" || cmd == "gi" || cmd == "pos")
	{
		typename P::Params prm{size_t(BC == 1 ? 8 : 16), size_t(8)}; P pool(prm);
		pool.blockSize = size_t(B); pool.blockAlignment = size_t(A);     // raw values: the functions are pure arithmetic
		if (cmd == "ar")
		{
			snprintf(out, sizeof out, "%llu %llu %llu %d %llu %d", ull(pool.pvGetAlignmentAddend()), ull(pool.pvGetBufferSize0()),
				ull(pool.pvGetBufferSize1()), int(pool.pvIsBufferBytesNear()), ull(pool.pvGetBufferSize()), int(pool.pvUseCache()));
		}
		else if (cmd == "gb")
		{
			ull buffer; long long index; is >> buffer >> index;
			Byte* r = pool.pvGetBlock(reinterpret_cast<Byte*>(uintptr_t(buffer)), int8_t(index));
			snprintf(out, sizeof out, "%llu", ull(reinterpret_cast<uintptr_t>(r)));
		}
		else if (cmd == "gi")
		{
			ull block; is >> block; Byte* buffer = nullptr;
			int8_t idx = pool.pvGetBlockIndex(reinterpret_cast<Byte*>(uintptr_t(block)), buffer);
			snprintf(out, sizeof out, "%d %llu", int(idx), ull(reinterpret_cast<uintptr_t>(buffer)));
		}
		else
		{
			long long first; is >> first;
			static Byte mem[64]; Byte* buffer = mem + 32; *reinterpret_cast<int8_t*>(buffer) = int8_t(first);
			snprintf(out, sizeof out, "%lld %lld %lld %lld %lld", (long long)(pool.pvGetBlocksEndPosition(buffer) - buffer),
				(long long)(pool.pvGetBufferBytesPosition(buffer) - buffer), (long long)(pool.pvGetPrevBufferPosition(buffer) - buffer),
				(long long)(pool.pvGetNextBufferPosition(buffer) - buffer), (long long)(pool.pvGetBeginOffsetPosition(buffer) - buffer));
		}
		pool.blockSize = (BC == 1 ? 8 : 16); pool.blockAlignment = 8;
		return out;
	}
	if (cmd == "nb1" || cmd == "nbuf" || cmd == "al1")
	{
		ull begin; is >> begin;
		typename P::Params prm{size_t(B), size_t(A)}; P pool(prm);
		if (pool.GetBlockSize() != B) return "params-corrected";
		gA.exact = true; gA.exactAddr = uintptr_t(begin);
		if (cmd == "al1")
		{	// the public Allocate / Deallocate of a single-block pool on a chosen manager address: which path is taken
			void* blk = pool.Allocate();
			uintptr_t ub = reinterpret_cast<uintptr_t>(blk);
			ull reqSize = gA.lastAllocSize; bool inside = gA.owns(ub, size_t(B));
			pool.Deallocate(blk);
			if (pool.pvUseCache()) pool.pvFlushDeallocate();
			snprintf(out, sizeof out, "%llu %llu %d %d", ull(ub - begin), reqSize, int(inside),
				int(gA.lastDealloc == begin && gA.lastDeallocSize == reqSize && gA.live.empty()));
		}
		else if (cmd == "nb1")
		{
			Byte* block = pool.pvNewBlock1();
			uintptr_t ub = reinterpret_cast<uintptr_t>(block);
			unsigned offByte = 0; { uint16_t t; memcpy(&t, block + B, 2); offByte = t; }   // the 2-byte offset field
			bool inside = gA.owns(ub, size_t(B) + 2);
			ull reqSize = gA.lastAllocSize;
			pool.pvDeleteBlock1(block);
			snprintf(out, sizeof out, "%llu %u %llu %d %d", ull(ub - begin), offByte, reqSize, int(inside),
				int(gA.lastDealloc == begin && gA.lastDeallocSize == reqSize && gA.live.empty()));
		}
		else
		{
			Byte* buffer = pool.pvNewBuffer();
			int8_t first = pool.pvGetFirstBlockIndex(buffer);
			Byte* fb = pool.pvGetBlock(buffer, first);
			ull reqSize = gA.lastAllocSize;
			ull bo = pool.pvGetBeginOffset(buffer);
			long long bufOff = (long long)(reinterpret_cast<uintptr_t>(buffer) - begin);
			// what pvNewBuffer wrote (619-637), read back from the real memory: BufferBytes, prev/next, and the index stored in every block
			auto bytes = pool.pvGetBufferBytes(buffer);
			std::string chain;
			for (size_t j = 0; j < P::Params::blockCount; ++j)
				chain += (j ? "," : "") + std::to_string(int(pool.pvGetNextFreeBlockIndex(pool.pvGetBlock(buffer, int8_t(first + int8_t(j))))));
			bool nullLinks = pool.pvGetPrevBuffer(buffer) == nullptr && pool.pvGetNextBuffer(buffer) == nullptr;
			pool.pvDeleteBuffer(buffer);
			snprintf(out, sizeof out, "%llu %llu %d %lld %llu %d", ull(reinterpret_cast<uintptr_t>(fb) - begin), bo, int(first), bufOff, reqSize,
				int(gA.lastDealloc == begin && gA.lastDeallocSize == reqSize && gA.live.empty()));
			if (!gA.error.empty()) return "FAIL " + gA.error;
			return std::string(out) + " bb=" + std::to_string(int(bytes.firstFreeBlockIndex)) + "," + std::to_string(int(bytes.freeBlockCount))
				+ " links=" + (nullLinks ? "null" : "SET") + " ch=" + chain;
		}
		if (!gA.error.empty()) return "FAIL " + gA.error;
		return out;
	}
	return "?";
}

// ------------------------------------------------------------------ fabricated lists: real list surgery on chosen shapes
// fabmg n1 h1 n2 h2 : pool d has n1 buffers (ids 1..n1) with head at position h1 (1-based; 0 = empty pool), pool s has n2 buffers
//                     (ids n1+1..n1+n2) head at h2; run the real d.MergeFrom(s); print "<list d> / <list s> / leak-free?"
// fabmv n h k       : real pvMoveBufferToHead(buffer k) on a list of n buffers with head h (k < h)
// fabdel n h k      : real pvDeleteBuffer(buffer k), k != h
template<class P> static void fabricate(P& pool, std::vector<Byte*>& bufs, size_t n, size_t h)
{
	for (size_t i = 0; i < n; ++i) bufs.push_back(pool.pvNewBuffer());
	for (size_t i = 0; i < n; ++i)
	{
		pool.pvSetPrevBuffer(bufs[i], i > 0 ? bufs[i - 1] : nullptr);
		pool.pvSetNextBuffer(bufs[i], i + 1 < n ? bufs[i + 1] : nullptr);
	}
	pool.mFreeBufferHead = (n > 0 && h >= 1 && h <= n) ? bufs[h - 1] : nullptr;
}
static std::string fabCase(const std::string& cmd, std::istringstream& is)
{
	typedef Pool<2, 0> P;
	gA.reset();
	std::string res;
	{
		P::Params prm{size_t(16), size_t(8)}; P d(prm), s(prm);
		std::vector<Byte*> b1, b2;
		if (cmd == "fabmg")
		{
			size_t n1, h1, n2, h2; is >> n1 >> h1 >> n2 >> h2;
			fabricate(d, b1, n1, h1); fabricate(s, b2, n2, h2);
			d.MergeFrom(s);
			res = dumpList(d) + " / " + dumpList(s);
			size_t inList = countIds(dumpList(d)) + countIds(dumpList(s));
			if (res.find("BROKEN") == std::string::npos && inList != gA.live.size())
				res += " ORPHANED(" + std::to_string(gA.live.size() - inList) + ")";
		}
		else
		{
			size_t n, h, k; is >> n >> h >> k;
			fabricate(d, b1, n, h);
			if (cmd == "fabmv") d.pvMoveBufferToHead(b1[k - 1]); else d.pvDeleteBuffer(b1[k - 1]);
			res = dumpList(d);
			size_t inList = countIds(res);
			if (res.find("BROKEN") == std::string::npos && inList != gA.live.size()) res += " ORPHANED";
		}
		if (res.find("BROKEN") != std::string::npos || res.find("ORPHANED") != std::string::npos)
		{	// do not let the destructors walk a broken list
			d.mFreeBufferHead = nullptr; s.mFreeBufferHead = nullptr; gA.live.clear();
		}
	}
	if (!gA.live.empty()) res += " LEAK(" + std::to_string(gA.live.size()) + ")";
	if (!gA.error.empty()) res += " FAIL " + gA.error;
	return res;
}

// ------------------------------------------------------------------ the property oracle on histories
// hist BC CF bs al endmode r1,r2,.. ops...     ops: a<p> | f<p>:<k> | i<p>:<m>:<r> | x<p> | m<d><s>
struct LiveBlock { uintptr_t addr; ull serial; };
static unsigned fnv1a(const std::string& t) { unsigned h = 2166136261u; for (unsigned char ch : t) { h ^= ch; h *= 16777619u; } return h; }

// canonical private state of one pool: buffer list (full part / free part), per-buffer free chain in chain order
// (relative block indexes), cache in cache order, allocCount  -- compared with the Coq model PoolConc after every op
template<class P> static std::string stateOf(P& pool)
{
	std::ostringstream o;
	std::vector<Byte*> bufs; size_t headPos = 0;
	Byte* head = pool.mFreeBufferHead;
	if (head != nullptr)
	{
		Byte* left = head; size_t guard = 0;
		while (pool.pvGetPrevBuffer(left) != nullptr && ++guard < 100000) left = pool.pvGetPrevBuffer(left);
		for (Byte* b = left; b != nullptr && bufs.size() < 100000; b = pool.pvGetNextBuffer(b)) { if (b == head) headPos = bufs.size(); bufs.push_back(b); }
	}
	o << "F:"; for (size_t i = 0; i < headPos; ++i) o << (i ? "," : "") << gA.idOf(reinterpret_cast<uintptr_t>(bufs[i]));
	o << " H:"; for (size_t i = headPos; i < bufs.size(); ++i) o << (i > headPos ? "," : "") << gA.idOf(reinterpret_cast<uintptr_t>(bufs[i]));
	o << " B:";
	for (Byte* b : bufs)
	{
		auto bytes = pool.pvGetBufferBytes(b); int first = pool.pvGetFirstBlockIndex(b);
		o << gA.idOf(reinterpret_cast<uintptr_t>(b)) << "=" << int(bytes.freeBlockCount) << "[";
		int8_t idx = bytes.firstFreeBlockIndex;
		for (int i = 0; i < int(bytes.freeBlockCount); ++i)
		{
			o << (i ? "," : "") << (int(idx) - first);
			idx = pool.pvGetNextFreeBlockIndex(pool.pvGetBlock(b, idx));
		}
		o << "]";
	}
	o << " K:";
	void* c = pool.mCacheHead;
	for (size_t i = 0; i < pool.mCachedCount; ++i)
	{
		Byte* buffer = nullptr; int8_t idx = pool.pvGetBlockIndex(static_cast<Byte*>(c), buffer);
		o << (i ? "," : "") << gA.idOf(reinterpret_cast<uintptr_t>(buffer)) << "." << (int(idx) - int(pool.pvGetFirstBlockIndex(buffer)));
		c = internal::MemCopyer::FromBuffer<void*>(c);
	}
	o << " n=" << pool.GetAllocateCount();
	return o.str();
}

// pool variants of the coverage audit: other settings class, compile-time parameters, more (blockCount, cache) pairs
template<size_t BC, size_t CF> using PoolN = MemPool<MemPoolParams<BC, CF>, PlaceMM, internal::NestedMemPoolSettings>;
template<size_t BS, size_t AL, size_t BC, size_t CF> using PoolS = MemPool<MemPoolParamsStatic<BS, AL, BC, CF>, PlaceMM, MemPoolSettings>;
static_assert(MemPoolSettings::extraCheckMode == ExtraCheckMode::assertion && MemPoolSettings::checkMode == CheckMode::assertion,
	"the default pool settings are the asserting ones");
static_assert(internal::NestedMemPoolSettings::extraCheckMode == ExtraCheckMode::nothing, "nested pools do not run the extra checks");
static_assert(std::is_same<PoolN<32, 16>::Settings, internal::NestedMemPoolSettings>::value, "the nested-settings variant is really instantiated");
static_assert(PoolS<24, 8, 32, 16>::Params::blockSize == 24 && PoolS<24, 8, 32, 16>::Params::blockAlignment == 8
	&& PoolS<24, 8, 32, 16>::Params::blockCount == 32 && PoolS<24, 8, 32, 16>::Params::cachedFreeBlockCount == 16, "static parameters");
static_assert(PoolS<5, 3, 1, 0>::Params::blockSize == 5 && PoolS<5, 3, 1, 0>::Params::blockCount == 1, "single-block static pool, odd alignment");
static_assert(PoolS<17, 16, 2, 1>::Params::blockSize == 32, "static block size is corrected (17 -> 32 for alignment 16)");
static_assert(Pool<127, 16>::Params::blockCount == 127 && Pool<1, 1>::Params::cachedFreeBlockCount == 1, "dynamic parameter classes");

template<class P, class = void> struct MakeParams {
	static typename P::Params make(size_t, size_t) { return typename P::Params(); } };
template<class P> struct MakeParams<P, typename std::enable_if<std::is_constructible<typename P::Params, size_t, size_t>::value>::type> {
	static typename P::Params make(size_t bs, size_t al) { return typename P::Params(bs, al); } };

template<class P> static std::string histCaseP(std::istringstream& is, bool trace)
{
	static const size_t BC = P::Params::blockCount;
	if (trace && BC == 1) return "n/a";
	std::ostringstream tr; std::string lastRet = "-";
	ull bs, al, endmode; std::string resStr;
	is >> bs >> al >> endmode >> resStr;
	gA.reset();
	std::ostringstream merges; std::string failure;
	size_t nOps = 0, maxLive = 0, maxBuffers = 0, nMerge = 0, nMergeNontrivial = 0, nIf = 0, nSwap = 0, nMove = 0, nFlush = 0, nCacheHit = 0, nFreedIf = 0, nAll = 0;
	auto fail = [&](const std::string& s) { if (failure.empty()) failure = s + " (op #" + std::to_string(nOps) + ")"; };
	{
		typename P::Params params = MakeParams<P>::make(size_t(bs), size_t(al));
		const bool unequalManagers = (endmode & 8) != 0;      // endmode bit 3: the two pools have different (non-interchangeable) managers
		P pools[2] = { P(params, PlaceMM(unequalManagers ? 1 : 0)), P(params, PlaceMM(unequalManagers ? 2 : 0)) };
		const size_t B = pools[0].GetBlockSize(), A = pools[0].GetBlockAlignment();
		if (A != al) return "static-params-mismatch";
		if (pools[0].GetBlockCount() != BC || pools[0].CanDeallocateAll() != (BC > 1) || pools[1].GetAllocateCount() != 0) return "FAIL getters";
		{
			// the manager contract: addresses are multiples of maxAllocAlignment = 16 (endmode bit 2: only the weaker
			// min(16, lowbit(A)) granularity that pvGetAlignmentAddend relies on)
			ull g = (endmode & 4) ? std::min<ull>(16, A & (~A + 1)) : 16;
			gA.gran = g;
			ull p0 = (BC > 1) ? 2ull * B * BC : 2ull * A;
			gA.period = p0 / std::__gcd<ull>(p0, 16) * 16;
			std::string failStr; size_t ex = resStr.find('!');
			if (ex != std::string::npos) { failStr = resStr.substr(ex + 1); resStr = resStr.substr(0, ex); }
			{ std::istringstream fs(failStr); std::string t2; while (std::getline(fs, t2, ',')) if (!t2.empty()) gA.failAt.insert(size_t(std::stoull(t2))); }
			gA.nAttempt = 0;
			std::istringstream rs(resStr); std::string tok;
			while (std::getline(rs, tok, ',')) gA.residues.push_back(std::stoull(tok) % gA.period / g * g);
		}
		std::vector<LiveBlock> live[2];
		std::map<uintptr_t, ull> all;          // every live block of both pools: address -> serial
		ull serial = 0;
		auto pattern = [&](ull ser, size_t i) { return uint8_t((ser * 131 + i * 7 + 17) & 0xFF); };
		auto fill = [&](uintptr_t a, ull ser) { for (size_t i = 0; i < B; ++i) reinterpret_cast<uint8_t*>(a)[i] = pattern(ser, i); };
		auto verify = [&](uintptr_t a, ull ser) { for (size_t i = 0; i < B; ++i) if (reinterpret_cast<uint8_t*>(a)[i] != pattern(ser, i)) return false; return true; };
		auto verifyAll = [&]() { for (auto& kv : all) if (!verify(kv.first, kv.second)) { fail("bytes written into a live block were overwritten by the pool"); return; } };
		auto checkCounts = [&]() {
			for (int p = 0; p < 2; ++p) if (pools[p].GetAllocateCount() != live[p].size())
				fail("GetAllocateCount " + std::to_string(pools[p].GetAllocateCount()) + " != live blocks " + std::to_string(live[p].size()));
			if (!gA.error.empty()) fail(gA.error);
		};
		auto checkLists = [&]() {
			if (BC == 1) return;
			size_t inList = 0;
			for (int p = 0; p < 2; ++p)
			{
				std::string d = dumpList(pools[p]);
				if (d.find("BROKEN") != std::string::npos) { fail("buffer list of pool " + std::to_string(p) + " is not a well-formed doubly linked list: " + d); return; }
				inList += countIds(d);
			}
			if (inList != gA.live.size()) fail("buffers in the lists " + std::to_string(inList) + " != buffers owned " + std::to_string(gA.live.size()) + " (orphaned buffer)");
			maxBuffers = std::max(maxBuffers, gA.live.size());
		};
		auto doAlloc = [&](int p) {
			if (pools[p].pvUseCache() && pools[p].mCachedCount > 0) ++nCacheHit;     // (read-only observation)
			void* blk;
			try { blk = pools[p].Allocate(); }
			catch (const std::bad_alloc&)
			{	// the manager refused: Allocate must leave the pool exactly as it was (strong guarantee)
				lastRet = "!"; checkLists(); verifyAll(); return;
			}
			uintptr_t a = reinterpret_cast<uintptr_t>(blk);
			if (a % A != 0) fail("block not aligned to blockAlignment");
			if (!gA.owns(a, B)) fail("block not inside memory obtained from the manager");
			auto it = all.lower_bound(a);
			if (it != all.end() && it->first < a + B) fail("block overlaps a live block (above)");
			if (it != all.begin()) { auto jt = std::prev(it); if (jt->first + B > a) fail("block overlaps a live block (below)"); }
			if (!failure.empty()) return;
			if (trace)
			{
				Byte* buffer = nullptr; int8_t idx = pools[p].pvGetBlockIndex(static_cast<Byte*>(blk), buffer);
				lastRet = std::to_string(gA.idOf(reinterpret_cast<uintptr_t>(buffer))) + "." + std::to_string(int(idx) - int(pools[p].pvGetFirstBlockIndex(buffer)));
			}
			fill(a, serial); all[a] = serial; live[p].push_back({a, serial}); ++serial;
			maxLive = std::max(maxLive, all.size());
		};
		auto doFree = [&](int p, size_t k) {
			if (live[p].empty()) return;
			k = (k >= 1000000000) ? live[p].size() - 1 : k % live[p].size();
			LiveBlock lb = live[p][k]; live[p].erase(live[p].begin() + long(k));
			if (!verify(lb.addr, lb.serial)) fail("bytes written into a live block were overwritten by the pool");
			all.erase(lb.addr);
			if (pools[p].pvUseCache() && pools[p].mCachedCount >= P::Params::cachedFreeBlockCount) ++nFlush;
			pools[p].Deallocate(reinterpret_cast<void*>(lb.addr));
		};
		std::string op;
		while (failure.empty() && (is >> op))
		{
			++nOps;
			int p = (op.size() > 1) ? op[1] - '0' : 0;
			if (p < 0 || p > 1) { fail("bad op"); break; }
			if (op[0] == 'a') doAlloc(p);
			else if (op[0] == 'f') doFree(p, size_t(std::stoull(op.substr(3))));
			else if (op[0] == 'i' && BC > 1)
			{
				size_t c1 = op.find(':', 3); ull m = std::stoull(op.substr(3, c1 - 3)), r = std::stoull(op.substr(c1 + 1));
				if (m == 0) m = 1;
				++nIf;
				size_t expectFreed = 0; for (auto& lb : live[p]) if (lb.serial % m == r % m) ++expectFreed;
				nFreedIf += expectFreed;
				size_t calls = 0; bool unknown = false;
				pools[p].DeallocateIf([&](void* blk) {
					++calls; auto it = all.find(reinterpret_cast<uintptr_t>(blk));
					if (it == all.end()) { unknown = true; return false; }
					return it->second % m == r % m; });
				if (unknown) fail("DeallocateIf offered a block that is not live");
				std::vector<LiveBlock> keep;
				for (auto& lb : live[p]) { if (lb.serial % m == r % m) { all.erase(lb.addr); } else keep.push_back(lb); }
				live[p].swap(keep);
				(void)expectFreed; (void)calls;
				verifyAll();
			}
			else if (op[0] == 'x' && BC > 1)
			{
				for (auto& lb : live[p]) all.erase(lb.addr);
				live[p].clear(); ++nAll;
				pools[p].DeallocateAll();
				verifyAll();
			}
			else if (op[0] == 's')
			{	// pools[0].Swap(pools[1])
				pools[0].Swap(pools[1]); ++nSwap;
				live[0].swap(live[1]);
				checkLists(); verifyAll();
			}
			else if (op[0] == 'v')
			{	// pools[d] = std::move(pools[s]); legal only when pools[d] has no allocated block (the destructor of its old state runs)
				int d = op[1] - '0', s2 = op[2] - '0';
				if (d == s2 || d < 0 || d > 1 || s2 < 0 || s2 > 1) { fail("bad move op"); break; }
				if (live[d].empty())
				{
					pools[d] = std::move(pools[s2]); ++nMove;
					live[d].swap(live[s2]); live[s2].clear();
					checkLists(); verifyAll();
				}
			}
			else if (op[0] == 'm')
			{
				int d = op[1] - '0', s = op[2] - '0';
				if (d == s || d < 0 || d > 1 || s < 0 || s > 1) { fail("bad merge op"); break; }
				if (unequalManagers) continue;    // MergeFrom requires equal managers (MOMO_CHECK)
				++nMerge;
				checkLists();
				bool srcCacheEmpty = pools[s].mCachedCount == 0;   // otherwise MergeFrom's flush changes the lists before the surgery
				std::string pd = dumpList(pools[d]), ps = dumpList(pools[s]);
				pools[d].MergeFrom(pools[s]);
				for (auto& lb : live[s]) live[d].push_back(lb);
				live[s].clear();
				if (BC > 1 && srcCacheEmpty)
				{
					merges << " | merge " << pd << " / " << ps << " -> " << dumpList(pools[d]) << " / " << dumpList(pools[s]);
					if (countIds(pd) > 0 && countIds(ps) > 0) ++nMergeNontrivial;
				}
				checkLists(); verifyAll();
			}
			checkCounts();
			if ((nOps & 31) == 0) { verifyAll(); checkLists(); }
			if (trace && failure.empty())
			{
				std::string st = "P0 " + stateOf(pools[0]) + " P1 " + stateOf(pools[1]);
				char hb[16]; snprintf(hb, sizeof hb, "%08x", fnv1a(st));
				tr << lastRet << "#" << hb << " "; lastRet = "-";
				if (is.rdbuf()->in_avail() <= 0 || is.peek() == EOF) tr << "| " << st;
			}
		}
		if (trace && failure.empty() && nOps == 0) tr << "| P0 " << stateOf(pools[0]) << " P1 " << stateOf(pools[1]);
		// the end game: every live block individually freeable, in an adversarial order
		verifyAll(); checkLists();
		if (failure.empty())
		{
			if (unequalManagers) { while (!live[1].empty() && failure.empty()) { doFree(1, live[1].size() - 1); checkCounts(); } }   // no MergeFrom between different managers
			else
			{
				for (auto& lb : live[1]) live[0].push_back(lb);
				if (!live[1].empty()) { pools[0].MergeFrom(pools[1]); live[1].clear(); checkLists(); }
			}
			std::vector<LiveBlock>& L = live[0];
			Sm64 rng{endmode * 977 + 5};
			if (endmode % 4 == 1) std::reverse(L.begin(), L.end());
			else if (endmode % 4 == 2) for (size_t i = L.size(); i > 1; --i) std::swap(L[i - 1], L[rng.below(i)]);
			else if (endmode % 4 == 3) std::sort(L.begin(), L.end(), [](const LiveBlock& x, const LiveBlock& y) { return x.addr > y.addr; });
			size_t cnt = 0;
			while (!L.empty() && failure.empty())
			{
				doFree(0, endmode % 4 == 0 ? 0 : L.size() - 1);
				checkCounts();
				if ((++cnt & 63) == 0) checkLists();
			}
			checkLists();
		}
		if (!failure.empty())
		{	// a broken pool must not run its destructor over a corrupted list
			for (int p = 0; p < 2; ++p) { pools[p].mFreeBufferHead = nullptr; pools[p].mData.allocCount = 0; pools[p].mCachedCount = 0; }
		}
	}
	if (failure.empty() && !gA.live.empty()) failure = "memory not returned: " + std::to_string(gA.live.size()) + " manager block(s) still owned after the pools were destroyed";
	if (failure.empty() && gA.nAlloc != gA.nDealloc) failure = "manager Allocate/Deallocate counts differ";
	if (failure.empty() && !gA.error.empty()) failure = gA.error;
	if (trace) return failure.empty() ? tr.str() : "FAIL " + failure;
	std::ostringstream o;
	if (!failure.empty()) o << "FAIL " << failure;
	else o << "ok ops=" << nOps << " maxlive=" << maxLive << " buffers=" << gA.nAlloc << " maxbuffers=" << maxBuffers << " merges=" << nMerge << " mergesnt=" << nMergeNontrivial << " ifs=" << nIf
		<< " freedif=" << nFreedIf << " alls=" << nAll << " swaps=" << nSwap << " moves=" << nMove << " flushes=" << nFlush << " cachehits=" << nCacheHit << " returned=" << gA.nDealloc << " refused=" << gA.nRefused << " mgrs=" << ((endmode & 8) ? 2 : 1);
	o << merges.str();
	return o.str();
}

// run one case in a forked child so that a failing MOMO_ASSERT / crash of the real code costs one case, not the run
template<class F> static std::string forked(F f)
{
	int fd[2];
	if (pipe(fd) != 0) return "harness: pipe failed";
	fflush(stdout);
	pid_t pid = fork();
	if (pid < 0) return "harness: fork failed";
	if (pid == 0)
	{
		close(fd[0]);
		signal(SIGSEGV, SIG_DFL); signal(SIGABRT, SIG_DFL); signal(SIGBUS, SIG_DFL); signal(SIGFPE, SIG_DFL);
		int dn = open("/dev/null", O_WRONLY); if (dn >= 0) dup2(dn, 2);
		signal(SIGALRM, SIG_DFL); alarm(10);   // a corrupted list can make the real code loop forever
		std::string r;
		try { r = f(); } catch (const std::exception& e) { r = std::string("EXC ") + e.what(); }
		size_t off = 0;
		while (off < r.size()) { ssize_t n = write(fd[1], r.data() + off, r.size() - off); if (n <= 0) break; off += size_t(n); }
		_exit(0);
	}
	close(fd[1]);
	std::string r; char buf[4096]; ssize_t n;
	while ((n = read(fd[0], buf, sizeof buf)) > 0) r.append(buf, size_t(n));
	close(fd[0]);
	int st = 0; waitpid(pid, &st, 0);
	if (WIFSIGNALED(st))
		return WTERMSIG(st) == SIGABRT ? "Stuck" : WTERMSIG(st) == SIGALRM ? "CRASH timeout (the real code does not terminate)" : "CRASH signal " + std::to_string(WTERMSIG(st));   // SIGABRT = a MOMO_ASSERT of the real code failed
	return r;
}


// ------------------------------------------------------------------ MemPoolUInt32 (the 32-bit-handle pool of MemPool.h) - oracle only
// u32 BC blockSize maxTotal ops...    ops: a | f:<k> | x (DeallocateAll)
template<size_t BC> static std::string u32Case(std::istringstream& is, bool trace = false)
{
	typedef internal::MemPoolUInt32<BC, PlaceMM> P;
	ull bs, maxTotal; is >> bs >> maxTotal;
	gA.reset();
	std::string failure, trc; size_t nOps = 0, refused = 0, maxLive = 0;
	auto fail = [&](const std::string& s) { if (failure.empty()) failure = s + " (op #" + std::to_string(nOps) + ")"; };
	{
		PlaceMM mm; P pool{size_t(bs), std::move(mm), size_t(maxTotal)};
		const size_t B = std::max<size_t>(size_t(bs), 4);
		std::vector<std::pair<uint32_t, ull>> live; std::map<uintptr_t, ull> all; ull serial = 0;
		auto pattern = [&](ull ser, size_t i) { return uint8_t((ser * 131 + i * 7 + 17) & 0xFF); };
		auto verify = [&](uintptr_t a, ull ser) { for (size_t i = 0; i < B; ++i) if (reinterpret_cast<uint8_t*>(a)[i] != pattern(ser, i)) return false; return true; };
		std::string op; std::string lastRet;
		// u32tr: after every op  <returned handle | E | ->/<mBlockHead>/<buffer count>/<mAllocCount>/<free-list length>#<hash of the handles in list order>
		// (the free list is walked through the REAL memory: uint32 stored in each free block, starting at the private mBlockHead)
		auto token = [&]() -> std::string {
			size_t nbuf = pool.mBuffers.GetCount(); uint32_t h = pool.mBlockHead; size_t len = 0; uint32_t hash = 2166136261u;
			while (h != P::nullPtr)
			{
				if (size_t(h) >= nbuf * BC) return lastRet + "/BROKEN(free handle " + std::to_string(h) + " out of range)";
				if (++len > nbuf * BC) return lastRet + "/CYCLE";
				hash = (hash * 16777619u) ^ h;
				uint32_t nx; std::memcpy(&nx, pool.template GetRealPointer<void>(h), sizeof nx); h = nx;
			}
			return lastRet + "/" + std::to_string(pool.mBlockHead) + "/" + std::to_string(nbuf) + "/" + std::to_string(pool.mAllocCount) + "/" + std::to_string(len) + "#" + std::to_string(hash);
		};
		while (failure.empty() && (is >> op))
		{
			++nOps;
			if (nOps > 1 && trace) trc += token() + " ";
			lastRet = "-";
			if (op[0] == 'a')
			{
				uint32_t h;
				try { h = pool.Allocate(); }
				catch (const std::length_error&) { ++refused; lastRet = "E"; if (live.size() + BC <= maxTotal / BC * BC) fail("Allocate refused below maxTotalBlockCount"); continue; }
				lastRet = std::to_string(h);
				if (h == P::nullPtr) fail("Allocate returned the null handle");
				for (auto& lv : live) if (lv.first == h) fail("handle handed out twice");
				uintptr_t a = reinterpret_cast<uintptr_t>(pool.template GetRealPointer<void>(h));
				if (!gA.owns(a, B)) fail("block not inside memory obtained from the manager");
				auto it = all.lower_bound(a);
				if (it != all.end() && it->first < a + B) fail("block overlaps a live block (above)");
				if (it != all.begin()) { auto jt = std::prev(it); if (jt->first + B > a) fail("block overlaps a live block (below)"); }
				if (live.size() >= maxTotal) fail("more blocks than maxTotalBlockCount");
				if (!failure.empty()) break;
				for (size_t i = 0; i < B; ++i) reinterpret_cast<uint8_t*>(a)[i] = pattern(serial, i);
				all[a] = serial; live.push_back({h, serial}); ++serial; maxLive = std::max(maxLive, live.size());
			}
			else if (op[0] == 'f')
			{
				if (live.empty()) continue;
				size_t k = size_t(std::stoull(op.substr(2))); k = (k >= 1000000000) ? live.size() - 1 : k % live.size();
				auto lv = live[k]; live.erase(live.begin() + long(k));
				uintptr_t a = reinterpret_cast<uintptr_t>(pool.template GetRealPointer<void>(lv.first));
				if (!verify(a, lv.second)) fail("bytes written into a live block were overwritten by the pool");
				all.erase(a); pool.Deallocate(lv.first);
			}
			else if (op[0] == 'x') { pool.DeallocateAll(); live.clear(); all.clear(); }
			for (auto& lv : live)
				if (!gA.owns(reinterpret_cast<uintptr_t>(pool.template GetRealPointer<void>(lv.first)), B)) fail("a live block is no longer inside owned memory");
			if (!gA.error.empty()) fail(gA.error);
		}
		if (nOps > 0 && trace && failure.empty()) trc += token();
		for (auto& kv : all) if (failure.empty() && !verify(kv.first, kv.second)) fail("bytes written into a live block were overwritten by the pool");
		while (failure.empty() && !live.empty()) { pool.Deallocate(live.back().first); live.pop_back(); }
		if (!failure.empty()) { pool.mAllocCount = 0; }
	}
	if (failure.empty() && !gA.live.empty()) failure = "memory not returned: " + std::to_string(gA.live.size()) + " manager block(s) still owned after the pool was destroyed";
	if (failure.empty() && !gA.error.empty()) failure = gA.error;
	if (!failure.empty()) return "FAIL " + failure;
	if (trace) return trc;
	return "ok ops=" + std::to_string(nOps) + " maxlive=" + std::to_string(maxLive) + " refused=" + std::to_string(refused) + " mgrallocs=" + std::to_string(gA.nAlloc);
}


// u32gp BC bs nbuf h : real GetRealPointer(h) after nbuf buffers were created: buffer number, offset in it, pvGetBufferSize
// u32nb BC bs maxTotal nbuf : real pvNewBuffer() with nbuf buffers present: new mBlockHead | Exn
template<size_t BC> static std::string u32Arith(const std::string& cmd, std::istringstream& is)
{
	typedef internal::MemPoolUInt32<BC, PlaceMM> P;
	gA.reset(); char out[200];
	std::string res;
	if (cmd == "u32gp")
	{
		ull bs, nbuf, h; is >> bs >> nbuf >> h;
		PlaceMM mm; P pool{size_t(bs), std::move(mm), size_t(1000000)};
		std::vector<uint32_t> hs; for (size_t i = 0; i < nbuf * BC; ++i) hs.push_back(pool.Allocate());
		uintptr_t p = reinterpret_cast<uintptr_t>(pool.template GetRealPointer<void>(uint32_t(h)));
		long k = -1; for (size_t i = 0; i < pool.mBuffers.GetCount(); ++i)
		{ uintptr_t b = reinterpret_cast<uintptr_t>(pool.mBuffers[i]); if (b <= p && p < b + pool.pvGetBufferSize()) k = long(i); }
		snprintf(out, sizeof out, "%ld %llu %llu", k, k >= 0 ? ull(p - reinterpret_cast<uintptr_t>(pool.mBuffers[size_t(k)])) : 0ull, ull(pool.pvGetBufferSize()));
		res = out; for (uint32_t x : hs) pool.Deallocate(x);
	}
	else
	{
		ull bs, maxTotal, nbuf; is >> bs >> maxTotal >> nbuf;
		PlaceMM mm; P pool{size_t(bs), std::move(mm), size_t(maxTotal)};
		std::vector<uint32_t> hs; for (size_t i = 0; i < nbuf * BC; ++i) hs.push_back(pool.Allocate());
		try { pool.pvNewBuffer(); res = std::to_string(ull(pool.mBlockHead)); } catch (const std::length_error&) { res = "Exn"; }
		pool.DeallocateAll();
	}
	return res;
}

// ctor BC bs al : constructing a pool with (possibly absurd) parameters: ok | length_error | Stuck (a MOMO_CHECK assertion)
template<size_t BC> static std::string ctorCase(std::istringstream& is)
{
	ull bs, al; is >> bs >> al; gA.reset();
	try
	{
		typename Pool<BC, 0>::Params prm{size_t(bs), size_t(al)}; Pool<BC, 0> pool(prm);
		// an accepted size must be usable: the first Allocate either gets its memory (and the block lies inside it) or the
		// manager refuses the (huge) request - it must never be asked for a wrapped, too small size
		try
		{
			void* blk = pool.Allocate();
			uintptr_t a = reinterpret_cast<uintptr_t>(blk);
			bool inside = gA.owns(a, pool.GetBlockSize()) && a % pool.GetBlockAlignment() == 0;
			bool bigEnough = gA.lastAllocSize >= pool.GetBlockSize();
			pool.Deallocate(blk);
			if (!inside || !bigEnough) return "FAIL accepted block size but the block is not inside the memory requested";
		}
		catch (const std::bad_alloc&) { if (!gA.live.empty()) return "FAIL leak after refused allocation"; }
	}
	catch (const std::length_error&) { return gA.nAlloc == 0 ? "length_error" : "FAIL allocated before throwing"; }
	return "ok";
}

template<size_t BC, size_t CF> static std::string histCase(std::istringstream& is, bool trace = false) { return histCaseP<Pool<BC, CF>>(is, trace); }

// the audit variants, selected by the suffix of the command (hist@n, tr@s, ...)
static std::string histVariant(char v, ull bc, ull cf, ull bs, ull al, std::istringstream& is, bool trace)
{
	if (v == 'n') { if (bc == 32 && cf == 16) return histCaseP<PoolN<32, 16>>(is, trace); if (bc == 2 && cf == 0) return histCaseP<PoolN<2, 0>>(is, trace); if (bc == 1 && cf == 1) return histCaseP<PoolN<1, 1>>(is, trace); }
	if (v == 's') { if (bs == 24 && al == 8 && bc == 32 && cf == 16) return histCaseP<PoolS<24, 8, 32, 16>>(is, trace);
		if (bs == 5 && al == 3 && bc == 1 && cf == 0) return histCaseP<PoolS<5, 3, 1, 0>>(is, trace);
		if (bs == 17 && al == 16 && bc == 2 && cf == 1) return histCaseP<PoolS<17, 16, 2, 1>>(is, trace); }
	if (v == 'x') { if (bc == 4 && cf == 2) return histCaseP<Pool<4, 2>>(is, trace); if (bc == 64 && cf == 64) return histCaseP<Pool<64, 64>>(is, trace);
		if (bc == 126 && cf == 3) return histCaseP<Pool<126, 3>>(is, trace); if (bc == 1 && cf == 2) return histCaseP<Pool<1, 2>>(is, trace); }
	return "?variant";
}

#define DISPATCH(F, bc, cf, ...) \
	((bc) == 1 ? ((cf) == 0 ? F<1, 0>(__VA_ARGS__) : (cf) == 1 ? F<1, 1>(__VA_ARGS__) : F<1, 16>(__VA_ARGS__)) : \
	 (bc) == 2 ? ((cf) == 0 ? F<2, 0>(__VA_ARGS__) : (cf) == 1 ? F<2, 1>(__VA_ARGS__) : F<2, 16>(__VA_ARGS__)) : \
	 (bc) == 3 ? ((cf) == 0 ? F<3, 0>(__VA_ARGS__) : (cf) == 1 ? F<3, 1>(__VA_ARGS__) : F<3, 16>(__VA_ARGS__)) : \
	 (bc) == 31 ? ((cf) == 0 ? F<31, 0>(__VA_ARGS__) : (cf) == 1 ? F<31, 1>(__VA_ARGS__) : F<31, 16>(__VA_ARGS__)) : \
	 (bc) == 32 ? ((cf) == 0 ? F<32, 0>(__VA_ARGS__) : (cf) == 1 ? F<32, 1>(__VA_ARGS__) : F<32, 16>(__VA_ARGS__)) : \
	 ((cf) == 0 ? F<127, 0>(__VA_ARGS__) : (cf) == 1 ? F<127, 1>(__VA_ARGS__) : F<127, 16>(__VA_ARGS__)))

int main()
{
	gA.init();
	signal(SIGSEGV, onCrash); signal(SIGABRT, onCrash); signal(SIGBUS, onCrash); signal(SIGFPE, onCrash);
	std::string line;
	while (std::getline(std::cin, line))
	{
		gCurrent = line;
		std::istringstream is(line); std::string cmd; is >> cmd;
		std::string out;
		try
		{
			if (cmd == "ceil") { ull v, m; is >> v >> m; out = std::to_string(ull(internal::UIntMath<size_t>::Ceil(size_t(v), size_t(m)))); }
			else if (cmd == "cbs") { ull bs, al, bc; is >> bs >> al >> bc; out = std::to_string(ull(MemPoolConst::CorrectBlockSize(size_t(bs), size_t(al), size_t(bc)))); }
			else if (cmd == "chk") { ull bc, al; is >> bc >> al; out = std::to_string(int(MemPoolConst::CheckBlockCount(size_t(bc)))) + " " + std::to_string(int(MemPoolConst::CheckBlockAlignment(size_t(al)))); }
			else if (cmd == "dswap")		// MemPool::Data::Swap on two Data objects whose managers have the given identities
			{
				long long m, a, dm, da; is >> m >> a >> dm >> da;
				typedef Pool<2, 0> P;
				// manager value m = 100 * id + tag: IsEqual compares the id only, the tag tells the two OBJECTS apart
				P::Data d1{PlaceMM(int(m / 100), int(m % 100))}; d1.allocCount = size_t(a);
				P::Data d2{PlaceMM(int(dm / 100), int(dm % 100))}; d2.allocCount = size_t(da);
				d1.Swap(d2);
				out = std::to_string(d1.id * 100 + d1.tag) + " " + std::to_string(d1.allocCount) + " " + std::to_string(d2.id * 100 + d2.tag) + " " + std::to_string(d2.allocCount);
			}
			else if (cmd == "gba") { ull bs, ma; is >> bs >> ma; out = std::to_string(ull(MemPoolConst::GetBlockAlignment(size_t(bs), size_t(ma)))); }
			else if (cmd == "gbp")		// MemPoolParams<>(blockSize): the default alignment is GetBlockAlignment(blockSize) with the default maxAlignment
			{
				ull bs; is >> bs;
				MemPoolParams<> params{size_t(bs)};
				out = std::to_string(ull(internal::UIntConst::maxAlignment)) + " " + std::to_string(ull(MemPoolParams<>::blockCount)) + " "
					+ std::to_string(ull(MemPoolConst::GetBlockAlignment(size_t(bs)))) + " " + std::to_string(ull(params.GetBlockAlignment())) + " " + std::to_string(ull(params.GetBlockSize()));
			}
			else if (cmd == "ar" || cmd == "gb" || cmd == "gi" || cmd == "pos" || cmd == "nb1" || cmd == "nbuf" || cmd == "al1")
			{
				ull bc, cf; is >> bc >> cf;
				if (!(bc == 1 || bc == 2 || bc == 3 || bc == 31 || bc == 32 || bc == 127) || !(cf == 0 || cf == 1 || cf == 16)) out = "?";
				else if (cmd == "nb1" || cmd == "nbuf" || cmd == "al1") out = forked([&] { return DISPATCH(tvCase, bc, cf, cmd, is); });
				else out = DISPATCH(tvCase, bc, cf, cmd, is);
			}
			else if (cmd == "fabmg" || cmd == "fabmv" || cmd == "fabdel") out = forked([&] { return fabCase(cmd, is); });
			else if (cmd.size() > 3 && (cmd.compare(0, 5, "hist@") == 0 || cmd.compare(0, 3, "tr@") == 0))
			{
				bool trace = cmd[0] == 't'; char v = cmd[cmd.find('@') + 1];
				ull bc, cf; is >> bc >> cf;
				std::streampos pos = is.tellg(); ull bs = 0, al = 0; is >> bs >> al; is.seekg(pos);
				out = forked([&] { return histVariant(v, bc, cf, bs, al, is, trace); });
			}
			else if (cmd == "tr")
			{
				ull bc, cf; is >> bc >> cf;
				if (!(bc == 1 || bc == 2 || bc == 3 || bc == 31 || bc == 32 || bc == 127) || !(cf == 0 || cf == 1 || cf == 16)) out = "?";
				else out = forked([&] { return DISPATCH(histCase, bc, cf, is, true); });
			}
			else if (cmd == "hist")
			{
				ull bc, cf; is >> bc >> cf;
				if (!(bc == 1 || bc == 2 || bc == 3 || bc == 31 || bc == 32 || bc == 127) || !(cf == 0 || cf == 1 || cf == 16)) out = "?";
				else out = forked([&] { return DISPATCH(histCase, bc, cf, is, false); });
			}
			else if (cmd == "u32")
			{
				ull bc; is >> bc;
				out = forked([&] { return bc == 1 ? u32Case<1>(is) : bc == 2 ? u32Case<2>(is) : bc == 16 ? u32Case<16>(is) : bc == 32 ? u32Case<32>(is) : std::string("?"); });
			}
			else if (cmd == "u32tr")
			{
				ull bc; is >> bc;
				out = forked([&] { return bc == 1 ? u32Case<1>(is, true) : bc == 2 ? u32Case<2>(is, true) : bc == 16 ? u32Case<16>(is, true) : bc == 32 ? u32Case<32>(is, true) : std::string("?"); });
			}
			else if (cmd == "u32gp" || cmd == "u32nb")
			{
				ull bc; is >> bc;
				out = forked([&] { return bc == 1 ? u32Arith<1>(cmd, is) : bc == 2 ? u32Arith<2>(cmd, is) : bc == 16 ? u32Arith<16>(cmd, is) : bc == 32 ? u32Arith<32>(cmd, is) : std::string("?"); });
			}
			else if (cmd == "ctor")
			{
				ull bc; is >> bc;
				out = forked([&] { return bc == 1 ? ctorCase<1>(is) : bc == 2 ? ctorCase<2>(is) : bc == 32 ? ctorCase<32>(is) : bc == 127 ? ctorCase<127>(is) : std::string("?"); });
			}
			else if (cmd == "consts") out = std::to_string(ull(internal::UIntConst::maxAllocAlignment)) + " " + std::to_string(ull(internal::UIntConst::maxSize)) + " " + std::to_string(ull(sizeof(void*)));
			else out = "?";
		}
		catch (const std::exception& e) { out = std::string("EXC ") + e.what(); }
		puts(out.c_str()); fflush(stdout);
	}
	return 0;
}
