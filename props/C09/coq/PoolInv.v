(* C09: the whole-history invariant of the concrete pool model PoolConc and its consequences. *)
From Coq Require Import ZArith List Bool Lia Permutation.
From MomoCommon Require Import GenPrelude.
From C09 Require Import PoolConc.
From C09 Require PoolConcProofs.
Import ListNotations.
Local Open Scope Z_scope.

(* ---------- list helpers ---------- *)
Lemma removez_In x b l : In x (removez b l) <-> In x l /\ x <> b.
Proof.
  induction l as [|a t IH]; simpl; [tauto|]. destruct (Z.eqb_spec a b); simpl; rewrite IH; intuition congruence.
Qed.
Lemma removez_NoDup b l : NoDup l -> NoDup (removez b l).
Proof.
  induction 1 as [|a t Na ND IH]; simpl; [constructor|]. destruct (a =? b); [exact IH|].
  constructor; [rewrite removez_In; tauto|exact IH].
Qed.
Lemma removez_notin b l : ~ In b l -> removez b l = l.
Proof.
  induction l as [|a t IH]; simpl; intros H; [reflexivity|]. destruct (Z.eqb_spec a b); [subst; tauto|]. f_equal. tauto.
Qed.
Lemma blk_eqb_spec a b : reflect (a = b) (blk_eqb a b).
Proof.
  destruct a as [a1 a2], b as [b1 b2]. unfold blk_eqb. simpl.
  destruct (Z.eqb_spec a1 b1), (Z.eqb_spec a2 b2); simpl; constructor; congruence.
Qed.
Lemma removeb_In x b l : In x (removeb b l) <-> In x l /\ x <> b.
Proof.
  induction l as [|a t IH]; simpl; [tauto|]. destruct (blk_eqb_spec a b); simpl; rewrite IH; intuition congruence.
Qed.
Lemma removeb_NoDup b l : NoDup l -> NoDup (removeb b l).
Proof.
  induction 1 as [|a t Na ND IH]; simpl; [constructor|]. destruct (blk_eqb a b); [exact IH|].
  constructor; [rewrite removeb_In; tauto|exact IH].
Qed.
Lemma removeb_notin b l : ~ In b l -> removeb b l = l.
Proof.
  induction l as [|a t IH]; simpl; intros H; [reflexivity|]. destruct (blk_eqb_spec a b); [subst; tauto|]. f_equal. tauto.
Qed.
Lemma lenz_removeb b l : NoDup l -> In b l -> lenz (removeb b l) = lenz l - 1.
Proof.
  induction 1 as [|a t Na ND IH]; intros Hin; [destruct Hin|]. cbn [removeb lenz].
  destruct (blk_eqb_spec a b) as [E|E].
  - subst. rewrite removeb_notin by assumption. lia.
  - destruct Hin as [|Hin]; [congruence|]. cbn [lenz]. rewrite IH by assumption. lia.
Qed.
Lemma lenz_app {A} (l1 l2 : list A) : lenz (l1 ++ l2) = lenz l1 + lenz l2.
Proof. induction l1; cbn [app lenz]; lia. Qed.
Lemma lenz_nonneg {A} (l : list A) : 0 <= lenz l.
Proof. induction l; cbn [lenz]; lia. Qed.
Lemma NoDup_app_iff {A} (l1 l2 : list A) : NoDup (l1 ++ l2) <-> NoDup l1 /\ NoDup l2 /\ (forall x, In x l1 -> In x l2 -> False).
Proof.
  induction l1 as [|a t IH]; simpl.
  - split; [intros H; repeat split; auto; constructor|tauto].
  - split.
    + intros H. inversion H as [|? ? Na ND]; subst. apply IH in ND. destruct ND as (N1 & N2 & D).
      repeat split; auto.
      * constructor; auto. intro; apply Na; apply in_or_app; auto.
      * intros x [E|Hx] H2; [subst; apply Na; apply in_or_app; auto|eauto].
    + intros (N1 & N2 & D). inversion N1 as [|? ? Na ND]; subst. constructor.
      * rewrite in_app_iff. intros [H|H]; [auto|exact (D a (or_introl eq_refl) H)].
      * apply IH. repeat split; auto. intros x H1 H2. exact (D x (or_intror H1) H2).
Qed.
Lemma upto_In n : forall i x, In x (upto n i) <-> i <= x < i + Z.of_nat n.
Proof. induction n as [|n IH]; intros i x; simpl; [lia|]. rewrite IH. lia. Qed.
Lemma upto_NoDup n : forall i, NoDup (upto n i).
Proof. induction n as [|n IH]; intros i; simpl; constructor; auto. rewrite upto_In. lia. Qed.
Lemma upto_length n : forall i, length (upto n i) = n.
Proof. induction n; intros; simpl; auto. Qed.

(* ---------- projections of the small steps ---------- *)
Lemma getp_setp_eq w p x : getp (setp w p x) p = x.
Proof. destruct p; reflexivity. Qed.
Lemma getp_setp_neq w p q x : p <> q -> getp (setp w q x) p = getp w p.
Proof. destruct p, q; try congruence; reflexivity. Qed.

Lemma chain_walk_ext n : forall w w' b i,
  (forall j, In j (chain_walk n w b i) -> nx w' b j = nx w b j) -> chain_walk n w' b i = chain_walk n w b i.
Proof.
  induction n as [|n IH]; intros w w' b i H; simpl; [reflexivity|]. f_equal.
  rewrite (H i) by (simpl; auto). apply IH. intros j Hj. apply H. simpl. right. exact Hj.
Qed.
Lemma chain_of_ext w w' b : fc w' b = fc w b -> fb w' b = fb w b -> (forall j, nx w' b j = nx w b j) -> chain_of w' b = chain_of w b.
Proof. intros E1 E2 E3. unfold chain_of. rewrite E1, E2. apply chain_walk_ext. intros; apply E3. Qed.
Lemma chain_walk_length n w b i : length (chain_walk n w b i) = n.
Proof. revert i. induction n; intros; simpl; auto. Qed.

(* a world differs from another only in its pool records *)
Definition same_maps (w' w : cworld) : Prop := fb w' = fb w /\ fc w' = fc w /\ nx w' = nx w /\ fresh w' = fresh w /\ returned w' = returned w.
Lemma same_maps_chain w' w b : same_maps w' w -> chain_of w' b = chain_of w b.
Proof. intros (E1 & E2 & E3 & _). apply chain_of_ext; [rewrite E2|rewrite E1|rewrite E3]; reflexivity. Qed.
Lemma setp_same_maps w p x : same_maps (setp w p x) w.
Proof. destruct p; repeat split. Qed.

Section Inv.
Variable C : Z.
Hypothesis HC : 1 <= C.

Definition own (x : cpool) : list Z := lfull x ++ lfree x.
Definition lb (x : cpool) : list blk := live x ++ cache x.

(* facts about the maps that do not depend on the pools *)
Definition G (w : cworld) : Prop :=
  (forall b, 0 <= fc w b /\ NoDup (chain_of w b) /\ (forall x, In x (chain_of w b) -> 0 <= x < C)) /\
  (forall b, In b (returned w) -> b < fresh w) /\ 1 <= fresh w.

Definition okblk (w : cworld) (x : cpool) (bk : blk) : Prop :=
  0 <= snd bk < C /\ ~ In (snd bk) (chain_of w (fst bk)) /\ In (fst bk) (own x).

(* facts about one pool record; hx is the pool's "hole": a block that is, in the middle of an operation, neither free nor
   live nor cached (just taken from a chain or the cache, or just removed from the live set and not yet pushed back) *)
Definition Pl (w : cworld) (x : cpool) (hx : option blk) : Prop :=
  NoDup (own x) /\
  (forall b, In b (own x) -> 1 <= b < fresh w /\ ~ In b (returned w)) /\
  (forall b, In b (lfree x) -> 1 <= fc w b) /\
  (forall b, In b (lfull x) -> fc w b = 0) /\
  (lfree x = [] -> lfull x = []) /\
  NoDup (lb x) /\
  (forall bk, In bk (lb x) \/ hx = Some bk -> okblk w x bk) /\
  (forall bk, hx = Some bk -> ~ In bk (lb x)) /\
  acount x = lenz (live x).

(* the invariant, seen from pool q (the pool an operation works on); the other pool has no hole *)
Definition Jq (q : bool) (hq : option blk) (w : cworld) : Prop :=
  G w /\ Pl w (getp w q) hq /\ Pl w (getp w (negb q)) None /\
  (forall b, In b (own (getp w q)) -> In b (own (getp w (negb q))) -> False).
Definition J (w : cworld) : Prop := Jq false None w.

Lemma Jq_sym q w : Jq q None w <-> Jq (negb q) None w.
Proof. unfold Jq. rewrite negb_involutive. split; intros (g & a & b & d); (split; [exact g|split; [exact b|split; [exact a|intros x H1 H2; exact (d x H2 H1)]]]). Qed.
Lemma J_any q w : J w <-> Jq q None w.
Proof. destruct q; [apply (Jq_sym false)|reflexivity]. Qed.

Lemma Pl_empty w : Pl w empty_pool None.
Proof.
  unfold Pl, own, lb, okblk. simpl. split; [constructor|]. split; [intros b []|]. split; [intros b []|]. split; [intros b []|].
  split; [reflexivity|]. split; [constructor|]. split; [intros bk [[]|E]; discriminate|]. split; [intros bk E; discriminate|reflexivity].
Qed.
Lemma J_empty : J empty_world.
Proof.
  unfold J, Jq. split; [|split; [apply Pl_empty|split; [apply Pl_empty|intros b []]]].
  unfold G, chain_of. simpl. split; [intros b; split; [lia|split; [constructor|intros x []]]|split; [intros b []|lia]].
Qed.

(* a pool record untouched by a step keeps its facts if the maps agree on its buffers *)
Lemma Pl_frame w w' x :
  Pl w x None ->
  (forall b, In b (own x) -> fc w' b = fc w b /\ chain_of w' b = chain_of w b) ->
  fresh w <= fresh w' ->
  (forall b, In b (own x) -> ~ In b (returned w')) ->
  Pl w' x None.
Proof.
  intros (P1 & P2 & P3 & P4 & P5 & P6 & P7 & P8 & P9) M F R. unfold Pl.
  split; [exact P1|]. split; [intros b Hb; specialize (P2 b Hb); specialize (R b Hb); split; [lia|exact R]|].
  split; [intros b Hb; destruct (M b) as (E & _); [unfold own; apply in_or_app; auto|]; rewrite E; auto|].
  split; [intros b Hb; destruct (M b) as (E & _); [unfold own; apply in_or_app; auto|]; rewrite E; auto|].
  split; [exact P5|]. split; [exact P6|]. split; [|split; [exact P8|exact P9]].
  intros bk Hb. destruct (P7 bk Hb) as (a1 & a2 & a3). unfold okblk. split; [exact a1|]. split; [|exact a3].
  destruct (M (fst bk) a3) as (_ & E). rewrite E. exact a2.
Qed.

Lemma G_same_maps w w' : same_maps w' w -> G w -> G w'.
Proof.
  intros SM (g1 & g2 & g3). pose proof SM as (E1 & E2 & E3 & E4 & E5). unfold G. rewrite E4, E5, E2.
  split; [|split; assumption]. intros b. rewrite (same_maps_chain _ _ b SM). apply g1.
Qed.
Lemma Pl_same_maps w w' x hx : same_maps w' w -> Pl w x hx -> Pl w' x hx.
Proof.
  intros SM (P1 & P2 & P3 & P4 & P5 & P6 & P7 & P8 & P9). pose proof SM as (E1 & E2 & E3 & E4 & E5).
  unfold Pl, okblk in *. rewrite E4, E5, E2. repeat (split; [assumption|]). split; [|split; assumption].
  intros bk Hb. rewrite (same_maps_chain _ _ (fst bk) SM). apply P7. exact Hb.
Qed.

(* a step that only replaces the record of pool q *)
Lemma step_pool q hq hq' w x' :
  Jq q hq w -> Pl w x' hq' -> (forall b, In b (own x') -> In b (own (getp w q))) -> Jq q hq' (setp w q x').
Proof.
  intros (g & a & o & d) P Sub. pose proof (setp_same_maps w q x') as SM.
  unfold Jq. rewrite getp_setp_eq. rewrite getp_setp_neq by (destruct q; discriminate).
  split; [exact (G_same_maps _ _ SM g)|]. split; [exact (Pl_same_maps _ _ _ _ SM P)|].
  split; [exact (Pl_same_maps _ _ _ _ SM o)|]. intros b H1 H2. exact (d b (Sub b H1) H2).
Qed.

Lemma add_live_J q bk w : Jq q (Some bk) w -> Jq q None (add_live w q bk).
Proof.
  intros Jw. unfold add_live. apply step_pool with (hq := Some bk); [exact Jw| |auto].
  destruct Jw as (_ & (P1 & P2 & P3 & P4 & P5 & P6 & P7 & P8 & P9) & _). set (x := getp w q) in *.
  unfold Pl, own, lb in *. cbn [lfull lfree cache acount live].
  repeat (split; [assumption|]). split; [|split; [|split]].
  - simpl. constructor; [apply P8; reflexivity|exact P6].
  - intros bk' [H|H]; [|discriminate]. simpl in H. unfold okblk, own in *. cbn [lfull lfree].
    destruct H as [<-|H]; apply P7; auto.
  - intros bk' E. discriminate.
  - cbn [lenz]. rewrite P9. lia.
Qed.

Lemma remove_live_J q bk w : Jq q None w -> In bk (live (getp w q)) -> Jq q (Some bk) (remove_live w q bk).
Proof.
  intros Jw Hin. unfold remove_live. apply step_pool with (hq := None); [exact Jw| |auto].
  destruct Jw as (_ & (P1 & P2 & P3 & P4 & P5 & P6 & P7 & P8 & P9) & _). set (x := getp w q) in *.
  unfold Pl, own, lb in *. cbn [lfull lfree cache acount live].
  apply NoDup_app_iff in P6. destruct P6 as (N1 & N2 & D).
  repeat (split; [assumption|]). split; [|split; [|split]].
  - apply NoDup_app_iff. split; [apply removeb_NoDup; exact N1|]. split; [exact N2|].
    intros y H1 H2. apply removeb_In in H1. exact (D y (proj1 H1) H2).
  - intros bk' [H|H].
    + unfold okblk, own in *. cbn [lfull lfree]. apply P7. left. rewrite in_app_iff in *. rewrite removeb_In in H. tauto.
    + inversion H; subst. unfold okblk, own in *. cbn [lfull lfree]. apply P7. left. apply in_or_app. auto.
  - intros bk' E. inversion E; subst. rewrite in_app_iff, removeb_In. intros [[_ N]|H]; [congruence|exact (D bk' Hin H)].
  - rewrite lenz_removeb by assumption. lia.
Qed.

Lemma cache_push_J q bk w : Jq q (Some bk) w -> Jq q None (set_cache w q (bk :: cache (getp w q))).
Proof.
  intros Jw. unfold set_cache. apply step_pool with (hq := Some bk); [exact Jw| |auto].
  destruct Jw as (_ & (P1 & P2 & P3 & P4 & P5 & P6 & P7 & P8 & P9) & _). set (x := getp w q) in *.
  unfold Pl, own, lb in *. cbn [lfull lfree cache acount live].
  repeat (split; [assumption|]). split; [|split; [|split]].
  - apply NoDup_app_iff in P6. destruct P6 as (N1 & N2 & D). apply NoDup_app_iff. split; [exact N1|]. split.
    + constructor; [|exact N2]. intro H. apply (P8 bk eq_refl). apply in_or_app. auto.
    + intros y H1 [E|H2]; [subst y; apply (P8 bk eq_refl); apply in_or_app; auto|exact (D y H1 H2)].
  - intros bk' [H|H]; [|discriminate]. unfold okblk, own in *. cbn [lfull lfree]. apply P7.
    rewrite in_app_iff in *. simpl in H. destruct H as [H|[<-|H]]; auto.
  - intros bk' E. discriminate.
  - exact P9.
Qed.

Lemma cache_pop_J q bk rest w : Jq q None w -> cache (getp w q) = bk :: rest -> Jq q (Some bk) (set_cache w q rest).
Proof.
  intros Jw Ec. unfold set_cache. apply step_pool with (hq := None); [exact Jw| |auto].
  destruct Jw as (_ & (P1 & P2 & P3 & P4 & P5 & P6 & P7 & P8 & P9) & _). set (x := getp w q) in *.
  unfold Pl, own, lb in *. cbn [lfull lfree cache acount live]. rewrite Ec in *.
  apply NoDup_app_iff in P6. destruct P6 as (N1 & N2 & D). inversion N2 as [|? ? Nb N2']; subst.
  repeat (split; [assumption|]). split; [|split; [|split]].
  - apply NoDup_app_iff. split; [exact N1|]. split; [exact N2'|]. intros y H1 H2. apply (D y H1). right. exact H2.
  - intros bk' [H|H].
    + unfold okblk, own in *. cbn [lfull lfree]. apply P7. left. rewrite in_app_iff in *. simpl. tauto.
    + inversion H; subst. unfold okblk, own in *. cbn [lfull lfree]. apply P7. left. apply in_or_app. simpl. auto.
  - intros bk' E. inversion E; subst. rewrite in_app_iff. intros [H|H]; [apply (D bk' H); left; reflexivity|exact (Nb H)].
  - exact P9.
Qed.

(* ---------- what the invariant says about the next Allocate and about buffer release (any state satisfying it) ---------- *)
Lemma chain_head w b : 1 <= fc w b -> In (fb w b) (chain_of w b).
Proof.
  intros H. unfold chain_of. replace (Z.to_nat (fc w b)) with (S (Z.to_nat (fc w b - 1))) by lia. simpl. auto.
Qed.

(* the block pvNewBlock takes from the head buffer is neither live nor cached in either pool *)
Lemma chain_block_not_live q w head rest :
  Jq q None w -> lfree (getp w q) = head :: rest ->
  ~ In (head, fb w head) (lb (getp w q)) /\ ~ In (head, fb w head) (lb (getp w (negb q))).
Proof.
  intros (g & (P1 & P2 & P3 & P4 & P5 & P6 & P7 & P8 & P9) & (O1 & O2 & O3 & O4 & O5 & O6 & O7 & O8 & O9) & d) E.
  assert (In head (lfree (getp w q))) as Hh by (rewrite E; left; reflexivity).
  pose proof (chain_head w head (P3 head Hh)) as Hc.
  split; intro H.
  - destruct (P7 _ (or_introl H)) as (_ & N & _). exact (N Hc).
  - destruct (O7 _ (or_introl H)) as (_ & _ & Ow). simpl in Ow. apply (d head); [unfold own; apply in_or_app; auto|exact Ow].
Qed.

(* the block Allocate pops from the cache is not live in either pool *)
Lemma cache_block_not_live q w bk rest :
  Jq q None w -> cache (getp w q) = bk :: rest ->
  ~ In bk (live (getp w q)) /\ ~ In bk (lb (getp w (negb q))).
Proof.
  intros (g & (P1 & P2 & P3 & P4 & P5 & P6 & P7 & P8 & P9) & (O1 & O2 & O3 & O4 & O5 & O6 & O7 & O8 & O9) & d) E.
  unfold lb in P6. rewrite E in P6. apply NoDup_app_iff in P6. destruct P6 as (_ & _ & D).
  split; intro H.
  - apply (D bk H). left. reflexivity.
  - destruct (O7 _ (or_introl H)) as (_ & _ & Ow).
    destruct (P7 bk) as (_ & _ & Pw); [left; unfold lb; rewrite E; apply in_or_app; right; left; reflexivity|].
    exact (d _ Pw Ow).
Qed.

(* a buffer whose freeBlockCount equals blockCount (the only situation in which pvDeleteBlock returns it to the manager)
   has no live and no cached block *)
Lemma full_count_no_live q w b :
  Jq q None w -> In b (own (getp w q)) -> fc w b = C ->
  forall bk, In bk (lb (getp w q)) \/ In bk (lb (getp w (negb q))) -> fst bk <> b.
Proof.
  intros ((g1 & g2 & g3) & (P1 & P2 & P3 & P4 & P5 & P6 & P7 & P8 & P9) & (O1 & O2 & O3 & O4 & O5 & O6 & O7 & O8 & O9) & d) Hb Hc bk Hin E.
  destruct (g1 b) as (F0 & ND & R).
  assert (forall j, 0 <= j < C -> In j (chain_of w b)) as All.
  { apply PoolConcProofs.full_chain_has_all; auto. rewrite PoolConcProofs.chain_of_length by assumption. exact Hc. }
  destruct Hin as [H|H].
  - destruct (P7 _ (or_introl H)) as (Rg & N & _). rewrite E in N. exact (N (All _ Rg)).
  - destruct (O7 _ (or_introl H)) as (_ & _ & Ow). rewrite E in Ow. exact (d b Hb Ow).
Qed.

(* ---------- steps that change the maps ---------- *)
Lemma assemble q hq w1 xf :
  G w1 -> Pl w1 xf hq -> Pl w1 (getp w1 (negb q)) None ->
  (forall b, In b (own xf) -> In b (own (getp w1 (negb q))) -> False) -> Jq q hq (setp w1 q xf).
Proof.
  intros g P O d. pose proof (setp_same_maps w1 q xf) as SM.
  unfold Jq. rewrite getp_setp_eq. rewrite getp_setp_neq by (destruct q; discriminate).
  split; [exact (G_same_maps _ _ SM g)|]. split; [exact (Pl_same_maps _ _ _ _ SM P)|].
  split; [exact (Pl_same_maps _ _ _ _ SM O)|exact d].
Qed.

Lemma getp_set_bytes w b f c p : getp (set_bytes w b f c) p = getp w p.
Proof. destruct p; reflexivity. Qed.
Lemma getp_set_nx w b j v p : getp (set_nx w b j v) p = getp w p.
Proof. destruct p; reflexivity. Qed.

(* replacing the two lists of a pool record by another split of the SAME buffer sequence *)
Definition relist (x : cpool) (lf lr : list Z) : cpool := mkCP lf lr (cache x) (acount x) (live x).

Lemma Pl_relist w w1 x hx hx' lf lr :
  Pl w x hx -> lf ++ lr = own x ->
  fresh w1 = fresh w -> returned w1 = returned w ->
  (forall b, In b lr -> 1 <= fc w1 b) -> (forall b, In b lf -> fc w1 b = 0) -> (lr = [] -> lf = []) ->
  (forall bk, In bk (lb x) \/ hx' = Some bk -> okblk w1 x bk) ->
  (forall bk, hx' = Some bk -> ~ In bk (lb x)) ->
  Pl w1 (relist x lf lr) hx'.
Proof.
  intros (P1 & P2 & P3 & P4 & P5 & P6 & P7 & P8 & P9) E F R A1 A2 A3 A4 A5.
  unfold Pl, relist, own, lb, okblk in *. cbn [lfull lfree cache acount live]. rewrite E, F, R.
  split; [exact P1|]. split; [exact P2|]. split; [exact A1|]. split; [exact A2|]. split; [exact A3|].
  split; [exact P6|]. split; [|split; [exact A5|exact P9]].
  intros bk H. destruct (A4 bk H) as (a1 & a2 & a3). split; [exact a1|]. split; [exact a2|]. unfold own in *. cbn [lfull lfree]. rewrite E. exact a3.
Qed.

(* pvNewBlock 531-537 *)
Lemma take_J q w head rest :
  Jq q None w -> lfree (getp w q) = head :: rest -> (fc w head = 1 -> rest <> []) ->
  snd (take w q) = (head, fb w head) /\ Jq q (Some (head, fb w head)) (fst (take w q)).
Proof.
  intros ((g1 & g2 & g3) & P & O & d) E Hr. pose proof P as (P1 & P2 & P3 & P4 & P5 & P6 & P7 & P8 & P9).
  unfold take. rewrite E. cbn [hd0 tl0]. cbv zeta. cbn [fst snd]. split; [reflexivity|].
  set (x := getp w q) in *. set (idx := fb w head). set (bC := fc w head - 1).
  set (w1 := set_bytes w head (nx w head idx) bC).
  assert (In head (lfree x)) as Hh by (rewrite E; left; reflexivity).
  assert (In head (own x)) as Ho by (unfold own; apply in_or_app; auto).
  pose proof (P3 head Hh) as F1.
  destruct (PoolConcProofs.chain_take w head F1) as (CT1 & CT2). fold idx bC w1 in CT1, CT2.
  assert (getp w1 q = x) as Gx by (unfold w1; apply getp_set_bytes).
  assert (getp w1 (negb q) = getp w (negb q)) as Go by (unfold w1; apply getp_set_bytes).
  assert (forall b, fc w1 b = if b =? head then bC else fc w b) as FC.
  { intros b. unfold w1. simpl. unfold upd. reflexivity. }
  destruct (g1 head) as (_ & NDh & Rh). rewrite CT1 in NDh, Rh. inversion NDh as [|? ? Nidx NDt]; subst.
  assert (G w1) as Gw1.
  { split; [|split; [exact g2|exact g3]]. intros b. rewrite FC. destruct (Z.eqb_spec b head) as [->|N].
    - split; [unfold bC; lia|]. split; [exact NDt|]. intros y Hy. apply Rh. right. exact Hy.
    - rewrite (CT2 b N). apply g1. }
  assert (Pl w1 (getp w1 (negb q)) None) as Ow1.
  { rewrite Go. apply Pl_frame with (w := w); [exact O| |simpl; lia|].
    - intros b Hb. assert (b <> head) as N by (intro; subst; exact (d head Ho Hb)).
      rewrite FC. destruct (Z.eqb_spec b head); [congruence|]. split; [reflexivity|apply CT2; exact N].
    - intros b Hb. destruct O as (_ & O2 & _). apply (O2 b Hb). }
  assert (forall bk, In bk (lb x) \/ Some (head, idx) = Some bk -> okblk w1 x bk) as OK.
  { intros bk [H|H].
    - destruct (P7 bk (or_introl H)) as (a1 & a2 & a3). split; [exact a1|]. split; [|exact a3].
      destruct (Z.eq_dec (fst bk) head) as [Eh|Nh].
      + rewrite Eh in *. intro Hc. apply a2. rewrite CT1. right. exact Hc.
      + rewrite (CT2 _ Nh). exact a2.
    - inversion H; subst. unfold okblk. cbn [fst snd]. split; [apply Rh; left; reflexivity|]. split; [exact Nidx|exact Ho]. }
  assert (forall bk, Some (head, idx) = Some bk -> ~ In bk (lb x)) as NH.
  { intros bk H Hin. inversion H; subst. destruct (P7 _ (or_introl Hin)) as (_ & a2 & _). cbn [fst snd] in a2.
    apply a2. rewrite CT1. left. reflexivity. }
  assert (NoDup (lfull x ++ head :: rest)) as NDo by (unfold own in P1; rewrite E in P1; exact P1).
  apply NoDup_app_iff in NDo. destruct NDo as (NDf & NDr & Dfr). inversion NDr as [|? ? Nhr NDr']; subst.
  destruct (Z.eqb_spec bC 0) as [Ez|Nz].
  - (* the head has no free block left: it joins the full part *)
    unfold set_lists. cbv zeta. rewrite Gx.
    change (mkCP (lfull x ++ [head]) rest (cache x) (acount x) (live x)) with (relist x (lfull x ++ [head]) rest).
    apply assemble; [exact Gw1| |exact Ow1|].
    + apply Pl_relist with (w := w) (hx := None); [exact P| |reflexivity|reflexivity| | | |exact OK|exact NH].
      * unfold own. rewrite E. rewrite <- app_assoc. reflexivity.
      * intros b Hb. rewrite FC. destruct (Z.eqb_spec b head) as [->|N]; [contradiction|]. apply P3. rewrite E. right. exact Hb.
      * intros b Hb. rewrite FC. apply in_app_or in Hb. destruct Hb as [Hb|[<-|[]]].
        -- destruct (Z.eqb_spec b head) as [->|N]; [exfalso; apply (Dfr head Hb); left; reflexivity|]. apply P4. exact Hb.
        -- rewrite Z.eqb_refl. exact Ez.
      * intros Er. exfalso. apply Hr; [unfold bC in Ez; lia|exact Er].
    + unfold relist, own. cbn [lfull lfree]. intros b Hb Hb'. rewrite Go in Hb'.
      apply (d b); [|exact Hb']. unfold own. rewrite E. rewrite <- app_assoc in Hb. exact Hb.
  - unfold Jq. split; [exact Gw1|]. split; [|split; [exact Ow1|]].
    + rewrite Gx.
      assert (x = relist x (lfull x) (lfree x)) as Ex by (destruct x; reflexivity). rewrite Ex.
      apply Pl_relist with (w := w) (hx := None); [exact P|reflexivity|reflexivity|reflexivity| | |exact P5| |].
      * intros b Hb. rewrite FC. destruct (Z.eqb_spec b head) as [->|N]; [unfold bC in *; lia|]. apply P3. exact Hb.
      * intros b Hb. rewrite FC. destruct (Z.eqb_spec b head) as [->|N]; [exfalso; apply (Dfr head Hb); left; reflexivity|]. apply P4. exact Hb.
      * exact OK.
      * exact NH.
    + rewrite Gx, Go. exact d.
Qed.

(* pvNewBuffer + linking the new buffer in as the last buffer of the list (521-522, 527-529) *)
Lemma attach_new_J q w : Jq q None w -> Jq q None (attach_new C w q).
Proof.
  intros ((g1 & g2 & g3) & P & O & d). pose proof P as (P1 & P2 & P3 & P4 & P5 & P6 & P7 & P8 & P9).
  unfold attach_new. destruct (new_buffer C w) as [w' nb] eqn:NB.
  pose proof (PoolConcProofs.chain_new_buffer C w HC) as CN. rewrite NB in CN. cbn [fst snd] in CN.
  destruct CN as (Enb & Ech & NDch & Efc & Oth).
  assert (fresh w' = fresh w + 1 /\ returned w' = returned w /\ forall p, getp w' p = getp w p) as (Ef & Er & Gp).
  { unfold new_buffer in NB. inversion NB; subst. simpl. split; [reflexivity|]. split; [reflexivity|]. intros []; reflexivity. }
  unfold set_lists. cbv zeta. rewrite !Gp. set (x := getp w q) in *.
  assert (forall p b, In b (own (getp w p)) -> b <> nb) as Nnb.
  { intros p b Hb E. subst b. destruct (Bool.bool_dec p q) as [->|Np].
    - destruct (P2 _ Hb) as (Hf & _). lia.
    - destruct O as (_ & O2 & _). assert (p = negb q) as -> by (destruct p, q; try congruence; reflexivity).
      destruct (O2 _ Hb) as (Hf & _). lia. }
  assert (G w') as Gw'.
  { split; [|split; [intros b Hb; rewrite Er in Hb; specialize (g2 b Hb); lia|lia]].
    intros b. destruct (Z.eq_dec b nb) as [->|N].
    - rewrite Efc. split; [lia|]. split; [exact NDch|]. intros y Hy. rewrite Ech in Hy. apply PoolConcProofs.upto_In in Hy. lia.
    - destruct (Oth b N) as (E1 & E2). rewrite E1, E2. apply g1. }
  change (mkCP (lfull x) (lfree x ++ [nb]) (cache x) (acount x) (live x)) with (relist x (lfull x) (lfree x ++ [nb])).
  apply assemble; [exact Gw'| | |].
  - unfold Pl, relist, own, lb, okblk in *. cbn [lfull lfree cache acount live]. rewrite Ef, Er.
    assert (~ In nb (lfull x ++ lfree x)) as Nin by (intro H; exact (Nnb q nb H eq_refl)).
    split; [|split; [|split; [|split; [|split; [|split; [exact P6|split; [|split; [exact P8|exact P9]]]]]]]].
    + rewrite app_assoc. apply NoDup_app_iff. split; [exact P1|]. split; [repeat constructor; simpl; tauto|].
      intros y H1 [<-|[]]. exact (Nin H1).
    + intros b Hb. rewrite app_assoc in Hb. apply in_app_or in Hb. destruct Hb as [Hb|[<-|[]]].
      * destruct (P2 b Hb). split; [lia|assumption].
      * split; [lia|]. intro Hr. specialize (g2 _ Hr). lia.
    + intros b Hb. apply in_app_or in Hb. destruct Hb as [Hb|[<-|[]]].
      * assert (b <> nb) as N by (intro; subst; apply Nin; apply in_or_app; auto). rewrite (proj2 (Oth b N)). apply P3. exact Hb.
      * rewrite Efc. lia.
    + intros b Hb. assert (b <> nb) as N by (intro; subst; apply Nin; apply in_or_app; auto). rewrite (proj2 (Oth b N)). apply P4. exact Hb.
    + intros E0. destruct (lfree x); discriminate.
    + intros bk Hb. destruct (P7 bk Hb) as (a1 & a2 & a3). split; [exact a1|]. split.
      * assert (fst bk <> nb) as N by (intro E0; apply Nin; rewrite <- E0; exact a3). rewrite (proj1 (Oth _ N)). exact a2.
      * unfold own in *. cbn [lfull lfree]. rewrite app_assoc. apply in_or_app. left. exact a3.
  - rewrite Gp. apply Pl_frame with (w := w); [exact O| |lia|].
    + intros b Hb. pose proof (Nnb (negb q) b Hb) as N. destruct (Oth b N) as (E1 & E2). split; assumption.
    + intros b Hb. rewrite Er. destruct O as (_ & O2 & _). apply (O2 b Hb).
  - unfold relist, own. cbn [lfull lfree]. intros b Hb Hb'. rewrite Gp in Hb'. rewrite app_assoc in Hb. apply in_app_or in Hb.
    destruct Hb as [Hb|[<-|[]]]; [exact (d b Hb Hb')|exact (Nnb (negb q) nb Hb' eq_refl)].
Qed.

Lemma attach_new_lfree q w : lfree (getp (attach_new C w q) q) = lfree (getp w q) ++ [fresh w].
Proof. unfold attach_new, new_buffer, set_lists. cbv zeta. rewrite getp_setp_eq. destruct q; reflexivity. Qed.

(* pvNewBlock 519-538: afterwards the returned block is the hole *)
Lemma pvNewBlock_J q w : Jq q None w -> Jq q (Some (snd (pvNewBlock C w q))) (fst (pvNewBlock C w q)).
Proof.
  intros Jw. unfold pvNewBlock. cbv zeta.
  set (w0 := match lfree (getp w q) with [] => attach_new C w q | _ :: _ => w end).
  assert (Jq q None w0 /\ lfree (getp w0 q) <> []) as (J0 & N0).
  { unfold w0. destruct (lfree (getp w q)) eqn:E.
    - split; [apply attach_new_J; exact Jw|]. rewrite attach_new_lfree, E. discriminate.
    - split; [exact Jw|]. rewrite E. discriminate. }
  clearbody w0. destruct (lfree (getp w0 q)) as [|head rest0] eqn:E0; [congruence|]. cbn [hd0 tl0].
  set (w1 := if (fc w0 head =? 1) && (hd0 rest0 =? 0) then attach_new C w0 q else w0).
  assert (Jq q None w1 /\ exists rest1, lfree (getp w1 q) = head :: rest1 /\ (fc w1 head = 1 -> rest1 <> [])) as (J1 & rest1 & E1 & H1).
  { unfold w1. destruct (Z.eqb_spec (fc w0 head) 1) as [F|F]; destruct (Z.eqb_spec (hd0 rest0) 0) as [Z0|Z0]; cbn [andb].
    - split; [apply attach_new_J; exact J0|]. exists (rest0 ++ [fresh w0]). rewrite attach_new_lfree, E0. split; [reflexivity|].
      intros _. destruct rest0; discriminate.
    - split; [exact J0|]. exists rest0. split; [exact E0|]. intros _ E. rewrite E in Z0. apply Z0. reflexivity.
    - split; [exact J0|]. exists rest0. split; [exact E0|]. intros F'. congruence.
    - split; [exact J0|]. exists rest0. split; [exact E0|]. intros F'. congruence. }
  clearbody w1. destruct (take_J q w1 head rest1 J1 E1 H1) as (Es & Jt). rewrite Es. exact Jt.
Qed.

(* replacing the two lists by another arrangement of the same set of buffers *)
Lemma Pl_relist2 w w1 x hx hx' lf lr :
  Pl w x hx -> NoDup (lf ++ lr) -> (forall y, In y (lf ++ lr) <-> In y (own x)) ->
  fresh w1 = fresh w -> returned w1 = returned w ->
  (forall b, In b lr -> 1 <= fc w1 b) -> (forall b, In b lf -> fc w1 b = 0) -> (lr = [] -> lf = []) ->
  (forall bk, In bk (lb x) \/ hx' = Some bk -> okblk w1 x bk) ->
  (forall bk, hx' = Some bk -> ~ In bk (lb x)) ->
  Pl w1 (relist x lf lr) hx'.
Proof.
  intros (P1 & P2 & P3 & P4 & P5 & P6 & P7 & P8 & P9) ND Iff F R A1 A2 A3 A4 A5.
  unfold Pl, relist. unfold own at 1 2. unfold lb at 1 2 3. cbn [lfull lfree cache acount live]. rewrite F, R.
  split; [exact ND|]. split; [intros b Hb; apply P2; apply Iff; exact Hb|]. split; [exact A1|]. split; [exact A2|]. split; [exact A3|].
  split; [exact P6|]. split; [|split; [exact A5|exact P9]].
  intros bk H. destruct (A4 bk H) as (a1 & a2 & a3). split; [exact a1|]. split; [exact a2|].
  unfold own at 1. cbn [lfull lfree]. apply Iff. exact a3.
Qed.

Lemma getp_push w bk p : getp (push w bk) p = getp w p.
Proof. unfold push. rewrite getp_set_bytes, getp_set_nx. reflexivity. Qed.

(* pvDeleteBlock 549-556: push the block in transit on its buffer's chain; a buffer that was full becomes the head *)
Lemma pushmove_J q w bk :
  Jq q (Some bk) w ->
  Jq q None (if fc (push w bk) (fst bk) =? 1 then move_head (push w bk) q (fst bk) else push w bk).
Proof.
  intros ((g1 & g2 & g3) & P & O & d). pose proof P as (P1 & P2 & P3 & P4 & P5 & P6 & P7 & P8 & P9).
  destruct bk as [b j]. cbn [fst]. set (x := getp w q) in *.
  destruct (P7 (b, j) (or_intror eq_refl)) as (Rj & Nj & Ob). cbn [fst snd] in Rj, Nj, Ob.
  pose proof (P8 (b, j) eq_refl) as Nlb.
  destruct (g1 b) as (F0 & NDb & Rb).
  destruct (PoolConcProofs.chain_push w b j F0 Nj) as (CP1 & CP2).
  set (w1 := push w (b, j)). change (set_bytes (set_nx w b j (fb w b)) b j (fc w b + 1)) with w1 in CP1, CP2.
  assert (forall p, getp w1 p = getp w p) as Gp by (intros p; apply getp_push).
  assert (forall y, fc w1 y = if y =? b then fc w b + 1 else fc w y) as FC by (intros y; unfold w1, push; simpl; unfold upd; reflexivity).
  assert (G w1) as Gw1.
  { split; [|split; [exact g2|exact g3]]. intros y. rewrite FC. destruct (Z.eqb_spec y b) as [->|N].
    - split; [lia|]. rewrite CP1. split; [constructor; assumption|]. intros z [<-|Hz]; [exact Rj|apply Rb; exact Hz].
    - rewrite (CP2 y N). apply g1. }
  assert (Pl w1 (getp w (negb q)) None) as Ow1.
  { apply Pl_frame with (w := w); [exact O| |simpl; lia|].
    - intros y Hy. assert (y <> b) as N by (intro; subst; exact (d b Ob Hy)).
      rewrite FC. destruct (Z.eqb_spec y b); [congruence|]. split; [reflexivity|apply CP2; exact N].
    - intros y Hy. destruct O as (_ & O2 & _). apply (O2 y Hy). }
  assert (forall bk', In bk' (lb x) \/ None = Some bk' -> okblk w1 x bk') as OK.
  { intros bk' [H|H]; [|discriminate]. destruct (P7 bk' (or_introl H)) as (a1 & a2 & a3). split; [exact a1|]. split; [|exact a3].
    destruct (Z.eq_dec (fst bk') b) as [Eb|Nb].
    - rewrite Eb, CP1. intros [Ej|Hc]; [|rewrite Eb in a2; exact (a2 Hc)].
      apply Nlb. destruct bk' as [b' j']. cbn [fst snd] in *. subst. exact H.
    - rewrite (CP2 _ Nb). exact a2. }
  assert (forall bk', None = Some bk' -> ~ In bk' (lb x)) as NH by (intros; discriminate).
  unfold own in P1. pose proof P1 as P1'. apply NoDup_app_iff in P1'. destruct P1' as (NDf & NDr & Dfr).
  rewrite FC, Z.eqb_refl.
  destruct (Z.eqb_spec (fc w b + 1) 1) as [E1|N1].
  - (* the buffer was full: it becomes the head *)
    assert (In b (lfull x)) as Hbf.
    { unfold own in Ob. apply in_app_or in Ob. destruct Ob as [H|H]; [exact H|]. specialize (P3 b H). lia. }
    unfold move_head, set_lists. cbv zeta. rewrite Gp. fold x.
    change (mkCP (removez b (lfull x)) (b :: lfree x) (cache x) (acount x) (live x)) with (relist x (removez b (lfull x)) (b :: lfree x)).
    apply assemble; [exact Gw1| |rewrite Gp; exact Ow1|].
    + apply Pl_relist2 with (w := w) (hx := Some (b, j)); [exact P| | |reflexivity|reflexivity| | | |exact OK|exact NH].
      * apply NoDup_app_iff. split; [apply removez_NoDup; exact NDf|]. split.
        -- constructor; [intro H; exact (Dfr b Hbf H)|exact NDr].
        -- intros y H1 [E|H2]; apply removez_In in H1; [exact (proj2 H1 (eq_sym E))|exact (Dfr y (proj1 H1) H2)].
      * intros y. unfold own. rewrite !in_app_iff, removez_In. simpl. destruct (Z.eq_dec y b) as [->|N]; intuition (auto; congruence).
      * intros y [<-|Hy]; rewrite FC.
        -- rewrite Z.eqb_refl. lia.
        -- destruct (Z.eqb_spec y b) as [->|N]; [lia|apply P3; exact Hy].
      * intros y Hy. apply removez_In in Hy. rewrite FC. destruct (Z.eqb_spec y b); [tauto|]. apply P4. tauto.
      * discriminate.
    + unfold relist, own. cbn [lfull lfree]. intros y Hy Hy'. rewrite Gp in Hy'. apply (d y); [|exact Hy'].
      unfold own. rewrite in_app_iff in *. rewrite removez_In in Hy. simpl in Hy. destruct Hy as [[H _]|[<-|H]]; auto.
  - unfold Jq. rewrite !Gp. fold x. split; [exact Gw1|]. split; [|split; [exact Ow1|exact d]].
    assert (x = relist x (lfull x) (lfree x)) as Ex by (destruct x; reflexivity). rewrite Ex.
    apply Pl_relist2 with (w := w) (hx := Some (b, j)); [exact P|exact P1|intros; reflexivity|reflexivity|reflexivity| | |exact P5|exact OK|exact NH].
    + intros y Hy. rewrite FC. destruct (Z.eqb_spec y b) as [->|N]; [lia|apply P3; exact Hy].
    + intros y Hy. rewrite FC. destruct (Z.eqb_spec y b) as [->|N]; [specialize (P4 b Hy); lia|apply P4; exact Hy].
Qed.

(* pvDeleteBuffer of a completely free buffer b of pool q (565/568): the remaining buffers are lf ++ lr *)
Lemma drop_gen q w b lf lr :
  Jq q None w -> In b (own (getp w q)) -> fc w b = C ->
  NoDup (lf ++ lr) -> (forall y, In y (lf ++ lr) <-> In y (own (getp w q)) /\ y <> b) ->
  (forall y, In y lr -> In y (lfree (getp w q))) -> (forall y, In y lf -> In y (lfull (getp w q))) -> lr <> [] ->
  Jq q None (add_returned (set_bytes (set_lists w q lf lr) b 0 0) b).
Proof.
  intros Jw Ob Fb ND Iff Sr Sf Nr. pose proof (full_count_no_live q w b Jw Ob Fb) as NoLive.
  destruct Jw as ((g1 & g2 & g3) & P & O & d). pose proof P as (P1 & P2 & P3 & P4 & P5 & P6 & P7 & P8 & P9).
  set (x := getp w q) in *. set (w' := add_returned (set_bytes (set_lists w q lf lr) b 0 0) b).
  assert (getp w' q = relist x lf lr) as Gq by (unfold w', set_lists, relist; fold x; destruct q; reflexivity).
  assert (getp w' (negb q) = getp w (negb q)) as Go by (unfold w', set_lists; destruct q; reflexivity).
  assert (forall y, fc w' y = if y =? b then 0 else fc w y) as FC.
  { intros y. unfold w', set_lists. destruct q; simpl; unfold upd; reflexivity. }
  assert (forall y, y <> b -> chain_of w' y = chain_of w y) as CH.
  { intros y N. apply chain_of_ext.
    - rewrite FC. destruct (Z.eqb_spec y b); [congruence|reflexivity].
    - unfold w', set_lists. destruct q; simpl; unfold upd; destruct (Z.eqb_spec y b); congruence.
    - intros k. unfold w', set_lists. destruct q; reflexivity. }
  assert (chain_of w' b = []) as CHb by (unfold chain_of; rewrite FC, Z.eqb_refl; reflexivity).
  assert (fresh w' = fresh w /\ returned w' = b :: returned w) as (Ef & Er) by (unfold w', set_lists; destruct q; split; reflexivity).
  destruct (P2 b Ob) as (Bfresh & Bnr).
  unfold Jq. rewrite Gq, Go. split; [|split; [|split]].
  - split; [|split; [|rewrite Ef; exact g3]].
    + intros y. destruct (Z.eq_dec y b) as [->|N].
      * rewrite FC, Z.eqb_refl, CHb. split; [lia|]. split; [constructor|intros z []].
      * rewrite FC, (CH y N). destruct (Z.eqb_spec y b); [congruence|]. apply g1.
    + intros y Hy. rewrite Er in Hy. rewrite Ef. destruct Hy as [<-|Hy]; [lia|apply g2; exact Hy].
  - unfold Pl, relist. unfold own at 1 2. unfold lb at 1 2 3. cbn [lfull lfree cache acount live]. rewrite Ef, Er.
    split; [exact ND|]. split; [|split; [|split; [|split; [|split; [exact P6|split; [|split; [exact P8|exact P9]]]]]]].
    + intros y Hy. apply Iff in Hy. destruct Hy as (Hy & N). destruct (P2 y Hy) as (a & c). split; [exact a|].
      intros [E|H]; [congruence|exact (c H)].
    + intros y Hy. assert (y <> b) as N by (apply (Iff y); apply in_or_app; auto). rewrite FC. destruct (Z.eqb_spec y b); [congruence|].
      apply P3. apply Sr. exact Hy.
    + intros y Hy. assert (y <> b) as N by (apply (Iff y); apply in_or_app; auto). rewrite FC. destruct (Z.eqb_spec y b); [congruence|].
      apply P4. apply Sf. exact Hy.
    + intros E. congruence.
    + intros bk [H|H]; [|discriminate]. destruct (P7 bk (or_introl H)) as (a1 & a2 & a3).
      assert (fst bk <> b) as N by (apply NoLive; left; exact H).
      split; [exact a1|]. split; [rewrite (CH _ N); exact a2|]. unfold own at 1. cbn [lfull lfree]. apply Iff. split; assumption.
  - apply Pl_frame with (w := w); [exact O| |lia|].
    + intros y Hy. assert (y <> b) as N by (intro; subst; exact (d b Ob Hy)).
      rewrite FC. destruct (Z.eqb_spec y b); [congruence|]. split; [reflexivity|apply CH; exact N].
    + intros y Hy. rewrite Er. destruct O as (_ & O2 & _). intros [E|H]; [subst; exact (d y Ob Hy)|exact (proj2 (O2 y Hy) H)].
  - unfold relist, own at 1. cbn [lfull lfree]. intros y Hy Hy'. apply Iff in Hy. exact (d y (proj1 Hy) Hy').
Qed.

Lemma pushmove_own q w bk y :
  In (fst bk) (own (getp w q)) ->
  (In y (own (getp (if fc (push w bk) (fst bk) =? 1 then move_head (push w bk) q (fst bk) else push w bk) q)) <-> In y (own (getp w q))).
Proof.
  intros Ob. destruct (fc (push w bk) (fst bk) =? 1).
  - unfold move_head, set_lists. cbv zeta. rewrite getp_setp_eq, getp_push. unfold own. cbn [lfull lfree].
    rewrite !in_app_iff, removez_In. simpl. unfold own in Ob. rewrite in_app_iff in Ob.
    destruct (Z.eq_dec y (fst bk)) as [->|N]; intuition (auto; congruence).
  - rewrite getp_push. reflexivity.
Qed.

(* pvDeleteBlock 547-570 *)
Lemma pvDeleteBlock_J q w bk : Jq q (Some bk) w -> Jq q None (pvDeleteBlock C w q bk).
Proof.
  intros Jw. pose proof (pushmove_J q w bk Jw) as J2.
  assert (In (fst bk) (own (getp w q))) as Ob0.
  { destruct Jw as (_ & (_ & _ & _ & _ & _ & _ & P7 & _) & _). destruct (P7 bk (or_intror eq_refl)) as (_ & _ & H). exact H. }
  pose proof (fun y => pushmove_own q w bk y Ob0) as OwnIff.
  unfold pvDeleteBlock. cbv zeta.
  set (w2 := if fc (push w bk) (fst bk) =? 1 then move_head (push w bk) q (fst bk) else push w bk) in *.
  set (b := fst bk) in *. clearbody w2.
  assert (In b (own (getp w2 q))) as Ob by (apply OwnIff; exact Ob0).
  destruct (Z.eqb_spec (fc w2 b) C) as [Fc|_]; [|exact J2].
  pose proof J2 as (_ & (P1 & P2 & P3 & P4 & P5 & _) & _).
  set (x := getp w2 q) in *.
  assert (In b (lfree x)) as Hbr.
  { unfold own in Ob. apply in_app_or in Ob. destruct Ob as [H|H]; [specialize (P4 b H); lia|exact H]. }
  unfold own in P1. pose proof P1 as P1'. apply NoDup_app_iff in P1'. destruct P1' as (NDf & NDr & Dfr).
  destruct (lfree x) as [|h t] eqn:El; [destruct Hbr|]. cbn [hd0 tl0].
  destruct (Z.eqb_spec b h) as [Ebh|Nbh].
  - destruct (Z.eqb_spec (hd0 t) 0) as [_|Nt]; [exact J2|].
    unfold drop_head. fold x. rewrite El. cbn [tl0]. subst h.
    apply drop_gen; auto.
    + fold x. apply NoDup_remove_1 in P1. exact P1.
    + fold x. intros y. unfold own. rewrite El. pose proof (NoDup_remove_2 _ _ _ P1) as Nb.
      rewrite !in_app_iff in *. simpl. split.
      * intros H. split; [tauto|]. intro; subst. tauto.
      * intros ([H|[H|H]] & N); auto. congruence.
    + fold x. rewrite El. intros y Hy. right. exact Hy.
    + destruct t; [simpl in Nt; congruence|discriminate].
  - unfold drop_mid. fold x. rewrite El.
    apply drop_gen; auto.
    + fold x. apply NoDup_app_iff. split; [apply removez_NoDup; exact NDf|]. split; [apply removez_NoDup; exact NDr|].
      intros y H1 H2. apply removez_In in H1. apply removez_In in H2. exact (Dfr y (proj1 H1) (proj1 H2)).
    + fold x. intros y. unfold own. rewrite El. rewrite !in_app_iff, !removez_In. tauto.
    + fold x. rewrite El. intros y Hy. apply removez_In in Hy. tauto.
    + fold x. intros y Hy. apply removez_In in Hy. tauto.
    + cbn [removez]. destruct (Z.eqb_spec h b); [congruence|discriminate].
Qed.

(* ---------- composite operations ---------- *)
Lemma cache_of_caches w1 w2 p : PoolConcProofs.caches w1 = PoolConcProofs.caches w2 -> cache (getp w1 p) = cache (getp w2 p).
Proof. unfold PoolConcProofs.caches. intros E. apply pair_equal_spec in E. destruct E. destruct p; assumption. Qed.

Lemma cache_set_cache w p c : cache (getp (set_cache w p c) p) = c.
Proof. unfold set_cache. rewrite getp_setp_eq. reflexivity. Qed.

Lemma flush_loop_J q : forall l w, Jq q None w -> cache (getp w q) = l -> Jq q None (flush_loop C l w q).
Proof.
  induction l as [|bk rest IH]; intros w Jw E; [exact Jw|]. cbn [flush_loop]. apply IH.
  - apply pvDeleteBlock_J. apply cache_pop_J with (bk := bk) (rest := rest); assumption.
  - rewrite (cache_of_caches _ _ q (PoolConcProofs.pvDeleteBlock_caches C (set_cache w q rest) q bk)). apply cache_set_cache.
Qed.
Lemma flush_J q w : Jq q None w -> Jq q None (flush C w q).
Proof. intros Jw. unfold flush. apply flush_loop_J; [exact Jw|reflexivity]. Qed.

(* the live lists are not touched by list / chain steps *)
Definition lives (w : cworld) : list blk * list blk := (live (cp0 w), live (cp1 w)).
Lemma lives_setp_same w p x : live x = live (getp w p) -> lives (setp w p x) = lives w.
Proof. destruct p; unfold lives; simpl; intros ->; reflexivity. Qed.
Lemma set_lists_lives w p a b : lives (set_lists w p a b) = lives w.
Proof. unfold set_lists. apply lives_setp_same. reflexivity. Qed.
Lemma set_cache_lives w p c : lives (set_cache w p c) = lives w.
Proof. unfold set_cache. apply lives_setp_same. reflexivity. Qed.
Lemma pvDeleteBlock_lives w p bk : lives (pvDeleteBlock C w p bk) = lives w.
Proof.
  unfold pvDeleteBlock. cbv zeta. set (w1 := push w bk).
  set (w2 := if fc w1 (fst bk) =? 1 then move_head w1 p (fst bk) else w1).
  assert (lives w2 = lives w) as E.
  { unfold w2, move_head. destruct (fc w1 (fst bk) =? 1); [rewrite set_lists_lives|]; reflexivity. }
  assert (forall b, lives (drop_head w2 p b) = lives w2) as DH.
  { intros b. unfold drop_head. change (lives (set_lists w2 p (lfull (getp w2 p)) (tl0 (lfree (getp w2 p)))) = lives w2). apply set_lists_lives. }
  assert (forall b, lives (drop_mid w2 p b) = lives w2) as DM.
  { intros b. unfold drop_mid. change (lives (set_lists w2 p (removez b (lfull (getp w2 p))) (removez b (lfree (getp w2 p)))) = lives w2). apply set_lists_lives. }
  repeat match goal with |- context [if ?c then _ else _] => destruct c end; rewrite ?DH, ?DM; exact E.
Qed.
Lemma flush_loop_lives p : forall l w, lives (flush_loop C l w p) = lives w.
Proof. induction l as [|bk rest IH]; intros w; [reflexivity|]. cbn [flush_loop]. rewrite IH, pvDeleteBlock_lives. apply set_cache_lives. Qed.
Lemma live_of_lives w1 w2 p : lives w1 = lives w2 -> live (getp w1 p) = live (getp w2 p).
Proof. unfold lives. intros E. apply pair_equal_spec in E. destruct E. destruct p; assumption. Qed.

Variable CF : Z.
Variable uc : bool.

(* Allocate 285-306 *)
Lemma Allocate_J q w : Jq q None w -> Jq q None (fst (Allocate C uc w q)).
Proof.
  intros Jw. unfold Allocate.
  assert (Jq q None (fst (let '(w0, bk) := pvNewBlock C w q in (add_live w0 q bk, bk)))) as ViaNew.
  { pose proof (pvNewBlock_J q w Jw) as JN. destruct (pvNewBlock C w q) as [w0 bk]. cbn [fst snd] in *. apply add_live_J. exact JN. }
  destruct (cache (getp w q)) as [|bk rest] eqn:E; [exact ViaNew|]. destruct uc; [|exact ViaNew].
  cbn [fst]. apply add_live_J. apply cache_pop_J with (rest := rest); assumption.
Qed.

(* Deallocate 308-325 of a block that is live in pool q *)
Lemma Deallocate_J q w bk : Jq q None w -> In bk (live (getp w q)) -> Jq q None (Deallocate C CF uc w q bk).
Proof.
  intros Jw Hl. unfold Deallocate. destruct uc.
  - cbv zeta. set (w0 := if CF <=? lenz (cache (getp w q)) then flush C w q else w).
    assert (Jq q None w0 /\ In bk (live (getp w0 q))) as (J0 & H0).
    { unfold w0. destruct (CF <=? lenz (cache (getp w q))); [|split; assumption]. split; [apply flush_J; exact Jw|].
      unfold flush. rewrite (live_of_lives _ _ q (flush_loop_lives q _ w)). exact Hl. }
    clearbody w0. pose proof (remove_live_J q bk w0 J0 H0) as J1.
    assert (cache (getp (remove_live w0 q bk) q) = cache (getp w0 q)) as Ec by (unfold remove_live; rewrite getp_setp_eq; reflexivity).
    apply cache_push_J. exact J1.
  - apply pvDeleteBlock_J. apply remove_live_J; assumption.
Qed.

Lemma rev0_spec {A} (l acc : list A) : rev0 l acc = rev l ++ acc.
Proof. revert acc. induction l as [|a t IH]; intros acc; simpl; [reflexivity|]. rewrite IH, <- app_assoc. reflexivity. Qed.

Lemma perm_merge (a b c d : list Z) : Permutation ((a ++ b) ++ (c ++ d)) ((a ++ rev c) ++ (b ++ d)).
Proof.
  rewrite <- !app_assoc. apply Permutation_app_head.
  transitivity (c ++ b ++ d).
  - rewrite !app_assoc. apply Permutation_app_tail. apply Permutation_app_comm.
  - apply Permutation_app_tail. apply Permutation_rev.
Qed.

(* a pool record with no buffers has no live and no cached block *)
Lemma Pl_no_buffers w x : Pl w x None -> own x = [] -> live x = [] /\ cache x = [] /\ acount x = 0.
Proof.
  intros (P1 & P2 & P3 & P4 & P5 & P6 & P7 & P8 & P9) E.
  assert (lb x = []) as El.
  { destruct (lb x) as [|bk t] eqn:El; [reflexivity|]. destruct (P7 bk) as (_ & _ & H); [left; left; reflexivity|]. rewrite E in H. destruct H. }
  unfold lb in El. apply app_eq_nil in El. destruct El as (E1 & E2). rewrite P9, E1. auto.
Qed.

(* the record of the destination pool after MergeFrom: any duplicate-free arrangement lf / lr of the two full parts / free
   parts, the destination's cache, the sum of the counters, the union of the live blocks *)
Lemma merge_Pl w x y lf lr :
  Pl w x None -> Pl w y None -> (forall b, In b (own x) -> In b (own y) -> False) -> cache y = [] ->
  NoDup (lf ++ lr) ->
  (forall b, In b lf <-> In b (lfull x) \/ In b (lfull y)) -> (forall b, In b lr <-> In b (lfree x) \/ In b (lfree y)) ->
  Pl w (mkCP lf lr (cache x) (acount x + acount y) (live x ++ live y)) None.
Proof.
  intros (P1 & P2 & P3 & P4 & P5 & P6 & P7 & P8 & P9) (Q1 & Q2 & Q3 & Q4 & Q5 & Q6 & Q7 & Q8 & Q9) D Ec ND If Ir.
  assert (forall b, In b (lf ++ lr) <-> In b (own x) \/ In b (own y)) as Io.
  { intros b. unfold own. rewrite !in_app_iff, If, Ir. tauto. }
  unfold Pl. unfold own at 1 2. unfold lb at 1 2. cbn [lfull lfree cache acount live].
  split; [exact ND|]. split; [intros b Hb; apply Io in Hb; destruct Hb; auto|].
  split; [intros b Hb; apply Ir in Hb; destruct Hb; auto|]. split; [intros b Hb; apply If in Hb; destruct Hb; auto|].
  split.
  { intros E. destruct lf as [|a t]; [reflexivity|]. exfalso. assert (In a (lfull x) \/ In a (lfull y)) as [H|H] by (apply If; left; reflexivity).
    - destruct (lfree x) as [|c u] eqn:Ex; [rewrite (P5 eq_refl) in H; destruct H|]. assert (In c lr) as Hc by (apply Ir; left; left; reflexivity). rewrite E in Hc. destruct Hc.
    - destruct (lfree y) as [|c u] eqn:Ey; [rewrite (Q5 eq_refl) in H; destruct H|]. assert (In c lr) as Hc by (apply Ir; right; left; reflexivity). rewrite E in Hc. destruct Hc. }
  unfold lb in *. rewrite Ec in *. rewrite app_nil_r in Q6.
  assert (forall bk, In bk (live x ++ cache x) -> In bk (live y) -> False) as Cross.
  { intros bk H1 H2. destruct (P7 bk (or_introl H1)) as (_ & _ & O1). destruct (Q7 bk) as (_ & _ & O2); [left; rewrite app_nil_r; exact H2|]. exact (D _ O1 O2). }
  split.
  { apply NoDup_app_iff in P6. destruct P6 as (N1 & N2 & D12). rewrite <- app_assoc. apply NoDup_app_iff. split; [exact N1|]. split.
    - apply NoDup_app_iff. split; [exact Q6|]. split; [exact N2|]. intros bk H1 H2. apply (Cross bk); [apply in_or_app; auto|exact H1].
    - intros bk H1 H2. apply in_app_or in H2. destruct H2 as [H2|H2]; [apply (Cross bk); [apply in_or_app; auto|exact H2]|exact (D12 bk H1 H2)]. }
  split; [|split; [intros; discriminate|rewrite lenz_app, P9, Q9; reflexivity]].
  intros bk [H|H]; [|discriminate]. unfold okblk, own at 1. cbn [lfull lfree].
  rewrite <- app_assoc in H. apply in_app_or in H. destruct H as [H|H].
  - destruct (P7 bk) as (a1 & a2 & a3); [left; apply in_or_app; auto|]. split; [exact a1|]. split; [exact a2|]. apply Io. auto.
  - apply in_app_or in H. destruct H as [H|H].
    + destruct (Q7 bk) as (a1 & a2 & a3); [left; rewrite app_nil_r; exact H|]. split; [exact a1|]. split; [exact a2|]. apply Io. auto.
    + destruct (P7 bk) as (a1 & a2 & a3); [left; apply in_or_app; auto|]. split; [exact a1|]. split; [exact a2|]. apply Io. auto.
Qed.

(* assembling a world in which BOTH pool records were replaced (same maps) *)
Lemma assemble2 d w x' y' :
  G w -> Pl w x' None -> Pl w y' None -> (forall b, In b (own x') -> In b (own y') -> False) ->
  Jq d None (setp (setp w d x') (negb d) y').
Proof.
  intros g Px Py D. pose proof (setp_same_maps w d x') as SM1. pose proof (setp_same_maps (setp w d x') (negb d) y') as SM2.
  assert (same_maps (setp (setp w d x') (negb d) y') w) as SM.
  { destruct SM1 as (a1 & a2 & a3 & a4 & a5), SM2 as (b1 & b2 & b3 & b4 & b5). unfold same_maps. rewrite b1, b2, b3, b4, b5. repeat split; assumption. }
  unfold Jq. rewrite getp_setp_eq. rewrite (getp_setp_neq _ d (negb d)) by (destruct d; discriminate). rewrite getp_setp_eq.
  split; [exact (G_same_maps _ _ SM g)|]. split; [exact (Pl_same_maps _ _ _ _ SM Px)|]. split; [exact (Pl_same_maps _ _ _ _ SM Py)|exact D].
Qed.

(* MergeFrom 386-435 *)
Lemma MergeFrom_J d w : (uc = false -> cache (getp w (negb d)) = []) -> Jq d None w -> Jq d None (MergeFrom C uc w d).
Proof.
  intros Hnc Jw. unfold MergeFrom. cbv zeta.
  set (w1 := if uc then flush C w (negb d) else w).
  assert (Jq d None w1 /\ cache (getp w1 (negb d)) = []) as (J1 & Ec).
  { unfold w1. destruct uc.
    - split; [apply Jq_sym; apply flush_J; apply Jq_sym in Jw; exact Jw|apply PoolConcProofs.flush_cache_empty].
    - split; [exact Jw|apply Hnc; reflexivity]. }
  clearbody w1. destruct J1 as (g & Px & Py & D). set (x := getp w1 d) in *. set (y := getp w1 (negb d)) in *.
  pose proof Px as (P1 & P2 & P3 & P4 & P5 & _). pose proof Py as (Q1 & Q2 & Q3 & Q4 & Q5 & _).
  destruct (lfree y) as [|hy ty] eqn:Ey.
  - (* the source has no buffers *)
    assert (lfull y = []) as Efy by (apply Q5; reflexivity).
    assert (own y = []) as Eoy by (unfold own; rewrite Efy, Ey; reflexivity).
    destruct (Pl_no_buffers w1 y Py Eoy) as (Ely & _ & Eay).
    rewrite Efy, Ec. apply assemble2; [exact g| |apply Pl_empty|intros b _ []].
    apply merge_Pl; auto.
    + intros b. rewrite Efy. simpl. tauto.
    + intros b. rewrite Ey. simpl. tauto.
  - destruct (lfree x) as [|hx tx] eqn:Ex.
    + (* the destination has no buffers: it takes over the source's list *)
      assert (lfull x = []) as Efx by (apply P5; reflexivity).
      assert (own x = []) as Eox by (unfold own; rewrite Efx, Ex; reflexivity).
      destruct (Pl_no_buffers w1 x Px Eox) as (Elx & Ecx & Eax).
      rewrite Ec. apply assemble2; [exact g| |apply Pl_empty|intros b _ []].
      cbn [lfull lfree cache acount live].
      apply merge_Pl; auto.
      * unfold own in Q1. rewrite Ey in Q1. exact Q1.
      * intros b. rewrite Efx. simpl. tauto.
      * intros b. rewrite Ex, Ey. simpl. tauto.
    + rewrite Ec. apply assemble2; [exact g| |apply Pl_empty|intros b _ []].
      cbn [lfull lfree cache acount live]. rewrite rev0_spec, app_nil_r.
      apply merge_Pl; auto.
      * unfold own in P1, Q1. rewrite Ex in P1. rewrite Ey in Q1.
        apply (Permutation_NoDup (l := (lfull x ++ hx :: tx) ++ (lfull y ++ hy :: ty))).
        -- apply perm_merge.
        -- apply NoDup_app_iff. split; [exact P1|]. split; [exact Q1|]. intros b H1 H2. apply (D b); unfold own; [rewrite Ex|rewrite Ey]; assumption.
      * intros b. rewrite in_app_iff, <- in_rev. tauto.
      * intros b. rewrite Ex, Ey, in_app_iff. tauto.
Qed.

(* ---------- DeallocateAll ---------- *)
Lemma return_all_spec : forall l w,
  let w' := return_all w l in
  (forall p, getp w' p = getp w p) /\ fresh w' = fresh w /\
  (forall y, In y (returned w') <-> In y l \/ In y (returned w)) /\
  (forall y, ~ In y l -> fc w' y = fc w y /\ chain_of w' y = chain_of w y) /\
  (forall y, In y l -> fc w' y = 0 /\ chain_of w' y = []).
Proof.
  induction l as [|b t IH]; intros w; cbv zeta.
  - unfold return_all. simpl. repeat split; auto; try tauto.
  - unfold return_all. cbn [foldl]. fold (return_all (add_returned (set_bytes w b 0 0) b) t).
    set (w1 := add_returned (set_bytes w b 0 0) b).
    destruct (IH w1) as (I1 & I2 & I3 & I4 & I5).
    assert (forall y, y <> b -> fc w1 y = fc w y /\ chain_of w1 y = chain_of w y) as O.
    { intros y N. split; [unfold w1; simpl; apply upd_other; exact N|].
      apply chain_of_ext; unfold w1; simpl; try (apply upd_other; exact N). intros; reflexivity. }
    assert (fc w1 b = 0 /\ chain_of w1 b = []) as Z0.
    { assert (fc w1 b = 0) as F by (unfold w1; simpl; apply upd_same). split; [exact F|]. unfold chain_of. rewrite F. reflexivity. }
    split; [intros p; rewrite I1; unfold w1; destruct p; reflexivity|]. split; [rewrite I2; reflexivity|]. split; [|split].
    + intros y. rewrite I3. unfold w1. simpl. tauto.
    + intros y Hn. destruct (I4 y) as (a1 & a2); [intro; apply Hn; right; assumption|].
      destruct (O y) as (b1 & b2); [intro; subst; apply Hn; left; reflexivity|]. rewrite a1, a2. split; assumption.
    + intros y Hy. destruct (in_dec Z.eq_dec y t) as [Ht|Ht]; [apply I5; exact Ht|].
      destruct Hy as [<-|Hy]; [|contradiction]. destruct (I4 b Ht) as (a1 & a2). rewrite a1, a2. exact Z0.
Qed.

(* DeallocateAll 337-358: every buffer of the pool goes back to the manager, nothing stays live, cached or owned *)
Lemma DeallocateAll_J q w : Jq q None w -> Jq q None (DeallocateAll w q).
Proof.
  intros Jw. unfold DeallocateAll. destruct (lfree (getp w q)) as [|h t] eqn:El; [exact Jw|]. rewrite <- El.
  destruct Jw as ((g1 & g2 & g3) & P & O & d). pose proof P as (P1 & P2 & _). set (x := getp w q) in *.
  set (l1 := rev0 (lfull x) []). set (wa := return_all w l1). set (wb := return_all wa (lfree x)).
  destruct (return_all_spec l1 w) as (A1 & A2 & A3 & A4 & A5). fold wa in A1, A2, A3, A4, A5.
  destruct (return_all_spec (lfree x) wa) as (B1 & B2 & B3 & B4 & B5). fold wb in B1, B2, B3, B4, B5.
  assert (forall y, In y l1 <-> In y (lfull x)) as L1 by (intros y; unfold l1; rewrite rev0_spec, app_nil_r, <- in_rev; tauto).
  assert (forall y, In y (own x) -> fc wb y = 0 /\ chain_of wb y = []) as InOwn.
  { intros y Hy. destruct (in_dec Z.eq_dec y (lfree x)) as [Hr|Hr]; [apply B5; exact Hr|].
    destruct (B4 y Hr) as (b1 & b2). rewrite b1, b2. apply A5. apply L1. unfold own in Hy. apply in_app_or in Hy. tauto. }
  assert (forall y, ~ In y (own x) -> fc wb y = fc w y /\ chain_of wb y = chain_of w y) as NotOwn.
  { intros y Hy. assert (~ In y (lfree x) /\ ~ In y l1) as (N1 & N2).
    { split; intro H; apply Hy; unfold own; apply in_or_app; [right; exact H|left; apply L1; exact H]. }
    destruct (B4 y N1) as (b1 & b2). destruct (A4 y N2) as (a1 & a2). rewrite b1, b2, a1, a2. split; reflexivity. }
  assert (forall y, In y (returned wb) <-> In y (own x) \/ In y (returned w)) as Ret.
  { intros y. rewrite B3, A3, L1. unfold own. rewrite in_app_iff. tauto. }
  assert (fresh wb = fresh w) as Fr by (rewrite B2, A2; reflexivity).
  assert (forall p, getp wb p = getp w p) as Gp by (intros p; rewrite B1, A1; reflexivity).
  change (mkCP [] [] [] 0 []) with empty_pool.
  apply assemble.
  - split; [|split; [|rewrite Fr; exact g3]].
    + intros y. destruct (in_dec Z.eq_dec y (own x)) as [Hy|Hy].
      * destruct (InOwn y Hy) as (a & b). rewrite a, b. split; [lia|]. split; [constructor|intros z []].
      * destruct (NotOwn y Hy) as (a & b). rewrite a, b. apply g1.
    + intros y Hy. rewrite Fr. apply Ret in Hy. destruct Hy as [Hy|Hy]; [destruct (P2 y Hy); lia|apply g2; exact Hy].
  - apply Pl_empty.
  - rewrite Gp. apply Pl_frame with (w := w); [exact O| |lia|].
    + intros y Hy. apply NotOwn. intro H. exact (d y H Hy).
    + intros y Hy Hr. apply Ret in Hr. destruct Hr as [Hr|Hr]; [exact (d y Hr Hy)|]. destruct O as (_ & O2 & _). exact (proj2 (O2 y Hy) Hr).
  - intros y [].
Qed.

(* after DeallocateAll: the pool owns nothing, nothing is live or cached, its counter is 0, and every buffer it owned is returned *)
Lemma DeallocateAll_returns_everything q w :
  Jq q None w -> lfree (getp w q) <> [] ->
  let w' := DeallocateAll w q in
  own (getp w' q) = [] /\ live (getp w' q) = [] /\ cache (getp w' q) = [] /\ acount (getp w' q) = 0 /\
  (forall b, In b (own (getp w q)) -> In b (returned w')) /\ getp w' (negb q) = getp w (negb q).
Proof.
  intros Jw Ne. cbv zeta. unfold DeallocateAll. destruct (lfree (getp w q)) as [|h t] eqn:El; [congruence|]. rewrite <- El.
  rewrite getp_setp_eq. rewrite getp_setp_neq by (destruct q; discriminate). cbn [own lfull lfree live cache acount app].
  repeat (split; [reflexivity|]). set (x := getp w q) in *.
  destruct (return_all_spec (rev0 (lfull x) []) w) as (A1 & A2 & A3 & A4 & A5).
  destruct (return_all_spec (lfree x) (return_all w (rev0 (lfull x) []))) as (B1 & B2 & B3 & B4 & B5).
  split.
  - intros b Hb. assert (returned (setp (return_all (return_all w (rev0 (lfull x) [])) (lfree x)) q (mkCP [] [] [] 0 [])) =
                         returned (return_all (return_all w (rev0 (lfull x) [])) (lfree x))) as -> by (destruct q; reflexivity).
    apply B3. unfold own in Hb. apply in_app_or in Hb. destruct Hb as [Hb|Hb]; [right; apply A3; left; rewrite rev0_spec, app_nil_r, <- in_rev; exact Hb|left; exact Hb].
  - rewrite B1, A1. reflexivity.
Qed.

(* ---------- Swap and move assignment ---------- *)
Lemma Swap_J w : J w -> J (Swap w).
Proof.
  intros (g & P0 & P1 & d). unfold J, Jq. cbn [getp negb] in *.
  assert (same_maps (Swap w) w) as SM by (repeat split).
  change (getp (Swap w) false) with (cp1 w). change (getp (Swap w) true) with (cp0 w).
  split; [exact (G_same_maps _ _ SM g)|]. split; [exact (Pl_same_maps _ _ _ _ SM P1)|].
  split; [exact (Pl_same_maps _ _ _ _ SM P0)|]. intros b H1 H0. exact (d b H0 H1).
Qed.
Lemma MoveAssign_J w d : J w -> J (MoveAssign w d).
Proof.
  intros Jw. unfold MoveAssign. destruct (acount (getp w d) =? 0); [|exact Jw].
  apply Swap_J. apply (J_any d). apply DeallocateAll_J. apply (J_any d). exact Jw.
Qed.

(* ---------- all histories ---------- *)
Lemma memb_In bk l : memb bk l = true -> In bk l.
Proof.
  induction l as [|a t IH]; simpl; [discriminate|]. destruct (blk_eqb_spec a bk) as [->|N]; simpl; [auto|]. intros H. right. auto.
Qed.

(* operations of a history; a Deallocate of a block that is not live in that pool (a use the pool's contract forbids) is ignored *)
Inductive gop := GAlloc (p : bool) | GFree (p : bool) (bk : blk) | GMerge (d : bool) | GAll (p : bool) | GSwap | GMove (d : bool).
Definition gstep (w : cworld) (o : gop) : cworld :=
  match o with
  | GAlloc p => fst (Allocate C uc w p)
  | GFree p bk => if memb bk (live (getp w p)) then Deallocate C CF uc w p bk else w
  | GMerge d => MergeFrom C uc w d
  | GAll p => DeallocateAll w p
  | GSwap => Swap w
  | GMove d => MoveAssign w d
  end.
Definition grun (ops : list gop) : cworld := foldl gstep ops empty_world.

Definition nocache (w : cworld) : Prop := uc = false -> PoolConcProofs.caches w = ([], []).

Lemma gstep_nocache w o : nocache w -> nocache (gstep w o).
Proof.
  intros H U. pose proof (H U) as H'. assert (forall v p, nocache v -> nocache (DeallocateAll v p)) as DA.
  { clear. intros v p Hv U. specialize (Hv U). unfold DeallocateAll. destruct (lfree (getp v p)) eqn:El; [exact Hv|]. rewrite <- El. cbv zeta.
    assert (forall l' w0, PoolConcProofs.caches (return_all w0 l') = PoolConcProofs.caches w0) as RA
      by (intros l' w0; unfold return_all; apply PoolConcProofs.foldl_caches; reflexivity).
    unfold PoolConcProofs.caches in *. apply pair_equal_spec in Hv. destruct Hv as [H0 H1].
    pose proof (RA (lfree (getp v p)) (return_all v (rev0 (lfull (getp v p)) []))) as R1.
    pose proof (RA (rev0 (lfull (getp v p)) []) v) as R2.
    apply pair_equal_spec in R1. destruct R1 as [R10 R11]. apply pair_equal_spec in R2. destruct R2 as [R20 R21].
    destruct p; cbn [setp cp0 cp1 cache]; rewrite ?R10, ?R11, ?R20, ?R21, ?H0, ?H1; reflexivity. }
  assert (forall v, nocache v -> nocache (Swap v)) as SW.
  { clear. intros v Hv U. specialize (Hv U). unfold PoolConcProofs.caches in *. apply pair_equal_spec in Hv. destruct Hv as [H0 H1]. simpl. rewrite H0, H1. reflexivity. }
  rename H into Hn. rename H' into H. destruct o as [p|p bk|d|p| |d]; simpl; [| | | |exact (SW w Hn U)|unfold MoveAssign; destruct (acount (getp w d) =? 0); [exact (SW _ (DA w d Hn) U)|exact H]].
  - unfold Allocate. rewrite U.
    assert (PoolConcProofs.caches (fst (let '(w0, bk) := pvNewBlock C w p in (add_live w0 p bk, bk))) = ([], [])) as V.
    { pose proof (PoolConcProofs.pvNewBlock_caches C w p) as K. destruct (pvNewBlock C w p) as [w0 bk]. cbn [fst] in *.
      rewrite PoolConcProofs.add_live_caches, K. exact H. }
    destruct (cache (getp w p)); exact V.
  - destruct (memb bk (live (getp w p))); [|exact H]. unfold Deallocate. rewrite U.
    rewrite PoolConcProofs.pvDeleteBlock_caches, PoolConcProofs.remove_live_caches. exact H.
  - unfold MergeFrom. rewrite U. cbv zeta. unfold PoolConcProofs.caches in *. apply pair_equal_spec in H. destruct H as [H0 H1].
    destruct (lfree (getp w (negb d))); [|destruct (lfree (getp w d))]; destruct d; simpl in *; rewrite ?H0, ?H1; reflexivity.
  - unfold DeallocateAll. destruct (lfree (getp w p)) eqn:El; [exact H|]. rewrite <- El. cbv zeta.
    assert (forall l' w0, PoolConcProofs.caches (return_all w0 l') = PoolConcProofs.caches w0) as RA
      by (intros l' w0; unfold return_all; apply PoolConcProofs.foldl_caches; reflexivity).
    unfold PoolConcProofs.caches in *. apply pair_equal_spec in H. destruct H as [H0 H1].
    pose proof (RA (lfree (getp w p)) (return_all w (rev0 (lfull (getp w p)) []))) as R1.
    pose proof (RA (rev0 (lfull (getp w p)) []) w) as R2.
    apply pair_equal_spec in R1. destruct R1 as [R10 R11]. apply pair_equal_spec in R2. destruct R2 as [R20 R21].
    destruct p; cbn [setp cp0 cp1 cache]; rewrite ?R10, ?R11, ?R20, ?R21, ?H0, ?H1; reflexivity.
Qed.

Lemma gstep_J w o : J w -> nocache w -> J (gstep w o).
Proof.
  intros Jw Nc. destruct o as [p|p bk|d|p| |d]; simpl; [| | | |apply Swap_J; exact Jw|apply MoveAssign_J; exact Jw].
  - apply (J_any p). apply Allocate_J. apply (J_any p). exact Jw.
  - destruct (memb bk (live (getp w p))) eqn:M; [|exact Jw]. apply (J_any p). apply Deallocate_J; [apply (J_any p); exact Jw|apply memb_In; exact M].
  - apply (J_any d). apply MergeFrom_J; [|apply (J_any d); exact Jw].
    intros U. specialize (Nc U). unfold PoolConcProofs.caches in Nc. apply pair_equal_spec in Nc. destruct Nc. destruct d; assumption.
  - apply (J_any p). apply DeallocateAll_J. apply (J_any p). exact Jw.
Qed.

(* THE INVARIANT HOLDS AFTER EVERY HISTORY of Allocate / Deallocate (of live blocks) / MergeFrom on both pools *)
Theorem J_all_histories ops : J (grun ops) /\ nocache (grun ops).
Proof.
  unfold grun. assert (J empty_world /\ nocache empty_world) as B by (split; [apply J_empty|intros _; reflexivity]).
  revert B. generalize empty_world. induction ops as [|o t IH]; intros w (Jw & Nw); simpl; [split; assumption|].
  apply IH. split; [apply gstep_J; assumption|apply gstep_nocache; assumption].
Qed.

(* live lists under Allocate *)
Lemma attach_new_lives w p : lives (attach_new C w p) = lives w.
Proof. unfold attach_new, new_buffer. rewrite set_lists_lives. reflexivity. Qed.
Lemma take_lives w p : lives (fst (take w p)) = lives w.
Proof. unfold take. cbv zeta. simpl fst. destruct (_ =? 0); [rewrite set_lists_lives|]; reflexivity. Qed.
Lemma pvNewBlock_lives w p : lives (fst (pvNewBlock C w p)) = lives w.
Proof.
  unfold pvNewBlock. cbv zeta. rewrite take_lives.
  match goal with |- lives (if ?c then _ else _) = _ => destruct c end; [rewrite attach_new_lives|];
  (destruct (lfree (getp w p)); [apply attach_new_lives|reflexivity]).
Qed.
Lemma Allocate_live w p :
  live (getp (fst (Allocate C uc w p)) p) = snd (Allocate C uc w p) :: live (getp w p) /\
  live (getp (fst (Allocate C uc w p)) (negb p)) = live (getp w (negb p)).
Proof.
  unfold Allocate.
  assert (forall w0 bk, lives w0 = lives w ->
            live (getp (add_live w0 p bk) p) = bk :: live (getp w p) /\ live (getp (add_live w0 p bk) (negb p)) = live (getp w (negb p))) as K.
  { intros w0 bk E. unfold add_live. rewrite getp_setp_eq. rewrite getp_setp_neq by (destruct p; discriminate). cbn [live].
    rewrite (live_of_lives _ _ p E), (live_of_lives _ _ (negb p) E). split; reflexivity. }
  assert (let r := (let '(w0, bk) := pvNewBlock C w p in (add_live w0 p bk, bk)) in
          live (getp (fst r) p) = snd r :: live (getp w p) /\ live (getp (fst r) (negb p)) = live (getp w (negb p))) as V.
  { pose proof (pvNewBlock_lives w p) as L. destruct (pvNewBlock C w p) as [w0 bk]. cbn [fst snd] in *. apply K. exact L. }
  destruct (cache (getp w p)) as [|bk rest]; [exact V|]. destruct uc; [|exact V]. cbn [fst snd]. apply K. apply set_cache_lives.
Qed.

(* (a1) NO BLOCK IS EVER HANDED OUT TWICE: after every history, the block the next Allocate returns is live in neither pool *)
Theorem no_double_hand_out ops p :
  let w := grun ops in let bk := snd (Allocate C uc w p) in
  ~ In bk (live (getp w p)) /\ ~ In bk (live (getp w (negb p))).
Proof.
  cbv zeta. destruct (J_all_histories ops) as (Jw & _). set (w := grun ops) in *.
  pose proof (Allocate_J p w (proj1 (J_any p w) Jw)) as (_ & Pp & Po & D).
  destruct (Allocate_live w p) as (L1 & L2). set (bk := snd (Allocate C uc w p)) in *. set (w' := fst (Allocate C uc w p)) in *.
  destruct Pp as (_ & _ & _ & _ & _ & P6 & P7 & _). destruct Po as (_ & _ & _ & _ & _ & _ & O7 & _).
  unfold lb in *. rewrite L1 in P6, P7. rewrite L2 in O7. split.
  - intro H. simpl in P6. inversion P6 as [|? ? N _]; subst. apply N. apply in_or_app. left. exact H.
  - intro H. destruct (P7 bk) as (_ & _ & O1); [left; left; reflexivity|]. destruct (O7 bk) as (_ & _ & O2); [left; apply in_or_app; left; exact H|].
    exact (D _ O1 O2).
Qed.

(* (a2) A BUFFER IS NEVER RETURNED TO THE MANAGER WHILE ONE OF ITS BLOCKS IS LIVE (or cached): after every history, no live or
   cached block of either pool belongs to a returned buffer; returned buffer ids are never reused *)
Theorem never_returned_while_live ops b :
  let w := grun ops in In b (returned w) ->
  b < fresh w /\ forall p bk, In bk (live (getp w p) ++ cache (getp w p)) -> fst bk <> b.
Proof.
  cbv zeta. intros Hr. destruct (J_all_histories ops) as (Jw & _). set (w := grun ops) in *.
  pose proof Jw as ((_ & g2 & _) & _). split; [apply g2; exact Hr|].
  intros p bk Hb E. apply (J_any p) in Jw. destruct Jw as (_ & (_ & P2 & _ & _ & _ & _ & P7 & _) & _).
  destruct (P7 bk (or_introl Hb)) as (_ & _ & O). rewrite E in O. exact (proj2 (P2 b O) Hr).
Qed.

(* allocCount = number of live blocks, live blocks pairwise different, after every history *)
Theorem count_and_distinct ops p :
  let w := grun ops in acount (getp w p) = lenz (live (getp w p)) /\ NoDup (live (getp w p)).
Proof.
  cbv zeta. destruct (J_all_histories ops) as (Jw & _). apply (J_any p) in Jw.
  destruct Jw as (_ & (_ & _ & _ & _ & _ & P6 & _ & _ & P9) & _). split; [exact P9|].
  unfold lb in P6. apply NoDup_app_iff in P6. tauto.
Qed.

(* ---------- every buffer is returned at most once ---------- *)
Lemma returned_setp w p x : returned (setp w p x) = returned w.
Proof. destruct p; reflexivity. Qed.
Lemma returned_set_lists w p a b : returned (set_lists w p a b) = returned w.
Proof. unfold set_lists. apply returned_setp. Qed.
Lemma returned_attach_new w p : returned (attach_new C w p) = returned w.
Proof. unfold attach_new, new_buffer. rewrite returned_set_lists. reflexivity. Qed.
Lemma returned_take w p : returned (fst (take w p)) = returned w.
Proof. unfold take. cbv zeta. simpl fst. destruct (_ =? 0); [rewrite returned_set_lists|]; reflexivity. Qed.
Lemma returned_pvNewBlock w p : returned (fst (pvNewBlock C w p)) = returned w.
Proof.
  unfold pvNewBlock. cbv zeta. rewrite returned_take.
  match goal with |- returned (if ?c then _ else _) = _ => destruct c end; [rewrite returned_attach_new|];
  (destruct (lfree (getp w p)); [apply returned_attach_new|reflexivity]).
Qed.
Lemma returned_Allocate w p : returned (fst (Allocate C uc w p)) = returned w.
Proof.
  unfold Allocate.
  assert (returned (fst (let '(w0, bk) := pvNewBlock C w p in (add_live w0 p bk, bk))) = returned w) as V.
  { pose proof (returned_pvNewBlock w p) as K. destruct (pvNewBlock C w p) as [w0 bk]. cbn [fst] in *. unfold add_live. rewrite returned_setp. exact K. }
  destruct (cache (getp w p)); [exact V|]. destruct uc; [|exact V]. cbn [fst]. unfold add_live, set_cache. rewrite !returned_setp. reflexivity.
Qed.

Lemma returned_pvDeleteBlock w p bk :
  returned (pvDeleteBlock C w p bk) = returned w \/ returned (pvDeleteBlock C w p bk) = fst bk :: returned w.
Proof.
  unfold pvDeleteBlock. cbv zeta. set (w1 := push w bk).
  set (w2 := if fc w1 (fst bk) =? 1 then move_head w1 p (fst bk) else w1).
  assert (returned w2 = returned w) as R.
  { unfold w2, move_head. destruct (fc w1 (fst bk) =? 1); [rewrite returned_set_lists|]; reflexivity. }
  assert (forall b, returned (drop_head w2 p b) = b :: returned w2) as DH by (intros; unfold drop_head, set_lists; destruct p; reflexivity).
  assert (forall b, returned (drop_mid w2 p b) = b :: returned w2) as DM by (intros; unfold drop_mid, set_lists; destruct p; reflexivity).
  repeat match goal with |- context [if ?c then _ else _] => destruct c end; rewrite ?DH, ?DM, R; auto.
Qed.

Lemma pvDeleteBlock_NR q w bk : Jq q (Some bk) w -> NoDup (returned w) -> NoDup (returned (pvDeleteBlock C w q bk)).
Proof.
  intros Jw ND. destruct (returned_pvDeleteBlock w q bk) as [E|E]; rewrite E; [exact ND|].
  constructor; [|exact ND]. destruct Jw as (_ & (_ & P2 & _ & _ & _ & _ & P7 & _) & _).
  destruct (P7 bk (or_intror eq_refl)) as (_ & _ & O). exact (proj2 (P2 _ O)).
Qed.

Lemma flush_loop_NR q : forall l w, Jq q None w -> cache (getp w q) = l -> NoDup (returned w) -> NoDup (returned (flush_loop C l w q)).
Proof.
  induction l as [|bk rest IH]; intros w Jw E ND; [exact ND|]. cbn [flush_loop].
  pose proof (cache_pop_J q bk rest w Jw E) as J1. apply IH.
  - apply pvDeleteBlock_J. exact J1.
  - rewrite (cache_of_caches _ _ q (PoolConcProofs.pvDeleteBlock_caches C (set_cache w q rest) q bk)). apply cache_set_cache.
  - apply pvDeleteBlock_NR; [exact J1|]. unfold set_cache. rewrite returned_setp. exact ND.
Qed.

Lemma returned_return_all : forall l w, returned (return_all w l) = rev l ++ returned w.
Proof.
  induction l as [|b t IH]; intros w; [reflexivity|]. unfold return_all. cbn [foldl].
  fold (return_all (add_returned (set_bytes w b 0 0) b) t). rewrite IH. simpl. rewrite <- app_assoc. reflexivity.
Qed.

Lemma gstep_NR w o : J w -> NoDup (returned w) -> NoDup (returned (gstep w o)).
Proof.
  intros Jw ND. assert (forall v p, J v -> NoDup (returned v) -> NoDup (returned (DeallocateAll v p))) as DA.
  { clear - HC. intros v p Jv NDv. unfold DeallocateAll. destruct (lfree (getp v p)) as [|h t] eqn:El; [exact NDv|]. rewrite <- El. rewrite returned_setp.
    rewrite !returned_return_all. apply (J_any p) in Jv. destruct Jv as (_ & (P1 & P2 & _) & _). set (x := getp v p) in *.
    rewrite rev0_spec, app_nil_r, rev_involutive. rewrite app_assoc. apply NoDup_app_iff. split; [|split; [exact NDv|]].
    + unfold own in P1. apply NoDup_app_iff in P1. destruct P1 as (N1 & N2 & D). apply NoDup_app_iff.
      split; [apply NoDup_rev; exact N2|]. split; [exact N1|]. intros y H1 H2. apply in_rev in H1. exact (D y H2 H1).
    + intros y H1 H2. assert (In y (own x)) as Ho by (unfold own; rewrite in_app_iff in *; rewrite <- in_rev in H1; tauto).
      exact (proj2 (P2 y Ho) H2). }
  destruct o as [p|p bk|d|p| |d]; simpl; [| | | |exact ND|unfold MoveAssign; destruct (acount (getp w d) =? 0); [exact (DA w d Jw ND)|exact ND]].
  - rewrite returned_Allocate. exact ND.
  - destruct (memb bk (live (getp w p))) eqn:M; [|exact ND]. apply memb_In in M. apply (J_any p) in Jw.
    unfold Deallocate. destruct uc.
    + cbv zeta. unfold set_cache, remove_live. rewrite !returned_setp.
      destruct (CF <=? lenz (cache (getp w p))); [|exact ND]. unfold flush. apply flush_loop_NR; [exact Jw|reflexivity|exact ND].
    + apply pvDeleteBlock_NR; [apply remove_live_J; assumption|]. unfold remove_live. rewrite returned_setp. exact ND.
  - unfold MergeFrom. cbv zeta.
    set (w1 := if uc then flush C w (negb d) else w).
    assert (NoDup (returned w1)) as N1.
    { unfold w1. destruct uc; [|exact ND]. unfold flush. apply flush_loop_NR; [apply (J_any (negb d)); exact Jw|reflexivity|exact ND]. }
    clearbody w1. destruct (lfree (getp w1 (negb d))); [rewrite !returned_setp; exact N1|]. cbn [lfree].
    destruct (lfree (getp w1 d)); rewrite !returned_setp; exact N1.
  - unfold DeallocateAll. destruct (lfree (getp w p)) as [|h t] eqn:El; [exact ND|]. rewrite <- El. rewrite returned_setp.
    rewrite !returned_return_all. apply (J_any p) in Jw. destruct Jw as (_ & (P1 & P2 & _) & _). set (x := getp w p) in *.
    rewrite rev0_spec, app_nil_r, rev_involutive. rewrite app_assoc. apply NoDup_app_iff. split; [|split; [exact ND|]].
    + unfold own in P1. apply NoDup_app_iff in P1. destruct P1 as (N1 & N2 & D). apply NoDup_app_iff.
      split; [apply NoDup_rev; exact N2|]. split; [exact N1|]. intros y H1 H2. apply in_rev in H1. exact (D y H2 H1).
    + intros y H1 H2. assert (In y (own x)) as Ho by (unfold own; rewrite in_app_iff in *; rewrite <- in_rev in H1; tauto).
      exact (proj2 (P2 y Ho) H2).
Qed.

(* after every history: the list of buffers given back to the manager has no repetition - every buffer is returned at most
   once (and, by never_returned_while_live, never while a block of it is live) *)
Theorem returned_once ops : NoDup (returned (grun ops)).
Proof.
  assert (J empty_world /\ NoDup (returned empty_world)) as B by (split; [apply J_empty|constructor]).
  assert (forall l w, J w /\ nocache w /\ NoDup (returned w) -> NoDup (returned (foldl gstep l w))) as K.
  { induction l as [|o t IH]; intros w (Jw & Nw & Rw); simpl; [exact Rw|]. apply IH.
    split; [apply gstep_J; assumption|]. split; [apply gstep_nocache; assumption|apply gstep_NR; assumption]. }
  unfold grun. apply K. destruct B. split; [assumption|]. split; [intros _; reflexivity|assumption].
Qed.
End Inv.
