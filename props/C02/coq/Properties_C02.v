(* Property C02 -- theorems only (placeholder during bring-up; replaced below). *)
From Coq Require Import ZArith List.
From C02 Require Import BTreeModel.
Import ListNotations.



Theorem C02_bringup : forall (l : list Z), interleave [] l = l.
Proof. exact (fun l => eq_refl). Qed.
Print Assumptions C02_bringup.
