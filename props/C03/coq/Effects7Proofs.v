(* C03 -- proofs for Effects7.v: one insertion through TreeSet::Relocator never loses a node, whatever the script, the array growth
   policy and the failure schedule; the seeded order (node created before its slot is guaranteed) does. *)
From Coq Require Import ZArith Bool List Lia.
From C03 Require Import Effects EffectsProofs Pointwise Effects6Proofs Effects7.
Import ListNotations.
Local Open Scope Z_scope.

Fixpoint lookup (x : Z) (l : list (Z * Z)) : option Z :=
  match l with
  | [] => None
  | (b, sz) :: t => if Z.eqb b x then Some sz else lookup x t
  end.
Definition ids (l : list (Z * Z)) : list Z := map fst l.

Lemma lookup_none x l : ~ In x (ids l) -> lookup x l = None.
Proof.
  induction l as [|[b sz] l IH]; simpl; intros H; [reflexivity|].
  destruct (Z.eqb_spec b x) as [E|E]; [exfalso; apply H; left; exact E|]. apply IH. intros H1. apply H. right. exact H1.
Qed.
Lemma lookup_in x l sz : lookup x l = Some sz -> In (x, sz) l.
Proof.
  induction l as [|[b s0] l IH]; simpl; intros H; [discriminate|].
  destruct (Z.eqb_spec b x) as [E|E]; [inversion H; subst; left; reflexivity|right; apply IH; exact H].
Qed.
Lemma lookup_nodup x sz l : NoDup (ids l) -> In (x, sz) l -> lookup x l = Some sz.
Proof.
  induction l as [|[b s0] l IH]; simpl; intros N H; [destruct H|].
  inversion N as [|a c Hn Hl]; subst. destruct H as [E|H].
  - inversion E; subst. rewrite Z.eqb_refl. reflexivity.
  - destruct (Z.eqb_spec b x) as [E|E]; [subst b; exfalso; apply Hn; apply (in_map fst _ _ H)|]. apply IH; assumption.
Qed.
Lemma lookup_app x l1 l2 : lookup x (l1 ++ l2) = match lookup x l1 with Some s => Some s | None => lookup x l2 end.
Proof. induction l1 as [|[b sz] l1 IH]; simpl; [reflexivity|]. destruct (Z.eqb b x); [reflexivity|exact IH]. Qed.
Lemma memz_ids_lookup x l : memz x (ids l) = false -> lookup x l = None.
Proof. intros H. apply lookup_none. intros Hin. destruct (memz_spec x (ids l)); [discriminate|contradiction]. Qed.

Lemma nd_app_join {A} (l l' : list A) : NoDup l -> NoDup l' -> (forall x, In x l -> In x l' -> False) -> NoDup (l ++ l').
Proof.
  induction l as [|a l IH]; intros N N' D; simpl; [exact N'|]. inversion N as [|x xs Hx Hxs]; subst. constructor.
  - intros Hin. apply in_app_or in Hin. destruct Hin as [Hin|Hin]; [contradiction|]. apply (D a); [left; reflexivity|exact Hin].
  - apply IH; [exact Hxs|exact N'|]. intros x H1 H2. apply (D x); [right; exact H1|exact H2].
Qed.
Lemma nodup_mid {A} (l1 l2 : list A) a : ~ In a (l1 ++ l2) -> NoDup (l1 ++ l2) -> NoDup (l1 ++ a :: l2).
Proof.
  induction l1 as [|x l1 IH]; simpl; intros H N; [constructor; assumption|]. inversion N as [|y ys Hy Hys]; subst. constructor.
  - intros Hin. apply in_app_or in Hin. destruct Hin as [Hin|[E|Hin]].
    + apply Hy. apply in_or_app. left. exact Hin.
    + apply H. left. symmetry. exact E.
    + apply Hy. apply in_or_app. right. exact Hin.
  - apply IH; [intros Hin; apply H; right; exact Hin|exact Hys].
Qed.

(* returning a list of (block, size) pairs, wherever they are in the view *)
Lemma free_pairs_post2 mgr f : forall l s (v : bview) nb,
  st2 s f v nb -> NoDup (ids l) -> (forall b sz, In (b, sz) l -> v b = Some (mgr, sz)) ->
  post (free_pairs mgr l) s (fun _ s' => st2 s' f (fun x => if memz x (ids l) then None else v x) nb) (fun _ => False).
Proof.
  induction l as [|[r sz] l IH]; intros s v nb H N Hv.
  - apply post_ret. exact H.
  - simpl free_pairs. apply post_bind. inversion N as [|a b Hr Hl]; subst.
    eapply post_conseq; [apply (p_dealloc_post2 mgr r sz s f v nb H (Hv r sz (or_introl eq_refl)))| |cbv beta; intros; try contradiction; auto].
    intros u s1 H1.
    eapply post_conseq; [apply (IH s1 _ nb H1 Hl)| |cbv beta; intros; try contradiction; auto].
    + intros x sx Hin. cbv beta. destruct (Z.eqb_spec r x) as [E|E].
      * subst x. exfalso. apply Hr. apply (in_map fst _ _ Hin).
      * apply Hv. right. exact Hin.
    + intros u2 s2 H2. eapply st2_ext; [intros l0; reflexivity| |exact H2].
      intros x. cbv beta. simpl. destruct (Z.eqb r x), (memz x (ids l)); reflexivity.
Qed.

Section RelocatorProofs.
Variable mgr : Z.
Variable esz : atag -> Z.
Variable grow : nat -> nat.
Variable f : loc -> bool.
Variable g : bview.                      (* the world outside the relocator: the tree's nodes among others *)
Variable nb0 : Z.
Hypothesis Hg0 : forall b, nb0 <= b -> g b = None.

(* what the relocator owns on top of the world: the heap blocks of its arrays and the nodes recorded in mNewNodes *)
Definition owned (r : reloc) : list (Z * Z) := apairs r ++ r_nodes r.
Definition rview (r : reloc) : bview :=
  fun x => match lookup x (owned r) with Some sz => Some (mgr, sz) | None => g x end.

Definition olds_ok (l : list (Z * Z)) : Prop :=
  NoDup (ids l) /\ Forall (fun p => fst p < nb0 /\ g (fst p) = Some (mgr, snd p)) l.

Definition rinv (r : reloc) (s : rstate) : Prop :=
  exists nb, nb0 <= nb /\ st2 s f (rview r) nb /\ NoDup (ids (owned r)) /\ Forall (fun p => nb0 <= fst p < nb) (owned r).

Lemma owned_range r s x : rinv r s -> In x (ids (owned r)) -> g x = None.
Proof.
  intros (nb & _ & _ & _ & R) H. apply in_map_iff in H. destruct H as (p & E & Hp). subst x.
  rewrite Forall_forall in R. apply Hg0. apply (R p Hp).
Qed.

(* ---- one more block on the records *)
Lemma rview_cons_arr r t b sz cnt cap :
  forall x, rview (mkRl cnt cap ((t, (b, sz)) :: r_arrs r) (r_nodes r) (r_olds r)) x
            = if Z.eqb b x then Some (mgr, sz) else rview r x.
Proof. intros x. unfold rview, owned, apairs. simpl. destruct (Z.eqb b x); reflexivity. Qed.

Lemma remove_id_pairs b l : map snd (remove_id b l) = filter (fun p => negb (Z.eqb (fst p) b)) (map snd l).
Proof.
  induction l as [|[t p] l IH]; simpl; [reflexivity|]. destruct (negb (Z.eqb (fst p) b)); simpl; rewrite IH; reflexivity.
Qed.
Lemma lookup_filter b x l :
  lookup x (filter (fun p => negb (Z.eqb (fst p) b)) l) = if Z.eqb b x then None else lookup x l.
Proof.
  induction l as [|[c sz] l IH]; simpl; [destruct (Z.eqb b x); reflexivity|].
  destruct (Z.eqb_spec c b) as [E|E]; simpl.
  - subst c. rewrite IH. destruct (Z.eqb b x); reflexivity.
  - rewrite IH. destruct (Z.eqb_spec c x) as [E2|E2]; [|reflexivity].
    subst c. destruct (Z.eqb_spec b x) as [E3|E3]; [congruence|reflexivity].
Qed.
Lemma ids_filter_incl b l x : In x (ids (filter (fun p => negb (Z.eqb (fst p) b)) l)) -> In x (ids l) /\ x <> b.
Proof.
  unfold ids. intros H. apply in_map_iff in H. destruct H as (p & E & Hp). apply filter_In in Hp. destruct Hp as [Hp Hb].
  split; [apply in_map_iff; exists p; split; assumption|]. subst x. destruct (Z.eqb_spec (fst p) b); [discriminate|assumption].
Qed.
Lemma nodup_ids_filter b l : NoDup (ids l) -> NoDup (ids (filter (fun p => negb (Z.eqb (fst p) b)) l)).
Proof.
  induction l as [|[c sz] l IH]; simpl; intros N; [constructor|]. inversion N as [|a k Hn Hl]; subst.
  destruct (negb (Z.eqb c b)); simpl; [|apply IH; exact Hl].
  constructor; [|apply IH; exact Hl]. intros H. apply ids_filter_incl in H. apply Hn. apply H.
Qed.
Lemma find_arr_in t l p : find_arr t l = Some p -> In p (map snd l).
Proof.
  induction l as [|[t' q] l IH]; simpl; intros H; [discriminate|].
  destruct (atag_eqb t' t); [inversion H; left; reflexivity|right; apply IH; exact H].
Qed.

Lemma filter_app_ids b (l1 l2 : list (Z * Z)) :
  filter (fun p => negb (Z.eqb (fst p) b)) (l1 ++ l2)
  = filter (fun p => negb (Z.eqb (fst p) b)) l1 ++ filter (fun p => negb (Z.eqb (fst p) b)) l2.
Proof. apply filter_app. Qed.

(* Array::Reserve on one of the relocator's arrays: either it threw and NOTHING changed, or the invariant holds for the new record *)
Lemma arr_reserve_post t n r s :
  rinv r s ->
  post (arr_reserve mgr esz grow t n r) s
       (fun r' s' => rinv r' s' /\ r_nodes r' = r_nodes r /\ r_olds r' = r_olds r)
       (fun s' => rinv r s').
Proof.
  intros I. unfold arr_reserve. destruct (Nat.leb n (r_cap r t)).
  - apply post_ret. split; [exact I|split; reflexivity].
  - set (c := Nat.max (grow (r_cap r t)) n). set (sz := esz t * Z.of_nat c).
    destruct I as (nb & Hnb & H & N & R).
    apply post_bind. eapply post_conseq; [apply (p_alloc_post2 mgr sz s f (rview r) nb H)| |].
    2:{ intros s' H'. exists nb. split; [exact Hnb|split; [exact H'|split; assumption]]. }
    intros b s1 [Eb H1]. subst b.
    assert (Fresh : ~ In nb (ids (owned r))).
    { intros Hin. apply in_map_iff in Hin. destruct Hin as (p & E & Hp). rewrite Forall_forall in R. specialize (R p Hp). lia. }
    destruct (find_arr t (r_arrs r)) as [[b0 sz0]|] eqn:Ef.
    + (* the old heap block of this array goes back *)
      pose proof (find_arr_in _ _ _ Ef) as Hin0.
      assert (Hown0 : In (b0, sz0) (owned r)) by (apply in_or_app; left; exact Hin0).
      assert (Hb0 : b0 <> nb).
      { rewrite Forall_forall in R. specialize (R _ Hown0). simpl in R. lia. }
      apply post_bind.
      eapply post_conseq; [apply (p_dealloc_post2 mgr b0 sz0 s1 f _ (nb + 1) H1)| |cbv beta; intros; try contradiction; auto].
      { cbv beta. destruct (Z.eqb_spec nb b0) as [E|E]; [congruence|]. unfold rview. rewrite (lookup_nodup _ _ _ N Hown0). reflexivity. }
      intros u s2 H2. apply post_ret. split; [|split; reflexivity].
      exists (nb + 1). split; [lia|]. split; [|split].
      * eapply st2_ext; [intros l0; reflexivity| |exact H2]. intros x. cbv beta.
        unfold rview, owned, apairs. simpl. rewrite remove_id_pairs.
        destruct (Z.eqb_spec nb x) as [E|E].
        -- subst x. destruct (Z.eqb_spec b0 nb) as [E2|E2]; [congruence|reflexivity].
        -- rewrite !lookup_app, lookup_filter. destruct (Z.eqb_spec b0 x) as [E2|E2]; [|reflexivity].
           subst x. rewrite (lookup_none b0 (r_nodes r)).
           ++ symmetry. apply Hg0. rewrite Forall_forall in R. apply (R _ Hown0).
           ++ (* b0 is not a node: the ids are distinct *)
              unfold owned, ids in N. rewrite map_app in N. intros Hn.
              apply (nd_app_disj _ _ b0 N); [apply (in_map fst _ _ Hin0)|exact Hn].
      * unfold owned, apairs. simpl. rewrite remove_id_pairs. constructor.
        -- intros Hin. apply Fresh. unfold owned, ids. rewrite map_app. unfold ids in Hin. rewrite map_app in Hin.
           apply in_app_or in Hin. apply in_or_app. destruct Hin as [Hin|Hin]; [left; apply (ids_filter_incl _ _ _ Hin)|right; exact Hin].
        -- unfold owned, ids in N. rewrite map_app in N. unfold ids. rewrite map_app.
           apply nd_app_join; [apply nodup_ids_filter; apply (nd_app_l _ _ N)|apply (nd_app_r _ _ N)|].
           intros x H1x H2x. apply ids_filter_incl in H1x. apply (nd_app_disj _ _ x N); [apply H1x|exact H2x].
      * unfold owned, apairs. simpl. rewrite remove_id_pairs. constructor; [simpl; lia|].
        rewrite Forall_forall in *. intros p Hp. apply in_app_or in Hp.
        assert (In p (owned r)) as Hq.
        { apply in_or_app. destruct Hp as [Hp|Hp]; [left; apply filter_In in Hp; apply Hp|right; exact Hp]. }
        specialize (R p Hq). lia.
    + apply post_ret. split; [|split; reflexivity].
      exists (nb + 1). split; [lia|]. split; [|split].
      * eapply st2_ext; [intros l0; reflexivity| |exact H1]. intros x. cbv beta. symmetry. apply rview_cons_arr.
      * unfold owned, apairs. simpl. constructor; [exact Fresh|exact N].
      * unfold owned, apairs. simpl. constructor; [simpl; lia|].
        rewrite Forall_forall in *. intros p Hp. specialize (R p Hp). lia.
Qed.

Lemma rinv_cnt r s c : rinv r s -> rinv (mkRl c (r_cap r) (r_arrs r) (r_nodes r) (r_olds r)) s.
Proof. intros I. exact I. Qed.
Lemma rinv_olds r s c o : rinv r s -> rinv (mkRl c (r_cap r) (r_arrs r) (r_nodes r) o) s.
Proof. intros I. exact I. Qed.

(* a node is created and recorded in one go *)
Lemma node_post r s sz c :
  rinv r s ->
  post (p_alloc mgr sz) s
       (fun b s' => rinv (mkRl c (r_cap r) (r_arrs r) ((b, sz) :: r_nodes r) (r_olds r)) s')
       (fun s' => rinv r s').
Proof.
  intros (nb & Hnb & H & N & R).
  eapply post_conseq; [apply (p_alloc_post2 mgr sz s f (rview r) nb H)| |].
  2:{ intros s' H'. exists nb. split; [exact Hnb|split; [exact H'|split; assumption]]. }
  intros b s1 [Eb H1]. subst b.
  assert (Fresh : ~ In nb (ids (owned r))).
  { intros Hin. apply in_map_iff in Hin. destruct Hin as (p & E & Hp). rewrite Forall_forall in R. specialize (R p Hp). lia. }
  exists (nb + 1). split; [lia|]. split; [|split].
  - eapply st2_ext; [intros l0; reflexivity| |exact H1]. intros x. cbv beta.
    unfold rview, owned. simpl. rewrite !lookup_app. simpl.
    destruct (Z.eqb_spec nb x) as [E|E]; [|reflexivity].
    subst x. rewrite lookup_none; [reflexivity|].
    intros Hin. apply Fresh. unfold owned, ids. rewrite map_app. apply in_or_app. left. exact Hin.
  - unfold owned. simpl. unfold ids. rewrite map_app. simpl. apply nodup_mid.
    + unfold owned, ids in Fresh. rewrite map_app in Fresh. exact Fresh.
    + unfold owned, ids in N. rewrite map_app in N. exact N.
  - unfold owned. simpl. rewrite Forall_forall in *. intros p Hp. apply in_app_or in Hp. destruct Hp as [Hp|[Hp|Hp]].
    + specialize (R p (in_or_app _ _ _ (or_introl Hp))). lia.
    + subst p. simpl. lia.
    + specialize (R p (in_or_app _ _ _ (or_intror Hp))). lia.
Qed.

Definition good_step (st : mstep) : Prop := match st with MNodeBad _ => False | _ => True end.

(* every step of the real order is atomic for the invariant: Val -> holds for the new record, Exc -> holds for the OLD record *)
Lemma mstep_post r s st :
  good_step st -> rinv r s ->
  post (mstep_run mgr esz grow r st) s
       (fun r' s' => rinv r' s' /\ r_olds r' = match st with MOld b sz => (b, sz) :: r_olds r | _ => r_olds r end)
       (fun s' => rinv r s').
Proof.
  intros G I. destruct st as [b sz|t| |sz|sz]; simpl in G; try contradiction; unfold mstep_run.
  - apply post_bind. eapply post_conseq; [apply (arr_reserve_post AOld _ r s I)| |cbv beta; intros; try contradiction; auto].
    intros r1 s1 (I1 & En & Eo). apply post_ret. simpl. split; [exact I1|rewrite Eo; reflexivity].
  - apply post_bind. eapply post_conseq; [apply (arr_reserve_post t _ r s I)| |cbv beta; intros; try contradiction; auto].
    intros r1 s1 (I1 & En & Eo). apply post_ret. simpl. split; [exact I1|exact Eo].
  - eapply post_conseq; [apply (arr_reserve_post ANew _ r s I)| |cbv beta; intros; try contradiction; auto].
    intros r1 s1 (I1 & En & Eo). split; [exact I1|exact Eo].
  - apply post_bind. eapply post_conseq; [apply (node_post r s sz (upd (r_cnt r) ANew (S (r_cnt r ANew))) I)| |cbv beta; intros; try contradiction; auto].
    intros b s1 I1. apply post_ret. simpl. split; [exact I1|reflexivity].
Qed.

(* ---- the two destructors *)
Lemma fail_dtor_post r s :
  rinv r s -> post (fail_dtor mgr r) s (fun _ s' => exists nb, nb0 <= nb /\ st2 s' f g nb) (fun _ => False).
Proof.
  intros I. pose proof I as (nb & Hnb & H & N & R). unfold fail_dtor.
  unfold owned, ids in N. rewrite map_app in N.
  apply post_bind.
  eapply post_conseq; [apply (free_pairs_post2 mgr f (r_nodes r) s (rview r) nb H (nd_app_r _ _ N))| |cbv beta; intros; try contradiction; auto].
  { intros b sz Hin. unfold rview. rewrite (lookup_nodup b sz (owned r)); [reflexivity| |apply in_or_app; right; exact Hin].
    unfold owned, ids. rewrite map_app. exact N. }
  intros u s1 H1.
  eapply post_conseq; [apply (free_pairs_post2 mgr f (apairs r) s1 _ nb H1 (nd_app_l _ _ N))| |cbv beta; intros; try contradiction; auto].
  { intros b sz Hin. cbv beta.
    destruct (memz_spec b (ids (r_nodes r))) as [Hm|Hm].
    - exfalso. apply (nd_app_disj _ _ b N); [apply (in_map fst _ _ Hin)|exact Hm].
    - unfold rview. rewrite (lookup_nodup b sz (owned r)); [reflexivity| |apply in_or_app; left; exact Hin].
      unfold owned, ids. rewrite map_app. exact N. }
  intros u2 s2 H2. exists nb. split; [exact Hnb|].
  eapply st2_ext; [intros l0; reflexivity| |exact H2]. intros x. cbv beta.
  destruct (memz_spec x (ids (apairs r))) as [Ha|Ha].
  { symmetry. apply (owned_range r s x I). unfold owned, ids. rewrite map_app. apply in_or_app. left. exact Ha. }
  destruct (memz_spec x (ids (r_nodes r))) as [Hn|Hn].
  { symmetry. apply (owned_range r s x I). unfold owned, ids. rewrite map_app. apply in_or_app. right. exact Hn. }
  unfold rview, owned. rewrite lookup_app, (lookup_none x _ Ha), (lookup_none x _ Hn). reflexivity.
Qed.

(* what the tree has after a successful insertion: the old nodes are gone, the new ones are there, nothing else changed *)
Definition done_view (r : reloc) : bview :=
  fun x => if memz x (ids (r_olds r)) then None
           else match lookup x (r_nodes r) with Some sz => Some (mgr, sz) | None => g x end.

Lemma done_dtor_post r s :
  rinv r s -> olds_ok (r_olds r) ->
  post (done_dtor mgr r) s (fun _ s' => exists nb, nb0 <= nb /\ st2 s' f (done_view r) nb) (fun _ => False).
Proof.
  intros I [No Fo]. pose proof I as (nb & Hnb & H & N & R). unfold done_dtor.
  unfold owned, ids in N. rewrite map_app in N.
  assert (Hold_not_owned : forall x, In x (ids (r_olds r)) -> lookup x (owned r) = None).
  { intros x Hx. apply lookup_none. intros Hin. apply in_map_iff in Hx. destruct Hx as (p & E & Hp). subst x.
    rewrite Forall_forall in Fo. destruct (Fo p Hp) as [Hlt _].
    apply in_map_iff in Hin. destruct Hin as (q & E & Hq). rewrite Forall_forall in R. specialize (R q Hq). lia. }
  apply post_bind.
  eapply post_conseq; [apply (free_pairs_post2 mgr f (r_olds r) s (rview r) nb H No)| |cbv beta; intros; try contradiction; auto].
  { intros b sz Hin. unfold rview. rewrite Hold_not_owned; [|apply (in_map fst _ _ Hin)].
    rewrite Forall_forall in Fo. apply (Fo (b, sz) Hin). }
  intros u s1 H1.
  eapply post_conseq; [apply (free_pairs_post2 mgr f (apairs r) s1 _ nb H1 (nd_app_l _ _ N))| |cbv beta; intros; try contradiction; auto].
  { intros b sz Hin. cbv beta.
    destruct (memz_spec b (ids (r_olds r))) as [Hm|Hm].
    - exfalso. pose proof (Hold_not_owned b Hm) as Hn.
      rewrite (lookup_nodup b sz (owned r)) in Hn; [discriminate| |apply in_or_app; left; exact Hin].
      unfold owned, ids. rewrite map_app. exact N.
    - unfold rview. rewrite (lookup_nodup b sz (owned r)); [reflexivity| |apply in_or_app; left; exact Hin].
      unfold owned, ids. rewrite map_app. exact N. }
  intros u2 s2 H2. exists nb. split; [exact Hnb|].
  eapply st2_ext; [intros l0; reflexivity| |exact H2]. intros x. cbv beta. unfold done_view.
  destruct (memz_spec x (ids (apairs r))) as [Ha|Ha].
  { destruct (memz x (ids (r_olds r))); [reflexivity|].
    rewrite lookup_none; [|intros Hn; apply (nd_app_disj _ _ x N Ha Hn)].
    symmetry. apply (owned_range r s x I). unfold owned, ids. rewrite map_app. apply in_or_app. left. exact Ha. }
  destruct (memz x (ids (r_olds r))); [reflexivity|].
  unfold rview, owned. rewrite lookup_app, (lookup_none x _ Ha). reflexivity.
Qed.

(* ---- the whole run *)
Fixpoint olds_of (steps : list mstep) : list (Z * Z) :=
  match steps with
  | [] => []
  | MOld b sz :: rest => (b, sz) :: olds_of rest
  | _ :: rest => olds_of rest
  end.

Lemma reloc_run_post (Qv : rstate -> Prop) (Qe : rstate -> Prop) k :
  (forall s nb, nb0 <= nb -> st2 s f g nb -> Qe s) ->
  forall steps r s,
  Forall good_step steps -> rinv r s ->
  (forall r' s', rinv r' s' -> r_olds r' = rev (olds_of steps) ++ r_olds r -> post (k r') s' (fun _ s2 => Qv s2) Qe) ->
  post (reloc_run mgr esz grow r steps k) s (fun _ s2 => Qv s2) Qe.
Proof.
  intros HQe. induction steps as [|st rest IH]; intros r s G I K.
  - simpl. apply K; [exact I|reflexivity].
  - simpl. inversion G as [|a l Gst Grest]; subst. apply post_bind. apply post_catch.
    eapply post_conseq; [apply (mstep_post r s st Gst I)| |].
    + intros r1 s1 [I1 Eo]. apply (IH r1 s1 Grest I1). intros r' s' I' E'. apply K; [exact I'|].
      rewrite E', Eo. destruct st; simpl; try reflexivity. rewrite <- app_assoc. reflexivity.
    + intros s1 I1. eapply post_conseq; [apply (fail_dtor_post r s1 I1)| |cbv beta; intros; try contradiction; auto].
      intros u s2 (nb & Hnb & H2). apply (HQe s2 nb Hnb H2).
Qed.

Lemma expand_good ops : Forall good_step (flat_map (expand true) ops).
Proof.
  induction ops as [|op ops IH]; simpl; [constructor|]. apply Forall_app. split; [|exact IH].
  destruct op; simpl; repeat constructor.
Qed.

(* ONE INSERTION THROUGH THE RELOCATOR, any script, any growth policy, any schedule:
   - it never gets stuck (no block returned twice / with a wrong size / through another manager);
   - if it throws - wherever: growing one of the four arrays, creating a node, relocating the items - the memory manager's view is
     EXACTLY what it was before the insertion: every node created so far and every array block has been returned;
   - if it succeeds, exactly the old nodes named by the script are gone, exactly the created nodes are new, and no array block remains. *)
Theorem insertion_no_leak ops s nb :
  nb0 <= nb -> st2 s f g nb ->
  olds_ok (rev (olds_of (flat_map (expand true) ops))) ->
  post (insertion mgr esz grow true ops) s
       (fun _ s' => exists r nb', nb0 <= nb' /\ r_olds r = rev (olds_of (flat_map (expand true) ops)) /\ st2 s' f (done_view r) nb')
       (fun s' => exists nb', nb0 <= nb' /\ st2 s' f g nb').
Proof.
  intros Hnb H Ho. unfold insertion.
  apply (reloc_run_post
           (fun s' => exists r nb', nb0 <= nb' /\ r_olds r = rev (olds_of (flat_map (expand true) ops)) /\ st2 s' f (done_view r) nb')
           (fun s' => exists nb', nb0 <= nb' /\ st2 s' f g nb')).
  - intros s0 n0 Hn0 H0. exists n0. split; assumption.
  - apply expand_good.
  - exists nb. split; [exact Hnb|]. split; [|split; [constructor|constructor]].
    eapply st2_ext; [intros l0; reflexivity| |exact H]. intros x. reflexivity.
  - intros r' s' I' Eo. rewrite app_nil_r in Eo. apply post_bind. apply post_catch.
    destruct I' as (n1 & Hn1 & H1 & N1 & R1).
    eapply post_conseq; [apply (fallible_post2 s' f (rview r') n1 H1)| |].
    + intros u s1 H1'. assert (I1 : rinv r' s1) by (exists n1; split; [exact Hn1|split; [exact H1'|split; assumption]]).
      eapply post_conseq; [apply (done_dtor_post r' s1 I1)| |cbv beta; intros; try contradiction; auto].
      * rewrite Eo. exact Ho.
      * intros u2 s2 (n2 & Hn2 & H2). exists r', n2. split; [exact Hn2|split; [exact Eo|exact H2]].
    + intros s1 H1'. assert (I1 : rinv r' s1) by (exists n1; split; [exact Hn1|split; [exact H1'|split; assumption]]).
      eapply post_conseq; [apply (fail_dtor_post r' s1 I1)| |cbv beta; intros; try contradiction; auto].
      intros u2 s2 (n2 & Hn2 & H2). exists n2. split; assumption.
Qed.

End RelocatorProofs.

(* ------------------------------------------------------------------ closed forms and the seeded order *)
(* from a world with exactly the two old nodes (blocks 0 and 1): no schedule gets stuck; a failed insertion leaves exactly those two
   blocks; a successful one has returned both *)
Theorem h23_any_schedule sch :
  match insertion 1 esz_std grow_dbl true h23_script (h23_state sch) with
  | (Stuck, _) => False
  | (Exc, s') => forall b, find_blk b (blocks s') = find_blk b (blocks (h23_state sch))
  | (Val _, s') => find_blk 0 (blocks s') = None /\ find_blk 1 (blocks s') = None
  end.
Proof.
  set (g := fun x : Z => find_blk x (blocks (h23_state sch))).
  assert (Hg0 : forall b, 2 <= b -> g b = None).
  { intros b Hb. unfold g. change (blocks (h23_state sch)) with [(1, (1, 96)); (0, (1, 48))]. unfold find_blk.
    rewrite (proj2 (Z.eqb_neq 1 b)) by lia. rewrite (proj2 (Z.eqb_neq 0 b)) by lia. reflexivity. }
  assert (H : st2 (h23_state sch) (fun _ => false) g 2).
  { split; [intros l; reflexivity|]. split; [intros b; reflexivity|reflexivity]. }
  assert (Ho : olds_ok 1 g 2 (rev (olds_of (flat_map (expand true) h23_script)))).
  { simpl. split; [repeat constructor; simpl; intuition lia|]. repeat constructor; simpl; lia. }
  pose proof (insertion_no_leak 1 esz_std grow_dbl (fun _ => false) g 2 Hg0 h23_script (h23_state sch) 2 (Z.le_refl 2) H Ho) as P.
  unfold post in P. destruct (insertion 1 esz_std grow_dbl true h23_script (h23_state sch)) as [[u| |] s']; [| |exact P].
  - destruct P as (r & nb' & Hnb & Eo & (_ & B & _)). unfold done_view in B.
    split; rewrite B, Eo; reflexivity.
  - destruct P as (nb' & Hnb & (_ & B & _)). intros b. rewrite B. reflexivity.
Qed.

(* without failures: the five new nodes (two leaves of 32 bytes, three internal nodes of 96) are all that is live *)
Theorem h23_success_five_nodes :
  let '(o, s') := insertion 1 esz_std grow_dbl true h23_script (h23_state []) in
  o = Val tt /\ map (fun e => snd (snd e)) (blocks s') = [96; 96; 96; 32; 32].
Proof. vm_compute. split; reflexivity. Qed.

(* SEEDED ORDER (Node::Create before mNewNodes.AddBack): the failure of the allocation by which mNewNodes leaves its internal
   storage - the 5th node of the insertion - strands that node: after the failed insertion, and for ever, one 96-byte block more
   than before is live.  With the real order the same schedule leaves exactly the two old nodes. *)
Theorem create_before_reserve_refuted :
  exists sch,
    (let '(o, s') := insertion 1 esz_std grow_dbl false h23_script (h23_state sch) in
     o = Exc /\ map (fun e => (fst e, snd (snd e))) (blocks s') = [(8, 96); (1, 96); (0, 48)]) /\
    (let '(o, s') := insertion 1 esz_std grow_dbl true h23_script (h23_state sch) in
     o = Exc /\ map (fun e => (fst e, snd (snd e))) (blocks s') = [(1, 96); (0, 48)]).
Proof. exists [false; false; false; false; false; false; false; true]. split; vm_compute; split; reflexivity. Qed.
