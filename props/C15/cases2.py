"""C15: (state, invalidating operation, subsequent use) triples for harness2 (HashMultiMap, Array / SegmentedArray with index
iterators, DataTable).  Line format: <kind> <n> <mutator> <use> <flag>"""
N_MUT = {'mm': 18, 'ar': 8, 'ai': 8, 'sa': 8, 'dt': 16}
N_USE = {'mm': 28, 'ar': 28, 'ai': 28, 'sa': 28, 'dt': 43}      # dt uses 34.. = index look-up handles (indexed table only)
SIZES = {'mm': [3, 12, 40], 'ar': [0, 1, 3, 9, 70], 'ai': [0, 1, 3, 4, 5, 9], 'sa': [0, 1, 3, 9, 70, 300], 'dt': [4, 9, 40]}


def gen(ctx, scale):
    cases = []
    for kind in ('mm', 'ar', 'ai', 'sa', 'dt'):
        sizes = SIZES[kind] if scale > 1 else SIZES[kind][:4]
        for n in sizes:
            for m in range(N_MUT[kind]):
                for u in range(N_USE[kind]):
                    if kind == 'dt':
                        if u < 34:
                            cases.append('dt %d %d %d 0' % (n, m, u))
                        if n != 40 or scale > 1 or u >= 34:
                            cases.append('dt %d %d %d 1' % (n, m, u))
                    else:
                        cases.append('%s %d %d %d 0' % (kind, n, m, u))
    return cases
