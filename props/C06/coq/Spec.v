(* C06 - L0 specifications of the std containers, as executable Gallina over lists.
   An element is a pair (key, payload): payload = mapped value for maps, an identity tag for sets
   (the harness uses a key type compared by `key` only, so stable order of equivalent keys is observable). *)
From Coq Require Import List ZArith Bool Lia Arith.
Import ListNotations.

Definition elem := (Z * Z)%type.
Definition key (e : elem) : Z := fst e.
Definition dflt : elem := (0%Z, 0%Z).

Definition elem_eqb (a b : elem) : bool := (fst a =? fst b)%Z && (snd a =? snd b)%Z.

(* ---------- ordered containers: sorted (multi)sequence ---------- *)
(* std ordering contract: multi => non-decreasing keys, unique => strictly increasing keys *)
Definition ordered (multi : bool) (a b : Z) : bool := if multi then negb (b <? a)%Z else (a <? b)%Z.

Fixpoint sorted (multi : bool) (l : list elem) : Prop :=
  match l with
  | [] => True
  | x :: t => Forall (fun y => ordered multi (key x) (key y) = true) t /\ sorted multi t
  end.

Fixpoint lower_bound (k : Z) (l : list elem) : nat :=
  match l with [] => 0 | e :: t => if (key e <? k)%Z then S (lower_bound k t) else 0 end.
Fixpoint upper_bound (k : Z) (l : list elem) : nat :=
  match l with [] => 0 | e :: t => if (key e <=? k)%Z then S (upper_bound k t) else 0 end.

Definition insert_at (i : nat) (x : elem) (l : list elem) : list elem := firstn i l ++ x :: skipn i l.
Definition erase_range (i j : nat) (l : list elem) : list elem := firstn i l ++ skipn j l.
Definition clamp (h lo hi : nat) : nat := if h <? lo then lo else if hi <? h then hi else h.

(* insert / emplace without hint: (position of the element with that key, inserted?, new sequence) *)
Definition ord_insert (multi : bool) (x : elem) (l : list elem) : nat * bool * list elem :=
  let lb := lower_bound (key x) l in
  let ub := upper_bound (key x) l in
  if multi then (ub, true, insert_at ub x l)
  else if lb <? ub then (lb, false, l) else (lb, true, insert_at lb x l).

(* hinted insert: for multi containers "as close as possible to the position just prior to hint" *)
Definition ord_insert_hint (multi : bool) (h : nat) (x : elem) (l : list elem) : nat * bool * list elem :=
  if multi then
    let i := clamp h (lower_bound (key x) l) (upper_bound (key x) l) in (i, true, insert_at i x l)
  else ord_insert false x l.

Definition ord_find (k : Z) (l : list elem) : nat :=
  if lower_bound k l <? upper_bound k l then lower_bound k l else length l.
Definition ord_count (k : Z) (l : list elem) : nat := upper_bound k l - lower_bound k l.
Definition ord_erase_key (k : Z) (l : list elem) : nat * list elem :=
  (ord_count k l, erase_range (lower_bound k l) (upper_bound k l) l).
(* erase(first,last): returns the position following the last removed element *)
Definition ord_erase_range (i j : nat) (l : list elem) : nat * list elem := (i, erase_range i j l).

(* merge(source): every source element is offered in source order; refused ones stay in the source *)
Fixpoint ord_merge (multi : bool) (dst src : list elem) : list elem * list elem :=
  match src with
  | [] => (dst, [])
  | x :: t =>
      match ord_insert multi x dst with
      | (_, true, dst') => ord_merge multi dst' t
      | (_, false, _) => let (d, r) := ord_merge multi dst t in (d, x :: r)
      end
  end.

(* map-only operations *)
Definition ord_assign_at (i : nat) (v : Z) (l : list elem) : list elem :=
  match nth_error l i with Some e => firstn i l ++ (fst e, v) :: skipn (S i) l | None => l end.

(* ---------- unordered containers: association list in arbitrary order ---------- *)
Fixpoint u_find (k : Z) (l : list elem) : option elem :=
  match l with [] => None | e :: t => if (key e =? k)%Z then Some e else u_find k t end.
Definition u_insert (multi : bool) (x : elem) (l : list elem) : elem * bool * list elem :=
  if multi then (x, true, l ++ [x])
  else match u_find (key x) l with Some e => (e, false, l) | None => (x, true, l ++ [x]) end.
Definition u_filter_key (k : Z) (l : list elem) : list elem := filter (fun e => (key e =? k)%Z) l.
Definition u_count (k : Z) (l : list elem) : nat := length (u_filter_key k l).
Definition u_erase_key (k : Z) (l : list elem) : nat * list elem :=
  (u_count k l, filter (fun e => negb (key e =? k)%Z) l).
Fixpoint remove1 (x : elem) (l : list elem) : option (list elem) :=
  match l with
  | [] => None
  | e :: t => if elem_eqb e x then Some t else match remove1 x t with Some t' => Some (e :: t') | None => None end
  end.
Definition u_assign (k v : Z) (l : list elem) : list elem :=
  map (fun e => if (key e =? k)%Z then (k, v) else e) l.
Fixpoint u_merge (multi : bool) (dst src : list elem) : list elem * list elem :=
  match src with
  | [] => (dst, [])
  | x :: t =>
      match u_insert multi x dst with
      | (_, true, dst') => u_merge multi dst' t
      | (_, false, _) => let (d, r) := u_merge multi dst t in (d, x :: r)
      end
  end.

(* operator== of unordered containers: permutation test *)
Fixpoint perm_eqb (l r : list elem) : bool :=
  match l with
  | [] => match r with [] => true | _ => false end
  | x :: t => match remove1 x r with Some r' => perm_eqb t r' | None => false end
  end.

(* ---------- comparison operators of ordered containers and vector ---------- *)
Definition elem_ltb (a b : elem) : bool := (fst a <? fst b)%Z || ((fst a =? fst b)%Z && (snd a <? snd b)%Z).
Fixpoint list_eqb (l r : list elem) : bool :=
  match l, r with
  | [], [] => true
  | x :: t, y :: u => elem_eqb x y && list_eqb t u
  | _, _ => false
  end.
Fixpoint lex_ltb (l r : list elem) : bool :=
  match l, r with
  | _, [] => false
  | [], _ :: _ => true
  | x :: t, y :: u => if elem_ltb x y then true else if elem_ltb y x then false else lex_ltb t u
  end.
(* the six operators as the wrappers derive them: == and < are primary *)
Definition cmp6 (l r : list elem) : list bool :=
  [list_eqb l r; negb (list_eqb l r); lex_ltb l r; negb (lex_ltb r l); lex_ltb r l; negb (lex_ltb l r)].
