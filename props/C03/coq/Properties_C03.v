(* Property C03 -- theorems only.  Each is closed by `exact <lemma>` and followed by Print Assumptions. *)
From Coq Require Import ZArith Bool List.
From C03 Require Monitor Effects.
Import ListNotations.
Local Open Scope Z_scope.
Local Open Scope bool_scope.

(* The executable monitor that is run on the event log of the real containers accepts a trace if and only if
   the trace satisfies the declarative release discipline: for every block and every element object, its own
   history is a sequence of complete lifetimes  open(p) . use* . close(p)  -- i.e. every block is deallocated
   exactly once, after its allocation, with its allocation size and through a manager equal to the allocating
   one; no element is constructed on top of a live one; none is destroyed or used while dead; at the end no
   block and no element is live. *)
Theorem C03_monitor_sound : forall t, Monitor.accepts t = true -> Monitor.trace_ok t.
Proof. exact Monitor.monitor_sound. Qed.
Print Assumptions C03_monitor_sound.

Theorem C03_monitor_complete : forall t, Monitor.trace_ok t -> Monitor.accepts t = true.
Proof. exact Monitor.monitor_complete. Qed.
Print Assumptions C03_monitor_complete.

(* ---- L2 resource machine (Effects.v mirrors ObjectManager.h / Array.h / HashSet.h / TreeSet.h line by line).
   Reading guide: [st_is s f bs nb] = in state s the occupied cells (constructed, not yet destroyed element
   objects) are exactly the set f, the live blocks are exactly bs.  [post m s Qv Qe] = running m from s - whose
   failure schedule is arbitrary - never gets Stuck (no double destroy, no construction over a live element, no use
   of a dead one, no double free / wrong size / wrong manager), and ends normally in a state satisfying Qv or
   with a propagating exception in a state satisfying Qe. *)
From C03 Require EffectsProofs.
Import Effects EffectsProofs.

(* ObjectManager::RelocateExec, both relocation categories, every count, every schedule, every executor:
   on success the count source cells are destroyed, the count destination cells (and what the executor built)
   are live; on an exception the occupied cells are EXACTLY those before the call (every copy made so far has
   been destroyed again, no source has been destroyed); blocks untouched. *)
Theorem C03_relocate_exec_no_leak :
  forall c sr sb dr db n e s f bs nb,
    st_is s f bs nb -> reloc_pre f sr sb dr db n -> exec_ok f e ->
    (forall l, exec_add e l = true -> inrng dr db n l = false) ->
    post (om_relocate_exec c sr sb dr db n e) s
         (fun _ s' => st_is s' (fun l => negb (inrng sr sb n l) && (inrng dr db n l || exec_add e l || f l)) bs nb)
         (fun s' => st_is s' f bs nb).
Proof. exact EffectsProofs.om_relocate_exec_post. Qed.
Print Assumptions C03_relocate_exec_no_leak.

(* ObjectManager::Relocate(srcBegin, dstBegin, count): nothrow-move items are moved and destroyed one by one and
   nothing can throw; copy-only items go through RelocateCreate on the tail + a move-creator for the head. *)
Theorem C03_relocate_no_leak :
  forall c sr sb dr db n s f bs nb,
    st_is s f bs nb -> reloc_pre f sr sb dr db n ->
    post (om_relocate c sr sb dr db n) s
         (fun _ s' => st_is s' (fun l => negb (inrng sr sb n l) && (inrng dr db n l || f l)) bs nb)
         (fun s' => c = CPO /\ st_is s' f bs nb).
Proof. exact EffectsProofs.om_relocate_post. Qed.
Print Assumptions C03_relocate_no_leak.

Theorem C03_relocate_create_no_leak :
  forall c sr sb dr db n nd ns s f bs nb,
    st_is s f bs nb -> reloc_pre f sr sb dr db n -> f ns = true -> f nd = false -> inrng dr db n nd = false ->
    post (om_relocate_create c sr sb dr db n nd ns) s
         (fun _ s' => st_is s' (fun l => negb (inrng sr sb n l) && (inrng dr db n l || loc_eqb l nd || f l)) bs nb)
         (fun s' => st_is s' f bs nb).
Proof. exact EffectsProofs.om_relocate_create_post. Qed.
Print Assumptions C03_relocate_create_no_leak.

(* ObjectManager::MoveExec / CopyExec: the destination is live afterwards iff the call returned normally. *)
Theorem C03_move_exec_no_leak :
  forall c dst src e s f bs nb,
    st_is s f bs nb -> f src = true -> f dst = false -> exec_ok f e -> exec_add e dst = false ->
    post (om_move_exec c dst src e) s
         (fun _ s' => st_is s' (fun l => loc_eqb l dst || exec_add e l || f l) bs nb)
         (fun s' => st_is s' f bs nb).
Proof. exact EffectsProofs.om_move_exec_post. Qed.
Print Assumptions C03_move_exec_no_leak.

Theorem C03_copy_exec_no_leak :
  forall c dst src e s f bs nb,
    st_is s f bs nb -> f src = true -> f dst = false -> exec_ok f e -> exec_add e dst = false ->
    post (om_copy_exec c dst src e) s
         (fun _ s' => st_is s' (fun l => loc_eqb l dst || exec_add e l || f l) bs nb)
         (fun s' => st_is s' f bs nb).
Proof. exact EffectsProofs.om_copy_exec_post. Qed.
Print Assumptions C03_copy_exec_no_leak.

(* ObjectManager::Destroy(begin, count) on count live cells never destroys twice and leaves them all raw. *)
Theorem C03_destroy_range_exact :
  forall r n base s f bs nb,
    st_is s f bs nb -> (forall k, 0 <= k < Z.of_nat n -> f (r, base + k) = true) ->
    post (om_destroy_n r base n) s (fun _ s' => st_is s' (fun l => negb (inrng r base n l) && f l) bs nb) (fun _ => False).
Proof. exact EffectsProofs.om_destroy_n_post. Qed.
Print Assumptions C03_destroy_range_exact.
