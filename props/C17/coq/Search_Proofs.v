(* C17: proofs about the generic searches (pvBinarySearch, pvExponentialSearch) and pvFindHash. *)
From Coq Require Import ZArith Bool List Lia.
From MomoCommon Require Import GenPrelude.
From C17 Require Import SorterSearch.
Local Open Scope Z_scope.

(* ---------- one-step unfolding lemmas ---------- *)
Lemma bs_loop_eq f cmp l r : bs_loop (S f) cmp l r =
  if l <? r then
    let m := (wrapU 64 (l + r)) / 2 in
    c <- cmp m ;;
    if c <? 0 then bs_loop f cmp (m + 1) r
    else if 0 <? c then bs_loop f cmp l m
    else Ok (m, true)
  else Ok (l, false).
Proof. reflexivity. Qed.

Lemma es_loop_eq f cmp cnt left i : es_loop (S f) cmp cnt left i =
  if i <? cnt then
    c <- cmp i ;;
    if 0 <? c then bs_from cmp left (i - left)
    else if c =? 0 then Ok (i, true)
    else es_loop f cmp cnt (i + 1) (wrapU 64 (i * 2 + 2))
  else bs_from cmp left (cnt - left).
Proof. reflexivity. Qed.

(* ---------- specification of a search over a comparer ---------- *)
Definition cmp_ok (cmp : Z -> outcome Z) (c : Z -> Z) (n : Z) : Prop :=
  forall i, 0 <= i < n -> cmp i = Ok (c i).

(* the comparer is "sorted": negative, then zero, then positive *)
Definition mono (c : Z -> Z) (n : Z) : Prop :=
  forall i j, 0 <= i -> i <= j -> j < n -> (c j < 0 -> c i < 0) /\ (0 < c i -> 0 < c j).

(* result (k, found): k within [0,n]; found -> comparer is 0 at k; for a sorted comparer not-found means k is
   the partition point (everything before is negative, everything from k on is positive) *)
Definition sres (c : Z -> Z) (n k : Z) (b : bool) : Prop :=
  0 <= k <= n /\ (b = true -> k < n /\ c k = 0) /\
  (mono c n -> b = false -> (forall i, 0 <= i < k -> c i < 0) /\ (forall i, k <= i < n -> 0 < c i)).

Lemma pow2_succ f : 2 ^ Z.of_nat (S f) = 2 * 2 ^ Z.of_nat f.
Proof. rewrite Nat2Z.inj_succ, Z.pow_succ_r by lia. reflexivity. Qed.

Lemma bs_loop_spec cmp c n : cmp_ok cmp c n -> n < 2 ^ 62 ->
  forall f l r, 0 <= l -> l <= r -> r <= n -> r - l < 2 ^ Z.of_nat f ->
    (mono c n -> forall i, 0 <= i < l -> c i < 0) ->
    (mono c n -> forall i, r <= i < n -> 0 < c i) ->
    exists k b, bs_loop (S f) cmp l r = Ok (k, b) /\ l <= k <= r /\ (b = true -> k < r /\ c k = 0) /\
      (mono c n -> b = false -> (forall i, 0 <= i < k -> c i < 0) /\ (forall i, k <= i < n -> 0 < c i)).
Proof.
  intros Hok Hn. induction f as [|f IH]; intros l r Hl Hlr Hr Hf Hlo Hhi; rewrite bs_loop_eq.
  - destruct (Z.ltb_spec l r). { simpl in Hf. lia. }
    exists l, false. split; [reflexivity|]. split; [lia|]. split; [discriminate|].
    intros M _. split; [apply Hlo; exact M|]. intros i Hi. apply Hhi; [exact M|lia].
  - destruct (Z.ltb_spec l r) as [Hlt|Hge].
    + rewrite pow2_succ in Hf.
      assert (Hw : wrapU 64 (l + r) = l + r) by (apply wrapU_small; lia). cbv zeta. rewrite Hw.
      set (m := (l + r) / 2).
      assert (Hm : l <= m < r /\ 2 * m <= l + r < 2 * m + 2).
      { unfold m. pose proof (Z.div_mod (l + r) 2 ltac:(lia)). pose proof (Z.mod_pos_bound (l + r) 2 ltac:(lia)). lia. }
      rewrite (Hok m) by lia. cbn [bind].
      destruct (Z.ltb_spec (c m) 0) as [Hneg|Hnn].
      * destruct (IH (m + 1) r) as (k & b & E & Hk & Hb & Hp); try lia.
        { intros M i Hi. destruct (M i m ltac:(lia) ltac:(lia) ltac:(lia)) as [A B]; lia. }
        { exact Hhi. }
        exists k, b. repeat split; try tauto; lia.
      * destruct (Z.ltb_spec 0 (c m)) as [Hpos|Hnp].
        -- destruct (IH l m) as (k & b & E & Hk & Hb & Hp); try lia.
           { exact Hlo. }
           { intros M i Hi. destruct (Z_lt_le_dec i r) as [Hir|Hir]; [|apply Hhi; [exact M|lia]].
             destruct (M m i ltac:(lia) ltac:(lia) ltac:(lia)) as [A B]; lia. }
           exists k, b. split; [exact E|]. split; [lia|]. split; [|exact Hp].
           intros Hbt. destruct (Hb Hbt). split; [lia|assumption].
        -- exists m, true. split; [reflexivity|]. split; [lia|]. split; [intros _; split; lia|discriminate].
    + assert (l = r) by lia. subst r.
      exists l, false. split; [reflexivity|]. split; [lia|]. split; [discriminate|].
      intros M _. split; [apply Hlo; exact M|]. intros i Hi. apply Hhi; [exact M|lia].
Qed.

Theorem pvBinarySearch_spec cmp c n : cmp_ok cmp c n -> 0 <= n < 2 ^ 62 ->
  exists k b, pvBinarySearch cmp n = Ok (k, b) /\ sres c n k b.
Proof.
  intros Hok Hn. unfold pvBinarySearch, log_fuel.
  destruct (bs_loop_spec cmp c n Hok ltac:(lia) 65%nat 0 n) as (k & b & E & Hk & Hb & Hp); try lia.
  all: try (change (2 ^ Z.of_nat 65) with (2 ^ 65); lia).
  exists k, b. split; [exact E|]. unfold sres. tauto.
Qed.

(* pvBinarySearch on the sub-range [left, m) of a larger comparer *)
Lemma bs_from_spec cmp c n left m : cmp_ok cmp c n -> n < 2 ^ 62 -> 0 <= left -> left <= m -> m <= n ->
  (mono c n -> forall k, 0 <= k < left -> c k < 0) ->
  (mono c n -> forall k, m <= k < n -> 0 < c k) ->
  exists k b, bs_from cmp left (m - left) = Ok (k, b) /\ sres c n k b /\ left <= k <= m.
Proof.
  intros Hok Hn Hl Hlm Hmn Hlo Hhi. unfold bs_from.
  destruct (pvBinarySearch_spec (fun k => cmp (left + k)) (fun k => c (left + k)) (m - left)) as (k & b & E & Hs).
  { intros i Hi. apply Hok. lia. }
  { lia. }
  rewrite E. cbn [bind fst snd]. exists (left + k), b. split; [reflexivity|].
  destruct Hs as (Hk & Hb & Hp). split; [|lia]. split; [lia|]. split.
  - intros Hbt. destruct (Hb Hbt). split; [lia|assumption].
  - intros M Hbf.
    assert (M' : mono (fun k => c (left + k)) (m - left)).
    { intros i j Hi Hij Hj. apply M; lia. }
    destruct (Hp M' Hbf) as [P1 P2]. split; intros i Hi.
    + destruct (Z_lt_le_dec i left); [apply Hlo; [exact M|lia]|].
      replace i with (left + (i - left)) by lia. apply P1. lia.
    + destruct (Z_lt_le_dec i m); [|apply Hhi; [exact M|lia]].
      replace i with (left + (i - left)) by lia. apply P2. lia.
Qed.

Lemma es_loop_spec cmp c n : cmp_ok cmp c n -> 0 <= n < 2 ^ 62 ->
  forall f left i, 0 <= left -> left <= i -> left <= n -> n + 2 <= (i + 2) * 2 ^ Z.of_nat f ->
    (mono c n -> forall k, 0 <= k < left -> c k < 0) ->
    exists k b, es_loop (S f) cmp n left i = Ok (k, b) /\ sres c n k b.
Proof.
  intros Hok Hn. induction f as [|f IH]; intros left i Hl Hli Hln Hf Hlo; rewrite es_loop_eq.
  - destruct (Z.ltb_spec i n). { simpl in Hf. lia. }
    destruct (bs_from_spec cmp c n left n) as (k & b & E & Hs & _); try assumption; try lia.
    all: try (intros _ k0 Hk0; lia).
    exists k, b. tauto.
  - destruct (Z.ltb_spec i n) as [Hin|Hin].
    + rewrite (Hok i) by lia. cbn [bind].
      destruct (Z.ltb_spec 0 (c i)) as [Hpos|Hnp].
      * destruct (bs_from_spec cmp c n left i) as (k & b & E & Hs & _); try assumption; try lia.
        { intros M k Hk. destruct (M i k ltac:(lia) ltac:(lia) ltac:(lia)) as [A B]; lia. }
        exists k, b. tauto.
      * destruct (Z.eqb_spec (c i) 0) as [Hz|Hnz].
        -- exists i, true. split; [reflexivity|]. split; [lia|]. split; [intros _; split; [lia|exact Hz]|discriminate].
        -- rewrite pow2_succ in Hf.
           assert (Hw : wrapU 64 (i * 2 + 2) = i * 2 + 2) by (apply wrapU_small; lia). rewrite Hw.
           apply IH; try lia.
           all: try (intros M k Hk; destruct (M k i ltac:(lia) ltac:(lia) ltac:(lia)) as [A B]; lia).
           all: nia.
    + destruct (bs_from_spec cmp c n left n) as (k & b & E & Hs & _); try assumption; try lia.
      all: try (intros _ k0 Hk0; lia).
      exists k, b. tauto.
Qed.

Theorem pvExponentialSearch_spec cmp c n : cmp_ok cmp c n -> 0 <= n < 2 ^ 62 ->
  exists k b, pvExponentialSearch cmp n = Ok (k, b) /\ sres c n k b.
Proof.
  intros Hok Hn. unfold pvExponentialSearch, log_fuel.
  apply (es_loop_spec cmp c n Hok Hn 65%nat 0 0); try lia.
  all: try (change (2 ^ Z.of_nat 65) with (2 ^ 65); lia).
Qed.

(* ================= pvFindHash ================= *)
Section FindHash.
  Variable MultShift : Z -> Z -> Z.
  Variable StepCount : Z -> Z.
  Variable Compare : Z -> Z -> Z.
  Hypothesis MS : forall h n, 0 <= h < 2 ^ 64 -> 0 < n < 2 ^ 64 -> 0 <= MultShift h n < n.
  Hypothesis SC : forall n, 0 <= StepCount n <= 3.
  Hypothesis CMP : forall a b, (a < b -> Compare a b = -1) /\ (a = b -> Compare a b = 0) /\ (b < a -> Compare a b = 1).

  Variable count : Z.
  Variable hash : Z -> Z.
  Variable qh : Z.
  Hypothesis Hcount : 0 <= count < 2 ^ 62.
  Hypothesis Hhash : forall i, 0 <= i < count -> 0 <= hash i < 2 ^ 64.
  Hypothesis Hqh : 0 <= qh < 2 ^ 64.

  Definition sorted : Prop := forall i j, 0 <= i -> i <= j -> j < count -> hash i <= hash j.

  Local Notation rdh := (SorterSearch.rdh count hash).
  Local Notation fh_loop := (SorterSearch.fh_loop MultShift Compare count hash qh).
  Local Notation cmp_fwd := (SorterSearch.cmp_fwd Compare count hash qh).
  Local Notation cmp_rev := (SorterSearch.cmp_rev Compare count hash qh).

  Lemma rdh_ok i : 0 <= i < count -> rdh i = Ok (hash i).
  Proof.
    intros H. unfold SorterSearch.rdh, inb.
    destruct (Z.leb_spec 0 i); [|lia]. destruct (Z.ltb_spec i count); [|lia]. reflexivity.
  Qed.

  Lemma cmp_neg a b : Compare a b < 0 <-> a < b.
  Proof. destruct (CMP a b) as (A & B & C). destruct (Z.lt_trichotomy a b) as [H|[H|H]]; [rewrite A|rewrite B|rewrite C]; lia. Qed.
  Lemma cmp_zero a b : Compare a b = 0 <-> a = b.
  Proof. destruct (CMP a b) as (A & B & C). destruct (Z.lt_trichotomy a b) as [H|[H|H]]; [rewrite A|rewrite B|rewrite C]; lia. Qed.
  Lemma cmp_pos a b : 0 < Compare a b <-> b < a.
  Proof. destruct (CMP a b) as (A & B & C). destruct (Z.lt_trichotomy a b) as [H|[H|H]]; [rewrite A|rewrite B|rewrite C]; lia. Qed.

  (* result of pvFindHash: index within [0,count]; found -> that index carries the hash; on a sorted
     array not-found -> the index is the partition point (lower bound) of the hash *)
  Definition fhres (k : Z) (b : bool) : Prop :=
    0 <= k <= count /\ (b = true -> k < count /\ hash k = qh) /\
    (sorted -> b = false -> (forall i, 0 <= i < k -> hash i < qh) /\ (forall i, k <= i < count -> qh < hash i)).

  Lemma fh_loop_eq f left right middle step : fh_loop (S f) left right middle step =
      mh <- rdh middle ;;
      if mh <? qh then
        let left := middle + 1 in
        if step =? 0 then
          r <- pvExponentialSearch (cmp_fwd left) (right - left) ;; Ok (left + fst r, snd r)
        else
          let middle := wrapU 64 (middle + MultShift (wrapU 64 (qh - mh)) count) in
          if right <=? middle then bs_from (cmp_fwd 0) left (right - left)
          else fh_loop f left right middle (step - 1)
      else if qh <? mh then
        let right := middle in
        if step =? 0 then
          r <- pvExponentialSearch (cmp_rev right) (right - left) ;;
          Ok (right - fst r - (if snd r then 1 else 0), snd r)
        else
          let diff := MultShift (wrapU 64 (mh - qh)) count in
          if middle <? wrapU 64 (left + diff) then bs_from (cmp_fwd 0) left (right - left)
          else fh_loop f left right (middle - diff) (step - 1)
      else Ok (middle, true).
  Proof. reflexivity. Qed.

  (* forward comparer on [left, right) *)
  Definition cf (left : Z) : Z -> Z := fun i => Compare (hash (left + i)) qh.
  Definition cr (right : Z) : Z -> Z := fun i => - Compare (hash (right - 1 - i)) qh.

  Lemma cmp_fwd_ok left right : 0 <= left -> right <= count -> cmp_ok (cmp_fwd left) (cf left) (right - left).
  Proof. intros Hl Hr i Hi. unfold SorterSearch.cmp_fwd. rewrite rdh_ok by lia. reflexivity. Qed.

  Lemma cmp_rev_ok left right : 0 <= left -> right <= count -> cmp_ok (cmp_rev right) (cr right) (right - left).
  Proof. intros Hl Hr i Hi. unfold SorterSearch.cmp_rev. rewrite rdh_ok by lia. reflexivity. Qed.

  Lemma cf_mono left right : 0 <= left -> right <= count -> sorted -> mono (cf left) (right - left).
  Proof.
    intros Hl Hr S i j Hi Hij Hj. unfold cf. rewrite !cmp_neg, !cmp_pos.
    pose proof (S (left + i) (left + j) ltac:(lia) ltac:(lia) ltac:(lia)). lia.
  Qed.

  Lemma cr_mono left right : 0 <= left -> right <= count -> sorted -> mono (cr right) (right - left).
  Proof.
    intros Hl Hr S i j Hi Hij Hj. unfold cr.
    pose proof (S (right - 1 - j) (right - 1 - i) ltac:(lia) ltac:(lia) ltac:(lia)).
    pose proof (cmp_neg (hash (right - 1 - i)) qh). pose proof (cmp_pos (hash (right - 1 - i)) qh).
    pose proof (cmp_neg (hash (right - 1 - j)) qh). pose proof (cmp_pos (hash (right - 1 - j)) qh).
    lia.
  Qed.

  (* a forward search result over [left, right) becomes a pvFindHash result *)
  Lemma fwd_to_fhres left right k b : 0 <= left -> left <= right -> right <= count ->
    (sorted -> forall i, 0 <= i < left -> hash i < qh) ->
    (sorted -> forall i, right <= i < count -> qh < hash i) ->
    sres (cf left) (right - left) k b -> fhres (left + k) b.
  Proof.
    intros Hl Hlr Hr Hlo Hhi (Hk & Hb & Hp). split; [lia|]. split.
    - intros Hbt. destruct (Hb Hbt) as [A B]. split; [lia|]. unfold cf in B. apply -> cmp_zero in B. exact B.
    - intros S Hbf. destruct (Hp (cf_mono left right Hl Hr S) Hbf) as [P1 P2]. split; intros i Hi.
      + destruct (Z_lt_le_dec i left); [apply Hlo; [exact S|lia]|].
        specialize (P1 (i - left) ltac:(lia)). unfold cf in P1. apply -> cmp_neg in P1.
        replace (left + (i - left)) with i in P1 by lia. exact P1.
      + destruct (Z_lt_le_dec i right); [|apply Hhi; [exact S|lia]].
        specialize (P2 (i - left) ltac:(lia)). unfold cf in P2. apply -> cmp_pos in P2.
        replace (left + (i - left)) with i in P2 by lia. exact P2.
  Qed.

  Lemma rev_to_fhres left right k b : 0 <= left -> left <= right -> right <= count ->
    (sorted -> forall i, 0 <= i < left -> hash i < qh) ->
    (sorted -> forall i, right <= i < count -> qh < hash i) ->
    sres (cr right) (right - left) k b -> fhres (right - k - (if b then 1 else 0)) b.
  Proof.
    intros Hl Hlr Hr Hlo Hhi (Hk & Hb & Hp). split; [destruct b; [destruct (Hb eq_refl)|]; lia|]. split.
    - intros Hbt. destruct (Hb Hbt) as [A B]. subst b. split; [lia|]. unfold cr in B.
      assert (B' : Compare (hash (right - 1 - k)) qh = 0) by lia. apply -> cmp_zero in B'.
      replace (right - k - 1) with (right - 1 - k) by lia. exact B'.
    - intros S Hbf. subst b. destruct (Hp (cr_mono left right Hl Hr S) eq_refl) as [P1 P2]. split; intros i Hi.
      + destruct (Z_lt_le_dec i left); [apply Hlo; [exact S|lia]|].
        specialize (P2 (right - 1 - i) ltac:(lia)). unfold cr in P2.
        replace (right - 1 - (right - 1 - i)) with i in P2 by lia.
        apply -> cmp_neg; lia.
      + destruct (Z_lt_le_dec i right); [|apply Hhi; [exact S|lia]].
        specialize (P1 (right - 1 - i) ltac:(lia)). unfold cr in P1.
        replace (right - 1 - (right - 1 - i)) with i in P1 by lia.
        apply -> cmp_pos; lia.
  Qed.

  (* the final pvBinarySearch(Next(begin,left), right-left) after a `break` *)
  Lemma fh_break left right : 0 <= left -> left <= right -> right <= count ->
    (sorted -> forall i, 0 <= i < left -> hash i < qh) ->
    (sorted -> forall i, right <= i < count -> qh < hash i) ->
    exists k b, bs_from (cmp_fwd 0) left (right - left) = Ok (k, b) /\ fhres k b.
  Proof.
    intros Hl Hlr Hr Hlo Hhi. unfold bs_from.
    destruct (pvBinarySearch_spec (fun k => cmp_fwd 0 (left + k)) (cf left) (right - left)) as (k & b & E & Hs).
    { intros i Hi. unfold SorterSearch.cmp_fwd. rewrite Z.add_0_l, rdh_ok by lia. reflexivity. }
    { lia. }
    rewrite E. cbn [bind fst snd]. exists (left + k), b. split; [reflexivity|].
    apply (fwd_to_fhres left right); assumption.
  Qed.

  Lemma fh_loop_spec : forall f left right middle step,
    0 <= step <= Z.of_nat f ->
    0 <= left -> left <= right -> right <= count -> 0 <= middle < count ->
    (left <= middle \/ (middle + 1 = left /\ hash middle < qh)) ->
    (middle < right \/ (middle = right /\ qh < hash middle)) ->
    (sorted -> forall i, 0 <= i < left -> hash i < qh) ->
    (sorted -> forall i, right <= i < count -> qh < hash i) ->
    exists k b, fh_loop (S f) left right middle step = Ok (k, b) /\ fhres k b.
  Proof.
    induction f as [|f IH]; intros left right middle step Hstep Hl Hlr Hr Hm Hlm Hmr Hlo Hhi;
      rewrite fh_loop_eq, rdh_ok by lia; cbn [bind]; pose proof (Hhash middle Hm) as Hmh.
    - (* last unit of fuel: step = 0 *)
      assert (step = 0) by (simpl in Hstep; lia). subst step. change (0 =? 0) with true. cbv iota zeta.
      destruct (Z.ltb_spec (hash middle) qh) as [Hlt|Hge].
      + assert (Hmr' : middle < right) by lia.
        destruct (pvExponentialSearch_spec (cmp_fwd (middle + 1)) (cf (middle + 1)) (right - (middle + 1)))
          as (k & b & E & Hs); [apply cmp_fwd_ok; lia|lia|].
        rewrite E. cbn [bind fst snd]. exists (middle + 1 + k), b. split; [reflexivity|].
        apply (fwd_to_fhres (middle + 1) right); try lia; try assumption.
        intros S i Hi. pose proof (S i middle ltac:(lia) ltac:(lia) ltac:(lia)). lia.
      + destruct (Z.ltb_spec qh (hash middle)) as [Hgt|Hle].
        * assert (Hlm' : left <= middle) by lia.
          destruct (pvExponentialSearch_spec (cmp_rev middle) (cr middle) (middle - left))
            as (k & b & E & Hs); [apply cmp_rev_ok; lia|lia|].
          rewrite E. cbn [bind fst snd]. exists (middle - k - (if b then 1 else 0)), b. split; [reflexivity|].
          apply (rev_to_fhres left middle); try lia; try assumption.
          intros S i Hi. pose proof (S middle i ltac:(lia) ltac:(lia) ltac:(lia)). lia.
        * exists middle, true. split; [reflexivity|]. split; [lia|]. split; [intros _; split; lia|discriminate].
    - destruct (Z.ltb_spec (hash middle) qh) as [Hlt|Hge].
      + assert (Hmr' : middle < right) by lia. cbv zeta.
        assert (Hlo' : sorted -> forall i, 0 <= i < middle + 1 -> hash i < qh).
        { intros S i Hi. pose proof (S i middle ltac:(lia) ltac:(lia) ltac:(lia)). lia. }
        destruct (Z.eqb_spec step 0) as [Hs0|Hs0].
        * destruct (pvExponentialSearch_spec (cmp_fwd (middle + 1)) (cf (middle + 1)) (right - (middle + 1)))
            as (k & b & E & Hs); [apply cmp_fwd_ok; lia|lia|].
          rewrite E. cbn [bind fst snd]. exists (middle + 1 + k), b. split; [reflexivity|].
          apply (fwd_to_fhres (middle + 1) right); try lia; assumption.
        * rewrite (wrapU_small 64 (qh - hash middle)) by lia.
          pose proof (MS (qh - hash middle) count ltac:(lia) ltac:(lia)) as Hms.
          rewrite wrapU_small by lia.
          set (m' := middle + MultShift (qh - hash middle) count).
          destruct (Z.leb_spec right m') as [Hbrk|Hcont].
          -- apply fh_break; try lia; assumption.
          -- rewrite Nat2Z.inj_succ in Hstep. assert (0 <= m' < count /\ middle <= m') by (unfold m'; lia).
             apply IH; try lia; try assumption.
             { unfold m'. destruct (Z.eq_dec (MultShift (qh - hash middle) count) 0) as [Ez|Ez].
               - right. rewrite Ez, Z.add_0_r. split; [reflexivity|exact Hlt].
               - left. lia. }
      + destruct (Z.ltb_spec qh (hash middle)) as [Hgt|Hle].
        * assert (Hlm' : left <= middle) by lia. cbv zeta.
          assert (Hhi' : sorted -> forall i, middle <= i < count -> qh < hash i).
          { intros S i Hi. pose proof (S middle i ltac:(lia) ltac:(lia) ltac:(lia)). lia. }
          destruct (Z.eqb_spec step 0) as [Hs0|Hs0].
          -- destruct (pvExponentialSearch_spec (cmp_rev middle) (cr middle) (middle - left))
               as (k & b & E & Hs); [apply cmp_rev_ok; lia|lia|].
             rewrite E. cbn [bind fst snd]. exists (middle - k - (if b then 1 else 0)), b. split; [reflexivity|].
             apply (rev_to_fhres left middle); try lia; assumption.
          -- rewrite (wrapU_small 64 (hash middle - qh)) by lia.
             pose proof (MS (hash middle - qh) count ltac:(lia) ltac:(lia)) as Hms.
             rewrite wrapU_small by lia.
             set (diff := MultShift (hash middle - qh) count) in *.
             destruct (Z.ltb_spec middle (left + diff)) as [Hbrk|Hcont].
             ++ apply fh_break; try lia; assumption.
             ++ rewrite Nat2Z.inj_succ in Hstep.
                apply IH; try lia; try assumption.
                { destruct (Z.eq_dec diff 0) as [Ez|Ez].
                  - right. rewrite Ez, Z.sub_0_r. split; [reflexivity|exact Hgt].
                  - left. lia. }
        * exists middle, true. split; [reflexivity|]. split; [lia|]. split; [intros _; split; lia|discriminate].
  Qed.

  (* pvFindHash never reads outside [0,count) (the result is Ok, never Stuck/Fuel) -- for EVERY array,
     sorted or not, including count = 0 -- and on a sorted array it finds the hash iff it is present. *)
  Theorem pvFindHash_spec :
    exists k b, SorterSearch.pvFindHash MultShift StepCount Compare count hash qh = Ok (k, b) /\ fhres k b.
  Proof.
    unfold SorterSearch.pvFindHash. destruct (Z.eqb_spec count 0) as [Hz|Hnz].
    - exists 0, false. split; [reflexivity|]. split; [lia|]. split; [discriminate|]. intros _ _. split; intros; lia.
    - pose proof (MS qh count Hqh ltac:(lia)) as Hms. pose proof (SC count) as Hsc.
      apply (fh_loop_spec 4%nat); try lia.
      all: try (change (Z.of_nat 4) with 4; lia).
      all: intros _ i Hi; lia.
  Qed.

  Corollary findhash_found_iff k b :
    SorterSearch.pvFindHash MultShift StepCount Compare count hash qh = Ok (k, b) -> sorted ->
    (b = true <-> exists i, 0 <= i < count /\ hash i = qh).
  Proof.
    intros E S. destruct pvFindHash_spec as (k' & b' & E' & Hk & Hb & Hp). rewrite E in E'. inversion E'; subst k' b'.
    split.
    - intros Hbt. exists k. destruct (Hb Hbt). split; [lia|assumption].
    - intros (i & Hi & Hhi). destruct b; [reflexivity|]. destruct (Hp S eq_refl) as [P1 P2].
      destruct (Z_lt_le_dec i k); [specialize (P1 i ltac:(lia))|specialize (P2 i ltac:(lia))]; lia.
  Qed.
End FindHash.
