(* Extraction of the hand-written executable model and of the generated Clear / pvDestroy / Swap / MoveCtor (ExtrOcamlBasic only). *)
From Coq Require Import ZArith List Extraction ExtrOcamlBasic.
From MomoCommon Require GenPrelude.
From C14 Require PropagationModel Model Bodies Crew Gen_TreeSet Gen_HashSet Gen_HashMultiMap Gen_DataTable.
From C14 Require Gen_TreeSet2 Gen_HashSet2 Gen_TreeSet3 Gen_HashSet3.
Separate Extraction
  PropagationModel.mkTraits PropagationModel.proxy_assign PropagationModel.native_proxy_assign
  PropagationModel.code_target_alloc PropagationModel.code_elementwise PropagationModel.std_target_alloc
  PropagationModel.std_elementwise PropagationModel.std_defined
  PropagationModel.native_traits Model.alloc Model.alloc_n Model.cc_new Model.cc_destroy Model.cc_clear Model.cc_insert Model.cc_move_ctor Model.cc_swap
  Model.cc_move_assign Model.cc_self_move_assign Model.cc_copy_ctor_mm Model.cc_copy_ctor Model.cc_copy_assign
  Model.cc_self_copy_assign Model.items_of Model.mgr_of Model.shape
  Model.arr_new Model.arr_destroy Model.arr_move_ctor Model.arr_move_assign Model.arr_swap Model.arr_copy_ctor_mm
  Model.arr_copy_ctor Model.arr_copy_assign Model.arr_clear Model.arr_insert
  Model.w_create Model.w_move_assign Model.w_copy_assign Model.w_swap
  Model.v_create Model.v_move_assign Model.v_copy_assign Model.v_swap
  Model.cc_find Model.w_assign_ilist
  Bodies.s_copy Bodies.s_move_ctor Bodies.s_swap Bodies.abs Bodies.sb_items
  Bodies.s_elementwise_body Bodies.s_copy_table Bodies.idx_shape Bodies.tree_shape
  Crew.iset_new Crew.iset_move_ctor Crew.iset_swap Crew.iset_copy_ctor Crew.iset_move_assign Crew.iset_copy_assign
  Crew.iset_find Crew.iset_insert Crew.coherent
  Gen_TreeSet.Clear Gen_TreeSet.pvDestroy Gen_HashSet.Clear Gen_HashMultiMap.Clear Gen_DataTable.Clear
  Gen_TreeSet2.Swap Gen_HashSet2.Swap Gen_TreeSet3.MoveCtor Gen_HashSet3.MoveCtor.
