From Coq Require Import ZArith List Lia Bool Permutation.
From C11 Require Import GrowModel.
Import ListNotations.
Local Open Scope Z_scope.

Lemma bfind_some : forall k l p, bfind k l = Some p -> nth_error l p = Some k.
Proof.
  induction l as [|a l IH]; simpl; intros p H; [discriminate|].
  destruct (Z.eqb_spec k a).
  - inversion H; subst; reflexivity.
  - destruct (bfind k l) eqn:E; [|discriminate]. inversion H; subst. simpl. apply IH; reflexivity.
Qed.
