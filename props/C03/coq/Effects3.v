(* C03 -- L2 resource machine, part 3: SegmentedArray(begin, end, memManager) (SegmentedArray.h:218-235) and ~SegmentedArray.
   The constructor delegates to SegmentedArray(memManager) (no allocation), then AddBackCrt per item; the catch block does
   pvDecCount(0); pvDecCapacity(0); throw; and the destructor of the delegating constructor does the same again on the
   (then empty) object. *)
From Coq Require Import ZArith Bool List Lia.
From C03 Require Import Effects Effects2.
Import ListNotations.
Local Open Scope Z_scope.

Section SegArr.
Variables mgr segsz : Z.
Variable segcapf : nat -> nat.   (* capacity of the k-th segment: ANY function (Settings::GetSegItemIndexes / itemCountFunc) *)

(* the object: full older segments (newest first) and the current segment with the number of items constructed in it *)
Definition sa_state : Type := (list (Z * nat) * option (Z * nat))%type.

(* AddBackCrt, n times: if (mCount == GetCapacity()) pvIncCapacity (a new segment; the capacity stays increased when the item
   creation throws); itemCreator(item); ++mCount *)
Fixpoint sa_fill (src : Z) (i : Z) (n : nat) (st : sa_state) (s : rstate) : (sa_state * outcome unit) * rstate :=
  match n with
  | O => ((st, Val tt), s)
  | S n' =>
      let '(olds, cur) := st in
      let room := match cur with Some (_, fill) => Nat.ltb fill (segcapf (length olds)) | None => false end in
      match (if room then (fun s => (Val st, s)) else
               (fun s => match p_alloc mgr segsz s with
                         | (Val seg, s1) => (Val (match cur with Some (sg, fl) => (sg, fl) :: olds | None => olds end, Some (seg, O)), s1)
                         | (Exc, s1) => (Exc, s1)
                         | (Stuck, s1) => (Stuck, s1)
                         end)) s with
      | (Val (olds', Some (seg, fill)), s1) =>
          match p_copy (seg, Z.of_nat fill) (src, i) s1 with
          | (Val _, s2) => sa_fill src (i + 1) n' (olds', Some (seg, S fill)) s2
          | (o, s2) => (((olds', Some (seg, fill)), o), s2)
          end
      | (Val (olds', None), s1) => (((olds', None), Stuck), s1)
      | (Exc, s1) => ((st, Exc), s1)
      | (Stuck, s1) => ((st, Stuck), s1)
      end
  end.

(* pvDecCount(0); pvDecCapacity(0): all items destroyed, all segments returned *)
Definition sa_clear (st : sa_state) : M unit :=
  match snd st with
  | Some (seg, fill) => p_touch_blk seg ;;; om_destroy_n seg 0 fill ;;; p_dealloc mgr seg segsz
  | None => ret tt
  end ;;;
  drop_rows mgr segsz (fst st).

Definition sa_ctor_then_destroy (src : Z) (n : nat) : M unit := fun s =>
  let '((st, o), s1) := sa_fill src 0 n ([], None) s in
  let '((st', o'), s2) :=
    match o with
    | Exc => match sa_clear st s1 with                 (* catch (...) { pvDecCount(0); pvDecCapacity(0); throw; } *)
             | (Stuck, s2) => ((st, Stuck), s2)
             | (_, s2) => ((([], None) : sa_state, Exc), s2)
             end
    | _ => ((st, o), s1)
    end in
  match o' with
  | Stuck => (Stuck, s2)
  | _ => match sa_clear st' s2 with                    (* ~SegmentedArray *)
         | (Val _, s3) => (o', s3)
         | (r, s3) => (r, s3)
         end
  end.

End SegArr.

(* ================================================================== HashSet growth and pvRelocateItems *)
Section Growth.
Variable c : cat.
Variables mgr : Z.
Variable gensz : Z -> Z.       (* buffer size of the n-th generation (only used for the size check of Deallocate) *)

(* a generation of buckets: (block, number of items still stored in it, generation number) *)
Definition gen : Type := (Z * nat * Z)%type.
Definition g_blk (g : gen) : Z := fst (fst g).
Definition g_fill (g : gen) : nat := snd (fst g).
Definition g_no (g : gen) : Z := snd g.

(* the table: the newest generation mBuckets and the older ones still linked through mNextBuckets, OLDEST FIRST *)
Definition table : Type := (gen * list gen)%type.

(* one item of an old generation is re-added to mBuckets: pvAddNogrow<false>(mBuckets, hashCode, Relocate(dstItem -> newItem))
   (HashSet.h:1296-1304); for items that are not nothrow relocatable the move is a copy that may throw before anything changed *)
Definition migrate_item (old nw : gen) : M unit :=
  om_relocate1 c (g_blk old, Z.of_nat (g_fill old) - 1) (g_blk nw, Z.of_nat (g_fill nw)).

(* the inner loops of pvRelocateItems(buckets): items are taken from the end (--bucketIter) until the generation is empty *)
Fixpoint migrate_items (n : nat) (old nw : gen) (s : rstate) : ((gen * gen) * outcome unit) * rstate :=
  match n with
  | O => (((old, nw), Val tt), s)
  | S n' =>
      match g_fill old with
      | O => (((old, nw), Val tt), s)
      | S f' =>
          match migrate_item old nw s with
          | (Val _, s1) => migrate_items n' (g_blk old, f', g_no old) (g_blk nw, S (g_fill nw), g_no nw) s1
          | (o, s1) => (((old, nw), o), s1)
          end
      end
  end.

(* pvRelocateItems(Buckets ptr) (1272-1308), oldest generation first; a generation is destroyed (its buffer returned) exactly
   when it has been emptied; an exception stops the migration where it is *)
Fixpoint migrate_gens (olds : list gen) (nw : gen) (s : rstate) : (table * outcome unit) * rstate :=
  match olds with
  | [] => (((nw, []), Val tt), s)
  | old :: rest =>
      match migrate_items (g_fill old) old nw s with
      | (((old', nw'), Val _), s1) =>
          match p_dealloc mgr (g_blk old') (gensz (g_no old')) s1 with          (* buckets->Destroy(memManager, false) *)
          | (Val _, s2) => migrate_gens rest nw' s2
          | (_, s2) => (((nw', old' :: rest), Stuck), s2)
          end
      | (((old', nw'), o), s1) => (((nw', old' :: rest), o), s1)
      end
  end.

(* pvRelocateItems() (1257-1270): try { ... } catch (...) { no throw } *)
Definition relocate_items (t : table) (s : rstate) : (table * outcome unit) * rstate :=
  match migrate_gens (snd t) (fst t) s with
  | ((t', Exc), s1) => ((t', Val tt), s1)
  | r => r
  end.

(* pvAddNogrow: the item is copy-constructed into the newest generation *)
Definition add_nogrow (src : loc) (t : table) (s : rstate) : (table * outcome unit) * rstate :=
  let '(nw, olds) := t in
  match p_copy (g_blk nw, Z.of_nat (g_fill nw)) src s with
  | (Val _, s1) => ((((g_blk nw, S (g_fill nw), g_no nw) : gen, olds), Val tt), s1)
  | (o, s1) => ((t, o), s1)
  end.

(* pvAddGrow (1146-1185): Buckets::Create with the shared bucket params; if that throws bad_alloc and buckets exist, the item
   goes into the existing generation instead (Settings::overloadIfCannotGrow); otherwise the item is added to the new
   generation - on failure the new generation is destroyed - and the old generations are linked behind it *)
Definition add_grow (src : loc) (t : table) (s : rstate) : (table * outcome unit) * rstate :=
  let '(nw, olds) := t in
  match p_alloc mgr (gensz (g_no nw + 1)) s with
  | (Val b, s1) =>
      match catch_rethrow (p_copy (b, 0) src) (p_dealloc mgr b (gensz (g_no nw + 1))) s1 with
      | (Val _, s2) => (((((b, 1%nat, g_no nw + 1) : gen), olds ++ [nw]), Val tt), s2)
      | (o, s2) => ((t, o), s2)
      end
  | (Exc, s1) => add_nogrow src t s1
  | (Stuck, s1) => ((t, Stuck), s1)
  end.

(* after a successful insertion: if (mBuckets->GetNextBuckets() != nullptr) pvRelocateItems(resPos); (1112-1114) *)
Definition after_add (r : (table * outcome unit) * rstate) : (table * outcome unit) * rstate :=
  match r with
  | ((t1, Val _), s1) => match snd t1 with [] => ((t1, Val tt), s1) | _ :: _ => relocate_items t1 s1 end
  | _ => r
  end.

Definition hs_add (grow : bool) (src : loc) (t : table) (s : rstate) : (table * outcome unit) * rstate :=
  after_add ((if grow then add_grow else add_nogrow) src t s).

(* a history of insertions; an insertion that throws leaves the table as it is and the history goes on *)
Fixpoint hs_adds (ops : list bool) (src : Z) (i : Z) (t : table) (s : rstate) : (table * outcome unit) * rstate :=
  match ops with
  | [] => ((t, Val tt), s)
  | g :: ops' =>
      match hs_add g (src, i) t s with
      | ((t', Stuck), s1) => ((t', Stuck), s1)
      | ((t', _), s1) => hs_adds ops' src (i + 1) t' s1
      end
  end.

(* the same history with the growth points DERIVED from the capacity policy: pvAdd (1098-1112) grows iff !(mCount < mCapacity),
   mCount = all items of the table, mCapacity = hashTraits.CalcCapacity(bucket count of the newest generation) = capf (g_no nw) *)
Variable capf : Z -> nat.
Definition tb_count (t : table) : nat := (g_fill (fst t) + fold_right (fun g a => g_fill g + a) 0 (snd t))%nat.
Fixpoint hs_adds_auto (n : nat) (src : Z) (i : Z) (t : table) (s : rstate) : (table * outcome unit) * rstate :=
  match n with
  | O => ((t, Val tt), s)
  | S n' =>
      let grow := negb (Nat.ltb (tb_count t) (capf (g_no (fst t)))) in
      match hs_add grow (src, i) t s with
      | ((t', Stuck), s1) => ((t', Stuck), s1)
      | ((t', _), s1) => hs_adds_auto n' src (i + 1) t' s1
      end
  end.

(* ~HashSet: pvDestroy over every generation still linked: items destroyed, buffers returned *)
Definition gen_destroy (g : gen) : M unit :=
  p_touch_blk (g_blk g) ;;; om_destroy_n (g_blk g) 0 (g_fill g) ;;; p_dealloc mgr (g_blk g) (gensz (g_no g)).
Fixpoint gens_destroy (gs : list gen) : M unit :=
  match gs with
  | [] => ret tt
  | g :: gs' => gen_destroy g ;;; gens_destroy gs'
  end.
Definition hs_destroy (t : table) : M unit := gens_destroy (fst t :: rev (snd t)).

(* first generation, a history, destruction *)
Definition hs_history (ops : list bool) (src : Z) : M unit := fun s =>
  match p_alloc mgr (gensz 0) s with
  | (Val b, s0) =>
      let '((t, o), s1) := hs_adds ops src 0 ((b, O, 0), []) s0 in
      match o with
      | Stuck => (Stuck, s1)
      | _ => hs_destroy t s1
      end
  | (Exc, s0) => (Exc, s0)
  | (Stuck, s0) => (Stuck, s0)
  end.

Definition hs_history_auto (n : nat) (src : Z) : M unit := fun s =>
  match p_alloc mgr (gensz 0) s with
  | (Val b, s0) =>
      let '((t, o), s1) := hs_adds_auto n src 0 ((b, O, 0), []) s0 in
      match o with
      | Stuck => (Stuck, s1)
      | _ => hs_destroy t s1
      end
  | (Exc, s0) => (Exc, s0)
  | (Stuck, s0) => (Stuck, s0)
  end.

End Growth.

(* HashBucketOpen2N2<3> (= HashBucketOpenDefault) with logStartBucketCount = 4: bucket count 16 * 2^g (GetBucketCountShift = 1),
   CalcCapacity = bucketCount * 3 / 12.0 * 11.0 (HashBucketOpen8.h:136-143) *)
Definition open2n2_capacity (g : Z) : nat := Z.to_nat (2 ^ (4 + g) * 3 / 12 * 11).

