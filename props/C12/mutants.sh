#!/bin/bash
# usage: mutants.sh  -- applies each mutant to a private copy and runs ./check C12
cd /verif
run() { # name, file, python-replace-old, new
  d=$(mktemp -d); cp -r /repo/include $d/
  cp evidence/C12.json $d/ev_keep.json 2>/dev/null; ls replays > $d/replays_before.txt 2>/dev/null   # a mutant run must not leave evidence / replays behind
  python3 - "$d/include/momo/$2" "$3" "$4" <<'PY'
import sys
p,old,new=sys.argv[1:4]
s=open(p).read()
assert s.count(old)==1,(s.count(old),old)
open(p,'w').write(s.replace(old,new))
PY
  echo "=== $1"; (cd $d/include && diff -u /repo/include/momo/$2 momo/$2 | tail -n +3)
  VERIF_REPO=$d timeout 1500 ./check C12 > build/C12/mut_$1.log 2>&1; echo "exit=$?"
  grep -E "stage .*BROKEN|VIOLATION|done:" build/C12/mut_$1.log | cut -c1-260
  cp $d/ev_keep.json evidence/C12.json 2>/dev/null; for r in $(ls replays | grep '^C12-'); do grep -qx "$r" $d/replays_before.txt || rm -f replays/$r; done
  rm -rf $d
}
run M1 details/HashBucketLimP4.h "return (logBucketCount + logBucketCountAddend) % logBucketCountStep;" "return (logBucketCount + logBucketCountAddend + 1) % logBucketCountStep;"
run M2 details/HashBucketOpen2N2.h "			bool useFullGetter = (hashProbe == emptyHashProbe ||
				(logBucketCount + logBucketCountAddend) / logBucketCountStep
				!= (newLogBucketCount + logBucketCountAddend) / logBucketCountStep);" "			bool useFullGetter = (hashProbe == emptyHashProbe ||
				(logBucketCount + logBucketCountAddend + 1) / logBucketCountStep
				!= (newLogBucketCount + logBucketCountAddend + 1) / logBucketCountStep);"
run M3 details/HashBucketLimP4.h "				if (useHashCodePartGetter && hashCount - 1 - index >= count)" "				if (false && hashCount - 1 - index >= count)"
run M4 HashSet.h "					buckets->GetLogCount(), mBuckets->GetLogCount());" "					mBuckets->GetLogCount(), buckets->GetLogCount());"
run M5 details/HashBucketOpen2N2.h "				if (probe < (size_t{1} << probeShift))" "				if (probe <= (size_t{1} << probeShift))"
run M6 HashSet.h "		startBucket.UpdateMaxProbe(probe);" "		//startBucket.UpdateMaxProbe(probe);"
run M7 details/HashBucketLimP4.h "				if (memPoolIndex != maxCount)
					memPoolIndex = minMemPoolIndex;" "				if (memPoolIndex == maxCount)
					memPoolIndex = minMemPoolIndex;"
run M8 details/HashBucketOne.h "			mHashState = HashState{2};" "			mHashState = HashState{0};"
for x in a b; do d=$(mktemp -d); cp -r /repo/include $d/; cp evidence/C12.json $d/ev_keep.json 2>/dev/null; ls replays > $d/replays_before.txt 2>/dev/null; (cd $d && patch -p1 -s < /tmp/seed-out/C12/$x/patch.diff); echo "=== seed $x"; VERIF_REPO=$d timeout 1500 ./check C12 > build/C12/seed_$x.log 2>&1; echo "exit=$?"; grep -E "stage .*BROKEN|VIOLATION|done:" build/C12/seed_$x.log | cut -c1-260; cp $d/ev_keep.json evidence/C12.json 2>/dev/null; for r in $(ls replays | grep '^C12-'); do grep -qx "$r" $d/replays_before.txt || rm -f replays/$r; done; rm -rf $d; done
python3 /verif/props/C12/regen_clean.py   # leave the clean translation in the shared coq directory
