(* C07 / the dumped MultiHash member functions (Gen_Protocol.M_*, interpreted by MHashSem.v) are the hand model's functions. *)
From Coq Require Import String List ZArith Bool Arith PeanoNat Lia.
From C07 Require Import TableSpec TableProofs MultiHash IndexModel IndexProofs ProtoSyntax MHashSem.
From C07 Require Gen_Protocol.
Import ListNotations.
Local Open Scope string_scope.

Definition menv0 : menv := fun _ => None.
Definition gtags_nodup (m : mhash) : Prop := NoDup (map gtag (mgroups m)).
Definition padd_occupied (m : mhash) : Prop := forall t, mpadd m = Some t -> m_get_group t (mgroups m) <> None.

Lemma get_group_some t gs g : m_get_group t gs = Some g -> gtag g = t /\ In g gs.
Proof. unfold m_get_group. intros H. apply find_some in H as [Hin E]. apply Nat.eqb_eq in E. auto. Qed.

Lemma get_group_nodup gs g : NoDup (map gtag gs) -> In g gs -> m_get_group (gtag g) gs = Some g.
Proof.
  intros Hn Hin. unfold m_get_group. destruct (find (fun g0 => Nat.eqb (gtag g0) (gtag g)) gs) as [g1|] eqn:Ef.
  - apply find_some in Ef as [Hin1 E1]. apply Nat.eqb_eq in E1. f_equal. apply (NoDup_map_inj gtag gs g1 g Hn Hin1 Hin E1).
  - exfalso. apply (find_none _ _ Ef g) in Hin. rewrite Nat.eqb_refl in Hin. discriminate.
Qed.

Lemma swap_remove_last (l : list Z) : l <> [] -> swap_remove (length l - 1) l = removelast l.
Proof.
  intros Hne. unfold swap_remove, remove_unordered. destruct (rev l) eqn:Er.
  - exfalso. apply Hne. rewrite <- (rev_involutive l), Er. reflexivity.
  - destruct l; [contradiction|]. cbn [length]. rewrite Nat.sub_1_r. cbn [Nat.pred]. rewrite Nat.eqb_refl. reflexivity.
Qed.

Lemma update_group_ext t (f f' : mgroup -> mgroup) gs :
  (forall g0, In g0 gs -> gtag g0 = t -> f g0 = f' g0) -> m_update_group t f gs = m_update_group t f' gs.
Proof.
  intros H. unfold m_update_group. apply map_ext_in. intros g0 Hin. destruct (Nat.eqb_spec (gtag g0) t); [apply H; assumption|reflexivity].
Qed.

Lemma zlist_eqb_sym a b : zlist_eqb a b = zlist_eqb b a.
Proof.
  destruct (zlist_eqb a b) eqn:E1, (zlist_eqb b a) eqn:E2; try reflexivity.
  - apply zlist_eqb_eq in E1. subst. rewrite zlist_eqb_refl in E2. discriminate.
  - apply zlist_eqb_eq in E2. subst. rewrite zlist_eqb_refl in E1. discriminate.
Qed.

Ltac mnorm := cbv -[m_find m_get_group m_update_group m_remove_group swap_remove keyc zlist_eqb Z.eqb Nat.eqb Nat.ltb negb andb
                    length firstn mloop find gtag gkey gskey gvals removelast Nat.sub Nat.add]; cbn [andb negb].

Section MGen.
Variables (R : list Z -> list Z -> bool) (ct : Z -> row).
Notation run := (mrun R ct).

Theorem gen_M_AcceptAdd m : run Gen_Protocol.M_AcceptAdd m menv0 = Some (m_accept_add m, None).
Proof. destruct m as [c gs pa pr]; reflexivity. Qed.

Theorem gen_M_RejectRemove m : run Gen_Protocol.M_RejectRemove m menv0 = Some (m_reject_remove m, None).
Proof. destruct m as [c gs pa pr]; reflexivity. Qed.

(* MultiHash::Find(hashTupleKey, version): empty bounds for an absent key (95ed81f), else the key row followed by its values *)
Theorem gen_M_Find m k :
  run Gen_Protocol.M_Find m (mupd (mupd menv0 "hashTupleKey" (MVkey k)) "version" MVversion)
  = Some (m, Some (MVbounds (find_multi R ct m k))).
Proof.
  unfold mrun, Gen_Protocol.M_Find, find_multi. destruct m as [c gs pa pr]. mnorm.
  destruct (m_find R ct (mkM c gs pa pr) k) as [g|]; mnorm; [|reflexivity].
  rewrite Nat.add_1_r. change (S (length (gvals g))) with (length (gkey g :: gvals g)). rewrite firstn_all. reflexivity.
Qed.

Theorem gen_M_RejectAdd m : gtags_nodup m -> padd_occupied m ->
  run Gen_Protocol.M_RejectAdd m menv0 = Some (m_reject_add m, None).
Proof.
  intros Hn Hp. unfold m_reject_add. destruct m as [c gs [t|] pr]; [|reflexivity].
  cbn [mpadd mgroups mcols mprem]. specialize (Hp t eq_refl). cbn [mgroups] in Hp.
  destruct (m_get_group t gs) as [g|] eqn:Eg; [|contradiction]. destruct (get_group_some t gs g Eg) as [Et Hin].
  unfold mrun, Gen_Protocol.M_RejectAdd. mnorm. rewrite !Eg. mnorm. rewrite ?Eg.
  destruct (gvals g) as [|v vs] eqn:Ev; cbn [length Nat.ltb Nat.leb]; mnorm; rewrite ?Eg; mnorm; rewrite Et.
  - reflexivity.
  - match goal with |- context [m_update_group ?tt ?f gs] =>
      rewrite (update_group_ext tt f (fun g => mkG (gtag g) (gkey g) (gskey g) (removelast (gvals g))) gs) end; [reflexivity|].
    intros g0 Hin0 Et0.
    assert (g0 = g) by (apply (NoDup_map_inj gtag gs g0 g Hn Hin0 Hin); congruence). subst g0. rewrite Ev. f_equal.
    change (S (length vs) - 1) with (length (v :: vs) - 1). apply swap_remove_last. discriminate.
Qed.

(* the scan of PrepareRemove (2211fdb): the first key, in iteration order, other than the key just added whose row has the
   same index columns as raw *)
Definition mscan_body : list pstmt :=
  match Gen_Protocol.M_PrepareRemove with
  | [_; SIf _ [_; SForC _ _ _ body] _] => body
  | _ => []
  end.

Lemma mscan_loop raw t ga : forall gs m env,
  it_of_field m (mpadd m) = Some ga -> gtag ga = t -> env "raw" = Some (MVraw raw) -> env "hashTraits" = Some MVtraits ->
  exists env',
    mloop (mexec R ct mscan_body) "keyIter" gs m env =
    Some (match find (fun g2 => negb (Nat.eqb (gtag g2) t) && zlist_eqb (keyc ct (mcols m) (gkey g2)) (keyc ct (mcols m) raw)) gs with
          | Some g2 => mkM (mcols m) (mgroups m) (mpadd m) (Some (gtag g2))
          | None => m
          end, env', MNext).
Proof.
  induction gs as [|g gs IH]; intros m env Ha Et Hraw Htr; [exists env; reflexivity|].
  cbn [mloop find].
  set (env1 := mupd env "keyIter" (MVit (Some g))).
  assert (E : mexec R ct mscan_body m env1 =
              if negb (Nat.eqb (gtag g) t) && zlist_eqb (keyc ct (mcols m) (gkey g)) (keyc ct (mcols m) raw)
              then Some (mkM (mcols m) (mgroups m) (mpadd m) (Some (gtag g)), env1, MBreak)
              else Some (m, env1, MNext)).
  { unfold mscan_body, Gen_Protocol.M_PrepareRemove. subst env1. destruct m as [cs groups pa pr]. cbn [mcols mgroups mpadd mprem] in *.
    mnorm. unfold it_of_field in Ha. cbn [mpadd mgroups] in Ha.
    destruct pa as [a|]; [|discriminate]. rewrite Ha. mnorm. rewrite Et, (Nat.eqb_sym t (gtag g)).
    destruct (Nat.eqb (gtag g) t); mnorm; [reflexivity|]. rewrite Htr, Hraw. mnorm.
    rewrite (zlist_eqb_sym (keyc ct cs raw) (keyc ct cs (gkey g))).
    destruct (zlist_eqb (keyc ct cs (gkey g)) (keyc ct cs raw)); reflexivity. }
  rewrite E. destruct (negb (Nat.eqb (gtag g) t) && zlist_eqb (keyc ct (mcols m) (gkey g)) (keyc ct (mcols m) raw)).
  - eexists. reflexivity.
  - apply IH; try assumption; subst env1; unfold mupd; cbn; assumption.
Qed.

Theorem gen_M_PrepareRemove m raw : mprem m = None ->
  run Gen_Protocol.M_PrepareRemove m (mupd menv0 "raw" (MVraw raw)) = Some (m_prepare_remove true R ct m raw, None).
Proof.
  intros Hpr. unfold m_prepare_remove. destruct m as [cs gs pa pr]. cbn [mcols mgroups mpadd mprem] in *. subst pr.
  unfold mrun, Gen_Protocol.M_PrepareRemove. mnorm.
  destruct (m_find R ct (mkM cs gs pa None) (keyc ct cs raw)) as [g|] eqn:Ef.
  - assert (Hin : In g gs) by (unfold m_find in Ef; apply find_some in Ef; tauto).
    mnorm. destruct pa as [a|]; mnorm; [|reflexivity].
    destruct (m_get_group a gs) as [ga|] eqn:Ea; mnorm.
    + destruct (get_group_some a gs ga Ea) as [Eta _].
      destruct (m_get_group (gtag g) gs) as [g'|] eqn:Eg'.
      2:{ exfalso. unfold m_get_group in Eg'. apply (find_none _ _ Eg' g) in Hin. rewrite Nat.eqb_refl in Hin. discriminate. }
      destruct (get_group_some _ gs g' Eg') as [Et' _]. mnorm. rewrite Eta, Et'.
      destruct (Nat.eqb a (gtag g)) eqn:Eag; mnorm; [|reflexivity].
      apply Nat.eqb_eq in Eag. subst a.
      match goal with |- context [mloop ?f "keyIter" gs ?m1 ?e1] =>
        change (mloop f "keyIter" gs m1 e1) with (mloop (mexec R ct mscan_body) "keyIter" gs m1 e1);
        destruct (mscan_loop raw (gtag g) ga gs m1 e1) as (env' & E) end; try reflexivity; try assumption.
      rewrite E. cbn [mcols mgroups mpadd mprem]. destruct (find _ gs); reflexivity.
    + destruct (Nat.eqb a (gtag g)) eqn:Eag; [|reflexivity].
      exfalso. apply Nat.eqb_eq in Eag. subst a. unfold m_get_group in Ea. apply (find_none _ _ Ea g) in Hin.
      rewrite Nat.eqb_refl in Hin. discriminate.
  - mnorm. destruct pa as [a|]; mnorm; [|reflexivity]. destruct (m_get_group a gs); mnorm; reflexivity.
Qed.

Theorem gen_M_simple m :
  run Gen_Protocol.M_AcceptAdd m menv0 = Some (m_accept_add m, None) /\
  run Gen_Protocol.M_RejectRemove m menv0 = Some (m_reject_remove m, None) /\
  (gtags_nodup m -> padd_occupied m -> run Gen_Protocol.M_RejectAdd m menv0 = Some (m_reject_add m, None)).
Proof. split; [apply gen_M_AcceptAdd|]. split; [apply gen_M_RejectRemove|apply gen_M_RejectAdd]. Qed.
End MGen.
