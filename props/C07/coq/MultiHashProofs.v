(* C07 / L1 proofs about the value array of one multi-hash key (MultiHash.v). *)
From Coq Require Import List ZArith Lia Bool Arith PeanoNat Permutation.
From C07 Require Import TableSpec TableProofs MultiHash.
Import ListNotations.
Local Open Scope Z_scope.

(* sorted by address (what std::lower_bound needs) *)
Fixpoint sorted (l : list Z) : Prop :=
  match l with
  | [] => True
  | x :: l' => (forall y, In y l' -> x <= y) /\ sorted l'
  end.

(* the segment invariant, following the loop of AcceptRemove: a segment of size sz = seg_size seg that is
   followed by at least one more value is sorted; the remaining values are the unsorted tail *)
Inductive segs_gen (ss : nat -> nat) : nat -> nat -> list Z -> Prop :=
| so_tail seg sz l : (length l <= sz)%nat -> segs_gen ss seg sz l
| so_seg seg sz l : (0 < sz)%nat -> (sz < length l)%nat -> sorted (firstn sz l) ->
                    segs_gen ss (S seg) (ss (S seg)) (skipn sz l) -> segs_gen ss seg sz l.

Definition segs_ok : nat -> nat -> list Z -> Prop := segs_gen seg_size.
Definition vals_ok (l : list Z) : Prop := segs_ok 0 first_seg l.

(* ---------------------------------------------------------------- sorted lists *)

Lemma sorted_remove_nth l n : sorted l -> sorted (remove_nth n l).
Proof.
  revert n; induction l as [|x l IH]; intros n H; [destruct n; exact H|].
  destruct H as [H1 H2]. destruct n; simpl; [exact H2|].
  split; [|apply IH; exact H2]. intros y Hy. apply H1. eapply remove_nth_In; exact Hy.
Qed.

Lemma lb_le x l : (lb x l <= length l)%nat.
Proof. induction l as [|y l IH]; simpl; [lia|]. destruct (Z.ltb y x); simpl; lia. Qed.

Lemma lb_firstn_lt x l y : In y (firstn (lb x l) l) -> y < x.
Proof.
  induction l as [|z l IH]; simpl; [intros []|].
  destruct (Z.ltb_spec z x); simpl; [|intros []]. intros [<-|H']; [assumption|apply IH; assumption].
Qed.

Lemma lb_skipn_ge x l y : sorted l -> In y (skipn (lb x l) l) -> x <= y.
Proof.
  induction l as [|z l IH]; simpl; [intros _ []|].
  intros [H1 H2]. destruct (Z.ltb_spec z x); simpl.
  - apply IH; assumption.
  - intros [<-|Hy]; [assumption|]. specialize (H1 _ Hy). lia.
Qed.

Lemma sorted_app l1 l2 : sorted l1 -> sorted l2 -> (forall a b, In a l1 -> In b l2 -> a <= b) -> sorted (l1 ++ l2).
Proof.
  induction l1 as [|x l1 IH]; simpl; intros H1 H2 H; [exact H2|].
  destruct H1 as [Ha Hb]. split.
  - intros y Hy. apply in_app_iff in Hy as [Hy|Hy]; [apply Ha; exact Hy|apply H; [left; reflexivity|exact Hy]].
  - apply IH; auto.
Qed.

Lemma In_firstn_to_In {A} (l : list A) n x : In x (firstn n l) -> In x l.
Proof.
  revert n; induction l as [|y l IH]; intros [|n]; simpl; try tauto.
  intros [H|H]; [left; exact H|right; eapply IH; exact H].
Qed.

Lemma In_skipn_to_In {A} (l : list A) n x : In x (skipn n l) -> In x l.
Proof.
  revert n; induction l as [|y l IH]; intros [|n]; simpl; try tauto.
  intros H. right. eapply IH; exact H.
Qed.

Lemma sorted_firstn l n : sorted l -> sorted (firstn n l).
Proof.
  revert n; induction l as [|x l IH]; intros n H; [destruct n; exact I|].
  destruct n; simpl; [exact I|]. destruct H as [H1 H2]. split; [|apply IH; exact H2].
  intros y Hy. apply H1. eapply In_firstn_to_In. exact Hy.
Qed.

Lemma sorted_skipn l n : sorted l -> sorted (skipn n l).
Proof.
  revert n; induction l as [|x l IH]; intros n H; [destruct n; exact I|].
  destruct n; simpl; [exact H|]. destruct H as [_ H2]. apply IH; exact H2.
Qed.

Lemma sorted_insert_lb x l : sorted l -> sorted (insert_at (lb x l) x l).
Proof.
  intros H. unfold insert_at. apply sorted_app.
  - apply sorted_firstn; exact H.
  - simpl. split; [intros y Hy; eapply lb_skipn_ge; eassumption|apply sorted_skipn; exact H].
  - intros a b Ha [<-|Hb].
    + apply lb_firstn_lt in Ha. lia.
    + apply lb_firstn_lt in Ha. eapply lb_skipn_ge in Hb; [lia|exact H].
Qed.

(* lower_bound over all but the last slot of a sorted segment that contains raw lands on raw *)
Lemma lb_finds raw sg : sorted sg -> In raw sg -> nth (lb raw (removelast sg)) sg 0 = raw.
Proof.
  induction sg as [|y sg IH]; [intros _ []|]. intros [H1 H2] Hin.
  destruct sg as [|z sg'].
  - simpl. destruct Hin as [->|[]]. reflexivity.
  - change (removelast (y :: z :: sg')) with (y :: removelast (z :: sg')). simpl lb.
    destruct (Z.ltb_spec y raw).
    + simpl nth. apply IH; [exact H2|]. destruct Hin as [->|Hin]; [lia|exact Hin].
    + simpl. destruct Hin as [->|Hin]; [reflexivity|]. specialize (H1 _ Hin). lia.
Qed.

Lemma lb_removelast_lt raw sg : sg <> [] -> (lb raw (removelast sg) < length sg)%nat.
Proof.
  intros H. pose proof (lb_le raw (removelast sg)).
  assert (length (removelast sg) < length sg)%nat; [|lia].
  destruct sg using rev_ind; [congruence|]. rewrite removelast_last, app_length. simpl. lia.
Qed.

Lemma nth_remove_perm (l : list Z) n : (n < length l)%nat -> Permutation l (nth n l 0 :: remove_nth n l).
Proof.
  revert n; induction l as [|y l IH]; intros n H; simpl in *; [lia|].
  destruct n; simpl; [reflexivity|]. etransitivity; [apply perm_skip, (IH n); lia|apply perm_swap].
Qed.

Lemma index_of_spec x l : In x l -> (index_of x l < length l)%nat /\ nth (index_of x l) l 0 = x.
Proof.
  induction l as [|y l IH]; [intros []|]. intros Hin. simpl.
  destruct (Z.eqb_spec y x); [subst; split; [lia|reflexivity]|].
  destruct Hin as [->|Hin]; [congruence|]. destruct (IH Hin). split; [lia|assumption].
Qed.

(* ---------------------------------------------------------------- the invariant under shrinking *)

Lemma firstn_removelast {A} (l : list A) n : (n < length l)%nat -> firstn n (removelast l) = firstn n l.
Proof.
  revert n; induction l as [|x l IH]; intros n H; simpl in *; [lia|].
  destruct l as [|y l]; [simpl in *; assert (n = 0)%nat by lia; subst; reflexivity|].
  destruct n; [reflexivity|]. change (removelast (x :: y :: l)) with (x :: removelast (y :: l)).
  simpl firstn. f_equal. apply IH. simpl in *. lia.
Qed.

Lemma skipn_removelast {A} (l : list A) n : (n < length l)%nat -> skipn n (removelast l) = removelast (skipn n l).
Proof.
  revert n; induction l as [|x l IH]; intros n H; simpl in *; [lia|].
  destruct l as [|y l]; [simpl in *; assert (n = 0)%nat by lia; subst; reflexivity|].
  destruct n; [reflexivity|]. change (removelast (x :: y :: l)) with (x :: removelast (y :: l)).
  simpl skipn. apply IH. simpl in *. lia.
Qed.

Lemma last_app {A} (l1 l2 : list A) d : l2 <> [] -> last (l1 ++ l2) d = last l2 d.
Proof.
  intros H. induction l1 as [|x l1 IH]; [reflexivity|]. simpl.
  destruct (l1 ++ l2) eqn:E; [apply app_eq_nil in E as [_ E]; congruence|exact IH].
Qed.

Lemma removelast_length {A} (l : list A) : length (removelast l) = (length l - 1)%nat.
Proof. destruct l using rev_ind; [reflexivity|]. rewrite removelast_last, app_length. simpl. lia. Qed.

Lemma segs_ok_removelast seg sz l : segs_ok seg sz l -> segs_ok seg sz (removelast l).
Proof.
  unfold segs_ok. induction 1 as [seg sz l H|seg sz l Hp Hlt Hs Hr IH].
  - apply so_tail. rewrite removelast_length. lia.
  - destruct (Nat.ltb_spec sz (length (removelast l))) as [Hl|Hl]; [|apply so_tail; exact Hl].
    apply so_seg; [exact Hp|exact Hl| |].
    + rewrite firstn_removelast by lia. exact Hs.
    + rewrite skipn_removelast by lia. exact IH.
Qed.

(* ---------------------------------------------------------------- AcceptRemove *)

Lemma remove_unordered_perm_nth (l : list Z) n :
  (n < length l)%nat -> Permutation l (nth n l 0 :: swap_remove n l).
Proof.
  intros H. etransitivity; [apply nth_remove_perm; exact H|]. apply perm_skip. symmetry.
  apply remove_unordered_perm. exact H.
Qed.

Lemma swap_remove_length (l : list Z) n : (n < length l)%nat -> length (swap_remove n l) = (length l - 1)%nat.
Proof.
  intros H. pose proof (Permutation_length (remove_unordered_perm_nth l n H)) as P. simpl in P. lia.
Qed.

Lemma ar_loop_correct seg sz rest :
  segs_ok seg sz rest ->
  forall fuel raw done, (length rest < fuel)%nat -> In raw rest ->
  exists rest', ar_loop fuel seg raw (last rest 0) done rest sz = Some (done ++ rest') /\
                Permutation rest (raw :: rest') /\ segs_ok seg sz rest'.
Proof.
  unfold segs_ok. induction 1 as [seg sz rest Hlen|seg sz rest Hp Hlt Hs Hr IH]; intros fuel raw done Hf Hin.
  - (* the unsorted tail *)
    destruct fuel as [|f]; [lia|]. simpl.
    replace (Nat.ltb sz (length rest)) with false by (symmetry; apply Nat.ltb_ge; lia).
    destruct (index_of_spec raw rest Hin) as [Hi Hn].
    replace (Nat.ltb (index_of raw rest) (length rest)) with true by (symmetry; apply Nat.ltb_lt; exact Hi).
    eexists; split; [reflexivity|]. split.
    + pose proof (remove_unordered_perm_nth rest _ Hi) as P. rewrite Hn in P. exact P.
    + apply so_tail. rewrite swap_remove_length by exact Hi. lia.
  - destruct fuel as [|f]; [lia|]. simpl.
    replace (Nat.ltb sz (length rest)) with true by (symmetry; apply Nat.ltb_lt; lia).
    set (sg := firstn sz rest) in *. set (after := skipn sz rest) in *.
    assert (Hsplit : rest = sg ++ after) by (symmetry; apply firstn_skipn).
    assert (Hsgl : length sg = sz) by (unfold sg; rewrite firstn_length; lia).
    assert (Hal : (0 < length after)%nat) by (unfold after; rewrite skipn_length; lia).
    assert (Hsgne : sg <> []) by (intro E; rewrite E in Hsgl; simpl in Hsgl; lia).
    destruct (in_dec Z.eq_dec raw sg) as [Hsg|Hnsg].
    + (* found in this sorted segment *)
      rewrite (lb_finds raw sg Hs Hsg). rewrite Z.eqb_refl.
      set (ri := lb raw (removelast sg)).
      assert (Hri : (ri < length sg)%nat) by (apply lb_removelast_lt; exact Hsgne).
      set (sg1 := remove_nth ri sg).
      assert (Hp1 : Permutation sg (raw :: sg1)).
      { pose proof (nth_remove_perm sg ri Hri) as P. unfold ri in P at 1. rewrite (lb_finds raw sg Hs Hsg) in P. exact P. }
      assert (Hs1 : sorted sg1) by (apply sorted_remove_nth; exact Hs).
      set (lst := last rest 0).
      assert (Hafter : after = removelast after ++ [lst]).
      { unfold lst. rewrite Hsplit. rewrite last_app by (intro E; rewrite E in Hal; simpl in Hal; lia).
        apply app_removelast_last. intro E; rewrite E in Hal; simpl in Hal; lia. }
      exists (insert_at (lb lst sg1) lst sg1 ++ removelast after). split; [|split].
      * f_equal. f_equal. rewrite removelast_app by (intro E; rewrite E in Hal; simpl in Hal; lia). reflexivity.
      * rewrite Hsplit. rewrite Hafter at 1.
        etransitivity; [apply Permutation_app_tail; exact Hp1|]. simpl. apply perm_skip.
        etransitivity; [|apply Permutation_app_tail; symmetry; apply insert_at_perm].
        simpl. rewrite app_assoc. symmetry. apply Permutation_cons_append.
      * assert (Hl2 : length (insert_at (lb lst sg1) lst sg1) = sz).
        { pose proof (Permutation_length (insert_at_perm lst sg1 (lb lst sg1))) as P1.
          pose proof (Permutation_length Hp1) as P2. simpl in *. lia. }
        destruct (Nat.ltb_spec sz (length (insert_at (lb lst sg1) lst sg1 ++ removelast after))) as [Hl|Hl];
          [|apply so_tail; exact Hl].
        apply so_seg; [exact Hp|exact Hl| |].
        -- rewrite firstn_app, Hl2, Nat.sub_diag, firstn_O, app_nil_r. rewrite <- Hl2. rewrite firstn_all.
           apply sorted_insert_lb. exact Hs1.
        -- rewrite skipn_app, Hl2, Nat.sub_diag. rewrite <- Hl2 at 1. rewrite skipn_all. simpl.
           apply segs_ok_removelast. exact Hr.
    + (* not in this segment: go on with the next one *)
      assert (Hnth : In (nth (lb raw (removelast sg)) sg 0) sg) by (apply nth_In, lb_removelast_lt; exact Hsgne).
      destruct (Z.eqb_spec (nth (lb raw (removelast sg)) sg 0) raw) as [E|E]; [rewrite E in Hnth; contradiction|].
      assert (Hina : In raw after).
      { rewrite Hsplit in Hin. apply in_app_iff in Hin as [?|?]; [contradiction|assumption]. }
      assert (Hlast : last rest 0 = last after 0).
      { rewrite Hsplit. apply last_app. intro E'; rewrite E' in Hal; simpl in Hal; lia. }
      rewrite Hlast.
      destruct (IH f raw (done ++ sg)) as (rest' & He & Hperm & Hok); [|exact Hina|].
      { unfold after. rewrite skipn_length. lia. }
      exists (sg ++ rest'). split; [rewrite He, app_assoc; reflexivity|]. split.
      * rewrite Hsplit. etransitivity; [apply Permutation_app_head; exact Hperm|]. symmetry. apply Permutation_middle.
      * destruct (Nat.ltb_spec sz (length (sg ++ rest'))) as [Hl|Hl]; [|apply so_tail; exact Hl].
        apply so_seg; [exact Hp|exact Hl| |].
        -- rewrite firstn_app, Hsgl, Nat.sub_diag, firstn_O, app_nil_r. rewrite <- Hsgl. rewrite firstn_all. exact Hs.
        -- rewrite skipn_app, Hsgl, Nat.sub_diag. rewrite <- Hsgl at 1. rewrite skipn_all. simpl. exact Hok.
Qed.

(* MultiHash::AcceptRemove on a value array whose completed segments are sorted: the row is found (no
   assertion fails, the loop terminates), exactly one occurrence of it disappears, nothing else is lost
   or duplicated, and the completed segments of the result are sorted again. *)
Theorem multihash_remove_preserves raw vals :
  vals_ok vals -> In raw vals ->
  exists vals', accept_remove raw vals = Some vals' /\ Permutation vals (raw :: vals') /\ vals_ok vals'.
Proof.
  intros Hok Hin. unfold accept_remove.
  destruct (ar_loop_correct 0 first_seg vals Hok (S (length vals)) raw [] (Nat.lt_succ_diag_r _) Hin) as (r & He & Hp & Ho).
  exists r. auto.
Qed.

(* non-vacuity: a 70-value array with a sorted first segment and the row in that segment *)
Example remove_from_sorted_segment :
  let vals := map Z.of_nat (seq 1 64) ++ [200; 100; 300; 150; 7000; 90] in
  accept_remove 10 vals = Some (map Z.of_nat (seq 1 9) ++ map Z.of_nat (seq 11 54) ++ [90; 200; 100; 300; 150; 7000]).
Proof. vm_compute. reflexivity. Qed.
