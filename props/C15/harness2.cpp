// C15 second implementation-side harness: HashMultiMap (key version + value version), Array with index iterators,
// SegmentedArray, DataTable row references / selections -- all built with checkMode = exception (and version checks on).
// The property predicate is evaluated HERE (independent of the Coq model): every line is one
// (state, invalidating operation, subsequent use) triple; expected outcome:
//   'R' the use must throw std::invalid_argument and leave the container equal to its std twin,
//   'A' the use must be accepted, '?' either (documented as such in NOTES.md).
// Output: "ok mut=<m> use=<u> rej=<0|1>" or "BAD <why>"; each case runs in a forked child (abort/terminate = "BAD CRASH").
#include "private_access.h"
#include <unistd.h>
#include <signal.h>
#include <sys/wait.h>
#include <sys/resource.h>
#include "momo/HashMultiMap.h"
#include "momo/Array.h"
#include "momo/SegmentedArray.h"
#include "momo/DataTable.h"
using namespace momo;
typedef MemManagerDefault MMD;

struct MMS : HashMultiMapSettings { static const CheckMode checkMode = CheckMode::exception; static const bool checkKeyVersion = true; static const bool checkValueVersion = true; };
struct AS : ArraySettings<0, true, false> { static const CheckMode checkMode = CheckMode::exception; };
struct AIS : ArraySettings<4, true, false> { static const CheckMode checkMode = CheckMode::exception; };
struct SAS : SegmentedArraySettings<> { static const CheckMode checkMode = CheckMode::exception; };
struct DTS : DataSettings<true> { static const CheckMode checkMode = CheckMode::exception; static const bool checkVersion = true; };
typedef HashMultiMap<int, int, HashTraits<int>, MMD, HashMultiMapKeyValueTraits<int, int, MMD>, MMS> MM;
typedef Array<int, MMD, ArrayItemTraits<int, MMD>, AS> AR;
typedef Array<int, MMD, ArrayItemTraits<int, MMD>, AIS> ARI;
typedef SegmentedArray<int, MMD, SegmentedArrayItemTraits<int, MMD>, SAS> SA;
typedef DataColumnList<DataColumnTraits<>, MMD, DataItemTraits<MMD>, DTS> DCL;
typedef DataTable<DCL> DT;
static const DataColumn<int> intCol("intCol");
static const DataColumn<int> grpCol("grpCol");

enum Out { ACC, REJ, OTHER };
template<class F> static Out attempt(F f)
{
	try { f(); return ACC; }
	catch (const std::invalid_argument&) { return REJ; }
	catch (const std::exception&) { return OTHER; }
}
static std::string verdict(char expect, Out o, bool unchanged, const std::string& tag)
{
	if (o == OTHER && expect != 'X') return "BAD " + tag + " threw an exception other than std::invalid_argument";
	if (o == REJ && !unchanged) return "BAD " + tag + " was rejected but the container changed";
	if (expect == 'X') return (o != ACC && unchanged) ? "ok " + tag + " rej=1" : "BAD " + tag + (o == ACC ? " was accepted" : " changed the container");
	if (expect == 'R' && o == ACC) return "BAD " + tag + " was accepted although the handle / index is invalid";
	if (expect == 'A' && o == REJ) return "BAD " + tag + " was rejected although nothing invalidated the handle";
	return "ok " + tag + " rej=" + (o == REJ ? "1" : "0");
}

// ------------------------------------------------------------------------------------------------ HashMultiMap
typedef std::map<int, std::vector<int>> MMTwin;   // key -> sorted values (keys without values kept)
static MMTwin snapshot(const MM& m)
{
	MMTwin t;
	for (auto kr : m.GetKeyBounds()) { std::vector<int> v(kr.GetBegin(), kr.GetEnd()); std::sort(v.begin(), v.end()); t[kr.key] = v; }
	return t;
}
static std::string runMM(int n, int mut, int use)
{
	MM m, other;
	for (int k = 1; k <= n; ++k) for (int j = 0; j < 1 + k % 3; ++j) m.Add(k, k * 100 + j);
	other.Add(1, 100);
	MM::Iterator it = m.MakeIterator(m.Find(2), 0);          // value iterator
	MM::Iterator it2 = m.MakeIterator(m.Find(3), 0);
	MM::KeyIterator kit = m.Find(2);                          // key iterator
	MM::KeyIterator kit3 = m.Find(3);
	MM::Iterator endIt = m.GetEnd();
	MM::Iterator foreign = other.GetBegin();
	MM::KeyIterator foreignKey = other.Find(1);
	// --- the possibly invalidating operation.  vmod: value iterators invalid; kmod: key iterators invalid; none: nothing modified
	bool vmod = false, kmod = false; const char* mname = "?";
	switch (mut)
	{
	case 0: mname = "none"; break;
	case 1: mname = "Add(existing-key,value)"; m.Add(3, 7); vmod = true; break;
	case 2: mname = "Add(new-key,value)"; m.Add(1000, 7); vmod = kmod = true; break;
	case 3: mname = "InsertKey(new)"; m.InsertKey(1001); kmod = true; vmod = true; break;        // key iterators inside value iterators
	case 4: mname = "InsertKey(existing)"; m.InsertKey(3); break;
	case 5: mname = "Remove(value-iterator)"; m.Remove(it2); vmod = true; break;
	case 6: mname = "RemoveValues(key-iterator)"; m.RemoveValues(kit3); vmod = true; break;
	case 7: mname = "RemoveKey(key)"; m.RemoveKey(3); vmod = kmod = true; break;
	case 8: mname = "RemoveKey(absent-key)"; m.RemoveKey(5000); break;
	case 9: mname = "Clear"; m.Clear(); vmod = kmod = true; break;
	case 10: mname = "Remove(filter-nothing)"; m.Remove([] (const int&, const int&) { return false; }); break;
	case 11: mname = "Remove(filter-some)"; m.Remove([] (const int& k, const int&) { return k == 3; }); vmod = true; break;
	case 12: mname = "queries"; (void)m.Find(1); (void)m.GetCount(); for (auto r : m) (void)r.value; (void)m.ContainsKey(9); break;
	case 13: mname = "Add(key-iterator,value)"; m.Add(kit3, 9); vmod = true; break;
	case 14: mname = "many-InsertKey(growth)"; for (int k = 2000; k < 2080; ++k) m.InsertKey(k); kmod = vmod = true; break;
	case 15: mname = "Remove(key-iterator,index)"; m.Remove(kit3, 0); vmod = true; break;
	case 16: mname = "rejected-Remove(end)"; (void)attempt([&] { m.Remove(endIt); }); break;
	case 17: mname = "RemoveKey(key-iterator)"; m.RemoveKey(kit3); vmod = kmod = true; break;
	default: return "BAD unknown mutator";
	}
	MMTwin before = snapshot(m); size_t cnt = m.GetCount();
	char expect = '?'; const char* uname = "?"; Out o = OTHER;
	switch (use)
	{
	case 0: uname = "read(value-iterator)"; expect = vmod ? 'R' : 'A'; o = attempt([&] { volatile int x = it->value; (void)x; }); break;
	case 1: uname = "++(value-iterator)"; expect = vmod ? 'R' : 'A'; o = attempt([&] { ++it; }); break;
	case 2: uname = "Remove(value-iterator)"; expect = vmod ? 'R' : 'A'; o = attempt([&] { m.Remove(it); }); break;
	case 3: uname = "read(key-iterator)"; expect = kmod ? 'R' : 'A'; o = attempt([&] { volatile int x = kit->key; (void)x; }); break;
	case 4: uname = "++(key-iterator)"; expect = kmod ? 'R' : 'A'; o = attempt([&] { ++kit; }); break;
	case 5: uname = "Add(key-iterator,value)"; expect = kmod ? 'R' : 'A'; o = attempt([&] { m.Add(kit, 5); }); break;
	case 6: uname = "RemoveKey(key-iterator)"; expect = kmod ? 'R' : 'A'; o = attempt([&] { m.RemoveKey(kit); }); break;
	case 7: uname = "RemoveValues(key-iterator)"; expect = kmod ? 'R' : 'A'; o = attempt([&] { m.RemoveValues(kit); }); break;
	case 8: uname = "MakeIterator(key-iterator)"; expect = kmod ? 'R' : 'A'; o = attempt([&] { (void)m.MakeIterator(kit, 0); }); break;
	case 9: uname = "Remove(key-iterator,index)"; expect = kmod ? 'R' : 'A'; o = attempt([&] { m.Remove(kit, 0); }); break;
	case 10: uname = "read(end)"; expect = 'R'; o = attempt([&] { volatile int x = endIt->value; (void)x; }); break;
	case 11: uname = "++(end)"; expect = 'R'; o = attempt([&] { ++endIt; }); break;
	case 12: uname = "Remove(end)"; expect = 'R'; o = attempt([&] { m.Remove(endIt); }); break;
	case 13: uname = "Remove(foreign-iterator)"; expect = 'R'; o = attempt([&] { m.Remove(foreign); }); break;
	case 14: uname = "Add(foreign-key-iterator)"; expect = 'R'; o = attempt([&] { m.Add(foreignKey, 1); }); break;
	case 15: uname = "RemoveKey(foreign-key-iterator)"; expect = 'R'; o = attempt([&] { m.RemoveKey(foreignKey); }); break;
	case 16: uname = "Remove(key-iterator,out-of-range-index)"; expect = 'R'; o = attempt([&] { m.Remove(m.Find(1), 99); }); break;
	case 17: uname = "ResetKey(key-iterator)"; expect = kmod ? 'R' : 'A'; o = attempt([&] { m.ResetKey(kit, 2); }); break;
	case 18: uname = "fresh-handles"; expect = 'A'; o = attempt([&] { auto f = m.GetBegin(); if (!!f) { volatile int x = f->value; (void)x; ++f; }
		auto kf = m.Find(1); if (!!kf) { (void)kf->key; m.Add(kf, 3); } }); break;
	case 19: uname = "CheckIterator(value-iterator)"; expect = vmod ? 'R' : 'A'; o = attempt([&] { m.CheckIterator(it, false); }); break;
	// value-index boundaries (key 1 has 2 values; fresh key iterator): count-1 legal, count / count+1 / SIZE_MAX rejected by Remove;
	// MakeIterator allows index == count
	case 20: uname = "Remove(key-iterator,count-1)"; expect = (m.Find(1) ? 'A' : '?'); o = attempt([&] { auto kf = m.Find(1); m.Remove(kf, kf->GetCount() - 1); }); break;
	case 21: uname = "Remove(key-iterator,count)"; expect = 'R'; o = attempt([&] { auto kf = m.Find(1); size_t c = !!kf ? kf->GetCount() : 0; m.Remove(kf, c); }); break;
	case 22: uname = "Remove(key-iterator,count+1)"; expect = 'R'; o = attempt([&] { auto kf = m.Find(1); size_t c = !!kf ? kf->GetCount() : 0; m.Remove(kf, c + 1); }); break;
	case 23: uname = "Remove(key-iterator,SIZE_MAX)"; expect = 'R'; o = attempt([&] { m.Remove(m.Find(1), std::numeric_limits<size_t>::max()); }); break;
	case 24: uname = "Remove(value-less-key-iterator,0)"; expect = 'R'; { auto kf = m.InsertKey(777); before = snapshot(m); o = attempt([&] { m.Remove(kf, 0); }); } break;
	case 25: uname = "MakeIterator(key-iterator,count)"; expect = (m.Find(1) ? 'A' : '?'); o = attempt([&] { auto kf = m.Find(1); (void)m.MakeIterator(kf, kf->GetCount()); }); break;
	case 26: uname = "MakeIterator(key-iterator,count+1)"; expect = 'R'; o = attempt([&] { auto kf = m.Find(1); size_t c = !!kf ? kf->GetCount() : 0; (void)m.MakeIterator(kf, c + 1); }); break;
	case 27: uname = "MakeIterator(key-iterator,SIZE_MAX)"; expect = 'R'; o = attempt([&] { (void)m.MakeIterator(m.Find(1), std::numeric_limits<size_t>::max()); }); break;
	default: return "BAD unknown use";
	}
	bool unchanged = (snapshot(m) == before) && m.GetCount() == cnt + ((use == 24) ? 0 : 0);
	return verdict(expect, o, unchanged, std::string("mm mut=") + mname + " use=" + uname);
}

// ------------------------------------------------------------------------------------------------ arrays
template<class A> static std::string runArr(const char* kind, int n, int mut, int use)
{
	A a, other;
	std::vector<int> twin;
	for (int i = 0; i < n; ++i) { a.AddBack(i * 3); twin.push_back(i * 3); }
	other.AddBack(1);
	typename A::Iterator it = a.GetBegin(); if (n > 0) it += n - 1;      // last element (or begin==end if empty)
	typename A::Iterator e = a.GetEnd();
	typename A::Iterator oth = other.GetBegin();
	const char* mname = "?";
	switch (mut)
	{
	case 0: mname = "none"; break;
	case 1: mname = "AddBack"; a.AddBack(77); twin.push_back(77); break;
	case 2: mname = "RemoveBack"; if (n > 0) { a.RemoveBack(); twin.pop_back(); } break;
	case 3: mname = "Insert(0)"; a.Insert(0, 55); twin.insert(twin.begin(), 55); break;
	case 4: mname = "Remove(0,1)"; if (n > 0) { a.Remove(0, 1); twin.erase(twin.begin()); } break;
	case 5: mname = "Clear"; a.Clear(); twin.clear(); break;
	case 6: mname = "grow-many"; for (int i = 0; i < 100; ++i) { a.AddBack(i); twin.push_back(i); } break;
	case 7: mname = "SetCount(half)"; a.SetCount(size_t(n / 2)); twin.resize(size_t(n / 2)); break;
	default: return "BAD unknown mutator";
	}
	size_t cnt = twin.size();
	size_t idx = (n > 0) ? size_t(n - 1) : 0;     // index the iterator `it` refers to
	char expect = '?'; const char* uname = "?"; Out o = OTHER;
	switch (use)
	{
	case 0: uname = "a[count]"; expect = 'R'; o = attempt([&] { volatile int x = a[cnt]; (void)x; }); break;
	case 1: uname = "a[count-1]"; expect = cnt > 0 ? 'A' : 'R'; o = attempt([&] { volatile int x = a[cnt - 1]; (void)x; }); break;
	case 2: uname = "*iterator(index)"; expect = idx < cnt ? 'A' : 'R'; o = attempt([&] { volatile int x = *it; (void)x; }); break;
	case 3: uname = "*old-end-iterator"; expect = size_t(n) < cnt ? 'A' : 'R'; o = attempt([&] { volatile int x = *e; (void)x; }); break;
	case 4: uname = "*GetEnd()"; expect = 'R'; o = attempt([&] { auto f = a.GetEnd(); volatile int x = *f; (void)x; }); break;
	case 5: uname = "iterator+=beyond-end"; expect = 'R'; o = attempt([&] { auto f = a.GetBegin(); f += ptrdiff_t(cnt + 1); }); break;
	case 6: uname = "iterator+=to-end"; expect = 'A'; o = attempt([&] { auto f = a.GetBegin(); f += ptrdiff_t(cnt); }); break;
	case 7: uname = "iterator-=before-begin"; expect = 'R'; o = attempt([&] { auto f = a.GetBegin(); f -= 1; }); break;
	case 8: uname = "iterator-foreign-iterator"; expect = 'R'; o = attempt([&] { volatile ptrdiff_t d = a.GetBegin() - oth; (void)d; }); break;
	case 9: uname = "iterator<foreign-iterator"; expect = 'R'; o = attempt([&] { volatile bool b = a.GetBegin() < oth; (void)b; }); break;
	case 10: uname = "Insert(count+1)"; expect = 'R'; o = attempt([&] { a.Insert(cnt + 1, 5); }); break;
	case 11: uname = "Remove(count,1)"; expect = 'R'; o = attempt([&] { a.Remove(cnt, 1); }); break;
	case 12: uname = "Remove(0,count+1)"; expect = 'R'; o = attempt([&] { a.Remove(0, cnt + 1); }); break;
	case 13: uname = "RemoveBack(count+1)"; expect = 'R'; o = attempt([&] { a.RemoveBack(cnt + 1); }); break;
	case 14: uname = "GetBackItem()"; expect = cnt > 0 ? 'A' : 'R'; o = attempt([&] { volatile int x = a.GetBackItem(); (void)x; }); break;
	case 15: uname = "default-iterator-deref"; expect = 'R'; o = attempt([&] { typename A::Iterator d; volatile int x = *d; (void)x; }); break;
	case 16: uname = "default-iterator+=1"; expect = 'R'; o = attempt([&] { typename A::Iterator d; d += 1; }); break;
	case 17: uname = "iterator[out-of-range]"; expect = 'R'; o = attempt([&] { auto f = a.GetBegin(); volatile int x = f[ptrdiff_t(cnt)]; (void)x; }); break;
	case 18: uname = "Remove(huge-index,2)"; expect = 'R'; o = attempt([&] { a.Remove(std::numeric_limits<size_t>::max(), 2); }); break;
	case 19: uname = "fresh-iteration"; expect = 'A'; o = attempt([&] { long s = 0; for (auto f = a.GetBegin(); f != a.GetEnd(); ++f) s += *f; (void)s; }); break;
	case 20: uname = "Remove(count-1,SIZE_MAX)"; expect = 'R'; o = attempt([&] { a.Remove(cnt - 1, std::numeric_limits<size_t>::max()); }); break;   // index + count overflows
	case 21: uname = "Remove(1,SIZE_MAX)"; expect = 'R'; o = attempt([&] { a.Remove(1, std::numeric_limits<size_t>::max()); }); break;
	case 22: uname = "Insert(SIZE_MAX)"; expect = 'R'; o = attempt([&] { a.Insert(std::numeric_limits<size_t>::max(), 5); }); break;
	case 23: uname = "a[SIZE_MAX]"; expect = 'R'; o = attempt([&] { volatile int x = a[std::numeric_limits<size_t>::max()]; (void)x; }); break;
	case 24: uname = "RemoveBack(SIZE_MAX)"; expect = 'R'; o = attempt([&] { a.RemoveBack(std::numeric_limits<size_t>::max()); }); break;
	// Insert(index, count, item) with a count that overflows size + count: any exception, nothing touched (fix c5d1be1)
	case 25: uname = "Insert(0,SIZE_MAX,item)"; expect = cnt > 0 ? 'X' : '?'; if (cnt == 0) { o = REJ; break; } o = attempt([&] { a.Insert(0, std::numeric_limits<size_t>::max(), 5); }); break;
	case 26: uname = "Insert(count,SIZE_MAX-count+1,item)"; expect = cnt > 0 ? 'X' : '?'; if (cnt == 0) { o = REJ; break; } o = attempt([&] { a.Insert(cnt, std::numeric_limits<size_t>::max() - cnt + 1, 5); }); break;
	case 27: uname = "Insert(count+1,SIZE_MAX,item)"; expect = cnt > 0 ? 'X' : '?'; if (cnt == 0) { o = REJ; break; } o = attempt([&] { a.Insert(cnt + 1, std::numeric_limits<size_t>::max(), 5); }); break;
	default: return "BAD unknown use";
	}
	std::vector<int> now; for (size_t i = 0; i < a.GetCount(); ++i) now.push_back(a[i]);
	return verdict(expect, o, now == twin, std::string(kind) + " mut=" + mname + " use=" + uname);
}

// ------------------------------------------------------------------------------------------------ DataTable
static std::vector<std::pair<int, int>> rowsOf(const DT& t)
{
	std::vector<std::pair<int, int>> v;
	for (auto r : t) v.push_back({ r[intCol], r[grpCol] });
	return v;
}
static std::string runDT(int n, int mut, int use, bool indexed)
{
	DT t({ intCol, grpCol }), other({ intCol, grpCol });
	DT::UniqueHashIndex uhi = DT::UniqueHashIndex::empty; DT::MultiHashIndex mhi = DT::MultiHashIndex::empty;
	if (indexed) { uhi = t.AddUniqueHashIndex(intCol); mhi = t.AddMultiHashIndex(grpCol); }
	if (use >= 34 && !indexed) return "BAD index look-up uses need the indexed table";
	for (int i = 0; i < n; ++i) t.AddRow(intCol = i, grpCol = i % 3);
	other.AddRow(intCol = 1, grpCol = 1);
	DT::RowReference ref = t[1];
	DT::RowReference ref0 = t[0];
	DT::Selection sel = t.Select(grpCol == 1);
	DT::Selection all = t.Select();
	DT::RowReference foreign = other[0];
	auto bounds = t.GetColumnItems(intCol);
	// index look-up handles (grow round 4): multi-hash bounds (raw iterators on changeVersion, rows on removeVersion), unique-hash pointer
	DT::RowHashBounds hb; DT::RowHashPointer hp;
	if (indexed) { hb = t.FindByMultiHash(mhi, grpCol == 1); hp = t.FindByUniqueHash(uhi, intCol == 1); }
	const size_t hbCount = hb.GetCount();
	// removal / replacement of rows invalidates row references and selections; adding rows or updating items does not
	bool rmod = false, either = false, cmod = false; const char* mname = "?";   // cmod: rows added / an indexed item updated (changeVersion only)
	switch (mut)
	{
	case 0: mname = "none"; break;
	case 15: mname = "Remove(filter-nothing)"; t.Remove([] (DT::ConstRowReference) { return false; }); either = true; break;   // conservative bump, see NOTES
	case 1: mname = "AddRow"; t.AddRow(intCol = 1000, grpCol = 1); cmod = true; break;
	case 2: mname = "Remove(row-reference)"; t.Remove(t[2]); rmod = true; break;
	case 3: mname = "Remove(row-number)"; t.Remove(size_t(2)); rmod = true; break;
	case 4: mname = "Remove(filter-some)"; t.Remove([] (DT::ConstRowReference r) { return r[intCol] == 3; }); rmod = true; break;
	case 5: mname = "Update(item)"; t.Update(t[2], grpCol, 7); cmod = true; break;
	case 6: mname = "Clear"; t.Clear(); rmod = true; break;
	case 7: mname = "Extract(row-reference)"; { auto row = t.Extract(t[2]); } rmod = true; break;
	case 8: mname = "Update(row-number,new-row)"; t.Update(size_t(2), t.NewRow(intCol = 2000, grpCol = 1)); rmod = true; break;
	case 9: mname = "queries"; (void)t.GetCount(); (void)t.Select(grpCol == 2).GetCount(); for (auto r : t) (void)r[intCol]; break;
	case 10: mname = "Reserve"; t.Reserve(1000); break;
	case 11: mname = "Assign(selection)"; { auto s2 = t.Select(grpCol == 1); t.Assign(s2.GetBegin(), s2.GetEnd()); } rmod = true; break;
	case 12: mname = "rejected-Remove(foreign-row)"; (void)attempt([&] { t.Remove(foreign); }); break;
	case 13: mname = "Remove(selection-range)"; { auto s2 = t.Select(grpCol == 2); t.Remove(s2.GetBegin(), s2.GetEnd()); } rmod = true; break;
	case 14: mname = "TryAddRow(duplicate)"; if (indexed) (void)t.TryAddRow(intCol = 1, grpCol = 0); break;
	default: return "BAD unknown mutator";
	}
	auto before = rowsOf(t);
	char expect = '?'; const char* uname = "?"; Out o = OTHER;
	switch (use)
	{
	case 0: uname = "read(row-reference)"; expect = rmod ? 'R' : 'A'; o = attempt([&] { volatile int x = ref[intCol]; (void)x; }); break;
	case 1: uname = "read(selection[0])"; expect = rmod ? 'R' : 'A'; o = attempt([&] { volatile int x = sel[0][intCol]; (void)x; }); break;
	case 2: uname = "iterate(selection)"; expect = rmod ? 'R' : 'A'; o = attempt([&] { long s = 0; for (auto r : all) s += r[intCol]; (void)s; }); break;
	case 3: uname = "Remove(row-reference)"; expect = rmod ? 'R' : 'A'; o = attempt([&] { t.Remove(ref); }); break;
	case 4: uname = "Update(row-reference,item)"; expect = rmod ? 'R' : 'A'; o = attempt([&] { t.Update(ref, grpCol, 9); }); break;
	case 5: uname = "Extract(row-reference)"; expect = rmod ? 'R' : 'A'; o = attempt([&] { auto row = t.Extract(ref0); t.Add(std::move(row)); }); break;
	case 6: uname = "GetNumber(row-reference)"; expect = rmod ? 'R' : 'A'; o = attempt([&] { volatile size_t x = ref.GetNumber(); (void)x; }); break;
	case 7: uname = "table[count]"; expect = 'R'; o = attempt([&] { volatile int x = t[t.GetCount()][intCol]; (void)x; }); break;
	case 8: uname = "Remove(count)"; expect = 'R'; o = attempt([&] { t.Remove(t.GetCount()); }); break;
	case 9: uname = "Remove(foreign-row)"; expect = 'R'; o = attempt([&] { t.Remove(foreign); }); break;
	case 10: uname = "Update(foreign-row)"; expect = 'R'; o = attempt([&] { t.Update(foreign, grpCol, 1); }); break;
	case 11: uname = "selection[count]"; expect = 'R'; o = attempt([&] { volatile int x = sel[sel.GetCount()][intCol]; (void)x; }); break;
	case 12: uname = "column-items(read)"; expect = rmod ? 'R' : 'A'; o = attempt([&] { volatile int x = bounds[0]; (void)x; }); break;
	case 13: uname = "fresh-handles"; expect = 'A'; o = attempt([&] { if (t.GetCount() > 0) { auto r = t[0]; volatile int x = r[intCol]; (void)x; auto s = t.Select(); (void)s.GetCount(); if (s.GetCount() > 0) { (void)s[0][grpCol]; } } }); break;
	case 14: uname = "Insert(count+1,row)"; expect = 'R'; o = attempt([&] { t.Insert(t.GetCount() + 1, t.NewRow(intCol = 5000)); }); break;
	case 15: uname = "Add(foreign-table-row)"; expect = 'R'; o = attempt([&] { t.Add(other.NewRow(intCol = 6000)); }); break;
	case 16: uname = "selection.Remove(count-1,SIZE_MAX)"; expect = (rmod || either) ? '?' : 'R'; { size_t sc = all.GetCount(); std::vector<int> sv; bool cmp = !rmod && !either; if (cmp) for (auto r : all) sv.push_back(r[intCol]);
		o = attempt([&] { all.Remove(sc - 1, std::numeric_limits<size_t>::max()); });
		if (cmp) { std::vector<int> sv2; for (auto r : all) sv2.push_back(r[intCol]); if (sv2 != sv) return std::string("BAD dt selection.Remove(count-1,SIZE_MAX) changed the selection (") + (o == REJ ? "rejected" : "accepted") + ")"; } } break;
	case 17: uname = "selection.Remove(count,1)"; expect = 'R'; o = attempt([&] { all.Remove(all.GetCount(), 1); }); break;
	case 18: uname = "table[SIZE_MAX]"; expect = 'R'; o = attempt([&] { volatile int x = t[std::numeric_limits<size_t>::max()][intCol]; (void)x; }); break;
	case 19: uname = "Remove(SIZE_MAX)"; expect = 'R'; o = attempt([&] { t.Remove(std::numeric_limits<size_t>::max()); }); break;
	case 20: uname = "Insert(SIZE_MAX,row)"; expect = 'R'; o = attempt([&] { t.Insert(std::numeric_limits<size_t>::max(), t.NewRow(intCol = 5000)); }); break;
	case 21: uname = "Update(count,row)"; expect = 'R'; o = attempt([&] { t.Update(t.GetCount(), t.NewRow(intCol = 5001)); }); break;
	case 22: uname = "selection[SIZE_MAX]"; expect = 'R'; o = attempt([&] { volatile int x = sel[std::numeric_limits<size_t>::max()][intCol]; (void)x; }); break;
	// a selection taken before rows were removed / replaced, used without reading through a row reference
	case 23: uname = "table.Remove(stale-selection-range)"; expect = (rmod && all.GetCount() > 0) ? 'R' : '?'; o = attempt([&] { t.Remove(all.GetBegin(), all.GetEnd()); }); break;
	case 24: uname = "table.Assign(stale-selection-range)"; expect = (rmod && all.GetCount() > 0) ? 'R' : '?'; o = attempt([&] { t.Assign(all.GetBegin(), all.GetEnd()); }); break;
	case 25: uname = "selection.Sort(column)"; expect = rmod ? 'R' : 'A'; o = attempt([&] { all.Sort(intCol); }); break;
	case 26: uname = "selection.Group(column)"; expect = rmod ? 'R' : 'A'; o = attempt([&] { all.Group(grpCol); }); break;
	case 27: uname = "selection.GetLowerBound(column==v)"; expect = rmod ? 'R' : 'A'; o = attempt([&] { (void)all.GetLowerBound(intCol == 2); }); break;
	case 28: uname = "selection.Add(stale-selection-range)"; expect = (rmod && all.GetCount() > 0) ? 'R' : '?'; o = attempt([&] { auto e = t.SelectEmpty(); e.Add(all.GetBegin(), all.GetEnd()); }); break;
	case 29: uname = "selection-of-selection(reading-filter)"; expect = (rmod && all.GetCount() > 0) ? 'R' : 'A'; o = attempt([&] { DT::Selection s2(all, [] (DT::ConstRowReference r) { return r[intCol] >= 0; }); (void)s2.GetCount(); }); break;
	case 30: uname = "selection.Sort(lambda)"; expect = (rmod && all.GetCount() > 1) ? 'R' : 'A'; o = attempt([&] { all.Sort([] (DT::ConstRowReference a, DT::ConstRowReference b) { return a[intCol] < b[intCol]; }); }); break;
	// the legal boundaries must stay ACCEPTED (a guard that is too strict is also a violation of the property's negative side)
	case 31: uname = "Insert(count,row)"; expect = 'A'; o = attempt([&] { t.Insert(t.GetCount(), t.NewRow(intCol = 7000)); }); before = rowsOf(t); break;
	case 32: uname = "Insert(0,row)"; expect = 'A'; o = attempt([&] { t.Insert(0, t.NewRow(intCol = 7001)); }); before = rowsOf(t); break;
	case 33: uname = "table[count-1]"; expect = t.GetCount() > 0 ? 'A' : 'R'; o = attempt([&] { volatile int x = t[t.GetCount() - 1][intCol]; (void)x; }); break;
	// ---- index look-up handles: any change of the table (rows added / removed / replaced, indexed item updated) invalidates multi-hash
	// bounds (their raws may have moved inside the index); the unique-hash pointer is a row reference (removal / replacement only)
	case 34: uname = "read(hash-bounds[0])"; expect = (rmod || cmod) ? 'R' : 'A'; o = attempt([&] { volatile int x = hb[0][intCol]; (void)x; }); break;
	case 35: uname = "iterate(hash-bounds)"; expect = (rmod || cmod) ? 'R' : 'A'; o = attempt([&] { long s = 0; for (auto r : hb) s += r[intCol]; (void)s; }); break;
	case 36: uname = "read(unique-hash-pointer)"; expect = rmod ? 'R' : 'A'; o = attempt([&] { volatile int x = (*hp)[grpCol]; (void)x; }); break;
	case 37: uname = "deref(hash-bounds-end)"; expect = 'R'; o = attempt([&] { auto e = hb.GetEnd(); volatile int x = (*e)[intCol]; (void)x; }); break;
	case 38: uname = "hash-bounds-begin+=count+1"; expect = 'R'; o = attempt([&] { auto b = hb.GetBegin(); b += ptrdiff_t(hbCount + 1); }); break;
	case 39: uname = "fresh-hash-bounds"; expect = 'A'; o = attempt([&] { auto f = t.FindByMultiHash(mhi, grpCol == 1); long s = 0; for (auto r : f) s += r[intCol]; if (f.GetCount() > 0) s += f[f.GetCount() - 1][intCol]; auto q = t.FindByUniqueHash(uhi, intCol == 0); if (q) s += (*q)[grpCol]; (void)s; }); break;
	case 40: uname = "hash-bounds[count]"; expect = 'R'; o = attempt([&] { volatile int x = hb[hbCount][intCol]; (void)x; }); break;
	case 42: uname = "hash-bounds-begin-=1"; expect = 'R'; o = attempt([&] { auto b = hb.GetBegin(); b += ptrdiff_t(-1); volatile int x = (*b)[intCol]; (void)x; }); break;
	case 41: uname = "deref(empty-unique-hash-pointer)"; expect = 'R'; o = attempt([&] { auto q = t.FindByUniqueHash(uhi, intCol == 123456); volatile int x = (*q)[grpCol]; (void)x; }); break;
	default: return "BAD unknown use";
	}
	if (either && use >= 34 && use <= 36) expect = '?';
	if (either && (use <= 6 || use == 12 || (use >= 23 && use <= 30))) expect = '?';
	bool unchanged = rowsOf(t) == before;
	return verdict(expect, o, unchanged, std::string("dt mut=") + mname + " use=" + uname + (indexed ? " indexed" : ""));
}

static std::string dispatch(const std::string& line)
{
	std::istringstream is(line); std::string kind; int n = 0, mut = 0, use = 0, x = 0; is >> kind >> n >> mut >> use >> x;
	if (kind == "mm") return runMM(n, mut, use);
	if (kind == "ar") return runArr<AR>("ar", n, mut, use);
	if (kind == "ai") return runArr<ARI>("ai", n, mut, use);
	if (kind == "sa") return runArr<SA>("sa", n, mut, use);
	if (kind == "dt") return runDT(n, mut, use, x != 0);
	return "BAD ?kind";
}

int main()
{
	std::string line;
	int timedOut = 0;
	while (std::getline(std::cin, line))
	{
		if (timedOut >= 6) { printf("BAD CRASH skipped (6 cases already ran into the 10 s limit)\n"); continue; }
		int fd[2];
		if (pipe(fd) != 0) return 3;
		fflush(stdout);
		pid_t pid = fork();
		if (pid == 0)
		{
			// a runaway case (e.g. a mutant that loops or reserves without bound) must not take the machine down
#if !defined(__SANITIZE_ADDRESS__)
			struct rlimit rl; rl.rlim_cur = rl.rlim_max = rlim_t(2) << 30; setrlimit(RLIMIT_AS, &rl);
#endif
			alarm(10);
			close(fd[0]);
			std::string res = dispatch(line);
			if (write(fd[1], res.data(), res.size()) < 0) _exit(4);
			_exit(0);
		}
		close(fd[1]);
		std::string res; char buf[4096]; ssize_t k;
		while ((k = read(fd[0], buf, sizeof buf)) > 0) res.append(buf, size_t(k));
		close(fd[0]);
		int st = 0; waitpid(pid, &st, 0);
		if (WIFSIGNALED(st) && WTERMSIG(st) == SIGALRM) ++timedOut;
		if (WIFSIGNALED(st)) res = "BAD CRASH signal " + std::to_string(WTERMSIG(st)) + " (abort/terminate instead of std::invalid_argument)";
		else if (WEXITSTATUS(st) != 0) res = "BAD CRASH exit " + std::to_string(WEXITSTATUS(st));
		printf("%s\n", res.c_str());
	}
	return 0;
}
