"""C02 - B-tree set/map always equals the abstract sorted (multi)sequence.
proof: Coq theorems about a hand-written executable model of TreeSet.h (coq/BTreeModel.v) whose split index and
       leaf-capacity arithmetic are regenerated from the headers (T-gen: Gen_TreeNode.v, Gen_Node.v);
tie:   T-cor - the extracted model and the real TreeSet/TreeMap run the same op histories on 32 node/traits/item
       configurations; per op the index of every returned iterator, bounds/find/count on probe keys, forward and
       backward traversals, GetCount and the pre-order shape (leaf?/count/capacity) must be identical;
oracle: a stable sorted std::vector twin inside the harness (independent of the model), structural checks of the real
       nodes (parent links, uniform depth, count <= capacity) and a counting memory manager (no leak after merges)."""
import os

GEN = ['gen_treenode.json', 'gen_node.json']

#        id: (maxCap, step, blockCount, lin, multi, key, map)
CONFIGS = {
    0: (1, 0, 8, 1, 0, 'int', 0), 1: (1, 1, 1, 0, 1, 'int', 1), 2: (2, 0, 1, 0, 1, 'str', 0), 3: (2, 1, 8, 1, 0, 'int', 1),
    4: (2, 2, 8, 0, 1, 'heap', 0), 5: (3, 1, 8, 1, 1, 'int', 0), 6: (3, 2, 1, 0, 0, 'str', 1), 7: (3, 100, 8, 0, 0, 'int', 0),
    8: (4, 0, 8, 1, 1, 'int', 1), 9: (4, 1, 1, 0, 0, 'heap', 0), 10: (4, 2, 8, 1, 0, 'int', 0), 11: (4, 100, 1, 1, 1, 'str', 0),
    12: (5, 1, 8, 0, 0, 'int', 0), 13: (5, 2, 1, 1, 1, 'int', 1), 14: (5, 0, 8, 0, 1, 'heap', 1), 15: (5, 100, 1, 1, 0, 'int', 0),
    16: (8, 1, 8, 1, 0, 'int', 0), 17: (8, 2, 1, 0, 1, 'int', 0), 18: (8, 0, 1, 1, 0, 'str', 1), 19: (8, 100, 8, 0, 1, 'int', 1),
    20: (32, 4, 8, 1, 0, 'int', 0), 21: (32, 1, 1, 0, 1, 'int', 1), 22: (32, 2, 8, 0, 0, 'heap', 0), 23: (32, 0, 1, 1, 1, 'int', 0),
    24: (255, 100, 1, 1, 0, 'int', 0), 25: (255, 1, 8, 0, 1, 'int', 1), 26: (255, 0, 1, 0, 0, 'int', 0), 27: (255, 2, 8, 1, 1, 'str', 0),
    28: (3, 0, 8, 0, 1, 'int', 0), 29: (4, 1, 8, 0, 1, 'int', 1), 30: (2, 100, 1, 1, 0, 'int', 0), 31: (1, 2, 8, 0, 0, 'heap', 1),
}
NTU = 4

def head(cid):
    mc, st, bc, lin, multi, _, _ = CONFIGS[cid]
    return '%d %d %d %d %d %d' % (cid, mc, st, bc, lin, multi)

def gen_history(r, cid, nops, modelled_only):
    """one aimed op history for configuration cid"""
    mc, st, bc, lin, multi, _, _ = CONFIGS[cid]
    ops = []
    size = [0, 0]                      # rough size estimate (exact bookkeeping is the harness's job)
    style = r.below(8)
    span = r.choice([6, 12, 40, 200, 1000]) if multi else r.choice([20, 60, 300, 2000])
    if mc >= 32:
        nops = nops * 3
    nxt = [0]
    def key():
        if style == 0: nxt[0] += 1; return 20000 + nxt[0]                       # ascending
        if style == 1: nxt[0] += 1; return 25000 - nxt[0]                # descending
        if style == 2: return 20000 + r.choice([3, 3, 3, 7, 7, 11, 50]) + r.below(2)   # clustered duplicates
        if style == 3: nxt[0] += 1; return 20000 + (nxt[0] * 7919) % span      # permutation-like
        return 20000 + r.below(span)
    def probe(k):
        return 'q%d' % max(0, k + r.range(-2, 2))
    i = 0
    # phase A: build
    build = r.range(nops // 3, nops * 2 // 3)
    while i < build:
        k = key(); t = r.below(10)
        if t < 7: ops.append('i%d' % k)
        elif t < 9: ops.append('a%d:%d' % (r.below(size[0] + 2), k))    # hinted add, right or wrong hint
        else: ops.append('a%d:%d' % (max(0, size[0] - r.below(2)), k))
        size[0] += 1; i += 1
        if r.chance(1, 4): ops.append(probe(k))
        if r.chance(1, 9): ops.append('s')
        if r.chance(1, 15): ops.append('t')
    ops += ['s', 't']
    # phase B: aimed removals / mixed
    mode = r.below(6)
    if mode == 0:
        # drain a subtree one item at a time at a fixed index, then remove its separator (the item just before/after)
        h = r.below(size[0] + 1); n = r.range(mc, 3 * mc + 3)
        for _ in range(n):
            ops.append('r%d' % h)
            if r.chance(1, 3): ops.append('s')
        ops += ['r%d' % max(0, h - 1), 's', 'r%d' % max(0, h - 1), 't', 's']
        size[0] = max(0, size[0] - n - 2)
    elif mode == 1:
        # drain from the front / the back
        for _ in range(r.range(size[0] // 2, size[0] + 2)):
            ops.append('r%d' % (0 if r.chance(1, 2) else 1000000007))
            if r.chance(1, 5): ops.append('s')
        ops += ['t', 's']
        size[0] = size[0] // 3
    rest = nops - i
    for _ in range(max(rest, 5)):
        t = r.below(100); k = key()
        if t < 28: ops.append('i%d' % k); size[0] += 1
        elif t < 36: ops.append('a%d:%d' % (r.below(size[0] + 2), k)); size[0] += 1
        elif t < 62: ops.append('r%d' % r.below(max(size[0], 1) + 3))
        elif t < 68:
            ops.append('k%d' % k)
        elif t < 74: ops.append('x%d' % r.below(max(size[0], 1)) + ('' if r.chance(1, 2) else ':%d' % k))
        elif t < 79: ops.append('e%d:%d' % (r.below(max(size[0], 1)), k))
        elif t < 82: ops.append(r.choice(['y', 'Y', 'm']))
        elif t < 84: ops.append('p%d:%d' % (r.range(2, 5), r.below(2)))
        elif t < 85 and r.chance(1, 3): ops.append('c'); size[0] = 0
        elif t < 92: ops.append(probe(k))
        elif t < 96: ops.append('s')
        else: ops.append('t')
        if r.chance(1, 14):
            # Insert(begin, end): ordered runs (fast path), runs with duplicates, partially unordered input
            m = r.choice([1, 2, 3, mc + 1, 2 * mc + 3, 12]); base_k = key(); kind_n = r.below(4)
            if kind_n == 0: run = [base_k + j for j in range(m)]
            elif kind_n == 1: run = sorted(base_k + r.below(4) for _ in range(m))
            elif kind_n == 2: run = [base_k + r.below(2 * m + 1) for _ in range(m)]
            else: run = sorted(base_k + r.below(3 * m) for _ in range(m)); run[r.below(len(run))] = base_k + r.below(3 * m)
            ops.append('n%s' % ','.join(str(x) for x in run)); size[0] += m
            if r.chance(1, 2): ops.append('s')
        if r.chance(1, 12):
            lo = r.below(size[0] + 2); ops.append('g%d:%d' % (lo, lo + r.choice([0, 1, 2, 3, r.below(size[0] + 2)])))
            if r.chance(1, 2): ops.append('s')
        if not modelled_only:
            u = r.below(40)
            if u < 3: ops.append('g%d:%d' % (r.below(size[0] + 2), r.below(size[0] + 2)))
            elif u < 9: ops.append('bi%d' % (k + (r.choice([0, 0, 10000, -10000]) if r.chance(1, 2) else 0)))
            elif u < 10: ops.append('br%d' % r.below(50))
            elif u < 12: ops.append(r.choice(['u', 'v', 'bu', 'bv']))
            elif u < 13: ops.append('w')
            elif u < 14: ops += ['bt']
    ops += ['s', 't']
    if not modelled_only:
        ops += ['bt']
    return head(cid) + ' ' + ' '.join(ops)

def gen_merge_history(r, cid):
    """two sets built ordered / interleaved / overlapping, merged (fast concatenation path when ordered), then freed"""
    mc = CONFIGS[cid][0]
    ops = []
    n1 = r.range(1, 6 * mc + 4); n2 = r.range(1, 6 * mc + 4)
    kind = r.below(6)
    if kind >= 4:
        # ordered blocks that share an equivalent boundary key (either side may be the source): the fast-path tests
        lo = [20000 + r.below(300) for _ in range(n1)] + [20300] * r.range(1, 3)
        hi = [20300] * r.range(1, 3) + [20300 + r.below(300) for _ in range(n2)]
        a, b = (lo, hi) if kind == 4 else (hi, lo)
        ops += ['i%d' % k for k in a] + ['bi%d' % k for k in b]
    else:
        base2 = {0: 10000, 1: -10000, 2: 0, 3: 3}[kind]
        for j in range(n1): ops.append('i%d' % (20000 + (j * 3 if r.chance(3, 4) else r.below(3 * n1))))
        for j in range(n2): ops.append('bi%d' % (20000 + base2 + (j * 3 if r.chance(3, 4) else r.below(3 * n2))))
    for _ in range(r.below(4)): ops.append(r.choice(['r0', 'br0', 'r1000000007', 'br1000000007', 'r%d' % r.below(50)]))
    ops += ['s', 'bs', r.choice(['u', 'v', 'bu', 'bv']), 't', 'bt', 's', 'bs']
    for _ in range(r.below(10)):
        ops.append(r.choice(['i%d' % (20000 + r.below(100)), 'bi%d' % (20000 + r.below(100)), 'r%d' % r.below(60), 'br%d' % r.below(60), 'w', 'u', 'bv']))
    ops += ['t', 'bt']
    fin = r.below(3)
    if fin == 0: ops += ['c', 'bc']
    elif fin == 1: ops += ['r0'] * (n1 + n2 + 12) + ['br0'] * (n1 + n2 + 12) + ['t', 'bt']
    return head(cid) + ' ' + ' '.join(ops)

def gen_separator_history(r, cid):
    """ascending build, drain the leftmost leaves completely (no merge possible while the right sibling is full), then
    remove the separators whose left subtree has become empty - up to the root (pvRemoveInternal, childNode == node)"""
    mc = CONFIGS[cid][0]
    n = r.choice([2 * mc + 2, 2 * mc + 2, 3 * mc + 3, (mc + 1) * (mc + 2) + r.below(4), 4 * mc + 4])
    n = min(n, 700)
    ops = ['i%d' % (20000 + j) for j in range(n)] + ['s']
    for _ in range(r.range(1, min(n, 3 * mc + 3))):
        ops.append('r0')
        if r.chance(1, 3): ops.append('s')
        if r.chance(1, 6): ops.append('q%d' % (20000 + r.below(n)))
    ops += ['t', 's']
    for _ in range(r.below(4)):
        ops += ['r%d' % r.below(3), 's']
    return head(cid) + ' ' + ' '.join(ops + ['t'])

def gen_merge_modelled(r, cid):
    """two key sets - interleaved (generic / linear path), ordered either way (pvMergeFast, trees of equal and of
    different heights, full and non-full nodes on the joining edge), ordered with an equivalent boundary key, or one
    side empty (swap shortcut) - merged, then single-container traffic and possibly further merges"""
    mc, st, bc, lin, multi, _, _ = CONFIGS[cid]
    kind = r.below(10)
    base = 20000
    sizes = [min(x, 150 if mc <= 8 else 560) for x in [0, 1, 2, 3, mc, mc + 1, 2 * mc + 1, 3 * mc + 2, (mc + 1) * (mc + 1), 40, 120]]
    na = r.choice(sizes); nb = r.choice(sizes)
    if kind <= 3:       # interleaved
        a = [base + 1, base + 1000] + [base + 3 + r.below(r.choice([30, 1000]) if multi else 1000) for _ in range(na)]
        b = [base + 2, base + 999] + [base + 3 + r.below(r.choice([30, 1000]) if multi else 1000) for _ in range(nb)]
    elif kind <= 6:     # a entirely before b (strictly), fast path in one of the two directions
        a = [base + r.below(400) for _ in range(na + 1)]; b = [base + 500 + r.below(400) for _ in range(nb + 1)]
    elif kind == 7:     # equivalent boundary key
        a = [base + r.below(400) for _ in range(na)] + [base + 400]; b = [base + 400] + [base + 400 + r.below(400) for _ in range(nb)]
    elif kind == 8: a = []; b = [base + r.below(900) for _ in range(nb + 1)]
    else: b = []; a = [base + r.below(900) for _ in range(na + 1)]
    if r.chance(1, 2): a, b = b, a
    ops = ['i%d' % k for k in a] + ['bi%d' % k for k in b]
    r.shuffle(ops)
    ops += ['s', 'bs', r.choice(['u', 'v', 'bu', 'bv']), 't', 'bt', 's', 'bs']
    for _ in range(r.below(14)):
        k = base + r.below(1100)
        ops.append(r.choice(['i%d' % k, 'bi%d' % k, 'r%d' % r.below(60), 'br%d' % r.below(60), 'q%d' % k, 'bq%d' % k, 'w',
                             'u', 'bu', 'v', 'bv', 's', 'bs']))
    ops += ['t', 'bt', 's', 'bs']
    return head(cid) + ' ' + ' '.join(ops)

def gen_cases(ctx, scale, modelled_only):
    r = ctx.rng
    cases = []
    for cid in sorted(CONFIGS):
        mc = CONFIGS[cid][0]
        for _ in range((6 if mc <= 8 else 2) * scale):
            cases.append(gen_separator_history(r, cid))
        n = (30 if mc <= 8 else 10) * scale
        for _ in range(n):
            nops = r.choice([20, 40, 80, 160]) if mc <= 8 else r.choice([60, 120])
            cases.append(gen_history(r, cid, nops, modelled_only))
        if modelled_only:
            for _ in range((10 if mc <= 8 else 4) * scale):
                cases.append(gen_merge_modelled(r, cid))
        if not modelled_only:
            for _ in range(15 * scale):
                cases.append(gen_merge_history(r, cid))
    return cases

def split_by_tu(cases):
    groups = {}
    for i, c in enumerate(cases):
        groups.setdefault(int(c.split()[0]) // 8, []).append(i)
    return groups

def run_exe(exe, inp_path, timeout):
    """run one harness executable on a case file; bytes in/out (a corrupted run may print anything), a hang is a timeout"""
    import subprocess
    env = dict(os.environ); env.setdefault('ASAN_OPTIONS', 'detect_leaks=1:abort_on_error=0')
    try:
        r = subprocess.run([exe], stdin=open(inp_path, 'rb'), capture_output=True, timeout=timeout, env=env)
        rc, o, e = r.returncode, r.stdout, r.stderr
    except subprocess.TimeoutExpired as ex:
        rc, o, e = 124, ex.stdout or b'', (ex.stderr or b'') + b' TIMEOUT (hang) after %ds' % timeout
    lines = o.decode('utf8', 'replace').split('\n')
    if lines and lines[-1] == '': lines.pop()
    elif rc != 0 and lines: lines.pop()          # an incomplete last line belongs to the crashed case
    return rc, lines, e.decode('utf8', 'replace')

def run_impl(ctx, harn, cases, name):
    """run the real code: each case goes to the harness executable that holds its configuration.
    A crash (assert, segfault on poisoned freed memory, sanitizer report) is attributed to the case being run and the
    rest of the batch is re-run after it."""
    out = [None] * len(cases); err = ''
    for tu, idxs in split_by_tu(cases).items():
        todo = list(idxs); rounds = 0
        while todo and rounds < 40:
            rounds += 1
            path = os.path.join(ctx.build, '%s.tu%d.cases' % (name, tu))
            open(path, 'w').write('\n'.join(cases[i] for i in todo) + '\n')
            rc, lines, e = run_exe(harn[tu], path, 150 if ctx.quick() else 900)
            n = min(len(lines), len(todo))
            for j in range(n):
                out[todo[j]] = lines[j]
            if rc == 0 and n == len(todo):
                todo = []
            else:
                if n < len(todo):
                    out[todo[n]] = '<missing: harness crashed with exit %d: %s>' % (rc, ' '.join(e.strip().split())[-400:])
                    err += 'harness tu%d crashed (exit %d) on case: %s\n' % (tu, rc, cases[todo[n]][:160])
                    todo = todo[n + 1:]
                else:
                    err += 'harness tu%d exit %d: %s\n' % (tu, rc, e[-300:]); todo = []
        for i in todo:
            out[i] = '<missing: not run>'
    return out, err

def first_diff(case, a, b):
    ops = case.split()[6:]; ta = a.split(' '); tb = b.split(' ')
    # oracle '!' tokens are extra tokens on the implementation side; drop them for alignment
    ta = [x for x in ta if not x.startswith('!')]
    for i in range(max(len(ta), len(tb))):
        x = ta[i] if i < len(ta) else '<none>'; y = tb[i] if i < len(tb) else '<none>'
        if x != y:
            return i, (ops[i] if i < len(ops) else '?'), x, y
    return None

def shrink(ctx, case, still_fails):
    """ddmin-lite on the op list (keeps the header)"""
    w = case.split(); hd, ops = w[:6], w[6:]
    chunk = max(1, len(ops) // 2); budget = 250
    while chunk >= 1 and budget > 0:
        i = 0; progressed = False
        while i < len(ops) and budget > 0:
            cand = ops[:i] + ops[i + chunk:]
            budget -= 1
            if cand and still_fails(' '.join(hd + cand)):
                ops = cand; progressed = True
            else:
                i += chunk
        if not progressed or chunk == 1:
            if chunk == 1: break
        chunk = max(1, chunk // 2) if chunk > 1 else 0
        if chunk == 0: break
    return ' '.join(hd + ops)

def impl_fails(ctx, harn):
    def f(case):
        out, err = run_impl(ctx, harn, [case], 'shrink')
        return any(t.startswith('!') or t.startswith('<missing') for t in out[0].split(' '))
    return f

def corr_fails(ctx, harn):
    def f(case):
        out, err = run_impl(ctx, harn, [case], 'shrink')
        path = os.path.join(ctx.build, 'shrink.model.cases'); open(path, 'w').write(case + '\n')
        rc, lines, e = ctx.run_lines([ctx.model_exe], path)
        a = ' '.join(x for x in out[0].split(' ') if not x.startswith('!'))
        return not lines or a != lines[0]
    return f

def build_harness(ctx):
    """4 TUs of 8 configurations each.  A TU is rebuilt only when harness.cpp, the flags or any momo header changed
    (content hash), so an unchanged tree does not pay the compile time again."""
    import hashlib, glob
    h = hashlib.sha256()
    for f in [os.path.join(ctx.pdir, 'harness.cpp'), os.path.join(ctx.root, 'harness', 'private_access.h')] + \
            sorted(glob.glob(os.path.join(ctx.repo, 'include', 'momo', '*.h')) + glob.glob(os.path.join(ctx.repo, 'include', 'momo', 'details', '*.h'))):
        h.update(f.encode()); h.update(open(f, 'rb').read())
    h.update(ctx.tier.encode())
    stamp = h.hexdigest()
    spath = os.path.join(ctx.build, 'harness.stamp')
    suffix = '' if ctx.quick() else '.san'
    exes = {k: os.path.join(ctx.build, 'harness%d%s' % (k, suffix)) for k in range(NTU)}
    if os.path.exists(spath) and open(spath).read() == stamp and all(os.path.exists(e) for e in exes.values()):
        ctx.stage('build-harness', True)
        return exes
    if os.path.exists(spath): os.remove(spath)
    res = ctx.cxx_many([('harness.cpp', 'harness%d' % k, ['-DCFGSET=%d' % k]) for k in range(NTU)])
    harn = {k: res.get('harness%d' % k) for k in range(NTU)}
    if any(v is None for v in harn.values()):
        ctx.stage('build-harness', False, getattr(ctx, 'last_cxx_error', ''))
        return None
    open(spath, 'w').write(stamp)
    ctx.stage('build-harness', True)
    return harn

def replay(ctx, rp):
    harn = build_harness(ctx)
    if harn is None:
        print('harness does not build'); return 2
    case = rp.get('case')
    if not case:
        print('replay has no concrete case (no-failing-input-found): broken stages were', list(rp.get('broken', {}).keys())); return 1
    out, err = run_impl(ctx, harn, [case], 'replay')
    print('case:', case, '\nimplementation:', out[0], err)
    bad = '!' in out[0] or out[0].startswith('<missing')
    if rp.get('model') and not bad:
        # a correspondence violation: re-run the model as well
        ctx.regen(GEN); ctx.prove()
        if ctx.stages.get('prove', {}).get('ok') and ctx.extract():
            path = os.path.join(ctx.build, 'replay.model.cases'); open(path, 'w').write(case + '\n')
            rc, lines, e = ctx.run_lines([ctx.model_exe], path)
            print('model:         ', lines[0] if lines else e)
            bad = not lines or lines[0] != out[0]
    if bad:
        print('VIOLATION property=C02 replay=%s' % ctx.replay); return 1
    print('property holds on this case'); return 0

def run(ctx):
    scale = 1 if ctx.quick() else 8
    ctx.trusted += ['tools/cxx2coq.py + clang 14 JSON AST for GetSplitItemIndex / GetCapacity / pvGetLeafMemPoolIndex (validated through the shape correspondence)',
                    'extraction: ExtrOcamlBasic only (no Extract Constant; Extraction Blacklist for module names), OCaml 4.13.1, zarith for decimal I/O only',
                    'g++ 12 -std=c++17, harness reaches private members via #define private public',
                    'the hand-written model coq/BTreeModel.v is tied to TreeSet.h by differential execution only (T-cor), on the listed configurations']
    ctx.assumptions += ['keys are totally ordered by < (TreeTraits::IsLess is a strict weak order); the model uses Z',
                        'parent pointers and the indexed (non-continuous) item permutation are abstracted (paths / item lists); item relocation, exceptions and memory are not modelled (C03/C04)',
                        '1 <= maxCapacity <= 255 (static assert of the source)']
    ctx.regen(GEN)
    ctx.prove()
    harn = build_harness(ctx)
    if harn is None:
        return ctx.finish(rule=RULE)
    have_model = ctx.stages.get('prove', {}).get('ok') and ctx.extract()
    if have_model:
        cases = gen_cases(ctx, scale, True)
        impl, err = run_impl(ctx, harn, cases, 'corr')
        path = os.path.join(ctx.build, 'corr.model.cases'); open(path, 'w').write('\n'.join(cases) + '\n')
        rc, model, e2 = ctx.run_lines([ctx.model_exe], path, timeout=1500)
        mism = []
        for i, c in enumerate(cases):
            a = ' '.join(x for x in impl[i].split(' ') if not x.startswith('!'))
            b = model[i] if i < len(model) else '<missing>'
            if a != b: mism.append((i, c, impl[i], b))
            else: ctx.traces_validated += 1
            if 'N' in a: ctx.nontrivial.add(c)
        ctx.evaluations += len(cases)
        ok = not mism and not err and rc == 0
        det = err + (e2[-500:] if rc != 0 else '')
        if mism:
            d = first_diff(mism[0][1], mism[0][2], mism[0][3])
            det += 'first disagreement: %d cases; case %r op#%s impl=%r model=%r' % (len(mism), mism[0][1][:200], d and d[0], d and d[2][:120], d and d[3][:120])
        ctx.stage('corr:model-vs-treeset', ok, det)
        ctx.tie_obligations.append({'name': 'extracted BTreeModel == real TreeSet/TreeMap on %d histories x 32 configurations (iterator indexes, bounds, traversals, shape)' % len(cases), 'ok': ok})
        for (i, c, a, b) in mism[:2]:
            small = shrink(ctx, c, corr_fails(ctx, harn))
            out1, _ = run_impl(ctx, harn, [small], 'shrink')
            ctx.violation('model and implementation disagree', {'case': small, 'impl': out1[0][:2000], 'model': True, 'original_case': c[:3000],
                          'cmd': 'echo "<case>" | build/C02/harness%d   and   | build/C02/model_driver' % (int(c.split()[0]) // 8)}, found_input=True)
        ops_hist = {}
        for c in cases:
            for o in c.split()[6:]:
                ops_hist[o[0]] = ops_hist.get(o[0], 0) + 1
        ctx.coverage['corr_op_histogram'] = ops_hist
    # the property's own oracle on the real code (always; bigger when a stage broke = search stage)
    oscale = scale
    if any(not s['ok'] for s in ctx.stages.values()):
        ctx.log('a stage broke: searching the implementation for a failing input with the thorough generator')
        oscale = max(scale, 6)
    ocases = gen_cases(ctx, oscale, False)
    oimpl, oerr = run_impl(ctx, harn, ocases, 'oracle')
    ctx.evaluations += len(ocases)
    def viol(o):
        return [t for t in o.split(' ') if t.startswith('!') or t.startswith('<missing') or '?' in t]
    bad = [(c, o) for c, o in zip(ocases, oimpl) if viol(o)]
    ctx.stage('oracle', not bad and not oerr, (oerr + ('%d failing histories; first: %s -> %s' % (len(bad), bad[0][0][:200], viol(bad[0][1])[:3]) if bad else '')))
    for (c, o) in bad[:2]:
        small = shrink(ctx, c, impl_fails(ctx, harn))
        out1, _ = run_impl(ctx, harn, [small], 'shrink')
        ctx.violation('the real container differs from the stable sorted reference sequence (or leaks / breaks its node structure): %s' %
                      [t for t in out1[0].split(' ') if t.startswith('!') or t.startswith('<')][:3],
                      {'case': small, 'impl_output': out1[0][:2000], 'original_case': c[:3000],
                       'cmd': 'echo "<case>" | build/C02/harness%d' % (int(c.split()[0]) // 8)}, found_input=True)
    for c in (ocases[::max(1, len(ocases) // 5)])[:5]:
        ctx.add_sample(c[:400])
    ohist = {}
    for c in ocases:
        for o in c.split()[6:]:
            key = o[:2] if o[0] == 'b' else o[0]
            ohist[key] = ohist.get(key, 0) + 1
    ctx.coverage['oracle_op_histogram'] = ohist
    ctx.coverage['configurations'] = {str(k): dict(zip(('maxCapacity', 'capacityStep', 'blockCount', 'linear', 'multi', 'key', 'map'), v)) for k, v in CONFIGS.items()}
    return ctx.finish(rule=RULE)

RULE = ('cases = op histories (insert ascending/descending/clustered/random, hinted add with right and wrong hints, remove by '
        'iterator/key/range/predicate, drain-a-subtree-then-remove-its-separator, extract+insert, ResetKey, copy/move/swap, '
        'MergeFrom/MergeTo incl. the fast concatenation path, merge-then-free) over 32 configurations of TreeSet/TreeMap x unique/multi x '
        'TreeNode<1..255, step 0/1/2/100, blockCount 1/8, continuous or indexed> x linear/binary search x int/std::string/heap-owning keys; '
        'distinct = distinct history line; non-trivial = the history built a tree with at least one internal node (a split happened)')
