#!/bin/bash
cd /verif
runpatch() { d=$(mktemp -d); cp -r /repo/include $d/; cp evidence/C12.json $d/ev_keep.json 2>/dev/null; ls replays > $d/replays_before.txt 2>/dev/null; (cd $d && patch -p1 -s < $2) || echo PATCHFAIL; echo "=== $1"; VERIF_REPO=$d timeout 3000 ./check C12 > build/C12/mut_$1.log 2>&1; echo "exit=$?"; grep -E "BROKEN|VIOLATION|done:" build/C12/mut_$1.log | cut -c1-230; cp $d/ev_keep.json evidence/C12.json 2>/dev/null; for r in $(ls replays | grep '^C12-'); do grep -qx "$r" $d/replays_before.txt || rm -f replays/$r; done; rm -rf $d; }
run() {
  d=$(mktemp -d); cp -r /repo/include $d/
  cp evidence/C12.json $d/ev_keep.json 2>/dev/null; ls replays > $d/replays_before.txt 2>/dev/null   # a mutant run must not leave evidence / replays behind
  python3 - "$d/include/momo/$2" "$3" "$4" <<'PY'
import sys
p,old,new=sys.argv[1:4]
s=open(p).read()
assert s.count(old)==1,(s.count(old))
open(p,'w').write(s.replace(old,new))
PY
  echo "=== $1"; VERIF_REPO=$d timeout 3000 ./check C12 > build/C12/mut_$1.log 2>&1; echo "exit=$?"
  grep -E "BROKEN|VIOLATION|done:" build/C12/mut_$1.log | cut -c1-230
  cp $d/ev_keep.json evidence/C12.json 2>/dev/null; for r in $(ls replays | grep '^C12-'); do grep -qx "$r" $d/replays_before.txt || rm -f replays/$r; done
  rm -rf $d
}
runpatch seed2a /tmp/seed-out2/C12/a/patch.diff
runpatch seed2b /tmp/seed-out2/C12/b/patch.diff
run G4 details/HashBucketLimP4.h "			for (size_t i = 0; i < maxCount; ++i)
			{
				if (mShortHashes[i] == shortHash)" "			for (size_t i = 1; i < maxCount; ++i)
			{
				if (mShortHashes[i] == shortHash)"
run G5 details/HashBucketOne.h "			if (mHashState != pvGetHashState(hashCode))
				return nullptr;" "			if (mHashState == HashState{0})
				return nullptr;"
python3 /verif/props/C12/regen_clean.py   # leave the clean translation in the shared coq directory
