(* C17: the GENERATED pvFindOther (Gen_FindOther.v: assert + comparer lambda + the generated searches) returns what the hand
   model's pvFindOther returns; this discharges the premise of C17_gen_findnext_refines_model. *)
From Coq Require Import ZArith Bool List Lia.
From MomoCommon Require Import GenPrelude.
From C17 Require Import SorterSearch Search_Proofs Gen_Searches Searches_Refine SearchGlue Gen_FindOther Gen_FindNext FindNext_Refine.
Local Open Scope Z_scope.

Lemma bs_from_eq_F cmp lft m : bs_from cmp lft m = (r <- bs_loop log_fuel (fun k => cmp (lft + k)) 0 m ;; Ok (lft + fst r, snd r)).
Proof. reflexivity. Qed.
Lemma es_eq_F cmp n : SorterSearch.pvExponentialSearch cmp n = es_loop log_fuel cmp n 0 0.
Proof. reflexivity. Qed.

Lemma bs_nonneg cmp : forall f l r k b, 0 <= l -> bs_loop f cmp l r = Ok (k, b) -> 0 <= k.
Proof.
  induction f as [|f IH]; intros l r k b Hl H; [simpl in H; discriminate|]. rewrite bs_loop_eq in H.
  destruct (l <? r); [|assert (HkE : (k, b) = (l, false)) by congruence; injection HkE as -> _; lia]. cbv zeta in H.
  assert (Hm : 0 <= wrapU 64 (l + r) / 2) by (apply Z.div_pos; [apply wrapU_range|]; lia).
  destruct (cmp (wrapU 64 (l + r) / 2)) as [c| | |]; try discriminate. cbn [bind] in H.
  destruct (c <? 0); [apply (IH (wrapU 64 (l + r) / 2 + 1) r k b); [lia|exact H]|]. destruct (0 <? c); [apply (IH _ _ _ _ Hl H)|assert (HkE : (k, b) = (wrapU 64 (l + r) / 2, true)) by congruence; injection HkE as -> _; lia].
Qed.

Lemma bs_from_nonneg cmp lft m k b : 0 <= lft -> bs_from cmp lft m = Ok (k, b) -> 0 <= k.
Proof.
  rewrite bs_from_eq_F. intros Hl H.
  destruct (bs_loop log_fuel (fun k0 => cmp (lft + k0)) 0 m) as [[k0 b0]| | |] eqn:E; try discriminate. cbn [bind fst snd] in H.
  assert (HkE : (k, b) = (lft + k0, b0)) by congruence. injection HkE as -> _. pose proof (bs_nonneg _ _ _ _ _ _ (Z.le_refl 0) E). lia.
Qed.

Lemma es_nonneg cmp n : forall f lft i k b, 0 <= lft -> 0 <= i -> es_loop f cmp n lft i = Ok (k, b) -> 0 <= k.
Proof.
  induction f as [|f IH]; intros lft i k b Hl Hi H; [simpl in H; discriminate|]. rewrite es_loop_eq in H.
  destruct (i <? n); [|apply (bs_from_nonneg _ _ _ _ _ Hl H)].
  destruct (cmp i) as [c| | |]; try discriminate. cbn [bind] in H.
  destruct (0 <? c); [apply (bs_from_nonneg _ _ _ _ _ Hl H)|]. destruct (c =? 0); [assert (HkE : (k, b) = (i, true)) by congruence; injection HkE as -> _; lia|].
  apply (IH (i + 1) (wrapU 64 (i * 2 + 2)) k b); [lia|apply wrapU_range; lia|exact H].
Qed.

Section GlueRefine.
  Variable cmpO : Z -> outcome Z.
  Variable c : Z -> Z.
  Hypothesis Hagree : forall i v, cmpO i = Ok v -> v = c i.

  Lemma gen_bs_eq F lft m r : bs_loop F (fun k => cmpO (lft + k)) 0 m = Ok r -> gen_bs c F lft m = (lft + fst r, snd r).
  Proof.
    intros H. assert (Hag : forall i v, (fun k => cmpO (lft + k)) i = Ok v -> v = (fun k => c (lft + k)) i) by (intros i v; apply Hagree).
    destruct (gen_bs_simulates _ _ Hag 0 F 0 m r H) as (code & st & G1 & G2). unfold gen_bs. rewrite G1.
    destruct st as [l r0]. destruct code; cbn [bs_result] in G2; subst r; reflexivity.
  Qed.

  Lemma gen_bs_from_eq lft m r : bs_from cmpO lft m = Ok r -> gen_bs c log_fuel lft m = r.
  Proof.
    rewrite bs_from_eq_F. intros Hb.
    destruct (bs_loop log_fuel (fun k => cmpO (lft + k)) 0 m) as [r0| | |] eqn:E; try discriminate. cbn [bind] in Hb.
    rewrite (gen_bs_eq log_fuel lft m r0 E). inversion Hb. reflexivity.
  Qed.

  Lemma es_cont_cases n code i lft r : es_continuation cmpO n code (i, lft) = Ok r ->
    (code = Some 1 /\ r = (i, true)) \/ (code = Some 2 /\ bs_from cmpO lft (i - lft) = Ok r) \/ (code = None /\ bs_from cmpO lft (n - lft) = Ok r).
  Proof.
    unfold es_continuation. destruct code as [code|]; [|intros H; right; right; split; [reflexivity|exact H]].
    destruct (Z.eq_dec code 1) as [->|N1]; [intros H; left; split; [reflexivity|inversion H; reflexivity]|].
    destruct (Z.eq_dec code 2) as [->|N2]; [intros H; right; left; split; [reflexivity|exact H]|].
    intros H. exfalso. destruct code as [|q|q]; [discriminate H| |discriminate H].
    destruct q as [q|q|]; [destruct q; discriminate H|destruct q; try lia; discriminate H|lia].
  Qed.

  Lemma gen_es_eq n r : n < 2 ^ 64 -> es_loop log_fuel cmpO n 0 0 = Ok r -> gen_es c log_fuel n = r.
  Proof.
    intros Hn H. destruct (gen_es_simulates _ _ Hagree 0 n Hn log_fuel 0 0 r (Z.le_refl 0) H) as (code & st & G1 & G2).
    unfold gen_es. rewrite G1. destruct st as [i lft].
    destruct (es_cont_cases n code i lft r G2) as [[-> ->]|[[-> Hb]|[-> Hb]]].
    - reflexivity.
    - change (2 =? 1) with false. cbv iota. apply (gen_bs_from_eq lft (i - lft) r Hb).
    - apply (gen_bs_from_eq lft (n - lft) r Hb).
  Qed.
End GlueRefine.

Lemma eq_ii_val count item eqf a b e : SorterSearch.eq_ii count item eqf a b = Ok e -> e = eqf (item a) (item b).
Proof.
  unfold SorterSearch.eq_ii, SorterSearch.rdi. destruct (inb count a); [|discriminate]. cbn [bind].
  destruct (inb count b); [|discriminate]. cbn [bind]. intros X. injection X as <-. reflexivity.
Qed.

Section FindOtherRefine.
  Variable count : Z.
  Variable item : Z -> Z.
  Variable eqf : Z -> Z -> bool.

  (* the generated pvFindOther at position p with n items returns the position p + o the hand model computes on the view p + k *)
  Theorem gen_findother_refines (v : Z -> Z) p n o : (forall k, v k = p + k) -> 0 < n < 2 ^ 62 ->
    SorterSearch.pvFindOther count item eqf v n = Ok o ->
    Gen_FindOther.pvFindOther eqf log_fuel item p n = Ok (p + o) /\ 1 <= o.
  Proof.
    intros Hv Hn H. unfold SorterSearch.pvFindOther in H. destruct (Z.ltb_spec 0 n); [|lia].
    set (cmpO := fun i => e <- SorterSearch.eq_ii count item eqf (v 0) (v (1 + i)) ;; Ok (if e : bool then -1 else 1)) in H.
    destruct (SorterSearch.pvExponentialSearch cmpO (n - 1)) as [r| | |] eqn:E; try discriminate. change (Ok (1 + fst r) = Ok o) in H. assert (Ho : o = 1 + fst r) by congruence. clear H. subst o.
    assert (Hag : forall i v, cmpO i = Ok v -> v = findOther_cmp eqf item p (p + 1 + i)).
    { intros i w. unfold cmpO. cbv beta.
      destruct (SorterSearch.eq_ii count item eqf (v 0) (v (1 + i))) as [e| | |] eqn:Ee; try discriminate. cbn [bind].
      intros X. injection X as <-. rewrite (eq_ii_val _ _ _ _ _ _ Ee). rewrite !Hv. unfold findOther_cmp.
      rewrite Z.add_0_r. replace (p + (1 + i)) with (p + 1 + i) by lia. reflexivity. }
    rewrite es_eq_F in E.
    pose proof (gen_es_eq cmpO _ Hag (n - 1) r ltac:(lia) E) as G.
    destruct r as [k b]. pose proof (es_nonneg cmpO (n - 1) log_fuel 0 0 k b (Z.le_refl 0) (Z.le_refl 0) E) as Hk.
    unfold Gen_FindOther.pvFindOther. destruct (Z.gtb_spec n 0); [|lia]. cbv zeta.
    rewrite (wrapU_small 64 (n - 1)) by lia. unfold es_iterator. rewrite G. change (fst (k, b)) with k. split; [replace (p + 1 + k) with (p + (1 + k)) by lia; reflexivity|lia].
  Qed.
End FindOtherRefine.

(* pvFindNext with the GENERATED pvFindOther plugged in: no premise about pvFindOther is left *)
Definition gen_other (eqf : Z -> Z -> bool) (item : Z -> Z) (p n : Z) : Z :=
  match Gen_FindOther.pvFindOther eqf log_fuel item p n with Ok x => x | _ => p end.

Theorem gen_findnext_closed count hash item eqf qh qx idx cnt : 0 <= idx -> cnt < 2 ^ 62 ->
  forall f rel r b, 0 <= rel ->
    SorterSearch.fn_loop count hash item eqf qh qx f (fwd idx) cnt rel = Ok (r, b) ->
    exists code, pvFindNext_loop0 eqf (gen_other eqf item) f idx cnt hash qx qh item (idx + rel) = Ok (code, idx + r) /\
      b = (match code with Some _ => true | None => false end) /\ rel < r.
Proof.
  intros Hidx Hcnt. apply (gen_findnext_simulates count hash item eqf qh qx idx cnt Hcnt (gen_other eqf item)).
  intros rel o Hrel Ho.
  assert (Hpos : 0 < cnt - rel) by (unfold SorterSearch.pvFindOther in Ho; destruct (Z.ltb_spec 0 (cnt - rel)); [lia|discriminate]).
  destruct (gen_findother_refines count item eqf (fun k => fwd idx (rel + k)) (idx + rel) (cnt - rel) o
              ltac:(intros k; unfold fwd; lia) ltac:(lia) Ho) as [G1 G2].
  unfold gen_other. rewrite G1. split; [reflexivity|exact G2].
Qed.
