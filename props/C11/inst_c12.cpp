// COPIED from props/C12 (C11 uses the LimP4 / One bucket translations and proofs of C12 for its IsFull / WasFull tie)
// instantiation TU for cxx2coq (C12): hash-bit packing / reconstruction of the buckets that store hash parts
#include "momo/HashSet.h"
#include "momo/details/HashBucketOpen2N2.h"
#include "momo/details/HashBucketLimP4.h"
#include "momo/details/HashBucketOne.h"
namespace momo { namespace internal {
typedef HashSetItemTraits<uint64_t, MemManagerDefault> C12IT;
typedef BucketOpen2N2<C12IT, 3, true> C12O2;
typedef BucketLimP4<C12IT, 4, MemPoolParams<>, true> C12P4;
typedef BucketOne<C12IT, 1> C12One;
template class BucketOpen2N2<C12IT, 3, true>;
template class BucketLimP4<C12IT, 4, MemPoolParams<>, true>;
template class BucketOne<C12IT, 1>;
// the three pointer-state packings (32 / 48 / 64 useful pointer bits -> hashCount 8 / 6 / 4)
template class BucketLimP4PtrState<uint64_t, 3, 32>;
template class BucketLimP4PtrState<uint64_t, 3, 48>;
template class BucketLimP4PtrState<uint64_t, 3, 64>;
struct C12Getter { size_t operator()() const { return 0; } };
struct C12Creator { void operator()(uint64_t*) const {} };
struct C12Replacer { void operator()(uint64_t&, uint64_t&) const {} };
struct C12Pred { bool operator()(const uint64_t&) const { return true; } };
// one use of every member template so that clang instantiates the bodies
inline void c12_use(C12O2& a, C12O2::Params& pa, C12P4& b, C12P4::Params& pb, C12One& c, C12One::Params& pc)
{
	C12Getter g; C12Creator cr; C12Replacer rp; C12Pred pr;
	a.template Find<true>(pa, pr, 0); b.template Find<true>(pb, pr, 0); c.template Find<true>(pc, pr, 0);
	auto ia = a.AddCrt(pa, cr, 0, 0, 0); a.GetHashCodePart(g, ia, 0, 0, 0); a.Remove(pa, ia, rp);
	auto ib = b.AddCrt(pb, cr, 0, 0, 0); b.GetHashCodePart(g, ib, 0, 0, 0); b.Remove(pb, ib, rp);
	auto ic = c.AddCrt(pc, cr, 0, 0, 0); c.GetHashCodePart(g, ic, 0, 0, 0); c.Remove(pc, ic, rp);
}
}}
