(* C15 -- Array with index iterators (usePtrIterator = false; external or internal capacity) and SegmentedArray,
   checkMode = exception.  Arrays keep NO version: an index iterator is (pointer to its array, index) and is
   "invalidated" exactly when its index is not below the CURRENT count; every other misuse is an out-of-range index,
   arithmetic leaving [0, count], or mixing iterators of different arrays (ArrayUtility.h ArrayIndexIterator,
   ArrayShifter; Array.h / SegmentedArray.h operator[], RemoveBack).
   Indices are Z; all arguments are assumed in [0, 2^62) (no size_t wrap-around, see NOTES). *)
From Coq Require Import ZArith List Bool Lia.
Import ListNotations.
Local Open Scope Z_scope.

Record ahandle := mkAH { aid : option nat; aidx : Z }.       (* aid: Some 0 = this array, Some 1 = another array, None = default *)
Record astate := mkAS { items : list Z; ahs : nat -> ahandle }.
Inductive aout := AAcc (v : option Z) | ARej | AExn.     (* AExn: an exception other than invalid_argument (length error / bad_alloc), nothing changed *)

Definition cnt (s : astate) : Z := Z.of_nat (length (items s)).
Definition aset (s : astate) (i : nat) (h : ahandle) : astate :=
  mkAS (items s) (fun j => if Nat.eqb j i then h else ahs s j).
Definition nthz (l : list Z) (i : Z) : Z := nth (Z.to_nat i) l 0.
Definition insert_at (l : list Z) (i : Z) (v : Z) : list Z := firstn (Z.to_nat i) l ++ v :: skipn (Z.to_nat i) l.
Definition remove_at (l : list Z) (i n : Z) : list Z := firstn (Z.to_nat i) l ++ skipn (Z.to_nat (i + n)) l.

Inductive aop :=
| ABegin (slot : nat) | AEnd (slot : nat) | ADefault (slot : nat) | AForeign (slot : nat)
| AAdvance (slot : nat) (d : Z)          (* it += d *)
| ADeref (slot : nat)                    (* *it / it-> *)
| ADiff (s1 s2 : nat)                    (* it1 - it2 *)
| ALess (s1 s2 : nat)                    (* it1 < it2 *)
| AIndex (i : Z)                         (* a[i] *)
| ABack                                  (* GetBackItem() *)
| AAddBack (v : Z)
| ARemoveBack (n : Z)
| AInsert (i v : Z)
| AInsertN (i n v : Z)                   (* Insert(index, count, item) *)
| ARemove (i n : Z)
| AClear
| ASetCount (n : Z).

Definition same_arr (a b : option nat) : bool :=
  match a, b with Some x, Some y => Nat.eqb x y | None, None => true | _, _ => false end.

Definition astep (s : astate) (o : aop) : astate * aout :=
  match o with
  | ABegin slot => (aset s slot (mkAH (Some 0%nat) 0), AAcc None)
  | AEnd slot => (aset s slot (mkAH (Some 0%nat) (cnt s)), AAcc None)
  | ADefault slot => (aset s slot (mkAH None 0), AAcc None)
  | AForeign slot => (aset s slot (mkAH (Some 1%nat) 0), AAcc None)
  | AAdvance slot d =>
    let h := ahs s slot in
    (* MOMO_CHECK((mArray != nullptr) ? newIndex <= mArray->GetCount() : diff == 0); newIndex is a size_t *)
    match aid h with
    | None => if d =? 0 then (s, AAcc None) else (s, ARej)
    | Some a => let c := match a with O => cnt s | _ => 1 end in
                if (0 <=? aidx h + d) && (aidx h + d <=? c) then (aset s slot (mkAH (aid h) (aidx h + d)), AAcc None) else (s, ARej)
    end
  | ADeref slot =>
    let h := ahs s slot in
    (* MOMO_CHECK(mArray != nullptr && mIndex < mArray->GetCount())  (SegmentedArray: through operator[]) *)
    match aid h with
    | Some O => if (0 <=? aidx h) && (aidx h <? cnt s) then (s, AAcc (Some (nthz (items s) (aidx h)))) else (s, ARej)
    | Some _ => (s, AAcc None)     (* an iterator of the other array, used on its own: not this array's business *)
    | None => (s, ARej)
    end
  | ADiff s1 s2 =>
    if same_arr (aid (ahs s s1)) (aid (ahs s s2)) then (s, AAcc (Some (aidx (ahs s s1) - aidx (ahs s s2)))) else (s, ARej)
  | ALess s1 s2 =>
    if same_arr (aid (ahs s s1)) (aid (ahs s s2)) then (s, AAcc (Some (if aidx (ahs s s1) <? aidx (ahs s s2) then 1 else 0))) else (s, ARej)
  | AIndex i => if (0 <=? i) && (i <? cnt s) then (s, AAcc (Some (nthz (items s) i))) else (s, ARej)
  | ABack => if 0 <? cnt s then (s, AAcc (Some (nthz (items s) (cnt s - 1)))) else (s, ARej)
  | AAddBack v => (mkAS (items s ++ [v]) (ahs s), AAcc None)
  | ARemoveBack n => if (0 <=? n) && (n <=? cnt s) then (mkAS (firstn (Z.to_nat (cnt s - n)) (items s)) (ahs s), AAcc None) else (s, ARej)
  | AInsert i v => if (0 <=? i) && (i <=? cnt s) then (mkAS (insert_at (items s) i v) (ahs s), AAcc None) else (s, ARej)
  | AInsertN i n v =>
    (* count > maxSize - size: std::bad_array_new_length / std::length_error before anything is touched (fix c5d1be1);
       a count that cannot be allocated: std::bad_alloc from the growth, before the index check; counts are either tiny or
       beyond 2^40 in the generated cases *)
    if (n <? 0) || (2 ^ 40 <=? n) then (s, AExn)
    else if (0 <=? i) && (i <=? cnt s) then
      (mkAS (firstn (Z.to_nat i) (items s) ++ repeat v (Z.to_nat n) ++ skipn (Z.to_nat i) (items s)) (ahs s), AAcc None)
    else (s, ARej)
  | ARemove i n => if (0 <=? i) && (0 <=? n) && (i + n <=? cnt s) then (mkAS (remove_at (items s) i n) (ahs s), AAcc None) else (s, ARej)
  | AClear => (mkAS [] (ahs s), AAcc None)
  | ASetCount n => if 0 <=? n then
                     (mkAS (firstn (Z.to_nat n) (items s) ++ repeat 0 (Z.to_nat n - length (items s))) (ahs s), AAcc None)
                   else (s, ARej)
  end.

Definition ainit : astate := mkAS [] (fun _ => mkAH None 0).
Fixpoint arun (s : astate) (ops : list aop) : astate :=
  match ops with [] => s | o :: t => arun (fst (astep s o)) t end.
Fixpoint arun_out (s : astate) (ops : list aop) : astate * list aout :=
  match ops with
  | [] => (s, [])
  | o :: t => let r := astep s o in let r2 := arun_out (fst r) t in (fst r2, snd r :: snd r2)
  end.

(* ------------------------------------------------------------------ proofs *)
Ltac adm :=
  repeat match goal with
         | |- context [match ?x with _ => _ end] => destruct x eqn:?
         | |- context [if ?x then _ else _] => destruct x eqn:?
         end.

Lemma arr_rejected_call_is_identity s o s' : astep s o = (s', ARej) \/ astep s o = (s', AExn) -> s' = s.
Proof. destruct o; cbn [astep]; cbv zeta; adm; intros [H|H]; inversion H; reflexivity. Qed.

(* what "invalidated" means for an index iterator: for EVERY state, whatever happened before, dereferencing is
   accepted exactly when the iterator belongs to this array and its index is below the current count; it then reads
   the element at that index *)
Lemma arr_deref_accepted_iff s slot :
  aid (ahs s slot) = Some 0%nat ->
  (0 <= aidx (ahs s slot) < cnt s -> astep s (ADeref slot) = (s, AAcc (Some (nthz (items s) (aidx (ahs s slot)))))) /\
  (~ (0 <= aidx (ahs s slot) < cnt s) -> astep s (ADeref slot) = (s, ARej)).
Proof.
  intros A. cbn [astep]; cbv zeta. rewrite A. split; intros H.
  - destruct (Z.leb_spec 0 (aidx (ahs s slot))), (Z.ltb_spec (aidx (ahs s slot)) (cnt s)); simpl; try lia. reflexivity.
  - destruct (Z.leb_spec 0 (aidx (ahs s slot))), (Z.ltb_spec (aidx (ahs s slot)) (cnt s)); simpl; try lia; reflexivity.
Qed.

(* history form: no operation other than a re-assignment of the slot changes an iterator, so after ANY history an
   iterator taken at index i is accepted iff i < the count at the time of use (shrinking below i invalidates it,
   growing back re-validates it, insertions in front shift what it reads) *)
Definition awrites (o : aop) (i : nat) : bool :=
  match o with ABegin j | AEnd j | ADefault j | AForeign j | AAdvance j _ => Nat.eqb j i | _ => false end.
Lemma ahs_unwritten s o i : awrites o i = false -> ahs (fst (astep s o)) i = ahs s i.
Proof.
  destruct o; cbn [astep awrites]; cbv zeta; intros W; adm; cbn [fst ahs aset]; try rewrite Nat.eqb_sym, W; reflexivity.
Qed.
Lemma arun_unwritten ops i : forall s, Forall (fun o => awrites o i = false) ops -> ahs (arun s ops) i = ahs s i.
Proof.
  induction ops as [|o t IH]; intros s F; simpl; auto. inversion F; subst. rewrite IH by auto. apply ahs_unwritten; auto.
Qed.
Lemma arr_iterator_valid_iff_index_below_count s slot ops :
  aid (ahs s slot) = Some 0%nat -> Forall (fun o => awrites o slot = false) ops ->
  let s' := arun s ops in let i := aidx (ahs s slot) in
  (0 <= i < cnt s' -> astep s' (ADeref slot) = (s', AAcc (Some (nthz (items s') i)))) /\
  (~ (0 <= i < cnt s') -> astep s' (ADeref slot) = (s', ARej)).
Proof.
  intros A F s' i. pose proof (arun_unwritten ops slot s F) as E. fold s' in E.
  unfold i. rewrite <- E. apply arr_deref_accepted_iff. rewrite E. exact A.
Qed.

(* the end iterator (fix 813fdb2), the default iterator and out-of-range operator[] are rejected *)
Lemma arr_end_deref_rejected s slot : astep (fst (astep s (AEnd slot))) (ADeref slot) = (fst (astep s (AEnd slot)), ARej).
Proof.
  cbn [astep fst]. cbv zeta. cbn [ahs aset]. rewrite Nat.eqb_refl. cbn [aid aidx].
  replace (cnt (aset s slot {| aid := Some 0%nat; aidx := cnt s |})) with (cnt s) by reflexivity.
  rewrite Z.ltb_irrefl, andb_false_r. reflexivity.
Qed.
Lemma arr_default_rejected s slot d :
  aid (ahs s slot) = None -> astep s (ADeref slot) = (s, ARej) /\ (d <> 0 -> astep s (AAdvance slot d) = (s, ARej)).
Proof.
  intros A. cbn [astep]; cbv zeta; rewrite A. split; auto. intros D. destruct (Z.eqb_spec d 0); congruence.
Qed.
Lemma arr_index_out_of_range_rejected s i : ~ (0 <= i < cnt s) -> astep s (AIndex i) = (s, ARej).
Proof. intros H. cbn [astep]. destruct (Z.leb_spec 0 i), (Z.ltb_spec i (cnt s)); simpl; try lia; reflexivity. Qed.

(* iterator arithmetic never leaves [0, count]: invariant of every reachable state for this array's iterators *)
Definition ainv (s : astate) : Prop := forall i, aid (ahs s i) = Some 0%nat -> 0 <= aidx (ahs s i).
Lemma astep_ainv s o : ainv s -> ainv (fst (astep s o)).
Proof.
  intros I. destruct o; cbn [astep]; cbv zeta; adm; cbn [fst]; try exact I;
  intros j; cbn [ahs aset]; destruct (Nat.eqb j _) eqn:E; cbn [aid aidx]; try apply I; intros A; try discriminate; try lia;
  try (unfold cnt; lia);
  try (match goal with H : (_ && _)%bool = true |- _ => apply andb_prop in H; destruct H as [L _]; apply Z.leb_le in L; exact L end).
Qed.
Lemma arr_advance_out_of_range_rejected s slot d :
  aid (ahs s slot) = Some 0%nat -> ~ (0 <= aidx (ahs s slot) + d <= cnt s) -> astep s (AAdvance slot d) = (s, ARej).
Proof.
  intros A H. cbn [astep]; cbv zeta; rewrite A.
  destruct (Z.leb_spec 0 (aidx (ahs s slot) + d)), (Z.leb_spec (aidx (ahs s slot) + d) (cnt s)); simpl; try lia; reflexivity.
Qed.
(* difference / comparison of iterators of different arrays is rejected *)
Lemma arr_foreign_comparison_rejected s s1 s2 :
  aid (ahs s s1) = Some 0%nat -> aid (ahs s s2) <> Some 0%nat ->
  astep s (ADiff s1 s2) = (s, ARej) /\ astep s (ALess s1 s2) = (s, ARej).
Proof.
  intros A B. cbn [astep]. rewrite A. destruct (aid (ahs s s2)) as [[|n]|]; simpl; try congruence; auto.
Qed.
(* Insert / Remove / RemoveBack with an out-of-range index or count are rejected *)
Lemma arr_bad_range_rejected s i n v :
  (~ (0 <= i <= cnt s) -> astep s (AInsert i v) = (s, ARej)) /\
  (~ (0 <= i /\ 0 <= n /\ i + n <= cnt s) -> astep s (ARemove i n) = (s, ARej)) /\
  (~ (0 <= n <= cnt s) -> astep s (ARemoveBack n) = (s, ARej)).
Proof.
  cbn [astep]. repeat split; intros H.
  - destruct (Z.leb_spec 0 i), (Z.leb_spec i (cnt s)); simpl; try lia; reflexivity.
  - destruct (Z.leb_spec 0 i), (Z.leb_spec 0 n), (Z.leb_spec (i + n) (cnt s)); simpl; try lia; reflexivity.
  - destruct (Z.leb_spec 0 n), (Z.leb_spec n (cnt s)); simpl; try lia; reflexivity.
Qed.
