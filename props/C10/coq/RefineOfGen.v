(* C10 -- HAND-WRITTEN (despite being about generated code; only Gen_*.v files are generated): the GENERATED decision logic (cxx2coq) tied to the hand model:
     Gen_StdInsert / Gen_StdInsertU : stdish set / unordered_set insert(const_iterator hint, node_type&&) (set.h:466-473,
                                      unordered_set.h:495-505, as fixed in 9f37105)
     Gen_MergeTo                    : TreeSet::MergeTo(TreeSet&) (TreeSet.h:956-998): identity / traits / empty tests, Swap, the
                                      ordering tests of 103bce4, pvMergeFast, the count*Log2 heuristic, the field hand-over *)
From Coq Require Import ZArith Bool List Lia Arith.
From MomoCommon Require Import GenPrelude.
From C10 Require Import Machine Merge MergeProofs FastMerge.
From C10 Require Gen_StdInsert Gen_StdInsertU Gen_StdInsertN Gen_MergeTo Gen_TreeSwap Gen_ExtraCheckT Gen_ExtraCheckH.
Import ListNotations.
Set Default Timeout 120.   (* robustness: no tactic may run away on a regenerated term *)
Local Open Scope Z_scope.

(* ---------------------------------------------------------------- insert(hint, node&&) *)
Definition decide {A} (empty hint_ok : bool) (k_end k_insert k_add : A) : A :=
  if empty then k_end else if negb hint_ok then k_insert else k_add.

(* the generated wrapper: an empty handle returns end(); a rejected hint hands the extracted item to the NESTED Insert (which
   leaves a refused item in the handle); an accepted hint hands it to the nested Add; the wrapper's own insert(node_type&&) --
   whose insert_return_type would swallow a refused node -- is never called *)
Theorem gen_std_insert_hint_decision it_end nh_empty nh_value nh_item mv_ check_hint_ pos_of ts_insert ts_add mTreeSet mSelf hint node :
  Gen_StdInsert.insert_hint_node it_end nh_empty nh_value nh_item mv_ check_hint_ pos_of ts_insert ts_add mTreeSet mSelf hint node =
  decide (nh_empty node) (check_hint_ hint (nh_value node)) it_end
         (pos_of (ts_insert mTreeSet (mv_ (nh_item node)))) (ts_add mTreeSet hint (mv_ (nh_item node))).
Proof. reflexivity. Qed.

Theorem gen_std_uset_insert_hint_decision it_end nh_empty nh_item mv_ pos_of ts_insert mHashSet mSelf hint node :
  Gen_StdInsertU.insert_hint_node it_end nh_empty nh_item mv_ pos_of ts_insert mHashSet mSelf hint node =
  decide (nh_empty node) false it_end (pos_of (ts_insert mHashSet (mv_ (nh_item node)))) it_end.
Proof. reflexivity. Qed.

(* the hand model takes the same decision with the nested operations interpreted by insert_holder / add_holder *)
Theorem std_insert_hint_is_decide c multi w dst h hint_ok :
  std_insert_hint c multi w dst h hint_ok =
  match h with
  | None => (w, dst, None, Finished)
  | Some x => match step_func w with
              | None => (fail_func w, dst, h, Failed)
              | Some w1 => decide false hint_ok (w1, dst, h, Finished) (insert_holder c multi w1 dst h) (add_holder c w1 dst h)
              end
  end.
Proof. unfold std_insert_hint, decide. destruct h; [|reflexivity]. destruct (step_func w); [|reflexivity]. destruct hint_ok; reflexivity. Qed.

(* ---------------------------------------------------------------- TreeSet::MergeTo(TreeSet&) *)
Definition heur (n m : nat) : Z := if Nat.ltb (n * Nat.log2 (n + m)) (n + m) then 1 else 2.

(* the decision of the hand model: (path, new root) with path 0 = nothing, 1 = pvMergeTo, 2 = pvMergeToLinear, 3 = Swap,
   4 = pvMergeFast; root 21 = pvMergeFast(dst, src), 12 = pvMergeFast(src, dst) *)
Definition hand_dispatch (multi eqm emptytr : bool) (src dst : list item) : Z * Z :=
  if negb emptytr then (1, 0) else
  match src with
  | [] => (0, 0)
  | _ =>
    if eqm then
      match dst with
      | [] => (3, 0)
      | _ => if sets_ordered multi dst src then (4, 21)
             else if Z.ltb (key (last src 0)) (key (hd 0 dst)) then (4, 12)
             else (heur (length src) (length dst), 0)
      end
    else (heur (length src) (length dst), 0)
  end.

Section Inst.
Variables (multi eqm emptytr : bool) (src dst : list item).
Definition i_deref (z : Z) : Z :=
  if z =? 16 then last src 0 else if z =? 22 then hd 0 dst else if z =? 26 then last dst 0 else if z =? 12 then hd 0 src else 0.
Definition i_ordered (a b : Z) : bool := if a =? 2 then sets_ordered multi dst src else sets_ordered multi src dst.
Definition i_count (o : Z) : Z := if o =? 1 then Z.of_nat (length src) else Z.of_nat (length dst).
Definition gen_merge_to :=
  Gen_MergeTo.MergeTo emptytr (fun _ _ => eqm) (fun z => Z.of_nat (Nat.log2 (Z.to_nat z))) i_ordered Z.ltb key (fun z => z + 5)
    (fun a b => a * 10 + b) (fun _ _ => 1) (fun _ _ => 2) (fun _ _ => 4) false (fun _ _ => 3) i_deref (fun z => z)
    i_count (fun z => z) (fun o => o * 10 + 1) (fun o => o * 10 + 2)
    (Z.of_nat (length src)) 7 (Z.of_nat (length dst)) 8 0 1 2 0 0.
End Inst.

Lemma heur_gen n m : Z.of_nat n + Z.of_nat m < 2 ^ 32 ->
  (if Z.ltb (wrapU 64 (Z.of_nat n * Z.of_nat (Nat.log2 (Z.to_nat (wrapU 64 (Z.of_nat n + Z.of_nat m))))))
            (wrapU 64 (Z.of_nat n + Z.of_nat m)) then 1 else 2) = heur n m.
Proof.
  intros B. unfold heur.
  assert (P32 : 2 ^ 32 = 4294967296) by reflexivity. assert (P64 : 2 ^ 64 = 18446744073709551616) by reflexivity.
  rewrite (wrapU_small 64 (Z.of_nat n + Z.of_nat m)) by lia.
  rewrite <- Nat2Z.inj_add, Nat2Z.id.
  assert (L : (Nat.log2 (n + m) <= n + m)%nat) by (apply Nat.log2_le_lin; lia).
  rewrite <- Nat2Z.inj_mul.
  rewrite wrapU_small.
  - destruct (Nat.ltb_spec (n * Nat.log2 (n + m)) (n + m)); destruct (Z.ltb_spec (Z.of_nat (n * Nat.log2 (n + m))) (Z.of_nat (n + m))); try reflexivity; lia.
  - split; [lia|]. rewrite P64, Nat2Z.inj_mul. apply Nat2Z.inj_le in L. rewrite Nat2Z.inj_add in L. nia.
Qed.

(* refinement: for every pair of trees (fewer than 2^32 items together), key policy, manager relation and traits kind the
   GENERATED MergeTo takes the path the hand model takes, joins in the same order, and hands the fields over as the model says:
   fast path -> source count 0 and root null, destination count = the sum, destination root = the joined root;
   every other path leaves the four fields to the callee *)
Theorem gen_merge_to_refines multi eqm emptytr src dst : Z.of_nat (length src) + Z.of_nat (length dst) < 2 ^ 32 ->
  let '(c1, r1, c2, r2, path) := gen_merge_to multi eqm emptytr src dst in
  path = fst (hand_dispatch multi eqm emptytr src dst) /\
  (path = 4 -> c1 = 0 /\ r1 = 0 /\ c2 = Z.of_nat (length dst + length src) /\ r2 = snd (hand_dispatch multi eqm emptytr src dst)) /\
  (path <> 4 -> c1 = Z.of_nat (length src) /\ r1 = 7 /\ c2 = Z.of_nat (length dst) /\ r2 = 8).
Proof.
  intros B. unfold gen_merge_to, Gen_MergeTo.MergeTo, hand_dispatch.
  change (2 ^ 32) with 4294967296 in B.
  assert (P64 : 2 ^ 64 = 18446744073709551616) by reflexivity.
  destruct emptytr; simpl negb; cbv iota; [|repeat split; auto; discriminate].
  unfold i_count. simpl (1 =? 1). simpl (2 =? 1). cbv iota.
  change (1 * 10 + 1 + 5) with 16. change (2 * 10 + 2) with 22.
  destruct src as [|x xs].
  - simpl. repeat split; auto; discriminate.
  - remember (length (x :: xs)) as ls eqn:Els.
    assert (Hls : (0 < ls)%nat) by (subst ls; simpl; lia).
    assert (Hn : (Z.of_nat ls =? 0) = false) by (apply Z.eqb_neq; lia).
    rewrite Hn. cbv iota.
    destruct eqm; cbv beta iota.
    + destruct dst as [|y ys].
      * simpl. repeat split; auto; discriminate.
      * remember (length (y :: ys)) as ld eqn:Eld.
        assert (Hld : (0 < ld)%nat) by (subst ld; simpl; lia).
        assert (Hm : (Z.of_nat ld =? 0) = false) by (apply Z.eqb_neq; lia).
        rewrite Hm. cbv iota.
        assert (Ho : i_ordered multi (x :: xs) (y :: ys) 2 1 = sets_ordered multi (y :: ys) (x :: xs)) by reflexivity. rewrite !Ho.
        destruct (sets_ordered multi (y :: ys) (x :: xs)) eqn:Eo.
        -- simpl. rewrite wrapU_small by lia.
           repeat split; auto; try congruence; try (rewrite Nat2Z.inj_add; lia).
        -- assert (D1 : i_deref (x :: xs) (y :: ys) 16 = last (x :: xs) 0) by reflexivity.
           assert (D2 : i_deref (x :: xs) (y :: ys) 22 = hd 0 (y :: ys)) by reflexivity.
           rewrite !D1, !D2.
           destruct (Z.ltb (key (last (x :: xs) 0)) (key (hd 0 (y :: ys)))) eqn:El.
           ++ simpl. rewrite wrapU_small by lia.
              repeat split; auto; try congruence; try (rewrite Nat2Z.inj_add; lia).
           ++ simpl (negb (0 =? 0)). cbv iota.
              rewrite (heur_gen ls ld B).
              unfold heur. destruct (Nat.ltb _ _); cbn [fst snd]; repeat split; auto; try congruence; discriminate.
    + rewrite (heur_gen ls (length dst) B).
      unfold heur. destruct (Nat.ltb _ _); cbn [fst snd]; repeat split; auto; try congruence; discriminate.
Qed.

(* and the hand model FastMerge.tree_merge_to_eq (empty traits, equal managers) is that decision *)
Theorem tree_merge_to_eq_is_hand_dispatch c multi src dst w shape nalloc swap :
  tree_merge_to_eq c multi src dst w shape nalloc swap =
  match hand_dispatch multi true true src dst with
  | (0, _) => (Finished, src, dst, w)
  | (3, _) => (Finished, [], src, w)
  | (4, 21) => match merge_fast c w dst src nalloc swap with
               | (w', true) => (Finished, [], dst ++ src, w') | (w', false) => (Failed, src, dst, w') end
  | (4, _) => match merge_fast c w src dst nalloc swap with
              | (w', true) => (Finished, [], src ++ dst, w') | (w', false) => (Failed, src, dst, w') end
  | _ => tree_merge_to c multi src dst w shape
  end.
Proof.
  unfold tree_merge_to_eq, hand_dispatch. simpl negb. cbv iota.
  destruct src as [|x xs]; [reflexivity|]. destruct dst as [|y ys]; [reflexivity|].
  destruct (sets_ordered multi (y :: ys) (x :: xs)); [reflexivity|].
  destruct (Z.ltb (key (last (x :: xs) 0)) (key (hd 0 (y :: ys)))); [reflexivity|].
  unfold heur. destruct (Nat.ltb _ _); reflexivity.
Qed.

(* ---------------------------------------------------------------- TreeSet::Swap (generated) and the swap path of MergeTo
   (c7fda03: merging into an EMPTY destination swaps the whole sets -- crew together with count, root and node params; the
   node pools keep a pointer to the memory manager stored in the crew, so swapping the params without the crews dangles) *)
Theorem gen_tree_swap_exchanges_all_four_fields crew cnt root params crew' cnt' root' params' :
  Gen_TreeSwap.Swap crew cnt root params crew' cnt' root' params' = (crew', cnt', root', params', crew, cnt, root, params).
Proof. reflexivity. Qed.

(* on that path the generated MergeTo does nothing but call Swap(dstTreeSet) on the whole objects: it writes none of the four
   fields itself (a member-wise swap inside MergeTo, as before c7fda03, changes the generated function's shape and type) *)
Theorem gen_merge_to_swap_path multi x xs :
  Z.of_nat (length (x :: xs)) < 2 ^ 32 ->
  let '(c1, r1, c2, r2, path) := gen_merge_to multi true true (x :: xs) [] in
  path = 3 /\ c1 = Z.of_nat (length (x :: xs)) /\ r1 = 7 /\ c2 = 0 /\ r2 = 8.
Proof.
  intros B. pose proof (gen_merge_to_refines multi true true (x :: xs) []) as G. simpl length in *. rewrite Z.add_0_r in G. specialize (G B).
  destruct (gen_merge_to multi true true (x :: xs) []) as [[[[c1 r1] c2] r2] path].
  destruct G as (P & _ & N). simpl in P. subst path. destruct (N ltac:(discriminate)) as (A1 & A2 & A3 & A4). auto.
Qed.

(* ---------------------------------------------------------------- pvExtraCheck (generated, HashSet.h:1025-1036, TreeSet.h:1109-1124;
   b307610): the try block wraps ONLY the re-computation of the check; when a user functor (hash / equality / less) throws
   inside it the handler answers "check passed", so the debug-only MOMO_EXTRA_CHECK never turns the exception into an
   assertion failure and the work completed before the check (the inserted item) is left alone *)
Theorem gen_extra_check_tolerates_throwing_functor_hash pos_eqb deref find_ key_ pos :
  Gen_ExtraCheckH.pvExtraCheck true pos_eqb deref find_ key_ pos = true.
Proof. reflexivity. Qed.

Theorem gen_extra_check_tolerates_throwing_functor_tree it_neqb it_begin it_end it_prev it_next is_ordered_ iter :
  Gen_ExtraCheckT.pvExtraCheck true it_neqb it_begin it_end it_prev it_next is_ordered_ iter = true.
Proof. reflexivity. Qed.

(* InsertCrt = pvInsert; MOMO_EXTRA_CHECK(!extraCheck || pvExtraCheck(pos)): Stuck = a failed assertion *)
Definition insert_crt_checked {S} (after_add : S) (check_result : bool) : outcome S := if check_result then Ok after_add else Stuck.

Theorem insert_crt_never_aborts_on_throwing_functor (S : Type) (after_add : S) pos_eqb deref find_ key_ pos :
  @insert_crt_checked S after_add (Gen_ExtraCheckH.pvExtraCheck true pos_eqb deref find_ key_ pos) = Ok after_add.
Proof. reflexivity. Qed.

(* without a throw the generated check is the genuine check *)
Theorem gen_extra_check_is_the_check_hash pos_eqb deref find_ key_ pos :
  Gen_ExtraCheckH.pvExtraCheck false pos_eqb deref find_ key_ pos = pos_eqb pos (find_ (key_ (deref pos))).
Proof. reflexivity. Qed.

(* ---------------------------------------------------------------- stdish set::insert(node_type&&) (generated, set.h:457-464):
   result = { position, inserted, node }.  An empty handle gives { end(), false, empty }; otherwise the extracted item goes to
   the nested Insert and the THIRD component is empty when the item was inserted and the caller's node (moved) when it was
   refused: the handle is never dropped, a refused element travels back to the caller inside the result *)
Theorem gen_std_insert_node_spec it_end nh_empty nh_item mv_ pos_of ts_insert inserted_of mTreeSet mSelf node :
  Gen_StdInsertN.insert_node it_end nh_empty nh_item mv_ pos_of ts_insert inserted_of mTreeSet mSelf node =
  if nh_empty node then (it_end, false, 0)
  else let res := ts_insert mTreeSet (mv_ (nh_item node)) in
       (pos_of res, inserted_of res, if inserted_of res then 0 else mv_ node).
Proof. reflexivity. Qed.

Theorem gen_std_insert_node_refused_comes_back it_end nh_empty nh_item mv_ pos_of ts_insert inserted_of mTreeSet mSelf node :
  nh_empty node = false -> inserted_of (ts_insert mTreeSet (mv_ (nh_item node))) = false ->
  snd (Gen_StdInsertN.insert_node it_end nh_empty nh_item mv_ pos_of ts_insert inserted_of mTreeSet mSelf node) = mv_ node.
Proof. intros E I. rewrite gen_std_insert_node_spec, E. simpl. rewrite I. reflexivity. Qed.
