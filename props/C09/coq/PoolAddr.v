(* C09 (d): the layout theorem combined with the whole-history invariant: after every history, distinct live blocks of the
   concrete model denote disjoint, aligned address ranges inside the manager blocks of buffers that were not returned. *)
From Coq Require Import ZArith List Bool Lia.
From MomoCommon Require Import GenPrelude.
From C09 Require Gen_MemPool PoolLayout PoolArith PoolConc PoolInv.
Import ListNotations.
Local Open Scope Z_scope.

(* the address of block (buffer id, relative index): pvGetBlock(buffer pointer, firstBlockIndex + index), where the buffer
   pointer and first index are what pvNewBuffer computed from the manager address beg(buffer id) *)
Definition addr_of (C B A : Z) (beg : Z -> Z) (bk : PoolConc.blk) : Z :=
  match PoolLayout.new_buffer_layout C B A (beg (fst bk)) with
  | Ok (_, _, first, buffer) => PoolLayout.block_of B A buffer first (snd bk)
  | _ => 0
  end.

Lemma blocks_disjoint C B A beg bk bk' :
  PoolArith.legal C B A ->
  let size := Gen_MemPool.pvGetBufferSize C B A in
  PoolArith.begin_ok A size (beg (fst bk)) -> PoolArith.begin_ok A size (beg (fst bk')) ->
  0 <= snd bk < C -> 0 <= snd bk' < C -> bk <> bk' ->
  (fst bk <> fst bk' -> beg (fst bk) + size <= beg (fst bk') \/ beg (fst bk') + size <= beg (fst bk)) ->
  let a := addr_of C B A beg bk in let a' := addr_of C B A beg bk' in
  a mod A = 0 /\ beg (fst bk) <= a /\ a + B <= beg (fst bk) + size /\ (a + B <= a' \/ a' + B <= a).
Proof.
  intros L size B1 B2 R1 R2 Ne Man. cbv zeta. unfold addr_of.
  destruct (PoolArith.newbuffer_layout_thm C B A (beg (fst bk)) L B1) as (fb & first & buffer & E & _ & _ & _ & G & _).
  destruct (PoolArith.newbuffer_layout_thm C B A (beg (fst bk')) L B2) as (fb' & first' & buffer' & E' & _ & _ & _ & G' & _).
  rewrite E, E'. cbv zeta in G, G'.
  destruct (G (snd bk) R1) as (_ & al & lo & hi & pw & _). destruct (G' (snd bk') R2) as (_ & al' & lo' & hi' & pw' & _).
  fold size in hi, hi'. split; [exact al|]. split; [exact lo|]. split; [exact hi|].
  destruct (Z.eq_dec (fst bk) (fst bk')) as [Eb|Nb].
  - rewrite <- Eb in E'. rewrite E in E'. inversion E'; subst first' buffer'.
    assert (snd bk <> snd bk') as Ns by (intro Es; apply Ne; destruct bk, bk'; simpl in *; congruence).
    destruct (Z_lt_le_dec (snd bk) (snd bk')) as [Lt|Ge].
    + left. apply pw. lia.
    + right. apply pw'. lia.
  - destruct (Man Nb); [left|right]; lia.
Qed.

(* after EVERY history (Allocate / Deallocate / MergeFrom on both pools): two different live blocks - of the same pool or of
   different pools - occupy disjoint byte ranges [a, a+B), each aligned to blockAlignment and inside the manager block of its
   buffer, and that buffer has not been returned.  Assumptions: legal parameters, every buffer got an address the manager may
   return, and the manager's blocks for two different not-yet-returned buffers do not overlap. *)
Theorem live_blocks_disjoint_all_histories C B A CF uc beg ops :
  PoolArith.legal C B A ->
  let size := Gen_MemPool.pvGetBufferSize C B A in
  let w := PoolInv.grun C CF uc ops in
  (forall b, PoolArith.begin_ok A size (beg b)) ->
  (forall b b', b <> b' -> ~ In b (PoolConc.returned w) -> ~ In b' (PoolConc.returned w) ->
     beg b + size <= beg b' \/ beg b' + size <= beg b) ->
  forall p p' bk bk', In bk (PoolConc.live (PoolConc.getp w p)) -> In bk' (PoolConc.live (PoolConc.getp w p')) -> bk <> bk' ->
  let a := addr_of C B A beg bk in let a' := addr_of C B A beg bk' in
  ~ In (fst bk) (PoolConc.returned w) /\
  a mod A = 0 /\ beg (fst bk) <= a /\ a + B <= beg (fst bk) + size /\ (a + B <= a' \/ a' + B <= a).
Proof.
  intros L size w Beg Man p p' bk bk' H H' Ne. cbv zeta.
  assert (1 <= C) as HC by (destruct L; lia).
  destruct (PoolInv.J_all_histories C HC CF uc ops) as (Jw & _). fold w in Jw.
  assert (forall q k, In k (PoolConc.live (PoolConc.getp w q)) -> 0 <= snd k < C /\ ~ In (fst k) (PoolConc.returned w)) as Fact.
  { intros q k Hk. pose proof (proj1 (PoolInv.J_any C q w) Jw) as (_ & (_ & P2 & _ & _ & _ & _ & P7 & _) & _).
    destruct (P7 k) as (r & _ & o); [left; unfold PoolInv.lb; apply in_or_app; left; exact Hk|]. split; [exact r|exact (proj2 (P2 _ o))]. }
  destruct (Fact p bk H) as (R & NR). destruct (Fact p' bk' H') as (R' & NR').
  split; [exact NR|]. apply blocks_disjoint; auto.
Qed.
