(* C07 / L1 proofs about the index protocol model (IndexModel.v). *)
From Coq Require Import List ZArith Lia Bool Arith PeanoNat Permutation.
From C07 Require Import TableSpec TableProofs MultiHash MultiHashProofs IndexModel.
Import ListNotations.

(* ================================================================ MultiHash::Find for an absent key *)

Lemma find_none_all {A} (f : A -> bool) l : (forall x, In x l -> f x = false) -> find f l = None.
Proof.
  induction l as [|x l IH]; intros H; [reflexivity|]. simpl. rewrite (H x (or_introl eq_refl)).
  apply IH. intros y Hy. apply H. right. exact Hy.
Qed.

(* no key row of the multi hash has the wanted key => empty bounds (commit 95ed81f), whatever the probe sees *)
Theorem multihash_find_absent_empty R ct m k :
  (forall g, In g (mgroups m) -> keyc ct (mcols m) (gkey g) <> k) -> find_multi R ct m k = [].
Proof.
  intros H. unfold find_multi, m_find. rewrite find_none_all; [reflexivity|].
  intros g Hg. apply andb_false_iff. right.
  destruct (zlist_eqb (keyc ct (mcols m) (gkey g)) k) eqn:E; [|reflexivity].
  apply zlist_eqb_eq in E. apply H in Hg. contradiction.
Qed.

(* a present key: key row followed by its value array *)
Theorem multihash_find_present R ct m k g :
  (forall s, R s s = true) ->
  In g (mgroups m) -> gskey g = k -> keyc ct (mcols m) (gkey g) = k ->
  (forall g', In g' (mgroups m) -> keyc ct (mcols m) (gkey g') = k -> g' = g) ->
  find_multi R ct m k = gkey g :: gvals g.
Proof.
  intros HR Hin Hs Hk Huniq. unfold find_multi, m_find.
  destruct (find _ (mgroups m)) as [g'|] eqn:E.
  - apply find_some in E as [Hg' Hp]. apply andb_true_iff in Hp as [_ Hp]. apply zlist_eqb_eq in Hp.
    rewrite (Huniq g' Hg' Hp). reflexivity.
  - eapply find_none in E; [|exact Hin]. rewrite Hs, HR, Hk, zlist_eqb_refl in E. discriminate.
Qed.

(* ================================================================ the single-column update of a unique hash *)

Definition uinv (ct : Z -> row) (u : uhash) : Prop :=
  upadd u = None /\ uprem u = None /\
  NoDup (map etag (uents u)) /\
  NoDup (map (fun e => keyc ct (ucols u) (eraw e)) (uents u)) /\
  Forall (fun e => ekey e = keyc ct (ucols u) (eraw e)) (uents u).

Lemma NoDup_map_inj {A B} (f : A -> B) l x y : NoDup (map f l) -> In x l -> In y l -> f x = f y -> x = y.
Proof.
  induction l as [|a l IH]; simpl; intros Hn Hx Hy E; [contradiction|]. inversion Hn; subst.
  destruct Hx as [->|Hx], Hy as [->|Hy]; auto.
  - exfalso. apply H1. rewrite E. apply in_map. exact Hy.
  - exfalso. apply H1. rewrite <- E. apply in_map. exact Hx.
Qed.

Lemma find_unique_match {A} (f : A -> bool) l x :
  In x l -> f x = true -> (forall y, In y l -> f y = true -> y = x) -> find f l = Some x.
Proof.
  intros Hin Hf Hu. destruct (find f l) as [y|] eqn:E.
  - apply find_some in E as [Hy Hfy]. rewrite (Hu y Hy Hfy). reflexivity.
  - eapply find_none in E; [|exact Hin]. congruence.
Qed.

Lemma find_exists {A} (f : A -> bool) l x : In x l -> f x = true -> exists y, find f l = Some y.
Proof.
  intros Hin Hf. destruct (find f l) as [y|] eqn:E; [eauto|]. eapply find_none in E; [|exact Hin]. congruence.
Qed.

Lemma filter_perm {A} (f : A -> bool) l l' : Permutation l l' -> Permutation (filter f l) (filter f l').
Proof.
  induction 1; simpl; auto.
  - destruct (f x); auto.
  - destruct (f x), (f y); auto. apply perm_swap.
  - etransitivity; eassumption.
Qed.

Lemma filter_all {A} (f : A -> bool) l : (forall x, In x l -> f x = true) -> filter f l = l.
Proof.
  induction l as [|x l IH]; intros H; [reflexivity|]. simpl. rewrite (H x (or_introl eq_refl)). f_equal.
  apply IH. intros y Hy. apply H. right. exact Hy.
Qed.

Lemma place_perm {A} ord tag (x : A) l : Permutation (place ord tag x l) (x :: l).
Proof. unfold place. apply insert_at_perm. Qed.

Lemma getc_set_col c v r : c < length r -> getc (set_col c v r) c = v.
Proof.
  revert c; induction r as [|x r IH]; intros c H; simpl in *; [lia|].
  destruct c; [reflexivity|]. unfold getc in *. simpl. apply IH. lia.
Qed.

Lemma proj_changes cols c v r :
  has_col cols c = true -> c < length r -> v <> getc r c -> proj cols (set_col c v r) <> proj cols r.
Proof.
  intros Hc Hl Hv E. unfold has_col in Hc. apply existsb_exists in Hc as (x & Hx & Hxc).
  apply Nat.eqb_eq in Hxc. subst x.
  assert (getc (set_col c v r) c = getc r c).
  { unfold proj in E. induction cols as [|a cols IH]; [contradiction|]. simpl in E. inversion E.
    destruct Hx as [->|Hx]; [assumption|apply IH; assumption]. }
  rewrite getc_set_col in H by exact Hl. contradiction.
Qed.

Section UpdateColumn.
  Variables (ord : nat -> nat) (R : list Z -> list Z -> bool) (ct : Z -> row).
  Variables (u : uhash) (raw : Z) (c : nat) (v : Z) (tag : nat).
  Hypothesis HR : forall k, R k k = true.
  Hypothesis Hinv : uinv ct u.
  Hypothesis Hraw : In raw (map eraw (uents u)).
  Hypothesis Htag : ~ In tag (map etag (uents u)).
  Hypothesis Hcol : has_col (ucols u) c = true.
  Hypothesis Hlen : c < length (ct raw).
  Hypothesis Hv : v <> getc (ct raw) c.

  Let ct' : Z -> row := fun r => if Z.eqb r raw then set_col c v (ct raw) else ct r.
  Let cols := ucols u.
  Let k := keyc ct cols raw.
  Let k' := proj cols (set_col c v (ct raw)).
  Let K := fun e => keyc ct cols (eraw e).

  Lemma k_ne : k' <> k.
  Proof. unfold k', k, keyc. apply proj_changes; assumption. Qed.

  Lemma k'_is_new_key : keyc ct' cols raw = k'.
  Proof. unfold keyc, ct'. rewrite Z.eqb_refl. reflexivity. Qed.

  Lemma other_rows_keep_key r : r <> raw -> keyc ct' cols r = keyc ct cols r.
  Proof. intros H. unfold keyc, ct'. destruct (Z.eqb_spec r raw); [contradiction|reflexivity]. Qed.

  (* the code as it is now (PrepareRemove skips the entry just added): after a successful single-column
     update the hash is consistent again under the NEW content, the row has exactly one entry and a lookup
     of the new key - by any probe - finds it; a refusal changes nothing and names a genuine collision *)
  Theorem update_column_index_consistent_aux :
    let '(u1, r) := u_add_mixed ord R ct u raw c v tag in
    if Z.eqb r raw then
      let u3 := u_accept_remove (u_accept_add (u_prepare_remove true R ct u1 raw)) in
      uinv ct' u3 /\ Permutation (map eraw (uents u3)) (map eraw (uents u)) /\
      u_find R ct' u3 (keyc ct' cols raw) = Some (mkE tag raw k')
    else u1 = u /\ exists e, In e (uents u) /\ eraw e = r /\ keyc ct cols r = k'.
  Proof.
    destruct Hinv as (Hpa & Hpr & Htags & Hkeys & Hstored).
    apply in_map_iff in Hraw as (e0 & He0raw & He0).
    assert (HK0 : K e0 = k) by (unfold K, k; rewrite He0raw; reflexivity).
    unfold u_add_mixed. fold cols. fold k'.
    destruct (u_find R ct u k') as [e|] eqn:Efind.
    - (* the new key exists: refusal *)
      unfold u_find in Efind. apply find_some in Efind as [Hine Hp]. apply andb_true_iff in Hp as [_ Hp].
      apply zlist_eqb_eq in Hp. fold cols in Hp.
      destruct (Z.eqb_spec (eraw e) raw) as [E|E].
      + exfalso. apply k_ne. rewrite <- Hp. unfold k. rewrite E. reflexivity.
      + split; [reflexivity|]. exists e. auto.
    - rewrite Z.eqb_refl.
      (* no entry has the new key *)
      assert (Hnone : forall e, In e (uents u) -> K e <> k').
      { intros e He Hk. unfold u_find in Efind. eapply find_none in Efind; [|exact He].
        rewrite Forall_forall in Hstored. simpl in Efind. rewrite (Hstored e He) in Efind. fold cols in Efind. fold (K e) in Efind.
        rewrite Hk, HR, zlist_eqb_refl in Efind. discriminate. }
      set (en := mkE tag raw k').
      set (es1 := place ord tag en (uents u)).
      assert (Hes1 : Permutation es1 (en :: uents u)) by apply place_perm.
      assert (Hin1 : forall e, In e es1 <-> e = en \/ In e (uents u)).
      { intros e. split; intros H.
        - apply (Permutation_in _ Hes1) in H. destruct H; auto.
        - apply (Permutation_in _ (Permutation_sym Hes1)). destruct H; [left; auto|right; auto]. }
      assert (He0tag : etag e0 <> tag).
      { intros E. apply Htag. rewrite <- E. apply in_map. exact He0. }
      (* PrepareRemove ends up at the OLD entry, whichever of the two content-equal entries Find returns *)
      assert (Hprep : u_prepare_remove true R ct (mkU cols es1 (Some tag) (uprem u)) raw
                      = mkU cols es1 (Some tag) (Some (etag e0))).
      { unfold u_prepare_remove, u_find. simpl ucols. simpl uents. fold cols. fold k.
        destruct (find_exists (fun e => R (ekey e) k && zlist_eqb (keyc ct cols (eraw e)) k) es1 e0) as (ef & Ef).
        { apply Hin1. right. exact He0. }
        { rewrite Forall_forall in Hstored. rewrite (Hstored e0 He0). fold cols. fold (K e0). rewrite HK0, HR, zlist_eqb_refl. reflexivity. }
        rewrite Ef. apply find_some in Ef as [Hef Hpf]. apply andb_true_iff in Hpf as [_ Hpf]. apply zlist_eqb_eq in Hpf.
        apply Hin1 in Hef. simpl upadd.
        assert (Hother : find (fun e => Z.eqb (eraw e) raw && negb (Nat.eqb (etag e) tag)) es1 = Some e0).
        { apply find_unique_match.
          - apply Hin1. right. exact He0.
          - rewrite He0raw, Z.eqb_refl. simpl. apply negb_true_iff. apply Nat.eqb_neq. exact He0tag.
          - intros y Hy Hpy. apply andb_true_iff in Hpy as [Hy1 Hy2]. apply Z.eqb_eq in Hy1.
            apply Hin1 in Hy. destruct Hy as [->|Hy].
            + simpl in Hy2. rewrite Nat.eqb_refl in Hy2. discriminate.
            + eapply NoDup_map_inj; [exact Hkeys|exact Hy|exact He0|]. simpl. rewrite Hy1, He0raw. reflexivity. }
        destruct Hef as [->|Hef].
        - simpl. rewrite Nat.eqb_refl. simpl. rewrite Hother. reflexivity.
        - assert (ef = e0).
          { eapply NoDup_map_inj; [exact Hkeys|exact Hef|exact He0|]. simpl. fold cols. rewrite Hpf. symmetry. exact HK0. }
          subst ef. simpl. replace (Nat.eqb tag (etag e0)) with false by (symmetry; apply Nat.eqb_neq; auto).
          reflexivity. }
      rewrite Hprep. clear Hprep.
      unfold u_accept_add, u_accept_remove. simpl.
      set (es3 := u_remove_tag (etag e0) es1).
      (* es3 = the new entry + all old entries but e0 *)
      destruct (in_split _ _ He0) as (a & b & Hab).
      assert (Hperm_es : Permutation (uents u) (e0 :: a ++ b)) by (rewrite Hab; symmetry; apply Permutation_middle).
      assert (Hab_tags : forall e, In e (a ++ b) -> etag e <> etag e0).
      { intros e He E. assert (Hn : NoDup (map etag (e0 :: a ++ b))) by (eapply Permutation_NoDup; [apply Permutation_map; exact Hperm_es|exact Htags]).
        simpl in Hn. inversion Hn; subst. apply H1. rewrite <- E. apply in_map. exact He. }
      assert (Hes3 : Permutation es3 (en :: a ++ b)).
      { unfold es3, u_remove_tag.
        etransitivity; [apply filter_perm; etransitivity; [exact Hes1|apply perm_skip; exact Hperm_es]|].
        simpl. replace (Nat.eqb tag (etag e0)) with false by (symmetry; apply Nat.eqb_neq; auto). simpl.
        rewrite Nat.eqb_refl. simpl. apply perm_skip. rewrite filter_all; [reflexivity|].
        intros e He. apply negb_true_iff. apply Nat.eqb_neq. apply Hab_tags. exact He. }
      assert (Hab_in : forall e, In e (a ++ b) -> In e (uents u)).
      { intros e He. apply (Permutation_in _ (Permutation_sym Hperm_es)). right. exact He. }
      assert (Hab_raw : forall e, In e (a ++ b) -> eraw e <> raw).
      { intros e He E.
        assert (e = e0) by (eapply NoDup_map_inj; [exact Hkeys|apply Hab_in; exact He|exact He0|]; simpl; rewrite E, He0raw; reflexivity).
        subst e. apply (Hab_tags e0 He). reflexivity. }
      assert (HK' : forall e, In e (a ++ b) -> keyc ct' cols (eraw e) = K e).
      { intros e He. apply other_rows_keep_key. apply Hab_raw. exact He. }
      split; [|split].
      + (* the invariant under the new content *)
        unfold uinv. simpl. repeat split; auto.
        * eapply Permutation_NoDup; [apply Permutation_map; symmetry; exact Hes3|]. simpl. constructor.
          -- intros Hin. apply in_map_iff in Hin as (e & Et & He). apply Htag. rewrite <- Et. apply in_map. apply Hab_in. exact He.
          -- assert (Hn : NoDup (map etag (e0 :: a ++ b))) by (eapply Permutation_NoDup; [apply Permutation_map; exact Hperm_es|exact Htags]).
             inversion Hn; assumption.
        * eapply Permutation_NoDup; [apply Permutation_map; symmetry; exact Hes3|]. simpl. fold cols. rewrite k'_is_new_key. constructor.
          -- intros Hin. apply in_map_iff in Hin as (e & Ek & He). rewrite (HK' e He) in Ek. apply (Hnone e (Hab_in e He)). exact Ek.
          -- rewrite map_ext_in with (g := K) by (intros e He; apply HK'; exact He).
             assert (Hn : NoDup (map K (e0 :: a ++ b))) by (eapply Permutation_NoDup; [apply Permutation_map; exact Hperm_es|exact Hkeys]).
             inversion Hn; assumption.
        * rewrite Forall_forall. intros e He. apply (Permutation_in _ Hes3) in He. destruct He as [<-|He].
          -- simpl. fold cols. rewrite k'_is_new_key. reflexivity.
          -- fold cols. rewrite (HK' e He). rewrite Forall_forall in Hstored. apply Hstored. apply Hab_in. exact He.
      + etransitivity; [apply Permutation_map; exact Hes3|]. simpl.
        etransitivity; [|apply Permutation_map; symmetry; exact Hperm_es]. simpl. rewrite He0raw. reflexivity.
      + fold cols. rewrite k'_is_new_key. unfold u_find. simpl. fold cols. apply find_unique_match.
        * apply (Permutation_in _ (Permutation_sym Hes3)). left. reflexivity.
        * simpl. rewrite HR, k'_is_new_key, zlist_eqb_refl. reflexivity.
        * intros y Hy Hpy. apply andb_true_iff in Hpy as [_ Hpy]. apply zlist_eqb_eq in Hpy.
          apply (Permutation_in _ Hes3) in Hy. destruct Hy as [<-|Hy]; [reflexivity|].
          exfalso. rewrite (HK' y Hy) in Hpy. apply (Hnone y (Hab_in y Hy)). exact Hpy.
  Qed.
End UpdateColumn.

Theorem update_column_index_consistent :
  forall (ord : nat -> nat) (R : list Z -> list Z -> bool) (ct : Z -> row) (u : uhash) (raw : Z) (c : nat) (v : Z) (tag : nat),
    (forall k, R k k = true) -> uinv ct u -> In raw (map eraw (uents u)) -> ~ In tag (map etag (uents u)) ->
    has_col (ucols u) c = true -> c < length (ct raw) -> v <> getc (ct raw) c ->
    let ct' := fun r => if Z.eqb r raw then set_col c v (ct raw) else ct r in
    let k' := proj (ucols u) (set_col c v (ct raw)) in
    let '(u1, r) := u_add_mixed ord R ct u raw c v tag in
    if Z.eqb r raw then
      let u3 := u_accept_remove (u_accept_add (u_prepare_remove true R ct u1 raw)) in
      uinv ct' u3 /\ Permutation (map eraw (uents u3)) (map eraw (uents u)) /\
      u_find R ct' u3 (keyc ct' (ucols u) raw) = Some (mkE tag raw k')
    else u1 = u /\ exists e, In e (uents u) /\ eraw e = r /\ keyc ct (ucols u) r = k'.
Proof. intros. apply update_column_index_consistent_aux; assumption. Qed.

(* ================================================================ the pre-fix shapes are refuted *)

(* a probe for key [1] also sees entries placed under key [2] (overflow into the next bucket), not vice versa *)
Definition R_overflow (s k : list Z) : bool := zlist_eqb s k || (zlist_eqb s [2%Z] && zlist_eqb k [1%Z]).
Definition ct_demo (r : Z) : row := [1%Z].

(* UniqueHash::PrepareRemove before 4f7b624 (fixu = false): row 5, key column 0 changes 1 -> 2; the entry just
   added is removed instead of the old one, and the row is no longer reachable under its new key *)
Theorem update_column_refuted :
  exists ord R ct s raw c v,
    (forall k, R k k = true) /\ Forall (uinv ct) (uhs s) /\
    let '(s', o, ct') := update_col false true ord R ct None s raw c v in
    o = Accepted /\
    exists u', uhs s' = [u'] /\ u_find R ct' u' (keyc ct' (ucols u') raw) = None.
Proof.
  exists (fun _ => 0), R_overflow, ct_demo, (mkI [mkU [0] [mkE 0 5%Z [1%Z]] None None] [] 1), 5%Z, 0, 2%Z.
  split; [|split].
  - intros k. unfold R_overflow. rewrite zlist_eqb_refl. reflexivity.
  - constructor; [|constructor]. unfold uinv; simpl. repeat split; auto; repeat constructor; simpl; tauto.
  - vm_compute. split; [reflexivity|]. eexists. split; reflexivity.
Qed.

(* ... while the code as it is now keeps it reachable on the same input *)
Example update_column_fixed_on_witness :
  let '(s', o, ct') := update_col true true (fun _ => 0) R_overflow ct_demo None (mkI [mkU [0] [mkE 0 5%Z [1%Z]] None None] [] 1) 5%Z 0 2%Z in
  o = Accepted /\ map (fun u => find_unique R_overflow ct' u [2%Z]) (uhs s') = [[5%Z]].
Proof. vm_compute. split; reflexivity. Qed.

(* MultiHash::PrepareRemove before 2211fdb (fixm = false): rows 5 and 6 share key 1; row 6 changes to the fresh
   key 2; the freshly created key entry is removed, row 6 stays in the group of key 1 and key 2 is absent *)
Theorem multi_update_column_refuted :
  exists ord R ct s raw c v,
    (forall k, R k k = true) /\
    let '(s', o, ct') := update_col true false ord R ct None s raw c v in
    o = Accepted /\
    exists m', mhs s' = [m'] /\ find_multi R ct' m' (keyc ct' (mcols m') raw) = [] /\
               In raw (find_multi R ct' m' [1%Z]).
Proof.
  exists (fun _ => 0), R_overflow, ct_demo, (mkI [] [mkM [0] [mkG 0 5%Z [1%Z] [6%Z]] None None] 1), 6%Z, 0, 2%Z.
  split.
  - intros k. unfold R_overflow. rewrite zlist_eqb_refl. reflexivity.
  - vm_compute. split; [reflexivity|]. eexists. split; [reflexivity|]. split; [reflexivity|]. right. left. reflexivity.
Qed.

Example multi_update_column_fixed_on_witness :
  let '(s', o, ct') := update_col true true (fun _ => 0) R_overflow ct_demo None (mkI [] [mkM [0] [mkG 0 5%Z [1%Z] [6%Z]] None None] 1) 6%Z 0 2%Z in
  o = Accepted /\ map (fun m => (find_multi R_overflow ct' m [1%Z], find_multi R_overflow ct' m [2%Z])) (mhs s') = [([5%Z], [6%Z])].
Proof. vm_compute. split; reflexivity. Qed.
