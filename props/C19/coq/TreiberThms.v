(* C19 -- consequences of the invariant: the statements exported by Properties_C19.v *)
From Coq Require Import List Arith Bool PeanoNat Lia Permutation.
From C19 Require Import Treiber TreiberInv.
Import ListNotations.

Lemma nodup_app_disj {A} (l1 l2 : list A) x : NoDup (l1 ++ l2) -> In x l1 -> In x l2 -> False.
Proof.
  induction l1; simpl; intros ND H1 H2; [contradiction|].
  inversion ND; subst. destruct H1 as [->|H1].
  - apply H3. apply in_or_app; auto.
  - eauto.
Qed.

Lemma nodup_app_l {A} (l1 l2 : list A) : NoDup (l1 ++ l2) -> NoDup l1.
Proof.
  induction l1; simpl; intros ND; [constructor|]. inversion ND; subst. constructor; auto.
  intro; apply H1; apply in_or_app; auto.
Qed.

Lemma nodup_app_r {A} (l1 l2 : list A) : NoDup (l1 ++ l2) -> NoDup l2.
Proof. induction l1; simpl; intros ND; auto. inversion ND; auto. Qed.

(* ------------------------------------------------------------------ where a disposed row is *)
Theorem exactly_one_place s r g :
  reachable s -> In (r, g) (disposed s) ->
  let A := g = gen s r /\ in_hand s r in
  let B := g = gen s r /\ In r (shared s) in
  let C := g = gen s r /\ In r (drain s) in
  let D := In (r, g) (reclaimed s) in
  (A \/ B \/ C \/ D) /\
  ~ (A /\ B) /\ ~ (A /\ C) /\ ~ (A /\ D) /\ ~ (B /\ C) /\ ~ (B /\ D) /\ ~ (C /\ D).
Proof.
  intros R Hd. apply inv_reachable in R. simpl.
  assert (HP : in_hand s r -> status s r = Pending) by (intros [t Ht]; eapply i_held; eauto).
  assert (HS : In r (shared s) -> status s r = Listed) by (intro; apply (i_listed s R); apply in_or_app; auto).
  assert (HD : In r (drain s) -> status s r = Listed) by (intro; apply (i_listed s R); apply in_or_app; auto).
  assert (HR : In (r, g) (reclaimed s) -> g = gen s r -> status s r = Free).
  { intros H E. destruct (i_rgen s R _ _ H) as [?|[_ ?]]; [lia|auto]. }
  split; [|repeat split].
  - destruct (i_disp s R _ _ Hd) as [?|[E [Hp|Hl]]]; auto.
    + left; split; auto. apply (i_pend s R); auto.
    + apply (i_listed s R) in Hl. apply in_app_or in Hl. destruct Hl; auto.
  - intros [[_ a] [_ b]]. apply HP in a. apply HS in b. congruence.
  - intros [[_ a] [_ b]]. apply HP in a. apply HD in b. congruence.
  - intros [[e a] b]. apply HP in a. specialize (HR b e). congruence.
  - intros [[_ a] [_ b]]. eapply nodup_app_disj; [apply (i_nodup s R)|eauto|eauto].
  - intros [[e a] b]. apply HS in a. specialize (HR b e). congruence.
  - intros [[e a] b]. apply HD in a. specialize (HR b e). congruence.
Qed.

Theorem holder_unique s t1 t2 r :
  reachable s -> held (dpcs s t1) = Some r -> held (dpcs s t2) = Some r -> t1 = t2.
Proof. intros R. apply inv_reachable in R. apply (i_inj s R). Qed.

(* a row that is alive (detached or in the table) is nowhere in the free-list machinery *)
Theorem live_row_untouched s r :
  reachable s -> status s r = Detached \/ status s r = InTable ->
  ~ In r (shared s) /\ ~ In r (drain s) /\ ~ in_hand s r /\ ~ In (r, gen s r) (disposed s) /\
  (forall n, own s <> ONext r n).
Proof.
  intros R Hs. apply inv_reachable in R.
  assert (Hn : ~ In r (shared s ++ drain s)).
  { apply not_listed_notin; auto. destruct Hs; congruence. }
  apply notin_app in Hn. destruct Hn as [N1 N2].
  repeat split; auto.
  - intros [t Ht]. pose proof (i_held s R _ _ Ht). destruct Hs; congruence.
  - intro Hd. destruct (i_disp s R _ _ Hd) as [Hr|[_ [?|?]]]; try (destruct Hs; congruence).
    destruct (i_rgen s R _ _ Hr) as [?|[_ ?]]; [lia|destruct Hs; congruence].
  - intros n E. pose proof (i_own s R) as O. rewrite E in O. destruct O as [d [Ed _]].
    apply N2. rewrite Ed. left; auto.
Qed.

(* ------------------------------------------------------------------ shape of the two lists *)
Theorem shared_list_wellformed s :
  reachable s ->
  chain (link s) (head s) (shared s) /\ NoDup (shared s) /\
  walk (link s) (head s) (length (shared s)) = Some (shared s) /\
  (forall r, In r (shared s) -> status s r = Listed /\ ~ In r (drain s) /\ ~ in_hand s r).
Proof.
  intros R. apply inv_reachable in R.
  repeat split.
  - apply (i_chain s R).
  - eapply nodup_app_l. apply (i_nodup s R).
  - apply chain_walk. apply (i_chain s R).
  - apply (i_listed s R). apply in_or_app; auto.
  - intro. eapply nodup_app_disj; [apply (i_nodup s R)|eauto|eauto].
  - intros [t Ht]. pose proof (i_held s R _ _ Ht).
    assert (status s r = Listed) by (apply (i_listed s R); apply in_or_app; auto). congruence.
Qed.

Theorem owner_chain_wellformed s :
  reachable s ->
  NoDup (drain s) /\
  match own s with
  | OIdle => drain s = []
  | ODrain c => walk (link s) c (length (drain s)) = Some (drain s)
  | ONext r n => exists d, drain s = r :: d /\ walk (link s) n (length d) = Some d
  end.
Proof.
  intros R. apply inv_reachable in R. split.
  - eapply nodup_app_r. apply (i_nodup s R).
  - pose proof (i_own s R) as O. destruct (own s); auto.
    + apply chain_walk; auto.
    + destruct O as [d [E C]]. exists d; split; auto. apply chain_walk; auto.
Qed.

(* ------------------------------------------------------------------ who writes a link word *)
Theorem link_written_only_by_holder s l s' r :
  reachable s -> step s l = Some s' -> link s' r <> link s r ->
  (exists t h, l = DLink t /\ dpcs s t = Loaded r h /\ status s r = Pending /\
               (forall t', held (dpcs s t') = Some r -> t' = t) /\ ~ In r (shared s) /\ ~ In r (drain s))
  \/ (exists g n, l = OFree g /\ own s = ONext r n /\ ~ In r (shared s) /\ ~ in_hand s r)
  \/ ((status s r = Free \/ status s r = Detached \/ status s r = InTable) /\
      ~ In r (shared s) /\ ~ In r (drain s) /\ ~ in_hand s r).
Proof.
  intros R Hs Hne. pose proof (inv_reachable s R) as I.
  assert (InUse : in_use (status s r) = true ->
          (status s r = Free \/ status s r = Detached \/ status s r = InTable) /\
          ~ In r (shared s) /\ ~ In r (drain s) /\ ~ in_hand s r).
  { intros U. assert (Hn : ~ In r (shared s ++ drain s)).
    { apply not_listed_notin; auto. intro E; rewrite E in U; discriminate. }
    apply notin_app in Hn. destruct Hn.
    repeat split; auto.
    - destruct (status s r); auto; discriminate.
    - intros [t Ht]. pose proof (i_held s I _ _ Ht) as E. rewrite E in U. discriminate. }
  destruct l; unfold step in Hs;
    repeat match type of Hs with
    | match ?x with _ => _ end = _ => let E := fresh "E" in destruct x eqn:E; try discriminate
    | (if ?x then _ else _) = _ => let E := fresh "E" in destruct x eqn:E; try discriminate
    end;
    inversion Hs; subst; clear Hs; simpl in Hne; try congruence.
  - (* DLink *)
    destruct (Nat.eq_dec r r0); [subst|rewrite upd_neq in Hne by auto; congruence].
    left. exists t, h.
    assert (Hh : held (dpcs s t) = Some r0) by (rewrite E; auto).
    assert (Hp : status s r0 = Pending) by (eapply i_held; eauto).
    assert (Hn : ~ In r0 (shared s ++ drain s)) by (apply not_listed_notin; auto; congruence).
    apply notin_app in Hn. destruct Hn.
    repeat split; auto. intros t' Ht'. eapply (i_inj s I); eauto.
  - (* OFree *)
    destruct (Nat.eq_dec r r0); [subst|rewrite upd_neq in Hne by auto; congruence].
    right; left. exists g, n. repeat split; auto.
    + pose proof (i_own s I) as O. rewrite E in O. destruct O as [d [Ed _]].
      intro. eapply nodup_app_disj; [apply (i_nodup s I)|eauto|]. rewrite Ed; left; auto.
    + intros [t Ht]. pose proof (i_held s I _ _ Ht).
      assert (status s r0 = Listed).
      { apply (i_listed s I). pose proof (i_own s I) as O. rewrite E in O. destruct O as [d [Ed _]].
        apply in_or_app; right. rewrite Ed; left; auto. }
      congruence.
  - (* OAlloc *)
    destruct (Nat.eq_dec r r0); [subst|rewrite upd_neq in Hne by auto; congruence].
    right; right. apply InUse. rewrite E0; auto.
  - (* ORemove *)
    destruct (Nat.eq_dec r r0); [subst|rewrite upd_neq in Hne by auto; congruence].
    right; right. apply InUse. rewrite E0; auto.
  - (* Scribble *)
    destruct (Nat.eq_dec r r0); [subst|rewrite upd_neq in Hne by auto; congruence].
    right; right. apply InUse. auto.
Qed.

Lemma oeq_dec (a b : option row) : {a = b} + {a <> b}.
Proof. decide equality. apply Nat.eq_dec. Qed.

(* a published link word is immutable until its row is reclaimed *)
Theorem published_link_stable s l s' r :
  reachable s -> step s l = Some s' ->
  (In r (shared s) -> link s' r = link s r) /\
  (In r (drain s) -> link s' r = link s r \/ exists g n, l = OFree g /\ own s = ONext r n).
Proof.
  intros R Hs. pose proof (inv_reachable s R) as I.
  destruct (oeq_dec (link s' r) (link s r)) as [E|Hne]; [auto|].
  destruct (link_written_only_by_holder s l s' r R Hs Hne) as [[t [h [_ [_ [_ [_ [A B]]]]]]]|[[g [n [A [B [C D]]]]]|[_ [A [B _]]]]];
    split; intro; try contradiction; eauto.
Qed.

(* ------------------------------------------------------------------ the CAS: no ABA problem *)
Theorem cas_links_onto_current_head s t r h sp s' :
  reachable s -> dpcs s t = Linked r h -> step s (DCas t sp) = Some s' ->
  (sp = false /\ head s = h ->
     head s' = Some r /\ link s' r = head s /\ shared s' = r :: shared s /\ drain s' = drain s /\
     chain (link s') (head s') (shared s') /\ dpcs s' t = Idle /\ status s' r = Listed) /\
  (sp = true \/ head s <> h ->
     head s' = head s /\ shared s' = shared s /\ link s' = link s /\ dpcs s' t = Start r /\
     status s' r = Pending).
Proof.
  intros R Ep Hs. pose proof (inv_reachable s R) as I.
  pose proof (inv_step _ _ _ I Hs) as I'.
  unfold step in Hs. rewrite Ep in Hs.
  split.
  - intros [-> <-]. simpl in Hs. destruct (oeqb_spec (head s) (head s)); [|congruence].
    inversion Hs; subst; clear Hs. simpl.
    repeat split; auto.
    + apply (i_linked s I _ _ _ Ep).
    + apply (i_chain _ I').
    + apply upd_eq.
    + apply upd_eq.
  - intros Hc. assert (Ec : negb sp && oeqb (head s) h = false).
    { destruct Hc as [->|Hc]; auto. destruct (oeqb_spec (head s) h); [contradiction|]. apply andb_false_r. }
    rewrite Ec in Hs. inversion Hs; subst; clear Hs. simpl.
    repeat split; auto.
    + apply upd_eq.
    + eapply (i_held s I t). rewrite Ep; auto.
Qed.

(* ------------------------------------------------------------------ reclamation is safe *)
Theorem reclaim_safe s g s' :
  reachable s -> step s (OFree g) = Some s' ->
  exists r n, own s = ONext r n /\
    reclaimed s' = (r, gen s r) :: reclaimed s /\ status s' r = Free /\
    status s r = Listed /\ In r (drain s) /\ ~ In r (shared s) /\ ~ in_hand s r /\
    In (r, gen s r) (published s) /\ In (r, gen s r) (disposed s) /\ ~ In (r, gen s r) (reclaimed s).
Proof.
  intros R Hs. pose proof (inv_reachable s R) as I.
  unfold step in Hs. destruct (own s) eqn:Eo; try discriminate.
  inversion Hs; subst; clear Hs. simpl. exists r, n.
  pose proof (i_own s I) as O. rewrite Eo in O. destruct O as [d [Ed _]].
  assert (Hin : In r (drain s)) by (rewrite Ed; left; auto).
  assert (Hl : status s r = Listed) by (apply (i_listed s I); apply in_or_app; auto).
  destruct (i_active s I r (or_intror Hl)).
  repeat split; auto.
  - apply upd_eq.
  - intro. eapply nodup_app_disj; [apply (i_nodup s I)|eauto|eauto].
  - intros [t Ht]. pose proof (i_held s I _ _ Ht). congruence.
  - apply (i_lpub s I); auto.
Qed.

(* a buffer handed out again by the pool is nowhere in the machinery and all its disposals were reclaimed *)
Theorem reuse_safe s r g s' :
  reachable s -> step s (OAlloc r g) = Some s' ->
  ~ In r (shared s) /\ ~ In r (drain s) /\ ~ in_hand s r /\
  (forall g0, In (r, g0) (disposed s) -> In (r, g0) (reclaimed s)) /\
  (forall g0, In (r, g0) (disposed s') -> g0 < gen s' r).
Proof.
  intros R Hs. pose proof (inv_reachable s R) as I.
  unfold step in Hs. destruct (own s) eqn:Eo; try discriminate. destruct (status s r) eqn:Es; try discriminate.
  inversion Hs; subst; clear Hs. simpl.
  assert (Hn : ~ In r (shared s ++ drain s)) by (apply not_listed_notin; auto; congruence).
  apply notin_app in Hn. destruct Hn.
  assert (Hall : forall g0, In (r, g0) (disposed s) -> In (r, g0) (reclaimed s)).
  { intros g0 Hd. destruct (i_disp s I _ _ Hd) as [?|[_ [?|?]]]; auto; congruence. }
  repeat split; auto.
  - intros [t Ht]. pose proof (i_held s I _ _ Ht). congruence.
  - intros g0 Hd. rewrite upd_eq. apply Hall in Hd. destruct (i_rgen s I _ _ Hd) as [?|[? _]]; lia.
Qed.

(* ------------------------------------------------------------------ lifted to schedules *)
Theorem schedule_reclaimed_once ls s :
  run init ls = Some s ->
  NoDup (reclaimed s) /\ NoDup (disposed s) /\
  incl (reclaimed s) (published s) /\ incl (published s) (disposed s) /\ incl (reclaimed s) (disposed s).
Proof.
  intros H. assert (I : inv s) by (apply inv_reachable; exists ls; auto).
  repeat split; try apply I.
  eapply incl_tran; apply I.
Qed.

Theorem quiescent_all_reclaimed ls s :
  run init ls = Some s -> quiescent s -> Permutation (disposed s) (reclaimed s).
Proof.
  intros H [Q1 [Q2 Q3]]. assert (I : inv s) by (apply inv_reachable; exists ls; auto).
  apply NoDup_Permutation; try apply I.
  intros [r g]; split.
  - intros Hd. destruct (i_disp s I _ _ Hd) as [?|[_ [Hp|Hl]]]; auto; exfalso.
    + destruct (i_pend s I _ Hp) as [t Ht]. rewrite Q1 in Ht. discriminate.
    + apply (i_listed s I) in Hl.
      pose proof (i_chain s I) as C. rewrite Q3 in C.
      pose proof (i_own s I) as O. rewrite Q2 in O.
      destruct (shared s); simpl in C; [|destruct C; discriminate].
      rewrite O in Hl. contradiction.
  - intros Hr. eapply incl_tran; [apply (i_recl_pub s I)|apply (i_pub_disp s I)|]; auto.
Qed.

(* ------------------------------------------------------------------ the owner's walk makes progress whatever the disposers do *)
Theorem owner_walk_enabled s :
  reachable s ->
  match own s with
  | OIdle => True
  | ODrain None => exists s', step s ODone = Some s'
  | ODrain (Some r) => exists s', step s ORead = Some s' /\ own s' = ONext r (link s r) /\ drain s' = drain s
  | ONext r n => forall g, exists s', step s (OFree g) = Some s' /\ own s' = ODrain n /\
                                       length (drain s) = S (length (drain s'))
  end.
Proof.
  intros R. pose proof (inv_reachable s R) as I. pose proof (i_own s I) as O.
  unfold step. destruct (own s) as [|[r|]|r n]; auto.
  - eexists; repeat split.
  - eexists; reflexivity.
  - intros g. eexists; repeat split. simpl. destruct O as [d [-> _]]. reflexivity.
Qed.

(* disposer steps never touch the owner's private chain *)
Theorem disposer_steps_keep_drain s l s' :
  step s l = Some s' ->
  match l with DBegin _ _ | DLoad _ | DLink _ | DCas _ _ => drain s' = drain s /\ own s' = own s | _ => True end.
Proof.
  intros Hs. destruct l; auto; unfold step in Hs;
    repeat match type of Hs with
    | match ?x with _ => _ end = _ => destruct x; try discriminate
    | (if ?x then _ else _) = _ => destruct x; try discriminate
    end; inversion Hs; subst; simpl; auto.
Qed.
