// instantiation TU for cxx2coq (C01): every bucket operation that writes the bytes holding the search bound
#include "momo/HashSet.h"
#include "momo/details/HashBucketOpen2N2.h"
#include "momo/details/HashBucketOpenN1.h"
#include "momo/details/HashBucketOpen8.h"
#define MOMO_INCLUDE_OLD_HASH_BUCKETS
#include "momo/details/HashBucketOne.h"
namespace momo { namespace internal {
typedef HashSetItemTraits<uint64_t, MemManagerDefault> C01IT;
typedef BucketOpen2N2<C01IT, 3, true> C01O2;
typedef BucketOpenN1<C01IT, 3, true> C01N1;
template class BucketOpen2N2<C01IT, 3, true>;
template class BucketOpenN1<C01IT, 3, true>;
typedef BucketOne<C01IT, 1> C01One;
template class BucketOne<C01IT, 1>;
struct C01Creator { void operator()(uint64_t*) const {} };
struct C01Replacer { void operator()(uint64_t&, uint64_t&) const {} };
// one use of every member template so that clang instantiates the bodies
inline void c13_use(C01O2& a, C01O2::Params& pa, C01N1& b, C01N1::Params& pb)
{
	C01Creator cr; C01Replacer rp;
	auto ia = a.AddCrt(pa, cr, 0, 0, 0); a.Remove(pa, ia, rp);
	auto ib = b.AddCrt(pb, cr, 0, 0, 0); b.Remove(pb, ib, rp);
}
inline void c01_use_one(C01One& o, C01One::Params& po)
{
	C01Creator cr; C01Replacer rp;
	auto io = o.AddCrt(po, cr, 0, 0, 0); o.Remove(po, io, rp);
}
}}
