(* C17: the GENERATED counting pass + prefix sums of RadixSorter<8>::pvRadixSort (Gen_RadixCount.v) refine the hand model's
   cnt_loop / psum_loop (SorterSort.v): same bucket table, same singleCode / singleRadix flags.  With Radix_Proofs this
   gives: endIndexes[r] = number of items whose digit is <= r (histogram prefix sums = bucket ends). *)
From Coq Require Import ZArith Bool List Lia.
From MomoCommon Require Import GenPrelude.
From C17 Require Import SorterSearch SorterSort Sort_Proofs Radix_Proofs Gen_Radix Radix_Gen_Proofs Gen_RadixCount.
Local Open Scope Z_scope.

Section CountRefine.
  Variable R : Z.
  Hypothesis HR : 0 <= R <= 16.
  Let N := 2 ^ R.
  Variable l : arr.
  Variable p cnt shift begin : Z.
  Hypothesis Hcnt : 0 < cnt < 2 ^ 62.
  Hypothesis Hshift : 0 <= shift.
  Variable items : Z -> Z.
  Hypothesis Hitems : forall k, 0 <= k < cnt -> items k = code l (p + k).
  Variable fuel : nat.

  Lemma count_loop_refines code0 radix0 : forall n f i eg eh sc sr, 1 <= i -> i + Z.of_nat n = cnt -> (n < f)%nat ->
    (forall r, eg r = eh r) -> (forall r, 0 <= eh r <= i) ->
    match cnt_loop R n l p shift i code0 radix0 eh sc sr with
    | (eh', sc', sr') => exists eg' i', pvRadixSort_count_loop0 R f begin code0 cnt items radix0 shift eg i sc sr = Ok (eg', i', sc', sr') /\
                           (forall r, eg' r = eh' r) /\ (forall r, 0 <= eh' r <= cnt)
    end.
  Proof.
    induction n as [|n IH]; intros f i eg eh sc sr Hi Hn Hf Heq Hb.
    - simpl in Hn. cbn [cnt_loop]. destruct f as [|f]; [lia|]. rewrite pvRadixSort_count_loop0_eq.
      destruct (Z.ltb_spec i cnt); [lia|]. exists eg, i. split; [reflexivity|]. split; [exact Heq|]. intros r. specialize (Hb r). lia.
    - rewrite Nat2Z.inj_succ in Hn. cbn [cnt_loop]. cbv zeta. destruct f as [|f]; [lia|]. rewrite pvRadixSort_count_loop0_eq.
      destruct (Z.ltb_spec i cnt); [|lia]. cbv zeta.
      rewrite (Hitems i) by lia. rewrite gen_pvGetRadix_u64_refines by lia.
      set (c := code l (p + i)). set (d := getRadix R c shift).
      rewrite (wrapU_small 64 (eg d + 1)) by (rewrite Heq; specialize (Hb d); lia). rewrite (wrapU_small 64 (i + 1)) by lia.
      apply IH; try lia.
      + intros r. unfold upd. rewrite !Heq. reflexivity.
      + intros r. unfold upd. pose proof (Hb r). pose proof (Hb d). destruct (Z.eqb_spec r d) as [E|E]; lia.
  Qed.

  Lemma psum_loop_refines (g : Z -> Z) : (forall r, 0 <= g r) -> (forall k : nat, psum g k <= cnt) ->
    forall m f r eg eh, 1 <= r -> r + Z.of_nat m = N -> (m < f)%nat -> (forall r', eg r' = eh r') ->
      (forall r', 0 <= r' < r -> eh r' = psum g (Z.to_nat (r' + 1))) -> (forall r', r <= r' -> eh r' = g r') ->
      exists eg' r1, pvRadixSort_count_loop1 N f eg r = Ok (eg', r1) /\ forall r', eg' r' = psum_loop m r eh r'.
  Proof.
    intros Hg Hbound. assert (HN : 0 < N <= 2 ^ 16) by (unfold N; split; [apply Z.pow_pos_nonneg; lia|apply Z.pow_le_mono_r; lia]).
    induction m as [|m IH]; intros f r eg eh Hr Hm Hf Heq Hlo Hhi.
    - simpl in Hm. destruct f as [|f]; [lia|]. rewrite pvRadixSort_count_loop1_eq. destruct (Z.ltb_spec r N); [lia|].
      exists eg, r. split; [reflexivity|]. exact Heq.
    - rewrite Nat2Z.inj_succ in Hm. destruct f as [|f]; [lia|]. rewrite pvRadixSort_count_loop1_eq. destruct (Z.ltb_spec r N); [|lia].
      cbv zeta. cbn [psum_loop]. rewrite (wrapU_small 64 (r - 1)), (wrapU_small 64 (r + 1)) by lia.
      assert (Hsum : eh r + eh (r - 1) = psum g (Z.to_nat (r + 1))).
      { rewrite (Hhi r), (Hlo (r - 1)) by lia. replace (r - 1 + 1) with r by lia.
        replace (Z.to_nat (r + 1)) with (S (Z.to_nat r)) by lia. cbn [psum]. rewrite Z2Nat.id by lia. lia. }
      assert (Hs0 : 0 <= psum g (Z.to_nat (r + 1))) by (apply psum_nonneg; intros; apply Hg).
      rewrite (wrapU_small 64 (eg r + eg (r - 1))) by (rewrite !Heq, Hsum; specialize (Hbound (Z.to_nat (r + 1))); lia).
      apply IH; try lia.
      + intros r'. unfold upd. rewrite !Heq. reflexivity.
      + intros r' Hr'. unfold upd. destruct (Z.eqb_spec r' r) as [->|]; [exact Hsum|apply Hlo; lia].
      + intros r' Hr'. unfold upd. destruct (Z.eqb_spec r' r); [lia|apply Hhi; lia].
  Qed.

  (* the generated counting pass + prefix sums == the hand model's, and endIndexes[r] = #{items with digit <= r} *)
  Theorem gen_count_refines e0 b1 b2 : (Z.to_nat (cnt + N) < fuel)%nat ->
    match cnt_loop R (Z.to_nat (cnt - 1)) l p shift 1 (code l p) (getRadix R (code l p) shift)
            (upd (fun _ => 0) (getRadix R (code l p) shift) 1) true true with
    | (eh, sch, srh) =>
      exists E, pvRadixSort_count R N fuel e0 items b1 b2 begin cnt shift = Ok (tt, E, sch, srh) /\
        (forall r, E r = psum_loop (Z.to_nat (N - 1)) 1 eh r) /\
        (forall r, 0 <= r < N -> E r = psum (fun r' => cz (fun k => Dg R p shift l k =? r') 0 cnt) (Z.to_nat (r + 1)))
    end.
  Proof.
    intros Hfuel. assert (HN : 0 < N <= 2 ^ 16) by (unfold N; split; [apply Z.pow_pos_nonneg; lia|apply Z.pow_le_mono_r; lia]).
    pose proof (cnt_loop_spec R l p shift (code l p) (getRadix R (code l p) shift) (Z.to_nat (cnt - 1)) 1
                  (upd (fun _ => 0) (getRadix R (code l p) shift) 1) true true) as CS.
    pose proof (count_loop_refines (code l p) (getRadix R (code l p) shift) (Z.to_nat (cnt - 1)) fuel 1
                  (upd (fun _ => 0) (getRadix R (code l p) shift) (wrapU 64 (0 + 1))) (upd (fun _ => 0) (getRadix R (code l p) shift) 1) true true) as CR.
    destruct (cnt_loop R (Z.to_nat (cnt - 1)) l p shift 1 (code l p) (getRadix R (code l p) shift) _ true true) as [[eh sch] srh].
    destruct CS as (CE & _ & _).
    destruct CR as (eg1 & i1 & E1 & Heq1 & Hb1); try lia.
    { intros r. reflexivity. }
    { intros r. unfold upd. destruct (r =? getRadix R (code l p) shift); lia. }
    replace (1 + Z.of_nat (Z.to_nat (cnt - 1))) with cnt in CE by lia.
    set (g := fun r => cz (fun k => Dg R p shift l k =? r) 0 cnt).
    assert (Heh : forall r, eh r = g r).
    { intros r. rewrite CE. unfold g. rewrite (cz_split _ 0 1 cnt) by lia. change 1 with (0 + 1) at 3. rewrite cz_one.
      unfold Dg at 2. rewrite Z.add_0_r. unfold upd.
      destruct (Z.eqb_spec r (getRadix R (code l p) shift)) as [->|]; [rewrite Z.eqb_refl; reflexivity|].
      destruct (Z.eqb_spec (getRadix R (code l p) shift) r); [lia|reflexivity]. }
    assert (Hg0 : forall r, 0 <= g r) by (intros; apply cz_nonneg).
    assert (HDr : forall k, 0 <= Dg R p shift l k < N) by (intros; unfold Dg, N; apply getRadix_range; lia).
    assert (Htot : psum g (Z.to_nat N) = cnt).
    { unfold g. rewrite (psum_cz_digits (Dg R p shift l) 0 cnt (Z.to_nat N)); [lia|lia|]. intros k Hk. rewrite Z2Nat.id by lia. apply HDr. }
    assert (Hbound : forall k : nat, psum g k <= cnt).
    { intros k. destruct (le_lt_dec k (Z.to_nat N)) as [L|G].
      - rewrite <- Htot. apply psum_mono; [intros; apply Hg0|exact L].
      - assert (X : forall j : nat, psum g (Z.to_nat N + j) = cnt).
        { induction j as [|j IHj]; [rewrite Nat.add_0_r; exact Htot|]. replace (Z.to_nat N + S j)%nat with (S (Z.to_nat N + j)) by lia.
          cbn [psum]. rewrite IHj. unfold g. rewrite cz_none; [lia|]. intros x Hx. apply Z.eqb_neq. specialize (HDr x). lia. }
        replace k with (Z.to_nat N + (k - Z.to_nat N))%nat by lia. rewrite X. lia. }
    destruct (psum_loop_refines g Hg0 Hbound (Z.to_nat (N - 1)) fuel 1 eg1 eh) as (eg2 & r2 & E2 & Heq2); try lia; auto.
    { intros r' Hr'. replace r' with 0 by lia. rewrite Heh. simpl. lia. }
    exists eg2. split.
    - unfold pvRadixSort_count. destruct (Z.gtb_spec cnt 0); [|lia]. cbv zeta. unfold fuel_of_pvRadixSort_count.
      rewrite (Hitems 0) by lia. rewrite Z.add_0_r. rewrite gen_pvGetRadix_u64_refines by lia.
      fold N. rewrite E1. rewrite E2. reflexivity.
    - split; [exact Heq2|]. intros r Hr. rewrite Heq2. apply (psum_loop_spec g); try lia.
      + intros r' Hr'. replace r' with 0 by lia. rewrite Heh. simpl. lia.
      + intros r' Hr'. apply Heh.
  Qed.
End CountRefine.
