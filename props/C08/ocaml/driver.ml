(* C08 model driver: same case format and output format as harness.cpp (see there). *)
open Zutil
open BinNums
open ArrayBucketModel
open MultiMapModel

let zs = string_of_z
let split_on c s = String.split_on_char c s

let repr_str r = match r with
  | RNull -> "N"
  | RFast st -> Printf.sprintf "F%s.%s.%s" (zs st) (zs (pool_of st)) (zs (fcount_of st))
  | RHeap (cap, cnt) -> Printf.sprintf "H%s.%s" (zs cap) (zs cnt)
  | RStuck -> "STUCK"

let key_int e = int_of_z e.ekey

let dump (c : VersionModel.vmm) : string =
  let m = fst c in
  let (es, n) = m in
  let b = Buffer.create 256 in
  Buffer.add_string b (Printf.sprintf "n=%s kc=%s v=%s " (zs (get_count m)) (zs (get_key_count m)) (zs (VersionModel.vver c)));
  let sorted = Stdlib.List.sort (fun e1 e2 -> compare (key_int e1) (key_int e2)) es in
  Stdlib.List.iter (fun e ->
    Buffer.add_string b (Printf.sprintf "{%s:%s:%s:%s}" (zs e.ekey) (zs e.etag) (repr_str (fst e.earr))
      (String.concat "," (Stdlib.List.map zs (evals e))))) sorted;
  Buffer.add_string b " T=";
  (* traversal of the model (iterator with pvMove), grouped by key like the harness: stable sort by key *)
  let tr = traverse m in
  let tr = Stdlib.List.stable_sort (fun (k1, _) (k2, _) -> compare (int_of_z k1) (int_of_z k2)) tr in
  Stdlib.List.iter (fun (k, v) -> Buffer.add_string b (Printf.sprintf "(%s,%s)" (zs k) (zs v))) tr;
  Buffer.contents b

let run_mm ?(keyver = false) (mfast : coq_Z) (ops : string list) : string =
  let s = ref VersionModel.vst_empty in
  let recs = ref [] in
  Stdlib.List.iter (fun tok ->
    let w = split_on ',' tok in
    let c = (Stdlib.List.hd w).[0] in
    let inject = String.length (Stdlib.List.hd w) > 1 && (Stdlib.List.hd w).[1] = '!' in
    let a = Array.of_list (Stdlib.List.map z_of_string (Stdlib.List.tl w)) in
    let cur = fst (fst !s) in
    let es = fst cur in
    let both = ref false in
    let apply o = s := VersionModel.vstep mfast !s (VersionModel.VOp o) in
    let ret =
      match c with
      | 'a' -> apply (OAdd (a.(0), a.(1), a.(2))); Printf.sprintf "it(%s,%s)" (zs a.(0)) (zs a.(2))
      | 'A' -> (match find a.(0) es with
                | None -> "skip"
                | Some _ -> apply (OAddAt (a.(0), a.(1))); Printf.sprintf "it(%s,%s)" (zs a.(0)) (zs a.(1)))
      | 'n' -> (match find a.(0) es with
                | Some _ -> "skip"
                | None -> apply (OAddKey (a.(0), a.(1)));
                    (match find a.(0) (fst (fst (fst !s))) with
                     | Some e -> Printf.sprintf "key(%s,%s,%d)" (zs e.ekey) (zs e.etag) (Stdlib.List.length (evals e))
                     | None -> "key(?)"))
      | 'L' -> let rec trip i = if i + 2 < Array.length a && i < 9 then ((a.(i), a.(i+1)), a.(i+2)) :: trip (i + 3) else [] in
               (* a NEW container (new crew, version 0) filled by Add(range), then move-assigned to cur *)
               s := (VersionModel.vstep1 mfast VersionModel.vmm_fresh (OAddRange (trip 0)), snd !s); "ok"       (* construct from an initializer list, move-assign *)
      | 'M' -> (match find a.(0) es with
                | Some e when int_of_z a.(1) <= Stdlib.List.length (evals e) -> "mi"
                | _ -> "skip")
      | 'G' -> let rec trip i = if i + 2 < Array.length a then ((a.(i), a.(i+1)), a.(i+2)) :: trip (i + 3) else [] in
               apply (OAddRange (trip 0)); "ok"
      | 'i' -> apply (OInsertKey (a.(0), a.(1)));
               (match find a.(0) (fst (fst (fst !s))) with
                | Some e -> Printf.sprintf "key(%s,%s,%d)" (zs e.ekey) (zs e.etag) (Stdlib.List.length (evals e))
                | None -> "key(?)")
      | 'r' | 'R' ->
               let i = int_of_z a.(1) in
               (match find a.(0) es with
                | None -> "skip"
                | Some e -> if i >= Stdlib.List.length (evals e) then "skip" else begin
                    (* r! : the allocation of a Shrink inside RemoveBack fails (swallowed): failure schedule [true] *)
                    (if inject then
                       (match step1f mfast cur (ORemove (a.(0), nat_of_int i)) [true] with
                        | ((m', _), _) -> s := ((m', (BinInt.Z.add (VersionModel.vver (fst !s)) (z_of_int 1), true)), snd !s))
                     else apply (ORemove (a.(0), nat_of_int i)));
                    match find a.(0) (fst (fst (fst !s))) with
                    | Some e' -> let vs = evals e' in
                        if i < Stdlib.List.length vs then Printf.sprintf "it(%s,%s)" (zs a.(0)) (zs (Stdlib.List.nth vs i)) else "nx"
                    | None -> "lost" end)
      | 'p' -> let before = get_count cur in
               apply (ORemoveIf (lin_pred a.(0) a.(1) a.(2) a.(3)));
               Printf.sprintf "rm%s" (zs (BinInt.Z.sub before (get_count (fst (fst !s)))))
      | 'v' -> (match find a.(0) es with None -> "skip" | Some _ -> apply (ORemoveValues a.(0)); "ok")
      | 'k' -> let before = get_count cur in
               apply (ORemoveKey a.(0));
               Printf.sprintf "rk%s" (zs (BinInt.Z.sub before (get_count (fst (fst !s)))))
      | 'K' -> (match find a.(0) es with
                | None -> "skip"
                | Some e -> apply (ORemoveKey a.(0)); Printf.sprintf "rk%d" (Stdlib.List.length (evals e)))
      | 't' -> (match find a.(0) es with None -> "skip" | Some _ -> apply (OResetKey (a.(0), a.(1))); "ok")
      | 'c' -> apply OClear; "ok"
      | 's' -> apply OSwap; both := true; "ok"
      | 'y' -> apply OCopyTo; both := true; "ok"
      | 'Y' -> apply OCopyFrom; both := true; "ok"
      | 'm' -> apply OMoveFrom; both := true;
               (* oth is now moved-from: variant 2 clears it (a no-op on a dead container); then it is re-created *)
               let var = if Array.length a = 0 then 0 else (int_of_z a.(0)) mod 4 in
               if var = 2 then s := VersionModel.vstep mfast !s VersionModel.VClearOther;
               let dead = snd !s in
               let r = Printf.sprintf "ok:dead(%s,%s,%s)" (zs (get_count (fst dead))) (zs (get_key_count (fst dead)))
                         (string_of_int (Stdlib.List.length (traverse (fst dead)))) in
               s := VersionModel.vstep mfast !s VersionModel.VReviveOther; r
      | _ -> "?" in
    (* nested map's key-version counter (configurations with checkKeyVersion): did the call change it?  kver_changes on the pre-state *)
    let ret =
      if keyver && not inject && String.contains "aAinrRpvkKtcGM" c && ret <> "skip" && not (c = 'c' && es = []) then begin
        let o = match c with
          | 'a' -> Some (OAdd (a.(0), a.(1), a.(2))) | 'A' -> Some (OAddAt (a.(0), a.(1))) | 'i' -> Some (OInsertKey (a.(0), a.(1)))
          | 'n' -> Some (OAddKey (a.(0), a.(1))) | 'r' | 'R' -> Some (ORemove (a.(0), nat_of_int (int_of_z a.(1))))
          | 'p' -> Some (ORemoveIf (lin_pred a.(0) a.(1) a.(2) a.(3))) | 'v' -> Some (ORemoveValues a.(0))
          | 'k' | 'K' -> Some (ORemoveKey a.(0)) | 't' -> Some (OResetKey (a.(0), a.(1))) | 'c' -> Some OClear
          | 'G' -> let rec trip i = if i + 2 < Array.length a then ((a.(i), a.(i+1)), a.(i+2)) :: trip (i + 3) else [] in Some (OAddRange (trip 0))
          | _ -> None in
        match o with
        | Some o -> ret ^ (if VersionModel.kver_changes mfast cur o then "~kv+" else "~kv=")
        | None -> ret ^ "~kv=" end
      else ret in
    let r = ret ^ ";" ^ dump (fst !s) ^ (if !both then ";" ^ dump (snd !s) else "") in
    recs := r :: !recs) ops;
  String.concat "|" (Stdlib.List.rev !recs)

(* ------------------------------------------------------------------ wrapper *)
open WrapperModel
let run_um (mfast : coq_Z) (kprobe : int) (ops : string list) : string =
  let s = ref st_empty in
  let recs = ref [] in
  let offset es k =
    let rec go es acc = match es with
      | [] -> acc
      | e :: r -> if int_of_z e.ekey = k then acc else go r (acc + Stdlib.List.length (evals e)) in
    go es 0 in
  Stdlib.List.iter (fun tok ->
    let w = split_on ',' tok in
    let c = (Stdlib.List.hd w).[0] in
    let a = Array.of_list (Stdlib.List.map z_of_string (Stdlib.List.tl w)) in
    let cur = fst !s in
    let n = int_of_z (get_count cur) in
    let setcur m = s := (m, snd !s) in
    let cnt k = int_of_nat (w_count cur k) in
    let range x y = match w_erase_range mfast cur (nat_of_int x) (nat_of_int y) with
      | ErOk m -> setcur m; "ok"
      | ErThrow -> "throw" in
    let ret = match c with
      | 'i' -> setcur (w_insert mfast cur a.(0) a.(1)); "ok"
      | 'n' -> let m = ref cur in
               let i = ref 0 in
               while !i + 1 < Array.length a do m := w_insert mfast !m a.(!i) a.(!i + 1); i := !i + 2 done;
               setcur !m; "ok"
      | 'l' -> let m = ref (w_clear mfast cur) in
               let i = ref 0 in
               while !i + 1 < Array.length a && !i < 4 do m := w_insert mfast !m a.(!i) a.(!i + 1); i := !i + 2 done;
               setcur !m; "ok"
      | 'h' -> setcur (w_insert mfast cur a.(0) a.(1)); "ok"
      | 'm' -> s := step mfast !s OMoveFrom; "ok"
      | 'j' -> setcur (step1 mfast cur (OAdd (a.(0), a.(1), a.(2)))); "ok"     (* insert of the key object (class, identity) *)
      | 'e' -> let m = w_erase_key mfast cur a.(0) in
               let r = Printf.sprintf "n%s" (zs (BinInt.Z.sub (get_count cur) (get_count m))) in setcur m; r
      | 'x' -> let i = int_of_z a.(1) in
               if i >= cnt a.(0) then "skip" else (setcur (w_erase_at mfast cur a.(0) (nat_of_int i)); "ok")
      | 'q' -> let k = a.(0) in
               if cnt k = 0 then range n n
               else let off = offset (fst cur) (int_of_z k) in range off (off + cnt k)
      | 'g' -> let k = a.(0) in let i = int_of_z a.(1) in let j = int_of_z a.(2) in
               if not (i < j && j <= cnt k) then "skip"
               else let off = offset (fst cur) (int_of_z k) in range (off + i) (off + j)
      | 'w' -> range 0 n
      | 'f' -> let m = w_erase_if mfast cur (lin_pred a.(0) a.(1) a.(2) a.(3)) in
               let r = Printf.sprintf "n%s" (zs (BinInt.Z.sub (get_count cur) (get_count m))) in setcur m; r
      | 'c' -> setcur (w_clear mfast cur); "ok"
      | 'y' -> s := step mfast !s OCopyTo; "ok"
      | 'Y' -> s := step mfast !s OCopyFrom; "ok"
      | 's' -> s := step mfast !s OSwap; "ok"
      | _ -> "?" in
    let cur = fst !s in
    let b = Buffer.create 128 in
    Buffer.add_string b (Printf.sprintf "%s;sz=%s c=" ret (zs (w_size cur)));
    for k = 0 to kprobe - 1 do
      Buffer.add_string b ((if k > 0 then "," else "") ^ string_of_int (int_of_nat (w_count cur (z_of_int k))))
    done;
    Buffer.add_string b " er=";
    for k = 0 to kprobe - 1 do
      let vs = Stdlib.List.sort compare (Stdlib.List.map int_of_z (w_equal_range cur (z_of_int k))) in
      let idn = match find (z_of_int k) (fst cur) with Some e -> int_of_z e.etag | None -> 0 in
      if vs <> [] then Buffer.add_string b (Printf.sprintf "%d/%d:%s;" k idn (String.concat "," (Stdlib.List.map string_of_int vs)))
    done;
    let tf x = if x then "T" else "F" in
    Buffer.add_string b (Printf.sprintf " eq=%s%s" (tf (w_eq cur (snd !s))) (tf (w_eq (snd !s) cur)));
    recs := Buffer.contents b :: !recs) ops;
  String.concat "|" (Stdlib.List.rev !recs)

(* hx scripts on the HAND model (VersionModel): count, version, and the iterator version check = "stored version == current" *)
let run_hx_hand (ops : string list) : string =
  let m7 = z_of_int 7 in
  let c = ref VersionModel.vmm_fresh in
  let saved : coq_Z option ref = ref None in
  let cv () = zs (get_count (fst !c)) ^ " " ^ zs (VersionModel.vver !c) in
  let recs = Stdlib.List.map (fun tok ->
    let args = if String.length tok > 2 then Stdlib.List.map z_of_string (String.split_on_char ',' (String.sub tok 2 (String.length tok - 2))) else [] in
    let a i = Stdlib.List.nth args i in
    let len k = match find k (fst (fst !c)) with Some e -> Stdlib.List.length (evals e) | None -> -1 in
    let ap o = c := VersionModel.vstep1 m7 !c o in
    match tok.[0] with
    | 'a' -> ap (OAdd (a 0, z_of_int 0, a 1)); cv ()
    | 'r' -> let i = int_of_z (a 1) in
             if len (a 0) < 0 || i >= len (a 0) then "skip" else (ap (ORemove (a 0, nat_of_int i)); cv () ^ " " ^ string_of_int i ^ " true")
    | 'v' -> if len (a 0) < 0 then "skip" else (ap (ORemoveValues (a 0)); cv ())
    | 'K' -> if len (a 0) < 0 then "skip" else (ap (ORemoveKey (a 0)); cv ())
    | 'c' -> ap OClear; cv ()
    | 'D' -> "0 dead 1"
    | 'I' -> if len (a 0) < 0 || int_of_z (a 1) >= len (a 0) then "skip" else (saved := Some (VersionModel.vver !c); "it")
    | 'U' | 'C' -> (match !saved with None -> "skip" | Some v -> if BinInt.Z.eqb v (VersionModel.vver !c) then "ok" else "throw")
    | 'E' -> if args = [] || int_of_z (a 0) <> 0 then "ok" else "throw"
    | _ -> "?") ops in
  String.concat "|" recs

let run_ab2 (mfast : coq_Z) (ops : string list) : string =
  let s = ref (ab_null, ab_null) in
  let d1 (a : ab) = repr_str (fst a) ^ ":" ^ String.concat "," (Stdlib.List.map zs (snd a)) in
  let recs = Stdlib.List.map (fun tok ->
    let f = String.length tok > 1 && tok.[1] = 'f' in
    let arg = match String.index_opt tok ',' with Some i -> z_of_string (String.sub tok (i + 1) (String.length tok - i - 1)) | None -> z_of_int 0 in
    let len (a : ab) = Stdlib.List.length (snd a) in
    let x = if f then fst !s else snd !s in
    let o = match tok.[0] with
      | '+' -> Some (A2 (f, AAdd arg))
      | '-' -> Some (A2 (f, ARemoveAt (nat_of_int (int_of_z arg))))
      | 'b' -> Some (A2 (f, ARemoveBack))
      | 'x' | 'c' -> Some (A2RemoveAll f)
      | 'w' -> Some A2Swap
      | 'm' -> Some (A2MoveCtor f)
      | 'a' -> Some (A2MoveAssign f)
      | 'y' -> Some (A2CopyCtor f)
      | _ -> None in
    ignore (len x);
    (match o with Some o -> s := ab2_step mfast !s o | None -> ());
    d1 (fst !s) ^ ";" ^ d1 (snd !s)) ops in
  String.concat "|" recs

let () = iter_lines (fun line ->
  match words line with
  | "ab2" :: m :: ops -> print_endline (run_ab2 (z_of_string m) ops)
  | "hx" :: ops -> print_endline (run_hx_hand ops)
  | "mm" :: bucket :: m :: _vt :: _hm :: ops -> print_endline (run_mm ~keyver:(bucket = "O2.c" || bucket = "L.f") (z_of_string m) ops)
  | "um" :: _bucket :: m :: _hm :: k :: ops -> print_endline (run_um (z_of_string m) (int_of_string k) ops)
  | _ -> print_endline "?")
