(* C11 -- the generation walks of HashSet::pvFind(key) and HashSet::pvFindBuckets are GENERATED (Gen_HashSetFind.v; table
   arrays are handles, GetNextBuckets / GetCount / operator[] / GetBounds / the one-table lookup pvFind(indexCode, buckets, pred) /
   std::less are Section variables).  Here: instantiated with a chain of model tables -- generation number j has the handle j + 1,
   nullptr = 0 -- the generated walks compute the hand model's gfind / find_buckets_loop, so `all_findable`, `removable`,
   `find_buckets_returns_owner` talk about the generated control flow: newest table first, stop at the first hit, look only at
   the newest table when areItemsNothrowRelocatable, skip tables that are too small, address-range test per table. *)
From Coq Require Import ZArith List Lia Bool.
From MomoCommon Require Import GenPrelude.
From C11 Require Import GrowModel.
From C11 Require Gen_HashSetFind.
Import ListNotations.
Local Open Scope Z_scope.

Lemma list_cases : forall (A : Type) (l : list A), l = [] \/ (exists t, l = [t]) \/ exists t t2 r, l = t :: t2 :: r.
Proof. intros A [|t [|t2 r]]; [left|right; left; exists t|right; right; exists t, t2, r]; reflexivity. Qed.

Section FindTie.
  Variable B : Type.
  Variable b0 : B.
  Variable ub : Z -> B -> Z.
  Variable h : Z -> Z.
  Variable wf0 : bool.
  Variable start : Z -> Z -> Z.
  Variable next : Z -> Z -> Z -> Z.
  Variable nothrow : bool.

  (* handles of a chain of `total` tables: 1 .. total, then nullptr *)
  Definition nxt (total : nat) (x : Z) : Z := if x <? Z.of_nat total then x + 1 else 0.

  (* ---------------- pvFind(key): which generation answers ---------------- *)
  Section Walk.
    Variable k : Z.
    Variable fi : Z -> Z.          (* the iterator that the one-table pvFind returns on the table with that handle; 0 = BucketIterator() *)

    Lemma gen_find_walk : forall (rest : list (table B)) (g : nat) ic pred it0 extra total,
      (forall j t, nth_error rest j = Some t ->
         (fi (Z.of_nat (g + j) + 1) =? 0) = match tfind B b0 ub h wf0 start next t k with None => true | Some _ => false end) ->
      total = (g + length rest)%nat -> rest <> [] ->
      exists hd,
        Gen_HashSetFind.pvFind_key_loop0 nothrow (fun x => x) (nxt total) (fun _ hdl _ => fi hdl) (length rest + extra) ic pred it0 (Z.of_nat g + 1)
          = Ok (match gfind B b0 ub h wf0 start next nothrow rest k g with
                | Some (gi, _, _) => fi (Z.of_nat gi + 1)
                | None => 0
                end, hd).
    Proof.
      induction rest as [|t r IH]; intros g ic pred it0 extra total Hfi Htot Hne; [congruence|].
      cbn [length]. rewrite Nat.add_succ_l. rewrite Gen_HashSetFind.pvFind_key_loop0_eq. cbv zeta.
      cbn [gfind].
      pose proof (Hfi O t eq_refl) as H0. rewrite Nat.add_0_r in H0.
      destruct (tfind B b0 ub h wf0 start next t k) as [[idx pos]|] eqn:TF.
      - rewrite H0. cbn [negb orb]. eexists. reflexivity.
      - rewrite H0. cbn [negb orb]. destruct nothrow.
        + apply Z.eqb_eq in H0. rewrite H0. eexists. reflexivity.
        + destruct r as [|t2 r2].
          * assert (En : nxt total (Z.of_nat g + 1) = 0).
            { unfold nxt. cbn [length] in Htot. replace (Z.of_nat g + 1 <? Z.of_nat total) with false
                by (symmetry; apply Z.ltb_ge; lia). reflexivity. }
            rewrite En. cbn [Z.eqb gfind]. apply Z.eqb_eq in H0. rewrite H0. eexists. reflexivity.
          * assert (En : nxt total (Z.of_nat g + 1) = Z.of_nat (S g) + 1).
            { unfold nxt. cbn [length] in Htot. replace (Z.of_nat g + 1 <? Z.of_nat total) with true
                by (symmetry; apply Z.ltb_lt; lia). lia. }
            rewrite En. replace (Z.of_nat (S g) + 1 =? 0) with false by (symmetry; apply Z.eqb_neq; lia).
            apply (IH (S g) ic pred (fi (Z.of_nat g + 1)) extra total); [|cbn [length] in *; lia|congruence].
            intros j t' Hj. specialize (Hfi (S j) t' Hj). replace (S g + j)%nat with (g + S j)%nat by lia. exact Hfi.
    Qed.
  End Walk.

  (* ---------------- pvFindBuckets: which generation owns the iterator ---------------- *)
  Section Owner.
    Variable bi : Z.
    Variable M : Z.                 (* addresses: item `pos` of bucket bi of generation `owner` lives at owner * M + pos *)
    Variable gs0 : list (table B).  (* the whole chain; handle j + 1 = generation j *)
    Let tab (x : Z) : table B := nth (Z.to_nat (x - 1)) gs0 (mkT B 0 []).
    Let cnt (x : Z) : Z := bcount B (tab x).
    Let bbeg (x : Z) : Z := (x - 1) * M.
    Let bend (x : Z) : Z := (x - 1) * M + Z.of_nat (length (items B (getb B b0 wf0 (tab x) bi))).
    Let less (_ a b : Z) : bool := a <? b.

    Lemma gen_find_buckets_loop : forall (rest : list (table B)) (g : nat) owner pos extra bp,
      (forall j t, nth_error rest j = Some t -> nth_error gs0 (g + j) = Some t) ->
      length gs0 = (g + length rest)%nat ->
      (forall t, In t rest -> Z.of_nat (length (items B (getb B b0 wf0 t bi))) <= M) -> Z.of_nat pos < M ->
      Gen_HashSetFind.pvFindBuckets_loop0 bp (fun x _ => x) (fun x => x) (fun b _ => b) bend cnt (nxt (length gs0)) bbeg less
          (S (length rest) + extra) bi (Z.of_nat owner * M + Z.of_nat pos) (match rest with [] => 0 | _ => Z.of_nat g + 1 end)
        = Ok (match find_buckets_loop B b0 wf0 rest bi owner pos g with
              | Some gi => (Some (Z.of_nat gi + 1), Z.of_nat gi + 1)
              | None => (None, 0)
              end).
    Proof.
      induction rest as [|t r IH]; intros g owner pos extra bp Hnth Hlen HM Hpos.
      - cbn [length find_buckets_loop]. rewrite Nat.add_succ_l. rewrite Gen_HashSetFind.pvFindBuckets_loop0_eq. reflexivity.
      - cbn [length]. rewrite Nat.add_succ_l. rewrite Gen_HashSetFind.pvFindBuckets_loop0_eq. cbv zeta.
        replace (Z.of_nat g + 1 =? 0) with false by (symmetry; apply Z.eqb_neq; lia). cbn [negb].
        cbn [find_buckets_loop].
        assert (Ht : tab (Z.of_nat g + 1) = t).
        { unfold tab. replace (Z.to_nat (Z.of_nat g + 1 - 1)) with g by lia.
          pose proof (Hnth O t eq_refl) as E. rewrite Nat.add_0_r in E. apply nth_error_nth with (d := mkT B 0 []) in E. exact E. }
        assert (Hstep : nxt (length gs0) (Z.of_nat g + 1) = match r with [] => 0 | _ => Z.of_nat (S g) + 1 end).
        { unfold nxt. rewrite Hlen. cbn [length]. destruct r as [|t2 r2].
          - cbn [length]. replace (Z.of_nat g + 1 <? Z.of_nat (g + 1)) with false by (symmetry; apply Z.ltb_ge; lia). reflexivity.
          - cbn [length]. replace (Z.of_nat g + 1 <? Z.of_nat (g + S (S (length r2)))) with true by (symmetry; apply Z.ltb_lt; lia). lia. }
        assert (Hrec : forall bp', Gen_HashSetFind.pvFindBuckets_loop0 bp' (fun x _ => x) (fun x => x) (fun b _ => b) bend cnt (nxt (length gs0)) bbeg less
            (S (length r) + extra) bi (Z.of_nat owner * M + Z.of_nat pos) (nxt (length gs0) (Z.of_nat g + 1))
          = Ok (match find_buckets_loop B b0 wf0 r bi owner pos (S g) with
              | Some gi => (Some (Z.of_nat gi + 1), Z.of_nat gi + 1) | None => (None, 0) end)).
        { intro bp'. rewrite Hstep. apply IH.
          - intros j t' Hj. specialize (Hnth (S j) t' Hj). replace (S g + j)%nat with (g + S j)%nat by lia. exact Hnth.
          - rewrite Hlen. cbn [length]. lia.
          - intros t' Hin. apply HM. right. exact Hin.
          - exact Hpos. }
        unfold cnt at 1. rewrite Ht.
        destruct (bcount B t <=? bi) eqn:Hc.
        + replace (bi >=? bcount B t) with true by (symmetry; apply Z.geb_le; apply Z.leb_le; exact Hc). apply Hrec.
        + replace (bi >=? bcount B t) with false.
          2:{ symmetry. rewrite Z.geb_leb. exact Hc. }
          unfold less, bbeg, bend. rewrite Ht. unfold ptr_in.
          pose proof (HM t (or_introl eq_refl)) as HMt.
          set (len := length (items B (getb B b0 wf0 t bi))) in *.
          replace (Z.of_nat g + 1 - 1) with (Z.of_nat g) by lia.
          destruct (Nat.eqb owner g) eqn:Eo.
          * apply Nat.eqb_eq in Eo. subst owner. cbn [andb].
            replace (Z.of_nat g * M + Z.of_nat pos <? Z.of_nat g * M) with false by (symmetry; apply Z.ltb_ge; lia). cbn [negb andb].
            destruct (Nat.ltb pos len) eqn:Ep.
            -- apply Nat.ltb_lt in Ep. replace (Z.of_nat g * M + Z.of_nat pos <? Z.of_nat g * M + Z.of_nat len) with true
                 by (symmetry; apply Z.ltb_lt; lia). reflexivity.
            -- apply Nat.ltb_ge in Ep. replace (Z.of_nat g * M + Z.of_nat pos <? Z.of_nat g * M + Z.of_nat len) with false
                 by (symmetry; apply Z.ltb_ge; lia). apply Hrec.
          * apply Nat.eqb_neq in Eo. cbn [andb].
            assert (Hout : negb (Z.of_nat owner * M + Z.of_nat pos <? Z.of_nat g * M) &&
                           (Z.of_nat owner * M + Z.of_nat pos <? Z.of_nat g * M + Z.of_nat len) = false).
            { destruct (Nat.lt_ge_cases owner g) as [Hl|Hg].
              - replace (Z.of_nat owner * M + Z.of_nat pos <? Z.of_nat g * M) with true; [reflexivity|].
                symmetry. apply Z.ltb_lt. nia.
              - assert (g < owner)%nat by lia.
                replace (Z.of_nat owner * M + Z.of_nat pos <? Z.of_nat g * M + Z.of_nat len) with false; [apply andb_false_r|].
                symmetry. apply Z.ltb_ge. nia. }
            rewrite Hout. apply Hrec.
    Qed.

    (* the whole generated function (single-table shortcut, walk with its 70 units of fuel, MOMO_ASSERT(false) = Stuck) *)
    Theorem gen_find_buckets_is_model : forall owner pos bp c cp rmp,
      gs0 <> [] -> (length gs0 < 70)%nat ->
      (forall t, In t gs0 -> Z.of_nat (length (items B (getb B b0 wf0 t bi))) <= M) -> Z.of_nat pos < M ->
      Gen_HashSetFind.pvFindBuckets bp (fun x _ => x) (fun x => x) (fun b _ => b) bend cnt (nxt (length gs0)) bbeg less
          c cp 1 rmp bi (Z.of_nat owner * M + Z.of_nat pos)
        = match find_buckets B b0 wf0 gs0 bi owner pos with
          | Some gi => Ok (Z.of_nat gi + 1)
          | None => Stuck
          end.
    Proof.
      intros owner pos bp c cp rmp Hne Hlen HM Hpos. unfold Gen_HashSetFind.pvFindBuckets.
      change (1 =? 0) with false. cbn [negb].
      destruct (list_cases _ gs0) as [E|[[t E]|[t [t2 [r E]]]]]; [congruence| |].
      - assert (Hl1 : length gs0 = 1%nat) by (rewrite E; reflexivity).
        assert (Efb : find_buckets B b0 wf0 gs0 bi owner pos = Some O) by (rewrite E; reflexivity).
        rewrite Efb, Hl1. unfold nxt. change (1 <? Z.of_nat 1) with false. cbv iota. change (0 =? 0) with true. cbv iota. reflexivity.
      - assert (Hl2 : (2 <= length gs0)%nat) by (rewrite E; cbn [length]; lia).
        assert (En : nxt (length gs0) 1 =? 0 = false).
        { unfold nxt. replace (1 <? Z.of_nat (length gs0)) with true by (symmetry; apply Z.ltb_lt; lia). reflexivity. }
        rewrite En. cbv zeta.
        assert (Efb : find_buckets B b0 wf0 gs0 bi owner pos = find_buckets_loop B b0 wf0 gs0 bi owner pos 0).
        { rewrite E. reflexivity. }
        rewrite Efb.
        unfold Gen_HashSetFind.fuel_of_pvFindBuckets.
        replace (Z.to_nat 70) with (S (length gs0) + (69 - length gs0))%nat by (change (Z.to_nat 70) with 70%nat; lia).
        pose proof (gen_find_buckets_loop gs0 O owner pos (69 - length gs0) bp) as L.
        replace (match gs0 with [] => 0 | _ :: _ => Z.of_nat 0 + 1 end) with 1 in L by (rewrite E; reflexivity).
        rewrite L; [| intros j t' Hj; exact Hj | reflexivity | exact HM | exact Hpos].
        destruct (find_buckets_loop B b0 wf0 gs0 bi owner pos 0); reflexivity.
    Qed.
  End Owner.
End FindTie.
