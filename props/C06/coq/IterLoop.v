(* C06 - the boundary of the claim, machine-checked: what `it = c.erase(it)` loops do for the two iterator kinds.
   erase(where) returns the traversal successor for a traversable iterator and end() for a lookup-derived one
   (HashSet::pvRemove: `if (!IsMovable(iter)) return ConstIterator();`), so
       for (it = c.find(k); it != c.end(); ) it = c.erase(it);
   removes ONE element of an unordered_set/unordered_map (all values of k for the multimap) where std removes everything
   from k to the end of its iteration order; started from begin() (or any traversable iterator) it removes the rest of the
   container exactly as std does.  This is the deviation "lookup/insert results may be read, compared, erased or extracted, not
   traversed"; the generators therefore never continue from the iterator returned by erase(find-derived). *)
From Coq Require Import List ZArith Bool Lia Arith.
From C06 Require Import Spec SpecProofs WrapOrdered WrapErase.
Import ListNotations.

(* erase(where) as an iterator-returning step over the (abstract) traversal order: the successor moves to the same index *)
Definition us_erase_at (l : list elem) (a : iter) : option (list elem * iter) :=
  match a with
  | End => None
  | At i trav => if i <? length l
                 then Some (erase_range i (S i) l, if trav then (if S i <? length l then At i true else End) else End)
                 else None
  end.
Definition mm_erase_at (l : list elem) (a : iter) : option (list elem * iter) :=
  match a with
  | End => None
  | At p trav => if p <? length l
                 then Some (erase_range p (S p) l,
                            if S p <? kend l p then At p trav
                            else if trav then (if kend l p <? length l then At p true else End) else End)
                 else None
  end.
(* for (it = a; it != end(); ) it = erase(it);   returns the remaining content and the number of erase calls *)
Fixpoint erase_loop (step : list elem -> iter -> option (list elem * iter)) (fuel : nat) (l : list elem) (a : iter) : list elem * nat :=
  match fuel with
  | 0 => (l, 0)
  | S f => match a with
           | End => (l, 0)
           | _ => match step l a with
                  | None => (l, 0)
                  | Some (l', a') => let (r, n) := erase_loop step f l' a' in (r, S n)
                  end
           end
  end.

Lemma erase_loop_S step f l a : erase_loop step (S f) l a =
  match a with
  | End => (l, 0)
  | _ => match step l a with None => (l, 0) | Some (l', a') => let (r, n) := erase_loop step f l' a' in (r, S n) end
  end.
Proof. reflexivity. Qed.

Theorem lookup_erase_returns_end l i : i < length l ->
  us_erase_at l (At i false) = Some (erase_range i (S i) l, End).
Proof. intros H. unfold us_erase_at. destruct (Nat.ltb_spec i (length l)); [reflexivity|lia]. Qed.

Theorem erase_loop_lookup_erases_one l i fuel : i < length l ->
  erase_loop us_erase_at (S fuel) l (At i false) = (erase_range i (S i) l, 1).
Proof. intros H. rewrite erase_loop_S, lookup_erase_returns_end by auto. destruct fuel; reflexivity. Qed.

Lemma erase_loop_end step fuel l : erase_loop step fuel l End = (l, 0).
Proof. destruct fuel; reflexivity. Qed.

Lemma firstn_erase (l : list elem) i : i <= length l -> firstn i (erase_range i (S i) l) = firstn i l.
Proof.
  intros H. unfold erase_range. assert (E : length (firstn i l) = i) by (apply firstn_length_le; auto).
  rewrite <- E at 1. apply firstn_app_exact.
Qed.
Lemma length_erase1 (l : list elem) i : i < length l -> length (erase_range i (S i) l) = length l - 1.
Proof. intros H. unfold erase_range. rewrite app_length, firstn_length_le, skipn_length by lia. lia. Qed.

Theorem erase_loop_trav_erases_rest l i : i < length l ->
  erase_loop us_erase_at (S (length l)) l (At i true) = (firstn i l, length l - i).
Proof.
  assert (G : forall fuel l i, i < length l -> length l - i <= fuel ->
            erase_loop us_erase_at fuel l (At i true) = (firstn i l, length l - i)).
  { induction fuel as [|f IH]; intros l0 i0 Hi Hf; [lia|].
    rewrite erase_loop_S. unfold us_erase_at. destruct (Nat.ltb_spec i0 (length l0)); [|lia].
    destruct (Nat.ltb_spec (S i0) (length l0)).
    - rewrite IH by (rewrite length_erase1 by auto; lia).
      rewrite firstn_erase by lia. rewrite length_erase1 by auto. f_equal. lia.
    - rewrite erase_loop_end. f_equal; [|lia].
      unfold erase_range. rewrite (skipn_all2 l0) by lia. apply app_nil_r. }
  intros H. apply G; auto. lia.
Qed.

Example erase_loop_examples :
  let l := [(1%Z, 10%Z); (1%Z, 11%Z); (2%Z, 20%Z); (3%Z, 30%Z)] in
  erase_loop us_erase_at 5 l (At 1 false) = ([(1%Z, 10%Z); (2%Z, 20%Z); (3%Z, 30%Z)], 1) /\
  erase_loop us_erase_at 5 l (At 1 true) = ([(1%Z, 10%Z)], 3) /\
  erase_loop mm_erase_at 5 l (At 0 false) = ([(2%Z, 20%Z); (3%Z, 30%Z)], 2) /\
  erase_loop mm_erase_at 5 l (At 0 true) = ([], 4).
Proof. vm_compute. repeat split; reflexivity. Qed.
