// C12 implementation side: the REAL packing / reconstruction code of BucketOpen2N2<3,true>, BucketLimP4<4,.,true>,
// BucketOne and the REAL HashSet growth path (slow-hash keys).  Same case format as ocaml/driver.ml for the
// translator-validation cases; the `set` cases are the independent oracle on the real container.
// Built twice: default (LimP4 hashCount = 4) and -DMOMO_MEM_MANAGER_PTR_USEFUL_BIT_COUNT=48 (hashCount = 6).
#include "private_access.h"
#include "momo/HashSet.h"
#include "momo/details/HashBucketOpen2N2.h"
#include "momo/details/HashBucketOpen8.h"
#include "momo/details/HashBucketLimP4.h"
#include "momo/details/HashBucketOne.h"
using namespace momo;
typedef unsigned long long ull;
// Third build (-DC12_LOWMEM -DMOMO_MEM_MANAGER_PTR_USEFUL_BIT_COUNT=32 -no-pie): 32-bit BucketLimP4PtrState, hashCount = 8.
// Every pointer momo stores must then fit in 32 bits (MemManagerProxy::pvCheckBits asserts it): all momo allocations go
// through a bump allocator over an mmap(MAP_32BIT) arena (below 2 GiB); the executable is linked non-PIE so that the static
// item buffer used by the bucket-level cases is low as well.
#ifdef C12_LOWMEM
#include <sys/mman.h>
class LowMem
{
public:
	explicit LowMem() noexcept {}
	LowMem(LowMem&&) noexcept {}
	LowMem(const LowMem&) noexcept {}
	~LowMem() = default;
	LowMem& operator=(const LowMem&) = delete;
	void* Allocate(size_t size)
	{
		static const size_t arena = size_t(3) << 28;
		static char* base = static_cast<char*>(mmap(nullptr, arena, PROT_READ | PROT_WRITE,
			MAP_PRIVATE | MAP_ANONYMOUS | MAP_32BIT | MAP_NORESERVE, -1, 0));
		static size_t off = 0;
		if (base == MAP_FAILED) throw std::bad_alloc();
		size = (size + 15) & ~size_t(15);
		if (off + size > arena) throw std::bad_alloc();
		void* p = base + off; off += size; return p;
	}
	void Deallocate(void*, size_t) noexcept {}
};
typedef LowMem MM;
#else
typedef MemManagerDefault MM;
#endif
typedef HashSetItemTraits<uint64_t, MM> IT;
typedef internal::BucketOpen2N2<IT, 3, true> O2;
typedef internal::BucketLimP4<IT, 4, MemPoolParams<>, true> P4;
typedef internal::BucketOne<IT, 1> One;
static const size_t H = P4::hashCount;

template<class B> struct Raw {   // storage that is never destroyed (destructors assert emptiness)
	alignas(16) unsigned char buf[sizeof(B) + 16];
	B* b;
	Raw() { b = new (buf) B(); }
};

static MM g_mm;
static O2::Params g_o2params(g_mm);
static One::Params g_oneparams(g_mm);
static P4::Params& p4params() { static P4::Params* p = new P4::Params(g_mm); return *p; }
alignas(16) static uint64_t g_items[8];

struct Getter { size_t v; mutable bool* called; size_t operator()() const { if (called) *called = true; return v; } };
struct Creator { void operator()(uint64_t* p) const { *p = 0; } };
struct Replacer { void operator()(uint64_t&, uint64_t&) const {} };

// ---------------------------------------------------------------- spec-level helpers of the oracle (independent of Coq)
static ull qof(ull L) { return (L + 6) / 8; }
static ull known(ull q, ull h)
{
	ull lowBits = 8 * q + 1;
	ull low = (lowBits >= 64) ? h : (h & ((ull(1) << lowBits) - 1));
	return low | ((h >> 57) << 57);
}

// ---------------------------------------------------------------- hash function with controlled bit patterns
static int g_mode = 0; static ull g_param = 0; static ull g_hashCalls = 0; static std::vector<ull> g_table;
static ull hashOf(ull key)
{
	const ull G = 0x9E3779B97F4A7C15ull;
	switch (g_mode)
	{
	case 0: return key;                                        // identity: low bits only
	case 1: return key << g_param;                             // low g_param bits constant: everything collides in small tables
	case 2: return key * G;                                    // multiplicative
	case 3: return (key * G) | (ull(0xFF) << g_param);         // a byte of ones at bit g_param (valid pack == 255 cases)
	case 4: return ((key * G) >> g_param) << g_param;          // low bits cleared
	case 5: return ~(key << g_param);                          // ones below g_param, inverted key above
	case 6: return (key * G) & ~(ull(0x7F) << 57);             // short hash 0
	case 7: return (key & 0xFF) | ((key >> 8) * G << g_param); // few distinct low bytes, spread above g_param
	case 9: return key < g_table.size() ? g_table[key] : 0;   // explicit table (tbl cases)
	default: return key * G + g_param;
	}
}
static long g_throwBudget = -1;   // >= 0: the hash functor throws once this many further calls have been made
// key categories (all of them slow-hash for momo because the hash functor is custom): 8-byte and 4-byte arithmetic keys,
// a 16-byte struct (sizeof(Item) > alignment: LimP4 minMemPoolIndex = 1), std::string (not trivially relocatable, heap owning)
struct K16 { uint64_t id; uint64_t pad; bool operator==(const K16& o) const { return id == o.id; } };
template<class K> struct KeyOps;
template<> struct KeyOps<uint64_t> { static uint64_t mk(ull id) { return id; } static ull id(const uint64_t& k) { return k; } };
template<> struct KeyOps<uint32_t> { static uint32_t mk(ull id) { return uint32_t(id); } static ull id(const uint32_t& k) { return k; } };
template<> struct KeyOps<K16> { static K16 mk(ull id) { return K16{id, ~id}; } static ull id(const K16& k) { return k.id; } };
template<> struct KeyOps<std::string> {
	static std::string mk(ull id) { return "key-" + std::to_string(id) + std::string(size_t(id % 37), 'x'); }
	static ull id(const std::string& k) { return std::stoull(k.substr(4)); } };
template<class K> struct HFK { size_t operator()(const K& k) const { if (g_throwBudget == 0) throw std::runtime_error("hash"); if (g_throwBudget > 0) --g_throwBudget; ++g_hashCalls; return size_t(hashOf(KeyOps<K>::id(k))); } };
typedef HFK<uint64_t> HF;

// HashTraitsStd clamps the start bucket count to >= 8; this shadows the getter so that tables of 1, 2, 4 buckets exist too
template<class HashBucket, class Key = uint64_t> struct TraitsL : HashTraitsStd<Key, HFK<Key>, std::equal_to<Key>, HashBucket>
{
	typedef HashTraitsStd<Key, HFK<Key>, std::equal_to<Key>, HashBucket> Base;
	size_t logStart;
	explicit TraitsL(size_t ls = 0) : Base(), logStart(ls) {}
	size_t GetLogStartBucketCount() const noexcept { return logStart; }
};

template<class Bucket> struct Spec;
template<class T, size_t M> struct Spec<internal::BucketOpen2N2<T, M, true>> {
	typedef internal::BucketOpen2N2<T, M, true> B;
	static bool valid(B& b, size_t idx, size_t) { return b.mHashData.hashProbes[idx] != 255; }
	static size_t index(B& b, typename B::Iterator it) { return size_t(std::addressof(*it) - &b.mItems); }
	static bool reuses() { return true; }
	static bool alwaysFull() { return false; }
};
template<class T, size_t M, class P> struct Spec<internal::BucketLimP4<T, M, P, true>> {
	typedef internal::BucketLimP4<T, M, P, true> B;
	static bool valid(B& b, size_t idx, size_t count) { size_t HC = B::hashCount; size_t slot = HC - 1 - idx; return slot < HC && slot >= count && b.mShortHashes[slot] >= 128 && b.mShortHashes[slot] <= 254; }
	static size_t index(B& b, typename B::Iterator it) { return size_t(it - b.mPtrState.GetPointer()); }
	static bool reuses() { return true; }
	static bool alwaysFull() { return false; }
};
template<class T> struct Spec<internal::BucketOne<T, 1>> {
	typedef internal::BucketOne<T, 1> B;
	static bool valid(B&, size_t, size_t) { return true; }
	static size_t index(B&, typename B::Iterator) { return 0; }
	static bool reuses() { return false; }   // never needs the class test: 63 bits are stored
	static bool alwaysFull() { return sizeof(typename B::HashState) < sizeof(size_t); }   // narrow state: always recompute
};
// NOTE: Spec<Bucket> exists only for the <.., useHashCodePartGetter = true> classes: if a configuration silently selected the
// fast-hash variant (or BucketOpen8 instead of the Open2N2 fallback) runSet would not compile.  Explicit checks:
template<class B> struct IsO2Part : std::false_type {};
template<class T, size_t M> struct IsO2Part<internal::BucketOpen2N2<T, M, true>> : std::true_type { static const size_t maxCount = M; };
template<class B> struct IsP4Part : std::false_type {};
template<class T, size_t M, class P> struct IsP4Part<internal::BucketLimP4<T, M, P, true>> : std::true_type {};
typedef HashSet<uint64_t, TraitsL<HashBucketOpen8>, MM>::Bucket CfgO8;
typedef HashSet<uint64_t, TraitsL<HashBucketOpen2N2<>>, MM>::Bucket CfgO2;
typedef HashSet<uint64_t, TraitsL<HashBucketLimP4<>>, MM>::Bucket CfgP4;
typedef HashSet<uint64_t, TraitsL<HashBucketOne<>>, MM>::Bucket CfgOne;
typedef HashSet<uint32_t, TraitsL<HashBucketOne<>, uint32_t>, MM>::Bucket CfgOne4;
static_assert(IsO2Part<CfgO8>::value && IsO2Part<CfgO8>::maxCount == 3, "HashBucketOpen8 + slow-hash key must yield BucketOpen2N2<.,3,true>");
static_assert(IsO2Part<CfgO2>::value && sizeof(CfgO2::ShortHash) == 1, "slow-hash key: 1-byte short hashes + hash probes");
static_assert(IsP4Part<CfgP4>::value && CfgP4::useHashCodePartGetter, "slow-hash key, sizeof(Item) >= 4: LimP4 with stored hash parts");
static_assert(sizeof(CfgOne::HashState) == 8 && sizeof(CfgOne4::HashState) == 4, "BucketOne state width follows the item alignment");
static_assert(!IsO2Part<HashSet<uint64_t, HashTraits<uint64_t, HashBucketOpen2N2<>>>::Bucket>::value
	&& !IsP4Part<HashSet<uint64_t, HashTraits<uint64_t, HashBucketLimP4<>>>::Bucket>::value,
	"fast-hash (arithmetic) keys with the default functor select the variants WITHOUT stored hash parts: not the code under test");
static_assert(IsP4Part<HashSet<std::string>::Bucket>::value, "default HashSet<std::string> = LimP4 with stored hash parts");
static_assert(IsO2Part<HashSetOpen<std::string>::Bucket>::value, "HashSetOpen<std::string> = Open8 -> Open2N2<.,3,true>");
#ifdef C12_EXPECT_HC
static_assert(P4::hashCount == C12_EXPECT_HC && CfgP4::hashCount == C12_EXPECT_HC, "pointer-width build selects the expected hashCount");
#endif

template<class HashBucket, class Key = uint64_t> static void runSet(std::istringstream& is)
{
	typedef TraitsL<HashBucket, Key> Traits;
	typedef HashSet<Key, Traits, MM> Set;
	typedef typename Set::Bucket Bucket;
	typedef KeyOps<Key> KO;
	ull opc[8] = {0, 0, 0, 0, 0, 0, 0, 0}, maxDisp = 0;
	ull startLog; is >> g_mode >> g_param >> startLog;
	Set set{Traits(size_t(startLog))};
	std::vector<ull> keys; ull nextKey = 1;
	ull grow = 0, notfound = 0, bitsbad = 0, fullbad = 0, fullSum = 0, reusedSum = 0, maxL = 0, crossed = 0, maxProbeSeen = 0;
	std::string first;
	auto snapshotInvalid = [&](ull& cnt) -> ull {
		ull invalid = 0; cnt = 0;
		if (set.mBuckets == nullptr) return 0;
		auto& bks = *set.mBuckets;
		for (size_t i = 0; i < bks.GetCount(); ++i)
		{
			Bucket& b = bks[i]; auto bounds = b.GetBounds(bks.GetBucketParams());
			size_t c = bounds.GetCount();
			for (auto it = bounds.GetBegin(); it != bounds.GetEnd(); ++it)
			{ ++cnt; if (!Spec<Bucket>::valid(b, Spec<Bucket>::index(b, it), c)) ++invalid; }
		}
		return invalid;
	};
	auto verify = [&]() {
		// (1) every inserted key is found  (2) every stored element reconstructs exactly the known bits of its true hash
		ull saved = g_hashCalls;
		for (ull k : keys) if (!set.Find(KO::mk(k))) { ++notfound; if (first.empty()) first = "notfound:" + std::to_string(k); }
		if (set.mBuckets != nullptr)
		{
			auto& bks = *set.mBuckets; size_t L = bks.GetLogCount(); if (L > maxL) maxL = L;
			for (size_t i = 0; i < bks.GetCount(); ++i)
			{
				Bucket& b = bks[i]; auto bounds = b.GetBounds(bks.GetBucketParams());
				for (auto it = bounds.GetBegin(); it != bounds.GetEnd(); ++it)
				{
					ull h = hashOf(KO::id(*it));
					{ ull disp = (ull(i) - (h & (bks.GetCount() - 1))) & (bks.GetCount() - 1); if (disp > maxDisp) maxDisp = disp; }
					for (size_t d : {size_t(1), size_t(2), size_t(3), size_t(7), size_t(8)})
					{
						size_t newL = L + d; if (newL > 57) continue;
						bool called = false; Getter g{size_t(h), &called};
						ull r = b.GetHashCodePart(g, it, i, L, newL);
						ull expect = called ? h : (Spec<Bucket>::reuses() ? known(qof(L), h) : (h & ~(ull(1) << 63)));
						if (r != expect) { ++bitsbad; if (first.empty()) first = "bits:key=" + std::to_string(KO::id(*it)) + ",L=" + std::to_string(L) + ",newL=" + std::to_string(newL); }
						if (!called && Spec<Bucket>::reuses() && qof(L) != qof(newL)) { ++bitsbad; if (first.empty()) first = "reuse-across-class"; }
					}
				}
			}
		}
		g_hashCalls = saved;
	};
	std::string op;
	while (is >> op)
	{
		ull arg; is >> arg;
		ull reps = (op == "i") ? arg : 1;
		for (ull rep = 0; rep < reps; ++rep)
		{
			ull cnt = 0; ull invalid = snapshotInvalid(cnt);
			size_t oldL = set.mBuckets ? set.mBuckets->GetLogCount() : 0; bool had = set.mBuckets != nullptr;
			ull before = g_hashCalls; ull own = 0;
			bool rebuilt = false;
			if (op == "i") { ull k = nextKey++; keys.push_back(k); set.Insert(KO::mk(k)); own = 1; ++opc[0]; }
			else if (op == "r") { Traits t; set.Reserve(t.CalcCapacity(size_t(1) << arg, Bucket::maxCount)); ++opc[1]; }
			else if (op == "e" && !keys.empty()) { ull k = keys[arg % keys.size()]; keys.erase(keys.begin() + (arg % keys.size())); set.Remove(KO::mk(k)); own = 1; ++opc[2]; }
			else if (op == "c") { set.Clear(arg != 0); keys.clear(); rebuilt = true; ++opc[3]; }                 // Clear(shrink)
			else if (op == "k") { Set tmp(set); set.Swap(tmp); rebuilt = true; ++opc[4]; }                         // copy construction + Swap
			else if (op == "m") { Set tmp(std::move(set)); Set tmp2(std::move(tmp)); set.Swap(tmp2); rebuilt = true; ++opc[5]; }   // move construction + Swap
			else if (op == "x" && !keys.empty())                                                                    // Extract + re-Insert of the extracted item
			{
				ull k = keys[arg % keys.size()];
				auto ext = set.Extract(set.Find(KO::mk(k))); set.Insert(std::move(ext)); own = 2; ++opc[6];
			}
			ull calls = g_hashCalls - before - own;
			size_t newL = set.mBuckets ? set.mBuckets->GetLogCount() : 0;
			if (rebuilt) verify();
			else if (had && newL != oldL)
			{
				++grow;
				ull predicted = Spec<Bucket>::alwaysFull() ? cnt : (!Spec<Bucket>::reuses() ? 0 : (qof(oldL) != qof(newL) ? cnt : invalid));
				if (qof(oldL) != qof(newL)) ++crossed;
				if (calls != predicted) { ++fullbad; if (first.empty()) first = "full:" + std::to_string(calls) + "!=" + std::to_string(predicted) + ",L=" + std::to_string(oldL) + "->" + std::to_string(newL); }
				fullSum += calls; reusedSum += cnt - calls;
				verify();
			}
		}
	}
	verify();
	printf("grow=%llu crossed=%llu notfound=%llu bitsbad=%llu fullbad=%llu full=%llu reused=%llu maxL=%llu count=%llu maxdisp=%llu ops=%llu,%llu,%llu,%llu,%llu,%llu,%llu first=%s\n",
		grow, crossed, notfound, bitsbad, fullbad, fullSum, reusedSum, maxL, ull(set.GetCount()), maxDisp,
		opc[0], opc[1], opc[2], opc[3], opc[4], opc[5], opc[6], first.empty() ? "-" : first.c_str());
}

static void printP4(P4& b) { for (size_t i = 0; i < H; ++i) printf("%s%u", i ? " " : "", unsigned(b.mShortHashes[i])); }

int main()
{
	std::string line;
	while (std::getline(std::cin, line))
	{
		std::istringstream is(line); std::string cmd; is >> cmd;
		if (cmd == "o2add" || cmd == "o2rem" || cmd == "o2get")
		{
			Raw<O2> r; ull s1 = 0, v;
			if (cmd != "o2get") is >> s1;
			r.b->mState[1] = uint8_t(s1);
			for (int i = 0; i < 3; ++i) { is >> v; r.b->mHashData.shortHashes[i] = uint8_t(v); }
			for (int i = 0; i < 3; ++i) { is >> v; r.b->mHashData.hashProbes[i] = uint8_t(v); }
			if (cmd == "o2add")
			{
				ull h, L, probe; is >> h >> L >> probe;
				if (r.b->pvGetCount() >= 3) { puts("Stuck"); continue; }
				r.b->AddCrt(g_o2params, Creator(), size_t(h), size_t(L), size_t(probe));
			}
			else if (cmd == "o2rem")
			{
				ull index; is >> index;
				if (index < 3 - r.b->pvGetCount() || index > 2) { puts("Stuck"); continue; }
				r.b->Remove(g_o2params, O2::Iterator(&r.b->mItems + index + 1), Replacer());
			}
			else
			{
				ull full, bidx, L, newL, index; is >> full >> bidx >> L >> newL >> index;
				bool useFull = r.b->mHashData.hashProbes[index] == 255 || (L + 6) / 8 != (newL + 6) / 8;
				if (!useFull && O2::pvGetProbeShift(L) == 0) { puts("Stuck"); continue; }
				Getter g{size_t(full), nullptr};
				printf("%llu\n", ull(r.b->GetHashCodePart(g, O2::Iterator(&r.b->mItems + index + 1), size_t(bidx), size_t(L), size_t(newL))));
				continue;
			}
			printf("%u", unsigned(r.b->mState[1]));
			for (int i = 0; i < 3; ++i) printf(" %u", unsigned(r.b->mHashData.shortHashes[i]));
			for (int i = 0; i < 3; ++i) printf(" %u", unsigned(r.b->mHashData.hashProbes[i]));
			puts("");
		}
		else if (cmd == "p4set" || cmd == "p4rem" || cmd == "p4get")
		{
			ull hc, v; is >> hc;
			if (hc != H) { puts("wrong-build"); continue; }
			Raw<P4> r;
			for (size_t i = 0; i < H; ++i) { is >> v; r.b->mShortHashes[i] = uint8_t(v); }
			r.b->mPtrState.Set(g_items, 3);
			if (cmd == "p4set")
			{
				ull idx, h, L, probe; is >> idx >> h >> L >> probe;
				r.b->pvSetHashProbe(size_t(idx), size_t(h), size_t(L), size_t(probe));
				printP4(*r.b); puts("");
			}
			else if (cmd == "p4rem")
			{
				ull idx; is >> idx; size_t c = r.b->pvGetCount();
				if (c == 1) { puts("count1"); continue; }      // needs real pool memory: covered by p4seq
				if (idx >= c) { puts("Stuck"); continue; }
				r.b->Remove(p4params(), g_items + idx, Replacer());
				printP4(*r.b); puts("");
			}
			else
			{
				ull full, bidx, L, newL, idx; is >> full >> bidx >> L >> newL >> idx;
				Getter g{size_t(full), nullptr};
				printf("%llu\n", ull(r.b->GetHashCodePart(g, g_items + idx, size_t(bidx), size_t(L), size_t(newL))));
			}
		}
		else if (cmd == "p4seq")
		{	// a real bucket with real pool memory: a h L probe | r idx | g idx bidx L newL full
			ull hc; is >> hc;
			if (hc != H) { puts("wrong-build"); continue; }
			P4* b = new P4(); std::string op; bool stuck = false;
			while (!stuck && (is >> op))
			{
				if (op == "a")
				{
					ull h, L, probe; is >> h >> L >> probe;
					if (b->pvGetCount() >= 4) { printf("Stuck;"); stuck = true; break; }
					b->AddCrt(p4params(), Creator(), size_t(h), size_t(L), size_t(probe));
					printP4(*b); printf(" m%u%s;", unsigned(b->pvGetMemPoolIndex()), b->WasFull() ? "W" : "w");
				}
				else if (op == "r")
				{
					ull idx; is >> idx;
					if (b->mPtrState.GetPointer() == nullptr || idx >= b->pvGetCount()) { printf("Stuck;"); stuck = true; break; }
					b->Remove(p4params(), b->mPtrState.GetPointer() + idx, Replacer());
					printP4(*b); printf(" m%u%s;", unsigned(b->pvGetMemPoolIndex()), b->WasFull() ? "W" : "w");
				}
				else if (op == "g")
				{
					ull idx, bidx, L, newL, full; is >> idx >> bidx >> L >> newL >> full;
					Getter g{size_t(full), nullptr};
					printf("%llu;", ull(b->GetHashCodePart(g, b->mPtrState.GetPointer() + idx, size_t(bidx), size_t(L), size_t(newL))));
				}
			}
			b->Clear(p4params()); delete b;
			puts("");
		}
		else if (cmd == "oneadd" || cmd == "onerem" || cmd == "oneget")
		{
			Raw<One> r; ull st; is >> st; r.b->mHashState = st;
			if (cmd == "oneadd") { ull h; is >> h; if (r.b->IsFull()) { puts("Stuck"); continue; } r.b->AddCrt(g_oneparams, Creator(), size_t(h), 0, 0); printf("%llu\n", ull(r.b->mHashState)); }
			else if (cmd == "onerem") { if (!r.b->IsFull()) { puts("Stuck"); continue; } r.b->Remove(g_oneparams, &r.b->mItemBuffer, Replacer()); printf("%llu\n", ull(r.b->mHashState)); }
			else { ull full; is >> full; Getter g{size_t(full), nullptr}; printf("%llu\n", ull(r.b->GetHashCodePart(g, &r.b->mItemBuffer, 0, 0, 0))); }
		}
		else if (cmd == "start")
		{
			ull h, L; is >> h >> L;
			printf("%llu\n", ull(internal::BucketBase::GetStartBucketIndex(size_t(h), size_t(1) << L)));
		}
		else if (cmd == "next")
		{
			std::string kind; ull i, L, p; is >> kind >> i >> L >> p;
			size_t bc = size_t(1) << L;
			printf("%llu\n", ull(kind == "o2" ? O2::GetNextBucketIndex(size_t(i), 0, bc, size_t(p)) : P4::GetNextBucketIndex(size_t(i), 0, bc, size_t(p))));
		}
		else if (cmd == "short")
		{
			ull h; is >> h; printf("%u %u %llu %llu\n", unsigned(O2::pvCalcShortHash(size_t(h))), unsigned(P4::pvCalcShortHash(size_t(h))), ull(O2::pvGetProbeShift(size_t(h & 63))), ull(P4::pvGetProbeShift(size_t(h & 63))));
		}
		else if (cmd == "tbl" || cmd == "tbl2")
		{	// real HashSet<.., HashBucketOpen2N2<3>>: 2^L0 buckets, keys 1..n with the given hashes, optional removals, Reserve to 2^L1
			// (optionally with a hash functor that throws after `budget` calls: the old generation stays chained), optional Reserve to
			// 2^L2 (relocates the older generation L0 -> L2 directly, then L1 -> L2); dump the final layout + number of full-hash calls
			typedef TraitsL<HashBucketOpen2N2<>> Traits;
			typedef HashSet<uint64_t, Traits, MM> Set;
			ull L, L1, L2 = 0, nrem = 0, h; long long budget = -1;
			is >> L >> L1; if (cmd == "tbl2") is >> L2 >> budget >> nrem;
			std::vector<ull> rem; for (ull k = 0; k < nrem; ++k) { is >> h; rem.push_back(h); }
			g_mode = 9; g_table.assign(1, 0); while (is >> h) g_table.push_back(h);
			g_throwBudget = -1;
			Set set{Traits(size_t(L))};
			bool bad = false;
			bool natural = (budget == -2);   // tbl2 with budget -2: the LAST key is inserted at full capacity (pvAddGrow), no Reserve
			size_t nfill = g_table.size() - (natural ? 1 : 0);
			for (ull k = 1; k < nfill && !bad; ++k) { set.Insert(k); if (set.mBuckets->GetLogCount() != L) bad = true; }
			if (bad) { puts("grew-early"); continue; }
			for (ull k : rem) set.Remove(k);
			Traits t; ull before = g_hashCalls;
			if (natural) { if (set.GetCount() != set.GetCapacity()) { puts("not-at-capacity"); continue; } set.Insert(ull(nfill)); ++before; }
			else { g_throwBudget = long(budget); set.Reserve(t.CalcCapacity(size_t(1) << L1, 3)); g_throwBudget = -1; }
			size_t gens1 = 0; for (auto* bk = set.mBuckets; bk != nullptr; bk = bk->GetNextBuckets()) ++gens1;
			ull finalL = L1;
			if (L2 > 0) { set.Reserve(t.CalcCapacity(size_t(1) << L2, 3)); finalL = L2; }
			ull calls = g_hashCalls - before;
			auto& bks = *set.mBuckets;
			if (bks.GetLogCount() != finalL || (L2 > 0 && bks.GetNextBuckets() != nullptr)) { puts("unexpected-size"); continue; }
			std::string out = "calls=" + std::to_string(calls) + " gens=" + std::to_string(gens1) + " ";
			for (size_t i = 0; i < bks.GetCount(); ++i)
			{
				auto& b = bks[i]; size_t c = b.pvGetCount();
				if (b.mState[0] == 0 && b.mState[1] == 0) continue;
				out += std::to_string(i) + ":" + std::to_string(b.mState[0]) + "," + std::to_string(b.mState[1]);
				for (size_t j = 0; j < 3; ++j)
				{
					out += "|" + std::to_string(b.mHashData.shortHashes[j]);
					if (j >= 3 - c) out += "," + std::to_string(b.mHashData.hashProbes[j]) + "," + std::to_string((&b.mItems)[j]);
				}
				out += ";";
			}
			// what the real HashSet::Find returns for every key 1..n (bucket index . slot, or - when absent)
			out += " F:";
			for (ull k = 1; k < g_table.size(); ++k)
			{
				auto pos = set.Find(k);
				if (!pos) { out += "-,"; continue; }
				size_t bi = pos.mIndexCode;
				auto* gb = set.pvFindBuckets(bi, pos.mBucketIterator); size_t gi = 0;   // which generation holds it (0 = newest)
				for (auto* g = set.mBuckets; g != gb; g = g->GetNextBuckets()) ++gi;
				auto& fb = (*gb)[bi];
				out += (gi ? "g" + std::to_string(gi) + ":" : std::string()) + std::to_string(bi) + "." + std::to_string(size_t(std::addressof(*pos) - &fb.mItems)) + ",";
			}
			puts(out.c_str());
		}
		else if (cmd == "tone")
		{	// real HashSet<.., HashBucketOne<>>: 2^L buckets, keys 1..n, removals, Reserve to 2^L1; dump mHashState / key of every used bucket
			typedef TraitsL<HashBucketOne<>> Traits;
			typedef HashSet<uint64_t, Traits, MM> Set;
			ull L, L1, nrem, h; is >> L >> L1 >> nrem;
			std::vector<ull> rem; for (ull k = 0; k < nrem; ++k) { is >> h; rem.push_back(h); }
			g_mode = 9; g_table.assign(1, 0); while (is >> h) g_table.push_back(h);
			g_throwBudget = -1;
			Set set{Traits(size_t(L))};
			bool bad = false;
			for (ull k = 1; k < g_table.size() && !bad; ++k) { set.Insert(k); if (set.mBuckets->GetLogCount() != L) bad = true; }
			if (bad) { puts("grew-early"); continue; }
			for (ull k : rem) set.Remove(k);
			Traits t; ull before = g_hashCalls;
			set.Reserve(t.CalcCapacity(size_t(1) << L1, 1));
			ull calls = g_hashCalls - before;
			auto& bks = *set.mBuckets;
			if (bks.GetLogCount() != L1 || bks.GetNextBuckets() != nullptr) { puts("unexpected-size"); continue; }
			std::string out = "calls=" + std::to_string(calls) + " ";
			for (size_t i = 0; i < bks.GetCount(); ++i)
			{
				auto& b = bks[i];
				if (b.mHashState == 0) continue;
				out += std::to_string(i) + ":" + std::to_string(b.mHashState) + (b.WasFull() ? "W" : "w");
				if (b.IsFull()) out += "," + std::to_string(*&b.mItemBuffer);
				out += ";";
			}
			out += " F:";
			for (ull k = 1; k < g_table.size(); ++k)
			{
				auto pos = set.Find(k);
				if (!pos) out += "-,"; else out += std::to_string(size_t(pos.mIndexCode)) + ",";
			}
			puts(out.c_str());
		}
		else if (cmd == "tp4" || cmd == "tp4c")
		{	// real HashSet<.., HashBucketLimP4<>>: 2^L buckets, keys 1..n, removals, Reserve to 2^L1; dump layout incl. memPoolIndex (WasFull)
			typedef TraitsL<HashBucketLimP4<>> Traits;
			typedef HashSet<uint64_t, Traits, MM> Set;
			typedef Set::Bucket B;
			ull hc, L, L1, L2 = 0, nrem, h; long long budget = -1; is >> hc >> L >> L1;
			if (cmd == "tp4c") is >> L2 >> budget;
			is >> nrem;
			if (hc != B::hashCount) { puts("wrong-build"); continue; }
			std::vector<ull> rem; for (ull k = 0; k < nrem; ++k) { is >> h; rem.push_back(h); }
			g_mode = 9; g_table.assign(1, 0); while (is >> h) g_table.push_back(h);
			g_throwBudget = -1;
			Set set{Traits(size_t(L))};
			bool bad = false;
			bool natural = (budget == -2);
			size_t nfill = g_table.size() - (natural ? 1 : 0);
			for (ull k = 1; k < nfill && !bad; ++k) { set.Insert(k); if (set.mBuckets->GetLogCount() != L) bad = true; }
			if (bad) { puts("grew-early"); continue; }
			for (ull k : rem) set.Remove(k);
			Traits t; ull before = g_hashCalls;
			if (natural) { if (set.GetCount() != set.GetCapacity()) { puts("not-at-capacity"); continue; } set.Insert(ull(nfill)); ++before; }
			else { g_throwBudget = long(budget); set.Reserve(t.CalcCapacity(size_t(1) << L1, 4)); g_throwBudget = -1; }
			size_t gens1 = 0; for (auto* bk = set.mBuckets; bk != nullptr; bk = bk->GetNextBuckets()) ++gens1;
			ull finalL = L1;
			if (L2 > 0) { set.Reserve(t.CalcCapacity(size_t(1) << L2, 4)); finalL = L2; }
			ull calls = g_hashCalls - before;
			auto& bks = *set.mBuckets;
			if (bks.GetLogCount() != finalL || (L2 > 0 && bks.GetNextBuckets() != nullptr)) { puts("unexpected-size"); continue; }
			std::string out = "calls=" + std::to_string(calls) + " gens=" + std::to_string(gens1) + " min=" + std::to_string(B::minMemPoolIndex) + " ";
			for (size_t i = 0; i < bks.GetCount(); ++i)
			{
				auto& b = bks[i]; size_t c = b.pvGetCount(); size_t mpi = b.pvGetMemPoolIndex();
				if (c == 0 && mpi == B::minMemPoolIndex) continue;
				out += std::to_string(i) + ":" + std::to_string(mpi) + (b.WasFull() ? "W" : "w");
				for (size_t j = 0; j < B::hashCount; ++j) out += "|" + std::to_string(b.mShortHashes[j]);
				for (size_t j = 0; j < c; ++j) out += "," + std::to_string(b.mPtrState.GetPointer()[j]);
				out += ";";
			}
			out += " F:";   // what the real HashSet::Find returns for every key
			for (ull k = 1; k < g_table.size(); ++k)
			{
				auto pos = set.Find(k);
				if (!pos) { out += "-,"; continue; }
				size_t bi = pos.mIndexCode;
				auto* gb = set.pvFindBuckets(bi, pos.mBucketIterator); size_t gi = 0;
				for (auto* g = set.mBuckets; g != gb; g = g->GetNextBuckets()) ++gi;
				auto& fb = (*gb)[bi];
				out += (gi ? "g" + std::to_string(gi) + ":" : std::string()) + std::to_string(bi) + "." + std::to_string(size_t(std::addressof(*pos) - fb.mPtrState.GetPointer())) + ",";
			}
			puts(out.c_str());
		}
		else if (cmd == "cfg")
		{	// configuration facts checked by prop.py (the static_asserts above prove the class selection at compile time)
			typedef HashSet<K16, TraitsL<HashBucketLimP4<>, K16>, MM>::Bucket P4K16;
			typedef HashSet<uint32_t, TraitsL<HashBucketLimP4<>, uint32_t>, MM>::Bucket P4K4;
			typedef HashSet<std::string, TraitsL<HashBucketLimP4<>, std::string>, MM>::Bucket P4S;
			printf("hashCount=%llu min8=%llu min4=%llu min16=%llu minS=%llu sizeP4=%llu sizeO2=%llu sizeOne=%llu one4state=%llu o8max=%llu\n",
				ull(CfgP4::hashCount), ull(CfgP4::minMemPoolIndex), ull(P4K4::minMemPoolIndex), ull(P4K16::minMemPoolIndex), ull(P4S::minMemPoolIndex),
				ull(sizeof(CfgP4)), ull(sizeof(CfgO2)), ull(sizeof(CfgOne)), ull(sizeof(CfgOne4::HashState)), ull(IsO2Part<CfgO8>::maxCount));
		}
		else if (cmd == "set")
		{
			std::string kind; is >> kind;
			if (kind == "p4") runSet<HashBucketLimP4<>>(is);
			else if (kind == "o2") runSet<HashBucketOpen2N2<>>(is);
			else if (kind == "o8") runSet<HashBucketOpen8>(is);
			else if (kind == "one") runSet<HashBucketOne<>>(is);
			else if (kind == "p4m1") runSet<HashBucketLimP4<1>>(is);
			else if (kind == "p4m2") runSet<HashBucketLimP4<2>>(is);
			else if (kind == "p4m3") runSet<HashBucketLimP4<3>>(is);
			else if (kind == "o2m1") runSet<HashBucketOpen2N2<1>>(is);
			else if (kind == "o2m2") runSet<HashBucketOpen2N2<2>>(is);
			else if (kind == "p4k4") runSet<HashBucketLimP4<>, uint32_t>(is);
			else if (kind == "p4k16") runSet<HashBucketLimP4<>, K16>(is);
			else if (kind == "p4s") runSet<HashBucketLimP4<>, std::string>(is);
			else if (kind == "o8s") runSet<HashBucketOpen8, std::string>(is);
			else if (kind == "o2k4") runSet<HashBucketOpen2N2<>, uint32_t>(is);
			else if (kind == "onek4") runSet<HashBucketOne<>, uint32_t>(is);
			else if (kind == "onek16") runSet<HashBucketOne<>, K16>(is);
			else puts("?");
		}
		else puts("?");
	}
	return 0;
}
