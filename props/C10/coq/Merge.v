(* C10 -- L2 model of extract / Insert(ExtractedItem&&) / merge exactly as coded:
     SetExtractedItem                      SetUtility.h:253-338   (holder: at most one relocated item)
     HashSet::pvExtract / pvRemove         HashSet.h:1188-1216    (replacer: Relocate or ReplaceRelocate)
     Bucket::Remove                        the last item (in bounds order) of the bucket takes the hole: BucketOpen2N2::Remove
                                           (HashBucketOpen2N2.h:168 -- the class the tie really instantiates: HashBucketOpen8 falls back
                                           to Open2N2<3> for keys that are not fast-hashable), BucketOpenN1 / LimP4 likewise
     HashSetConstIterator                  HashSet.h:349-383      (buckets ascending, items of a bucket last to first)
     HashSet::pvMergeTo                    HashSet.h:1302-1313
     TreeSet::pvExtract / pvMergeTo        TreeSet.h:1358-1365, 1597-1608 (leaf: Relocate; internal: ReplaceRelocate with the predecessor)
     TreeSet::pvMergeToLinear              TreeSet.h:1610-1630
     HashSet/TreeSet::Insert(ExtractedItem&&), InsertCrt -> pvInsert (find, then pvAdd with the creator)
   Items are integers, key x = x / 100 (so distinct items may have equal keys).  Fallible steps consult the
   failure schedules of Machine.world. *)
From Coq Require Import ZArith Bool List Lia Permutation Arith.
From C10 Require Import Machine.
Import ListNotations.
Local Open Scope Z_scope.

Definition key (x : item) : Z := x / 100.
Definition has_key (d : list item) (k : Z) : bool := existsb (fun y => Z.eqb (key y) k) d.

Inductive status := Running | Finished | Failed.

(* ---------------------------------------------------------------- the source side: one hash bucket *)

(* which item the replacer sees as srcItem: None = the removed item is the last one (srcItem == dstItem) *)
Definition repl_of (b : list item) (i : nat) : option item :=
  match rev (skipn (S i) b) with [] => None | l :: _ => Some l end.

Definition bucket_remove (b : list item) (i : nat) : list item :=
  match rev (skipn (S i) b) with
  | [] => firstn i b
  | l :: rp => firstn i b ++ l :: rev rp
  end.

(* the item replacer of pvExtract: relocates x into the new place (Some e = the object now living there) *)
Definition extract_reloc (c : cat) (w : world) (x : item) (repl : option item) : world * option item :=
  match repl with
  | None => relocate c w x
  | Some l => match replace_relocate c w l x with
              | (w', None) => (w', None)
              | (w', Some (e, _)) => (w', Some e)
              end
  end.

(* ---------------------------------------------------------------- HashSet::pvMergeTo, small-step *)

Record mstate := MS { s_done : list (list item); s_cur : list item; s_idx : nat; s_todo : list (list item);
                      s_dst : list item; s_w : world; s_stat : status }.

Definition src_items (st : mstate) : list item := concat (s_done st) ++ s_cur st ++ concat (s_todo st).

Definition set_fail (st : mstate) (w : world) : mstate :=
  MS (s_done st) (s_cur st) (s_idx st) (s_todo st) (s_dst st) w Failed.

(* one iteration of `while (!!iter)`; multi = key policy of the destination *)
Definition hstep (c : cat) (multi : bool) (st : mstate) : mstate :=
  match s_stat st with
  | Running =>
    match s_idx st with
    | O => match s_todo st with
           | [] => MS (s_done st) (s_cur st) O [] (s_dst st) (s_w st) Finished
           | b :: t => MS (s_done st ++ [s_cur st]) b (length b) t (s_dst st) (s_w st) Running
           end
    | S i =>
      let b := s_cur st in
      let x := nth i b 0 in
      (* dstSet.InsertCrt(GetKey( *iter), creator): pvFind hashes / compares (may throw) *)
      match step_func (s_w st) with
      | None => set_fail st (fail_func (s_w st))
      | Some w1 =>
        if negb multi && has_key (s_dst st) (key x) then
          (* not inserted: ++iter, the item stays in the source *)
          MS (s_done st) b i (s_todo st) (s_dst st) w1 Running
        else
          (* pvAdd: the destination prepares the new place (may allocate), then calls the creator *)
          match step_alloc w1 with
          | None => set_fail st (fail_alloc w1)
          | Some w2 =>
            match extract_reloc c w2 x (repl_of b i) with
            | (w3, None) => set_fail st w3
            | (w3, Some e) => MS (s_done st) (bucket_remove b i) i (s_todo st) (s_dst st ++ [e]) w3 Running
            end
          end
      end
    end
  | _ => st
  end.

Definition hinit (src : list (list item)) (dst : list item) (w : world) : mstate := MS [] [] O src dst w Running.
Definition hrun (c : cat) (multi : bool) (n : nat) (st : mstate) : mstate := Nat.iter n (hstep c multi) st.
Definition hfuel (src : list (list item)) : nat := S (length (concat src) + length src).
Definition hmerge (c : cat) (multi : bool) (src : list (list item)) (dst : list item) (w : world) : mstate :=
  hrun c multi (hfuel src) (hinit src dst w).

(* ---------------------------------------------------------------- TreeSet::pvMergeTo, small-step.
   The source is the in-order list; whether the current item sits in a leaf (Relocate) or in an internal
   node (ReplaceRelocate with its in-order predecessor, the last item of the rightmost leaf of the left
   subtree) is decided by the tree shape: here an oracle `list bool`, and every theorem holds for every oracle. *)

Record tstate := TS { t_kept : list item; t_rest : list item; t_dst : list item; t_w : world; t_stat : status;
                      t_shape : list bool }.

Definition tsrc_items (st : tstate) : list item := t_kept st ++ t_rest st.
Definition tset_fail (st : tstate) (w : world) : tstate :=
  TS (t_kept st) (t_rest st) (t_dst st) w Failed (t_shape st).

Definition pred_of (kept : list item) (internal : bool) : option item :=
  if internal then match rev kept with [] => None | p :: _ => Some p end else None.

Definition tstep (c : cat) (multi : bool) (st : tstate) : tstate :=
  match t_stat st with
  | Running =>
    match t_rest st with
    | [] => TS (t_kept st) [] (t_dst st) (t_w st) Finished (t_shape st)
    | x :: r =>
      match step_func (t_w st) with
      | None => tset_fail st (fail_func (t_w st))
      | Some w1 =>
        if negb multi && has_key (t_dst st) (key x) then
          TS (t_kept st ++ [x]) r (t_dst st) w1 Running (t_shape st)
        else
          match step_alloc w1 with
          | None => tset_fail st (fail_alloc w1)
          | Some w2 =>
            let (internal, sh) := pop (t_shape st) in
            match extract_reloc c w2 x (pred_of (t_kept st) internal) with
            | (w3, None) => TS (t_kept st) (t_rest st) (t_dst st) w3 Failed sh
            | (w3, Some e) => TS (t_kept st) r (t_dst st ++ [e]) w3 Running sh
            end
          end
      end
    end
  | _ => st
  end.

Definition tinit (src dst : list item) (w : world) (shape : list bool) : tstate := TS [] src dst w Running shape.
Definition trun (c : cat) (multi : bool) (n : nat) (st : tstate) : tstate := Nat.iter n (tstep c multi) st.
Definition tmerge (c : cat) (multi : bool) (src dst : list item) (w : world) (shape : list bool) : tstate :=
  trun c multi (S (length src)) (tinit src dst w shape).

(* ---------------------------------------------------------------- TreeSet::pvMergeToLinear, small-step.
   Destination = items before dstIter (l_dpre) and from dstIter on (l_dpost). *)

Record lstate := LS { l_kept : list item; l_rest : list item; l_dpre : list item; l_dpost : list item;
                      l_w : world; l_stat : status; l_shape : list bool }.

Definition lsrc_items (st : lstate) := l_kept st ++ l_rest st.
Definition ldst_items (st : lstate) := l_dpre st ++ l_dpost st.

(* pvIsOrdered(dstIter, iter) *)
Definition is_ordered (multi : bool) (d x : item) : bool :=
  if multi then negb (Z.ltb (key x) (key d)) else Z.ltb (key d) (key x).

(* while (dstIter != end && pvIsOrdered(dstIter, iter)) ++dstIter;   each comparison may throw *)
Fixpoint advance (multi : bool) (w : world) (x : item) (dpre dpost : list item) : world * option (list item * list item) :=
  match dpost with
  | [] => (w, Some (dpre, []))
  | d :: r =>
    match step_func w with
    | None => (fail_func w, None)
    | Some w1 => if is_ordered multi d x then advance multi w1 x (dpre ++ [d]) r else (w1, Some (dpre, dpost))
    end
  end.

Definition lstep (c : cat) (multi : bool) (st : lstate) : lstate :=
  match l_stat st with
  | Running =>
    match l_rest st with
    | [] => LS (l_kept st) [] (l_dpre st) (l_dpost st) (l_w st) Finished (l_shape st)
    | x :: r =>
      match advance multi (l_w st) x (l_dpre st) (l_dpost st) with
      | (w1, None) => LS (l_kept st) (l_rest st) (l_dpre st) (l_dpost st) w1 Failed (l_shape st)
      | (w1, Some (dpre, dpost)) =>
        (* multiKey || pvIsGreater(dstIter, key): dstIter == end || key < GetKey( *dstIter) (may throw) *)
        let greater : world * option bool :=
          if multi then (w1, Some true) else
          match dpost with
          | [] => (w1, Some true)
          | d :: _ => match step_func w1 with
                      | None => (fail_func w1, None)
                      | Some w2 => (w2, Some (Z.ltb (key x) (key d))) end
          end in
        match greater with
        | (w2, None) => LS (l_kept st) (l_rest st) dpre dpost w2 Failed (l_shape st)
        | (w2, Some true) =>
          match step_alloc w2 with
          | None => LS (l_kept st) (l_rest st) dpre dpost (fail_alloc w2) Failed (l_shape st)
          | Some w3 =>
            let (internal, sh) := pop (l_shape st) in
            match extract_reloc c w3 x (pred_of (l_kept st) internal) with
            | (w4, None) => LS (l_kept st) (l_rest st) dpre dpost w4 Failed sh
            | (w4, Some e) => LS (l_kept st) r (dpre ++ [e]) dpost w4 Running sh
            end
          end
        | (w2, Some false) =>
          (* ++iter; ++dstIter *)
          match dpost with
          | [] => LS (l_kept st ++ [x]) r dpre [] w2 Running (l_shape st)      (* unreachable *)
          | d :: dr => LS (l_kept st ++ [x]) r (dpre ++ [d]) dr w2 Running (l_shape st)
          end
        end
      end
    end
  | _ => st
  end.

Definition linit (src dst : list item) (w : world) (shape : list bool) : lstate := LS [] src [] dst w Running shape.
Definition lrun (c : cat) (multi : bool) (n : nat) (st : lstate) : lstate := Nat.iter n (lstep c multi) st.
Definition lmerge (c : cat) (multi : bool) (src dst : list item) (w : world) (shape : list bool) : lstate :=
  lrun c multi (S (length src)) (linit src dst w shape).

(* ---------------------------------------------------------------- the holder and extract / insert *)

(* Set::Remove(iter, extItem) = extItem.Create([..](Item* p){ pvExtract(iter, p); })  on one bucket.
   Result: (bucket', holder').  The holder must be empty (MOMO_CHECK(!mHasItem)). *)
Definition extract_at (c : cat) (w : world) (b : list item) (i : nat) : world * list item * option item * bool :=
  match extract_reloc c w (nth i b 0) (repl_of b i) with
  | (w1, None) => (w1, b, None, false)
  | (w1, Some e) => (w1, bucket_remove b i, Some e, true)
  end.

(* Set::Insert(ExtractedItem&&): pvInsert(key of the held item, creator that relocates it out of the holder) *)
Definition insert_holder (c : cat) (multi : bool) (w : world) (dst : list item) (h : option item)
  : world * list item * option item * status :=
  match h with
  | None => (w, dst, None, Failed)                       (* MOMO_CHECK(mHasItem) in GetItem() *)
  | Some x =>
    match step_func w with
    | None => (fail_func w, dst, h, Failed)
    | Some w1 =>
      if negb multi && has_key dst (key x) then (w1, dst, h, Finished)         (* not inserted: the holder keeps it *)
      else match step_alloc w1 with
           | None => (fail_alloc w1, dst, h, Failed)
           | Some w2 =>
             match relocate c w2 x with
             | (w3, None) => (w3, dst, h, Failed)        (* itemRemover threw: mHasItem stays true *)
             | (w3, Some e) => (w3, dst ++ [e], None, Finished)
             end
           end
    end
  end.

(* SetExtractedItem(SetExtractedItem&&): (new holder, old holder) *)
Definition holder_move (c : cat) (w : world) (h : option item) : world * option (option item) * option item :=
  match h with
  | None => (w, Some None, None)
  | Some x => match relocate c w x with
              | (w1, None) => (w1, None, h)              (* constructor threw: no new holder, old one intact *)
              | (w1, Some e) => (w1, Some (Some e), None)
              end
  end.

(* Clear() / destructor *)
Definition holder_clear (w : world) (h : option item) : world :=
  match h with None => w | Some x => dtor w x end.

Definition holder_items (h : option item) : list item := match h with None => [] | Some x => [x] end.

(* ---------------------------------------------------------------- TreeSet::MergeTo(TreeSet&) dispatch
   (TreeSet.h:956-998) when the fast paths do not apply (non-empty traits, unequal memory managers or
   interleaved key ranges): pvMergeTo if count * Log2(count + dstCount) < count + dstCount, else pvMergeToLinear.
   Unified result: (status, source items, destination items, world). *)
Definition tree_merge_to (c : cat) (multi : bool) (src dst : list item) (w : world) (shape : list bool)
  : status * list item * list item * world :=
  let n := length src in let m := length dst in
  if Nat.eqb n 0 then (Finished, src, dst, w) else
  if Nat.ltb (n * Nat.log2 (n + m)) (n + m) then
    let st := tmerge c multi src dst w shape in (t_stat st, tsrc_items st, t_dst st, t_w st)
  else
    let st := lmerge c multi src dst w shape in (l_stat st, lsrc_items st, ldst_items st, l_w st).

(* ---------------------------------------------------------------- Set::Add(pos, ExtractedItem&&) (HashSet.h:837-847, TreeSet.h:809-819):
   no key lookup -- the position was computed by the caller --, pvAdd prepares the place (may allocate), the creator relocates
   the item out of the holder through extItem.Remove *)
Definition add_holder (c : cat) (w : world) (dst : list item) (h : option item) : world * list item * option item * status :=
  match h with
  | None => (w, dst, None, Failed)                       (* MOMO_CHECK(mHasItem) in SetExtractedItem::Remove *)
  | Some x =>
    match step_alloc w with
    | None => (fail_alloc w, dst, h, Failed)
    | Some w1 =>
      match relocate c w1 x with
      | (w2, None) => (w2, dst, h, Failed)
      | (w2, Some e) => (w2, dst ++ [e], None, Finished)
      end
    end
  end.

(* stdish set / unordered_set insert(hint, node_type&&) as fixed in 9f37105 (set.h:466-473):
     if (node.empty()) return end();
     if (!pvCheckHint(hint, node.value())) return mTreeSet.Insert(std::move(extractedItem)).position;
     return mTreeSet.Add(hint, std::move(extractedItem));
   hint_ok = the result of pvCheckHint (its comparisons are a fallible functor step); a valid hint for a unique set implies the
   key is absent *)
Definition std_insert_hint (c : cat) (multi : bool) (w : world) (dst : list item) (h : option item) (hint_ok : bool)
  : world * list item * option item * status :=
  match h with
  | None => (w, dst, None, Finished)
  | Some x =>
    match step_func w with
    | None => (fail_func w, dst, h, Failed)
    | Some w1 => if hint_ok then add_holder c w1 dst h else insert_holder c multi w1 dst h
    end
  end.

(* the same function BEFORE 9f37105: `return insert(std::move(node)).position;` -- a refused node was moved into the temporary
   insert_return_type (one more relocation of the held item) and destroyed with it *)
Definition std_insert_hint_old (c : cat) (multi : bool) (w : world) (dst : list item) (h : option item) (hint_ok : bool)
  : world * list item * option item * status :=
  match h with
  | None => (w, dst, None, Finished)
  | Some x =>
    match step_func w with
    | None => (fail_func w, dst, h, Failed)
    | Some w1 =>
      if hint_ok then add_holder c w1 dst h
      else match insert_holder c multi w1 dst h with
           | (w2, dst', Some y, Finished) =>
             (* not inserted: node_type(std::move(node)) into the result, destroyed at the end of the full expression *)
             (match relocate c w2 y with
              | (w3, Some e) => (dtor w3 e, dst', None, Finished)
              | (w3, None) => (w3, dst', Some y, Failed) end)
           | r => r
           end
    end
  end.
