(* C07 / L1: the two-phase protocol of DataIndexes is atomic for every failure schedule.
   For AddRaw, UpdateRaw(old,new) and UpdateRaw(raw, column): whatever step throws (fl), and also when a
   unique hash refuses, every unique hash holds exactly the entries it held before, every multi hash holds
   the same keys with the same rows (a value array may have been re-sorted by pvAdd: Permutation), and no
   position is left pending; if nothing is refused and nothing throws the result is that of the
   failure-free run (every index accepted). *)
From Coq Require Import List ZArith Lia Bool Arith PeanoNat Permutation.
From C07 Require Import TableSpec TableProofs MultiHash MultiHashProofs IndexModel IndexProofs.
Import ListNotations.

Definition uclean (u : uhash) : Prop := upadd u = None /\ uprem u = None.
Definition utags_lt (n : nat) (u : uhash) : Prop := Forall (fun e => etag e < n) (uents u).
Definition mclean (m : mhash) : Prop := mpadd m = None /\ mprem m = None.
Definition mtags_ok (n : nat) (m : mhash) : Prop :=
  Forall (fun g => gtag g < n) (mgroups m) /\ NoDup (map gtag (mgroups m)).

Definition geq (g g' : mgroup) : Prop :=
  gtag g = gtag g' /\ gkey g = gkey g' /\ gskey g = gskey g' /\ Permutation (gvals g) (gvals g').
Definition meq (m m' : mhash) : Prop :=
  mcols m = mcols m' /\ mpadd m = mpadd m' /\ mprem m = mprem m' /\ Forall2 geq (mgroups m) (mgroups m').

Lemma geq_refl g : geq g g.
Proof. repeat split; reflexivity. Qed.
Lemma Forall2_geq_refl gs : Forall2 geq gs gs.
Proof. induction gs; constructor; auto using geq_refl. Qed.
Lemma meq_refl m : meq m m.
Proof. repeat split; auto using Forall2_geq_refl. Qed.

(* the row is not in the index yet (AddRaw / the new row of UpdateRaw) *)
Definition row_absent_u (raw : Z) (u : uhash) : Prop := ~ In raw (map eraw (uents u)).
Definition row_absent_m (raw : Z) (m : mhash) : Prop := ~ In raw (map gkey (mgroups m)).

Record wf (s : istate) : Prop := mkWf {
  wf_u : Forall (fun u => uclean u /\ utags_lt (ntag s) u) (uhs s);
  wf_m : Forall (fun m => mclean m /\ mtags_ok (ntag s) m) (mhs s) }.

(* ---------------------------------------------------------------- list facts *)

Lemma filter_insert_fresh {A} (f : A -> bool) n x l :
  f x = false -> (forall y, In y l -> f y = true) -> filter f (insert_at n x l) = l.
Proof.
  intros Hx Hl. unfold insert_at. rewrite filter_app. simpl. rewrite Hx. rewrite <- filter_app, firstn_skipn.
  apply filter_all. exact Hl.
Qed.

Lemma u_remove_placed ord t e es n :
  etag e = t -> Forall (fun x => etag x < n) es -> n <= t -> u_remove_tag t (place ord t e es) = es.
Proof.
  intros He Hlt Hn. unfold u_remove_tag, place. apply filter_insert_fresh.
  - rewrite He, Nat.eqb_refl. reflexivity.
  - intros y Hy. rewrite Forall_forall in Hlt. specialize (Hlt y Hy). apply negb_true_iff, Nat.eqb_neq. lia.
Qed.

Lemma u_prepare_remove_keeps fixu R ct u raw :
  uents (u_prepare_remove fixu R ct u raw) = uents u /\ upadd (u_prepare_remove fixu R ct u raw) = upadd u /\
  ucols (u_prepare_remove fixu R ct u raw) = ucols u.
Proof. unfold u_prepare_remove. destruct (u_find R ct u _); simpl; auto. Qed.

(* ---------------------------------------------------------------- one unique hash: add then reject *)

Lemma u_add_reject ord R ct u raw t n :
  uclean u -> utags_lt n u -> n <= t -> u_reject_add (fst (u_add ord R ct u raw None t)) = u.
Proof.
  intros [Ha Hr] Hlt Hn. unfold u_add. destruct (u_find R ct u _) as [e|]; simpl.
  - unfold u_reject_add. rewrite Ha. reflexivity.
  - unfold u_reject_add. simpl. rewrite (u_remove_placed ord t _ (uents u) n); auto.
    destruct u; simpl in *. subst. reflexivity.
Qed.

Lemma u_addmixed_reject fixu ord R ct u raw c v t n :
  uclean u -> utags_lt n u -> n <= t ->
  u_reject_remove (u_reject_add
    (fst (let '(u', r) := u_add_mixed ord R ct u raw c v t in
          (if Z.eqb r raw then u_prepare_remove fixu R ct u' raw else u', r)))) = u.
Proof.
  intros [Ha Hr] Hlt Hn. unfold u_add_mixed. destruct (u_find R ct u _) as [e|].
  - destruct (Z.eqb (eraw e) raw); simpl.
    + destruct (u_prepare_remove_keeps fixu R ct u raw) as (E1 & E2 & E3).
      unfold u_reject_add. rewrite E2, Ha. unfold u_reject_remove. rewrite E1, E2, E3, Ha. destruct u; simpl in *; subst; reflexivity.
    + unfold u_reject_add. rewrite Ha. unfold u_reject_remove. destruct u; simpl in *; subst; reflexivity.
  - rewrite Z.eqb_refl. simpl.
    match goal with |- context [u_prepare_remove fixu R ct ?U raw] => destruct (u_prepare_remove_keeps fixu R ct U raw) as (E1 & E2 & E3) end.
    unfold u_reject_add. rewrite E2. simpl. unfold u_reject_remove. simpl. rewrite E1, E3. simpl.
    rewrite (u_remove_placed ord t _ (uents u) n); auto. destruct u; simpl in *; subst; reflexivity.
Qed.

Lemma existsb_false {A} (f : A -> bool) l : (forall x, In x l -> f x = false) -> existsb f l = false.
Proof.
  intros H. destruct (existsb f l) eqn:E; [|reflexivity]. apply existsb_exists in E as (x & Hx & Hf).
  rewrite (H x Hx) in Hf. discriminate.
Qed.

Lemma u_update_reject fixu ord R ct u old new t n :
  uclean u -> utags_lt n u -> n <= t -> row_absent_u new u ->
  u_reject_remove (u_reject_add_raw
    (fst (let '(u', r) := u_add ord R ct u new (Some old) t in
          (if Z.eqb r new then u_prepare_remove fixu R ct u' old else u', r))) new) = u.
Proof.
  intros [Ha Hr] Hlt Hn Habs. unfold u_add. destruct (u_find R ct u _) as [e|] eqn:Ef.
  - assert (Hne : Z.eqb (eraw e) new = false).
    { apply Z.eqb_neq. intros E. apply Habs. rewrite <- E. apply in_map. unfold u_find in Ef. apply find_some in Ef. tauto. }
    rewrite Hne. simpl. destruct (Z.eqb (eraw e) old); simpl.
    + unfold u_reject_add_raw. simpl. rewrite existsb_false.
      * unfold u_reject_remove. simpl. destruct u; simpl in *; subst; reflexivity.
      * intros x Hx. apply andb_false_iff. right. apply Z.eqb_neq. intros E. apply Habs. rewrite <- E. apply in_map. exact Hx.
    + unfold u_reject_add_raw. rewrite Ha. unfold u_reject_remove. destruct u; simpl in *; subst; reflexivity.
  - rewrite Z.eqb_refl. simpl.
    match goal with |- context [u_prepare_remove fixu R ct ?U old] => destruct (u_prepare_remove_keeps fixu R ct U old) as (E1 & E2 & E3) end.
    unfold u_reject_add_raw. rewrite E2. simpl. rewrite E1. simpl.
    assert (Hex : existsb (fun e => Nat.eqb (etag e) t && Z.eqb (eraw e) new) (place ord t (mkE t new (keyc ct (ucols u) new)) (uents u)) = true).
    { apply existsb_exists. eexists. split.
      - apply (Permutation_in _ (Permutation_sym (place_perm ord t _ (uents u)))). left. reflexivity.
      - simpl. rewrite Nat.eqb_refl, Z.eqb_refl. reflexivity. }
    rewrite Hex. unfold u_reject_remove. simpl. rewrite E3. simpl.
    rewrite (u_remove_placed ord t _ (uents u) n); auto. destruct u; simpl in *; subst; reflexivity.
Qed.

(* ---------------------------------------------------------------- lifting over the try-phase *)

Lemma u_phase_rollback (f : uhash -> nat -> uhash * Z) bad applies rej fl n (P : uhash -> Prop) :
  (forall u, uclean u -> rej u = u) ->
  (forall u t, uclean u -> utags_lt n u -> P u -> n <= t -> rej (fst (f u t)) = u) ->
  forall hs j step tag, n <= tag -> Forall (fun u => uclean u /\ utags_lt n u /\ P u) hs ->
    map rej (fst (fst (u_phase f bad applies fl hs j step tag))) = hs.
Proof.
  intros Hclean Hf. induction hs as [|u hs IH]; intros j step tag Hn Hall; [reflexivity|].
  inversion Hall as [|? ? (Hc & Hl & HP) Hall']; subst. simpl.
  assert (Hrest : map rej hs = hs).
  { clear IH Hall. induction hs as [|x xs IHx]; [reflexivity|]. inversion Hall' as [|? ? (Hcx & _) Hx]; subst.
    simpl. rewrite (Hclean x Hcx), IHx; auto. }
  destruct (negb (applies u)).
  - specialize (IH (S j) step tag Hn Hall'). destruct (u_phase f bad applies fl hs (S j) step tag) as [[hs2 v2] s2].
    simpl in *. rewrite (Hclean u Hc), IH. reflexivity.
  - destruct (hits fl step); simpl; [rewrite (Hclean u Hc), Hrest; reflexivity|].
    specialize (Hf u (tag + j) Hc Hl HP ltac:(lia)). destruct (f u (tag + j)) as [u' r]. simpl in Hf.
    destruct (bad r); simpl; [rewrite Hf, Hrest; reflexivity|].
    specialize (IH (S j) (S step) tag Hn Hall'). destruct (u_phase f bad applies fl hs (S j) (S step) tag) as [[hs2 v2] s2].
    simpl in *. rewrite Hf, IH. reflexivity.
Qed.

Lemma m_phase_rollback (f : mhash -> nat -> mhash) applies rej fl n (P : mhash -> Prop) :
  (forall m, mclean m -> rej m = m) ->
  (forall m t, mclean m -> mtags_ok n m -> P m -> n <= t -> meq m (rej (f m t))) ->
  forall ms j step tag, n <= tag -> Forall (fun m => mclean m /\ mtags_ok n m /\ P m) ms ->
    Forall2 meq ms (map rej (fst (fst (m_phase f applies fl ms j step tag)))).
Proof.
  intros Hclean Hf. induction ms as [|m ms IH]; intros j step tag Hn Hall; [constructor|].
  inversion Hall as [|? ? (Hc & Hl & HP) Hall']; subst. simpl.
  assert (Hrest : Forall2 meq ms (map rej ms)).
  { clear IH Hall. induction ms as [|x xs IHx]; [constructor|]. inversion Hall' as [|? ? (Hcx & _) Hx]; subst.
    simpl. rewrite (Hclean x Hcx). constructor; [apply meq_refl|auto]. }
  destruct (negb (applies m)).
  - specialize (IH (S j) step tag Hn Hall'). destruct (m_phase f applies fl ms (S j) step tag) as [[ms2 v2] s2].
    simpl in *. rewrite (Hclean m Hc). constructor; [apply meq_refl|exact IH].
  - destruct (hits fl step); simpl; [rewrite (Hclean m Hc); constructor; [apply meq_refl|exact Hrest]|].
    specialize (IH (S j) (S step) tag Hn Hall'). destruct (m_phase f applies fl ms (S j) (S step) tag) as [[ms2 v2] s2].
    simpl in *. constructor; [apply Hf; auto; lia|exact IH].
Qed.

(* ---------------------------------------------------------------- one multi hash: add then reject *)

Lemma m_get_group_in t gs g : m_get_group t gs = Some g -> In g gs /\ gtag g = t.
Proof. unfold m_get_group. intros H. apply find_some in H as [H1 H2]. apply Nat.eqb_eq in H2. auto. Qed.

Lemma m_get_group_unique t gs g : NoDup (map gtag gs) -> In g gs -> gtag g = t -> m_get_group t gs = Some g.
Proof.
  intros Hn Hin Ht. unfold m_get_group. apply find_unique_match; auto.
  - apply Nat.eqb_eq. exact Ht.
  - intros y Hy Hty. apply Nat.eqb_eq in Hty. eapply NoDup_map_inj; [exact Hn|exact Hy|exact Hin|congruence].
Qed.

Lemma update_group_geq t (f h : mgroup -> mgroup) gs :
  (forall g, gtag g = t -> geq g (h (f g)) /\ gtag (f g) = t) ->
  Forall2 geq gs (m_update_group t h (m_update_group t f gs)).
Proof.
  intros H. induction gs as [|g gs IH]; simpl; [constructor|]. constructor; [|exact IH].
  destruct (Nat.eqb_spec (gtag g) t) as [E|E].
  - destruct (H g E) as [H1 H2]. rewrite H2, Nat.eqb_refl. exact H1.
  - replace (Nat.eqb (gtag g) t) with false by (symmetry; apply Nat.eqb_neq; exact E). apply geq_refl.
Qed.

Lemma update_group_tags t f gs : (forall g, gtag (f g) = gtag g) -> map gtag (m_update_group t f gs) = map gtag gs.
Proof.
  intros H. induction gs as [|g gs IH]; simpl; [reflexivity|]. rewrite IH. f_equal. destruct (Nat.eqb (gtag g) t); auto.
Qed.

Lemma pv_add_shape raw vals : exists vals1, pv_add raw vals = vals1 ++ [raw] /\ Permutation vals1 vals.
Proof.
  assert (Hs : forall l, Permutation (isort l) l).
  { induction l as [|x l IH]; simpl; [reflexivity|].
    assert (Hi : forall y l0, Permutation (ins y l0) (y :: l0)).
    { intros y l0. induction l0 as [|z l0 IH0]; simpl; [reflexivity|]. destruct (Z.leb y z); [reflexivity|].
      etransitivity; [apply perm_skip; exact IH0|apply perm_swap]. }
    etransitivity; [apply Hi|apply perm_skip; exact IH]. }
  unfold pv_add. eexists; split; [reflexivity|]. unfold sort_slice.
  set (f := fst (sort_range (length vals))). set (d := snd (sort_range (length vals))).
  rewrite <- (firstn_skipn f vals) at 4. apply Permutation_app_head.
  rewrite <- (firstn_skipn d (skipn f vals)) at 3. apply Permutation_app_tail. apply Hs.
Qed.

Lemma m_remove_placed ord t g gs n :
  gtag g = t -> Forall (fun x => gtag x < n) gs -> n <= t -> m_remove_group t (place ord t g gs) = gs.
Proof.
  intros He Hlt Hn. unfold m_remove_group, place. apply filter_insert_fresh.
  - rewrite He, Nat.eqb_refl. reflexivity.
  - intros y Hy. rewrite Forall_forall in Hlt. specialize (Hlt y Hy). apply negb_true_iff, Nat.eqb_neq. lia.
Qed.

Lemma m_get_placed ord t g gs n :
  gtag g = t -> Forall (fun x => gtag x < n) gs -> n <= t -> m_get_group t (place ord t g gs) = Some g.
Proof.
  intros He Hlt Hn. unfold m_get_group. apply find_unique_match.
  - apply (Permutation_in _ (Permutation_sym (place_perm ord t g gs))). left. reflexivity.
  - apply Nat.eqb_eq. exact He.
  - intros y Hy Hty. apply Nat.eqb_eq in Hty. apply (Permutation_in _ (place_perm ord t g gs)) in Hy.
    destruct Hy as [<-|Hy]; [reflexivity|]. rewrite Forall_forall in Hlt. specialize (Hlt y Hy). lia.
Qed.

(* adding raw to an existing group (pvAdd) and rejecting gives the same group up to the order of the values *)
Lemma pvadd_reject_groups t gs g raw :
  NoDup (map gtag gs) -> In g gs -> gtag g = t ->
  let gs1 := m_update_group t (fun g => mkG (gtag g) (gkey g) (gskey g) (pv_add raw (gvals g))) gs in
  exists g1, m_get_group t gs1 = Some g1 /\ gvals g1 <> [] /\
    Forall2 geq gs (m_update_group t (fun g => mkG (gtag g) (gkey g) (gskey g) (removelast (gvals g))) gs1).
Proof.
  intros Hn Hin Ht gs1.
  assert (Htags1 : map gtag gs1 = map gtag gs) by (apply update_group_tags; reflexivity).
  set (g1 := mkG (gtag g) (gkey g) (gskey g) (pv_add raw (gvals g))).
  exists g1. split; [|split].
  - apply m_get_group_unique; [rewrite Htags1; exact Hn| |exact Ht].
    unfold gs1, m_update_group. apply in_map_iff. exists g. split; [|exact Hin].
    replace (Nat.eqb (gtag g) t) with true by (symmetry; apply Nat.eqb_eq; exact Ht). reflexivity.
  - simpl. destruct (pv_add_shape raw (gvals g)) as (v1 & -> & _). destruct v1; discriminate.
  - apply update_group_geq. intros g0 Hg0. split; [|simpl; exact Hg0]. repeat split; simpl; auto.
    destruct (pv_add_shape raw (gvals g0)) as (v1 & -> & Hp). rewrite removelast_last. symmetry. exact Hp.
Qed.

Lemma m_add_like_reject ord (found : option mgroup) m raw k t n :
  mclean m -> mtags_ok n m -> n <= t ->
  (forall g, found = Some g -> In g (mgroups m)) ->
  let m1 := match found with
            | Some g => mkM (mcols m) (m_update_group (gtag g) (fun g => mkG (gtag g) (gkey g) (gskey g) (pv_add raw (gvals g))) (mgroups m))
                            (Some (gtag g)) (mprem m)
            | None => mkM (mcols m) (place ord t (mkG t raw k []) (mgroups m)) (Some t) (mprem m)
            end in
  meq m (m_reject_add m1) /\ mgroups m1 = mgroups m1.
Proof.
  intros [Ha Hr] [Hlt Hnd] Hn Hfound m1. split; [|reflexivity]. unfold m1. destruct found as [g|].
  - specialize (Hfound g eq_refl).
    destruct (pvadd_reject_groups (gtag g) (mgroups m) g raw Hnd Hfound eq_refl) as (g1 & Hg & Hne & Hall).
    unfold m_reject_add. simpl. rewrite Hg. destruct (gvals g1) eqn:Ev; [congruence|].
    repeat split; simpl; auto.
  - unfold m_reject_add. simpl. rewrite (m_get_placed ord t _ (mgroups m) n); auto. simpl.
    rewrite (m_remove_placed ord t _ (mgroups m) n); auto. repeat split; simpl; auto. apply Forall2_geq_refl.
Qed.

Lemma m_prepare_remove_keeps fixm R ct m raw :
  mgroups (m_prepare_remove fixm R ct m raw) = mgroups m /\ mpadd (m_prepare_remove fixm R ct m raw) = mpadd m /\
  mcols (m_prepare_remove fixm R ct m raw) = mcols m.
Proof. unfold m_prepare_remove. destruct (m_find R ct m _); simpl; auto. Qed.

Lemma m_reject_after_prepare fixm R ct m raw :
  m_reject_remove (m_reject_add (m_prepare_remove fixm R ct m raw)) = m_reject_remove (m_reject_add m).
Proof.
  destruct (m_prepare_remove_keeps fixm R ct m raw) as (E1 & E2 & E3).
  unfold m_reject_add. rewrite E2, E1, E3. destruct (mpadd m) eqn:Em; [|unfold m_reject_remove; rewrite E1, E2, E3, Em; reflexivity].
  destruct (m_get_group n (mgroups m)); reflexivity.
Qed.

Lemma meq_reject_remove m m' : meq m m' -> mprem m = None -> meq m (m_reject_remove m').
Proof. intros (A & B & C & D) H. repeat split; simpl; auto. Qed.

Lemma m_add_reject ord R ct m raw t n :
  mclean m -> mtags_ok n m -> row_absent_m raw m -> n <= t -> meq m (m_reject_add (m_add ord R ct m raw t)).
Proof.
  intros Hc Ht Habs Hn. unfold m_add. destruct (m_find R ct m _) as [g|] eqn:Ef.
  - assert (Hin : In g (mgroups m)) by (unfold m_find in Ef; apply find_some in Ef; tauto).
    destruct (Z.eqb_spec (gkey g) raw) as [E|E]; [exfalso; apply Habs; rewrite <- E; apply in_map; exact Hin|].
    apply (m_add_like_reject ord (Some g) m raw [] t n Hc Ht Hn). intros g0 H0; inversion H0; subst; exact Hin.
  - apply (m_add_like_reject ord None m raw _ t n Hc Ht Hn). discriminate.
Qed.

Lemma m_addmixed_reject ord R ct m raw c v t n :
  mclean m -> mtags_ok n m -> n <= t -> meq m (m_reject_add (m_add_mixed ord R ct m raw c v t)).
Proof.
  intros Hc Ht Hn. unfold m_add_mixed. destruct (m_find R ct m _) as [g|] eqn:Ef.
  - assert (Hin : In g (mgroups m)) by (unfold m_find in Ef; apply find_some in Ef; tauto).
    apply (m_add_like_reject ord (Some g) m raw [] t n Hc Ht Hn). intros g0 H0; inversion H0; subst; exact Hin.
  - apply (m_add_like_reject ord None m raw _ t n Hc Ht Hn). discriminate.
Qed.

(* ---------------------------------------------------------------- no throw, no refusal = the failure-free run *)

Lemma u_phase_nothrow f bad applies fl hs j step tag :
  snd (fst (u_phase f bad applies fl hs j step tag)) <> Some Thrown ->
  u_phase f bad applies fl hs j step tag = u_phase f bad applies None hs j step tag.
Proof.
  revert j step. induction hs as [|u hs IH]; intros j step H; [reflexivity|]. simpl in *.
  destruct (negb (applies u)).
  - specialize (IH (S j) step). destruct (u_phase f bad applies fl hs (S j) step tag) as [[a b] c0].
    simpl in *. rewrite <- IH by exact H. reflexivity.
  - destruct (hits fl step); [simpl in H; congruence|]. simpl. destruct (f u (tag + j)) as [u' r].
    destruct (bad r); [reflexivity|].
    specialize (IH (S j) (S step)). destruct (u_phase f bad applies fl hs (S j) (S step) tag) as [[a b] c0].
    simpl in *. rewrite <- IH by exact H. reflexivity.
Qed.

Lemma m_phase_nothrow f applies fl ms j step tag :
  snd (fst (m_phase f applies fl ms j step tag)) <> Some Thrown ->
  m_phase f applies fl ms j step tag = m_phase f applies None ms j step tag.
Proof.
  revert j step. induction ms as [|m ms IH]; intros j step H; [reflexivity|]. simpl in *.
  destruct (negb (applies m)).
  - specialize (IH (S j) step). destruct (m_phase f applies fl ms (S j) step tag) as [[a b] c0].
    simpl in *. rewrite <- IH by exact H. reflexivity.
  - destruct (hits fl step); [simpl in H; congruence|]. simpl.
    specialize (IH (S j) (S step)). destruct (m_phase f applies fl ms (S j) (S step) tag) as [[a b] c0].
    simpl in *. rewrite <- IH by exact H. reflexivity.
Qed.

Lemma m_phase_verdict f applies fl ms j step tag :
  snd (fst (m_phase f applies fl ms j step tag)) = None \/ snd (fst (m_phase f applies fl ms j step tag)) = Some Thrown.
Proof.
  revert j step. induction ms as [|m ms IH]; intros j step; simpl; [left; reflexivity|].
  destruct (negb (applies m)).
  - specialize (IH (S j) step). destruct (m_phase f applies fl ms (S j) step tag) as [[a b] c0]. exact IH.
  - destruct (hits fl step); [right; reflexivity|].
    specialize (IH (S j) (S step)). destruct (m_phase f applies fl ms (S j) (S step) tag) as [[a b] c0]. exact IH.
Qed.

(* ---------------------------------------------------------------- the theorems *)

Definition rolled_back (s s' : istate) : Prop := uhs s' = uhs s /\ Forall2 meq (mhs s) (mhs s').

Lemma wf_u_P s (P : uhash -> Prop) : wf s -> Forall P (uhs s) ->
  Forall (fun u => uclean u /\ utags_lt (ntag s) u /\ P u) (uhs s).
Proof.
  intros [Hu _] HP. rewrite Forall_forall in *. intros u Hin. destruct (Hu u Hin). auto.
Qed.
Lemma wf_m_P s (P : mhash -> Prop) : wf s -> Forall P (mhs s) ->
  Forall (fun m => mclean m /\ mtags_ok (ntag s) m /\ P m) (mhs s).
Proof.
  intros [_ Hm] HP. rewrite Forall_forall in *. intros m Hin. destruct (Hm m Hin). auto.
Qed.
Lemma Forall_True {A} (l : list A) : Forall (fun _ => True) l.
Proof. induction l; constructor; auto. Qed.

Lemma map_id_clean {A} (rej : A -> A) (clean : A -> Prop) l :
  (forall x, clean x -> rej x = x) -> Forall clean l -> map rej l = l.
Proof. intros H Hl. induction Hl; simpl; [reflexivity|]. rewrite H, IHHl; auto. Qed.

Theorem two_phase_atomic_add ord R ct fl s raw :
  wf s -> Forall (row_absent_m raw) (mhs s) ->
  let '(s', o) := add_raw ord R ct fl s raw in
  (o = Accepted /\ s' = fst (add_raw ord R ct None s raw)) \/ (o <> Accepted /\ rolled_back s s').
Proof.
  intros Hwf Habs. unfold add_raw.
  pose proof (u_phase_rollback (fun u t => u_add ord R ct u raw None t) (fun r => negb (Z.eqb r raw)) (fun _ => true)
                u_reject_add fl (ntag s) (fun _ => True)) as HU.
  specialize (HU ltac:(intros u [Ha _]; unfold u_reject_add; rewrite Ha; reflexivity)
                 ltac:(intros u t Hc Hl _ Hn; eapply u_add_reject; eauto)
                 (uhs s) 0 0 (ntag s) (le_n _) (wf_u_P s _ Hwf (Forall_True _))).
  pose proof (u_phase_nothrow (fun u t => u_add ord R ct u raw None t) (fun r => negb (Z.eqb r raw)) (fun _ => true) fl (uhs s) 0 0 (ntag s)) as HUn.
  destruct (u_phase _ _ _ fl (uhs s) 0 0 (ntag s)) as [[us1 v1] st1] eqn:EU. simpl in HU, HUn.
  assert (Hmclean : map m_reject_add (mhs s) = mhs s).
  { apply (map_id_clean _ mclean); [intros m [Ha _]; unfold m_reject_add; rewrite Ha; reflexivity|].
    destruct Hwf as [_ Hm]. rewrite Forall_forall in *. intros m Hin. apply Hm. exact Hin. }
  destruct v1 as [o|].
  - (* a unique hash refused, or the step threw *)
    simpl. right. split.
    + intro E. subst o. clear HUn.
      (* Accepted is never a verdict of the try phase *)
      assert (Hv : forall hs j step, snd (fst (u_phase (fun u t => u_add ord R ct u raw None t) (fun r => negb (Z.eqb r raw)) (fun _ => true) fl hs j step (ntag s))) <> Some Accepted).
      { induction hs as [|u hs IHh]; intros j step; simpl; [discriminate|].
        destruct (hits fl step); [discriminate|]. destruct (u_add ord R ct u raw None (ntag s + j)) as [u' r].
        destruct (negb (Z.eqb r raw)); [discriminate|].
        specialize (IHh (S j) (S step)). destruct (u_phase _ _ _ fl hs (S j) (S step) (ntag s)) as [[a b] c0]. exact IHh. }
      apply (Hv (uhs s) 0 0). rewrite EU. reflexivity.
    + split; simpl; [exact HU|]. rewrite Hmclean. clear. induction (mhs s); constructor; auto using meq_refl.
  - pose proof (m_phase_rollback (fun m t => m_add ord R ct m raw t) (fun _ => true) m_reject_add fl (ntag s) (row_absent_m raw)) as HM.
    specialize (HM ltac:(intros m [Ha _]; unfold m_reject_add; rewrite Ha; reflexivity)
                   ltac:(intros m t Hc Ht HP Hn; apply (m_add_reject ord R ct m raw t (ntag s)); auto)
                   (mhs s) 0 st1 (ntag s + length (uhs s)) ltac:(lia) (wf_m_P s _ Hwf Habs)).
    pose proof (m_phase_nothrow (fun m t => m_add ord R ct m raw t) (fun _ => true) fl (mhs s) 0 st1 (ntag s + length (uhs s))) as HMn.
    pose proof (m_phase_verdict (fun m t => m_add ord R ct m raw t) (fun _ => true) fl (mhs s) 0 st1 (ntag s + length (uhs s))) as HMv.
    destruct (m_phase _ _ fl (mhs s) 0 st1 (ntag s + length (uhs s))) as [[ms1 v2] st2] eqn:EM. simpl in HM, HMn, HMv.
    destruct HMv as [-> | ->].
    + (* every index accepted *)
      left. split; [reflexivity|]. rewrite <- HUn by discriminate. rewrite <- HMn by discriminate. reflexivity.
    + right. simpl. split; [discriminate|]. split; simpl; [exact HU|exact HM].
Qed.

Lemma u_phase_not_accepted f bad applies fl hs j step tag :
  snd (fst (u_phase f bad applies fl hs j step tag)) <> Some Accepted.
Proof.
  revert j step. induction hs as [|u hs IH]; intros j step; simpl; [discriminate|].
  destruct (negb (applies u)).
  - specialize (IH (S j) step). destruct (u_phase f bad applies fl hs (S j) step tag) as [[a b] c0]. exact IH.
  - destruct (hits fl step); [discriminate|]. destruct (f u (tag + j)) as [u' r]. destruct (bad r); [discriminate|].
    specialize (IH (S j) (S step)). destruct (u_phase f bad applies fl hs (S j) (S step) tag) as [[a b] c0]. exact IH.
Qed.

Lemma u_clean_reject_update u new : uclean u -> u_reject_remove (u_reject_add_raw u new) = u.
Proof. intros [Ha Hr]. unfold u_reject_add_raw. rewrite Ha. unfold u_reject_remove. destruct u; simpl in *; subst; reflexivity. Qed.
Lemma u_clean_reject_col u : uclean u -> u_reject_remove (u_reject_add u) = u.
Proof. intros [Ha Hr]. unfold u_reject_add. rewrite Ha. unfold u_reject_remove. destruct u; simpl in *; subst; reflexivity. Qed.
Lemma m_clean_reject m : mclean m -> m_reject_remove (m_reject_add m) = m.
Proof. intros [Ha Hr]. unfold m_reject_add. rewrite Ha. unfold m_reject_remove. destruct m; simpl in *; subst; reflexivity. Qed.

Lemma Forall2_meq_clean (rej : mhash -> mhash) ms : (forall m, mclean m -> rej m = m) -> Forall mclean ms -> Forall2 meq ms (map rej ms).
Proof. intros H Hc. induction Hc; simpl; constructor; auto. rewrite H by assumption. apply meq_refl. Qed.

Lemma wf_mclean s : wf s -> Forall mclean (mhs s).
Proof. intros [_ Hm]. rewrite Forall_forall in *. intros m Hin. apply Hm. exact Hin. Qed.

(* UpdateRaw(oldRaw, newRaw) *)
Theorem two_phase_atomic_update fixu fixm ord R ct fl s old new :
  wf s -> Forall (row_absent_u new) (uhs s) -> Forall (row_absent_m new) (mhs s) ->
  let '(s', o) := update_raw fixu fixm ord R ct fl s old new in
  (o = Accepted /\ s' = fst (update_raw fixu fixm ord R ct None s old new)) \/ (o <> Accepted /\ rolled_back s s').
Proof.
  intros Hwf Habsu Habsm. unfold update_raw.
  set (fu := fun u t => let '(u', r) := u_add ord R ct u new (Some old) t in
                        (if Z.eqb r new then u_prepare_remove fixu R ct u' old else u', r)).
  set (badu := fun r => negb (Z.eqb r new) && negb (Z.eqb r old)).
  set (ruj := fun u => u_reject_remove (u_reject_add_raw u new)).
  set (fm := fun m t => m_prepare_remove fixm R ct (m_add ord R ct m new t) old).
  set (rmj := fun m => m_reject_remove (m_reject_add m)).
  pose proof (u_phase_rollback fu badu (fun _ => true) ruj fl (ntag s) (row_absent_u new)) as HU.
  specialize (HU ltac:(intros u Hc; apply u_clean_reject_update; exact Hc)
                 ltac:(intros u t Hc Hl HP Hn; apply (u_update_reject fixu ord R ct u old new t (ntag s)); auto)
                 (uhs s) 0 0 (ntag s) (le_n _) (wf_u_P s _ Hwf Habsu)).
  pose proof (u_phase_nothrow fu badu (fun _ => true) fl (uhs s) 0 0 (ntag s)) as HUn.
  pose proof (u_phase_not_accepted fu badu (fun _ => true) fl (uhs s) 0 0 (ntag s)) as HUa.
  destruct (u_phase fu badu (fun _ => true) fl (uhs s) 0 0 (ntag s)) as [[us1 v1] st1] eqn:EU. simpl in HU, HUn, HUa.
  destruct v1 as [o|].
  - right. simpl. split; [congruence|]. split; simpl; [exact HU|].
    apply Forall2_meq_clean; [intros m Hc; apply m_clean_reject; exact Hc|apply wf_mclean; exact Hwf].
  - pose proof (m_phase_rollback fm (fun _ => true) rmj fl (ntag s) (row_absent_m new)) as HM.
    specialize (HM ltac:(intros m Hc; apply m_clean_reject; exact Hc)
                   ltac:(intros m t Hc Ht HP Hn; unfold rmj, fm; rewrite m_reject_after_prepare;
                         apply meq_reject_remove; [apply (m_add_reject ord R ct m new t (ntag s)); auto|apply Hc])
                   (mhs s) 0 st1 (ntag s + length (uhs s)) ltac:(lia) (wf_m_P s _ Hwf Habsm)).
    pose proof (m_phase_nothrow fm (fun _ => true) fl (mhs s) 0 st1 (ntag s + length (uhs s))) as HMn.
    pose proof (m_phase_verdict fm (fun _ => true) fl (mhs s) 0 st1 (ntag s + length (uhs s))) as HMv.
    destruct (m_phase fm (fun _ => true) fl (mhs s) 0 st1 (ntag s + length (uhs s))) as [[ms1 v2] st2] eqn:EM. simpl in HM, HMn, HMv.
    destruct HMv as [-> | ->].
    + left. split; [reflexivity|]. rewrite <- HUn by discriminate. rewrite <- HMn by discriminate. reflexivity.
    + right. simpl. split; [discriminate|]. split; simpl; [exact HU|exact HM].
Qed.

(* UpdateRaw(raw, column, item, assigner): also the item assignment may throw (the last step) *)
Theorem two_phase_atomic_update_column fixu fixm ord R ct fl s raw c v :
  wf s ->
  let '(s', o, ct') := update_col fixu fixm ord R ct fl s raw c v in
  (o = Accepted /\ s' = fst (fst (update_col fixu fixm ord R ct None s raw c v))) \/
  (o <> Accepted /\ rolled_back s s' /\ ct' = ct).
Proof.
  intros Hwf. unfold update_col.
  destruct (Z.eqb v (getc (ct raw) c)); [left; split; reflexivity|].
  set (fu := fun u t => let '(u', r) := u_add_mixed ord R ct u raw c v t in
                        (if Z.eqb r raw then u_prepare_remove fixu R ct u' raw else u', r)).
  set (badu := fun r => negb (Z.eqb r raw)).
  set (appu := fun u => has_col (ucols u) c).
  set (appm := fun m => has_col (mcols m) c).
  set (ruj := fun u => u_reject_remove (u_reject_add u)).
  set (fm := fun m t => m_prepare_remove fixm R ct (m_add_mixed ord R ct m raw c v t) raw).
  set (rmj := fun m => m_reject_remove (m_reject_add m)).
  pose proof (u_phase_rollback fu badu appu ruj fl (ntag s) (fun _ => True)) as HU.
  specialize (HU ltac:(intros u Hc; apply u_clean_reject_col; exact Hc)
                 ltac:(intros u t Hc Hl _ Hn; apply (u_addmixed_reject fixu ord R ct u raw c v t (ntag s)); auto)
                 (uhs s) 0 0 (ntag s) (le_n _) (wf_u_P s _ Hwf (Forall_True _))).
  pose proof (u_phase_nothrow fu badu appu fl (uhs s) 0 0 (ntag s)) as HUn.
  pose proof (u_phase_not_accepted fu badu appu fl (uhs s) 0 0 (ntag s)) as HUa.
  destruct (u_phase fu badu appu fl (uhs s) 0 0 (ntag s)) as [[us1 v1] st1] eqn:EU. simpl in HU, HUn, HUa.
  destruct v1 as [o|].
  - right. simpl. split; [congruence|]. split; [|reflexivity]. split; simpl; [exact HU|].
    apply Forall2_meq_clean; [intros m Hc; apply m_clean_reject; exact Hc|apply wf_mclean; exact Hwf].
  - pose proof (m_phase_rollback fm appm rmj fl (ntag s) (fun _ => True)) as HM.
    specialize (HM ltac:(intros m Hc; apply m_clean_reject; exact Hc)
                   ltac:(intros m t Hc Ht _ Hn; unfold rmj, fm; rewrite m_reject_after_prepare;
                         apply meq_reject_remove; [apply (m_addmixed_reject ord R ct m raw c v t (ntag s)); auto|apply Hc])
                   (mhs s) 0 st1 (ntag s + length (uhs s)) ltac:(lia) (wf_m_P s _ Hwf (Forall_True _))).
    pose proof (m_phase_nothrow fm appm fl (mhs s) 0 st1 (ntag s + length (uhs s))) as HMn.
    pose proof (m_phase_verdict fm appm fl (mhs s) 0 st1 (ntag s + length (uhs s))) as HMv.
    destruct (m_phase fm appm fl (mhs s) 0 st1 (ntag s + length (uhs s))) as [[ms1 v2] st2] eqn:EM. simpl in HM, HMn, HMv.
    destruct HMv as [-> | ->].
    + destruct (hits fl st2) eqn:Eh.
      * right. simpl. split; [discriminate|]. split; [|reflexivity]. split; simpl; [exact HU|exact HM].
      * left. split; [reflexivity|]. rewrite <- HUn by discriminate. rewrite <- HMn by discriminate. simpl. reflexivity.
    + right. simpl. split; [discriminate|]. split; [|reflexivity]. split; simpl; [exact HU|exact HM].
Qed.

(* non-vacuity: a well-formed state with two unique and one multi hash in which a throwing step is rolled back
   and a refusal happens *)
Example atomic_demo :
  let ct := fun r : Z => [r; 7%Z] in
  let s0 := mkI [mkU [0] [] None None; mkU [1] [] None None] [mkM [1] [] None None] 0 in
  let s1 := fst (add_raw (fun _ => 0) (fun _ _ => true) ct None s0 1%Z) in
  snd (add_raw (fun _ => 0) (fun _ _ => true) ct None s0 1%Z) = Accepted /\
  snd (add_raw (fun _ => 0) (fun _ _ => true) ct None s1 2%Z) = Refused 1%Z 1 /\
  snd (add_raw (fun _ => 0) (fun _ _ => true) ct (Some 1) s0 1%Z) = Thrown /\
  map uents (uhs (fst (add_raw (fun _ => 0) (fun _ _ => true) ct (Some 1) s0 1%Z))) = [[]; []].
Proof. vm_compute. repeat split; reflexivity. Qed.
