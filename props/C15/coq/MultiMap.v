(* C15 -- HashMultiMap with checkMode = exception, checkKeyVersion = checkValueVersion = true (HashMultiMap.h).
   Two version cells: the KEY version (version of the nested HashMap's HashSet; key iterators carry a keeper on it) and
   valueVersion (ValueCrew; value ("pair") iterators carry a keeper on it AND embed a key iterator, so they are
   subject to both -- the f1f44c5 situation: InsertKey bumps only the key version).
   One multimap (id 0); handles of another multimap have id 1 (that one is never modified here). *)
From Coq Require Import ZArith List Bool Arith Lia.
Import ListNotations.
Local Open Scope Z_scope.

Inductive kpos := KElem (k : Z) | KGap (k : Z) | KUnk.
Inductive vpos := VAt (i : nat) | VNull | VUnk.
Record mhandle := mkMH {
  kcid : option nat; ksnap : nat; kp : kpos;           (* the key iterator (HashMap position + keeper on the key version) *)
  isv : bool;                                          (* value iterator? *)
  vcid : option nat; vsnap : nat; vp : vpos }.         (* keeper on valueVersion + position in the key's value array *)
Definition mnull : mhandle := mkMH None 0 KUnk true None 0 VNull.     (* Iterator() / GetEnd() *)
Definition knull : mhandle := mkMH None 0 KUnk false None 0 VNull.    (* KeyIterator() *)

Record mstate := mkMS {
  kver : nat; vver : nat; buckets : bool;
  ents : list (Z * list Z);                            (* key -> values in storage order; keys strictly increasing *)
  mhs : nat -> mhandle }.
Inductive mout := MAcc (v : option Z) | MRej | MUndef.

Fixpoint lookup (k : Z) (l : list (Z * list Z)) : option (list Z) :=
  match l with [] => None | (x, vs) :: t => if k =? x then Some vs else lookup k t end.
Fixpoint repl (k : Z) (vs : list Z) (l : list (Z * list Z)) : list (Z * list Z) :=      (* overwrite the values of a present key *)
  match l with [] => [] | (x, xs) :: t => if k =? x then (x, vs) :: t else (x, xs) :: repl k vs t end.
Fixpoint insk (k : Z) (vs : list Z) (l : list (Z * list Z)) : list (Z * list Z) :=      (* insert a new key (sorted) *)
  match l with
  | [] => [(k, vs)]
  | (x, xs) :: t => if k <? x then (k, vs) :: l else (x, xs) :: insk k vs t
  end.
Fixpoint drop (k : Z) (l : list (Z * list Z)) : list (Z * list Z) :=
  match l with [] => [] | (x, xs) :: t => if k =? x then t else (x, xs) :: drop k t end.
(* ValueArray removal: the last value is moved into the hole *)
Definition swap_remove (vs : list Z) (i : nat) : list Z :=
  match rev vs with
  | [] => []
  | lastv :: _ => let n := length vs in
                  if Nat.eqb i (n - 1) then firstn (n - 1) vs
                  else firstn i vs ++ lastv :: firstn (n - 1 - S i) (skipn (S i) vs)
  end.

Definition mset (s : mstate) (i : nat) (h : mhandle) : mstate :=
  mkMS (kver s) (vver s) (buckets s) (ents s) (fun j => if Nat.eqb j i then h else mhs s j).
Definition mupd (s : mstate) (kv vv : nat) (b : bool) (e : list (Z * list Z)) : mstate := mkMS kv vv b e (mhs s).

(* VersionKeeper::Check() on the key version / valueVersion (a keeper of the other multimap is current for ITS map) *)
Definition kself (s : mstate) (h : mhandle) : bool :=
  match kcid h with Some O => Nat.eqb (ksnap h) (kver s) | Some _ => true | None => false end.
Definition vself (s : mstate) (h : mhandle) : bool :=
  match vcid h with Some O => Nat.eqb (vsnap h) (vver s) | Some _ => true | None => false end.
(* VersionKeeper::Check(version, allowEmpty) against THIS multimap *)
Definition kcont (s : mstate) (h : mhandle) (allowEmpty : bool) : bool :=
  match kcid h with None => allowEmpty | Some c => Nat.eqb c 0 && Nat.eqb (ksnap h) (kver s) end.
Definition vcont (s : mstate) (h : mhandle) : bool :=
  match vcid h with None => false | Some c => Nat.eqb c 0 && Nat.eqb (vsnap h) (vver s) end.

Definition kfresh (s : mstate) (p : kpos) : mhandle := mkMH (Some 0%nat) (kver s) p false None 0 VNull.
Definition vfresh (s : mstate) (kh : mhandle) (p : vpos) : mhandle :=
  mkMH (kcid kh) (ksnap kh) (kp kh) true (Some 0%nat) (vver s) p.

Inductive mop :=
| MFind (key : Z) (slot : nat)
| MEnd (slot : nat)
| MForeignK (slot : nat) | MForeignV (slot : nat)
| MMakeIt (sk : nat) (idx : nat) (slot : nat)
| MKDeref (slot : nat) | MKInc (slot : nat)
| MVDeref (slot : nat) | MVInc (slot : nat)
| MAdd (key v : Z) (slot : nat)
| MAddAt (sk : nat) (v : Z) (slot : nat)
| MInsertKey (key : Z) (slot : nat)
| MRemoveIt (slot : nat)
| MRemoveKI (sk : nat) (idx : nat)
| MRemoveValues (sk : nat)
| MRemoveKeyIt (sk : nat)
| MRemoveKey (key : Z)
| MRemoveIf (m : Z)
| MClear
| MResetKey (sk : nat) (key : Z)
| MChkIt (slot : nat) (allowEmpty : bool)
| MCount.

(* key iterator dereference (kit->key, kit->GetCount(), hashMapIter->value): Check() then "position holds an item" *)
Definition kderef (s : mstate) (h : mhandle) : option (option (Z * list Z)) :=   (* None = rejected; Some None = outside the model *)
  if kself s h then
    match kcid h with
    | Some O => match kp h with
                | KElem k => match lookup k (ents s) with Some vs => Some (Some (k, vs)) | None => Some None end
                | KGap _ => None
                | KUnk => Some None
                end
    | Some (S _) => Some (Some (1, [100]))         (* the other multimap holds the single pair (1, 100) *)
    | None => None
    end
  else None.

Definition remove_value (s : mstate) (k : Z) (vs : list Z) (i : nat) : mstate :=
  mupd s (kver s) (S (vver s)) (buckets s) (repl k (swap_remove vs i) (ents s)).

Definition total_values (l : list (Z * list Z)) : Z := Z.of_nat (fold_right (fun e a => (length (snd e) + a)%nat) 0%nat l).

Definition mstep (s : mstate) (o : mop) : mstate * mout :=
  match o with
  | MFind key slot =>
    (mset s slot (kfresh s (match lookup key (ents s) with Some _ => KElem key | None => KGap key end)),
     MAcc (Some (match lookup key (ents s) with Some _ => 1 | None => 0 end)))
  | MEnd slot => (mset s slot mnull, MAcc None)
  | MForeignK slot => (mset s slot (mkMH (Some 1%nat) 0 (KElem 1) false None 0 VNull), MAcc None)
  | MForeignV slot => (mset s slot (mkMH (Some 1%nat) 0 (KElem 1) true (Some 1%nat) 0 (VAt 0)), MAcc None)
  | MMakeIt sk idx slot =>
    let h := mhs s sk in
    match kp h, idx with
    | KUnk, _ => (match kcid h with None => if Nat.eqb idx 0 then (mset s slot mnull, MAcc None) else (s, MRej) | _ => (s, MUndef) end)
    | KGap _, O => (mset s slot mnull, MAcc None)                (* !keyIter && valueIndex == 0 *)
    | _, _ =>
      if kcont s h true then
        match kderef s h with
        | None => (s, MRej)
        | Some None => (s, MUndef)
        | Some (Some (k, vs)) =>
          if Nat.leb idx (length vs) then
            (mset s slot (vfresh s h (if Nat.ltb idx (length vs) then VAt idx else VUnk)), MAcc None)
          else (s, MRej)
        end
      else (s, MRej)
    end
  | MKDeref slot =>
    match kderef s (mhs s slot) with
    | None => (s, MRej) | Some None => (s, MUndef)
    | Some (Some (k, vs)) => (s, MAcc (Some k))
    end
  | MKInc slot =>
    match kderef s (mhs s slot) with
    | None => (s, MRej) | Some None => (s, MUndef)
    | Some (Some _) => (mset s slot knull, MAcc None)           (* positions are not movable: ++ gives the empty iterator *)
    end
  | MVDeref slot =>
    let h := mhs s slot in
    if vself s h then
      match vp h with
      | VNull => (s, MRej)
      | VUnk => (s, MUndef)
      | VAt i => match kderef s h with
                 | None => (s, MRej) | Some None => (s, MUndef)
                 | Some (Some (k, vs)) => (s, MAcc (Some (nth i vs 0)))
                 end
      end
    else (s, MRej)
  | MVInc slot =>
    let h := mhs s slot in
    if vself s h then
      match vp h with
      | VNull => (s, MRej)
      | VUnk => (s, MUndef)
      | VAt i => match kderef s h with
                 | None => (s, MRej)                              (* since f1f44c5: invalid_argument out of pvMove *)
                 | Some None => (s, MUndef)
                 | Some (Some (k, vs)) =>
                   (mset s slot (mkMH (kcid h) (ksnap h) (kp h) true (vcid h) (vsnap h) (if Nat.ltb (S i) (length vs) then VAt (S i) else VUnk)), MAcc None)
                 end
      end
    else (s, MRej)
  | MAdd key v slot =>
    match lookup key (ents s) with
    | Some vs => let s' := mupd s (kver s) (S (vver s)) (buckets s) (repl key (vs ++ [v]) (ents s)) in
                 (mset s' slot (vfresh s' (kfresh s' (KElem key)) (VAt (length vs))), MAcc None)
    | None => let s' := mupd s (S (kver s)) (S (vver s)) true (insk key [v] (ents s)) in
              (mset s' slot (vfresh s' (kfresh s' (KElem key)) (VAt 0)), MAcc None)
    end
  | MAddAt sk v slot =>
    let h := mhs s sk in
    if kcont s h true then
      match kderef s h with
      | None => (s, MRej) | Some None => (s, MUndef)
      | Some (Some (k, vs)) =>
        let s' := mupd s (kver s) (S (vver s)) (buckets s) (repl k (vs ++ [v]) (ents s)) in
        (mset s' slot (vfresh s' h (VAt (length vs))), MAcc None)
      end
    else (s, MRej)
  | MInsertKey key slot =>
    match lookup key (ents s) with
    | Some _ => (mset s slot (kfresh s (KElem key)), MAcc (Some 0))
    | None => let s' := mupd s (S (kver s)) (vver s) true (insk key [] (ents s)) in
              (mset s' slot (kfresh s' (KElem key)), MAcc (Some 1))
    end
  | MRemoveIt slot =>
    let h := mhs s slot in
    if vcont s h then
      match vp h with
      | VNull => (s, MRej)
      | VUnk => (s, MUndef)
      | VAt i =>
        if kcont s h true then
          match kderef s h with
          | None => (s, MRej) | Some None => (s, MUndef)
          | Some (Some (k, vs)) => if Nat.ltb i (length vs) then (remove_value s k vs i, MAcc None) else (s, MUndef)
          end
        else (s, MRej)
      end
    else (s, MRej)
  | MRemoveKI sk idx =>
    let h := mhs s sk in
    match kderef s h with
    | None => (s, MRej) | Some None => (s, MUndef)
    | Some (Some (k, vs)) =>
      if Nat.ltb idx (length vs) then
        if kcont s h true then (remove_value s k vs idx, MAcc None) else (s, MRej)
      else (s, MRej)
    end
  | MRemoveValues sk =>
    let h := mhs s sk in
    if kcont s h true then
      match kderef s h with
      | None => (s, MRej) | Some None => (s, MUndef)
      | Some (Some (k, vs)) => (mupd s (kver s) (S (vver s)) (buckets s) (repl k [] (ents s)), MAcc None)
      end
    else (s, MRej)
  | MRemoveKeyIt sk =>
    let h := mhs s sk in
    if kcont s h true then
      match kderef s h with
      | None => (s, MRej) | Some None => (s, MUndef)
      | Some (Some (k, vs)) => (mupd s (S (kver s)) (S (vver s)) (buckets s) (drop k (ents s)), MAcc None)
      end
    else (s, MRej)
  | MRemoveKey key =>
    match lookup key (ents s) with
    | Some vs => (mupd s (S (kver s)) (S (vver s)) (buckets s) (drop key (ents s)), MAcc (Some (Z.of_nat (length vs))))
    | None => (s, MAcc (Some 0))
    end
  | MRemoveIf m =>
    if m =? 0 then (s, MUndef) else
    let e' := map (fun e => (fst e, filter (fun v => negb (v mod m =? 0)) (snd e))) (ents s) in
    let removed := Z.to_nat (total_values (ents s) - total_values e') in
    (mupd s (kver s) (removed + vver s) (buckets s) e', MAcc (Some (Z.of_nat removed)))
  | MClear =>
    (* without buckets the nested map has no keys at all: HashSet::Clear is then a no-op *)
    (mupd s (if buckets s then S (kver s) else kver s) (S (vver s)) false (if buckets s then [] else ents s), MAcc None)
  | MResetKey sk key =>
    let h := mhs s sk in
    if kcont s h false then
      match kp h with
      | KElem e => if e =? key then (s, MAcc None) else (s, MUndef)
      | KGap _ => (s, MRej)
      | KUnk => (s, MUndef)
      end
    else (s, MRej)
  | MChkIt slot allowEmpty =>
    let h := mhs s slot in
    match vp h with
    | VUnk => (s, MUndef)       (* after ++ past the last value of a key the iterator sits on an unspecified key or is the end *)
    | _ =>
      if kcont s h allowEmpty then
        match vp h with
        | VNull => (s, MAcc None)
        | _ => if vcont s h then (s, MAcc None) else (s, MRej)
        end
      else (s, MRej)
    end
  | MCount => (s, MAcc (Some (total_values (ents s))))
  end.

Definition minit : mstate := mkMS 0 0 false [] (fun _ => mnull).
Fixpoint mrun (s : mstate) (ops : list mop) : mstate :=
  match ops with [] => s | o :: t => mrun (fst (mstep s o)) t end.
Fixpoint mrun_out (s : mstate) (ops : list mop) : mstate * list mout :=
  match ops with
  | [] => (s, [])
  | o :: t => let r := mstep s o in let r2 := mrun_out (fst r) t in (fst r2, snd r :: snd r2)
  end.
