// C19 implementation side, deterministic multi-thread schedules ("barrier harness").
// The REAL ~DataRow / pvAllocateRaw / pvDeallocateFreeRaws run on real threads; only the type of the list head is
// substituted IN THIS TU (no change to /repo): momo spells it `std::atomic<void*>`, so after all standard headers are
// in we `#define atomic c19_atomic` for the momo headers.  c19_atomic wraps a real std::atomic and calls test hooks:
//   disposer thread t : parks after the load in ~DataRow until the script grants it the next step
//                       (= store of the link word + one CAS attempt, optionally forced to fail "spuriously");
//   owner (main thread): after the `freeRaws != nullptr` check and after the exchange a scripted action may run
//                       (grant a parked disposer its step), i.e. a push lands between check and allocate / inside a drain.
// script:  n | nk<t> | nx<t>   NewRow (plain | disposer t steps right after the check | right after the exchange)
//          c | cx<t>           Clear  (plain | disposer t steps right after the exchange)
//          a<k> t<i> r<i> d<k> Add detached #k, exTract row i, Remove row i, destroy detached #k on the main thread
//          b<t>,<k>            disposer t starts destroying detached #k and parks after its load
//          g<t> | f<t>         disposer t: link + CAS | link + spuriously failing CAS (then reloads and parks again)
// output: one line, event|fl=<free list by walking link words>|pc=<pool allocate count> per event, in real order:
//          B<t>:<id>  G<t>:ok|fail  F<t>  K0|K1 (check result)  X (exchange done)  N<id> A<id> T<id> R<id> D<id> C<ids>  -
#include "private_access.h"
#include <condition_variable>

namespace c19
{
	void on_load(bool nonnull);
	bool on_cas();
	void cas_result(bool ok);
	void on_exchange();
}
namespace std
{
	template<typename T>
	class c19_atomic
	{
	public:
		c19_atomic(T x) noexcept : v(x) {}
		c19_atomic(const c19_atomic&) = delete;
		operator T() const noexcept { T r = v.load(); c19::on_load(r != nullptr); return r; }
		T load(memory_order = memory_order_seq_cst) const noexcept { return v.load(); }      // harness observation only: no hook
		void store(T x, memory_order = memory_order_seq_cst) noexcept { v.store(x); }
		bool compare_exchange_weak(T& expected, T desired, memory_order = memory_order_seq_cst) noexcept
		{
			if (c19::on_cas()) { expected = v.load(); c19::cas_result(false); return false; }   // injected spurious failure
			bool ok = v.compare_exchange_strong(expected, desired);   // strong: failures are exactly the scripted / genuine ones
			c19::cas_result(ok); return ok;
		}
		bool compare_exchange_strong(T& expected, T desired, memory_order o = memory_order_seq_cst) noexcept { return compare_exchange_weak(expected, desired, o); }
		T exchange(T x, memory_order = memory_order_seq_cst) noexcept { T r = v.exchange(x); c19::on_exchange(); return r; }
	private:
		atomic<T> v;
	};
}
#define atomic c19_atomic
#include "momo/DataTable.h"
#undef atomic

using namespace momo;
typedef DataColumnList<> ColumnList;
typedef DataTable<ColumnList> Table;
typedef Table::Row Row;
static const DataColumn<size_t> colId("id");
static const DataColumn<std::string> colS("s");

struct Disp
{
	enum St { IDLE, JOB, RUNNING, PARKED, DONE };
	std::thread th; std::mutex m; std::condition_variable cv;
	St st = IDLE; bool quit = false; bool spurious = false; bool lastCas = false; std::vector<Row> job;
};
static Disp* disps[4];
static thread_local int role = 0;            // 0 = owner / main thread
static int ownerPhase = 0;                   // 1 inside NewRow, 2 inside Clear
static std::function<void()> atCheck, atExchange;
static std::function<void(const std::string&)> emit;

namespace c19
{
	void on_load(bool nonnull)
	{
		if (role > 0)
		{
			Disp& d = *disps[role];
			std::unique_lock<std::mutex> g(d.m);
			d.st = Disp::PARKED; d.cv.notify_all();
			d.cv.wait(g, [&] { return d.st == Disp::RUNNING; });
		}
		else if (ownerPhase == 1)
		{
			emit(nonnull ? "K1" : "K0");
			if (atCheck) { auto f = atCheck; atCheck = nullptr; f(); }
		}
	}
	bool on_cas()
	{
		if (role == 0) return false;
		Disp& d = *disps[role]; std::lock_guard<std::mutex> g(d.m);
		bool s = d.spurious; d.spurious = false; return s;
	}
	void cas_result(bool ok)
	{
		if (role == 0) return;
		Disp& d = *disps[role]; std::lock_guard<std::mutex> g(d.m); d.lastCas = ok;
	}
	void on_exchange()
	{
		if (role == 0 && ownerPhase != 0)
		{
			emit("X");
			if (atExchange) { auto f = atExchange; atExchange = nullptr; f(); }
		}
	}
}

static void dispLoop(int t)
{
	Disp& d = *disps[t]; role = t;
	while (true)
	{
		std::vector<Row> j;
		{
			std::unique_lock<std::mutex> g(d.m);
			d.cv.wait(g, [&] { return d.quit || d.st == Disp::JOB; });
			if (d.quit) return;
			j = std::move(d.job); d.job.clear(); d.st = Disp::RUNNING;
		}
		j.clear();                         // ~DataRow with the hooks above
		{ std::lock_guard<std::mutex> g(d.m); d.st = Disp::DONE; }
		d.cv.notify_all();
	}
}
static bool parked(int t) { Disp& d = *disps[t]; std::lock_guard<std::mutex> g(d.m); return d.st == Disp::PARKED; }
static bool idle(int t) { Disp& d = *disps[t]; std::lock_guard<std::mutex> g(d.m); return d.st == Disp::IDLE; }
static void startDisp(int t, Row&& row)
{
	Disp& d = *disps[t]; std::unique_lock<std::mutex> g(d.m);
	d.job.push_back(std::move(row)); d.st = Disp::JOB; d.cv.notify_all();
	d.cv.wait(g, [&] { return d.st == Disp::PARKED || d.st == Disp::DONE; });
}
// returns 1 = CAS succeeded (destructor finished), 0 = CAS failed (thread reloaded and is parked again)
static int grantDisp(int t, bool spurious)
{
	Disp& d = *disps[t]; std::unique_lock<std::mutex> g(d.m);
	d.spurious = spurious; d.st = Disp::RUNNING; d.cv.notify_all();
	d.cv.wait(g, [&] { return d.st == Disp::PARKED || d.st == Disp::DONE; });
	if (d.st == Disp::DONE) { d.st = Disp::IDLE; return 1; }
	return 0;
}

struct Ids
{
	std::map<const void*, int> ids;
	int of(const void* p) { auto it = ids.find(p); if (it != ids.end()) return it->second; int k = (int)ids.size(); ids[p] = k; return k; }
};

static void runSeq2(std::istringstream& is)
{
	std::ostringstream out; bool first = true;
	{
		ColumnList cl; cl.Add(colId, colS);
		Table table(std::move(cl));
		Ids ids; std::vector<Row> det; size_t created = 0; std::string op;
		emit = [&] (const std::string& ev) {
			std::string s; void* p = table.mCrew.mData->freeRaws.load(); size_t n = 0;
			while (p != nullptr) { if (++n > created + 1) { s += "CYCLE"; break; } if (!s.empty()) s += ','; s += std::to_string(ids.of(p)); p = internal::MemCopyer::FromBuffer<void*>(p); }
			if (!first) out << ' '; first = false;
			out << ev << "|fl=" << s << "|pc=" << table.mRawMemPool.GetAllocateCount();
		};
		auto stepAction = [&] (int t) -> std::function<void()> {
			return [&, t] { if (parked(t)) { int ok = grantDisp(t, false); emit("G" + std::to_string(t) + (ok ? ":ok" : ":fail")); } };
		};
		auto num = [] (const std::string& s, size_t from) { return from < s.size() ? (size_t)std::stoul(s.substr(from)) : 0; };
		while (is >> op)
		{
			char c = op[0];
			if (c == 'n')
			{
				if (op.size() > 2 && op[1] == 'k') atCheck = stepAction((int)num(op, 2) % 3 + 1);
				if (op.size() > 2 && op[1] == 'x') atExchange = stepAction((int)num(op, 2) % 3 + 1);
				ownerPhase = 1; Row row = table.NewRow(); ownerPhase = 0; atCheck = nullptr; atExchange = nullptr; ++created;
				int id = ids.of(row.GetRaw());
				row[colId] = created; row[colS] = "a row with a heap allocated string payload " + std::to_string(created);
				det.push_back(std::move(row)); emit("N" + std::to_string(id));
			}
			else if (c == 'c')
			{
				if (op.size() > 2 && op[1] == 'x') atExchange = stepAction((int)num(op, 2) % 3 + 1);
				std::string ev = "C";
				for (size_t i = 0; i < table.GetCount(); ++i) ev += (i ? "," : "") + std::to_string(ids.of(table[i].GetRaw()));
				ownerPhase = 2; table.Clear(); ownerPhase = 0; atExchange = nullptr;
				emit(ev);
			}
			else if (c == 'a' && !det.empty())
			{ size_t k = num(op, 1) % det.size(); int id = ids.of(det[k].GetRaw()); table.Add(std::move(det[k])); det.erase(det.begin() + k); emit("A" + std::to_string(id)); }
			else if (c == 't' && table.GetCount() > 0)
			{ size_t k = num(op, 1) % table.GetCount(); int id = ids.of(table[k].GetRaw()); det.push_back(table.Extract(k)); emit("T" + std::to_string(id)); }
			else if (c == 'r' && table.GetCount() > 0)
			{ size_t k = num(op, 1) % table.GetCount(); int id = ids.of(table[k].GetRaw()); table.Remove(k); emit("R" + std::to_string(id)); }
			else if (c == 'd' && !det.empty())
			{ size_t k = num(op, 1) % det.size(); int id = ids.of(det[k].GetRaw()); det.erase(det.begin() + k); emit("D" + std::to_string(id)); }
			else if (c == 'b' && !det.empty())
			{
				size_t comma = op.find(','); int t = (int)num(op.substr(0, comma), 1) % 3 + 1;
				size_t k = (comma == std::string::npos ? 0 : num(op, comma + 1)) % det.size();
				if (idle(t))
				{
					int id = ids.of(det[k].GetRaw()); Row row = std::move(det[k]); det.erase(det.begin() + k);
					startDisp(t, std::move(row)); emit("B" + std::to_string(t) + ":" + std::to_string(id));
				}
				else emit("-");
			}
			else if (c == 'g' || c == 'f')
			{
				int t = (int)num(op, 1) % 3 + 1;
				if (parked(t))
				{
					int ok = grantDisp(t, c == 'f');
					emit(c == 'f' ? "F" + std::to_string(t) : "G" + std::to_string(t) + (ok ? ":ok" : ":fail"));
				}
				else emit("-");
			}
			else emit("-");
		}
		// epilogue: every parked disposer finishes, all detached rows die on the main thread, the table is cleared
		for (int t = 1; t <= 3; ++t)
			while (parked(t)) { int ok = grantDisp(t, false); emit("G" + std::to_string(t) + (ok ? ":ok" : ":fail")); }
		while (!det.empty()) { int id = ids.of(det[0].GetRaw()); det.erase(det.begin()); emit("D" + std::to_string(id)); }
		std::string ev = "C";
		for (size_t i = 0; i < table.GetCount(); ++i) ev += (i ? "," : "") + std::to_string(ids.of(table[i].GetRaw()));
		ownerPhase = 2; table.Clear(); ownerPhase = 0;
		emit(ev);
		out << " end|pc=" << table.mRawMemPool.GetAllocateCount();
	}
	puts(out.str().c_str());
}

int main()
{
	for (int t = 1; t <= 3; ++t) { disps[t] = new Disp; disps[t]->th = std::thread(dispLoop, t); }
	std::string line;
	while (std::getline(std::cin, line))
	{
		std::istringstream is(line); std::string cmd; is >> cmd;
		if (cmd == "seq2") runSeq2(is); else puts("?");
		fflush(stdout);
	}
	for (int t = 1; t <= 3; ++t)
	{
		{ std::lock_guard<std::mutex> g(disps[t]->m); disps[t]->quit = true; }
		disps[t]->cv.notify_all(); disps[t]->th.join(); delete disps[t];
	}
	return 0;
}
