(* C10 -- TreeSet::MergeTo(TreeSet&) with EMPTY (default) tree traits and EQUAL memory managers (TreeSet.h:956-998):
   swap into an empty destination (as fixed in c7fda03: the whole sets are swapped), the fast concatenation
   pvMergeFast (TreeSet.h:1638-1730) guarded by the ordering tests (as fixed in 103bce4: destination-then-source when
   pvIsOrdered(dst, src); source-then-destination only when the last source key is STRICTLY less than the first
   destination key), otherwise the generic / linear loops (Merge.tree_merge_to).
   pvMergeFast: inside its try block it allocates the chain of new root nodes of the joining path (any of these
   allocations may throw: everything allocated is destroyed again, both trees untouched) and relocates the separator
   item (last item of the left tree or first item of the right tree, depending on which tree is lower) into the
   joining node; the rest is pointer surgery that cannot throw.  The number of allocations and the choice of the
   separator depend on the tree shapes: oracles `nalloc`, `swap`; every theorem holds for all their values.
   (The nothrow shifting of the separator inside its leaf is not represented.) *)
From Coq Require Import ZArith Bool List Lia Permutation Arith.
From C10 Require Import Machine Merge MergeProofs.
Import ListNotations.
Local Open Scope Z_scope.

Fixpoint allocs (n : nat) (w : world) : option world :=
  match n with
  | O => Some w
  | S n' => match step_alloc w with None => None | Some w1 => allocs n' w1 end
  end.
(* the world after the failing allocation of a chain of n *)
Fixpoint allocs_fail (n : nat) (w : world) : world :=
  match n with
  | O => w
  | S n' => match step_alloc w with None => fail_alloc w | Some w1 => allocs_fail n' w1 end
  end.

(* pvMergeFast(left, right): Some w' = joined; None = threw (nothing changed) *)
Definition merge_fast (c : cat) (w : world) (left right : list item) (nalloc : nat) (swap : bool) : world * bool :=
  match allocs nalloc w with
  | None => (allocs_fail nalloc w, false)
  | Some w1 =>
    let sep := if swap then hd 0 right else last left 0 in
    match relocate c w1 sep with
    | (w2, None) => (w2, false)
    | (w2, Some _) => (w2, true)
    end
  end.

(* pvIsOrdered(tree1, tree2) = pvIsOrdered(prev(end1), begin2) *)
Definition sets_ordered (multi : bool) (l1 l2 : list item) : bool := is_ordered multi (last l1 0) (hd 0 l2).

Definition tree_merge_to_eq (c : cat) (multi : bool) (src dst : list item) (w : world) (shape : list bool)
  (nalloc : nat) (swap : bool) : status * list item * list item * world :=
  match src, dst with
  | [], _ => (Finished, src, dst, w)
  | _, [] => (Finished, [], src, w)                                   (* Swap(dstTreeSet) *)
  | _, _ =>
    if sets_ordered multi dst src then
      match merge_fast c w dst src nalloc swap with
      | (w', true) => (Finished, [], dst ++ src, w')
      | (w', false) => (Failed, src, dst, w')
      end
    else if Z.ltb (key (last src 0)) (key (hd 0 dst)) then
      match merge_fast c w src dst nalloc swap with
      | (w', true) => (Finished, [], src ++ dst, w')
      | (w', false) => (Failed, src, dst, w')
      end
    else tree_merge_to c multi src dst w shape
  end.

(* ------------------------------------------------------------------ proofs *)

Lemma allocs_tr n : forall w w', allocs n w = Some w' -> tr w' = tr w.
Proof.
  induction n; simpl; intros w w' H; [inversion H; reflexivity|].
  destruct (step_alloc w) as [w1|] eqn:E; [|discriminate]. apply step_alloc_tr in E. rewrite <- E. apply IHn. exact H.
Qed.

Lemma allocs_fail_no_copy n : forall w, no_copy (tr w) -> no_copy (tr (allocs_fail n w)).
Proof.
  induction n; simpl; intros w N; [exact N|].
  destruct (step_alloc w) as [w1|] eqn:E.
  - apply IHn. apply step_alloc_tr in E. rewrite E. exact N.
  - apply no_copy_cons; [reflexivity|exact N].
Qed.

Lemma merge_fast_no_copy c w l r n s w' b : nothrow_reloc c = true -> no_copy (tr w) ->
  merge_fast c w l r n s = (w', b) -> no_copy (tr w').
Proof.
  intros Hc N. unfold merge_fast. destruct (allocs n w) as [w1|] eqn:E.
  - apply allocs_tr in E. destruct (relocate c w1 (if s then hd 0 r else last l 0)) as [w2 o] eqn:Er.
    assert (N2 : no_copy (tr w2)) by (eapply relocate_no_copy; [exact Hc| |exact Er]; rewrite E; exact N).
    destruct o; intros H; inversion H; subst; exact N2.
  - intros H; inversion H; subst. apply allocs_fail_no_copy. exact N.
Qed.

(* what the fast / swap paths do, for every schedule, category, number of allocations and separator:
   the result is either "nothing changed" (an exception) or "source empty, destination = ordered concatenation" *)
Definition generic_path (multi : bool) (src dst : list item) : Prop :=
  src <> [] /\ dst <> [] /\ sets_ordered multi dst src = false /\ Z.ltb (key (last src 0)) (key (hd 0 dst)) = false.

Theorem merge_to_eq_spec c multi src dst w shape nalloc swap st s' d' w' :
  tree_merge_to_eq c multi src dst w shape nalloc swap = (st, s', d', w') ->
  (generic_path multi src dst /\ tree_merge_to c multi src dst w shape = (st, s', d', w')) \/
  (st = Failed /\ s' = src /\ d' = dst) \/
  (st = Finished /\ s' = [] /\
   (d' = dst ++ src /\ (src = [] \/ dst = [] \/ sets_ordered multi dst src = true) \/
    d' = src ++ dst /\ sets_ordered multi dst src = false /\ key (last src 0) < key (hd 0 dst))).
Proof.
  unfold tree_merge_to_eq. destruct src as [|x xs].
  - intros H; inversion H; subst. right. right. repeat split. left. rewrite app_nil_r. auto.
  - destruct dst as [|y ys].
    + intros H; inversion H; subst. right. right. repeat split. left. auto.
    + destruct (sets_ordered multi (y :: ys) (x :: xs)) eqn:Eo.
      * destruct (merge_fast c w (y :: ys) (x :: xs) nalloc swap) as [w1 [|]]; intros H; inversion H; subst; right; [right|left]; auto 10.
      * destruct (Z.ltb_spec (key (last (x :: xs) 0)) (key (hd 0 (y :: ys)))) as [L|G].
        -- destruct (merge_fast c w (x :: xs) (y :: ys) nalloc swap) as [w1 [|]]; intros H; inversion H; subst; right; [right|left]; auto 10.
        -- intros H. left. split; [|exact H]. repeat split; try discriminate; auto.
           destruct (Z.ltb_spec (key (last (x :: xs) 0)) (key (hd 0 (y :: ys)))); [lia|reflexivity].
Qed.

(* merge_conservation for the whole MergeTo(TreeSet&) with equal managers: source (+) destination conserved,
   whichever path is taken and wherever it fails *)
Theorem merge_to_eq_conservation c multi src dst w shape nalloc swap st s' d' w' :
  tree_merge_to_eq c multi src dst w shape nalloc swap = (st, s', d', w') -> Permutation (s' ++ d') (src ++ dst).
Proof.
  intros H. destruct (merge_to_eq_spec _ _ _ _ _ _ _ _ _ _ _ _ H) as [[_ G]|[(_ & -> & ->)|(_ & -> & [[-> _]|[-> _]])]].
  - unfold tree_merge_to in G.
    destruct (Nat.eqb (length src) 0); [inversion G; subst; reflexivity|].
    destruct (Nat.ltb (length src * Nat.log2 (length src + length dst)) (length src + length dst)); inversion G; subst.
    + apply tmerge_conservation.
    + apply lmerge_conservation.
  - reflexivity.
  - simpl. apply Permutation_app_comm.
  - reflexivity.
Qed.

(* the fast and swap paths never copy an element that has a move constructor (and neither do the loops) *)
Theorem merge_to_eq_no_copy c multi src dst w shape nalloc swap st s' d' w' : nothrow_reloc c = true -> no_copy (tr w) ->
  tree_merge_to_eq c multi src dst w shape nalloc swap = (st, s', d', w') -> no_copy (tr w').
Proof.
  intros Hc N. unfold tree_merge_to_eq. destruct src as [|x xs]; [intros H; inversion H; subst; exact N|].
  destruct dst as [|y ys]; [intros H; inversion H; subst; exact N|].
  destruct (sets_ordered multi (y :: ys) (x :: xs)).
  - destruct (merge_fast c w (y :: ys) (x :: xs) nalloc swap) as [w1 b] eqn:E. apply merge_fast_no_copy in E; auto.
    destruct b; intros H; inversion H; subst; exact E.
  - destruct (Z.ltb (key (last (x :: xs) 0)) (key (hd 0 (y :: ys)))).
    + destruct (merge_fast c w (x :: xs) (y :: ys) nalloc swap) as [w1 b] eqn:E. apply merge_fast_no_copy in E; auto.
      destruct b; intros H; inversion H; subst; exact E.
    + unfold tree_merge_to. destruct (Nat.eqb (length (x :: xs)) 0); [intros H; inversion H; subst; exact N|].
      destruct (Nat.ltb _ _); intros H; inversion H; subst.
      * apply tmerge_no_copy; assumption.
      * apply lmerge_no_copy; assumption.
Qed.

(* sortedness facts used for the unique-key statement *)
Lemma ksorted_last_max l : ksorted l -> forall a, In a l -> key a <= key (last l 0).
Proof.
  induction l as [|x l IH]; intros S a I; [destruct I|]. simpl in S. destruct S as [Hx S].
  destruct l as [|y l']; [destruct I as [<-|[]]; simpl; lia|].
  change (last (x :: y :: l') 0) with (last (y :: l') 0).
  destruct I as [<-|I]; [|apply IH; assumption].
  assert (Hl : In (last (y :: l') 0) (y :: l')).
  { rewrite (app_removelast_last 0 (l := y :: l')) at 2 by discriminate. apply in_or_app. right. left. reflexivity. }
  specialize (Hx _ Hl). lia.
Qed.

Lemma ksorted_hd_min l : ksorted l -> forall a, In a l -> key (hd 0 l) <= key a.
Proof.
  destruct l as [|x l]; intros S a I; [destruct I|]. simpl in *. destruct S as [Hx _].
  destruct I as [<-|I]; [lia|]. specialize (Hx a I). lia.
Qed.

(* unique keys: for strictly key-sorted source and destination, a completed fast / swap merge yields a strictly sorted
   (hence duplicate-free) destination -- the ordering tests of 103bce4 are what makes the concatenation legal *)
Theorem merge_to_eq_fast_sorted c src dst w shape nalloc swap s' d' w' : ksorted src -> ksorted dst ->
  tree_merge_to_eq c false src dst w shape nalloc swap = (Finished, s', d', w') ->
  ~ generic_path false src dst -> ksorted d' /\ NoDup (map key d') /\ s' = [].
Proof.
  intros Ss Sd H NG.
  destruct (merge_to_eq_spec _ _ _ _ _ _ _ _ _ _ _ _ H) as [[G _]|[(D & _)|(_ & -> & [[-> O]|[-> (_ & L)]])]];
    [contradiction|discriminate| |].
  - assert (K : ksorted (dst ++ src)).
    { apply ksorted_app. split; [exact Sd|]. split; [exact Ss|]. intros a b Ha Hb.
      destruct O as [->|[->|O]]; [destruct Hb|destruct Ha|].
      unfold sets_ordered, is_ordered in O. apply Z.ltb_lt in O.
      pose proof (ksorted_last_max dst Sd a Ha). pose proof (ksorted_hd_min src Ss b Hb). lia. }
    split; [exact K|]. split; [apply ksorted_nodup; exact K|reflexivity].
  - assert (K : ksorted (src ++ dst)).
    { apply ksorted_app. split; [exact Ss|]. split; [exact Sd|]. intros a b Ha Hb.
      pose proof (ksorted_last_max src Ss a Ha). pose proof (ksorted_hd_min dst Sd b Hb). lia. }
    split; [exact K|]. split; [apply ksorted_nodup; exact K|reflexivity].
Qed.

(* multi-key trees (the ordering fixed in 103bce4): items with equivalent keys are never reordered across the two
   trees -- destination items stay before equivalent source items: the concatenation is destination-then-source whenever
   the last destination key is <= the first source key, and source-then-destination only under STRICT inequality *)
Lemma ksle_last_max l : ksle l -> forall a, In a l -> key a <= key (last l 0).
Proof.
  induction l as [|x l IH]; intros S a I; [destruct I|]. simpl in S. destruct S as [Hx S].
  destruct l as [|y l']; [destruct I as [<-|[]]; simpl; lia|].
  change (last (x :: y :: l') 0) with (last (y :: l') 0).
  destruct I as [<-|I]; [|apply IH; assumption].
  assert (Hl : In (last (y :: l') 0) (y :: l')).
  { rewrite (app_removelast_last 0 (l := y :: l')) at 2 by discriminate. apply in_or_app. right. left. reflexivity. }
  exact (Hx _ Hl).
Qed.

Lemma ksle_hd_min l : ksle l -> forall a, In a l -> key (hd 0 l) <= key a.
Proof.
  destruct l as [|x l]; intros S a I; [destruct I|]. simpl in *. destruct S as [Hx _].
  destruct I as [<-|I]; [lia|]. exact (Hx a I).
Qed.

Theorem merge_to_eq_fast_multi_order c src dst w shape nalloc swap s' d' w' : ksle src -> ksle dst ->
  tree_merge_to_eq c true src dst w shape nalloc swap = (Finished, s', d', w') ->
  ~ generic_path true src dst ->
  s' = [] /\
  ((d' = dst ++ src /\ forall a b, In a dst -> In b src -> key a <= key b) \/
   (d' = src ++ dst /\ forall a b, In a src -> In b dst -> key a < key b)).
Proof.
  intros Ss Sd H NG.
  destruct (merge_to_eq_spec _ _ _ _ _ _ _ _ _ _ _ _ H) as [[G _]|[(D & _)|(_ & -> & [[-> O]|[-> (_ & L)]])]];
    [contradiction|discriminate| |]; (split; [reflexivity|]).
  - left. split; [reflexivity|]. intros a b Ha Hb.
    destruct O as [->|[->|O]]; [destruct Hb|destruct Ha|].
    unfold sets_ordered, is_ordered in O. apply negb_true_iff in O. apply Z.ltb_ge in O.
    pose proof (ksle_last_max dst Sd a Ha). pose proof (ksle_hd_min src Ss b Hb). lia.
  - right. split; [reflexivity|]. intros a b Ha Hb.
    pose proof (ksle_last_max src Ss a Ha). pose proof (ksle_hd_min dst Sd b Hb). lia.
Qed.
