(* C02 -- primitives referenced by generated code (cxx2coq "effect_calls"): the call trace of Relocator::AddSegment.
   The trace lives in one array field: cell 0 = number of recorded calls, call k in cells 5k+1 .. 5k+5
   (srcNode, srcBeginIndex, dstNode, dstBeginIndex, itemCount); node pointers are opaque integers. *)
From Coq Require Import ZArith List.
From MomoCommon Require Import GenPrelude.
Local Open Scope Z_scope.

Definition ev_seg (s : Z -> Z) (src sb dst db n : Z) : Z -> Z :=
  let k := s 0 in
  upd (upd (upd (upd (upd (upd s 0 (k + 1)) (5 * k + 1) src) (5 * k + 2) sb) (5 * k + 3) dst) (5 * k + 4) db) (5 * k + 5) n.

Definition seg_rec (s : Z -> Z) (k : Z) : Z * Z * Z * Z * Z := (s (5 * k + 1), s (5 * k + 2), s (5 * k + 3), s (5 * k + 4), s (5 * k + 5)).
Definition segs_list (s : Z -> Z) : list (Z * Z * Z * Z * Z) := map (fun k => seg_rec s (Z.of_nat k)) (seq 0 (Z.to_nat (s 0))).
Definition no_segs : Z -> Z := fun _ => 0.
