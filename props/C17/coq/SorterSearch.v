(* C17: hand-written executable model (L1) of the search half of momo::HashSorter
   (HashSorter.h pvIsSorted .. pvBinarySearch), mirroring the source statement by statement.

   - The array is seen through  hash : index -> HashCode  and  item : index -> item handle ;
     equalFunc is  eqf  on item handles.  EVERY read goes through rdh / rdi, which return Stuck for an
     index outside [0, count): "the code never reads out of bounds" = "the model never returns Stuck".
   - An Iterator is its absolute index; a std::reverse_iterator with base b denotes element b-1.  The
     function templates over Iterator (pvExponentialSearch, pvBinarySearch, pvFindOther, pvFindNext) take
     a view  v : relative offset -> absolute index  (fwd p  or  rev b) and return relative offsets,
     exactly like SMath::Next(begin, i) / SMath::Dist in the source.
   - size_t arithmetic that could wrap is written with wrapU 64.
   - The arithmetic leaves pvMultShift / pvGetStepCount / pvCompare are Section variables, instantiated
     with the cxx2coq-generated definitions (Gen_Leaves) in Instance.v. *)
From Coq Require Import ZArith Bool List Lia.
From MomoCommon Require Import GenPrelude.
Local Open Scope Z_scope.

Definition bind {A B : Type} (o : outcome A) (k : A -> outcome B) : outcome B :=
  match o with Ok a => k a | Stuck => Stuck | Fuel => Fuel | Exn => Exn end.
Notation "x <- e ;; k" := (bind e (fun x => k)) (at level 61, e at next level, right associativity).

Definition fwd (p : Z) : Z -> Z := fun i => p + i.        (* Iterator p:           Next(it, i) denotes p + i     *)
Definition rev (b : Z) : Z -> Z := fun i => b - 1 - i.    (* reverse_iterator(b):  Next(it, i) denotes b - 1 - i *)

Definition log_fuel : nat := 66%nat.

Section Model.
  Variable MultShift : Z -> Z -> Z.
  Variable StepCount : Z -> Z.
  Variable Compare : Z -> Z -> Z.

  Variable count : Z.            (* number of items of the array *)
  Variable hash : Z -> Z.        (* iterHashFunc(begin + i) *)
  Variable item : Z -> Z.        (* *(begin + i), as an item handle *)
  Variable eqf : Z -> Z -> bool. (* equalFunc *)

  Definition inb (i : Z) : bool := (0 <=? i) && (i <? count).
  Definition rdh (i : Z) : outcome Z := if inb i then Ok (hash i) else Stuck.
  Definition rdi (i : Z) : outcome Z := if inb i then Ok (item i) else Stuck.
  Definition eq_ii (i j : Z) : outcome bool := a <- rdi i ;; b <- rdi j ;; Ok (eqf a b).

  (* ---- pvBinarySearch (HashSorter.h:412-430) ---- *)
  Fixpoint bs_loop (fuel : nat) (cmp : Z -> outcome Z) (l r : Z) : outcome (Z * bool) :=
    match fuel with
    | O => Fuel
    | S f =>
      if l <? r then
        let m := (wrapU 64 (l + r)) / 2 in
        c <- cmp m ;;
        if c <? 0 then bs_loop f cmp (m + 1) r
        else if 0 <? c then bs_loop f cmp l m
        else Ok (m, true)
      else Ok (l, false)
    end.
  Definition pvBinarySearch (cmp : Z -> outcome Z) (cnt : Z) : outcome (Z * bool) :=
    bs_loop log_fuel cmp 0 cnt.

  (* pvBinarySearch(SMath::Next(begin, left), cnt, iterComparer): result re-based to begin *)
  Definition bs_from (cmp : Z -> outcome Z) (left cnt : Z) : outcome (Z * bool) :=
    r <- pvBinarySearch (fun k => cmp (left + k)) cnt ;; Ok (left + fst r, snd r).

  (* ---- pvExponentialSearch (HashSorter.h:395-410) ---- *)
  Fixpoint es_loop (fuel : nat) (cmp : Z -> outcome Z) (cnt left i : Z) : outcome (Z * bool) :=
    match fuel with
    | O => Fuel
    | S f =>
      if i <? cnt then
        c <- cmp i ;;
        if 0 <? c then bs_from cmp left (i - left)
        else if c =? 0 then Ok (i, true)
        else es_loop f cmp cnt (i + 1) (wrapU 64 (i * 2 + 2))
      else bs_from cmp left (cnt - left)
    end.
  Definition pvExponentialSearch (cmp : Z -> outcome Z) (cnt : Z) : outcome (Z * bool) :=
    es_loop log_fuel cmp cnt 0 0.

  (* ---- pvFindHash (HashSorter.h:342-393); begin is the array begin, so indexes are absolute ---- *)
  Section WithQuery.
  Variable qh : Z.    (* itemHash *)
  Variable qx : Z.    (* item (handle of the searched item) *)

  Definition cmp_fwd (base : Z) : Z -> outcome Z := fun i => h <- rdh (base + i) ;; Ok (Compare h qh).
  Definition cmp_rev (base : Z) : Z -> outcome Z := fun i => h <- rdh (base - 1 - i) ;; Ok (- Compare h qh).

  Fixpoint fh_loop (fuel : nat) (left right middle step : Z) : outcome (Z * bool) :=
    match fuel with
    | O => Fuel
    | S f =>
      mh <- rdh middle ;;
      if mh <? qh then
        let left := middle + 1 in
        if step =? 0 then
          r <- pvExponentialSearch (cmp_fwd left) (right - left) ;; Ok (left + fst r, snd r)
        else
          let middle := wrapU 64 (middle + MultShift (wrapU 64 (qh - mh)) count) in
          if right <=? middle then bs_from (cmp_fwd 0) left (right - left)
          else fh_loop f left right middle (step - 1)
      else if qh <? mh then
        let right := middle in
        if step =? 0 then
          r <- pvExponentialSearch (cmp_rev right) (right - left) ;;
          Ok (right - fst r - (if snd r then 1 else 0), snd r)
        else
          let diff := MultShift (wrapU 64 (mh - qh)) count in
          if middle <? wrapU 64 (left + diff) then bs_from (cmp_fwd 0) left (right - left)
          else fh_loop f left right (middle - diff) (step - 1)
      else Ok (middle, true)
    end.

  Definition pvFindHash : outcome (Z * bool) :=
    if count =? 0 then Ok (0, false)
    else fh_loop 5%nat 0 count (MultShift qh count) (StepCount count).

  (* ---- pvFindOther (HashSorter.h:333-340) on a view; returns the offset of the result iterator ---- *)
  Definition pvFindOther (v : Z -> Z) (cnt : Z) : outcome Z :=
    if 0 <? cnt then
      r <- pvExponentialSearch
             (fun i => e <- eq_ii (v 0) (v (1 + i)) ;; Ok (if e : bool then -1 else 1)) (cnt - 1) ;;
      Ok (1 + fst r)
    else Stuck.   (* MOMO_ASSERT(count > 0) *)

  (* ---- pvFindNext (HashSorter.h:316-331) ---- *)
  Fixpoint fn_loop (fuel : nat) (v : Z -> Z) (cnt iter : Z) : outcome (Z * bool) :=
    match fuel with
    | O => Fuel
    | S f =>
      o <- pvFindOther (fun k => v (iter + k)) (cnt - iter) ;;
      let iter := iter + o in
      if iter =? cnt then Ok (iter, false)
      else
        h <- rdh (v iter) ;;
        if negb (h =? qh) then Ok (iter, false)
        else
          a <- rdi (v iter) ;;
          if eqf a qx then Ok (iter, true) else fn_loop f v cnt iter
    end.
  Definition pvFindNext (v : Z -> Z) (cnt : Z) : outcome (Z * bool) :=
    fn_loop (S (Z.to_nat cnt)) v cnt 0.

  (* ---- pvFind (HashSorter.h:267-283) ---- *)
  Definition pvFind : outcome (Z * bool) :=
    res <- pvFindHash ;;
    if negb (snd res) then Ok res
    else
      let idx := fst res in
      a <- rdi idx ;;
      if eqf a qx then Ok res
      else
        revRes <- pvFindNext (rev (idx + 1)) (idx + 1) ;;
        if snd revRes then Ok ((idx + 1 - fst revRes) - 1, true)
        else r <- pvFindNext (fwd idx) (count - idx) ;; Ok (idx + fst r, snd r).

  (* ---- pvGetBounds (HashSorter.h:285-314); result = (begin index, end index) ---- *)
  Definition pvGetBounds : outcome (Z * Z) :=
    res <- pvFindHash ;;
    let idx := fst res in
    if negb (snd res) then Ok (idx, idx)
    else
      a <- rdi idx ;;
      if eqf a qx then
        ob <- pvFindOther (rev (idx + 1)) (idx + 1) ;;
        oe <- pvFindOther (fwd idx) (count - idx) ;;
        Ok (idx + 1 - ob, idx + oe)
      else
        revRes <- pvFindNext (rev (idx + 1)) (idx + 1) ;;
        if snd revRes then
          let b := idx + 1 - fst revRes in     (* revRes.iterator.base() *)
          ob <- pvFindOther (rev b) b ;;
          Ok (b - ob, b)
        else
          r <- pvFindNext (fwd idx) (count - idx) ;;
          let idx' := idx + fst r in
          if negb (snd r) then Ok (idx', idx')
          else oe <- pvFindOther (fwd idx') (count - idx') ;; Ok (idx', idx' + oe).
  End WithQuery.

  (* ---- pvIsGrouped (HashSorter.h:251-265) on the sub-array starting at p ---- *)
  Fixpoint ig_inner (fuel : nat) (p cnt i j : Z) : outcome bool :=
    match fuel with
    | O => Fuel
    | S f =>
      if j <? cnt then
        e <- eq_ii (p + (i - 1)) (p + j) ;;
        if e then Ok false else ig_inner f p cnt i (j + 1)
      else Ok true
    end.
  Fixpoint ig_outer (fuel : nat) (p cnt i : Z) : outcome bool :=
    match fuel with
    | O => Fuel
    | S f =>
      if i <? cnt then
        e <- eq_ii (p + (i - 1)) (p + i) ;;
        if e then ig_outer f p cnt (i + 1)
        else
          ok <- ig_inner (S (Z.to_nat cnt)) p cnt i (i + 1) ;;
          if ok then ig_outer f p cnt (i + 1) else Ok false
      else Ok true
    end.
  Definition pvIsGrouped (p cnt : Z) : outcome bool := ig_outer (S (Z.to_nat cnt)) p cnt 1.

  (* ---- pvIsSorted (HashSorter.h:227-249) ---- *)
  Fixpoint is_loop (fuel : nat) (i prevIndex prevHash : Z) : outcome bool :=
    match fuel with
    | O => Fuel
    | S f =>
      if i <? count then
        h <- rdh i ;;
        if h <? prevHash then Ok false
        else if negb (h =? prevHash) then
          g <- pvIsGrouped prevIndex (i - prevIndex) ;;
          if negb g then Ok false else is_loop f (i + 1) i h
        else is_loop f (i + 1) prevIndex prevHash
      else pvIsGrouped prevIndex (count - prevIndex)
    end.
  Definition pvIsSorted : outcome bool :=
    if count =? 0 then Ok true
    else h0 <- rdh 0 ;; is_loop (S (Z.to_nat count)) 1 0 h0.
End Model.
