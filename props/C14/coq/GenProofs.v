(* C14 round 6 -- theorems about the GENERATED container functions (cxx2coq, regenerated from /repo on every run):
     Gen_TreeSet      TreeSet<int>::Clear, TreeSet<int>::pvDestroy()          (fields mCount, mRootNode, mNodeParams)
     Gen_HashSet      HashSet<int>::Clear(bool shrink)                        (fields mCount, mCapacity, mBuckets)
     Gen_HashMultiMap HashMultiMap<int,int>::Clear                            (field mValueCount)
     Gen_DataTable    DataTable<...>::Clear
     Gen_SetCrew      SetCrew<...,true>::pvIsNull                             (field mData)
     Gen_CrewContract which crew member functions begin with MOMO_ASSERT (from the clang AST)
   Calls into the crew object (IncVersion, Get*Version, Deallocate(GetMemManager(), ...), pvDestroy(Node* ) which starts with
   GetMemManager()) are translated into the callee's obligation: `Stuck` when the crew pointer is null ("assert_calls" in
   gen_*.json); Gen_CrewContract justifies that these callees really carry the assertion. *)
From Coq Require Import ZArith Bool List String Lia.
From MomoCommon Require Import GenPrelude.
From C14 Require Import PropagationModel Model Proofs.
From C14 Require Gen_TreeSet Gen_HashSet Gen_HashMultiMap Gen_DataTable Gen_SetCrew Gen_CrewContract.
Import ListNotations.
Local Open Scope Z_scope.

(* ---------------------------------------------------------------- the callee contract used by the translation *)
(* the accessor names the generated container functions call (and the two plain members) *)
Definition ptr_accessors_used : list string := ["IncVersion"; "GetVersion"; "GetContainerTraits"; "GetMemManager"]%string.
Definition valuecrew_accessors_used : list string := ["GetValueVersion"; "GetValueArrayParams"; "Destroy"]%string.
Definition tablecrew_accessors_used : list string := ["GetChangeVersion"; "GetRemoveVersion"; "GetMemManager"; "GetColumnList"; "GetFreeRaws"]%string.
Definition setcrew_plain_members : list string := ["Swap"; "pvIsNull"]%string.
Definition crew_plain_members : list string := ["IsNull"; "Swap"]%string.

Theorem crew_contract :
  (* pointer SetCrew: every accessor the containers call asserts !pvIsNull(); Swap and pvIsNull themselves do not *)
  (forall f, In f ptr_accessors_used -> In f Gen_CrewContract.SetCrewPtr_asserting) /\
  Gen_CrewContract.SetCrewPtr_plain = setcrew_plain_members /\
  (* HashMultiMap::ValueCrew and DataTable::Crew: every accessor asserts !IsNull(); IsNull and Swap do not *)
  (forall f, In f valuecrew_accessors_used -> In f Gen_CrewContract.ValueCrew_asserting) /\
  Gen_CrewContract.ValueCrew_plain = crew_plain_members /\
  (forall f, In f tablecrew_accessors_used -> In f Gen_CrewContract.Crew_asserting) /\
  Gen_CrewContract.Crew_plain = crew_plain_members /\
  (* the inline SetCrew has no null state and no assertion at all *)
  Gen_CrewContract.SetCrewInline_asserting = [] /\
  (* pvIsNull is the null test of the data pointer *)
  (forall mData, Gen_SetCrew.pvIsNull mData = Z.eqb mData 0).
Proof.
  repeat split; try reflexivity; intros f H; unfold ptr_accessors_used, valuecrew_accessors_used, tablecrew_accessors_used in H; simpl in H;
    repeat (destruct H as [<-|H]; [vm_compute; tauto|]); contradiction.
Qed.

(* ---------------------------------------------------------------- TreeSet *)
(* moved-from field state (root = params = null): Clear and the destructor body return without reaching any crew access,
   whatever the crew pointer is, and leave the fields as they are *)
Theorem gen_tree_moved_from_total :
  forall crew_null cnt,
    Gen_TreeSet.Clear crew_null cnt 0 0 = GenPrelude.Ok (tt, cnt, 0, 0) /\
    Gen_TreeSet.pvDestroy crew_null cnt 0 0 = GenPrelude.Ok tt.
Proof. intros. split; reflexivity. Qed.

(* with a live crew neither function can get stuck, and Clear leaves root = params = null and, unless it returned early
   on an already empty tree, count = 0 *)
Theorem gen_tree_clear_owned :
  forall cnt root params,
    exists cnt', Gen_TreeSet.Clear false cnt root params = GenPrelude.Ok (tt, cnt', 0, 0) /\
                 (cnt' = 0 \/ (root = 0 /\ params = 0 /\ cnt' = cnt)) /\
    Gen_TreeSet.pvDestroy false cnt root params = GenPrelude.Ok tt.
Proof.
  intros cnt root params. unfold Gen_TreeSet.Clear, Gen_TreeSet.pvDestroy.
  destruct (Z.eqb_spec root 0), (Z.eqb_spec params 0); subst; cbn [negb andb orb];
    eexists; (split; [reflexivity|]); (split; [|reflexivity]); auto.
Qed.

(* conversely, with storage present the crew IS needed (non-vacuity of the Stuck obligations) *)
Theorem gen_tree_needs_crew_when_owning :
  forall cnt root params, (root <> 0 \/ params <> 0) ->
    Gen_TreeSet.Clear true cnt root params = GenPrelude.Stuck /\ Gen_TreeSet.pvDestroy true cnt root params = GenPrelude.Stuck.
Proof.
  intros cnt root params H. unfold Gen_TreeSet.Clear, Gen_TreeSet.pvDestroy.
  destruct (Z.eqb_spec root 0), (Z.eqb_spec params 0); subst; cbn [negb andb orb]; try tauto; split; reflexivity.
Qed.

(* ---------------------------------------------------------------- HashSet *)
Theorem gen_hash_moved_from_total :
  forall crew_null nb cnt cap shrink, Gen_HashSet.Clear crew_null nb cnt cap 0 shrink = GenPrelude.Ok (tt, cnt, cap, 0).
Proof. reflexivity. Qed.

Theorem gen_hash_clear_owned :
  forall nb cnt cap bk shrink,
    exists cnt' cap' bk', Gen_HashSet.Clear false nb cnt cap bk shrink = GenPrelude.Ok (tt, cnt', cap', bk') /\
      (bk = 0 -> cnt' = cnt /\ cap' = cap /\ bk' = 0) /\
      (bk <> 0 -> cnt' = 0 /\ (shrink = true -> cap' = 0 /\ bk' = 0) /\ (shrink = false -> cap' = cap /\ bk' = bk)).
Proof.
  intros nb cnt cap bk shrink. unfold Gen_HashSet.Clear, Gen_HashSet.pvDestroy, Gen_HashSet.pvDestroyB. destruct (Z.eqb_spec bk 0); subst.
  - do 3 eexists. split; [reflexivity|]. split; [auto|congruence].
  - destruct (Z.eqb_spec bk 0) as [E0|_]; [contradiction|].
    destruct shrink; cbn [negb andb orb]; [|destruct (Z.eqb nb 0)]; do 3 eexists; (split; [reflexivity|]); split; try congruence;
      intros _; repeat split; auto; discriminate.
Qed.

Theorem gen_hash_needs_crew_when_owning :
  forall nb cnt cap bk shrink, bk <> 0 -> Gen_HashSet.Clear true nb cnt cap bk shrink = GenPrelude.Stuck.
Proof.
  intros nb cnt cap bk shrink H. unfold Gen_HashSet.Clear, Gen_HashSet.pvDestroy, Gen_HashSet.pvDestroyB. destruct (Z.eqb_spec bk 0); [contradiction|]. destruct shrink; reflexivity.
Qed.

(* ---------------------------------------------------------------- HashMultiMap, DataTable: the guard is the crew test itself *)
Theorem gen_multi_clear :
  forall cnt, Gen_HashMultiMap.Clear true cnt = GenPrelude.Ok (tt, cnt) /\ Gen_HashMultiMap.Clear false cnt = GenPrelude.Ok (tt, 0).
Proof. intros. split; reflexivity. Qed.

Theorem gen_table_clear :
  Gen_DataTable.Clear true = GenPrelude.Ok tt /\ Gen_DataTable.Clear false = GenPrelude.Ok tt.
Proof. split; reflexivity. Qed.

Theorem gen_multi_table_clear :
  (forall cnt, Gen_HashMultiMap.Clear true cnt = GenPrelude.Ok (tt, cnt) /\ Gen_HashMultiMap.Clear false cnt = GenPrelude.Ok (tt, 0)) /\
  (Gen_DataTable.Clear true = GenPrelude.Ok tt /\ Gen_DataTable.Clear false = GenPrelude.Ok tt).
Proof. exact (conj gen_multi_clear gen_table_clear). Qed.

(* ---------------------------------------------------------------- FRAME: every generated function of these classes that can
   reach the crew is total in the moved-from state (crew null, storage pointers null), for every value of the remaining
   fields and arguments *)
Theorem gen_moved_from_frame :
  forall nb cnt cap shrink,
    Gen_TreeSet.Clear true cnt 0 0 = GenPrelude.Ok (tt, cnt, 0, 0) /\
    Gen_TreeSet.pvDestroy true cnt 0 0 = GenPrelude.Ok tt /\
    Gen_HashSet.Clear true nb cnt cap 0 shrink = GenPrelude.Ok (tt, cnt, cap, 0) /\
    Gen_HashMultiMap.Clear true cnt = GenPrelude.Ok (tt, cnt) /\
    Gen_DataTable.Clear true = GenPrelude.Ok tt.
Proof. intros. repeat split. Qed.

(* ---------------------------------------------------------------- refinement: the hand model's cc_clear agrees with the
   generated Clear on the abstracted fields (crew null <-> MovedFrom, storage pointer null <-> no body block) *)
Definition crew_null_of (c : cc) : bool := is_moved_from c.
Definition storage_of (c : cc) : Z := match c with Owned _ (_ :: _) _ => 1 | _ => 0 end.
Definition count_of (c : cc) : Z := Z.of_nat (List.length (items_of c)).
Definition is_ok {A} (r : res A) : bool := match r with Ok _ _ => true | _ => false end.
Definition gen_ok {A} (o : outcome A) : bool := match o with GenPrelude.Ok _ => true | _ => false end.

Theorem clear_refines_generated :
  forall c w, cc_wf c ->
    (* tree: root and params both stand for "has a body" in the abstraction *)
    is_ok (cc_clear KTree c w) = gen_ok (Gen_TreeSet.Clear (crew_null_of c) (count_of c) (storage_of c) (storage_of c)) /\
    is_ok (cc_clear KHash c w) = gen_ok (Gen_HashSet.Clear (crew_null_of c) 0 (count_of c) (count_of c) (storage_of c) true) /\
    is_ok (cc_clear KMulti c w) = gen_ok (Gen_HashMultiMap.Clear (crew_null_of c) (count_of c)) /\
    is_ok (cc_clear KTable c w) = gen_ok (Gen_DataTable.Clear (crew_null_of c)) /\
    (* and both leave the container without items *)
    (forall k c' w', cc_clear k c w = Ok c' w' -> items_of c' = []).
Proof.
  intros c w H.
  assert (T : forall k, is_ok (cc_clear k c w) = true).
  { intros k. destruct (cc_clear_ok k c w H) as (c' & w' & E & _). rewrite E. reflexivity. }
  rewrite !T.
  repeat split.
  - destruct c as [cr [|b0 body] items|]; reflexivity.
  - destruct c as [cr [|b0 body] items|]; reflexivity.
  - destruct c; reflexivity.
  - destruct c; reflexivity.
  - intros k c' w' E. destruct (cc_clear_ok k c w H) as (c2 & w2 & E2 & _ & I & _). rewrite E in E2. inversion E2; subst. exact I.
Qed.

(* the same refinement on the FIELDS, not only on "does not get stuck": whenever the hand model's cc_clear returns c', the
   generated Clear applied to the abstracted fields of c returns exactly the abstracted fields of c' (count, storage pointers) --
   for every bucket-chain flag nb and every capacity (HashSet::Clear(true)) *)
Theorem clear_refines_generated_fields :
  forall c w c' w', cc_wf c ->
    (cc_clear KTree c w = Ok c' w' ->
       Gen_TreeSet.Clear (crew_null_of c) (count_of c) (storage_of c) (storage_of c) = GenPrelude.Ok (tt, count_of c', storage_of c', storage_of c')) /\
    (cc_clear KHash c w = Ok c' w' -> forall nb cap, exists cap',
       Gen_HashSet.Clear (crew_null_of c) nb (count_of c) cap (storage_of c) true = GenPrelude.Ok (tt, count_of c', cap', storage_of c')) /\
    (cc_clear KMulti c w = Ok c' w' ->
       Gen_HashMultiMap.Clear (crew_null_of c) (count_of c) = GenPrelude.Ok (tt, count_of c')).
Proof.
  intros c w c' w' H.
  destruct c as [cr [|b0 body] items|].
  - destruct H as (_ & _ & HI). specialize (HI eq_refl). subst items.
    repeat split.
    + intros E. inversion E; subst. reflexivity.
    + intros E nb cap. inversion E; subst. eexists. reflexivity.
    + unfold cc_clear. intros E. destruct (dealloc_all _ _ _) eqn:D; try discriminate. inversion E; subst. reflexivity.
  - repeat split.
    + unfold cc_clear. intros E. destruct (dealloc_all _ _ _) eqn:D; try discriminate. inversion E; subst. reflexivity.
    + unfold cc_clear. intros E nb cap. destruct (dealloc_all _ _ _) eqn:D; try discriminate. inversion E; subst. eexists. reflexivity.
    + unfold cc_clear. intros E. destruct (dealloc_all _ _ _) eqn:D; try discriminate. inversion E; subst. reflexivity.
  - repeat split; intros E; inversion E; subst; try reflexivity. intros nb cap. eexists. reflexivity.
Qed.

