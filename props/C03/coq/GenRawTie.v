(* C03 -- DataColumnList::pvCreateRaw TRANSLATED by tools/cxx2coq.py (Gen_RawC03.v; configuration, instantiation TU and the proof
   RawGenC03.generated_pvCreateRaw_balanced copied from C18): the real "create every column item, on a failure destroy the ones
   created so far" loop with its catch block.  It is the leaf that the hand model's `import_row` (Effects2.v) stands for.

   Bounded refinement, by computation: for every column count <= 6 and every position of the failing item construction (and none),
   the hand model and the translated function agree on what a client of C03 can observe - completed or not, how many items were
   constructed, how many destroyed. *)
From Coq Require Import ZArith Bool List Lia.
From MomoCommon Require Import GenPrelude.
From C03 Require Import Effects Effects2 Effects2Proofs Gen_RawC03 RawGenC03.
Import ListNotations.
Local Open Scope Z_scope.

Definition count_ev (p : tev -> bool) (s : rstate) : Z := Z.of_nat (List.length (filter p (trace s))).
Definition is_copy (e : tev) : bool := match e with TCopy _ _ => true | _ => false end.
Definition is_destroy (e : tev) : bool := match e with TDestroy _ => true | _ => false end.

(* the hand model: storage first (never failing here), then the items; the k-th item construction fails (k >= cols: none) *)
Definition l2_obs (cols k : nat) : bool * Z * Z :=
  let sch := false :: map (fun i => Nat.eqb i k) (seq 0 (S cols)) in
  let '(o, s') := import_row 1 40 cols (-1) 0 (rows_init sch) in
  (match o with Val _ => true | _ => false end, count_ev is_copy s', count_ev is_destroy s').

Fixpoint sumf (f : Z -> Z) (n : nat) : Z := match n with O => 0 | S m => sumf f m + f (Z.of_nat m) end.
(* the translated function on `cols` distinct records, same schedule *)
Definition gen_obs (cols k : nat) : bool * Z * Z :=
  match pvCreateRaw (Z.of_nat cols) (fun i => i) 0 (fun _ => 0) (fun _ => 0) (fun c => Z.eqb c (Z.of_nat k)) with
  | Ok (completed, _, c', d') => (completed, sumf c' cols, sumf d' cols)
  | _ => (false, -1, -1)
  end.

Definition obs_eqb (a b : bool * Z * Z) : bool :=
  let '(x, y, z) := a in let '(x', y', z') := b in Bool.eqb x x' && Z.eqb y y' && Z.eqb z z'.

Theorem import_row_refines_generated_bounded :
  forallb (fun cols => forallb (fun k => obs_eqb (l2_obs cols k) (gen_obs cols k)) (seq 0 (cols + 2))) (seq 0 7) = true.
Proof. vm_compute. reflexivity. Qed.

(* and for EVERY size and schedule the translated function is balanced (C18's proof on the copy regenerated here): restated for C03 -
   after a failure every record was destroyed exactly as often as it was created *)
Theorem generated_create_raw_failure_leaves_nothing arr n P t c' d' :
  0 <= n <= 65536 -> first_fail P 0 (Z.to_nat n) = Some t ->
  pvCreateRaw n arr 0 (fun _ => 0) (fun _ => 0) P = Ok (false, Z.of_nat t, c', d') -> forall x, d' x = c' x.
Proof.
  intros Hn Hf E. pose proof (generated_pvCreateRaw_balanced arr n P Hn) as B. rewrite Hf in B.
  destruct B as (c2 & d2 & E2 & _ & _ & _ & Hd). rewrite E in E2. inversion E2; subst. exact Hd.
Qed.
