(* C09: ONE-STEP REFINEMENT  generated pvNewBlock (Gen_MemPoolBlk: addresses, BufferBytes / next-pointer maps)  ->  hand model
   PoolConc.pvNewBlock (buffer ids, lists).  Buffer addresses are the model's buffer ids; the pool-level state (mFreeBufferHead, the
   BufferBytes maps, the next pointers along the free part of the list, the next-free index stored in the first free block of every
   buffer) is related to the PoolConc world by `Rel`; the cells pvNewBuffer() initialises are present at the fresh address
   (`PreInit`: what PoolConc.new_buffer sets).  Then the generated function hands out the block the model hands out, ends in the
   head the model ends in, leaves exactly the model's BufferBytes, keeps the next pointers consistent with the model's list, and asks the manager exactly when the model does.
   So every statement proved about PoolConc.pvNewBlock (the whole-history invariant uses it in Allocate) is a statement about what
   the GENERATED pvNewBlock computes. *)
From Coq Require Import ZArith List Bool Lia.
From MomoCommon Require Import GenPrelude.
From C09 Require PoolBlkPrims Gen_MemPool Gen_MemPoolBlk PoolConc PoolBlk.
Import ListNotations.
Local Open Scope Z_scope.

Section Refine.
Variables C CF B A : Z.
Variable uc : bool.
Hypothesis HC : 2 <= C.

(* next pointers along a list: each element points to its successor, the last one to null *)
Fixpoint linked (nx : Z -> Z) (l : list Z) : Prop :=
  match l with
  | [] => True
  | a :: t => nx a = PoolConc.hd0 t /\ linked nx t
  end.

Definition Rel (w : PoolConc.cworld) (p : bool) (hd : Z) (bf bcnt nx nfi : Z -> Z) : Prop :=
  let x := PoolConc.getp w p in let fresh := PoolConc.fresh w in
  hd = PoolConc.hd0 (PoolConc.lfree x) /\ linked nx (PoolConc.lfree x) /\
  (forall a, In a (PoolConc.lfree x) -> a <> 0 /\ a <> fresh) /\ fresh <> 0 /\
  (forall b, b <> fresh -> bf b = PoolConc.fb w b /\ bcnt b = PoolConc.fc w b /\
                           nfi (Gen_MemPool.pvGetBlock B A b (PoolConc.fb w b)) = PoolConc.nx w b (PoolConc.fb w b)).

(* the cells pvNewBuffer() writes, present at the fresh address (PoolConc.new_buffer: first free 0, all C blocks free, block 0 -> 1) *)
Definition PreInit (w : PoolConc.cworld) (bf bcnt nx nfi : Z -> Z) : Prop :=
  let fresh := PoolConc.fresh w in
  bf fresh = 0 /\ bcnt fresh = C /\ nx fresh = 0 /\ nfi (Gen_MemPool.pvGetBlock B A fresh 0) = (if 0 =? C - 1 then PoolConc.NIL else 1).

Lemma getp_set_lists w p a b : PoolConc.lfree (PoolConc.getp (PoolConc.set_lists w p a b) p) = b /\
  PoolConc.lfull (PoolConc.getp (PoolConc.set_lists w p a b) p) = a.
Proof. destruct p; split; reflexivity. Qed.
Lemma maps_set_lists w p a b : PoolConc.fb (PoolConc.set_lists w p a b) = PoolConc.fb w /\
  PoolConc.fc (PoolConc.set_lists w p a b) = PoolConc.fc w /\ PoolConc.nx (PoolConc.set_lists w p a b) = PoolConc.nx w /\
  PoolConc.fresh (PoolConc.set_lists w p a b) = PoolConc.fresh w.
Proof. destruct p; repeat split; reflexivity. Qed.

Theorem newblock_refines w p hd bf bcnt nx pv nfi :
  Rel w p hd bf bcnt nx nfi -> PreInit w bf bcnt nx nfi ->
  let fresh := PoolConc.fresh w in
  let '(w', (b, i)) := PoolConc.pvNewBlock C w p in
  let requested := negb (PoolConc.fresh w' =? fresh) in
  exists hd2 bf' bcnt' nx' pv',
    Gen_MemPoolBlk.pvNewBlock fresh B A hd bf bcnt nx pv nfi false = Ok (Some (Gen_MemPool.pvGetBlock B A b i), hd2, bf', bcnt', nx', pv') /\
    PoolBlk.requests hd bcnt nx = requested /\
    hd2 = PoolConc.hd0 (PoolConc.lfree (PoolConc.getp w' p)) /\ linked nx' (PoolConc.lfree (PoolConc.getp w' p)) /\
    (forall c, c <> fresh \/ requested = true -> bf' c = PoolConc.fb w' c /\ bcnt' c = PoolConc.fc w' c).
Proof.
  intros (Ehd & Lk & Ids & F0 & Maps) (I1 & I2 & I3 & I4). cbv zeta.
  pose proof (PoolBlk.newblock_spec (PoolConc.fresh w) B A hd bf bcnt nx pv nfi) as S. cbv zeta in S.
  unfold PoolConc.pvNewBlock. destruct (PoolConc.lfree (PoolConc.getp w p)) as [|h rest] eqn:El.
  - (* no buffer at all: the model attaches a new buffer and takes its block 0 *)
    cbn [PoolConc.hd0] in Ehd. subst hd. rewrite Z.eqb_refl in S.
    unfold PoolConc.attach_new, PoolConc.new_buffer.
    set (wi := PoolConc.mkCW _ _ _ _ _ _ _).
    destruct (getp_set_lists wi p (PoolConc.lfull (PoolConc.getp wi p)) (PoolConc.lfree (PoolConc.getp wi p) ++ [PoolConc.fresh w])) as (Gl & _).
    destruct (maps_set_lists wi p (PoolConc.lfull (PoolConc.getp wi p)) (PoolConc.lfree (PoolConc.getp wi p) ++ [PoolConc.fresh w])) as (Mb & Mc & Mn & Mf).
    assert (PoolConc.lfree (PoolConc.getp wi p) = []) as Ei by (destruct p; exact El).
    rewrite Ei in *. cbn [app] in *.
    set (w1 := PoolConc.set_lists wi p _ _) in *.
    rewrite Gl. cbn [PoolConc.hd0 PoolConc.tl0]. rewrite Mc.
    assert (PoolConc.fc wi (PoolConc.fresh w) = C) as Efc by (unfold wi; cbn; unfold upd; rewrite Z.eqb_refl; reflexivity).
    rewrite Efc. destruct (Z.eqb_spec C 1) as [|_]; [lia|]. cbn [andb].
    unfold PoolConc.take. rewrite Gl. cbn [PoolConc.hd0 PoolConc.tl0]. rewrite Mb, Mc, Mn, Efc.
    assert (PoolConc.fb wi (PoolConc.fresh w) = 0) as Efb by (unfold wi; cbn; unfold upd; rewrite Z.eqb_refl; reflexivity).
    rewrite Efb. destruct (Z.eqb_spec (C - 1) 0) as [|_]; [lia|].
    rewrite I2 in S. destruct (Z.eqb_spec C 1) as [|_]; [lia|]. cbn [andb] in S. rewrite I1 in S.
    destruct (Z.eqb_spec (C - 1) 0) as [|_]; [lia|].
    do 5 eexists. split; [exact S|]. split.
    { unfold PoolBlk.requests. rewrite Z.eqb_refl. cbn [orb]. unfold PoolConc.set_bytes; cbn [PoolConc.fresh]. rewrite Mf. unfold wi; cbn [PoolConc.fresh].
      destruct (Z.eqb_spec (PoolConc.fresh w + 1) (PoolConc.fresh w)); [lia|reflexivity]. }
    assert (PoolConc.getp (PoolConc.set_bytes w1 (PoolConc.fresh w) (PoolConc.nx wi (PoolConc.fresh w) 0) (C - 1)) p = PoolConc.getp w1 p) as Eg by (destruct p; reflexivity).
    rewrite Eg, Gl. cbn [PoolConc.hd0]. split; [reflexivity|]. split; [cbn [linked PoolConc.hd0]; auto|].
    intros c _. unfold PoolConc.set_bytes; cbn [PoolConc.fb PoolConc.fc]. rewrite Mb, Mc. unfold upd.
    destruct (Z.eqb_spec c (PoolConc.fresh w)) as [->|Nc].
    + split; [|reflexivity]. rewrite I4. unfold wi; cbn [PoolConc.nx]. rewrite Z.eqb_refl. reflexivity.
    + destruct (Maps c Nc) as (M1 & M2 & _). unfold wi; cbn [PoolConc.fb PoolConc.fc]. unfold upd.
      destruct (Z.eqb_spec c (PoolConc.fresh w)); [contradiction|]. split; assumption.
  - (* the pool has a head h *)
    cbn [PoolConc.hd0] in Ehd. subst hd. destruct (Ids h (or_introl eq_refl)) as (Nh0 & Nhf).
    destruct (Z.eqb_spec h 0) as [|_]; [contradiction|].
    destruct Lk as (Lh & Lrest). destruct (Maps h Nhf) as (Mh1 & Mh2 & Mh3).
    rewrite El. cbn [PoolConc.hd0 PoolConc.tl0].
    assert (PoolConc.hd0 rest = 0 <-> rest = []) as Hrest.
    { destruct rest as [|c r]; [tauto|]. cbn [PoolConc.hd0]. split; [|discriminate]. intros E0.
      destruct (Ids c (or_intror (or_introl eq_refl))) as (N & _). contradiction. }
    rewrite Mh2, Lh in S. rewrite Mh1, Mh3 in S.
    destruct ((PoolConc.fc w h =? 1) && (PoolConc.hd0 rest =? 0)) eqn:Need.
    + (* look-ahead: last block of the last buffer -> attach a spare buffer *)
      apply andb_prop in Need. destruct Need as (N1 & N2). apply Z.eqb_eq in N1, N2. apply Hrest in N2. subst rest.
      unfold PoolConc.attach_new, PoolConc.new_buffer.
      set (wi := PoolConc.mkCW _ _ _ _ _ _ _).
      destruct (getp_set_lists wi p (PoolConc.lfull (PoolConc.getp wi p)) (PoolConc.lfree (PoolConc.getp wi p) ++ [PoolConc.fresh w])) as (Gl & Gf).
      destruct (maps_set_lists wi p (PoolConc.lfull (PoolConc.getp wi p)) (PoolConc.lfree (PoolConc.getp wi p) ++ [PoolConc.fresh w])) as (Mb & Mc & Mn & Mf).
      assert (PoolConc.lfree (PoolConc.getp wi p) = [h]) as Ei by (destruct p; exact El).
      rewrite Ei in *. cbn [app] in *.
      set (w1 := PoolConc.set_lists wi p _ _) in *.
      unfold PoolConc.take. rewrite Gl. cbn [PoolConc.hd0 PoolConc.tl0]. rewrite Mb, Mc, Mn.
      assert (PoolConc.fb wi h = PoolConc.fb w h /\ PoolConc.fc wi h = PoolConc.fc w h /\ PoolConc.nx wi h = PoolConc.nx w h) as (Eb & Ec & En).
      { unfold wi; cbn [PoolConc.fb PoolConc.fc PoolConc.nx]. unfold upd. destruct (Z.eqb_spec h (PoolConc.fresh w)); [contradiction|]. auto. }
      rewrite Eb, Ec, En, N1. change (1 - 1 =? 0) with true. cbv iota.
      rewrite N1 in S. change (1 - 1 =? 0) with true in S. cbv iota in S.
      do 5 eexists. split; [exact S|]. split.
      { unfold PoolBlk.requests. destruct (Z.eqb_spec h 0); [contradiction|]. cbn [orb]. rewrite Mh2, Lh, N1. cbn.
        destruct p; cbn; unfold wi; cbn; destruct (Z.eqb_spec (PoolConc.fresh w + 1) (PoolConc.fresh w)); try lia; reflexivity. }
      set (w2 := PoolConc.set_bytes w1 h _ _).
      destruct (getp_set_lists w2 p (PoolConc.lfull (PoolConc.getp w1 p) ++ [h]) [PoolConc.fresh w]) as (Gl2 & _).
      rewrite Gl2. cbn [PoolConc.hd0]. split; [reflexivity|]. split.
      { cbn [linked PoolConc.hd0]. split; [|exact I]. unfold upd. destruct (Z.eqb_spec (PoolConc.fresh w) h); [congruence|exact I3]. }
      intros c _.
      destruct (maps_set_lists w2 p (PoolConc.lfull (PoolConc.getp w1 p) ++ [h]) [PoolConc.fresh w]) as (Mb2 & Mc2 & _ & _).
      rewrite Mb2, Mc2. unfold w2, PoolConc.set_bytes; cbn [PoolConc.fb PoolConc.fc]. rewrite Mb, Mc. unfold upd.
      destruct (Z.eqb_spec c h) as [->|Nc]; [split; reflexivity|].
      unfold wi; cbn [PoolConc.fb PoolConc.fc]. unfold upd. destruct (Z.eqb_spec c (PoolConc.fresh w)) as [->|Ncf]; [split; assumption|].
      destruct (Maps c Ncf) as (M1 & M2 & _). split; assumption.
    + (* ordinary take from the head *)
      unfold PoolConc.take. rewrite El. cbn [PoolConc.hd0 PoolConc.tl0].
      do 5 eexists. split; [exact S|]. split.
      { unfold PoolBlk.requests. destruct (Z.eqb_spec h 0); [contradiction|]. cbn [orb]. rewrite Mh2, Lh, Need.
        destruct (PoolConc.fc w h - 1 =? 0); [destruct p|]; cbn; rewrite Z.eqb_refl; reflexivity. }
      set (w2 := PoolConc.set_bytes w h _ _).
      assert (PoolConc.getp w2 p = PoolConc.getp w p) as Eg by (destruct p; reflexivity).
      destruct (PoolConc.fc w h - 1 =? 0) eqn:Ez.
      * destruct (getp_set_lists w2 p (PoolConc.lfull (PoolConc.getp w p) ++ [h]) rest) as (Gl2 & _). rewrite Gl2.
        split; [reflexivity|]. split; [exact Lrest|].
        intros c [Nc|Ab]; [|destruct p; cbn in Ab; rewrite Z.eqb_refl in Ab; discriminate].
        destruct (maps_set_lists w2 p (PoolConc.lfull (PoolConc.getp w p) ++ [h]) rest) as (Mb2 & Mc2 & _ & _).
        rewrite Mb2, Mc2. unfold w2, PoolConc.set_bytes; cbn [PoolConc.fb PoolConc.fc]. unfold upd.
        destruct (Z.eqb_spec c h) as [->|Nch]; [split; reflexivity|]. destruct (Maps c Nc) as (M1 & M2 & _). split; assumption.
      * rewrite Eg, El. cbn [PoolConc.hd0]. split; [reflexivity|]. split; [cbn [linked]; split; assumption|].
        intros c [Nc|Ab]; [|cbn in Ab; rewrite Z.eqb_refl in Ab; discriminate].
        unfold w2, PoolConc.set_bytes; cbn [PoolConc.fb PoolConc.fc]. unfold upd.
        destruct (Z.eqb_spec c h) as [->|Nch]; [split; reflexivity|]. destruct (Maps c Nc) as (M1 & M2 & _). split; assumption.
Qed.

(* with a manager that refuses: the generated pvNewBlock returns None with NOTHING written exactly in the calls in which the model
   creates a buffer; in all other calls the flag is irrelevant *)
Corollary newblock_refusal_matches_model w p hd bf bcnt nx pv nfi :
  Rel w p hd bf bcnt nx nfi -> PreInit w bf bcnt nx nfi ->
  Gen_MemPoolBlk.pvNewBlock (PoolConc.fresh w) B A hd bf bcnt nx pv nfi true =
    if negb (PoolConc.fresh (fst (PoolConc.pvNewBlock C w p)) =? PoolConc.fresh w) then Ok (None, hd, bf, bcnt, nx, pv)
    else Gen_MemPoolBlk.pvNewBlock (PoolConc.fresh w) B A hd bf bcnt nx pv nfi false.
Proof.
  intros R I. pose proof (newblock_refines w p hd bf bcnt nx pv nfi R I) as H. cbv zeta in H.
  destruct (PoolConc.pvNewBlock C w p) as (w' & (b & i)). destruct H as (? & ? & ? & ? & ? & _ & Rq & _).
  rewrite PoolBlk.newblock_refused_writes_nothing, Rq. reflexivity.
Qed.

(* the hypotheses of the refinement theorem are satisfiable: the initial world (no buffer, fresh id 1) with the cells of buffer 1
   pre-initialised *)
Lemma rel_nonvacuous : exists w p hd bf bcnt nx nfi, Rel w p hd bf bcnt nx nfi /\ PreInit w bf bcnt nx nfi.
Proof.
  exists PoolConc.empty_world, false, 0, (fun _ => 0), (fun b => if b =? 1 then C else 0), (fun _ => 0),
         (fun a => if a =? Gen_MemPool.pvGetBlock B A 1 0 then (if 0 =? C - 1 then PoolConc.NIL else 1) else 0).
  split.
  - unfold Rel. cbn [PoolConc.getp PoolConc.empty_world PoolConc.cp0 PoolConc.lfree PoolConc.empty_pool PoolConc.fresh PoolConc.hd0
                     PoolConc.fb PoolConc.fc PoolConc.nx linked].
    split; [reflexivity|]. split; [exact I|]. split; [intros a []|]. split; [discriminate|].
    intros b Nb. split; [reflexivity|]. split; [destruct (Z.eqb_spec b 1); [contradiction|reflexivity]|].
    destruct (Z.eqb_spec (Gen_MemPool.pvGetBlock B A b 0) (Gen_MemPool.pvGetBlock B A 1 0)) as [E|_]; [|reflexivity].
    exfalso. unfold Gen_MemPool.pvGetBlock in E. lia.
  - unfold PreInit. cbn [PoolConc.empty_world PoolConc.fresh]. rewrite !Z.eqb_refl. auto.
Qed.
End Refine.

