(* C14 round 9 -- (a) the pvAssign overload clang chooses inside MemManagerStd<A>::operator= for all 16 allocator types
   (Gen_PvAssignTable.v) against PropagationModel.mms_pvAssign; (b) the catch blocks of the copying constructors
   (Gen_CtorCatch.v) composed with the generated destructor bodies, incl. the newly generated HashSet::pvDestroy. *)
From Coq Require Import ZArith Bool List String Lia.
From MomoCommon Require Import GenPrelude.
From C14 Require Import PropagationModel Model Proofs GenProofs.
From C14 Require Gen_PvAssignTable Gen_CtorCatch Gen_TreeSet Gen_HashSet.
Import ListNotations.
Local Open Scope Z_scope.

(* ---------------------------------------------------------------- MemManagerStd::operator= / pvAssign *)
Definition all16 : list (bool * bool * bool * bool) :=
  flat_map (fun a => flat_map (fun b => flat_map (fun c => map (fun d => (a, b, c, d)) [false; true]) [false; true]) [false; true]) [false; true].

(* every one of the 16 (POCCA, POCMA, POCS, nothrow-move-assignable) allocator types occurs exactly once in the generated table,
   the overload chosen by the compiler is the one the model predicts, and operator= is disabled exactly for the type the model
   calls not enabled (then MemManagerProxy::Assign destroys and move-constructs) *)
Theorem pvassign_overload_choice :
  map fst Gen_PvAssignTable.pvassign_table = all16 /\
  Forall (fun row => let '(ca, ma, sw, nm, k) := row in
            mms_pvAssign (mkTraits ca ma sw nm false) = k /\
            (mms_assign_enabled (mkTraits ca ma sw nm false) = false <-> k = ADisabled))
         Gen_PvAssignTable.pvassign_table.
Proof.
  split; [reflexivity|].
  repeat (constructor; [cbv beta iota zeta; split; [reflexivity|split; intros H; (reflexivity || discriminate)]|]). constructor.
Qed.

(* ---------------------------------------------------------------- failed copy construction: no double destruction *)
Definition hash_catch_expected : list string := ["pvDestroy"; "mBuckets := null"; "throw"]%string.
Definition tree_catch_expected : list string := ["pvDestroy"; "mRootNode := null"; "mNodeParams := null"; "throw"]%string.
Definition multi_catch_expected : list string := ["pvClearValueArrays"; "mValueCrew.Destroy"; "throw"]%string.
Definition table_catch_expected : list string := ["pvDestroyRaws"; "mRaws.Clear"; "throw"]%string.

(* HashSet / TreeSet copy constructors delegate, so after their catch block (destroy, null the storage pointers, rethrow) the
   destructor runs too: its generated body is a no-op on the nulled pointers (806b9fe).  HashMultiMap's copying constructor does
   not delegate (no destructor follows): its catch releases the value crew itself (84c9298 area).  DataTable's copy constructor
   delegates; pvFill's outer catch destroys the raws AND clears the raw array, so the destructor finds no raw (91ea186). *)
Theorem failed_copy_no_double_destroy :
  Gen_CtorCatch.hash_copy_ctor_catch = hash_catch_expected /\ Gen_CtorCatch.hash_copy_ctor_delegates = true /\
  Gen_CtorCatch.tree_copy_ctor_catch = tree_catch_expected /\ Gen_CtorCatch.tree_copy_ctor_delegates = true /\
  Gen_CtorCatch.multi_copy_ctor_catch = multi_catch_expected /\ Gen_CtorCatch.multi_copy_ctor_delegates = false /\
  Gen_CtorCatch.table_fill_outer_catch = table_catch_expected /\ Gen_CtorCatch.table_copy_ctor_delegates = true /\
  (forall crew_null cnt cap, Gen_HashSet.pvDestroy crew_null cnt cap 0 = GenPrelude.Ok tt) /\
  (forall crew_null cnt, Gen_TreeSet.pvDestroy crew_null cnt 0 0 = GenPrelude.Ok tt).
Proof. repeat split. Qed.

(* generated HashSet::pvDestroy(Buckets*, bool) / pvDestroy(): nothing for a null bucket pointer, the crew's manager otherwise *)
Theorem gen_hash_destroy :
  (forall crew_null cnt cap bk flag, Gen_HashSet.pvDestroyB crew_null cnt cap bk 0 flag = GenPrelude.Ok tt) /\
  (forall cnt cap bk b flag, Gen_HashSet.pvDestroyB false cnt cap bk b flag = GenPrelude.Ok tt) /\
  (forall cnt cap bk b flag, b <> 0 -> Gen_HashSet.pvDestroyB true cnt cap bk b flag = GenPrelude.Stuck) /\
  (forall cnt cap bk, Gen_HashSet.pvDestroy false cnt cap bk = GenPrelude.Ok tt) /\
  (forall cnt cap bk, bk <> 0 -> Gen_HashSet.pvDestroy true cnt cap bk = GenPrelude.Stuck).
Proof.
  repeat split; intros; unfold Gen_HashSet.pvDestroy, Gen_HashSet.pvDestroyB;
    repeat match goal with |- context [Z.eqb ?x 0] => destruct (Z.eqb_spec x 0); try contradiction end; reflexivity.
Qed.
