(* C07 / DataSelection editing functions (DataSelection.h:610-712) on the selection's row array: Set, Add, Add(range),
   Insert, Insert(range) = Add + std::rotate, Remove(index, count), Remove(filter) = the compacting swap loop + RemoveBack,
   Assign = Add(range) + Remove(0, old count), Reverse, Clear.  Executable (extracted and run against real selections in the
   `S` queries); theorems: the algorithms are their list specifications, and editing never brings in a row that is neither in
   the selection nor among the rows handed in (a selection of table rows stays a selection of table rows). *)
From Coq Require Import List Arith PeanoNat Lia Bool.
Import ListNotations.

Section Edit.
Context {A : Type}.

Definition sel_set (i : nat) (x : A) (l : list A) : list A := firstn i l ++ x :: skipn (S i) l.
Definition sel_add (x : A) (l : list A) : list A := l ++ [x].
Definition sel_add_range (xs l : list A) : list A := l ++ xs.
Definition sel_insert (i : nat) (x : A) (l : list A) : list A := firstn i l ++ x :: skipn i l.
(* Insert(index, begin, end): Add(begin, end); std::rotate(first + index, first + initCount, end) *)
Definition rotate (a b : nat) (l : list A) : list A := firstn a l ++ skipn b l ++ firstn (b - a) (skipn a l).
Definition sel_insert_range (i : nat) (xs l : list A) : list A := rotate i (length l) (sel_add_range xs l).
Definition sel_remove (i cnt : nat) (l : list A) : list A := firstn i l ++ skipn (i + cnt) l.
(* Assign(begin, end): Add(begin, end); mRaws.Remove(0, initCount) *)
Definition sel_assign (xs l : list A) : list A := sel_remove 0 (length l) (sel_add_range xs l).
Definition sel_reverse (l : list A) : list A := rev l.

(* Remove(rowFilter): kept = mRaws[0, newCount), pending = the removed rows between newCount and the scan position (in the
   order the swaps leave them), rest = not yet scanned; swap(mRaws[newCount], raw) puts the kept row at newCount and the
   first pending row at the scan position *)
Fixpoint remove_loop (p : A -> bool) (kept pending rest : list A) : list A * list A :=
  match rest with
  | [] => (kept, pending)
  | y :: rest' =>
      if p y then remove_loop p kept (pending ++ [y]) rest'
      else match pending with
           | [] => remove_loop p (kept ++ [y]) [] rest'
           | q :: qs => remove_loop p (kept ++ [y]) (qs ++ [q]) rest'
           end
  end.
Definition sel_remove_pred (p : A -> bool) (l : list A) : list A := fst (remove_loop p [] [] l).   (* RemoveBack(remCount) *)

Lemma remove_loop_spec p : forall rest kept pending,
  fst (remove_loop p kept pending rest) = kept ++ filter (fun x => negb (p x)) rest /\
  length (snd (remove_loop p kept pending rest)) = length pending + length (filter p rest).
Proof.
  induction rest as [|y rest IH]; intros kept pending; cbn [remove_loop filter].
  - rewrite app_nil_r. split; [reflexivity|simpl; lia].
  - destruct (p y) eqn:E; cbn [negb].
    + destruct (IH kept (pending ++ [y])) as [H1 H2]. split; [exact H1|]. rewrite H2, app_length. simpl. lia.
    + destruct pending as [|q qs].
      * destruct (IH (kept ++ [y]) []) as [H1 H2]. split; [rewrite H1, <- app_assoc; reflexivity|exact H2].
      * destruct (IH (kept ++ [y]) (qs ++ [q])) as [H1 H2]. split; [rewrite H1, <- app_assoc; reflexivity|].
        rewrite H2, app_length. simpl. lia.
Qed.

(* Remove(filter) keeps exactly the rows the filter rejects, in their order; the returned count is the number removed *)
Theorem remove_pred_is_filter p l :
  sel_remove_pred p l = filter (fun x => negb (p x)) l /\ length (snd (remove_loop p [] [] l)) = length (filter p l).
Proof. unfold sel_remove_pred. destruct (remove_loop_spec p l [] []) as [H1 H2]. split; [exact H1|exact H2]. Qed.

Theorem insert_range_is_splice i xs l : i <= length l -> sel_insert_range i xs l = firstn i l ++ xs ++ skipn i l.
Proof.
  intros Hi. unfold sel_insert_range, rotate, sel_add_range.
  assert (E1 : firstn i (l ++ xs) = firstn i l).
  { rewrite firstn_app. replace (i - length l) with 0 by lia. cbn [firstn]. apply app_nil_r. }
  assert (E2 : skipn (length l) (l ++ xs) = xs).
  { rewrite skipn_app, skipn_all, Nat.sub_diag. reflexivity. }
  assert (E3 : firstn (length l - i) (skipn i (l ++ xs)) = skipn i l).
  { rewrite skipn_app. replace (i - length l) with 0 by lia. cbn [skipn].
    rewrite firstn_app, skipn_length. replace (length l - i - (length l - i)) with 0 by lia. cbn [firstn]. rewrite app_nil_r.
    apply firstn_all2. rewrite skipn_length. lia. }
  rewrite E1, E2, E3. reflexivity.
Qed.

Theorem assign_is_new xs l : sel_assign xs l = xs.
Proof.
  unfold sel_assign, sel_remove, sel_add_range. cbn [firstn app Nat.add]. rewrite skipn_app, skipn_all, Nat.sub_diag. reflexivity.
Qed.

(* frame: a selection of rows of the table stays one under every editing function, provided the rows handed in are table rows *)
Inductive sel_op := EAdd (x : A) | EAddRange (xs : list A) | ESet (i : nat) (x : A) | EInsert (i : nat) (x : A)
                  | EInsertRange (i : nat) (xs : list A) | ERemove (i cnt : nat) | ERemovePred (p : A -> bool)
                  | EAssign (xs : list A) | EReverse | EClear.
Definition sel_apply (o : sel_op) (l : list A) : list A :=
  match o with
  | EAdd x => sel_add x l | EAddRange xs => sel_add_range xs l | ESet i x => sel_set i x l | EInsert i x => sel_insert i x l
  | EInsertRange i xs => sel_insert_range i xs l | ERemove i c => sel_remove i c l | ERemovePred p => sel_remove_pred p l
  | EAssign xs => sel_assign xs l | EReverse => sel_reverse l | EClear => []
  end.
Definition op_rows (o : sel_op) : list A :=
  match o with EAdd x | ESet _ x | EInsert _ x => [x] | EAddRange xs | EInsertRange _ xs | EAssign xs => xs | _ => [] end.

Lemma in_firstn (n : nat) (l : list A) x : In x (firstn n l) -> In x l.
Proof. intros H. rewrite <- (firstn_skipn n l). apply in_or_app. left. exact H. Qed.
Lemma in_skipn (n : nat) (l : list A) x : In x (skipn n l) -> In x l.
Proof. intros H. rewrite <- (firstn_skipn n l). apply in_or_app. right. exact H. Qed.

Theorem selection_edit_frame (rs : list A) o l :
  incl l rs -> incl (op_rows o) rs -> incl (sel_apply o l) rs.
Proof.
  intros Hl Ho x Hx. destruct o; cbn [sel_apply op_rows] in *.
  - apply in_app_iff in Hx as [H|H]; [apply Hl, H|apply Ho, H].
  - apply in_app_iff in Hx as [H|H]; [apply Hl, H|apply Ho, H].
  - unfold sel_set in Hx. apply in_app_iff in Hx as [H|[<-|H]]; [apply Hl, (in_firstn _ _ _ H)|apply Ho; left; reflexivity|apply Hl, (in_skipn _ _ _ H)].
  - unfold sel_insert in Hx. apply in_app_iff in Hx as [H|[<-|H]]; [apply Hl, (in_firstn _ _ _ H)|apply Ho; left; reflexivity|apply Hl, (in_skipn _ _ _ H)].
  - unfold sel_insert_range, rotate, sel_add_range in Hx.
    assert (G : forall y, In y (l ++ xs) -> In y rs) by (intros y Hy; apply in_app_iff in Hy as [H|H]; [apply Hl, H|apply Ho, H]).
    apply in_app_iff in Hx as [H|H]; [apply G, (in_firstn _ _ _ H)|]. apply in_app_iff in H as [H|H]; [apply G, (in_skipn _ _ _ H)|].
    apply G, (in_skipn i _ _ (in_firstn _ _ _ H)).
  - unfold sel_remove in Hx. apply in_app_iff in Hx as [H|H]; [apply Hl, (in_firstn _ _ _ H)|apply Hl, (in_skipn _ _ _ H)].
  - rewrite (proj1 (remove_pred_is_filter p l)) in Hx. apply filter_In in Hx as [H _]. apply Hl, H.
  - rewrite assign_is_new in Hx. apply Ho, Hx.
  - unfold sel_reverse in Hx. apply in_rev in Hx. apply Hl, Hx.
  - destruct Hx.
Qed.
End Edit.

Theorem insert_assign_spec (l xs : list BinNums.Z) i :
  (i <= length l -> sel_insert_range i xs l = firstn i l ++ xs ++ skipn i l) /\ sel_assign xs l = xs.
Proof. split; [apply insert_range_is_splice|apply assign_is_new]. Qed.
