(* C09: internal::MemPoolUInt32 (the pool with 32-bit block handles, MemPool.h 806-942): proofs about the GENERATED index
   arithmetic (Gen_MemPoolUInt32.v: GetRealPointer, pvGetBufferSize, pvNewBuffer incl. the maxTotalBlockCount refusal and the
   uint32 "next free handle" stored into every block of the new buffer). *)
From Coq Require Import ZArith List Bool Lia.
From MomoCommon Require Import GenPrelude.
From C09 Require PoolU32Prims Gen_MemPoolUInt32.
Import ListNotations.
Local Open Scope Z_scope.

Lemma two64 : 2 ^ 64 = 18446744073709551616. Proof. reflexivity. Qed.
Lemma two32 : 2 ^ 32 = 4294967296. Proof. reflexivity. Qed.

Section U32.
Variables bc bs : Z.                       (* blockCount, mBlockSize = max(blockSize, sizeof(uint32_t)) *)
Hypothesis Hbc : 1 <= bc.
Hypothesis Hbs : 4 <= bs.
Hypothesis Hsz : bc * bs < 2 ^ 63.          (* the constructor rejects mBlockSize > maxSize / blockCount *)

Lemma buffersize_spec mB mN mem mH mM mA : Gen_MemPoolUInt32.pvGetBufferSize bc mB mN mem mH mM bs mA = bc * bs.
Proof. unfold Gen_MemPoolUInt32.pvGetBufferSize. apply wrapU_small. rewrite two64. change (2 ^ 63) with 9223372036854775808 in Hsz. nia. Qed.

(* GetRealPointer: handle h denotes block (h mod blockCount) of buffer (h / blockCount) *)
Lemma realpointer_spec mB mN mem mH mM mA h : 0 <= h < 4294967295 ->
  Gen_MemPoolUInt32.GetRealPointer bc mB mN mem mH mM bs mA h = Ok (mB (h / bc) + (h mod bc) * bs).
Proof.
  intros Hh. unfold Gen_MemPoolUInt32.GetRealPointer, Gen_MemPoolUInt32.nullPtr.
  destruct (Z.eqb_spec h 4294967295); [lia|]. cbn [negb]. cbv zeta.
  pose proof (Z.mod_pos_bound h bc ltac:(lia)). rewrite wrapU_small; [reflexivity|].
  rewrite two64. change (2 ^ 63) with 9223372036854775808 in Hsz. nia.
Qed.

(* handle <-> (buffer, offset): different handles below n*blockCount denote disjoint blocks, each inside its buffer, provided the
   n buffers (pvGetBufferSize bytes each) are disjoint *)
Theorem handles_disjoint mB mN mem mH mM mA n h h' :
  0 <= h < n * bc -> 0 <= h' < n * bc -> n * bc <= 4294967295 -> h <> h' ->
  (forall k k', 0 <= k < n -> 0 <= k' < n -> k <> k' -> mB k + bc * bs <= mB k' \/ mB k' + bc * bs <= mB k) ->
  exists a a', Gen_MemPoolUInt32.GetRealPointer bc mB mN mem mH mM bs mA h = Ok a /\
               Gen_MemPoolUInt32.GetRealPointer bc mB mN mem mH mM bs mA h' = Ok a' /\
               0 <= h / bc < n /\ mB (h / bc) <= a /\ a + bs <= mB (h / bc) + Gen_MemPoolUInt32.pvGetBufferSize bc mB mN mem mH mM bs mA /\
               (a + bs <= a' \/ a' + bs <= a).
Proof.
  intros Hh Hh' Hn Ne Dis. rewrite buffersize_spec.
  exists (mB (h / bc) + (h mod bc) * bs), (mB (h' / bc) + (h' mod bc) * bs).
  split; [apply realpointer_spec; lia|]. split; [apply realpointer_spec; lia|].
  pose proof (Z.mod_pos_bound h bc ltac:(lia)) as M. pose proof (Z.mod_pos_bound h' bc ltac:(lia)) as M'.
  pose proof (Z.div_mod h bc ltac:(lia)) as D. pose proof (Z.div_mod h' bc ltac:(lia)) as D'.
  assert (0 <= h / bc < n) as K by (split; [apply Z.div_pos; lia|apply Z.div_lt_upper_bound; lia]).
  assert (0 <= h' / bc < n) as K' by (split; [apply Z.div_pos; lia|apply Z.div_lt_upper_bound; lia]).
  split; [exact K|]. split; [nia|]. split; [nia|].
  destruct (Z.eq_dec (h / bc) (h' / bc)) as [E|N].
  - rewrite E. assert (h mod bc <> h' mod bc) as Nm by (intro Em; apply Ne; rewrite D, D', E, Em; reflexivity).
    destruct (Z_lt_le_dec (h mod bc) (h' mod bc)); [left|right]; nia.
  - destruct (Dis (h / bc) (h' / bc) K K' N); [left|right]; nia.
Qed.

(* the value pvNewBuffer's loop stores into block i of buffer number n: the next handle of the same buffer, the null handle in the last block *)
Definition nextval (n i : Z) : Z := if i + 1 <? bc then n * bc + i + 1 else 4294967295.

Lemma loop_spec buffer n : 0 <= n -> n * bc + bc <= 4294967294 ->
  forall fuel i mem, 0 <= i <= bc -> (Z.to_nat (bc - i) < fuel)%nat ->
  exists mem', Gen_MemPoolUInt32.pvNewBuffer_loop0 bc fuel buffer n bs i mem = Ok (bc, mem') /\
    (forall j, i <= j < bc -> mem' (buffer + bs * j) = nextval n j) /\
    (forall a, (forall j, i <= j < bc -> a <> buffer + bs * j) -> mem' a = mem a).
Proof.
  intros Hn Hlim. induction fuel as [|fuel IH]; intros i mem Hi Hf; [lia|]. rewrite Gen_MemPoolUInt32.pvNewBuffer_loop0_eq.
  change (2 ^ 63) with 9223372036854775808 in Hsz.
  destruct (Z.ltb_spec i bc) as [L|G].
  2:{ exists mem. split; [do 2 f_equal; lia|]. split; [intros; lia|reflexivity]. }
  cbv zeta.
  rewrite (wrapU_small 64 (i + 1)) by (rewrite two64; nia).
  rewrite (wrapU_small 64 (bs * i)) by (rewrite two64; nia).
  assert (0 <= n * bc) by nia.
  rewrite (wrapU_small 64 (n * bc)) by (rewrite two64; lia).
  rewrite (wrapU_small 64 (n * bc + i)) by (rewrite two64; lia).
  rewrite (wrapU_small 64 (n * bc + i + 1)) by (rewrite two64; lia).
  rewrite (wrapU_small 32 (n * bc + i + 1)) by (rewrite two32; lia).
  fold (nextval n i). unfold Gen_MemPoolUInt32.nullPtr. fold (nextval n i).
  destruct (IH (i + 1) (PoolU32Prims.store32 mem (nextval n i) (buffer + bs * i)) ltac:(lia) ltac:(lia)) as (mem' & E & Hin & Hout).
  exists mem'. split; [exact E|]. split.
  - intros j Hj. destruct (Z.eq_dec j i) as [->|Nj]; [|apply Hin; lia].
    rewrite Hout; [unfold PoolU32Prims.store32, upd; rewrite Z.eqb_refl; reflexivity|]. intros j' Hj'. nia.
  - intros a Ha. rewrite Hout by (intros j Hj; apply Ha; lia). unfold PoolU32Prims.store32, upd.
    destruct (Z.eqb_spec a (buffer + bs * i)) as [->|]; [exfalso; apply (Ha i); [lia|reflexivity]|reflexivity].
Qed.

(* pvNewBuffer 903-919: below the limit the new buffer gets the handles n*blockCount .. +blockCount-1 (n = mBuffers.GetCount()): no
   32-bit wrap-around, never the null handle; mBlockHead becomes the first of them, the buffer is appended to mBuffers, block i of it
   holds the handle of block i+1 (the last one the null handle), no other memory cell changes; at the limit
   maxTotalBlockCount/blockCount it throws (outcome Exn) before changing anything *)
Theorem newbuffer_spec mB mN mem mH mM mA buffer :
  0 <= mN -> mM * bc <= 4294967294 ->     (* mMaxBufferCount = maxTotalBlockCount / blockCount, maxTotalBlockCount < 2^32-1 *)
  (mN < mM ->
     (exists mem', Gen_MemPoolUInt32.pvNewBuffer bc mB mN mem mH mM bs mA buffer = Ok (tt, upd mB mN buffer, mN + 1, mem', mN * bc) /\
        (forall j, 0 <= j < bc -> mem' (buffer + bs * j) = nextval mN j) /\
        (forall a, (forall j, 0 <= j < bc -> a <> buffer + bs * j) -> mem' a = mem a)) /\
     forall i, 0 <= i < bc -> 0 <= mN * bc + i < 4294967295 /\ wrapU 32 (mN * bc + i) = mN * bc + i) /\
  (mM <= mN -> Gen_MemPoolUInt32.pvNewBuffer bc mB mN mem mH mM bs mA buffer = Exn).
Proof.
  intros H0 HM. unfold Gen_MemPoolUInt32.pvNewBuffer. cbv zeta. split.
  - intros Hlt. rewrite Z.geb_leb. destruct (Z.leb_spec mM mN); [lia|].
    assert (0 <= mN * bc /\ mN * bc + bc <= 4294967294) as (B1 & B2) by nia.
    unfold Gen_MemPoolUInt32.fuel_of_pvNewBuffer.
    destruct (loop_spec buffer mN H0 B2 (Z.to_nat (bc + 1)) 0 mem ltac:(lia) ltac:(lia)) as (mem' & E & Hin & Hout).
    rewrite E. split.
    + exists mem'. rewrite (wrapU_small 64 (mN * bc)) by (rewrite two64; lia). rewrite (wrapU_small 32) by (rewrite two32; lia).
      rewrite (wrapU_small 64 (mN + 1)) by (rewrite two64; nia). split; [reflexivity|]. split; assumption.
    + intros i Hi. split; [lia|]. apply wrapU_small. rewrite two32. lia.
  - intros Hge. rewrite Z.geb_leb. destruct (Z.leb_spec mM mN); [reflexivity|lia].
Qed.
End U32.
