(* C18 -- the statements about reachable states of DataColumnList, spelled out (corollaries of Inv.v). *)
From Coq Require Import ZArith Bool List Lia.
From MomoCommon Require Import GenPrelude.
From C18 Require Import Gen_Vertices Gen_Ceil Model Layout Fill Vertices Bits Inv.
From C18 Require Gen_List Gen_Bits Gen_Mut.
Import ListNotations.
Local Open Scope Z_scope.

Section WithL.
  Variable L : Z.
  Variable keep : bool.
  Hypothesis HL : 4 <= L <= 15.

  Notation reach ops := (run L keep ops).

  Lemma run_snoc ops cs : reach (ops ++ [cs]) = after (reach ops) (add L (reach ops) cs).
  Proof. unfold run. rewrite fold_left_app. reflexivity. Qed.

  (* layout of every reachable state *)
  Theorem reachable_layout ops : Forall group_ok ops ->
    let st := reach ops in
    (forall r, In r (columns st) ->
       rowNumberSize keep <= r_off r /\ r_off r + r_size r <= totalSize st /\ 0 < r_size r /\
       r_off r mod r_align r = 0 /\ (r_align r | alignment st) /\ totalSize st < 2 ^ 47) /\
    (forall i j ri rj, (i < j)%nat -> nth_error (columns st) i = Some ri -> nth_error (columns st) j = Some rj ->
       r_off ri + r_size ri <= r_off rj /\ r_code ri <> r_code rj).
  Proof.
    intros Hops st. pose proof (run_inv L keep HL ops Hops) as I. fold st in I. split.
    - intros r Hr.
      pose proof (inv_chain L keep _ I) as Hc. pose proof (inv_aldiv L keep _ I) as Hd.
      pose proof (inv_bound L keep _ I) as Hb. pose proof (inv_count L keep _ I) as Hn.
      destruct (chain_in _ _ _ _ Hc Hr) as (Q1 & Q2 & Q3 & Q4).
      rewrite Forall_forall in Hd. repeat split; auto.
      pose proof (maxColumnCount_le L HL). pose proof (slot_range keep).
      clear - Hb Hn H H0. unfold slot, maxItemSize in *. nia.
    - intros i j ri rj Hij Hi Hj. split.
      + eapply chain_disjoint; eauto. apply (inv_chain L keep _ I).
      + eapply inv_codes_distinct; eauto.
  Qed.

  (* looking a column up (GetOffset / pvGetOffset through mAddends and mCodeParam) yields its recorded offset,
     and never trips the MOMO_ASSERT(addend1 != 0 && addend2 != 0) *)
  Theorem reachable_lookup ops : Forall group_ok ops ->
    forall r, In r (columns (reach ops)) -> get_offset L (reach ops) (r_code r) = Some (r_off r).
  Proof. intros Hops. apply (inv_lookup L keep _ (run_inv L keep HL ops Hops)). Qed.

  (* one more Add (accepted or refused) keeps every existing record, and the existing columns are still
     found at the same offsets through the NEW addends table / code parameter *)
  Theorem offsets_stable_under_add ops cs : Forall group_ok ops -> group_ok cs ->
    exists rs, columns (reach (ops ++ [cs])) = columns (reach ops) ++ rs /\
      forall r, In r (columns (reach ops)) -> get_offset L (reach (ops ++ [cs])) (r_code r) = Some (r_off r).
  Proof.
    intros Hops Hcs. pose proof (run_inv L keep HL ops Hops) as I.
    destruct (after_prefix L keep HL _ cs I Hcs) as (rs & E).
    exists rs. rewrite run_snoc. split; [exact E|].
    intros r Hr. apply (inv_lookup L keep _ (after_inv L keep HL _ cs I Hcs)).
    rewrite E. apply in_or_app; auto.
  Qed.

  Theorem reachable_contains ops code off : Forall group_ok ops ->
    (contains L (reach ops) code = Some off <->
     exists r, In r (columns (reach ops)) /\ r_code r = code /\ r_off r = off).
  Proof. intros Hops. apply (contains_iff L keep). apply run_inv; auto. Qed.

  Theorem reachable_contains_none ops code : Forall group_ok ops ->
    (contains L (reach ops) code = None <-> ~ In code (map r_code (columns (reach ops)))).
  Proof. intros Hops. apply (contains_none_iff L keep). apply run_inv; auto. Qed.

  (* the columns of a reachable state are exactly the columns of the accepted Adds, in order *)
  Fixpoint accepted (st : state) (ops : list (list col)) : list col :=
    match ops with
    | [] => []
    | cs :: ops' => match add L st cs with
                    | Added st' => cs ++ accepted st' ops'
                    | _ => accepted st ops'
                    end
    end.

  Lemma accepted_columns : forall ops st, Inv L keep st -> Forall group_ok ops ->
    map r_code (columns (fold_left (fun st cs => after st (add L st cs)) ops st)) =
    map r_code (columns st) ++ map c_code (accepted st ops).
  Proof.
    induction ops as [|cs ops IH]; intros st I Hops; cbn [fold_left accepted].
    - simpl. rewrite app_nil_r. reflexivity.
    - inversion Hops as [|? ? Hcs Hrest]; subst.
      pose proof (add_spec L keep HL st cs I Hcs) as Hs.
      pose proof (after_inv L keep HL st cs I Hcs) as I'.
      destruct (add L st cs) as [st'| | |st'| |] eqn:Ea; cbn [after] in *; try (apply IH; auto); try contradiction.
      rewrite IH by auto. destruct Hs as (_ & (rs & E & Hm & _) & _).
      rewrite E, !map_app, Hm, app_assoc. reflexivity.
  Qed.

  Theorem contains_iff_added ops code : Forall group_ok ops ->
    ((exists off, contains L (reach ops) code = Some off) <-> In code (map c_code (accepted (init keep) ops))).
  Proof.
    intros Hops.
    pose proof (accepted_columns ops (init keep) (inv_init L keep HL) Hops) as E. simpl in E.
    fold (run L keep ops) in E. rewrite <- E. split.
    - intros (off & Ho). apply reachable_contains in Ho; auto. destruct Ho as (r & Hr & Ec & _).
      apply in_map_iff. eauto.
    - intros Hin. apply in_map_iff in Hin. destruct Hin as (r & Ec & Hr).
      exists (r_off r). apply reachable_contains; eauto.
  Qed.
  (* ---- histories in which allocations fail ---- *)
  Notation reach_f ops := (run_f L keep ops).

  Lemma run_f_snoc ops op : reach_f (ops ++ [op]) = after (reach_f ops) (add_f L (fst op) (reach_f ops) (snd op)).
  Proof. unfold run_f. rewrite fold_left_app. reflexivity. Qed.

  (* refused_add_unchanged, also for allocation failures: after ANY history (with failures anywhere), an Add that is
     not accepted -- Too many / Cannot add / bad_alloc in Reserve, SetCount or in the middle of Insert -- leaves
     codeParam, addends, total size, alignment, the records, the code set (as a set) and every IsMutable answer as
     they were; hence every lookup and every Contains answer too *)
  Theorem refused_or_failed_add_unchanged ops fs cs :
    Forall (fun op => group_ok (snd op)) ops -> group_ok cs ->
    (forall st', add_f L fs (reach_f ops) cs <> Added st') ->
    unchanged_obs (reach_f ops) (reach_f (ops ++ [(fs, cs)])) /\
    (forall code, get_offset L (reach_f (ops ++ [(fs, cs)])) code = get_offset L (reach_f ops) code) /\
    (forall code, contains L (reach_f (ops ++ [(fs, cs)])) code = contains L (reach_f ops) code).
  Proof.
    intros Hops Hcs Hna. rewrite run_f_snoc. cbn [fst snd].
    pose proof (run_f_inv L keep HL ops Hops) as I.
    pose proof (not_added_unchanged L keep HL fs _ cs I Hcs Hna) as U. split; [exact U|].
    destruct U as (E1 & E2 & E3 & E4 & E5 & E6 & E7).
    split; intros code.
    - unfold get_offset. rewrite E1, E2. reflexivity.
    - unfold contains. rewrite E1, E2.
      assert (Em : mem code (codeSet (after (reach_f ops) (add_f L fs (reach_f ops) cs))) = mem code (codeSet (reach_f ops))).
      { destruct (mem code (codeSet (reach_f ops))) eqn:E.
        - apply mem_in. apply E6. apply mem_in. exact E.
        - destruct (mem code (codeSet (after _ _))) eqn:E'; [|reflexivity].
          apply mem_in in E'. apply E6 in E'. apply mem_in in E'. congruence. }
      rewrite Em. reflexivity.
  Qed.

  Theorem reachable_f_invariant ops : Forall (fun op => group_ok (snd op)) ops -> Inv L keep (reach_f ops).
  Proof. apply run_f_inv; auto. Qed.

  (* IsMutable in any reachable state: true at the offset of a column iff it was added as mutable; nowhere else *)
  Theorem reachable_is_mutable ops : Forall (fun op => group_ok (snd op)) ops ->
    (forall r, In r (columns (reach_f ops)) -> is_mutable (reach_f ops) (r_off r) = r_mut r) /\
    (forall o, 0 <= o -> is_mutable (reach_f ops) o = true ->
       exists r, In r (columns (reach_f ops)) /\ r_off r = o /\ r_mut r = true).
  Proof.
    intros Hops. pose proof (run_f_inv L keep HL ops Hops) as I. split.
    - intros r Hr. apply (is_mutable_column L keep); auto.
    - intros o Ho H. apply (is_mutable_only_columns L keep); auto.
  Qed.
  (* ---- generated code: the cxx2coq translation of the real pvGetOffset, on the members of any reachable state ---- *)
  Theorem reachable_generated_pvGetOffset ops : Forall (fun op => group_ok (snd op)) ops ->
    forall r, In r (columns (reach_f ops)) ->
      Gen_List.pvGetOffset (GetVertices L) (codeParam (reach_f ops)) (addends (reach_f ops))
                           (totalSize (reach_f ops)) (alignment (reach_f ops)) (r_code r) = Ok (r_off r).
  Proof.
    intros Hops r Hr. pose proof (inv_lookup L keep _ (run_f_inv L keep HL ops Hops) r Hr) as H.
    unfold get_offset in H. rewrite <- (lookup_refines L) in H. unfold lookup_gen in H.
    change (Gen_List.pvGetOffset (GetVertices L) (codeParam (reach_f ops)) (addends (reach_f ops)) 0 0 (r_code r))
      with (Gen_List.pvGetOffset (GetVertices L) (codeParam (reach_f ops)) (addends (reach_f ops))
              (totalSize (reach_f ops)) (alignment (reach_f ops)) (r_code r)) in H.
    destruct (Gen_List.pvGetOffset _ _ _ _ _ _); try discriminate. injection H as ->. reflexivity.
  Qed.

  (* the GENERATED Contains on any reachable state: true exactly for the columns of the list, and through a non-null
     resOffset it writes the column's recorded offset *)
  Theorem reachable_generated_Contains ops code : Forall (fun op => group_ok (snd op)) ops ->
    let st := reach_f ops in
    (fst (contains_gen L st 1 code) = true <-> In code (map r_code (columns st))) /\
    (forall r, In r (columns st) -> contains_gen L st 1 (r_code r) = (true, r_off r)) /\
    fst (contains_gen L st 0 code) = fst (contains_gen L st 1 code) /\ snd (contains_gen L st 0 code) = 0.
  Proof.
    intros Hops st. pose proof (run_f_inv L keep HL ops Hops) as I. fold st in I.
    rewrite !(contains_refines L).
    split; [|split; [|split]].
    - destruct (contains L st code) as [o|] eqn:E; cbn [fst].
      + split; [intros _|reflexivity]. apply (contains_iff L keep) in E; auto. destruct E as (r & Hr & Ec & _).
        apply in_map_iff. eauto.
      + split; [discriminate|]. intros Hin. apply (contains_none_iff L keep st code I) in E. contradiction.
    - intros r Hr. assert (E : contains L st (r_code r) = Some (r_off r)) by (apply (contains_iff L keep); eauto).
      rewrite (contains_refines L), E. reflexivity.
    - destruct (contains L st code); reflexivity.
    - destruct (contains L st code); reflexivity.
  Qed.

  (* IsMutable through the GENERATED GetBit on the model's mMutableOffsets bytes: true at a column's offset iff the column was
     added as mutable, and at no other offset *)
  Theorem reachable_generated_GetBit ops : Forall (fun op => group_ok (snd op)) ops ->
    (forall r, In r (columns (reach_f ops)) -> Gen_Bits.GetBit (mutBytes (reach_f ops)) (r_off r) = r_mut r) /\
    (forall o, 0 <= o -> Gen_Bits.GetBit (mutBytes (reach_f ops)) o = true ->
       exists r, In r (columns (reach_f ops)) /\ r_off r = o /\ r_mut r = true).
  Proof.
    intros Hops. destruct (reachable_is_mutable ops Hops) as (H1 & H2). split.
    - intros r Hr. rewrite GetBit_refines; [apply (H1 r Hr)|].
      pose proof (run_f_inv L keep HL ops Hops) as I.
      destruct (chain_in _ _ _ _ (inv_chain L keep _ I) Hr) as (Q & _). pose proof (slot_range keep). unfold slot in *. lia.
    - intros o Ho H. rewrite GetBit_refines in H by auto. apply (H2 o Ho H).
  Qed.

  (* the GENERATED IsMutable member (assertion offset < mTotalSize, then the generated GetBit on mMutableOffsets.GetItems()) on
     every reachable state: for the offset of a column its assertion holds and the answer is "added as mutable"; for any
     offset inside the row the answer is true only at mutable columns *)
  Theorem reachable_generated_IsMutable ops : Forall (fun op => group_ok (snd op)) ops ->
    let st := reach_f ops in
    (forall r, In r (columns st) -> Gen_Mut.IsMutable Gen_Bits.GetBit (totalSize st) (mutBytes st) (r_off r) = Ok (r_mut r)) /\
    (forall o, 0 <= o < totalSize st -> exists b, Gen_Mut.IsMutable Gen_Bits.GetBit (totalSize st) (mutBytes st) o = Ok b /\
       (b = true -> exists r, In r (columns st) /\ r_off r = o /\ r_mut r = true)).
  Proof.
    intros Hops st. destruct (reachable_generated_GetBit ops Hops) as (H1 & H2). fold st in H1, H2.
    pose proof (run_f_inv L keep HL ops Hops) as I. fold st in I. split.
    - intros r Hr. unfold Gen_Mut.IsMutable.
      destruct (chain_in _ _ _ _ (inv_chain L keep _ I) Hr) as (_ & Q2 & _ & Q4).
      destruct (Z.ltb_spec (r_off r) (totalSize st)) as [_|Hge]; [|exfalso; clear - Q2 Q4 Hge; lia].
      rewrite (H1 r Hr). reflexivity.
    - intros o Ho. unfold Gen_Mut.IsMutable. destruct (Z.ltb_spec o (totalSize st)) as [_|Hge]; [|exfalso; clear - Ho Hge; lia].
      eexists. split; [reflexivity|]. intros Hb. apply H2; [lia|exact Hb].
  Qed.

  (* in every reachable state mCodeParam is at most the source's maxCodeParam, so every vertex index computed from it --
     for ANY column code, added or not -- is inside mAddends / mEdges *)
  Theorem reachable_indices_in_bounds ops code : Forall (fun op => group_ok (snd op)) ops ->
    let cp := codeParam (reach_f ops) in
    0 <= cp <= maxCodeParam /\
    0 <= fst (GetVertices L code cp) < vertexCount L /\ 0 <= snd (GetVertices L code cp) < vertexCount L.
  Proof.
    intros Hops cp. pose proof (inv_cp L keep _ (run_f_inv L keep HL ops Hops)) as Hcp. fold cp in Hcp.
    split; [exact Hcp|]. destruct (vertex_indices_in_bounds L HL code cp Hcp) as (H1 & H2 & _). auto.
  Qed.
End WithL.



(* ---------- non-vacuity: concrete histories evaluated by the kernel ---------- *)
Definition u32 (code : Z) : col := mkcol code 4 4 false.

(* logVertexCount 4 with row number: the third Add only succeeds with the second code parameter *)
Example retry_history :
  let st := run 4 true [[u32 160]; [u32 242]; [u32 10]] in
  (codeParam st, totalSize st, alignment st, map r_off (columns st)) = (1, 20, 4, [8; 12; 16]).
Proof. vm_compute. reflexivity. Qed.

(* a column that is already there is refused (all 256 code parameters fail), a 9th column is "Too many" *)
Example refused_history :
  match add 4 (run 4 true [[u32 160]; [u32 242]]) [u32 160] with Refused => True | _ => False end.
Proof. vm_compute. exact I. Qed.

Example too_many_history :
  match add 4 (run 4 false (map (fun k => [mkcol k 1 1 false]) [1; 2; 3; 4; 5; 6; 7; 8])) [mkcol 9 1 1 true] with
  | TooMany => True | _ => False end.
Proof. vm_compute. exact I. Qed.

Example group_ok_example : Forall group_ok [[u32 160]; [u32 242]; [u32 10]].
Proof.
  assert (H : forall c, 0 <= c < 2 ^ 64 -> group_ok [u32 c]).
  { intros c Hc. split; [|simpl; lia]. constructor; [|constructor].
    unfold col_ok, u32, maxItemSize, pow2_le16; simpl. repeat split; try lia. }
  constructor; [apply H; lia|]. constructor; [apply H; lia|]. constructor; [apply H; lia|]. constructor.
Qed.

(* OBSERVATION (not a C18 violation, see NOTES.md): on a freshly constructed list with keepRowNumber the generated IsMutable accepts
   offset 0 (its assertion is offset < mTotalSize = 8) although mMutableOffsets has no byte yet; the model's array is all zero there,
   the real one is empty (a null pointer read) *)
Example obs_ismutable_on_fresh_row_number_list :
  totalSize (init true) = 8 /\ mutCount (init true) = 0 /\
  Gen_Mut.IsMutable Gen_Bits.GetBit (totalSize (init true)) (mutBytes (init true)) 0 = Ok false.
Proof. vm_compute. repeat split. Qed.
