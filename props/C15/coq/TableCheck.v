(* C15 -- the tie between the model's classification of entry points and the source:
   Gen_VersionTable.v is regenerated on every run from the clang AST of /repo's headers (props/C15/vtable.py);
   here the model's classification (which public member functions are structural mutators, and which version
   cell each of them advances) is checked against it by computation.  A mutating path that loses its
   IncVersion / ++version, a query that starts bumping, or a new public non-const member function that the
   model does not classify makes `table_matches_model` fail to compile. *)
From Coq Require Import String List Bool Ascii.
From C15 Require Import Gen_VersionTable.
Import ListNotations.
(* robustness: a regenerated term that makes a tactic run away fails the proof (prove BROKEN) instead of hanging the build *)
Set Default Timeout 300.
Open Scope string_scope.

Fixpoint name_of (s : string) : string :=
  match s with
  | EmptyString => EmptyString
  | String c t => if Ascii.eqb c "("%char then EmptyString else String c (name_of t)
  end.
Fixpoint ends_const (s : string) : bool :=
  match s with
  | EmptyString => false
  | String c t => if String.eqb s " const" then true else ends_const t
  end.
Definition mem_s (x : string) (l : list string) : bool := existsb (String.eqb x) l.
Definition subset_s (a b : list string) : bool := forallb (fun x => mem_s x b) a.

(* entry points behind the model's structurally modifying operations
   (OInsert/OInsMany, OAddAt, ORemoveAt/ORemoveKey/ORemoveIf/ORemoveRange, OExtract, OClear, OReserve, OMergeTo) *)
Definition set_mutators : list string :=
  ["Insert"; "InsertVar"; "InsertCrt"; "Add"; "AddVar"; "AddCrt"; "Remove"; "Extract"; "Clear"; "Reserve"; "MergeTo"; "MergeFrom"].
(* entry points behind the model's non-modifying operations on a non-const container
   (OResetKey, OSwap, OFind/OBegin/OEnd/OLower/OUpper on a mutable container, ...) *)
Definition set_nonmutators : list string :=
  ["Swap"; "GetMemManager"; "ResetKey"; "GetBegin"; "GetEnd"; "Find"; "GetLowerBound"; "GetUpperBound";
   "operator[]"; "GetBucketBounds"; "MakeMutableIterator"].

(* HashMultiMap: two version cells (keys: the nested HashMap's set version; values: valueVersion) *)
Definition mm_value_mutators : list string := ["Add"; "AddVar"; "AddCrt"; "Remove"; "RemoveValues"; "RemoveKey"; "Clear"].
Definition mm_key_mutators : list string := ["InsertKey"; "AddKeyCrt"; "RemoveKey"; "Clear"].
Definition mm_nonmutators : list string :=
  ["Swap"; "GetMemManager"; "ResetKey"; "GetBegin"; "GetEnd"; "Find"; "GetKeyBounds"; "MakeIterator";
   "MakeMutableIterator"; "MakeMutableKeyIterator"].

(* DataTable: changeVersion (every change of the rows / indexed items) and removeVersion (removal or replacement of rows) *)
Definition dt_both : list string := ["Clear"; "Assign"; "Remove"; "Extract"].
Definition dt_change : list string :=
  ["Add"; "AddRow"; "TryAdd"; "TryAddRow"; "Insert"; "InsertRow"; "TryInsert"; "TryInsertRow"; "Update"; "TryUpdate"].
Definition dt_nonmutators : list string :=
  ["Swap"; "GetMemManager"; "Reserve"; "operator[]"; "NewRow"; "AddUniqueHashIndex"; "AddMultiHashIndex";
   "RemoveUniqueHashIndexes"; "RemoveMultiHashIndexes"; "Select"; "SelectEmpty"; "GetBegin"; "GetEnd";
   "FindByUniqueHash"; "FindByMultiHash"; "MakeMutableReference"].

Definition required (cls name : string) : option (list string) :=
  let own_tag :=
    if String.eqb cls "HashSet" || String.eqb cls "TreeSet" then Some "version"
    else if String.eqb cls "HashMap" then Some "HashSet.version"
    else if String.eqb cls "TreeMap" then Some "TreeSet.version" else None in
  match own_tag with
  | Some t => if mem_s name set_mutators then Some [t] else if mem_s name set_nonmutators then Some [] else None
  | None =>
    if String.eqb cls "HashMultiMap" then
      let v := if mem_s name mm_value_mutators then ["valueVersion"] else [] in
      let k := if mem_s name mm_key_mutators then ["HashMap.HashSet.version"] else [] in
      match (v ++ k)%list with
      | [] => if mem_s name mm_nonmutators then Some [] else None
      | l => Some l
      end
    else if String.eqb cls "DataTable" then
      if mem_s name dt_both then Some ["changeVersion"; "removeVersion"]
      else if mem_s name dt_change then Some ["changeVersion"]
      else if mem_s name dt_nonmutators then Some [] else None
    else None
  end.
(* replacing a whole row by number also advances removeVersion *)
Definition required_m (cls meth : string) : option (list string) :=
  if String.eqb cls "DataTable" && (String.eqb meth "Update(size_t, Row &&)" || String.eqb meth "TryUpdate(size_t, Row &&)")
  then Some ["changeVersion"; "removeVersion"] else required cls (name_of meth).

(* one row of the generated table agrees with the model:
   const member functions bump nothing; a classified mutator certainly reaches a bump of each required cell;
   a classified non-mutator reaches no bump in any instantiation; every non-const public member is classified *)
Definition row_ok4 (cls meth : string) (all any : list string) : bool :=
  if ends_const meth then match any with [] => true | _ => false end
  else match required_m cls meth with
       | None => false
       | Some [] => match any with [] => true | _ => false end
       | Some (r :: rs) => subset_s (r :: rs) all
       end.
Definition row_ok (row : string * string * list string * list string) : bool :=
  row_ok4 (fst (fst (fst row))) (snd (fst (fst row))) (snd (fst row)) (snd row).

Definition is_mutator (cls meth : string) : bool :=
  negb (ends_const meth) && match required_m cls meth with Some (_ :: _) => true | _ => false end.
Definition mutator_rows : list (string * string * list string * list string) :=
  filter (fun row => is_mutator (fst (fst (fst row))) (snd (fst (fst row)))) version_table.

Lemma table_matches_model_holds : forallb row_ok version_table = true.
Proof. vm_compute. reflexivity. Qed.

(* every public member function that the model classifies as structurally modifying certainly reaches a bump of
   each version cell the model says it advances *)
Definition mutator_bumps (row : string * string * list string * list string) : bool :=
  let cls := fst (fst (fst row)) in let meth := snd (fst (fst row)) in
  if is_mutator cls meth then
    match required_m cls meth with Some req => subset_s req (snd (fst row)) | None => false end
  else true.
Lemma all_mutators_bump_holds : forallb mutator_bumps version_table = true.
Proof. vm_compute. reflexivity. Qed.

(* non-vacuity: the table really contains the mutators of all classes *)
Lemma mutator_rows_nonempty : Nat.leb 40 (length mutator_rows) = true.
Proof. vm_compute. reflexivity. Qed.

(* path-sensitive pass (vtable.py PathPass): in HashSet, TreeSet, HashMap, TreeMap, HashMultiMap (key cell and valueVersion) and
   DataTable (changeVersion and removeVersion) no public member function can return normally after a structural write of a
   cell -- an assignment / ++ / -- to a structural field of *this, a mutating call on the nested container (through that
   container's own summaries), mRaws.Add*/Insert/Remove*/Clear or the destruction of a table raw -- without having bumped
   that cell on the path to that return (catches an early return before the bump, or a bump only reachable on another path) *)
Lemma no_structural_write_without_bump_holds : version_leaks = [].
Proof. reflexivity. Qed.

(* ---------- generated per-path facts (vtable.py PathPass -> path_facts): for every public member function (each instantiation) the abstract
   states (cells structurally written, cells bumped) in which a NORMAL return can be reached ---------- *)
(* (1) on every path to a normal return, every cell that was structurally written was bumped: an early return before IncVersion, a bump
       that only another path reaches, or a forgotten bump of one of two cells puts a state (written, not bumped) into the facts *)
Definition state_ok (st : list string * list string) : bool := subset_s (fst st) (snd st).
Definition path_row_ok (row : string * string * list (list string * list string)) : bool := forallb state_ok (snd row).
Lemma all_return_paths_bump_holds : forallb path_row_ok path_facts = true.
Proof. vm_compute. reflexivity. Qed.
(* (2) every member the model classifies as a structural mutator HAS a normal return on which all the cells the model says it advances
       were bumped (stronger than "a bump is reachable": the bump must be followed by a normal return).  Members that hand *this / the
       nested container to ANOTHER object (MergeFrom; MergeTo of the maps) are exempt: their effect is the other object's summary. *)
Definition delegating (cls name : string) : bool :=
  String.eqb name "MergeFrom" || (String.eqb name "MergeTo" && (String.eqb cls "HashMap" || String.eqb cls "TreeMap")).
Definition path_row_mutates (row : string * string * list (list string * list string)) : bool :=
  let cls := fst (fst row) in let meth := snd (fst row) in
  if ends_const meth || delegating cls (name_of meth) then true
  else match required cls (name_of meth) with
       | Some (r :: rs) => existsb (fun st => subset_s (r :: rs) (snd st)) (snd row)
       | _ => true
       end.
Lemma every_mutator_has_a_bumping_return_holds : forallb path_row_mutates path_facts = true.
Proof. vm_compute. reflexivity. Qed.
(* (3) const members and the members the model treats as non-modifying neither write a structural field nor bump on ANY path *)
Definition path_row_pure (row : string * string * list (list string * list string)) : bool :=
  let cls := fst (fst row) in let meth := snd (fst row) in
  let pure := forallb (fun st => match fst st, snd st with [], [] => true | _, _ => false end) (snd row) in
  if ends_const meth then pure
  else match required cls (name_of meth) with Some [] => pure | Some _ => true | None => false end.
Lemma nonmutators_never_write_or_bump_holds : forallb path_row_pure path_facts = true.
Proof. vm_compute. reflexivity. Qed.
Lemma path_facts_nonempty : Nat.leb 300 (length path_facts) = true.
Proof. vm_compute. reflexivity. Qed.

(* ---------- noexcept boundaries on checked paths (fix f1f44c5) and version checks of the range / raw-reading entry points (fix f5d4e4e) ---------- *)
(* from no client-visible operator (++, --, ->, *, +=) of HashSet / TreeSet / HashMultiMap iterators, DataRawIterator, DataRowIterator is a
   noexcept member function reachable that calls a checked, may-throw handle operation or throws: in exception mode the report
   (std::invalid_argument) can always propagate to the client instead of ending in std::terminate *)
Lemma no_noexcept_on_checked_paths_holds : noexcept_checked_paths = [] /\ Nat.leb 10 client_operators_scanned = true.
Proof. split; reflexivity. Qed.
(* DataTable::pvAssign / pvRemove(begin,end), DataSelection::Add(begin,end) check every row reference (`rowRef.GetRaw()`), and
   DataSelection::pvSort / pvGroup / pvBinarySearch(columns) check the selection's keeper before touching the raws *)
Lemma stale_check_sites_hold : forallb (fun r => snd r) stale_check_sites = true /\ Nat.leb 9 (length stale_check_sites) = true.
Proof. split; vm_compute; reflexivity. Qed.

(* ---------- the hand-set cuts of the guard prefixes (review round) ----------
   Every guard translated as a PREFIX ("until_stmt" in gen_*.json): the statements before the cut contain no assignment, compound
   assignment, ++ or -- at all, and call nothing but the size / position queries below, the VersionKeeper checks (Check, CheckKeyIterator), the key iterator's
   operator-> and the assertion handler.  (Exception constructors are not calls in this listing.)  So a guard's `Exn` really is raised
   before the function wrote anything; what is NOT proved here is that the listed queries are pure (they are const members). *)
Definition prefix_queries : list string := ["GetCount"; "Check"; "CheckKeyIterator"; "pvGetIndex"; "pvGetRaws"; "operator->"; "operator HashDerivedIterator" (* KeyIterator -> ConstKeyIterator conversion, a copy *); "__assert_fail"].
Definition prefix_row_ok (r : string * string * nat * nat * nat * list string) : bool :=
  match r with (_, _, cut, total, writes, calls) =>
    Nat.eqb writes 0 && Nat.leb cut total && forallb (fun c => existsb (String.eqb c) prefix_queries) calls end.
Lemma guard_prefixes_write_free : forallb prefix_row_ok guard_prefix_facts = true /\ Nat.leb 19 (length guard_prefix_facts) = true.
Proof. split; vm_compute; reflexivity. Qed.

