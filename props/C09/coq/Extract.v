(* Extraction for C09: generated arithmetic + hand models.  ExtrOcamlBasic only. *)
From Coq Require Import ZArith List Extraction ExtrOcamlBasic.
From MomoCommon Require Import GenPrelude.
From C09 Require Gen_UIntMath Gen_MemPoolConst Gen_MemPool PoolU32Prims Gen_MemPoolUInt32 Gen_MemPoolData PoolBlkPrims Gen_MemPoolBlk Gen_MemPoolMerge Gen_MemPoolDel Gen_MemPoolNewBuf PoolLayout PoolLinks PoolConc.
Separate Extraction
  Gen_UIntMath.Ceil Gen_MemPoolConst.GetBlockAlignment Gen_MemPoolConst.CorrectBlockSize Gen_MemPoolConst.CheckBlockCount Gen_MemPoolConst.CheckBlockAlignment
  Gen_MemPool.pvUseCache Gen_MemPool.pvGetAlignmentAddend Gen_MemPool.pvGetBufferSize0 Gen_MemPool.pvGetBufferSize1
  Gen_MemPool.pvIsBufferBytesNear Gen_MemPool.pvGetBufferSize Gen_MemPool.pvGetBlock Gen_MemPool.pvGetBlockIndex
  Gen_MemPool.pvGetBlocksEndPosition Gen_MemPool.pvGetBufferBytesPosition Gen_MemPool.pvGetPrevBufferPosition
  Gen_MemPool.pvGetNextBufferPosition Gen_MemPool.pvGetBeginOffsetPosition Gen_MemPool.pvNewBlock1 Gen_MemPool.pvDeleteBlock1
  Gen_MemPool.pvNewBuffer PoolLayout.new_buffer_layout PoolLayout.block_of PoolLayout.meta_ranges PoolLayout.new_block1_layout
  PoolLayout.check_params PoolLayout.max_overhead PoolLayout.alloc1 PoolLayout.dealloc1
  PoolLinks.merge_from PoolLinks.merge_from_prefix PoolLinks.move_to_head PoolLinks.delete_buffer PoolLinks.append_new_buffer
  PoolLinks.heap_of_lists PoolLinks.list_of
  PoolConc.empty_world PoolConc.Allocate PoolConc.Deallocate PoolConc.DeallocateAll PoolConc.DeallocateIf PoolConc.MergeFrom
  PoolConc.chain_of PoolConc.getp PoolConc.Swap PoolConc.MoveAssign
  Gen_MemPoolUInt32.GetRealPointer Gen_MemPoolUInt32.pvGetBufferSize Gen_MemPoolUInt32.pvNewBuffer
  Gen_MemPoolUInt32.Allocate Gen_MemPoolUInt32.Deallocate Gen_MemPoolUInt32.DeallocateAll Gen_MemPoolUInt32.nullPtr
  PoolU32Prims.store32 PoolU32Prims.load32 Gen_MemPoolData.Swap Gen_MemPool.pvCheckParams Gen_MemPoolBlk.pvNewBlock Gen_MemPoolMerge.MergeFrom
  PoolConc.pvNewBlock PoolConc.new_buffer PoolConc.hd0 PoolConc.pvDeleteBlock
  Gen_MemPoolDel.pvMoveBufferToHead Gen_MemPoolDel.pvDeleteBuffer Gen_MemPoolDel.pvDeleteBlock3 Gen_MemPoolNewBuf.pvNewBuffer.
