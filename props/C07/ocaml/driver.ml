(* C07 model driver: runs the extracted Coq models on the same case lines as the C++ harnesses and prints
   the same output lines.  All table/index computation is the extracted code; OCaml only parses, formats
   and folds results into the printed digests.
     T | op | op ...     L0 TableSpec history (see harness.cpp for the op syntax)
     X ...               L1 IndexModel / MultiHash scripts (see harness_idx.cpp) *)
open Zutil
open Datatypes
open TableSpec

let modp = 1000003
let fold_digest d x = (d * 131 + x) mod modp
let zi = int_of_z
let row_hash r = match Stdlib.List.map zi r with
  | [i; a; b; c] -> ((((i * 7 + a) * 11 + b) * 13 + c + 1) mod modp)
  | _ -> 0
let key_hash k = Stdlib.List.fold_left (fun h x -> (h * 17 + zi x + 1) mod modp) 0 k
let nat = nat_of_int
let ofnat = int_of_nat

let split_on c s = Stdlib.String.split_on_char c s

let rec parse_pred ws = match ws with
  | "T" :: r -> (PTrue, r)
  | "E" :: c :: v :: r -> (PEq (nat (int_of_string c), z_of_string v), r)
  | "L" :: c :: v :: r -> (PLt (nat (int_of_string c), z_of_string v), r)
  | "N" :: r -> let (p, r') = parse_pred r in (PNot p, r')
  | "&" :: r -> let (p, r1) = parse_pred r in let (q, r2) = parse_pred r1 in (PAnd (p, q), r2)
  | [] -> (PTrue, [])
  | _ :: r -> (PTrue, r)

let row_of ws = Stdlib.List.map z_of_string ws
let cols_of_mask m = Stdlib.List.filter_map (fun i -> if (m lsr i) land 1 = 1 then Some (nat i) else None) [0; 1; 2; 3]
(* "c1 c2 : rest" -> sorted column list, rest *)
let rec cols_until_colon ws acc = match ws with
  | ":" :: r -> (Stdlib.List.sort compare acc, r)
  | c :: r -> cols_until_colon r (int_of_string c :: acc)
  | [] -> (Stdlib.List.sort compare acc, [])
let mask_of_cols cs = Stdlib.List.fold_left (fun m c -> m lor (1 lsl c)) 0 cs

let table_digest t = Stdlib.List.fold_left (fun d r -> fold_digest d (row_hash r)) 0 t.rows
let pos_digest ps = Stdlib.List.fold_left (fun d p -> fold_digest d (ofnat p + 1)) 0 ps
let keys_digest ks = Stdlib.List.fold_left (fun d k -> fold_digest d (key_hash k)) 0 ks

let show_result = function
  | ROk -> "ok"
  | RConflict (n, j) -> Printf.sprintf "conflict %d %d" (ofnat n) (ofnat j)
  | RDup n -> Printf.sprintf "dup %d" (ofnat n)
  | RRow r -> "row " ^ Stdlib.String.concat " " (Stdlib.List.map string_of_z r)
  | RCount n -> Printf.sprintf "count %d" (ofnat n)
  | RInvalid -> "invalid"

let eqs_of mask vals = Stdlib.List.filter_map (fun i -> if (mask lsr i) land 1 = 1 then Some (nat i, Stdlib.List.nth vals i) else None) [0; 1; 2; 3]


(* ------------------------------------------------------------------ the table-level L1 model (TableOps.v) run in parallel:
   addresses are fresh numbers, contents live in a Hashtbl; every failure schedule (Reserve throws; the s-th index step
   throws) is applied first for fault-injected ops, then the failure-free schedule.  Its refusal verdict and rows are
   cross-checked with TableSpec, and the content of every index is folded into the printed digest. *)
module TO = TableOps
module IM = IndexModel
type tops = { mutable st : TO.tstate; content : (int, BinNums.coq_Z list) Hashtbl.t; mutable next : int; mutable broken : string }
let to_ord (t : nat) : nat = nat ((ofnat t) * 5 + 1)
let to_reach _ _ = true
let tops_ct (tp : tops) : BinNums.coq_Z -> BinNums.coq_Z list = fun z -> try Hashtbl.find tp.content (zi z) with Not_found -> []
let tops_new () =
  let tp = { st = { TO.trows = []; TO.tidx = IM.empty_istate; TO.tct = (fun _ -> []) }; content = Hashtbl.create 64; next = 0; broken = "" } in
  tp.st <- { tp.st with TO.tct = tops_ct tp }; tp
let tops_set tp rows idx = tp.st <- { TO.trows = rows; TO.tidx = idx; TO.tct = tops_ct tp }
let tops_fresh tp (r : BinNums.coq_Z list) = let a = tp.next in tp.next <- a + 1; Hashtbl.replace tp.content a r; z_of_int a
let nofail = { TO.f_reserve = false; TO.f_step = None }
(* run op under every failure schedule in turn, then without failure *)
let tops_faulty tp inject (run : TO.tfail -> TO.tstate -> TO.tstate * TO.tresult) : TO.tresult =
  if inject then begin
    let before = Stdlib.List.map zi tp.st.TO.trows in
    let check (st', r) = (match r with TO.TOk -> tp.broken <- "a failing schedule was accepted" | _ -> ());
      if Stdlib.List.map zi st'.TO.trows <> before then tp.broken <- "rows changed by a failed schedule";
      tops_set tp st'.TO.trows st'.TO.tidx in
    (match run { TO.f_reserve = true; TO.f_step = None } tp.st with (st', TO.TThrown) -> check (st', TO.TThrown) | _ -> ());
    let nsteps = Stdlib.List.length tp.st.TO.tidx.IM.uhs + Stdlib.List.length tp.st.TO.tidx.IM.mhs + 1 in
    for s = 0 to nsteps do
      match run { TO.f_reserve = false; TO.f_step = Some (nat s) } tp.st with
      | (st', TO.TThrown) -> check (st', TO.TThrown)
      | _ -> ()
    done
  end;
  let (st', r) = run nofail tp.st in
  tops_set tp st'.TO.trows st'.TO.tidx; r
let tops_index_digest tp : int =
  let pos = Hashtbl.create 64 in
  Stdlib.List.iteri (fun i a -> Hashtbl.replace pos (zi a) i) tp.st.TO.trows;
  let p a = try Hashtbl.find pos (zi a) with Not_found -> -1 in
  let d = ref 0 in
  Stdlib.List.iteri (fun j u ->
    let ps = Stdlib.List.sort compare (Stdlib.List.map (fun e -> p e.IM.eraw) u.IM.uents) in
    d := fold_digest !d (7000 + j); Stdlib.List.iter (fun q -> d := fold_digest !d (q + 1)) ps) tp.st.TO.tidx.IM.uhs;
  Stdlib.List.iteri (fun j m ->
    let groups = Stdlib.List.map (fun g -> Stdlib.List.sort compare (Stdlib.List.map p (g.IM.gkey :: g.IM.gvals))) m.IM.mgroups in
    let groups = Stdlib.List.sort compare groups in
    d := fold_digest !d (9000 + j);
    Stdlib.List.iter (fun g -> d := fold_digest !d (5000 + Stdlib.List.length g); Stdlib.List.iter (fun q -> d := fold_digest !d (q + 1)) g) groups) tp.st.TO.tidx.IM.mhs;
  !d
(* apply the operation `ws` (already known to be well-formed for the L0 model) ; returns a short verdict string *)
let tops_apply tp (ws : string list) : string =
  let rows = tp.st.TO.trows in
  let len = Stdlib.List.length rows in
  let ct = tops_ct tp in
  let res_str = function TO.TOk -> "ok" | TO.TRefused (r, j) ->
      let rec find i = function [] -> -1 | x :: l -> if zi x = zi r then i else find (i + 1) l in
      Printf.sprintf "conflict %d %d" (find 0 rows) (ofnat j)
    | TO.TThrown -> "thrown" in
  let filter_by keepf = tp.st <- TO.t_filter tp.st keepf; tops_set tp tp.st.TO.trows tp.st.TO.tidx in
  match ws with
  | "A" :: f :: r -> let raw = tops_fresh tp (row_of r) in
    res_str (tops_faulty tp (f <> "0") (fun fl st -> TO.t_insert to_ord to_reach fl st (nat len) raw))
  | "I" :: f :: n :: r -> let n = int_of_string n in if n > len then "invalid" else
    let raw = tops_fresh tp (row_of r) in
    res_str (tops_faulty tp (f <> "0") (fun fl st -> TO.t_insert to_ord to_reach fl st (nat n) raw))
  | "U" :: f :: n :: r -> let n = int_of_string n in if n >= len then "invalid" else
    let raw = tops_fresh tp (row_of r) in
    res_str (tops_faulty tp (f <> "0") (fun fl st -> TO.t_update_row to_ord to_reach fl st (nat n) raw))
  | ["C"; f; n; c; v] -> let n = int_of_string n and c = int_of_string c in if n >= len then "invalid" else begin
      let raw = Stdlib.List.nth rows n in
      let r = tops_faulty tp (f <> "0") (fun fl st -> TO.t_update_col to_ord to_reach fl st (nat n) (nat c) (z_of_string v)) in
      (match r with TO.TOk ->
         let old = ct raw in
         Hashtbl.replace tp.content (zi raw) (Stdlib.List.mapi (fun i x -> if i = c then z_of_string v else x) old)
       | _ -> ());
      res_str r end
  | [("R" | "X"); f; n; keep] -> let n = int_of_string n in if n >= len then "invalid" else
    (match tops_faulty tp (f <> "0") (fun fl st -> TO.t_remove to_reach fl st (nat n) (keep <> "0")) with TO.TOk -> "ok" | r -> res_str r)
  | ["RR"; _; n; k] -> let n = int_of_string n and k = int_of_string k in if n + k > len then "invalid" else begin
      let gone = Stdlib.List.filteri (fun i _ -> i >= n && i < n + k) rows |> Stdlib.List.map zi in
      filter_by (fun a -> not (Stdlib.List.mem (zi a) gone)); "ok" end
  | "RP" :: _ :: p -> let pr = fst (parse_pred p) in filter_by (fun a -> not (evalp pr (ct a))); "ok"
  | "CF" :: _ :: p -> let pr = fst (parse_pred p) in filter_by (fun a -> evalp pr (ct a)); "ok"
  | "AS" :: _ :: ns -> let ns = Stdlib.List.map int_of_string ns in
    if Stdlib.List.exists (fun n -> n >= len) ns then "invalid" else begin
      let seen = ref [] in
      Stdlib.List.iter (fun n -> if not (Stdlib.List.mem n !seen) then seen := !seen @ [n]) ns;
      let addrs = Stdlib.List.map (fun n -> Stdlib.List.nth rows n) !seen in
      let keepset = Stdlib.List.map zi addrs in
      filter_by (fun a -> Stdlib.List.mem (zi a) keepset);
      tops_set tp addrs tp.st.TO.tidx; "ok" end
  | ["CL"] -> tp.st <- TO.t_clear tp.st; tops_set tp tp.st.TO.trows tp.st.TO.tidx; "ok"
  | ["CP"; _] -> "ok"
  | ["RS"; _; _] -> "ok"
  | "IU" :: cs -> let cols = Stdlib.List.map nat (fst (cols_until_colon cs [])) in
    let (s', r) = IM.add_unique_index to_ord to_reach ct tp.st.TO.tidx cols rows in
    tops_set tp rows s';
    (match r with None -> "ok" | Some _ -> "dup")
  | "IM" :: cs -> let cols = Stdlib.List.map nat (fst (cols_until_colon cs [])) in
    tops_set tp rows (IM.add_multi_index to_ord to_reach ct tp.st.TO.tidx cols rows); "ok"
  | ["DU"] -> let s = tp.st.TO.tidx in tops_set tp rows { s with IM.uhs = [] }; "ok"
  | ["DM"] -> let s = tp.st.TO.tidx in tops_set tp rows { s with IM.mhs = [] }; "ok"
  | _ -> "?"

let run_table_op (t : table ref) (tp : tops) (text : string) : string =
  let ws = words text in
  let mut o =
    let (t', res) = step !t o in
    t := t';
    (* the table-level L1 model must agree with the L0 specification on the verdict and on the rows *)
    let v = tops_apply tp ws in
    let expect = (match res with ROk | RRow _ | RCount _ -> "ok" | RConflict (n, j) -> Printf.sprintf "conflict %d %d" (ofnat n) (ofnat j)
                  | RDup _ -> "dup" | RInvalid -> "invalid") in
    let rows_l1 = Stdlib.List.map (fun a -> tops_ct tp a) tp.st.TO.trows in
    let same_rows = (Stdlib.List.map (Stdlib.List.map zi) rows_l1 = Stdlib.List.map (Stdlib.List.map zi) t'.rows) in
    let diverge = if v <> expect then Printf.sprintf " !MODEL-TABLEOPS verdict %s vs %s" v expect
                  else if not same_rows then " !MODEL-TABLEOPS rows differ" else if tp.broken <> "" then " !MODEL-TABLEOPS " ^ tp.broken else "" in
    Printf.sprintf "%s #%d:%d:%d%s" (show_result res) (Stdlib.List.length t'.rows) (table_digest t') (tops_index_digest tp) diverge in
  match ws with
  | "A" :: _ :: r -> mut (OAdd (row_of r))
  | "I" :: _ :: n :: r -> mut (OInsert (nat (int_of_string n), row_of r))
  | "U" :: _ :: n :: r -> mut (OUpdate (nat (int_of_string n), row_of r))
  | ["C"; _; n; c; v] -> mut (OUpdateCol (nat (int_of_string n), nat (int_of_string c), z_of_string v))
  | ["R"; _; n; keep] -> mut (ORemove (nat (int_of_string n), keep <> "0"))
  | ["X"; _; n; keep] -> mut (OExtract (nat (int_of_string n), keep <> "0"))
  | ["RR"; _; n; k] -> mut (ORemoveRange (nat (int_of_string n), nat (int_of_string k)))
  | "RP" :: _ :: p -> mut (ORemovePred (fst (parse_pred p)))
  | "AS" :: _ :: ns -> mut (OAssign (Stdlib.List.map (fun n -> nat (int_of_string n)) ns))
  | ["CL"] -> mut OClear
  | ["CP"; _] -> mut OCopy
  | ["RS"; _; _] -> mut OCopy                                   (* Reserve: no observable change *)
  | "CS" :: _ :: p ->                                           (* DataTable(selection): filtered rows, no indexes *)
    let (t1, _) = step !t (OCopyFilter (fst (parse_pred p))) in
    let (t2, _) = step t1 ODropUnique in
    let (t3, _) = step t2 ODropMulti in
    t := t3;
    ignore (tops_apply tp ("CF" :: "0" :: p)); ignore (tops_apply tp ["DU"]); ignore (tops_apply tp ["DM"]);
    let rows_l1 = Stdlib.List.map (fun a -> Stdlib.List.map zi (tops_ct tp a)) tp.st.TO.trows in
    let diverge = if rows_l1 <> Stdlib.List.map (Stdlib.List.map zi) t3.rows then " !MODEL-TABLEOPS rows differ" else "" in
    Printf.sprintf "ok #%d:%d:%d%s" (Stdlib.List.length t3.rows) (table_digest t3) (tops_index_digest tp) diverge
  | "CF" :: _ :: p -> mut (OCopyFilter (fst (parse_pred p)))
  | "IU" :: cs -> mut (OAddUnique (Stdlib.List.map nat (fst (cols_until_colon cs []))))
  | "IM" :: cs -> mut (OAddMulti (Stdlib.List.map nat (fst (cols_until_colon cs []))))
  | ["DU"] -> mut ODropUnique
  | ["DM"] -> mut ODropMulti
  | "Q" :: mask :: _ :: i :: a :: b :: c :: p ->
    let vals = row_of [i; a; b; c] in
    let ps = select !t (eqs_of (int_of_string mask) vals) (fst (parse_pred p)) in
    (* index selection: the GENERATED GetFitUniqueHashIndex / GetFitMultiHashIndex (Gen_Protocol trees run by FitSem) on the
       table model's indexes (creation order; key count of a multi hash = number of its groups) *)
    let m = int_of_string mask in
    let fit =
      if m = 0 then " f -1 -1" else begin
        let q = cols_of_mask m in
        let srt l = Stdlib.List.sort compare (Stdlib.List.map ofnat l) |> Stdlib.List.map nat in
        let us = Stdlib.List.map (fun u -> (srt u.IM.ucols, nat 0)) tp.st.TO.tidx.IM.uhs in
        let ms = Stdlib.List.map (fun mh -> (srt mh.IM.mcols, nat (Stdlib.List.length mh.IM.mgroups))) tp.st.TO.tidx.IM.mhs in
        let sh = function Some (Some j) -> string_of_int (ofnat j) | Some None -> "-1" | None -> "UNINTERPRETED" in
        (* round 9: the model of pvSelect / pvSelectRec run on the table model's index state must return as many rows as TableSpec *)
        let pred = fst (parse_pred p) in
        let ctm = tops_ct tp in
        let n2 = Stdlib.List.length (SelectModel.pv_select to_reach ctm tp.st.TO.tidx tp.st.TO.trows (srt q) (eqs_of m vals)
                                       (fun r -> evalp pred (ctm r))) in
        (if n2 <> Stdlib.List.length ps then " !MODEL-PVSELECT " ^ string_of_int n2 else "") ^
        " f " ^ sh (ProtoRun.gen_fit_unique us ms (srt q)) ^ " " ^ sh (ProtoRun.gen_fit_multi us ms (srt q))
      end in
    Printf.sprintf "q %d %d%s" (Stdlib.List.length ps) (pos_digest ps) fit
  | ["QA"] ->
    let d = ref 0 in
    for va = -1 to 4 do for vb = -1 to 6 do for vc = -1 to 8 do
      let eqs = (if va >= 0 then [(nat 1, z_of_int va)] else []) @ (if vb >= 0 then [(nat 2, z_of_int vb)] else [])
                @ (if vc >= 0 then [(nat 3, z_of_int vc)] else []) in
      d := fold_digest !d (Stdlib.List.length (select !t eqs PTrue))
    done done done;
    Printf.sprintf "qa %d" !d
  | ("FU" | "FUR") :: rest ->
    let (cs, vals) = cols_until_colon rest [] in
    let cols = Stdlib.List.map nat cs in
    if not (Stdlib.List.exists (fun u -> natlist_eqb cols u) !t.uniq) then "noindex"
    else begin
      let k = Stdlib.List.map (fun c -> Stdlib.List.nth (row_of vals) c) cs in
      match find_by_key !t cols k with
      | [] -> "fu none"
      | p :: _ -> Printf.sprintf "fu %d" (ofnat p)
    end
  | "FM" :: rest ->
    let (cs, vals) = cols_until_colon rest [] in
    let cols = Stdlib.List.map nat cs in
    if not (Stdlib.List.exists (fun u -> natlist_eqb cols u) !t.multi) then "noindex"
    else begin
      let k = Stdlib.List.map (fun c -> Stdlib.List.nth (row_of vals) c) cs in
      let ps = find_by_key !t cols k in
      Printf.sprintf "fm %d %d" (Stdlib.List.length ps) (pos_digest ps)
    end
  | "P" :: distinct :: mask :: p ->
    (* the model of pvProject's loop (ProjectModel.project_loop), proved equal to TableSpec.project *)
    let ks = ProjectModel.project_loop (distinct <> "0") (cols_of_mask (int_of_string mask)) (fst (parse_pred p)) !t.rows [] in
    Printf.sprintf "p %d %d" (Stdlib.List.length ks) (keys_digest ks)
  | "S" :: mask :: rest ->
    let (p, rest') = parse_pred rest in
    let vals = (match rest' with ":" :: v -> row_of v | v -> row_of v) in
    let cols = cols_of_mask (int_of_string mask) in
    let ks = sorted_projection !t p cols in
    let k = Stdlib.List.map (fun c -> Stdlib.List.nth vals (ofnat c)) cols in
    (* bounds by the model of std::upper_bound's halving loop with pvBinarySearch's two predicates *)
    let n = Stdlib.List.length ks in
    let lb = SelectionModel.ub_bisect (nat (n + 1)) (SelectionModel.lower_pred k) [] ks (nat 0) (nat n) in
    let ub = SelectionModel.ub_bisect (nat (n + 1)) (SelectionModel.upper_pred k) [] ks (nat 0) (nat n) in
    if ofnat lb <> ofnat (lower_bound_count ks k) || ofnat ub <> ofnat (upper_bound_count ks k) then "s MODEL-BOUNDS-DIFFER" else
    (* Selection::Group: the counts RadixSorter passes to groupFunc (GroupModel.group_runs: runs of equal additive hash code of
       the hash-sorted selection) - int columns only, the hash of a string is not modelled *)
    let m = int_of_string mask in
    let g =
      if m land 8 <> 0 then -1 else begin
        let sel = project !t false p cols in
        let out = GroupModel.group_model sel in
        let rec contiguous seen prev = function
          | [] -> true
          | x :: tl -> if prev = Some x then contiguous seen prev tl
                       else if Stdlib.List.mem x seen then false else contiguous (x :: seen) (Some x) tl in
        if Stdlib.List.length out <> Stdlib.List.length sel || not (contiguous [] None out) then -2
        else Stdlib.List.fold_left (fun d c -> fold_digest d (ofnat c)) 0 (GroupModel.group_runs sel)
      end in
    (* DataSelection editing: the same script as the harness, on the positions of the selected rows, by SelEditModel *)
    let module E = SelEditModel in
    let pos = select !t [] p in                      (* table order *)
    let ids = Stdlib.List.map (fun q -> Stdlib.List.nth (Stdlib.List.nth !t.rows (ofnat q)) 0) pos in
    let id_of q = (try Stdlib.List.assoc (ofnat q) (Stdlib.List.combine (Stdlib.List.map ofnat pos) ids) with Not_found -> z_of_int 0) in
    let odd q = (zi (id_of q)) land 1 <> 0 in
    let lbi = ofnat lb and ubi = ofnat ub in
    let n0 = Stdlib.List.length pos in
    let ed = E.sel_reverse pos in
    let ed = if n0 = 0 then ed else begin
      let nth l i = Stdlib.List.nth l i in
      let len l = Stdlib.List.length l in
      let ed = E.sel_add (nth pos 0) ed in
      let ed = E.sel_insert (nat 1) (nth pos (n0 - 1)) ed in
      let at = lbi mod (len ed + 1) in
      let ed = E.sel_insert_range (nat at) pos ed in
      let ri = ubi mod (len ed) in let rc = min 2 (len ed - ri) in
      let ed = E.sel_remove (nat ri) (nat rc) ed in
      let ed = E.sel_remove_pred odd ed in
      let ed = if len ed > 0 then E.sel_set (nat 0) (nth pos (n0 / 2)) ed else ed in
      let ed = E.sel_add_range pos ed in
      if lbi land 1 = 1 then E.sel_assign pos ed else ed end in
    Printf.sprintf "s %d %d %d %d g %d e %d %d" n (keys_digest ks) (ofnat lb) (ofnat ub) g (Stdlib.List.length ed) (pos_digest ed)
  | ["D"] -> Stdlib.String.concat " " ("d" :: Stdlib.List.map (fun r -> Stdlib.String.concat "." (Stdlib.List.map string_of_z r)) !t.rows)
  | _ -> "?"

let run_table_case (line : string) : string =
  match split_on '|' line with
  | _ :: ops ->
    let t = ref empty_table in
    let tp = tops_new () in
    Stdlib.String.concat "|" (Stdlib.List.map (fun o -> run_table_op t tp o) ops)
  | [] -> ""

let () = iter_lines (fun line ->
  let l = Stdlib.String.trim line in
  if Stdlib.String.length l > 0 && l.[0] = 'T' then print_endline (run_table_case l)
  else print_endline (Idx_driver.run_case l))
