(* C17: the GENERATED HashSorter::pvIsGrouped / pvIsSorted (Gen_IsSorted.v, regenerated from HashSorter.h on every run) return
   what the hand model returns whenever the hand model returns Ok (i.e. read only inside the array).  With IsSorted_Proofs:
   the generated pvIsSorted returns true exactly on arrays whose hashes are non-decreasing and whose equal items are contiguous
   inside every hash run. *)
From Coq Require Import ZArith Bool List Lia.
From MomoCommon Require Import GenPrelude.
From C17 Require Import SorterSearch Search_Proofs IsSorted_Proofs Gen_IsSorted.
Local Open Scope Z_scope.

Section IsSortedRefine.
  Variable count : Z.
  Variable hash item : Z -> Z.
  Variable eqf : Z -> Z -> bool.
  Hypothesis Hcount : 0 <= count < 2 ^ 62.
  Variable loop_fuel : nat.
  Hypothesis Hfuel : (Z.to_nat count + 2 <= loop_fuel)%nat.

  Local Notation eq_ii := (SorterSearch.eq_ii count item eqf).
  Local Notation ig_inner := (SorterSearch.ig_inner count item eqf).
  Local Notation ig_outer := (SorterSearch.ig_outer count item eqf).
  Local Notation is_loop := (SorterSearch.is_loop count hash item eqf).

  Lemma rdi_inv i v : SorterSearch.rdi count item i = Ok v -> 0 <= i < count /\ v = item i.
  Proof.
    unfold SorterSearch.rdi, inb. destruct (Z.leb_spec 0 i); destruct (Z.ltb_spec i count); simpl; intros HH; try discriminate.
    inversion HH. split; [lia|reflexivity].
  Qed.
  Lemma rdh_inv' i v : SorterSearch.rdh count hash i = Ok v -> 0 <= i < count /\ v = hash i.
  Proof.
    unfold SorterSearch.rdh, inb. destruct (Z.leb_spec 0 i); destruct (Z.ltb_spec i count); simpl; intros HH; try discriminate.
    inversion HH. split; [lia|reflexivity].
  Qed.
  Lemma eq_ii_inv i j e : eq_ii i j = Ok e -> 0 <= i < count /\ 0 <= j < count /\ e = eqf (item i) (item j).
  Proof.
    unfold SorterSearch.eq_ii. destruct (SorterSearch.rdi count item i) as [a| | |] eqn:Ea; try discriminate. cbn [bind].
    destruct (SorterSearch.rdi count item j) as [b| | |] eqn:Eb; try discriminate. cbn [bind]. intros HH. inversion HH.
    destruct (rdi_inv _ _ Ea) as [A ->]. destruct (rdi_inv _ _ Eb) as [B ->]. auto.
  Qed.

  Lemma inner_sim p cnt i : 1 <= i < 2 ^ 62 -> cnt < 2 ^ 62 -> forall f j b, 0 <= j -> ig_inner f p cnt i j = Ok b ->
    exists r j', pvIsGrouped_loop1 eqf f p cnt i item j = Ok (r, j') /\ b = match r with Some x => x | None => true end.
  Proof.
    intros Hi Hc. induction f as [|f IH]; intros j b Hj Hh; [simpl in Hh; discriminate|].
    cbn [SorterSearch.ig_inner] in Hh. rewrite pvIsGrouped_loop1_eq. destruct (Z.ltb_spec j cnt).
    2:{ inversion Hh. do 2 eexists. split; reflexivity. }
    destruct (eq_ii (p + (i - 1)) (p + j)) as [e| | |] eqn:Ee; try discriminate. cbn [bind] in Hh.
    destruct (eq_ii_inv _ _ _ Ee) as (_ & _ & ->). rewrite (wrapU_small 64 (i - 1)) by lia.
    destruct (eqf (item (p + (i - 1))) (item (p + j))).
    - inversion Hh. do 2 eexists. split; reflexivity.
    - rewrite (wrapU_small 64 (j + 1)) by lia. apply IH; [lia|exact Hh].
  Qed.

  Lemma outer_sim p cnt : 0 <= cnt <= count -> forall f i b, 1 <= i -> i <= cnt + 1 -> ig_outer f p cnt i = Ok b ->
    exists r i', pvIsGrouped_loop0 eqf loop_fuel f p cnt item i = Ok (r, i') /\ b = match r with Some x => x | None => true end.
  Proof.
    intros Hc. induction f as [|f IH]; intros i b Hi Hic Hh; [simpl in Hh; discriminate|].
    cbn [SorterSearch.ig_outer] in Hh. rewrite pvIsGrouped_loop0_eq. destruct (Z.ltb_spec i cnt).
    2:{ inversion Hh. do 2 eexists. split; reflexivity. }
    destruct (eq_ii (p + (i - 1)) (p + i)) as [e| | |] eqn:Ee; try discriminate. cbn [bind] in Hh.
    destruct (eq_ii_inv _ _ _ Ee) as (_ & _ & ->). rewrite (wrapU_small 64 (i - 1)), (wrapU_small 64 (i + 1)) by lia.
    destruct (eqf (item (p + (i - 1))) (item (p + i))).
    - apply IH; try lia. exact Hh.
    - cbv zeta. unfold fuel_of_pvIsGrouped.
      destruct (ig_inner (S (Z.to_nat cnt)) p cnt i (i + 1)) as [ok| | |] eqn:Ei; try discriminate. cbn [bind] in Hh.
      assert (Hmono : forall f1 f2 j b0, (f1 <= f2)%nat -> ig_inner f1 p cnt i j = Ok b0 -> ig_inner f2 p cnt i j = Ok b0).
      { induction f1 as [|f1 IH1]; intros f2 j b0 Hle H0; [simpl in H0; discriminate|]. destruct f2 as [|f2]; [lia|].
        cbn [SorterSearch.ig_inner] in H0 |- *. destruct (j <? cnt); [|exact H0].
        destruct (eq_ii (p + (i - 1)) (p + j)) as [e0| | |]; try discriminate. cbn [bind] in H0 |- *.
        destruct e0; [exact H0|]. apply IH1; [lia|exact H0]. }
      destruct (inner_sim p cnt i ltac:(lia) ltac:(lia) loop_fuel (i + 1) ok ltac:(lia) (Hmono (S (Z.to_nat cnt)) loop_fuel _ _ ltac:(lia) Ei)) as (r & j' & G1 & G2).
      rewrite G1. destruct r as [x|].
      + subst ok. destruct x; [|inversion Hh; do 2 eexists; split; reflexivity].
        (* the inner loop can only return Some false *) exfalso.
        clear - G1. revert G1. generalize (i + 1) as j. generalize loop_fuel as ff. induction ff as [|ff IHf]; intros j G; [simpl in G; discriminate|].
        rewrite pvIsGrouped_loop1_eq in G. destruct (j <? cnt); [|discriminate].
        destruct (eqf _ _); [discriminate|]. apply IHf in G. exact G.
      + subst ok. apply IH; try lia. exact Hh.
  Qed.

  Lemma grouped_sim p cnt b : 0 <= cnt <= count -> SorterSearch.pvIsGrouped count item eqf p cnt = Ok b ->
    Gen_IsSorted.pvIsGrouped eqf loop_fuel item hash p cnt = Ok b.
  Proof.
    intros Hc Hh. unfold SorterSearch.pvIsGrouped in Hh.
    assert (Hmono : forall f1 f2 i b0, (f1 <= f2)%nat -> ig_outer f1 p cnt i = Ok b0 -> ig_outer f2 p cnt i = Ok b0).
    { induction f1 as [|f1 IH1]; intros f2 i b0 Hle H0; [simpl in H0; discriminate|]. destruct f2 as [|f2]; [lia|].
      cbn [SorterSearch.ig_outer] in H0 |- *. destruct (i <? cnt); [|exact H0].
      destruct (eq_ii (p + (i - 1)) (p + i)) as [e0| | |]; try discriminate. cbn [bind] in H0 |- *.
      destruct e0; [apply IH1; [lia|exact H0]|].
      destruct (ig_inner (S (Z.to_nat cnt)) p cnt i (i + 1)) as [ok| | |]; try discriminate. cbn [bind] in H0 |- *.
      destruct ok; [apply IH1; [lia|exact H0]|exact H0]. }
    destruct (outer_sim p cnt Hc loop_fuel 1 b ltac:(lia) ltac:(lia) (Hmono (S (Z.to_nat cnt)) loop_fuel _ _ ltac:(lia) Hh)) as (r & i' & G1 & G2).
    unfold Gen_IsSorted.pvIsGrouped. cbv zeta. unfold fuel_of_pvIsGrouped. rewrite G1. destruct r; subst b; reflexivity.
  Qed.

  Lemma is_loop_sim : forall f i pi ph b, 1 <= i -> 0 <= pi -> pi < i -> i <= count -> is_loop f i pi ph = Ok b ->
    exists r st, pvIsSorted_loop0 eqf loop_fuel f 0 count hash item i ph pi = Ok (r, st) /\
      match r with
      | Some x => b = x
      | None => let '(_, _, pi') := st in 0 <= pi' <= count /\ SorterSearch.pvIsGrouped count item eqf pi' (count - pi') = Ok b
      end.
  Proof.
    induction f as [|f IH]; intros i pi ph b Hi Hpi Hpii Hic Hh; [simpl in Hh; discriminate|].
    cbn [SorterSearch.is_loop] in Hh. rewrite pvIsSorted_loop0_eq. destruct (Z.ltb_spec i count).
    2:{ do 2 eexists. split; [reflexivity|]. cbv beta iota. split; [lia|]. replace count with count by lia. exact Hh. }
    destruct (SorterSearch.rdh count hash i) as [h| | |] eqn:Er; try discriminate. cbn [bind] in Hh.
    destruct (rdh_inv' _ _ Er) as [_ ->]. cbv zeta. rewrite Z.add_0_l.
    destruct (Z.ltb_spec (hash i) ph).
    - inversion Hh. do 2 eexists. split; [reflexivity|reflexivity].
    - destruct (Z.eqb_spec (hash i) ph); cbn [negb] in Hh |- *.
      + rewrite (wrapU_small 64 (i + 1)) by lia. apply IH; try lia. exact Hh.
      + destruct (SorterSearch.pvIsGrouped count item eqf pi (i - pi)) as [g| | |] eqn:Eg; try discriminate. cbn [bind] in Hh.
        rewrite Z.add_0_l. rewrite (wrapU_small 64 (i - pi)) by lia.
        rewrite (grouped_sim pi (i - pi) g ltac:(lia) Eg).
        destruct g; cbn [negb] in Hh |- *.
        * rewrite (wrapU_small 64 (i + 1)) by lia. apply IH; try lia. exact Hh.
        * inversion Hh. do 2 eexists. split; [reflexivity|reflexivity].
  Qed.

  (* the generated pvIsSorted returns what the hand model returns *)
  Theorem gen_pvIsSorted_refines b : SorterSearch.pvIsSorted count hash item eqf = Ok b ->
    Gen_IsSorted.pvIsSorted eqf loop_fuel item hash 0 count = Ok b.
  Proof.
    unfold SorterSearch.pvIsSorted, Gen_IsSorted.pvIsSorted. destruct (Z.eqb_spec count 0); [auto|].
    destruct (SorterSearch.rdh count hash 0) as [h0| | |] eqn:Er; try discriminate. cbn [bind].
    destruct (rdh_inv' _ _ Er) as [_ ->]. intros Hh. cbv zeta. unfold fuel_of_pvIsSorted.
    assert (Hmono : forall f1 f2 i pi ph b0, (f1 <= f2)%nat -> is_loop f1 i pi ph = Ok b0 -> is_loop f2 i pi ph = Ok b0).
    { induction f1 as [|f1 IH1]; intros f2 i pi ph b0 Hle H0; [simpl in H0; discriminate|]. destruct f2 as [|f2]; [lia|].
      cbn [SorterSearch.is_loop] in H0 |- *. destruct (i <? count); [|exact H0].
      destruct (SorterSearch.rdh count hash i) as [h| | |]; try discriminate. cbn [bind] in H0 |- *.
      destruct (h <? ph); [exact H0|]. destruct (negb (h =? ph)); [|apply IH1; [lia|exact H0]].
      destruct (SorterSearch.pvIsGrouped count item eqf pi (i - pi)) as [g| | |]; try discriminate. cbn [bind] in H0 |- *.
      destruct (negb g); [exact H0|apply IH1; [lia|exact H0]]. }
    destruct (is_loop_sim loop_fuel 1 0 (hash 0) b ltac:(lia) ltac:(lia) ltac:(lia) ltac:(lia) (Hmono (S (Z.to_nat count)) loop_fuel _ _ _ _ ltac:(lia) Hh)) as (r & st & G1 & G2).
    rewrite G1. destruct r as [x|]; [subst b; reflexivity|]. destruct st as [[i' ph'] pi']. destruct G2 as [Hp G2].
    rewrite Z.add_0_l. rewrite (wrapU_small 64 (count - pi')) by lia.
    rewrite (grouped_sim pi' (count - pi') b ltac:(lia) G2). reflexivity.
  Qed.
End IsSortedRefine.

(* hence: for every array and every equivalence equalFunc the GENERATED pvIsSorted terminates and returns true exactly when the
   hashes are non-decreasing and equal items are contiguous inside every hash run *)
Theorem gen_is_sorted_iff count hash item eqf loop_fuel : 0 <= count < 2 ^ 62 -> (Z.to_nat count + 2 <= loop_fuel)%nat ->
  (forall a, eqf a a = true) -> (forall a b, eqf a b = true -> eqf b a = true) ->
  (forall a b c, eqf a b = true -> eqf b c = true -> eqf a c = true) ->
  exists b, Gen_IsSorted.pvIsSorted eqf loop_fuel item hash 0 count = Ok b /\ (b = true <-> sorted_spec count hash item eqf).
Proof.
  intros Hc Hf R S T. destruct (pvIsSorted_spec count hash item eqf) as (b & E & Hb); try assumption; try lia.
  exists b. split; [apply gen_pvIsSorted_refines; assumption|exact Hb].
Qed.
