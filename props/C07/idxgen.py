"""generator + two-sided run for the L1 index scripts of C07 (harness_idx.cpp <-> ocaml/idx_driver.ml)"""
import os, re

U_MENU = [[0], [0, 1]]
M_MENU = [[1], [2], [1, 2]]


def gen_case(r, kind):
    traits = r.choice([0, 0, 1, 2, 3])
    ops = []
    live = []; dead = list(range(0, 1000)); content = {}
    uniq = [u for u in U_MENU if r.chance(1, 2)]; multi = [m for m in M_MENU if r.chance(3, 4)] or [[1]]
    nk1 = r.choice([1, 2, 4, 12]); nk2 = r.choice([1, 3, 5])
    huge = (kind == 'huge')
    if huge: kind = 'big'; nk1 = 1; nk2 = 1; multi = [[1]] + [m for m in multi if m != [1]]
    target = {'small': r.range(3, 14), 'mid': r.range(60, 150), 'big': r.choice([66, 130, 194, 200, 322, 330, 450])}[kind]
    if huge: target = 455
    nops = {'small': r.range(20, 60), 'mid': target + r.range(60, 160), 'big': target + r.range(80, 200)}[kind]
    fault = {'small': 30, 'mid': 10, 'big': 3}[kind]
    pend = [('NU', u) for u in uniq] + [('NM', m) for m in multi]
    when = {id(p): (0 if r.chance(2, 3) else r.range(0, nops - 1)) for p in pend}
    fresh = [0]

    def f(): return 1 if r.below(100) < fault else 0

    def take():
        # addresses are not allocated in order: MultiHash sorts by address
        i = dead.pop(r.below(min(len(dead), 40)) if r.chance(1, 2) else r.below(len(dead)))
        return i

    def newcontent():
        if uniq and r.chance(1, 8) and live:
            k0 = content[r.choice(live)][0]
        else:
            k0 = fresh[0]; fresh[0] += 1
        return [k0, r.below(nk1), r.below(nk2)]

    for step in range(nops):
        for p in pend:
            if when[id(p)] == step: ops.append('%s %s' % (p[0], ' '.join(map(str, p[1]))))
        n = len(live); t = r.below(100)
        growing = n < target and step < target + 30
        if n == 0 or t < (80 if growing and kind != 'small' else 35):
            i = take(); c = newcontent(); content[i] = c
            ops.append('W %d %d %d %d' % (i, *c)); ops.append('ADD %d %d' % (f(), i)); live.append(i)   # (a refused add leaves i dead in both runs)
        elif t < 50:
            i = r.choice(live); live.remove(i); ops.append('REM %d %d' % (f(), i))
        elif t < 60:
            i = r.choice(live); j = take(); c = newcontent()
            if r.chance(1, 3): c = list(content[i]); c[r.range(1, 2)] = r.below(3)
            content[j] = c; ops.append('W %d %d %d %d' % (j, *c)); ops.append('UPD %d %d %d' % (f(), i, j))
            live.remove(i); live.append(j)
        elif t < 85:
            i = r.choice(live); col = r.choice([0, 1, 1, 2, 2])
            v = (fresh[0] if r.chance(2, 3) else content[r.choice(live)][0]) if col == 0 else r.below([0, nk1 + 2, nk2 + 2][col])
            if col == 0 and v == fresh[0]: fresh[0] += 1
            ops.append('UPC %d %d %d %d %d' % (f(), i, col, v, 1 if r.chance(1, 12) else 0))
        elif t < 88 and kind != 'small':
            m = r.choice([2, 3, 5, 7]); ops.append('FLT %d %d' % (m, r.below(m)))
            live = [x for x in live if x % m != ops[-1].split()[2] and x % m != int(ops[-1].split()[2])]
        elif t < 94:
            j = r.below(3); ops.append('FM %d %s' % (j, ' '.join(str(r.below(5)) for _ in range(r.range(1, 2)))))
        else:
            j = r.below(2); ops.append('FU %d %s' % (j, ' '.join(str(r.below(max(1, fresh[0]))) for _ in range(r.range(1, 2)))))
        # the generator's view of `live` may drift after refused ops; both sides answer "invalid" consistently
    return 'X %d | ' % traits + ' | '.join(ops)


def gen_cases(r, scale):
    cases = []
    # translator validation of the generated segment arithmetic on a boundary grid
    grid = sorted(set([0, 1, 2, 63, 64, 65, 127, 128, 191, 192, 193, 319, 320, 321, 447, 448, 449, 703, 704, 705, 1000, 4095, 4096, 65535, 65536]
                      + [2 ** k + d for k in range(6, 50) for d in (-1, 0, 1)] + [64 * m for m in range(1, 200)]))
    for i in range(0, len(grid), 40):
        cases.append('X 0 | ' + ' | '.join('SEG %d' % n for n in grid[i:i + 40]))
    for _ in range(200 * scale): cases.append(gen_case(r, 'small'))
    for _ in range(50 * scale): cases.append(gen_case(r, 'mid'))
    for _ in range(24 * scale - 1): cases.append(gen_case(r, 'big'))
    cases.append(gen_case(r, 'huge'))
    return cases


def correspond(ctx, exe, model_exe, cases, run_resilient):
    """returns (oracle failures [(case, out, why)], mismatches [(case, impl, model)])"""
    lines, err = run_resilient(ctx, exe, cases, 'index-impl')
    path = os.path.join(ctx.build, 'index.cases'); open(path, 'w').write('\n'.join(cases) + '\n')
    ctx.evaluations += len(cases)
    ctx.coverage['harness_idx_stats'] = err.strip().splitlines()[-1][-1500:] if err.strip() else ''
    bad = []
    for c, out in zip(cases, lines):
        m = re.search(r'!ORACLE-FAIL:(.*)', out)
        if m: bad.append((c, out[-300:], m.group(1)[:300]))
        if ('conflict' in out) or ('exn' in out) or re.search(r':(\d+ ){64}', out): ctx.nontrivial.add(c)
    mism = []
    if model_exe:
        rc2, mlines, err2 = ctx.run_lines([model_exe], path)
        if rc2 != 0: ctx.stage('model-run-idx', False, err2[-500:])
        for i, c in enumerate(cases):
            a = lines[i] if i < len(lines) else '<missing>'; b = mlines[i] if i < len(mlines) else '<missing>'
            if a != b: mism.append((c, a, b))
        ctx.traces_validated += len(cases) - len(mism)
    return bad, mism
