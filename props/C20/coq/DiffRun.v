(* C20 -- direct differential run of the GENERATED functions (hand-written glue, extracted).
   For an allocate / deallocate event the cxx2coq-generated Gen_PoolAllocator.allocate / deallocate (decision) and
   Gen_MemPoolOps.Allocate / Deallocate (allocCount, mCachedCount) are EXECUTED on the pool's pre-state and their verdict is
   printed next to the hand model's; the harness prints the same token from what the real allocator did, so the generated code
   itself - not only the hand model it is proved equal to - is compared with the real code on every event.
   Instantiation of the generated section variables: the two MemPoolParams objects are the handles 1 (own) and 2 (pool's);
   pool_alloc returns the marker -1, raw_alloc returns its size argument, ev_recreate sets the route flag to 1. *)
From Coq Require Import ZArith List Bool.
From MomoCommon Require Import GenPrelude.
From C20 Require Import PoolAlloc.
From C20 Require Gen_PoolAllocator Gen_MemPoolOps Gen_MemPoolNewBlock.
Local Open Scope Z_scope.

Section DiffRun.
Variable cfg : pcfg.

(* (destination: -1 pool | raw size, pool re-created, allocCount after, mCachedCount after) *)
Definition gen_alloc (st : state) (h : nat) (n : Z) : Z * bool * Z * Z :=
  let H := handles st h in
  let p := hpool H in
  let P := pools st p in
  let mp := get_params cfg (hvt H) in
  let dec := fun e : Z => if e =? 1 then mp else pparams P in
  let '(ptr, route) :=
    Gen_PoolAllocator.allocate (fun e => fst (dec e)) (fun e => snd (dec e)) 2 (Z.of_nat (pcount P)) 1 0 (-1)
      (fun _ sz => sz) (fun _ _ => 1) (vsize (hvt H)) 0 n in
  if ptr =? -1 then
    let recreated := route =? 1 in
    let bs := if recreated then fst mp else fst (pparams P) in
    let al := if recreated then snd mp else snd (pparams P) in
    let cnt0 := if recreated then 0 else Z.of_nat (pcount P) in
    let cch0 := if recreated then 0 else Z.of_nat (cached st p) in
    match Gen_MemPoolOps.Allocate (cached_free_block_count cfg) (block_count cfg) (fun _ => 0) 7 7 (fun _ _ => 7) 0 0 0
            bs al cnt0 cch0 0 with
    | (_, cnt, cch, _) => (-1, recreated, cnt, cch)
    end
  else (ptr, false, Z.of_nat (pcount P), Z.of_nat (cached st p)).

(* (destination: -1 pool | -2 assertion | raw size, allocCount after, mCachedCount after) *)
Definition gen_dealloc (st : state) (h : nat) (n : Z) : Z * Z * Z :=
  let H := handles st h in
  let p := hpool H in
  let P := pools st p in
  let mp := get_params cfg (hvt H) in
  let dec := fun e : Z => if e =? 1 then mp else pparams P in
  let r := Gen_PoolAllocator.deallocate (fun e => fst (dec e)) (fun e => snd (dec e)) 2 1 0
             (fun _ _ => -1) (fun _ _ _ sz => sz) (vsize (hvt H)) 0 5 n in
  if r =? -1 then
    match Gen_MemPoolOps.Deallocate (cached_free_block_count cfg) (fun _ => 0) (fst (pparams P)) (snd (pparams P))
            (Z.of_nat (pcount P)) (Z.of_nat (cached st p)) 0 5 with
    | Ok (_, cnt, cch, _) => (-1, cnt, cch)
    | _ => (-2, Z.of_nat (pcount P), Z.of_nat (cached st p))
    end
  else (r, Z.of_nat (pcount P), Z.of_nat (cached st p)).

End DiffRun.

(* The GENERATED pvNewBlock executed on the observed pre-state of the head buffer (first free index, free count, whether a next
   buffer exists, the next-free link stored in the block that will be handed out).  Instantiation: head buffer = 100, its next
   buffer = 200 (or null), a newly allocated buffer = 300; BufferBytes (f, c) is packed as (f + 200) * 1000 + c; stores of the
   list links are ignored, the store of the head's BufferBytes is the resulting [mem].
   Result: (new head: 0 = same buffer | 1 = the old next buffer | 2 = a new buffer, first free index after, free count after). *)
Definition pack_bytes (f c : Z) : Z := (f + 200) * 1000 + c.
Definition gen_newblock (first count : Z) (nextnull : bool) (nf : Z) : Z * Z * Z :=
  match Gen_MemPoolNewBlock.pvNewBlock
          (fun _ => pack_bytes first count)                 (* load_bytes *)
          (fun _ => if nextnull then 0 else 200)            (* load_next *)
          (fun _ idx => idx + 10000)                        (* block_at *)
          (fun _ => nf)                                     (* load_next_free *)
          300                                               (* new_buffer *)
          (fun _ _ v => v)                                  (* st_bytes *)
          (fun m _ _ => m) (fun m _ _ => m)                 (* st_next, st_prev *)
          (fun v => v / 1000 - 200) (fun v => v mod 1000)   (* bytes_first, bytes_count *)
          pack_bytes
          100 0 false with
  | Ok (_, head', mem') => ((if head' =? 100 then 0 else if head' =? 200 then 1 else 2), mem' / 1000 - 200, mem' mod 1000)
  | _ => (-1, 0, 0)
  end.
