// instantiation TU for cxx2coq (C20): the decision logic of allocate / deallocate / pvIsEqual, the constructors and the rebinding conversion.
// The value type is an opaque struct so that sizeof(value_type) stays symbolic (section variable vsize).
#include "momo/stdish/pool_allocator.h"
struct VerifValue { char data[24]; };
struct VerifOther { char data[40]; };
namespace momo { namespace stdish {
template class unsynchronized_pool_allocator<VerifValue>;
template unsynchronized_pool_allocator<VerifValue>::operator unsynchronized_pool_allocator<VerifOther>() const noexcept;
}}
