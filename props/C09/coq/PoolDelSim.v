(* C09: the simulation relation PoolBlkSim.Sim extended to Deallocate through the GENERATED pvDeleteBlock3 - PARTIAL: the case in which
   pvDeleteBlock does no list surgery (the buffer's free count after the push is neither 1 nor blockCount, i.e. the buffer was not
   full and does not become completely free).  In that case one generated step = one PoolConc.pvDeleteBlock step and Sim holds again.
   The two remaining cases (count becomes 1: pvMoveBufferToHead; count becomes blockCount: pvDeleteBuffer / head moves on) need a
   relation that also carries the prev pointers and the full part of the list (Sim only follows next pointers along the free part) and
   facts of the whole-history invariant (full buffers are in lfull, a pool that owns buffers has a head); NOT done, see NOTES.md. *)
From Coq Require Import ZArith List Bool Lia.
From MomoCommon Require Import GenPrelude.
From C09 Require PoolBlkPrims Gen_MemPool Gen_MemPoolBlk Gen_MemPoolDel PoolLinks PoolConc PoolBlk PoolBlkSim PoolDelGen.
Import ListNotations.
Local Open Scope Z_scope.

Section DelSim.
Variables C B A : Z.
Variable adr : Z -> Z.
Hypothesis adr_inj : forall a b, adr a = adr b -> a = b.
(* different (buffer, index) pairs with VALID indexes 0 <= j < blockCount are different block addresses (buffers' block ranges are disjoint) *)
Hypothesis blk_inj : forall b j b' j', 0 <= j < C -> 0 <= j' < C ->
  Gen_MemPool.pvGetBlock B A (adr b) j = Gen_MemPool.pvGetBlock B A (adr b') j' -> b = b' /\ j = j'.

Lemma adr_eqb a b : (adr a =? adr b) = (a =? b).
Proof. destruct (Z.eqb_spec a b) as [->|N]; [apply Z.eqb_refl|]. destruct (Z.eqb_spec (adr a) (adr b)) as [E|_]; [apply adr_inj in E; contradiction|reflexivity]. Qed.
Lemma blk_eqb b j b' j' : 0 <= j < C -> 0 <= j' < C ->
  (Gen_MemPool.pvGetBlock B A (adr b') j' =? Gen_MemPool.pvGetBlock B A (adr b) j) = ((b' =? b) && (j' =? j)).
Proof.
  intros Hj Hj'. destruct (Z.eqb_spec (Gen_MemPool.pvGetBlock B A (adr b') j') (Gen_MemPool.pvGetBlock B A (adr b) j)) as [E|N].
  - apply blk_inj in E; [|assumption|assumption]. destruct E as (-> & ->). rewrite !Z.eqb_refl. reflexivity.
  - destruct (Z.eqb_spec b' b) as [->|]; [|reflexivity]. destruct (Z.eqb_spec j' j) as [->|]; [contradiction|reflexivity].
Qed.

Theorem sim_del_push_only_partial w p hd bf bcnt nx pv nfi b j :
  PoolBlkSim.Sim C B A adr w p hd bf bcnt nx nfi ->
  0 < b < PoolConc.fresh w -> 0 <= j < C ->
  let c1 := PoolConc.fc w b + 1 in
  0 <= c1 < 2 ^ 63 -> c1 <> 1 -> c1 <> C ->
  exists bf' bcnt' nfi',
    Gen_MemPoolDel.pvDeleteBlock3 C B A hd 0 bf bcnt nx pv nfi (Gen_MemPool.pvGetBlock B A (adr b) j) (adr b) j =
      Ok (tt, hd, 0, bf', bcnt', nx, pv, nfi') /\
    PoolBlkSim.Sim C B A adr (PoolConc.pvDeleteBlock C w p (b, j)) p hd bf' bcnt' nx nfi'.
Proof.
  intros (Ehd & Lk & Ids & F0 & Maps & Nfi & Pre) Hb Hj c1 Hc N1 NC. destruct (Maps b Hb) as (Mb & Mc).
  rewrite PoolDelGen.generated_deleteblock_is_model. unfold PoolDelGen.delblock_model. cbv zeta. rewrite Mc. fold c1.
  rewrite (wrapU_small 64 c1) by (change (2 ^ 64) with 18446744073709551616; change (2 ^ 63) with 9223372036854775808 in Hc; lia).
  destruct (Z.eqb_spec c1 1) as [|_]; [contradiction|]. destruct (Z.eqb_spec c1 C) as [|_]; [contradiction|].
  cbn [PoolLinks.hnext PoolLinks.hprev].
  do 3 eexists. split; [reflexivity|].
  (* the model step is the push alone *)
  unfold PoolConc.pvDeleteBlock. cbn [fst snd]. unfold PoolConc.push. cbn [fst snd].
  set (w1 := PoolConc.set_bytes _ _ _ _).
  assert (PoolConc.fc w1 b = c1) as Efc by (unfold w1, PoolConc.set_bytes, PoolConc.set_nx; cbn [PoolConc.fc]; unfold upd; rewrite Z.eqb_refl; reflexivity).
  rewrite Efc. destruct (Z.eqb_spec c1 1) as [|_]; [contradiction|]. rewrite Efc. destruct (Z.eqb_spec c1 C) as [|_]; [contradiction|].
  assert (PoolConc.getp w1 p = PoolConc.getp w p) as Eg by (destruct p; reflexivity).
  unfold PoolBlkSim.Sim. rewrite Eg. change (PoolConc.fresh w1) with (PoolConc.fresh w).
  split; [exact Ehd|]. split; [exact Lk|]. split; [exact Ids|]. split; [exact F0|]. split; [|split].
  - intros b' Hb'. unfold w1, PoolConc.set_bytes, PoolConc.set_nx; cbn [PoolConc.fb PoolConc.fc]. unfold upd. rewrite !adr_eqb.
    destruct (Z.eqb_spec b' b) as [->|Nb]; [split; reflexivity|]. apply Maps; exact Hb'.
  - intros b' j' Hb' Hj'. unfold w1, PoolConc.set_bytes, PoolConc.set_nx; cbn [PoolConc.nx]. unfold upd. rewrite blk_eqb by assumption.
    destruct ((b' =? b) && (j' =? j)); [exact Mb|apply Nfi; assumption].
  - intros k Hk. destruct (Pre k Hk) as (Q1 & Q2 & Q3 & Q4). unfold upd. rewrite !adr_eqb. destruct (Z.eqb_spec k b) as [->|_]; [lia|].
    split; [exact Q1|]. split; [exact Q2|]. split; [exact Q3|]. intros j' Hj'. rewrite blk_eqb by assumption.
    destruct (Z.eqb_spec k b); [lia|]. cbn [andb]. apply Q4; exact Hj'.
Qed.

(* ---------- Allocate / Deallocate histories on one pool without the cache path (Allocate = pvNewBlock, Deallocate = pvDeleteBlock),
   all deallocations of the kind covered above (side condition `okd` evaluated on the MODEL run) ---------- *)
Hypothesis HC : 2 <= C.
Hypothesis adr0 : adr 0 = 0.

Inductive op := OA | OD (b j : Z).

Definition okd (w : PoolConc.cworld) (b j : Z) : Prop :=
  0 < b < PoolConc.fresh w /\ 0 <= j < C /\ 0 <= PoolConc.fc w b + 1 < 2 ^ 63 /\ PoolConc.fc w b + 1 <> 1 /\ PoolConc.fc w b + 1 <> C.

Fixpoint mrun2 (ops : list op) (w : PoolConc.cworld) (p : bool) : list PoolConc.blk * PoolConc.cworld :=
  match ops with
  | [] => ([], w)
  | OA :: t => let '(w', bk) := PoolConc.pvNewBlock C w p in let '(l, wf) := mrun2 t w' p in (bk :: l, wf)
  | OD b j :: t => mrun2 t (PoolConc.pvDeleteBlock C w p (b, j)) p
  end.
Fixpoint okrun (ops : list op) (w : PoolConc.cworld) (p : bool) : Prop :=
  match ops with
  | [] => True
  | OA :: t => PoolBlkSim.head_ok C w p /\ okrun t (fst (PoolConc.pvNewBlock C w p)) p
  | OD b j :: t => okd w b j /\ okrun t (PoolConc.pvDeleteBlock C w p (b, j)) p
  end.

Definition gstate : Type := Z * (Z -> Z) * (Z -> Z) * (Z -> Z) * (Z -> Z) * (Z -> Z).   (* head, bbFirst, bbCount, nextB, prevB, nfi *)

(* the GENERATED pvNewBlock / pvDeleteBlock3 iterated over the script; None = a call did not complete normally *)
Fixpoint grun2 (ops : list op) (fr hd : Z) (bf bcnt nx pv nfi : Z -> Z) : option (list Z * gstate) :=
  match ops with
  | [] => Some ([], (hd, bf, bcnt, nx, pv, nfi))
  | OA :: t =>
    match Gen_MemPoolBlk.pvNewBlock (adr fr) B A hd bf bcnt nx pv nfi false with
    | Ok (Some blk, hd', bf', bcnt', nx', pv') =>
      match grun2 t (if PoolBlk.requests hd bcnt nx then fr + 1 else fr) hd' bf' bcnt' nx' pv' nfi with
      | Some (l, st) => Some (blk :: l, st) | None => None end
    | _ => None
    end
  | OD b j :: t =>
    match Gen_MemPoolDel.pvDeleteBlock3 C B A hd 0 bf bcnt nx pv nfi (Gen_MemPool.pvGetBlock B A (adr b) j) (adr b) j with
    | Ok (_, hd', _, bf', bcnt', nx', pv', nfi') => grun2 t fr hd' bf' bcnt' nx' pv' nfi'
    | _ => None
    end
  end.

Theorem sim_run_alloc_dealloc_partial : forall ops w p hd bf bcnt nx pv nfi,
  PoolBlkSim.Sim C B A adr w p hd bf bcnt nx nfi -> okrun ops w p ->
  exists hd' bf' bcnt' nx' pv' nfi',
    grun2 ops (PoolConc.fresh w) hd bf bcnt nx pv nfi =
      Some (map (fun bk => Gen_MemPool.pvGetBlock B A (adr (fst bk)) (snd bk)) (fst (mrun2 ops w p)), (hd', bf', bcnt', nx', pv', nfi')) /\
    PoolBlkSim.Sim C B A adr (snd (mrun2 ops w p)) p hd' bf' bcnt' nx' nfi'.
Proof.
  induction ops as [|o ops IH]; intros w p hd bf bcnt nx pv nfi H Ok.
  - exists hd, bf, bcnt, nx, pv, nfi. split; [reflexivity|exact H].
  - destruct o as [|b j]; cbn [mrun2 grun2 okrun] in *.
    + destruct Ok as (Hh & Ok). pose proof (PoolBlkSim.sim_step C B A adr HC adr0 adr_inj w p hd bf bcnt nx pv nfi H Hh) as St.
      destruct (PoolConc.pvNewBlock C w p) as (w' & (b & i)). cbn [fst] in Ok.
      destruct St as (hd2 & bf2 & bc2 & nx2 & pv2 & E & Ef & H2). rewrite E, <- Ef.
      destruct (IH w' p hd2 bf2 bc2 nx2 pv2 nfi H2 Ok) as (hd' & bf' & bc' & nx' & pv' & nfi' & Er & Hf).
      rewrite Er. destruct (mrun2 ops w' p) as (l & wf). exists hd', bf', bc', nx', pv', nfi'. split; [reflexivity|exact Hf].
    + destruct Ok as ((Hb & Hj & Hc & N1 & NC) & Ok).
      destruct (sim_del_push_only_partial w p hd bf bcnt nx pv nfi b j H Hb Hj Hc N1 NC) as (bf2 & bc2 & nfi2 & E & H2).
      rewrite E.
      assert (PoolConc.fresh (PoolConc.pvDeleteBlock C w p (b, j)) = PoolConc.fresh w) as Ef.
      { destruct H2 as (_ & _ & _ & _ & _ & _ & _). unfold PoolConc.pvDeleteBlock. cbn [fst snd]. unfold PoolConc.push. cbn [fst snd].
        set (w1 := PoolConc.set_bytes _ _ _ _).
        assert (PoolConc.fc w1 b = PoolConc.fc w b + 1) as Efc by (unfold w1, PoolConc.set_bytes, PoolConc.set_nx; cbn [PoolConc.fc]; unfold upd; rewrite Z.eqb_refl; reflexivity).
        rewrite Efc. destruct (Z.eqb_spec (PoolConc.fc w b + 1) 1) as [|_]; [contradiction|]. rewrite Efc.
        destruct (Z.eqb_spec (PoolConc.fc w b + 1) C) as [|_]; [contradiction|]. reflexivity. }
      destruct (IH _ p hd bf2 bc2 nx pv nfi2 H2 Ok) as (hd' & bf' & bc' & nx' & pv' & nfi' & Er & Hf).
      rewrite Ef in Er. exists hd', bf', bc', nx', pv', nfi'. split; [exact Er|exact Hf].
Qed.
End DelSim.


(* ---------- non-vacuity: ALL hypotheses of the simulation theorems hold together for a concrete pool (blockCount 4, blockSize 8,
   alignment 8, buffer k at address 1024 * k, block (k, j) at 1024 k + 8 j + 8) in its initial state ---------- *)
Lemma blkaddr_4_8_8 k j : 0 <= j < 4 -> Gen_MemPool.pvGetBlock 8 8 (k * 1024) j = k * 1024 + j * 8 + 8.
Proof.
  intros Hj. unfold Gen_MemPool.pvGetBlock. change (wrapS 64 8) with 8. rewrite Z.geb_leb.
  destruct (Z.leb_spec 0 j); [|lia]. change (Z.land 8 (- (1))) with 8. reflexivity.
Qed.

Lemma sim_hypotheses_satisfiable :
  exists C B A adr,
    (forall a b, adr a = adr b -> a = b) /\
    (forall b j b' j', 0 <= j < C -> 0 <= j' < C ->
       Gen_MemPool.pvGetBlock B A (adr b) j = Gen_MemPool.pvGetBlock B A (adr b') j' -> b = b' /\ j = j') /\
    2 <= C /\ adr 0 = 0 /\
    exists p bf bcnt nx nfi, PoolBlkSim.Sim C B A adr PoolConc.empty_world p 0 bf bcnt nx nfi /\ PoolBlkSim.head_ok C PoolConc.empty_world p.
Proof.
  exists 4, 8, 8, (fun k => k * 1024).
  split; [intros a b E; lia|]. split.
  { intros b j b' j' Hj Hj'. rewrite !blkaddr_4_8_8 by assumption. lia. }
  split; [lia|]. split; [reflexivity|].
  exists false, (fun _ => 0), (fun _ => 4), (fun _ => 0), (fun a => PoolBlkSim.chainv 4 ((a mod 1024 - 8) / 8)).
  split; [|exact I].
  apply PoolBlkSim.sim_init; [reflexivity|]. intros k Hk. split; [reflexivity|]. split; [reflexivity|]. split; [reflexivity|].
  intros j Hj. rewrite blkaddr_4_8_8 by assumption. f_equal.
  replace (k * 1024 + j * 8 + 8) with (j * 8 + 8 + k * 1024) by lia. rewrite Z.mod_add by lia. rewrite Z.mod_small by lia.
  replace (j * 8 + 8 - 8) with (j * 8) by lia. apply Z.div_mul. lia.
Qed.
