// C10 oracle, part 1: momo sets and maps – merges (tree<->tree, hash<->hash, tree<->hash, equal / unequal memory
// managers, fast paths), extract / Insert(ExtractedItem&&), multi-element Insert, Remove by predicate.
#include "oracle_common.h"
using namespace c10;

struct HMSettings : momo::HashMapSettings { static const momo::ExtraCheckMode extraCheckMode = momo::ExtraCheckMode::nothing; };
struct TMSettings : momo::TreeMapSettings { static const momo::ExtraCheckMode extraCheckMode = momo::ExtraCheckMode::nothing; };

// ---- container makers ---------------------------------------------------------------------------------
template<typename E> struct MkHS { typedef HSet<E> T; static const bool multi = false; static T make(int mgr) { return T(htraits<T>(kit::MULT), kit::MM(mgr)); } };
template<typename E> struct MkHSD { typedef HSet<E, momo::HashBucketDefault> T; static const bool multi = false; static T make(int mgr) { return T(htraits<T>(kit::LOWBITS), kit::MM(mgr)); } };
template<typename E, bool M> struct MkTS { typedef TSet<E, M> T; static const bool multi = M; static T make(int mgr) { return T(typename T::TreeTraits(), kit::MM(mgr)); } };
template<typename E, bool M> struct MkTSD { typedef TSetD<E, M> T; static const bool multi = M; static T make(int mgr) { return T(typename T::TreeTraits(), kit::MM(mgr)); } };

// default settings (ExtraCheckMode::assertion): since b307610 a functor that throws inside the debug-only extra check of
// InsertCrt no longer turns into an assertion failure
template<typename E> struct MkHSX { typedef momo::HashSet<E, momo::HashTraitsStd<E, KHash, KEq>, kit::MM> T; static const bool multi = false;
	static T make(int mgr) { return T(typename T::HashTraits(8, KHash(kit::MULT), KEq()), kit::MM(mgr)); } };
template<typename E, bool M> struct MkTSX { typedef momo::TreeSet<E, momo::TreeTraitsStd<E, KLess, M>, kit::MM> T; static const bool multi = M;
	static T make(int mgr) { return T(typename T::TreeTraits(), kit::MM(mgr)); } };

// ---- coverage audit: further bucket kinds, hash distributions, node parameters, settings, crews -----------------
template<typename E, typename Bucket, int dist> struct MkHSB { typedef HSet<E, Bucket> T; static const bool multi = false;
	static T make(int mgr) { return T(htraits<T>(dist), kit::MM(mgr)); } };
template<typename E, bool M, typename Node> struct MkTSN { typedef momo::TreeSet<E, momo::TreeTraitsStd<E, KLess, M, Node>, kit::MM,
	momo::TreeSetItemTraits<E, kit::MM>, TSettings> T; static const bool multi = M; static T make(int mgr) { return T(typename T::TreeTraits(), kit::MM(mgr)); } };
template<typename E, bool M, typename Node> struct MkTSDN { typedef momo::TreeSet<E, momo::TreeTraits<E, M, Node>, kit::MM,
	momo::TreeSetItemTraits<E, kit::MM>, TSettings> T; static const bool multi = M; static T make(int mgr) { return T(typename T::TreeTraits(), kit::MM(mgr)); } };
typedef momo::TreeNode<4, 2, momo::MemPoolParams<2>, true> NodeSmall;          // capacity 4: splits / merges / height 3-5 with < 100 items
typedef momo::TreeNode<5, 1, momo::MemPoolParams<1>, false> NodeSmallIdx;      // non-continuous (index table) also for movable items
// checkVersion = false + an EMPTY memory manager: the inline crew (SetCrew<.., false>), sets really swap their managers / traits
template<typename E> struct MkHSI { typedef momo::HashSet<E, momo::HashTraitsStd<E, KHash, KEq>, momo::MemManagerDefault,
	momo::HashSetItemTraits<E, momo::MemManagerDefault>, HSettingsNV> T; static const bool multi = false;
	static T make(int) { return T(typename T::HashTraits(8, KHash(kit::MULT), KEq())); } };
template<typename E, bool M> struct MkTSI { typedef momo::TreeSet<E, momo::TreeTraits<E, M>, momo::MemManagerDefault,
	momo::TreeSetItemTraits<E, momo::MemManagerDefault>, TSettingsNV> T; static const bool multi = M;
	static T make(int) { return T(); } };
// checkVersion = false with the stateful kit manager (pointer crew without version)
template<typename E> struct MkHSNV { typedef momo::HashSet<E, momo::HashTraitsStd<E, KHash, KEq>, kit::MM, momo::HashSetItemTraits<E, kit::MM>, HSettingsNV> T;
	static const bool multi = false; static T make(int mgr) { return T(typename T::HashTraits(8, KHash(kit::MULT), KEq()), kit::MM(mgr)); } };

static void gen_values(Rnd& r, int mode, bool srcMulti, bool dstMulti, std::vector<int64_t>& src, std::vector<int64_t>& dst)
{
	int ns = r.chance(1, 8) ? 0 : r.range(1, r.chance(1, 3) ? 70 : 12);
	int nd = r.chance(1, 8) ? 0 : r.range(1, r.chance(1, 3) ? 70 : 12);
	int span = r.range(8, 90);
	if (mode == 4) { nd = 0; if (ns == 0) ns = 5; mode = 0; }      // empty destination, non-empty source: the Swap path
	if (mode >= 10)      // big ordered trees: many nodes, several full memory-pool buffers on both sides (fast merge path)
	{
		mode -= 10; ns = r.range(150, 900); nd = r.range(150, 900); span = 100000;
		for (int i = 0; i < ns; ++i) src.push_back(int64_t(i * 3 + (mode == 2 ? 50000 : 0)) * 100 + r.range(1, 49));
		for (int i = 0; i < nd; ++i) dst.push_back(int64_t(i * 3 + (mode == 1 ? 50000 : 0)) * 100 + r.range(50, 99));
		return;
	}
	std::set<int64_t> ks, kd;
	for (int i = 0; i < ns; ++i)
	{
		int64_t k = r.range(0, span);
		if (mode == 2) k += 200;
		if (mode == 3 && i == 0) k = span;                 // touching ranges: the largest source key == the smallest destination key
		if (!srcMulti && !ks.insert(k).second) continue;
		src.push_back(k * 100 + r.range(1, 49));
	}
	for (int i = 0; i < nd; ++i)
	{
		int64_t k = r.range(0, span);
		if (mode == 1) k += 200;
		if (mode == 3) k = (i == 0) ? span : k + span;
		if (!dstMulti && !kd.insert(k).second) continue;
		dst.push_back(k * 100 + r.range(50, 99));
	}
}

template<typename E, typename MS, typename MD>
static void merge_scenario(Report& rep, const char* name, uint64_t seed, int srcMgr, int dstMgr, int mode, bool from)
{
	enumerate_all(rep, name, [&] (int kind, long k) -> bool
	{
		Rnd r(seed);
		std::vector<int64_t> sv, dv;
		gen_values(r, mode, MS::multi, MD::multi, sv, dv);
		// both containers live on the heap so that the order of destruction can be chosen: by default the SOURCE dies first (a
		// destination that still points into the source's crew after a swap shows up as a kit error); for odd seeds the
		// source is refilled after the merge and the DESTINATION dies first
		std::unique_ptr<typename MD::T> dstp(new typename MD::T(MD::make(dstMgr)));
		std::unique_ptr<typename MS::T> srcp(new typename MS::T(MS::make(srcMgr)));
		typename MD::T& dst = *dstp; typename MS::T& src = *srcp;
		for (int64_t v : sv) src.Insert(E(v));
		for (int64_t v : dv) dst.Insert(E(v));
		size_t bk_d0 = bucket_count(dst, 0), th_d0 = tree_height(dst, 0), th_s0 = tree_height(src, 0);
		uint64_t moves0 = kit::W().n_move;
		MSet src0 = values(src), dst0 = values(dst), init = plus(src0, dst0);
		std::set<int64_t> dkeys0; for (auto& p : dst0) dkeys0.insert(keyof(p.first));
		Counters c0 = snap();
		arm_kind(kind, k);
		bool ok = true;
		try { if (from) dst.MergeFrom(src); else src.MergeTo(dst); }
		C10_CATCH_INJECTED(ok)
		bool f = done(kind);
		Counters c1 = snap();
		std::string tag = std::string(name) + " kind=" + std::to_string(kind) + " k=" + std::to_string(k) + (ok ? " (completed)" : " (threw)");
		{	// structural validity first: walking an invalid tree would follow dangling pointers
			std::string e1 = check_tree(src, 0), e2 = check_tree(dst, 0);
			if (!e1.empty()) rep.fail(tag + ": source tree invalid: " + e1); if (!e2.empty()) rep.fail(tag + ": destination tree invalid: " + e2);
			if (!e1.empty() || !e2.empty()) return false;
		}
		MSet s1 = values(src), d1 = values(dst);
		if (plus(s1, d1) != init) rep.fail(tag + ": src+dst not conserved: " + diffstr(plus(s1, d1), init) + " src=" + show(s1) + " dst=" + show(d1) + " initial src=" + show(src0) + " dst=" + show(dst0));
		if (!MD::multi && dup_keys(d1)) rep.fail(tag + ": duplicate key in unique destination " + show(d1));
		if (!MS::multi && dup_keys(s1)) rep.fail(tag + ": duplicate key in unique source " + show(s1));
		if (!MD::multi)
			for (auto& p : src0) if (dkeys0.count(keyof(p.first)) && !s1.count(p.first)) rep.fail(tag + ": refused item " + std::to_string(p.first) + " left the source");
		if (ok)
		{
			std::set<int64_t> dk; for (auto& p : d1) dk.insert(keyof(p.first));
			for (auto& p : s1) if (MD::multi || !dk.count(keyof(p.first))) rep.fail(tag + ": item " + std::to_string(p.first) + " stayed in the source although the destination accepts it");
		}
		{	// both trees are still in key order (also after a throw): a later merge / search relies on it
			std::string o1 = tree_order_error(src, MS::multi, 0), o2 = tree_order_error(dst, MD::multi, 0);
			if (!o1.empty()) rep.fail(tag + ": source tree out of key order: " + o1);
			if (!o2.empty()) rep.fail(tag + ": destination tree out of key order: " + o2);
		}
		if (MD::multi && tree_height(dst, 0) > 0)
		{
			// multi-key tree destination: among equivalent keys the destination's own items stay BEFORE the merged-in source items
			// (generic / linear insertion at the upper bound; the fast concatenation must respect it: 103bce4)
			std::set<int64_t> seen_src;
			for (const auto& e : dst)
			{
				int64_t v = e.Value(); bool from_src = (v % 100) < 50 && v < 99990000;
				if (from_src) seen_src.insert(keyof(v));
				else if (v < 99990000 && dst0.count(v) && seen_src.count(keyof(v))) { rep.fail(tag + ": destination item " + std::to_string(v) + " comes AFTER a merged-in source item with an equivalent key"); break; }
			}
		}
		if (E::movable && (c1.copy != c0.copy || c1.copy_assign != c0.copy_assign))
			rep.fail(tag + ": movable elements were copied (" + std::to_string(c1.copy - c0.copy) + " copy constructions, " + std::to_string(c1.copy_assign - c0.copy_assign) + " copy assignments)");
		size_t ns = 0; for (const auto& e : src) { (void)e; ++ns; } size_t nd = 0; for (const auto& e : dst) { (void)e; ++nd; }
		if (ns != src.GetCount() || nd != dst.GetCount()) rep.fail(tag + ": GetCount inconsistent with iteration");
		// usable afterwards
		for (auto& p : d1) if (!dst.ContainsKey(E(p.first))) { rep.fail(tag + ": destination item " + std::to_string(p.first) + " not findable"); break; }
		for (auto& p : s1) if (!src.ContainsKey(E(p.first))) { rep.fail(tag + ": source item " + std::to_string(p.first) + " not findable"); break; }
		dst.Insert(E(999901)); src.Insert(E(999902));
		if (!dst.ContainsKey(E(999901)) || !src.ContainsKey(E(999902))) rep.fail(tag + ": container unusable afterwards");
		// measured events
		if (k == 0 && kind == 0)
		{
			rep.ev(std::string("src_items_") + (sv.size() == 0 ? "0" : sv.size() <= 12 ? "1-12" : sv.size() <= 70 ? "13-70" : ">70"));
			rep.ev(std::string("dst_items_") + (dv.size() == 0 ? "0" : dv.size() <= 12 ? "1-12" : dv.size() <= 70 ? "13-70" : ">70"));
		}
		if (ok)
		{
			if (bucket_count(dst, 0) != bk_d0) rep.ev(bk_d0 == 0 ? "dst_hash_first_buckets" : "dst_hash_growth_with_existing_buckets");
			if (tree_height(dst, 0) != th_d0) rep.ev("dst_tree_height_changed");
			if (th_d0 >= 2) rep.ev("dst_tree_height>=2_before"); if (th_d0 >= 3) rep.ev("dst_tree_height>=3_before");
			if (th_s0 >= 2) rep.ev("src_tree_height>=2_before"); if (th_s0 >= 3) rep.ev("src_tree_height>=3_before");
			if (!s1.empty()) rep.ev("completed_with_refused_items");
			if (C10_CAT != kit::TRIV && C10_CAT != kit::CPY && src0.size() >= 8 && s1.empty() && kit::W().n_move - moves0 < src0.size())
				rep.ev("fast_or_swap_path_taken");
		}
		else rep.ev("threw_partway");
		if ((seed & 1) != 0)
		{
			// refill the source after the merge, destroy the destination first
			for (int i = 0; i < 60; ++i) src.Insert(E(int64_t(700000 + i) * 100 + 7));
			for (int i = 0; i < 60; ++i) if (!src.ContainsKey(E(int64_t(700000 + i) * 100))) { rep.fail(tag + ": refilled source lost an item"); break; }
			if (!check_tree(src, 0).empty()) rep.fail(tag + ": refilled source tree invalid: " + check_tree(src, 0));
			dstp.reset();
			size_t n2 = 0; for (const auto& e : src) { (void)e.Value(); ++n2; } if (n2 != src.GetCount()) rep.fail(tag + ": source unusable after the destination died");
			srcp.reset();
			rep.ev("refill_source_destination_dies_first");
		}
		else
		{
			srcp.reset();
			for (int i = 0; i < 40; ++i) dst.Insert(E(int64_t(800000 + i) * 100 + 8));
			size_t n2 = 0; for (const auto& e : dst) { (void)e.Value(); ++n2; } if (n2 != dst.GetCount()) rep.fail(tag + ": destination unusable after the source died");
			dstp.reset();
		}
		return f;
	});
}

// Set::Add(position, ExtractedItem&&): trees take the upper bound, hash sets the (empty) position returned by Find
template<typename D, typename X> static auto add_at(D& d, X& ext, int) -> decltype((void)d.GetUpperBound(ext.GetItem())) { d.Add(d.GetUpperBound(ext.GetItem()), std::move(ext)); }
template<typename D, typename X> static void add_at(D& d, X& ext, long) { d.Add(d.Find(ext.GetItem()), std::move(ext)); }

template<typename E, typename MS, typename MD>
static void extract_scenario(Report& rep, const char* name, uint64_t seed, int srcMgr, int dstMgr)
{
	enumerate_all(rep, name, [&] (int kind, long k) -> bool
	{
		Rnd r(seed);
		std::vector<int64_t> sv, dv;
		gen_values(r, 0, MS::multi, MD::multi, sv, dv);
		if (sv.empty()) sv.push_back(4242);
		typename MS::T src = MS::make(srcMgr);
		typename MD::T dst = MD::make(dstMgr);
		for (int64_t v : sv) src.Insert(E(v));
		for (int64_t v : dv) dst.Insert(E(v));
		MSet init = plus(values(src), values(dst));
		size_t pos = size_t(r.range(0, int(src.GetCount()) - 1));
		bool moveHolder = r.chance(1, 2);
		bool useAdd = r.chance(1, 2);
		auto it = src.GetBegin(); for (size_t i = 0; i < pos; ++i) ++it;
		int64_t xv = it->Value();
		bool present = !MD::multi && dst.ContainsKey(*it);
		Counters c0 = snap();
		std::string tag = std::string(name) + " kind=" + std::to_string(kind) + " k=" + std::to_string(k);
		auto check = [&] (const char* where, const MSet& held)
		{
			long sa = kit::W().fail_alloc, sc = kit::W().fail_copy, sf = kit::W().fail_func; kit::W().disarm();
			MSet all = plus(plus(values(src), values(dst)), held);
			if (all != init) rep.fail(tag + " " + where + ": src+dst+handle not conserved: handle=" + show(held) + " src=" + show(values(src)) + " dst=" + show(values(dst)));
			if (!MD::multi && dup_keys(values(dst))) rep.fail(tag + " " + where + ": duplicate key in destination");
			kit::W().fail_alloc = sa; kit::W().fail_copy = sc; kit::W().fail_func = sf;
		};
		arm_kind(kind, k);
		bool ok = true;
		try
		{
			typename MS::T::ExtractedItem ext = src.Extract(it);
			MSet h; if (!ext.IsEmpty()) add(h, ext.GetItem().Value());
			check("after extract", h);
			if (ext.IsEmpty() || ext.GetItem().Value() != xv) rep.fail(tag + ": extracted handle does not hold the item");
			typename MS::T::ExtractedItem ext2;
			if (moveHolder)
			{
				typename MS::T::ExtractedItem tmp(std::move(ext));
				if (!ext.IsEmpty()) rep.fail(tag + ": moved-from handle not empty");
				MSet h2; if (!tmp.IsEmpty()) add(h2, tmp.GetItem().Value());
				check("after handle move", h2);
				try { auto res = dst.Insert(std::move(tmp)); MSet h3; if (!tmp.IsEmpty()) add(h3, tmp.GetItem().Value()); check("after insert", h3);
					if (res.inserted == present) rep.fail(tag + ": inserted flag wrong");
					if (res.inserted != tmp.IsEmpty()) rep.fail(tag + ": handle emptiness does not match the inserted flag"); }
				catch (...) { MSet h3; if (!tmp.IsEmpty()) add(h3, tmp.GetItem().Value()); check("after failed insert", h3); throw; }
			}
			else if (!present && useAdd)
			{
				try { add_at(dst, ext, 0); MSet h3; if (!ext.IsEmpty()) add(h3, ext.GetItem().Value()); check("after Add(pos, handle)", h3);
					if (!ext.IsEmpty()) rep.fail(tag + ": handle not empty after Add(pos, handle)"); rep.ev("Add(pos+ExtractedItem)"); }
				catch (...) { MSet h3; if (!ext.IsEmpty()) add(h3, ext.GetItem().Value()); check("after failed Add(pos, handle)", h3); throw; }
			}
			else
			{
				try { auto res = dst.Insert(std::move(ext)); MSet h3; if (!ext.IsEmpty()) add(h3, ext.GetItem().Value()); check("after insert", h3);
					if (res.inserted == present) rep.fail(tag + ": inserted flag wrong");
					if (res.inserted != ext.IsEmpty()) rep.fail(tag + ": handle emptiness does not match the inserted flag"); }
				catch (...) { MSet h3; if (!ext.IsEmpty()) add(h3, ext.GetItem().Value()); check("after failed insert", h3); throw; }
			}
		}
		C10_CATCH_INJECTED(ok)
		bool f = done(kind);
		Counters c1 = snap();
		if (E::movable && (c1.copy != c0.copy || c1.copy_assign != c0.copy_assign)) rep.fail(tag + ": movable elements were copied during extract / re-insert");
		// after the handle died: either the item is in a container or (refused / failed) it was destroyed with the handle
		MSet all = plus(values(src), values(dst));
		if (!subset(all, init)) rep.fail(tag + ": elements appeared from nowhere");
		src.Insert(E(999902)); dst.Insert(E(999901));
		return f;
	});
}

template<typename E, typename MK>
static void insert_range_scenario(Report& rep, const char* name, uint64_t seed, bool il)
{
	enumerate_all(rep, name, [&] (int kind, long k) -> bool
	{
		Rnd r(seed);
		std::vector<int64_t> sv, dv;
		gen_values(r, 0, true, MK::multi, sv, dv);
		typename MK::T set = MK::make(1);
		for (int64_t v : dv) set.Insert(E(v));
		if (il) sv.resize(std::min<size_t>(sv.size(), 4)), sv.resize(4, 777);
		std::vector<E> items; items.reserve(sv.size());
		for (int64_t v : sv) items.emplace_back(v);
		MSet orig = values(set), ins; for (int64_t v : sv) add(ins, v);
		std::string tag = std::string(name) + " kind=" + std::to_string(kind) + " k=" + std::to_string(k);
		arm_kind(kind, k);
		bool ok = true;
		try
		{
			if (il) set.Insert({ items[0], items[1], items[2], items[3] });
			else set.Insert(items.begin(), items.end());
		}
		C10_CATCH_INJECTED(ok)
		bool f = done(kind);
		MSet now = values(set);
		if (!subset(now, plus(orig, ins))) rep.fail(tag + ": elements not a subset of original + inserted: " + show(now));
		if (!subset(orig, now)) rep.fail(tag + ": an original element disappeared");
		if (!MK::multi && dup_keys(now)) rep.fail(tag + ": duplicate keys " + show(now));
		if (ok) { std::set<int64_t> ks; for (auto& p : now) ks.insert(keyof(p.first)); for (int64_t v : sv) if (!ks.count(keyof(v))) rep.fail(tag + ": key of " + std::to_string(v) + " missing after completed insert"); }
		for (size_t i = 0; i < items.size(); ++i) if (items[i].Value() != sv[i]) rep.fail(tag + ": argument range modified");
		size_t n = 0; for (const auto& e : set) { (void)e; ++n; } if (n != set.GetCount()) rep.fail(tag + ": GetCount inconsistent");
		for (auto& p : now) if (!set.ContainsKey(E(p.first))) { rep.fail(tag + ": item not findable"); break; }
		set.Insert(E(999901));
		return f;
	});
}

template<typename E, typename MK>
static void remove_pred_scenario(Report& rep, const char* name, uint64_t seed)
{
	enumerate_all(rep, name, [&] (int kind, long k) -> bool
	{
		Rnd r(seed);
		std::vector<int64_t> sv, dv;
		gen_values(r, 0, true, MK::multi, sv, dv);
		typename MK::T set = MK::make(1);
		for (int64_t v : dv) set.Insert(E(v));
		for (int64_t v : sv) set.Insert(E(v));
		int mod = r.range(2, 4);
		MSet orig = values(set);
		auto pred = [mod] (const E& e) { kit::W().step_func(); return keyof(e.Value()) % mod == 0; };
		std::string tag = std::string(name) + " kind=" + std::to_string(kind) + " k=" + std::to_string(k);
		Counters c0 = snap();
		arm_kind(kind, k);
		bool ok = true; size_t removed = 0;
		try { removed = set.Remove(pred); }
		C10_CATCH_INJECTED(ok)
		bool f = done(kind);
		Counters c1 = snap();
		MSet now = values(set);
		if (!subset(now, orig)) rep.fail(tag + ": elements not a subset of the original");
		for (auto& p : orig) { auto it = now.find(p.first); int left = it == now.end() ? 0 : it->second; if (left < p.second && keyof(p.first) % mod != 0) rep.fail(tag + ": removed an item the predicate rejects"); }
		if (ok) { for (auto& p : now) if (keyof(p.first) % mod == 0) rep.fail(tag + ": completed Remove left a matching item");
			size_t no = 0; for (auto& p : orig) no += p.second; size_t nn = 0; for (auto& p : now) nn += p.second; if (no - nn != removed) rep.fail(tag + ": returned count wrong"); }
		if (E::movable && c1.copy != c0.copy) rep.fail(tag + ": movable elements were copy-constructed by Remove(pred)");
		size_t n = 0; for (const auto& e : set) { (void)e; ++n; } if (n != set.GetCount()) rep.fail(tag + ": GetCount inconsistent");
		for (auto& p : now) if (!set.ContainsKey(E(p.first))) { rep.fail(tag + ": item not findable"); break; }
		set.Insert(E(999901));
		return f;
	});
}

// ---- maps --------------------------------------------------------------------------------------------
template<typename E> using HMap = momo::HashMap<E, E, momo::HashTraitsStd<E, KHash, KEq, momo::HashBucketDefault>, kit::MM,
	momo::HashMapKeyValueTraits<E, E, kit::MM>, HMSettings>;
template<typename E> using TMap = momo::TreeMap<E, E, momo::TreeTraitsStd<E, KLess, false>, kit::MM,
	momo::TreeMapKeyValueTraits<E, E, kit::MM>, TMSettings>;
template<typename E> struct MkHM { typedef HMap<E> T; static T make(int mgr) { return T(typename T::HashTraits(8, KHash(kit::MULT), KEq()), kit::MM(mgr)); } };
template<typename E> struct MkTM { typedef TMap<E> T; static T make(int mgr) { return T(typename T::TreeTraits(), kit::MM(mgr)); } };

template<typename E, typename MS, typename MD, bool extract>
static void map_scenario(Report& rep, const char* name, uint64_t seed, int srcMgr, int dstMgr)
{
	enumerate_all(rep, name, [&] (int kind, long k) -> bool
	{
		Rnd r(seed);
		std::vector<int64_t> sv, dv;
		gen_values(r, 0, false, false, sv, dv);
		if (sv.empty()) sv.push_back(4242);
		typename MS::T src = MS::make(srcMgr);
		typename MD::T dst = MD::make(dstMgr);
		for (int64_t v : sv) src.Insert(E(v), E(v % 100 + 7000));
		for (int64_t v : dv) dst.Insert(E(v), E(v % 100 + 8000));
		MSet s0 = pair_values(src), d0 = pair_values(dst), init = plus(s0, d0);
		std::set<int64_t> dkeys0; for (auto ref : dst) dkeys0.insert(keyof(ref.key.Value()));
		std::string tag = std::string(name) + " kind=" + std::to_string(kind) + " k=" + std::to_string(k);
		Counters c0 = snap();
		MSet held;
		arm_kind(kind, k);
		bool ok = true;
		try
		{
			if constexpr (!extract) src.MergeTo(dst);
			else
			{
				auto it = src.GetBegin(); size_t pos = size_t(r.range(0, int(src.GetCount()) - 1)); for (size_t i = 0; i < pos; ++i) ++it;
				typename MS::T::ExtractedPair ext = src.Extract(it);
				auto rec = [&held] (typename MS::T::ExtractedPair& e) { if (!e.IsEmpty()) add(held, e.GetKey().Value() * 100000 + e.GetValue().Value()); };
				try
				{
					typename MS::T::ExtractedPair ext2(std::move(ext));
					try { dst.Insert(std::move(ext2)); } catch (...) { rec(ext2); throw; }
					rec(ext2);
				}
				catch (...) { rec(ext); throw; }
			}
		}
		C10_CATCH_INJECTED(ok)
		bool f = done(kind);
		Counters c1 = snap();
		MSet s1 = pair_values(src), d1 = pair_values(dst);
		bool lenient = false;
		if (plus(plus(s1, d1), held) != init)
		{
			if (!ok && !E::movable && only_values_changed(plus(plus(s1, d1), held), init)) { ++rep.documented; lenient = true; }
			else rep.fail(tag + ": key/value pairs not conserved: " + diffstr(plus(plus(s1, d1), held), init) + " src=" + show(s1) + " dst=" + show(d1) + " handle=" + show(held));
		}
		{ std::set<int64_t> ks; for (auto ref : dst) if (!ks.insert(keyof(ref.key.Value())).second) rep.fail(tag + ": duplicate key in destination map"); }
		if (!extract && !lenient) for (auto& p : s0) if (dkeys0.count(keyof(p.first / 100000)) && !s1.count(p.first)) rep.fail(tag + ": refused pair left the source");
		if (ok && !extract) { std::set<int64_t> dk; for (auto ref : dst) dk.insert(keyof(ref.key.Value())); for (auto ref : src) if (!dk.count(keyof(ref.key.Value()))) rep.fail(tag + ": pair stayed in the source although accepted"); }
		if (E::movable && (c1.copy != c0.copy || c1.copy_assign != c0.copy_assign)) rep.fail(tag + ": movable keys/values were copied");
		for (auto ref : dst) if (!dst.ContainsKey(ref.key)) { rep.fail(tag + ": destination key not findable"); break; }
		for (auto ref : src) if (!src.ContainsKey(ref.key)) { rep.fail(tag + ": source key not findable"); break; }
		dst.Insert(E(999901), E(1)); src.Insert(E(999902), E(2));
		return f;
	});
}

// ---- fast-hashable keys: HashTraits<uint64_t> (HashCoder, IsFastNothrowHashable) selects Bucket<ItemTraits, false> -----------
template<typename HB>
static void fast_hash_scenario(Report& rep, const char* name, uint64_t seed, int op)
{
	typedef momo::HashTraits<uint64_t, HB> FT;
	typedef momo::HashSet<uint64_t, FT, kit::MM, momo::HashSetItemTraits<uint64_t, kit::MM>, HSettings> FS;
	static_assert(FT::isFastNothrowHashable, "uint64_t keys must select the fast-hash bucket variant");
	for (long k = 0; k < 3000; ++k)      // only allocations can fail here
	{
		bool f;
		{
			Rnd r(seed);
			std::vector<uint64_t> sv, dv; std::set<uint64_t> ks, kd;
			int ns = r.range(1, r.chance(1, 2) ? 200 : 10), nd = r.range(0, r.chance(1, 2) ? 200 : 10);
			for (int i = 0; i < ns; ++i) { uint64_t x = uint64_t(r.range(0, 500)); if (ks.insert(x).second) sv.push_back(x); }
			for (int i = 0; i < nd; ++i) { uint64_t x = uint64_t(r.range(0, 500)); if (kd.insert(x).second) dv.push_back(x); }
			FS src{ FT(), kit::MM(1) }, dst{ FT(), kit::MM(op == 0 ? 2 : 1) };
			for (auto x : sv) src.Insert(x); for (auto x : dv) dst.Insert(x);
			std::multiset<uint64_t> init(sv.begin(), sv.end()); init.insert(dv.begin(), dv.end());
			std::multiset<uint64_t> held;
			std::string tag = std::string(name) + " k=" + std::to_string(k);
			kit::W().arm(k, -1, -1);
			bool ok = true;
			try
			{
				if (op == 0) src.MergeTo(dst);
				else if (op == 1) { auto ext = src.Extract(src.GetBegin()); try { dst.Insert(std::move(ext)); } catch (...) { if (!ext.IsEmpty()) held.insert(ext.GetItem()); throw; } if (!ext.IsEmpty()) held.insert(ext.GetItem()); }
				else if (op == 2) dst.Insert(sv.begin(), sv.end());
				else dst.Remove([] (const uint64_t& x) { return x % 3 == 0; });
			}
			catch (const std::bad_alloc&) { ok = false; }
			f = kit::W().fail_alloc < 0; kit::W().disarm();
			std::multiset<uint64_t> all(held);
			for (auto x : dst) all.insert(x);
			if (op <= 1) { for (auto x : src) all.insert(x); if (all != init) rep.fail(tag + ": fast-hash set: items not conserved"); }
			else if (op == 2) { for (auto x : dv) if (!dst.ContainsKey(x)) rep.fail(tag + ": original item lost"); for (auto x : dst) if (!ks.count(x) && !kd.count(x)) rep.fail(tag + ": foreign item"); if (ok) for (auto x : sv) if (!dst.ContainsKey(x)) rep.fail(tag + ": argument missing"); }
			else { for (auto x : dst) if (!kd.count(x)) rep.fail(tag + ": foreign item"); for (auto x : dv) if (x % 3 != 0 && !dst.ContainsKey(x)) rep.fail(tag + ": kept item lost"); if (ok) for (auto x : dst) if (x % 3 == 0) rep.fail(tag + ": matching item left"); }
			std::set<uint64_t> uniq; for (auto x : dst) if (!uniq.insert(x).second) rep.fail(tag + ": duplicate key");
			if (k == 0 && bucket_count(dst, 0) > 8) rep.ev("fast_hash_growth_reached");
			dst.Insert(999999); src.Insert(999998);
		}
		std::string sum = kit::summary();
		if (sum != "0 0 0") { rep.fail(std::string(name) + " k=" + std::to_string(k) + ": live blocks/objects/errors " + sum); kit::W().errors.clear(); kit::W().blocks.clear(); }
		if (!f) break;
		++rep.points;
	}
}

// ---- scenario table ----------------------------------------------------------------------------------
static const char* SCEN[] = {
	"merge_hs_hs_eq", "merge_hs_hs_ne", "merge_hsd_hsd", "merge_hs_hsd_from",
	"merge_ts_ts", "merge_tsm_tsm", "merge_ts_tsm",
	"merge_tsd_tsd_eq", "merge_tsd_tsd_eq_ordered", "merge_tsd_tsd_eq_ordered_rev", "merge_tsd_tsd_ne", "merge_tsdm_tsdm_eq", "merge_tsdm_tsdm_ordered", "merge_tsd_tsd_eq_touching", "merge_tsdm_tsdm_touching", "merge_tsd_tsd_eq_ordered_big", "merge_tsd_tsd_eq_ordered_rev_big",
	"merge_hsx_hsx_extracheck", "merge_tsx_tsx_extracheck", "merge_tsx_hsx_extracheck", "merge_ts_hs", "merge_hs_ts", "merge_hsd_tsm", "merge_tsd_hsd_from",
	"extract_hs_hs", "extract_ts_ts", "extract_hs_hsd", "extract_ts_tsm", "extract_tsm_tsm",
	"insert_range_hsd", "insert_range_ts", "insert_range_tsm", "insert_il_hs", "insert_il_tsd",
	"remove_pred_hsd", "remove_pred_hs", "remove_pred_ts", "remove_pred_tsm",
	// coverage audit: bucket kinds, distributions, node parameters, crews, fast-hash keys
	"merge_limp_limp", "merge_unlimp_unlimp", "merge_open2n2_open2n2", "merge_openn1_openn1", "merge_limp1_lim4", "merge_one_open8",
	"merge_hs_const_hash", "merge_hs_highbits_hash", "insert_range_limp", "remove_pred_unlimp", "extract_limp_limp",
	"merge_tssmall_tssmall", "merge_tssmallidx_tssmallidx", "merge_tsdsmall_tsdsmall_ordered", "merge_tsdsmall_tsdsmall", "extract_tssmall_tssmall", "remove_pred_tssmall", "insert_range_tssmall",
	"merge_hs_inlinecrew", "merge_tsd_inlinecrew_empty_dst", "merge_tsd_inlinecrew_ordered", "merge_hs_noversion", "extract_hs_inlinecrew",
	"fasthash_merge", "fasthash_extract", "fasthash_insert_range", "fasthash_remove_pred",
	"fasthash_open8_merge", "fasthash_open8_extract", "fasthash_open8_insert_range", "fasthash_open8_remove_pred",
	"map_merge_hm_hm", "map_merge_tm_tm", "map_merge_hm_tm", "map_merge_tm_hm", "map_extract_hm_hm", "map_extract_tm_tm",
};

template<int C>
static void run_scenario(Report& rep, const std::string& s, uint64_t seed)
{
	typedef LE<C> E;
	const char* n = s.c_str();
	if (s == "merge_hs_hs_eq") merge_scenario<E, MkHS<E>, MkHS<E>>(rep, n, seed, 1, 1, 0, false);
	else if (s == "merge_hs_hs_ne") merge_scenario<E, MkHS<E>, MkHS<E>>(rep, n, seed, 1, 2, 0, false);
	else if (s == "merge_hsd_hsd") merge_scenario<E, MkHSD<E>, MkHSD<E>>(rep, n, seed, 1, 2, 0, false);
	else if (s == "merge_hs_hsd_from") merge_scenario<E, MkHS<E>, MkHSD<E>>(rep, n, seed, 1, 1, 0, true);
	else if (s == "merge_ts_ts") merge_scenario<E, MkTS<E, false>, MkTS<E, false>>(rep, n, seed, 1, 1, 0, false);
	else if (s == "merge_tsm_tsm") merge_scenario<E, MkTS<E, true>, MkTS<E, true>>(rep, n, seed, 1, 2, 0, false);
	else if (s == "merge_ts_tsm") merge_scenario<E, MkTS<E, false>, MkTS<E, true>>(rep, n, seed, 1, 1, 0, true);
	else if (s == "merge_tsd_tsd_eq") merge_scenario<E, MkTSD<E, false>, MkTSD<E, false>>(rep, n, seed, 1, 1, 0, false);
	else if (s == "merge_tsd_tsd_eq_ordered") merge_scenario<E, MkTSD<E, false>, MkTSD<E, false>>(rep, n, seed, 1, 1, 1, false);
	else if (s == "merge_tsd_tsd_eq_ordered_rev") merge_scenario<E, MkTSD<E, false>, MkTSD<E, false>>(rep, n, seed, 1, 1, 2, true);
	else if (s == "merge_tsd_tsd_ne") merge_scenario<E, MkTSD<E, false>, MkTSD<E, false>>(rep, n, seed, 1, 2, 0, false);
	else if (s == "merge_tsdm_tsdm_eq") merge_scenario<E, MkTSD<E, true>, MkTSD<E, true>>(rep, n, seed, 1, 1, 0, false);
	else if (s == "merge_tsdm_tsdm_ordered") merge_scenario<E, MkTSD<E, true>, MkTSD<E, true>>(rep, n, seed, 1, 1, 1, false);
	else if (s == "merge_tsd_tsd_eq_touching") merge_scenario<E, MkTSD<E, false>, MkTSD<E, false>>(rep, n, seed, 1, 1, 3, false);
	else if (s == "merge_tsdm_tsdm_touching") merge_scenario<E, MkTSD<E, true>, MkTSD<E, true>>(rep, n, seed, 1, 1, 3, true);
	else if (s == "merge_tsd_tsd_eq_ordered_big") merge_scenario<E, MkTSD<E, false>, MkTSD<E, false>>(rep, n, seed, 1, 1, 11, false);
	else if (s == "merge_tsd_tsd_eq_ordered_rev_big") merge_scenario<E, MkTSD<E, false>, MkTSD<E, false>>(rep, n, seed, 1, 1, 12, true);
	else if (s == "merge_hsx_hsx_extracheck") merge_scenario<E, MkHSX<E>, MkHSX<E>>(rep, n, seed, 1, 2, 0, false);
	else if (s == "merge_tsx_tsx_extracheck") merge_scenario<E, MkTSX<E, false>, MkTSX<E, false>>(rep, n, seed, 1, 1, 0, false);
	else if (s == "merge_tsx_hsx_extracheck") merge_scenario<E, MkTSX<E, true>, MkHSX<E>>(rep, n, seed, 1, 2, 0, true);
	else if (s == "merge_ts_hs") merge_scenario<E, MkTS<E, false>, MkHS<E>>(rep, n, seed, 1, 2, 0, false);
	else if (s == "merge_hs_ts") merge_scenario<E, MkHS<E>, MkTS<E, false>>(rep, n, seed, 1, 1, 0, false);
	else if (s == "merge_hsd_tsm") merge_scenario<E, MkHSD<E>, MkTS<E, true>>(rep, n, seed, 2, 1, 0, false);
	else if (s == "merge_tsd_hsd_from") merge_scenario<E, MkTSD<E, false>, MkHSD<E>>(rep, n, seed, 1, 2, 0, true);
	else if (s == "extract_hs_hs") extract_scenario<E, MkHS<E>, MkHS<E>>(rep, n, seed, 1, 1);
	else if (s == "extract_ts_ts") extract_scenario<E, MkTS<E, false>, MkTS<E, false>>(rep, n, seed, 1, 2);
	else if (s == "extract_hs_hsd") extract_scenario<E, MkHS<E>, MkHSD<E>>(rep, n, seed, 1, 1);
	else if (s == "extract_ts_tsm") extract_scenario<E, MkTS<E, false>, MkTS<E, true>>(rep, n, seed, 1, 2);
	else if (s == "extract_tsm_tsm") extract_scenario<E, MkTS<E, true>, MkTS<E, true>>(rep, n, seed, 1, 1);
	else if (s == "insert_range_hsd") insert_range_scenario<E, MkHSD<E>>(rep, n, seed, false);
	else if (s == "insert_range_ts") insert_range_scenario<E, MkTS<E, false>>(rep, n, seed, false);
	else if (s == "insert_range_tsm") insert_range_scenario<E, MkTS<E, true>>(rep, n, seed, false);
	else if (s == "insert_il_hs") insert_range_scenario<E, MkHS<E>>(rep, n, seed, true);
	else if (s == "insert_il_tsd") insert_range_scenario<E, MkTSD<E, false>>(rep, n, seed, true);
	else if (s == "remove_pred_hsd") remove_pred_scenario<E, MkHSD<E>>(rep, n, seed);
	else if (s == "remove_pred_hs") remove_pred_scenario<E, MkHS<E>>(rep, n, seed);
	else if (s == "remove_pred_ts") remove_pred_scenario<E, MkTS<E, false>>(rep, n, seed);
	else if (s == "remove_pred_tsm") remove_pred_scenario<E, MkTS<E, true>>(rep, n, seed);
	else if (s == "merge_limp_limp") merge_scenario<E, MkHSB<E, momo::HashBucketLimP<>, kit::MULT>, MkHSB<E, momo::HashBucketLimP<>, kit::LOWBITS>>(rep, n, seed, 1, 2, 0, false);
	else if (s == "merge_unlimp_unlimp") merge_scenario<E, MkHSB<E, momo::HashBucketUnlimP<>, kit::MOD7>, MkHSB<E, momo::HashBucketUnlimP<>, kit::MULT>>(rep, n, seed, 1, 1, 0, false);
	else if (s == "merge_open2n2_open2n2") merge_scenario<E, MkHSB<E, momo::HashBucketOpen2N2<>, kit::MULT>, MkHSB<E, momo::HashBucketOpen2N2<>, kit::IDENT>>(rep, n, seed, 1, 1, 0, true);
	else if (s == "merge_openn1_openn1") merge_scenario<E, MkHSB<E, momo::HashBucketOpenN1<>, kit::MULT>, MkHSB<E, momo::HashBucketOpenN1<>, kit::LOWBITS>>(rep, n, seed, 1, 2, 0, false);
	else if (s == "merge_limp1_lim4") merge_scenario<E, MkHSB<E, momo::HashBucketLimP1<>, kit::MULT>, MkHSB<E, momo::HashBucketLim4<>, kit::MULT>>(rep, n, seed, 1, 1, 0, false);
	else if (s == "merge_one_open8") merge_scenario<E, MkHSB<E, momo::HashBucketOne<>, kit::MULT>, MkHSB<E, momo::HashBucketOpen8, kit::MULT>>(rep, n, seed, 1, 2, 0, false);
	else if (s == "merge_hs_const_hash") merge_scenario<E, MkHSB<E, momo::HashBucketLimP4<>, kit::CONST>, MkHSB<E, momo::HashBucketLimP4<>, kit::CONST>>(rep, n, seed, 1, 1, 0, false);
	else if (s == "merge_hs_highbits_hash") merge_scenario<E, MkHSB<E, momo::HashBucketOpen8, kit::HIGHBITS>, MkHSB<E, momo::HashBucketLimP4<>, kit::HIGHBITS>>(rep, n, seed, 1, 2, 0, false);
	else if (s == "insert_range_limp") insert_range_scenario<E, MkHSB<E, momo::HashBucketLimP<>, kit::MULT>>(rep, n, seed, false);
	else if (s == "remove_pred_unlimp") remove_pred_scenario<E, MkHSB<E, momo::HashBucketUnlimP<>, kit::MOD7>>(rep, n, seed);
	else if (s == "extract_limp_limp") extract_scenario<E, MkHSB<E, momo::HashBucketLimP<>, kit::MULT>, MkHSB<E, momo::HashBucketLimP<>, kit::MULT>>(rep, n, seed, 1, 1);
	else if (s == "merge_tssmall_tssmall") merge_scenario<E, MkTSN<E, false, NodeSmall>, MkTSN<E, false, NodeSmall>>(rep, n, seed, 1, 2, 0, false);
	else if (s == "merge_tssmallidx_tssmallidx") merge_scenario<E, MkTSN<E, true, NodeSmallIdx>, MkTSN<E, true, NodeSmallIdx>>(rep, n, seed, 1, 1, 0, true);
	else if (s == "merge_tsdsmall_tsdsmall_ordered") merge_scenario<E, MkTSDN<E, false, NodeSmall>, MkTSDN<E, false, NodeSmall>>(rep, n, seed, 1, 1, 1, false);
	else if (s == "merge_tsdsmall_tsdsmall") merge_scenario<E, MkTSDN<E, false, NodeSmallIdx>, MkTSDN<E, false, NodeSmallIdx>>(rep, n, seed, 1, 1, 2, false);
	else if (s == "extract_tssmall_tssmall") extract_scenario<E, MkTSN<E, false, NodeSmall>, MkTSN<E, false, NodeSmall>>(rep, n, seed, 1, 1);
	else if (s == "remove_pred_tssmall") remove_pred_scenario<E, MkTSN<E, false, NodeSmall>>(rep, n, seed);
	else if (s == "insert_range_tssmall") insert_range_scenario<E, MkTSN<E, false, NodeSmallIdx>>(rep, n, seed, false);
	else if (s == "merge_hs_inlinecrew") merge_scenario<E, MkHSI<E>, MkHSI<E>>(rep, n, seed, 1, 1, 0, false);
	else if (s == "merge_tsd_inlinecrew_empty_dst") merge_scenario<E, MkTSI<E, false>, MkTSI<E, false>>(rep, n, seed, 1, 1, 4, false);
	else if (s == "merge_tsd_inlinecrew_ordered") merge_scenario<E, MkTSI<E, true>, MkTSI<E, true>>(rep, n, seed, 1, 1, 1, true);
	else if (s == "merge_hs_noversion") merge_scenario<E, MkHSNV<E>, MkHSNV<E>>(rep, n, seed, 1, 2, 0, true);
	else if (s == "extract_hs_inlinecrew") extract_scenario<E, MkHSI<E>, MkHSI<E>>(rep, n, seed, 1, 1);
	else if (s == "fasthash_merge") fast_hash_scenario<momo::HashBucketDefault>(rep, n, seed, 0);
	else if (s == "fasthash_extract") fast_hash_scenario<momo::HashBucketDefault>(rep, n, seed, 1);
	else if (s == "fasthash_insert_range") fast_hash_scenario<momo::HashBucketDefault>(rep, n, seed, 2);
	else if (s == "fasthash_remove_pred") fast_hash_scenario<momo::HashBucketDefault>(rep, n, seed, 3);
	else if (s == "fasthash_open8_merge") fast_hash_scenario<momo::HashBucketOpen8>(rep, n, seed, 0);
	else if (s == "fasthash_open8_extract") fast_hash_scenario<momo::HashBucketOpen8>(rep, n, seed, 1);
	else if (s == "fasthash_open8_insert_range") fast_hash_scenario<momo::HashBucketOpen8>(rep, n, seed, 2);
	else if (s == "fasthash_open8_remove_pred") fast_hash_scenario<momo::HashBucketOpen8>(rep, n, seed, 3);
	else if (s == "map_merge_hm_hm") map_scenario<E, MkHM<E>, MkHM<E>, false>(rep, n, seed, 1, 2);
	else if (s == "map_merge_tm_tm") map_scenario<E, MkTM<E>, MkTM<E>, false>(rep, n, seed, 1, 1);
	else if (s == "map_merge_hm_tm") map_scenario<E, MkHM<E>, MkTM<E>, false>(rep, n, seed, 1, 1);
	else if (s == "map_merge_tm_hm") map_scenario<E, MkTM<E>, MkHM<E>, false>(rep, n, seed, 1, 2);
	else if (s == "map_extract_hm_hm") map_scenario<E, MkHM<E>, MkHM<E>, true>(rep, n, seed, 1, 1);
	else if (s == "map_extract_tm_tm") map_scenario<E, MkTM<E>, MkTM<E>, true>(rep, n, seed, 1, 2);
	else rep.fail("unknown scenario " + s);
}

// compiled once per category (-DC10_CAT=kit::NTM ...) to keep each translation unit small
#ifndef C10_CAT
#define C10_CAT kit::NTM
#endif
static const char* cat_name() { return C10_CAT == kit::TRIV ? "TRIV" : C10_CAT == kit::NTM ? "NTM" : C10_CAT == kit::SMH ? "SMH" : C10_CAT == kit::THM ? "THM" : "CPY"; }

// the classes that the configurations REALLY instantiate (checked by prop.py against the intended ones)
static void print_types()
{
	typedef LE<C10_CAT> E;
	std::cout << "cat " << cat_name() << " trivially_relocatable=" << momo::internal::ObjectManager<E, kit::MM>::isTriviallyRelocatable
		<< " nothrow_relocatable=" << momo::internal::ObjectManager<E, kit::MM>::isNothrowRelocatable
		<< " nothrow_anyway_assignable=" << momo::internal::ObjectManager<E, kit::MM>::isNothrowAnywayAssignable << "\n";
	std::cout << "bucket hs_open8 " << type_name(typeid(typename MkHS<E>::T::Bucket)) << "\n";
	std::cout << "bucket hs_default " << type_name(typeid(typename MkHSD<E>::T::Bucket)) << "\n";
	std::cout << "bucket limp " << type_name(typeid(typename MkHSB<E, momo::HashBucketLimP<>, kit::MULT>::T::Bucket)) << "\n";
	std::cout << "bucket unlimp " << type_name(typeid(typename MkHSB<E, momo::HashBucketUnlimP<>, kit::MULT>::T::Bucket)) << "\n";
	std::cout << "bucket open2n2 " << type_name(typeid(typename MkHSB<E, momo::HashBucketOpen2N2<>, kit::MULT>::T::Bucket)) << "\n";
	std::cout << "bucket openn1 " << type_name(typeid(typename MkHSB<E, momo::HashBucketOpenN1<>, kit::MULT>::T::Bucket)) << "\n";
	std::cout << "bucket limp1 " << type_name(typeid(typename MkHSB<E, momo::HashBucketLimP1<>, kit::MULT>::T::Bucket)) << "\n";
	std::cout << "bucket lim4 " << type_name(typeid(typename MkHSB<E, momo::HashBucketLim4<>, kit::MULT>::T::Bucket)) << "\n";
	std::cout << "bucket one " << type_name(typeid(typename MkHSB<E, momo::HashBucketOne<>, kit::MULT>::T::Bucket)) << "\n";
	typedef momo::HashSet<uint64_t, momo::HashTraits<uint64_t>, kit::MM, momo::HashSetItemTraits<uint64_t, kit::MM>, HSettings> FS;
	std::cout << "bucket fasthash " << type_name(typeid(FS::Bucket)) << "\n";
	typedef momo::HashSet<uint64_t, momo::HashTraits<uint64_t, momo::HashBucketOpen8>, kit::MM, momo::HashSetItemTraits<uint64_t, kit::MM>, HSettings> FS8;
	std::cout << "bucket fasthash_open8 " << type_name(typeid(FS8::Bucket)) << "\n";
	std::cout << "node ts_default " << type_name(typeid(typename MkTS<E, false>::T::Node)) << "\n";
	std::cout << "node ts_small " << type_name(typeid(typename MkTSN<E, false, NodeSmall>::T::Node)) << "\n";
	std::cout << "node ts_smallidx " << type_name(typeid(typename MkTSN<E, false, NodeSmallIdx>::T::Node)) << "\n";
	std::cout << "crew hs_kitmm " << type_name(typeid(typename MkHS<E>::T::Crew)) << "\n";
	std::cout << "crew hs_inline " << type_name(typeid(typename MkHSI<E>::T::Crew)) << " is_inline=" << std::is_base_of<momo::MemManagerDefault, typename MkHSI<E>::T::Crew>::value << "\n";
	std::cout << "crew tsd_inline " << type_name(typeid(typename MkTSI<E, false>::T::Crew)) << " is_inline=" << std::is_base_of<momo::MemManagerDefault, typename MkTSI<E, false>::T::Crew>::value << "\n";
	std::cout << "crew hs_noversion " << type_name(typeid(typename MkHSNV<E>::T::Crew)) << "\n";
	std::cout << "traits tsd_empty=" << std::is_empty<typename MkTSD<E, false>::T::TreeTraits>::value << " ts_functor_empty=" << std::is_empty<typename MkTS<E, false>::T::TreeTraits>::value << "\n";
}

int main(int argc, char** argv)
{
	if (argc > 1 && std::string(argv[1]) == "--list")
	{
		for (const char* s : SCEN) std::cout << s << " " << cat_name() << "\n";
		return 0;
	}
	if (argc > 1 && std::string(argv[1]) == "--types") { print_types(); return 0; }
	std::string line;
	while (std::getline(std::cin, line))
	{
		std::vector<std::string> w = split(line);
		Report rep;
		if (w.size() < 3 || w[1] != cat_name()) { std::cout << "BAD points=0 malformed case / wrong category for this executable\n"; continue; }
		run_scenario<C10_CAT>(rep, w[0], std::stoull(w[2]));
		std::cout << rep.str() << std::endl;
	}
	return 0;
}
