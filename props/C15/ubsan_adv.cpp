// C15: one small translation unit built with -fsanitize=undefined -fno-sanitize-recover=all in EVERY tier: iterator `operator+=` on
// boundary diffs (fix e44962b: the index sum must not be formed in a signed type) for Array (external / internal capacity),
// SegmentedArray and the raw iterators of a DataSelection.  Lines: `g adv <ar|ai|sa> cnt idx diff`, `g rawadv cnt idx diff`,
// `g rawarrow cnt idx`, `g mhadv cnt idx diff`, `g mharrow cnt idx` (DataRawMultiHashIterator of FindByMultiHash bounds); output as harness3.cpp (A=<new index> | A | R | CRASH..).  Each case runs in a forked child.
#include "private_access.h"
#include <unistd.h>
#include <signal.h>
#include <sys/wait.h>
#include "momo/Array.h"
#include "momo/SegmentedArray.h"
#include "momo/DataTable.h"
using namespace momo;
typedef MemManagerDefault MMD;
struct AS : ArraySettings<0, true, false> { static const CheckMode checkMode = CheckMode::exception; };
struct AIS : ArraySettings<4, true, false> { static const CheckMode checkMode = CheckMode::exception; };
struct SAS : SegmentedArraySettings<> { static const CheckMode checkMode = CheckMode::exception; };
struct DTS : DataSettings<true> { static const CheckMode checkMode = CheckMode::exception; static const bool checkVersion = true; };
typedef Array<int, MMD, ArrayItemTraits<int, MMD>, AS> AR;
typedef Array<int, MMD, ArrayItemTraits<int, MMD>, AIS> ARI;
typedef SegmentedArray<int, MMD, SegmentedArrayItemTraits<int, MMD>, SAS> SA;
typedef DataColumnList<DataColumnTraits<>, MMD, DataItemTraits<MMD>, DTS> DCL;
typedef DataTable<DCL> DT;
static const DataColumn<int> valCol("valCol");

template<class F> static std::string attempt(F f)
{
	try { f(); } catch (const std::invalid_argument&) { return "R"; } catch (const std::exception&) { return "X"; }
	return "A";
}
template<class A> static std::string adv(long long cnt, long long idx, long long diff)
{
	A a; for (long long i = 0; i < cnt; ++i) a.AddBack(int(i));
	auto it = a.GetBegin(); it += ptrdiff_t(idx);
	std::string r = attempt([&] { it += ptrdiff_t(diff); });
	return r == "A" ? "A=" + std::to_string((long long)(it - a.GetBegin())) : r;
}
static std::string dispatch(const std::string& line)
{
	std::istringstream is(line); std::string g, what, k; is >> g >> what;
	if (what == "adv")
	{
		long long c, i, d; is >> k >> c >> i >> d;
		return k == "ar" ? adv<AR>(c, i, d) : k == "ai" ? adv<ARI>(c, i, d) : adv<SA>(c, i, d);
	}
	long long c = 0, i = 0, d = 0; is >> c >> i >> d;
	if (what == "mhadv" || what == "mharrow")
	{
		// FindByMultiHash bounds of c rows (DataRawMultiHashIterator under DataRowIterator); the model takes mRaw0 / mRawBegin != null
		// from c (c > 0 / c > 1): checked here against the real fields
		DT t(DCL({ valCol })); auto mhi = t.AddMultiHashIndex(valCol);
		for (long long j = 0; j < c; ++j) t.AddRow(valCol = 5);
		auto hb = t.FindByMultiHash(mhi, valCol == 5);
		if ((long long)hb.GetCount() != c) return "?count";
		auto it = hb.GetBegin();
		if ((it.mRawIterator.mRaw0 != nullptr) != (c > 0) || (it.mRawIterator.mRawBegin != nullptr) != (c > 1) || (long long)it.mRawIterator.mRawCount != c) return "?rawbegin";
		if (i != 0) it += ptrdiff_t(i);
		if (what == "mhadv") { std::string r = attempt([&] { it += ptrdiff_t(d); });
			return r == "A" ? "A=" + std::to_string((long long)(it - hb.GetBegin())) : r; }
		return attempt([&] { volatile int x = (*it)[valCol]; (void)x; });
	}
	DT t(DCL({ valCol })); for (long long j = 0; j < c; ++j) t.AddRow(valCol = int(j));
	auto sel = t.Select();
	auto raws = sel.GetBegin();             // DataRowIterator over DataRawIterator
	if (what == "rawadv") { raws += ptrdiff_t(i); std::string r = attempt([&] { raws += ptrdiff_t(d); });
		return r == "A" ? "A=" + std::to_string((long long)(raws - sel.GetBegin())) : r; }
	if (what == "rawarrow") { raws += ptrdiff_t(i); return attempt([&] { volatile int x = (*raws)[valCol]; (void)x; }); }
	return "?what";
}
int main()
{
	std::string line;
	int timedOut = 0;
	while (std::getline(std::cin, line))
	{
		if (timedOut >= 6) { printf("CRASH skipped (6 cases already ran into the 10 s limit)\n"); continue; }
		int fd[2]; if (pipe(fd) != 0) return 3;
		fflush(stdout);
		pid_t pid = fork();
		if (pid == 0)
		{
			alarm(10); close(fd[0]);
			std::string res = dispatch(line);
			if (write(fd[1], res.data(), res.size()) < 0) _exit(4);
			_exit(0);
		}
		close(fd[1]);
		std::string res; char buf[1024]; ssize_t n;
		while ((n = read(fd[0], buf, sizeof buf)) > 0) res.append(buf, size_t(n));
		close(fd[0]);
		int st = 0; waitpid(pid, &st, 0);
		if (WIFSIGNALED(st) && WTERMSIG(st) == SIGALRM) ++timedOut;
		if (WIFSIGNALED(st)) res = "CRASH signal " + std::to_string(WTERMSIG(st));
		else if (WEXITSTATUS(st) != 0) res = "CRASH exit " + std::to_string(WEXITSTATUS(st)) + " (sanitizer)";
		printf("%s\n", res.c_str());
	}
	return 0;
}
